(* Proofs about the basic-indexing pipeline (model: Indexing.v):
   A. replace_ellipsis / normalize_index: acceptance, errors, preserved meaning;
   B. slice_with_newaxes / ExpandDims: where the None axes land. *)
From DA Require Import PyBase PyBaseFacts Slicing NormalizeFacts Slice1dBase Slice1dFacts Indexing.
From Coq Require Import ZifyBool.
Open Scope Z_scope.
Ltac Zify.zify_post_hook ::= Z.to_euclidean_division_equations.

(* ---------------------------------------------------------------------- *)
(* counting *)

Lemma countZ_nil {A} (p : A -> bool) : countZ p [] = 0.
Proof. reflexivity. Qed.

Lemma countZ_cons {A} (p : A -> bool) x l : countZ p (x :: l) = (if p x then 1 else 0) + countZ p l.
Proof. unfold countZ. cbn [filter]. destruct (p x); [rewrite lenZ_cons|]; lia. Qed.

Lemma countZ_app {A} (p : A -> bool) l1 l2 : countZ p (l1 ++ l2) = countZ p l1 + countZ p l2.
Proof. unfold countZ. rewrite filter_app, lenZ_app. reflexivity. Qed.

Lemma countZ_nonneg {A} (p : A -> bool) l : 0 <= countZ p l.
Proof. apply lenZ_nonneg. Qed.

Lemma countZ_repeat {A} (p : A -> bool) x n : countZ p (repeat x n) = if p x then Z.of_nat n else 0.
Proof.
  induction n as [|n IH]; [destruct (p x); reflexivity|].
  cbn [repeat]. rewrite countZ_cons, IH. destruct (p x); lia.
Qed.

Lemma countZ_colons (p : ielem -> bool) k : countZ p (colons k) = if p (ESlice colon) then Z.max 0 k else 0.
Proof. unfold colons. rewrite countZ_repeat. destruct (p (ESlice colon)); lia. Qed.

Definition is_consuming (e : ielem) : bool := match e with EInt _ | ESlice _ => true | _ => false end.

Lemma consumed_eq idx : consumed idx = countZ is_consuming idx.
Proof. reflexivity. Qed.

(* every entry is None, consuming, or an Ellipsis *)
Lemma count_split idx :
  countZ not_none idx = consumed idx + countZ is_ellipsis idx /\
  lenZ idx = countZ is_none idx + countZ not_none idx.
Proof.
  rewrite consumed_eq. induction idx as [|e t [IH1 IH2]]; [split; reflexivity|].
  rewrite lenZ_cons, !countZ_cons. destruct e; cbn [not_none is_none is_ellipsis is_consuming negb]; lia.
Qed.

Lemma existsb_count idx : existsb is_ellipsis idx = false <-> countZ is_ellipsis idx = 0.
Proof.
  induction idx as [|e t IH]; [split; reflexivity|].
  cbn [existsb]. rewrite countZ_cons. pose proof (countZ_nonneg is_ellipsis t).
  destruct (is_ellipsis e); cbn [orb]; [split; [discriminate | lia]|].
  rewrite IH. lia.
Qed.

(* ---------------------------------------------------------------------- *)
(* replace_ellipsis *)

Lemma split_first_ellipsis_some index pre post :
  split_first_ellipsis index = Some (pre, post) ->
  index = pre ++ EEllipsis :: post /\ existsb is_ellipsis pre = false.
Proof.
  revert pre post. induction index as [|e t IH]; intros pre post H; [discriminate|].
  destruct e; cbn [split_first_ellipsis] in H;
    try (destruct (split_first_ellipsis t) as [[a b]|]; [|discriminate];
         injection H as <- <-; destruct (IH a b eq_refl) as [-> Hp]; split; [reflexivity | exact Hp]).
  injection H as <- <-. split; reflexivity.
Qed.

Lemma split_first_ellipsis_none index :
  split_first_ellipsis index = None -> existsb is_ellipsis index = false.
Proof.
  induction index as [|e t IH]; intros H; [reflexivity|].
  destruct e; cbn [split_first_ellipsis] in H; try discriminate;
    destruct (split_first_ellipsis t) as [[a b]|]; try discriminate; exact (IH eq_refl).
Qed.

Lemma np_expand_at_app fill pre post :
  existsb is_ellipsis pre = false ->
  np_expand_at fill (pre ++ EEllipsis :: post) = pre ++ fill ++ post.
Proof.
  induction pre as [|e t IH]; intros H; [reflexivity|].
  cbn [existsb] in H. apply orb_false_iff in H as [He Ht].
  destruct e; try discriminate; cbn [app np_expand_at]; rewrite IH by exact Ht; reflexivity.
Qed.

(* replace_ellipsis followed by the padding of normalize_index is NumPy's expansion *)
Lemma countZ_mid {A} (p : A -> bool) pre x post :
  countZ p (pre ++ x :: post) = countZ p pre + (if p x then 1 else 0) + countZ p post.
Proof. rewrite countZ_app, countZ_cons. lia. Qed.

Theorem expand_is_np_expand rank idx :
  countZ is_ellipsis idx <= 1 -> consumed idx <= rank ->
  pad_index rank (replace_ellipsis rank idx) = np_expand rank idx.
Proof.
  intros He Hc. unfold pad_index, replace_ellipsis, np_expand.
  pose proof (count_split idx) as [H1 H2].
  destruct (split_first_ellipsis idx) as [[pre post]|] eqn:Hs.
  - destruct (split_first_ellipsis_some _ _ _ Hs) as [Hidx Hpre]. clear Hs. subst idx.
    rewrite existsb_app. cbn [existsb is_ellipsis orb]. rewrite orb_true_r.
    rewrite np_expand_at_app by exact Hpre.
    change consumed with (countZ is_consuming) in *. rewrite !countZ_mid in *. cbn [is_ellipsis is_consuming not_none is_none negb] in *.
    pose proof (countZ_nonneg is_ellipsis pre). pose proof (countZ_nonneg is_ellipsis post).
    pose proof (count_split pre) as [Hp1 _]. pose proof (count_split post) as [Hp2 _]. change consumed with (countZ is_consuming) in *.
    replace (rank - (lenZ (pre ++ EEllipsis :: post) - (countZ is_none pre + 0 + countZ is_none post) - 1))
      with (rank - (countZ is_consuming pre + 0 + countZ is_consuming post)) by lia.
    set (fill := colons (rank - (countZ is_consuming pre + 0 + countZ is_consuming post))).
    assert (countZ not_none (pre ++ fill ++ post) = rank) as Hn.
    { rewrite !countZ_app. unfold fill. rewrite countZ_colons. cbn [not_none is_none negb]. lia. }
    rewrite Hn, Z.sub_diag. unfold colons at 1. cbn [Z.to_nat repeat]. apply app_nil_r.
  - pose proof (split_first_ellipsis_none _ Hs) as Hx. rewrite Hx.
    apply existsb_count in Hx. rewrite H1, Hx, Z.add_0_r. reflexivity.
Qed.

Lemma existsb_colons k : existsb is_ellipsis (colons k) = false.
Proof. unfold colons. induction (Z.to_nat k) as [|n IH]; [reflexivity | exact IH]. Qed.

(* the expanded index has no Ellipsis and consumes every axis *)
Theorem np_expand_shape rank idx :
  countZ is_ellipsis idx <= 1 -> consumed idx <= rank ->
  existsb is_ellipsis (np_expand rank idx) = false /\
  consumed (np_expand rank idx) = rank /\
  countZ is_none (np_expand rank idx) = countZ is_none idx.
Proof.
  intros He Hc. unfold np_expand.
  set (fill := colons (rank - consumed idx)).
  assert (consumed fill = rank - consumed idx) as Hf.
  { unfold fill. rewrite consumed_eq, countZ_colons. cbn [is_consuming]. lia. }
  assert (countZ is_none fill = 0) as Hfn by (unfold fill; rewrite countZ_colons; reflexivity).
  assert (existsb is_ellipsis fill = false) as Hfe by apply existsb_colons.
  clearbody fill.
  destruct (existsb is_ellipsis idx) eqn:Hx.
  - destruct (split_first_ellipsis idx) as [[pre post]|] eqn:Hs.
    2: { apply split_first_ellipsis_none in Hs. congruence. }
    destruct (split_first_ellipsis_some _ _ _ Hs) as [Hidx Hpre]. clear Hs. subst idx.
    rewrite np_expand_at_app by exact Hpre.
    change consumed with (countZ is_consuming) in *. rewrite !countZ_mid in *. cbn [is_ellipsis is_consuming is_none] in *.
    pose proof (countZ_nonneg is_ellipsis pre). pose proof (countZ_nonneg is_ellipsis post).
    split; [|split].
    + rewrite !existsb_app, Hpre, Hfe. apply existsb_count. lia.
    + rewrite !countZ_app. lia.
    + rewrite !countZ_app. lia.
  - split; [|split].
    + rewrite existsb_app, Hx. exact Hfe.
    + change consumed with (countZ is_consuming) in *. rewrite countZ_app. lia.
    + rewrite countZ_app, Hfn. lia.
Qed.

(* ---------------------------------------------------------------------- *)
(* check_index loop, zero steps *)

Fixpoint ints_in_bounds (idx : list ielem) (shape : list Z) : Prop :=
  match idx with
  | [] => True
  | ENone :: t => ints_in_bounds t shape
  | EInt i :: t => match shape with n :: sh => - n <= i < n /\ ints_in_bounds t sh | [] => False end
  | ESlice _ :: t => match shape with _ :: sh => ints_in_bounds t sh | [] => False end
  | EEllipsis :: t => False
  end.

Fixpoint steps_nonzero (idx : list ielem) : Prop :=
  match idx with
  | [] => True
  | ESlice s :: t => step_of s <> 0 /\ steps_nonzero t
  | _ :: t => steps_nonzero t
  end.

Lemma np_valid_split idx : forall shape,
  np_valid idx shape <-> ints_in_bounds idx shape /\ steps_nonzero idx.
Proof.
  induction idx as [|e t IH]; intros shape; [cbn; tauto|].
  destruct e, shape as [|n sh]; cbn [np_valid ints_in_bounds steps_nonzero]; rewrite ?IH; tauto.
Qed.

Lemma check_int_spec n i : check_int n i = true <-> - n <= i < n.
Proof. unfold check_int. lia. Qed.

(* on an Ellipsis-free index that fits the shape, the loop can only raise IndexError,
   and it passes exactly when every integer is inside [-n, n) *)
Lemma check_all_spec idx : forall shape,
  existsb is_ellipsis idx = false -> countZ not_none idx <= lenZ shape ->
  (check_all idx shape = None /\ ints_in_bounds idx shape) \/
  (check_all idx shape = Some NIndexError /\ ~ ints_in_bounds idx shape).
Proof.
  induction idx as [|e t IH]; intros shape Hx Hc; [left; split; [reflexivity | exact I]|].
  cbn [existsb] in Hx. apply orb_false_iff in Hx as [He Ht].
  rewrite countZ_cons in Hc. pose proof (countZ_nonneg not_none t) as Hnn.
  destruct e; try discriminate; cbn [not_none is_none negb] in Hc.
  - destruct shape as [|n sh]; [change (lenZ (@nil Z)) with 0 in Hc; lia|].
    rewrite lenZ_cons in Hc. cbn [check_all ints_in_bounds].
    destruct (check_int n i) eqn:Ei.
    + apply check_int_spec in Ei. destruct (IH sh Ht ltac:(lia)) as [[H1 H2]|[H1 H2]]; [left | right]; tauto.
    + right. split; [reflexivity|]. intros [H _]. apply check_int_spec in H. congruence.
  - destruct shape as [|n sh]; [change (lenZ (@nil Z)) with 0 in Hc; lia|].
    rewrite lenZ_cons in Hc. cbn [check_all ints_in_bounds]. apply IH; [exact Ht | lia].
  - cbn [check_all ints_in_bounds]. apply IH; [exact Ht | lia].
Qed.

(* a leftover Ellipsis (a second one) always makes the loop raise *)
Lemma check_all_ellipsis idx : forall shape,
  existsb is_ellipsis idx = true -> countZ not_none idx <= lenZ shape ->
  check_all idx shape <> None.
Proof.
  induction idx as [|e t IH]; intros shape Hx Hc; [discriminate|].
  rewrite countZ_cons in Hc. pose proof (countZ_nonneg not_none t) as Hnn.
  destruct e; cbn [existsb is_ellipsis orb] in Hx; cbn [not_none is_none negb] in Hc.
  - destruct shape as [|n sh]; [change (lenZ (@nil Z)) with 0 in Hc; lia|].
    rewrite lenZ_cons in Hc. cbn [check_all]. destruct (check_int n i); [|discriminate].
    apply IH; [exact Hx | lia].
  - destruct shape as [|n sh]; [change (lenZ (@nil Z)) with 0 in Hc; lia|].
    rewrite lenZ_cons in Hc. cbn [check_all]. apply IH; [exact Hx | lia].
  - cbn [check_all]. apply IH; [exact Hx | lia].
  - destruct shape as [|n sh]; [change (lenZ (@nil Z)) with 0 in Hc; lia|]. cbn [check_all]. discriminate.
Qed.

(* the loop only ever raises IndexError or TypeError *)
Lemma check_all_err idx : forall shape e,
  check_all idx shape = Some e -> e = NIndexError \/ e = NTypeError.
Proof.
  induction idx as [|x t IH]; intros shape e H; [discriminate|].
  destruct x; cbn [check_all] in H; try (exact (IH _ _ H));
    destruct shape as [|n sh]; try discriminate.
  - destruct (check_int n i); [exact (IH _ _ H)|]. injection H as <-. left. reflexivity.
  - exact (IH _ _ H).
  - injection H as <-. right. reflexivity.
Qed.

Lemma has_zero_step_spec idx : has_zero_step idx = false <-> steps_nonzero idx.
Proof.
  induction idx as [|e t IH]; [cbn; tauto|].
  destruct e; cbn [has_zero_step steps_nonzero]; try exact IH.
  rewrite orb_false_iff, IH. unfold step_of.
  destruct (s_step s) as [k|]; [destruct k|]; split; intros [H1 H2]; split;
    try assumption; try reflexivity; try discriminate; try lia; try congruence.
Qed.

(* ---------------------------------------------------------------------- *)
(* normalize_index *)

Definition accepted (idx : list ielem) (shape : list Z) : Prop :=
  countZ is_ellipsis idx <= 1 /\ consumed idx <= lenZ shape /\
  np_valid (np_expand (lenZ shape) idx) shape.

Lemma replace_keeps_second_ellipsis rank idx :
  2 <= countZ is_ellipsis idx -> existsb is_ellipsis (pad_index rank (replace_ellipsis rank idx)) = true.
Proof.
  intros H. unfold pad_index, replace_ellipsis.
  destruct (split_first_ellipsis idx) as [[pre post]|] eqn:Hs.
  - destruct (split_first_ellipsis_some _ _ _ Hs) as [Hidx Hpre].
    apply existsb_count in Hpre.
    rewrite Hidx, countZ_app, countZ_cons in H. cbn [is_ellipsis] in H.
    rewrite !existsb_app.
    destruct (existsb is_ellipsis post) eqn:Hp; [rewrite !orb_true_r; reflexivity|].
    apply existsb_count in Hp. lia.
  - apply split_first_ellipsis_none, existsb_count in Hs. lia.
Qed.

Lemma replace_count_ge rank idx :
  consumed idx <= countZ not_none (pad_index rank (replace_ellipsis rank idx)).
Proof.
  unfold pad_index. rewrite countZ_app.
  pose proof (countZ_nonneg not_none (colons (rank - countZ not_none (replace_ellipsis rank idx)))) as Hp.
  assert (consumed idx <= countZ not_none (replace_ellipsis rank idx)); [|lia].
  unfold replace_ellipsis.
  destruct (split_first_ellipsis idx) as [[pre post]|] eqn:Hs.
  - destruct (split_first_ellipsis_some _ _ _ Hs) as [Hidx _]. clear Hs.
    set (fill := colons _). clearbody fill. subst idx.
    change consumed with (countZ is_consuming). rewrite countZ_mid, !countZ_app. cbn [is_consuming].
    pose proof (countZ_nonneg not_none fill).
    pose proof (count_split pre) as [Hp1 _]. pose proof (count_split post) as [Hp2 _].
    change consumed with (countZ is_consuming) in *.
    pose proof (countZ_nonneg is_ellipsis pre). pose proof (countZ_nonneg is_ellipsis post). lia.
  - pose proof (count_split idx) as [H1 _]. pose proof (countZ_nonneg is_ellipsis idx). lia.
Qed.

Theorem normalize_index_ok idx shape idx' :
  normalize_index idx shape = NOk idx' ->
  accepted idx shape /\ idx' = norm_entries (np_expand (lenZ shape) idx) shape.
Proof.
  unfold normalize_index. set (rank := lenZ shape).
  set (idx1 := pad_index rank (replace_ellipsis rank idx)).
  destruct (countZ not_none idx1 >? rank) eqn:Hmany; [discriminate|].
  intros H.
  assert (countZ is_ellipsis idx <= 1) as He.
  { destruct (Z_le_gt_dec (countZ is_ellipsis idx) 1) as [Hle|Hgt]; [exact Hle|].
    pose proof (replace_keeps_second_ellipsis rank idx ltac:(lia)) as Hx. fold idx1 in Hx.
    pose proof (check_all_ellipsis idx1 shape Hx ltac:(lia)) as Hc.
    destruct (check_all idx1 shape) as [e|] eqn:Hca; [|contradiction].
    destruct (check_all_err _ _ _ Hca) as [-> | ->]; discriminate. }
  assert (consumed idx <= rank) as Hc.
  { pose proof (replace_count_ge rank idx) as Hg. fold idx1 in Hg. lia. }
  assert (idx1 = np_expand rank idx) as Heq by (apply expand_is_np_expand; assumption).
  destruct (np_expand_shape rank idx He Hc) as (Hx & Hcons & _).
  clearbody idx1. subst idx1.
  destruct (check_all_spec (np_expand rank idx) shape Hx ltac:(lia)) as [[H1 H2]|[H1 H2]]; rewrite H1 in H; [|discriminate].
  destruct (has_zero_step (np_expand rank idx)) eqn:Hz; [discriminate|].
  injection H as <-. split; [|reflexivity].
  split; [exact He|]. split; [exact Hc|].
  apply np_valid_split. split; [exact H2|]. apply has_zero_step_spec. exact Hz.
Qed.

Theorem normalize_index_accepts idx shape :
  accepted idx shape ->
  normalize_index idx shape = NOk (norm_entries (np_expand (lenZ shape) idx) shape).
Proof.
  intros (He & Hc & Hv). unfold normalize_index. set (rank := lenZ shape) in *.
  rewrite (expand_is_np_expand rank idx He Hc).
  destruct (np_expand_shape rank idx He Hc) as (Hx & Hcons & _).
  pose proof (count_split (np_expand rank idx)) as [H1 _].
  pose proof (proj1 (existsb_count _) Hx) as H0.
  assert (countZ not_none (np_expand rank idx) >? rank = false) as -> by lia.
  apply np_valid_split in Hv as [Hb Hs].
  destruct (check_all_spec (np_expand rank idx) shape Hx ltac:(lia)) as [[H2 _]|[_ H2]]; [|contradiction].
  rewrite H2. apply has_zero_step_spec in Hs. rewrite Hs. reflexivity.
Qed.

Theorem normalize_index_accepts_iff idx shape :
  (exists idx', normalize_index idx shape = NOk idx') <-> accepted idx shape.
Proof.
  split.
  - intros [idx' H]. exact (proj1 (normalize_index_ok _ _ _ H)).
  - intros H. eexists. apply normalize_index_accepts. exact H.
Qed.

(* more index entries than axes: IndexError, whatever else the index contains *)
Theorem too_many_indices_raise idx shape :
  lenZ shape < consumed idx -> normalize_index idx shape = NIndexError.
Proof.
  intros H. unfold normalize_index.
  pose proof (replace_count_ge (lenZ shape) idx) as Hg.
  assert (countZ not_none (pad_index (lenZ shape) (replace_ellipsis (lenZ shape) idx)) >? lenZ shape = true) as -> by lia.
  reflexivity.
Qed.

(* two or more Ellipsis: never accepted (IndexError for too many entries, else TypeError
   from comparing the leftover Ellipsis with an int, or IndexError from an earlier integer) *)
Theorem multiple_ellipsis_raise idx shape :
  2 <= countZ is_ellipsis idx -> forall idx', normalize_index idx shape <> NOk idx'.
Proof.
  intros H idx' Hn. apply normalize_index_ok in Hn as [(He & _) _]. lia.
Qed.

(* an integer outside [-n, n) on its axis: IndexError (never wrapped) *)
Theorem out_of_bounds_raises idx shape :
  countZ is_ellipsis idx <= 1 -> consumed idx <= lenZ shape ->
  ~ ints_in_bounds (np_expand (lenZ shape) idx) shape ->
  normalize_index idx shape = NIndexError.
Proof.
  intros He Hc Hb. unfold normalize_index. set (rank := lenZ shape) in *.
  rewrite (expand_is_np_expand rank idx He Hc).
  destruct (np_expand_shape rank idx He Hc) as (Hx & Hcons & _).
  pose proof (count_split (np_expand rank idx)) as [H1 _].
  pose proof (proj1 (existsb_count _) Hx) as H0.
  assert (countZ not_none (np_expand rank idx) >? rank = false) as -> by lia.
  destruct (check_all_spec (np_expand rank idx) shape Hx ltac:(lia)) as [[_ H2]|[H2 _]]; [contradiction|].
  rewrite H2. reflexivity.
Qed.

Corollary out_of_bounds_int_1d n i : ~ (- n <= i < n) -> normalize_index [EInt i] [n] = NIndexError.
Proof.
  intros H. apply out_of_bounds_raises.
  - rewrite countZ_cons, countZ_nil. cbn. lia.
  - rewrite consumed_eq, countZ_cons, countZ_nil. cbn. lia.
  - change (lenZ [n]) with 1. unfold np_expand. cbn [existsb is_ellipsis orb].
    rewrite consumed_eq, countZ_cons, countZ_nil. cbn [is_consuming]. change (colons (1 - (1 + 0))) with (@nil ielem).
    cbn [app ints_in_bounds]. tauto.
Qed.

(* ---------------------------------------------------------------------- *)
(* the normalized index means the same thing and is in normal form *)

Lemma posify_in_range n i : - n <= i < n -> 0 <= posify_int n i < n /\ posify_int n i = np_int_pos n i.
Proof. unfold posify_int, np_int_pos. intros H. destruct (i <? 0) eqn:E; lia. Qed.

Lemma np_int_pos_nonneg n p : 0 <= p -> np_int_pos n p = p.
Proof. unfold np_int_pos. intros H. destruct (p <? 0) eqn:E; lia. Qed.

Lemma norm_entries_meaning idx : forall shape,
  Forall (fun n => 0 <= n) shape -> np_valid idx shape ->
  np_meaning (norm_entries idx shape) shape = np_meaning idx shape.
Proof.
  induction idx as [|e t IH]; intros shape Hs Hv; [reflexivity|].
  destruct e; cbn [np_valid] in Hv.
  - destruct shape as [|n sh]; [contradiction|]. destruct Hv as [Hi Hv].
    inversion Hs as [|? ? Hn Hs']; subst.
    cbn [norm_entries np_meaning]. rewrite IH by assumption.
    destruct (posify_in_range n i Hi) as [Hr He]. rewrite np_int_pos_nonneg by lia. rewrite He. reflexivity.
  - destruct shape as [|n sh]; [contradiction|]. destruct Hv as [Hk Hv].
    inversion Hs as [|? ? Hn Hs']; subst.
    cbn [norm_entries np_meaning]. rewrite IH by assumption.
    rewrite normalize_slice_sel by assumption. reflexivity.
  - cbn [norm_entries np_meaning]. rewrite IH by assumption. reflexivity.
  - contradiction.
Qed.

Theorem normalize_index_meaning idx shape idx' :
  Forall (fun n => 0 <= n) shape ->
  normalize_index idx shape = NOk idx' ->
  np_meaning idx' shape = np_meaning (np_expand (lenZ shape) idx) shape.
Proof.
  intros Hs H. apply normalize_index_ok in H as [(He & Hc & Hv) ->].
  apply norm_entries_meaning; assumption.
Qed.

(* normal form: integers in [0, n), slices `normalized`, no Ellipsis, every axis consumed *)
Fixpoint index_normalized (idx : list ielem) (shape : list Z) : Prop :=
  match idx with
  | [] => shape = []
  | ENone :: t => index_normalized t shape
  | EInt i :: t => match shape with n :: sh => 0 <= i < n /\ index_normalized t sh | [] => False end
  | ESlice s :: t => match shape with n :: sh => normalized s n /\ index_normalized t sh | [] => False end
  | EEllipsis :: t => False
  end.

Lemma norm_entries_normalized idx : forall shape,
  Forall (fun n => 0 <= n) shape -> np_valid idx shape -> consumed idx = lenZ shape ->
  index_normalized (norm_entries idx shape) shape.
Proof.
  induction idx as [|e t IH]; intros shape Hs Hv Hc.
  - destruct shape as [|n sh]; [reflexivity|]. rewrite lenZ_cons in Hc. pose proof (lenZ_nonneg sh).
    rewrite consumed_eq, countZ_nil in Hc. lia.
  - change consumed with (countZ is_consuming) in *. rewrite countZ_cons in Hc.
    destruct e; cbn [np_valid] in Hv; cbn [is_consuming] in Hc.
    + destruct shape as [|n sh]; [contradiction|]. destruct Hv as [Hi Hv].
      inversion Hs as [|? ? Hn Hs']; subst. rewrite lenZ_cons in Hc.
      cbn [norm_entries index_normalized]. split; [apply posify_in_range; exact Hi|].
      apply IH; [assumption | assumption | lia].
    + destruct shape as [|n sh]; [contradiction|]. destruct Hv as [Hk Hv].
      inversion Hs as [|? ? Hn Hs']; subst. rewrite lenZ_cons in Hc.
      cbn [norm_entries index_normalized]. split; [apply normalize_slice_normalized; assumption|].
      apply IH; [assumption | assumption | lia].
    + cbn [norm_entries index_normalized]. apply IH; [assumption | assumption | lia].
    + contradiction.
Qed.

Theorem normalize_index_normalized idx shape idx' :
  Forall (fun n => 0 <= n) shape ->
  normalize_index idx shape = NOk idx' -> index_normalized idx' shape.
Proof.
  intros Hs H. apply normalize_index_ok in H as [(He & Hc & Hv) ->].
  apply norm_entries_normalized; [assumption | assumption|].
  apply np_expand_shape; assumption.
Qed.

(* ---------------------------------------------------------------------- *)
(* B. None entries: slice_with_newaxes + ExpandDims *)

Definition takes_value (e : ielem) : bool := negb (is_none e) && negb (is_int e).

Lemma py_insert_at_end {A} (done rest : list A) v :
  py_insert (done ++ rest) (lenZ done) v = (done ++ [v]) ++ rest.
Proof.
  unfold py_insert. rewrite firstnZ_lenZ_app.
  unfold skipnZ, lenZ. rewrite Nat2Z.id, skipn_app, skipn_all, Nat.sub_diag. cbn [skipn app].
  rewrite <- app_assoc. reflexivity.
Qed.

Lemma insert_axes_kept_view {A} (v : A) idx : forall pos nints (done vals : list A),
  lenZ done = pos - nints -> lenZ vals = countZ takes_value idx ->
  fold_left (fun acc ax => py_insert acc ax v) (where_none_from pos nints idx) (done ++ vals) =
  done ++ kept_view vals v idx.
Proof.
  induction idx as [|e t IH]; intros pos nints done vals Hd Hv.
  - rewrite countZ_nil in Hv. destruct vals as [|x vals]; [reflexivity|].
    rewrite lenZ_cons in Hv. pose proof (lenZ_nonneg vals). lia.
  - rewrite countZ_cons in Hv.
    destruct e; cbn [takes_value is_none is_int negb andb] in Hv; cbn [where_none_from kept_view fold_left].
    + apply IH; lia.
    + destruct vals as [|x vals]; [change (lenZ (@nil A)) with 0 in Hv; pose proof (countZ_nonneg takes_value t); lia|].
      rewrite lenZ_cons in Hv.
      replace (done ++ x :: vals) with ((done ++ [x]) ++ vals) by (rewrite <- app_assoc; reflexivity).
      rewrite IH; [rewrite <- app_assoc; reflexivity | rewrite lenZ_app; change (lenZ [x]) with 1; lia | lia].
    + rewrite <- Hd, py_insert_at_end.
      rewrite IH; [rewrite <- app_assoc; reflexivity | rewrite lenZ_app; change (lenZ [v]) with 1; lia | lia].
    + destruct vals as [|x vals]; [change (lenZ (@nil A)) with 0 in Hv; pose proof (countZ_nonneg takes_value t); lia|].
      rewrite lenZ_cons in Hv.
      replace (done ++ x :: vals) with ((done ++ [x]) ++ vals) by (rewrite <- app_assoc; reflexivity).
      rewrite IH; [rewrite <- app_assoc; reflexivity | rewrite lenZ_app; change (lenZ [x]) with 1; lia | lia].
Qed.

(* the axes recorded by slice_with_newaxes, applied by ExpandDims, put one new entry
   exactly where the index has a None (relative to the axes the slicing node keeps) *)
Theorem where_none_layout {A} (v : A) idx vals :
  lenZ vals = countZ takes_value idx ->
  insert_axes (where_none idx) vals v = kept_view vals v idx.
Proof.
  intros H. unfold insert_axes, where_none.
  exact (insert_axes_kept_view v idx 0 0 [] vals eq_refl H).
Qed.

Definition is_new (a : axis_act) : bool := match a with ANew => true | _ => false end.

(* stripping the None entries does not touch what is selected *)
Theorem strip_nones_meaning idx : forall shape,
  np_meaning (strip_nones idx) shape = filter (fun a => negb (is_new a)) (np_meaning idx shape).
Proof.
  induction idx as [|e t IH]; intros shape; [reflexivity|].
  destruct e; cbn [strip_nones filter not_none is_none negb np_meaning]; fold (strip_nones t).
  - destruct shape as [|n sh]; [reflexivity|]. cbn [filter is_new negb]. rewrite IH. reflexivity.
  - destruct shape as [|n sh]; [reflexivity|]. cbn [filter is_new negb]. rewrite IH. reflexivity.
  - cbn [filter is_new negb]. apply IH.
  - reflexivity.
Qed.

Lemma kept_view_map {A B} (f : A -> B) v idx : forall vals,
  map f (kept_view vals v idx) = kept_view (map f vals) (f v) idx.
Proof.
  induction idx as [|e t IH]; intros vals; [reflexivity|].
  destruct e; cbn [kept_view map]; try (rewrite IH; reflexivity);
    destruct vals as [|x vals]; cbn [map]; try rewrite IH; reflexivity.
Qed.

(* result shape: NumPy's shape = shape of the slicing node with 1 at every None *)
Lemma out_shape_kept_view idx : forall shape,
  index_normalized idx shape ->
  out_shape (np_meaning idx shape) = kept_view (out_shape (np_meaning (strip_nones idx) shape)) 1 idx.
Proof.
  induction idx as [|e t IH]; intros shape H; [reflexivity|].
  destruct e; cbn [index_normalized] in H.
  - destruct shape as [|n sh]; [contradiction|]. destruct H as [_ H].
    cbn [strip_nones filter not_none is_none negb np_meaning out_shape kept_view]. fold (strip_nones t). apply IH. exact H.
  - destruct shape as [|n sh]; [contradiction|]. destruct H as [_ H].
    cbn [strip_nones filter not_none is_none negb np_meaning out_shape kept_view]. fold (strip_nones t).
    rewrite IH by exact H. reflexivity.
  - cbn [strip_nones filter not_none is_none negb np_meaning out_shape kept_view]. fold (strip_nones t).
    rewrite IH by exact H. reflexivity.
  - contradiction.
Qed.
