(* Facts about the L0 definitions. *)
From DA Require Import PyBase.
From Coq Require Import ZifyBool.
Open Scope Z_scope.

Ltac Zify.zify_post_hook ::= Z.to_euclidean_division_equations.

(* destruct one boolean test / option match occurring in the goal *)
Ltac break_if :=
  match goal with
  | |- context [if ?c then _ else _] =>
      let E := fresh "E" in destruct c eqn:E
  | |- context [match ?c with Some _ => _ | None => _ end] =>
      let E := fresh "E" in destruct c eqn:E
  end.

Ltac break_if_hyp :=
  match goal with
  | H : context [if ?c then _ else _] |- _ =>
      let E := fresh "E" in destruct c eqn:E
  | H : context [match ?c with Some _ => _ | None => _ end] |- _ =>
      let E := fresh "E" in destruct c eqn:E
  end.

Lemma range_len_nonneg a b k : 0 <= range_len a b k.
Proof. unfold range_len. repeat break_if; try lia; nia. Qed.

Lemma range_len_pos_step a b k : 0 < k -> range_len a b k = if a <? b then (b - a - 1) / k + 1 else 0.
Proof. intros. unfold range_len. destruct (k >? 0) eqn:E; [reflexivity | lia]. Qed.

Lemma range_len_neg_step a b k : k < 0 -> range_len a b k = if b <? a then (a - b - 1) / (- k) + 1 else 0.
Proof. intros. unfold range_len. destruct (k >? 0) eqn:E; [lia | reflexivity]. Qed.

Lemma range_len_empty_pos a b k : 0 < k -> b <= a -> range_len a b k = 0.
Proof. intros. rewrite range_len_pos_step by lia. destruct (a <? b) eqn:E; lia. Qed.

Lemma range_len_empty_neg a b k : k < 0 -> a <= b -> range_len a b k = 0.
Proof. intros. rewrite range_len_neg_step by lia. destruct (b <? a) eqn:E; lia. Qed.

Lemma zrange_empty a b k : range_len a b k = 0 -> zrange a b k = [].
Proof. intros H. unfold zrange. rewrite H. reflexivity. Qed.

Lemma zrange_length a b k : Z.of_nat (length (zrange a b k)) = range_len a b k.
Proof.
  unfold zrange. rewrite map_length, seq_length.
  pose proof (range_len_nonneg a b k). lia.
Qed.

Lemma zrange_nth a b k (i : nat) d :
  (Z.of_nat i < range_len a b k) -> nth i (zrange a b k) d = a + Z.of_nat i * k.
Proof.
  intros H. unfold zrange.
  set (f := fun j : nat => a + Z.of_nat j * k).
  rewrite (nth_indep _ d (f 0%nat)) by (rewrite map_length, seq_length; lia).
  rewrite (map_nth f). rewrite seq_nth by lia. reflexivity.
Qed.

(* two ranges with the same start, step and length are the same list *)
Lemma zrange_ext a b b' k : range_len a b k = range_len a b' k -> zrange a b k = zrange a b' k.
Proof. intros H. unfold zrange. rewrite H. reflexivity. Qed.

Lemma zrange_cons a b k :
  0 < range_len a b k ->
  zrange a b k = a :: map (fun x => x + k) (map (fun i => a + Z.of_nat i * k) (seq 0 (Z.to_nat (range_len a b k - 1)))).
Proof.
  intros H. unfold zrange.
  replace (Z.to_nat (range_len a b k)) with (S (Z.to_nat (range_len a b k - 1))) by lia.
  cbn [seq map]. f_equal; [lia|].
  rewrite <- seq_shift. rewrite !map_map. apply map_ext. intros i. lia.
Qed.

(* membership / in-bounds facts for positive steps *)
Lemma range_len_pos_last a b k : 0 < k -> a < b -> a + (range_len a b k - 1) * k < b.
Proof. intros. rewrite range_len_pos_step by lia. destruct (a <? b) eqn:E; [|lia]. nia. Qed.

Lemma range_len_pos_next a b k : 0 < k -> a < b -> b <= a + range_len a b k * k.
Proof. intros. rewrite range_len_pos_step by lia. destruct (a <? b) eqn:E; [|lia]. nia. Qed.

Lemma range_len_neg_last a b k : k < 0 -> b < a -> b < a + (range_len a b k - 1) * k.
Proof. intros. rewrite range_len_neg_step by lia. destruct (b <? a) eqn:E; [|lia]. nia. Qed.

Lemma range_len_neg_next a b k : k < 0 -> b < a -> a + range_len a b k * k <= b.
Proof. intros. rewrite range_len_neg_step by lia. destruct (b <? a) eqn:E; [|lia]. nia. Qed.

(* range_len is characterised by these two inequalities *)
Lemma range_len_pos_unique a b k m :
  0 < k -> 0 <= m -> (m = 0 -> b <= a) -> (0 < m -> a + (m - 1) * k < b) -> b <= a + m * k ->
  range_len a b k = m.
Proof.
  intros Hk Hm H0 H1 H2. rewrite range_len_pos_step by lia.
  destruct (a <? b) eqn:E.
  - assert (0 < m) by nia. specialize (H1 H). nia.
  - assert (m = 0 \/ 0 < m) as [->|Hp] by lia; [reflexivity|]. specialize (H1 Hp). nia.
Qed.

Lemma range_len_neg_unique a b k m :
  k < 0 -> 0 <= m -> (m = 0 -> a <= b) -> (0 < m -> b < a + (m - 1) * k) -> a + m * k <= b ->
  range_len a b k = m.
Proof.
  intros Hk Hm H0 H1 H2. rewrite range_len_neg_step by lia.
  destruct (b <? a) eqn:E.
  - assert (0 < m) by nia. specialize (H1 H). nia.
  - assert (m = 0 \/ 0 < m) as [->|Hp] by lia; [reflexivity|]. specialize (H1 Hp). nia.
Qed.

Lemma seq_shift_add (z s c : nat) : seq (z + s) c = map (fun i => (i + s)%nat) (seq z c).
Proof. revert z. induction c as [|c IH]; intros z; [reflexivity|]. cbn [seq map]. f_equal. apply (IH (S z)). Qed.

(* splitting a range: first m elements, then the rest *)
Lemma zrange_split_count a b k (m : Z) :
  0 <= m <= range_len a b k ->
  zrange a b k =
    map (fun i => a + Z.of_nat i * k) (seq 0 (Z.to_nat m)) ++
    map (fun i => (a + m * k) + Z.of_nat i * k) (seq 0 (Z.to_nat (range_len a b k - m))).
Proof.
  intros H. unfold zrange.
  replace (Z.to_nat (range_len a b k)) with (Z.to_nat m + Z.to_nat (range_len a b k - m))%nat by lia.
  rewrite seq_app, map_app. f_equal.
  rewrite seq_shift_add, map_map. apply map_ext. intros i. rewrite Nat2Z.inj_add, Z2Nat.id by lia. ring.
Qed.

Lemma cumsum_from_length acc l : length (cumsum_from acc l) = length l.
Proof. revert acc. induction l as [|x t IH]; intros acc; cbn; [reflexivity|]. rewrite IH. reflexivity. Qed.

Lemma zsum_app l1 l2 : zsum (l1 ++ l2) = zsum l1 + zsum l2.
Proof. induction l1 as [|x t IH]; cbn [zsum app]; lia. Qed.

Lemma zsum_nonneg l : Forall (fun c => 0 <= c) l -> 0 <= zsum l.
Proof. induction 1; cbn [zsum]; lia. Qed.

Lemma oZ_eqb_eq a b : oZ_eqb a b = true <-> a = b.
Proof.
  destruct a, b; cbn; split; intros H; try discriminate; try reflexivity.
  - apply Z.eqb_eq in H. congruence.
  - injection H as ->. apply Z.eqb_refl.
Qed.

Lemma pslice_eqb_eq a b : pslice_eqb a b = true <-> a = b.
Proof.
  destruct a as [a1 a2 a3], b as [b1 b2 b3]. unfold pslice_eqb. cbn.
  rewrite !andb_true_iff, !oZ_eqb_eq. split.
  - intros [[-> ->] ->]. reflexivity.
  - intros H. injection H as -> -> ->. auto.
Qed.
