(* Protocol.v — the collection protocol (C05): definitions only.

   Anchors in /repo:
     dask_array/io/_from_graph.py   FromGraph._keys_by_block_id, _inferred_layer_name,
                                    _find_layer_key, _layer; from_graph
     dask_array/_expr.py            RootAlias._layer
     dask_array/_collection.py      Array.__dask_postpersist__, _cached_dask_keys, _pinned,
                                    compute, persist, optimize, to_delayed
     dask_array/_materialize.py     _materialize (the RootAlias pin)

   A task-graph *layer* is a Python dict; its keys are arbitrary hashables.  The model
   distinguishes the keys FromGraph can tell apart:
     KB n idx   a tuple  (n, i0, i1, ...)  whose tail consists of Python ints (idx : list Z;
                n is the first component, numbered by the harness),
     KO id      any other key (a string, a tuple with a non-int in its tail, ...).
   A dict is an association list with Python's dict semantics (insertion ordered, assignment
   to an existing key keeps its position, `del` removes), so the model's result can be
   compared with the real dict item by item, in order. *)
From Coq Require Import List Bool ZArith PArith Lia.
From DA Require Import PyBase Graph.
Import ListNotations.
Open Scope Z_scope.

Definition name := positive.

Inductive lkey := KB (n : name) (idx : list Z) | KO (id : positive).

(* what FromGraph._layer can observe of a value: `isinstance(value, GraphNode) or istask(value)`
   (TaskV) or plain data (Data: persisted blocks, futures); AliasTo is what it creates *)
Inductive lval := Data (id : positive) | TaskV (id : positive) | AliasTo (k : lkey).

Definition is_task (v : lval) : bool := match v with Data _ => false | _ => true end.

Definition lkey_eqb (a b : lkey) : bool :=
  match a, b with
  | KB n i, KB m j => Pos.eqb n m && zlist_eqb i j
  | KO x, KO y => Pos.eqb x y
  | _, _ => false
  end.

Definition lval_eqb (a b : lval) : bool :=
  match a, b with
  | Data x, Data y => Pos.eqb x y
  | TaskV x, TaskV y => Pos.eqb x y
  | AliasTo k, AliasTo l => lkey_eqb k l
  | _, _ => false
  end.

(* ---- Python dict ---- *)
Definition dict := list (lkey * lval).

Fixpoint d_get (k : lkey) (d : dict) : option lval :=
  match d with
  | [] => None
  | (k', v) :: t => if lkey_eqb k k' then Some v else d_get k t
  end.

Definition d_mem (k : lkey) (d : dict) : bool :=
  match d_get k d with Some _ => true | None => false end.

(* d[k] = v *)
Fixpoint d_set (k : lkey) (v : lval) (d : dict) : dict :=
  match d with
  | [] => [(k, v)]
  | (k', v') :: t => if lkey_eqb k k' then (k', v) :: t else (k', v') :: d_set k v t
  end.

(* del d[k] *)
Definition d_del (k : lkey) (d : dict) : dict :=
  filter (fun kv => negb (lkey_eqb k (fst kv))) d.

(* ---- the block grid: itertools.product over range(len(c)) for c in chunks, over Z ---- *)
Definition zgrid (numblocks : list nat) : list (list Z) := map (map Z.of_nat) (grid numblocks).

Fixpoint zl_mem (x : list Z) (l : list (list Z)) : bool :=
  match l with [] => false | y :: t => zlist_eqb x y || zl_mem x t end.

(* Python set equality of two collections of block ids *)
Definition set_eqb (a b : list (list Z)) : bool :=
  forallb (fun x => zl_mem x b) a && forallb (fun x => zl_mem x a) b.

(* ---- FromGraph._keys_by_block_id ----
     for key in keys: other = by.setdefault(key[1:], key); if other != key: raise ValueError
   `keys` = the expected output keys  (some name, *block_id);  None = the ValueError *)
Fixpoint assoc_bid (b : list Z) (m : list (list Z * name)) : option name :=
  match m with
  | [] => None
  | (b', n) :: t => if zlist_eqb b b' then Some n else assoc_bid b t
  end.

Fixpoint keys_by_bid (ks : list (name * list Z)) (acc : list (list Z * name))
  : option (list (list Z * name)) :=
  match ks with
  | [] => Some acc
  | (n, b) :: t =>
    match assoc_bid b acc with
    | Some n' => if Pos.eqb n' n then keys_by_bid t acc else None
    | None => keys_by_bid t (acc ++ [(b, n)])
    end
  end.

(* ---- FromGraph._inferred_layer_name ----
     block_ids = {}
     for k in layer:
         if isinstance(k, tuple) and len(k) == ndim + 1 and all ints in k[1:]:
             block_ids.setdefault(k[0], set()).add(k[1:])
     candidates = [name for name, bids in block_ids.items() if bids == grid]
     return candidates[0] if len(candidates) == 1 else None *)
Fixpoint bids_add (n : name) (i : list Z) (m : list (name * list (list Z)))
  : list (name * list (list Z)) :=
  match m with
  | [] => [(n, [i])]
  | (n', l) :: t => if Pos.eqb n n' then (n', l ++ [i]) :: t else (n', l) :: bids_add n i t
  end.

Definition block_ids_step (ndim : nat) (m : list (name * list (list Z))) (kv : lkey * lval) :=
  match fst kv with
  | KB n i => if Nat.eqb (length i) ndim then bids_add n i m else m
  | KO _ => m
  end.

Definition block_ids (ndim : nat) (layer : dict) : list (name * list (list Z)) :=
  fold_left (block_ids_step ndim) layer [].

Definition candidates (ndim : nat) (layer : dict) (grid : list (list Z)) : list name :=
  map fst (filter (fun nb => set_eqb (snd nb) grid) (block_ids ndim layer)).

Definition inferred_layer_name (ndim : nat) (layer : dict) (grid : list (list Z)) : option name :=
  match candidates ndim layer grid with
  | [n] => Some n
  | _ => None
  end.

(* ---- FromGraph._find_layer_key(dsk, block_id) ----
   `by` = _keys_by_block_id, `self` = self._name, `inf` = self._inferred_layer_name (computed
   from the ORIGINAL layer operand, not from the dict being rewritten); None = the ValueError *)
Definition find_layer_key (by_bid : list (list Z * name)) (self : name) (inf : option name)
           (dsk : dict) (b : list Z) : option lkey :=
  let expected :=
    match assoc_bid b by_bid with
    | Some n => if d_mem (KB n b) dsk then Some (KB n b) else None
    | None => None
    end in
  match expected with
  | Some k => Some k
  | None =>
    if d_mem (KB self b) dsk then Some (KB self b)
    else match inf with Some n => Some (KB n b) | None => None end
  end.

(* ---- FromGraph._layer ---- *)
Inductive fres :=
| FOk (d : dict)
| FErrNotFound           (* ValueError "from_graph cannot find output block ..." *)
| FErrDupKeys            (* ValueError "from_graph got two output keys for block ..." *)
| FErrKeyError.          (* `value = dsk[layer_key]` raising KeyError: proved unreachable *)

Fixpoint fg_loop (by_bid : list (list Z * name)) (self : name) (inf : option name)
         (bs : list (list Z)) (dsk : dict) : fres :=
  match bs with
  | [] => FOk dsk
  | b :: t =>
    match find_layer_key by_bid self inf dsk b with
    | None => FErrNotFound
    | Some lk =>
      if lkey_eqb (KB self b) lk then fg_loop by_bid self inf t dsk
      else
        match d_get lk dsk with
        | None => FErrKeyError
        | Some v =>
          if is_task v then fg_loop by_bid self inf t (d_set (KB self b) (AliasTo lk) dsk)
          else fg_loop by_bid self inf t (d_del lk (d_set (KB self b) v dsk))
        end
    end
  end.

(* the cached properties are evaluated lazily, at the first block: an empty grid never
   looks at `keys` *)
Definition fg_layer (layer : dict) (keys : list (name * list Z)) (self : name)
           (numblocks : list nat) : fres :=
  let g := zgrid numblocks in
  match g with
  | [] => FOk layer
  | _ :: _ =>
    match keys_by_bid keys [] with
    | None => FErrDupKeys
    | Some by_bid =>
      fg_loop by_bid self (inferred_layer_name (length numblocks) layer g) g layer
    end
  end.

(* the source name the three rules pick for block b in the ORIGINAL layer *)
Definition source_name (layer : dict) (keys : list (name * list Z)) (self : name)
           (numblocks : list nat) (b : list Z) : option lkey :=
  match keys_by_bid keys [] with
  | None => None
  | Some by_bid =>
    find_layer_key by_bid self
      (inferred_layer_name (length numblocks) layer (zgrid numblocks)) layer b
  end.

Definition fres_eqb (r : fres) (d : option (list (lkey * lval))) (err : Z) : bool :=
  match r, d with
  | FOk a, Some b => list_eqb (fun x y => lkey_eqb (fst x) (fst y) && lval_eqb (snd x) (snd y)) a b
  | FErrNotFound, None => err =? 1
  | FErrDupKeys, None => err =? 2
  | FErrKeyError, None => err =? 3
  | _, _ => false
  end.

(* ---- RootAlias._layer:  {(name, *idx): Alias((name, *idx), (array._name, *idx)) for idx in grid} *)
Definition root_alias_layer (raw opt : name) (numblocks : list nat) : dict :=
  map (fun b => (KB raw b, AliasTo (KB opt b))) (zgrid numblocks).

(* Array._cached_dask_keys, flattened: [(name, *idx) for idx in grid] *)
Definition dask_keys (nm : name) (numblocks : list nat) : list lkey :=
  map (KB nm) (zgrid numblocks).

(* ---- Array.__dask_postpersist__ / from_graph: the rebuild ----
   a collection as the protocol sees it: name, chunks, dtype tag (of _meta) *)
Record coll := { c_name : name; c_chunks : list (list Z); c_dtype : positive }.

(* __dask_postpersist__ returns  from_graph, (meta, chunks, [], name) *)
Definition postpersist_args (c : coll) : positive * list (list Z) * list (name * list Z) * name :=
  (c_dtype c, c_chunks c, [], c_name c).

(* rename.get(name, name) *)
Fixpoint rename_get (rename : list (name * name)) (n : name) : name :=
  match rename with
  | [] => n
  | (a, b) :: t => if Pos.eqb a n then b else rename_get t n
  end.

Record from_graph_node := {
  fg_lay : dict; fg_meta : positive; fg_chunks : list (list Z);
  fg_keys : list (name * list Z); fg_name : name }.

(* from_graph(layer, *postpersist_args, rename=...)  ->  FromGraph node *)
Definition rebuild (c : coll) (layer : dict) (rename : option (list (name * name))) : from_graph_node :=
  let '(meta, chunks, keys, nm) := postpersist_args c in
  {| fg_lay := layer; fg_meta := meta; fg_chunks := chunks; fg_keys := keys;
     fg_name := match rename with None => nm | Some r => rename_get r nm end |}.

(* the collection over a FromGraph node: _name = operand("name"), chunks / _meta operands *)
Definition coll_of_node (f : from_graph_node) : coll :=
  {| c_name := fg_name f; c_chunks := fg_chunks f; c_dtype := fg_meta f |}.

(* ---- the entry points in the task-graph model (Graph.v) ----
   g     the optimized graph (tasks of _lower(...).fuse()), outs its root's keys (opt name, b)
   raws  the advertised keys (raw name, b), fresh w.r.t. g
   pin   the RootAlias layer: one alias task per output block *)
Section EntryPoints.
  Variable V : Type.
  Variable dflt : V.

  Definition alias_task (rk : key * key) : task V :=
    {| t_key := fst rk; t_deps := [snd rk]; t_fun := fun vs => hd dflt vs |}.

  (* _materialize: optimized graph + pin *)
  Definition pinned (g : list (task V)) (raws outs : list key) : list (task V) :=
    g ++ map alias_task (combine raws outs).

  Definition values (s : store V) (ks : list key) : list (option (res V)) := map (lookup s) ks.

  (* x.compute(): schedule the pinned graph in some topological order, read the advertised keys *)
  Definition ep_compute g raws outs (o : list key) := values (run (pinned g raws outs) o) raws.

  (* dask.compute(x, other): the merged graph *)
  Definition ep_dask_compute g raws outs (other : list (task V)) (o : list key) :=
    values (run (pinned g raws outs ++ other) o) raws.

  (* x.persist(): the layer {advertised key: value}; FromGraph passes it through; computing the
     persisted collection runs the constant graph *)
  Definition const_task (kv : key * V) : task V :=
    {| t_key := fst kv; t_deps := []; t_fun := fun _ => snd kv |}.

  Fixpoint persisted_layer (s : store V) (ks : list key) : option (list (key * V)) :=
    match ks with
    | [] => Some []
    | k :: t =>
      match s k, persisted_layer s t with
      | Some (Val v), Some l => Some ((k, v) :: l)
      | _, _ => None
      end
    end.

  Definition ep_persist g raws outs (o : list key) : option (list (option (res V))) :=
    match persisted_layer (run (pinned g raws outs) o) raws with
    | Some l => Some (values (run (map const_task l) (map fst l)) raws)
    | None => None
    end.

  (* x.to_delayed(): one Delayed per block, each computed on its own (its own order) *)
  Definition ep_to_delayed g raws outs (os : list (list key)) :=
    map (fun ro => lookup (run (pinned g raws outs) (snd ro)) (fst ro)) (combine raws os).

  (* x.optimize(): a collection over the optimized expression itself: its own keys *)
  Definition ep_optimize (g : list (task V)) (outs : list key) (o : list key) := values (run g o) outs.
End EntryPoints.

Arguments alias_task {V} dflt rk.
Arguments pinned {V} dflt g raws outs.
Arguments values {V} s ks.
Arguments ep_compute {V} dflt g raws outs o.
Arguments ep_dask_compute {V} dflt g raws outs other o.
Arguments const_task {V} kv.
Arguments persisted_layer {V} s ks.
Arguments ep_persist {V} dflt g raws outs o.
Arguments ep_to_delayed {V} dflt g raws outs os.
Arguments ep_optimize {V} g outs o.
