(* C18 — _accept_slice_impl: the index mapping of a slice pushed through a reduction. *)
From DA Require Import PyBase PyBaseFacts TreeReduce TreeReduceFacts TreeReduceND.
From Coq Require Import ZifyBool.
Open Scope Z_scope.

Ltac Zify.zify_post_hook ::= Z.to_euclidean_division_equations.

(* the entries of l on the axes that are not reduced, in order; positions count from a *)
Definition kept_proj_from (a : Z) (reduced : list Z) (l : list idx) : list idx :=
  map snd (filter (fun ia => negb (zmem (fst ia) reduced)) (enumerate_from a l)).
Definition kept_proj := kept_proj_from 0.

(* number of kept axes among a, a+1, ..., a+n-1 *)
Fixpoint ckept (reduced : list Z) (a : Z) (n : nat) : nat :=
  match n with O => O | S n' => ((if zmem a reduced then 0 else 1) + ckept reduced (a + 1) n')%nat end.

Lemma enumerate_from_length {A} (l : list A) : forall a, length (enumerate_from a l) = length l.
Proof. induction l as [|x t IH]; intros a; cbn; [reflexivity|]. rewrite IH. reflexivity. Qed.

Lemma enumerate_from_nth {A} (l : list A) : forall a i d, (i < length l)%nat ->
  nth i (enumerate_from a l) (0, d) = (a + Z.of_nat i, nth i l d).
Proof.
  induction l as [|x t IH]; intros a i d H; [cbn in H; lia|].
  destruct i as [|i]; cbn [enumerate_from nth].
  - f_equal. lia.
  - rewrite IH by (cbn in H; lia). f_equal. lia.
Qed.

Lemma filter_range_ckept reduced n : forall a,
  length (filter (fun i => negb (zmem i reduced)) (map (fun i => a + Z.of_nat i) (seq 0 n))) = ckept reduced a n.
Proof.
  induction n as [|n IH]; intros a; [reflexivity|].
  cbn [seq map filter ckept]. rewrite <- seq_shift, map_map.
  rewrite (map_ext _ (fun i => (a + 1) + Z.of_nat i)) by (intros i; lia).
  replace (a + Z.of_nat 0) with a by lia.
  destruct (zmem a reduced); cbn [negb length Nat.add]; rewrite IH; reflexivity.
Qed.

Lemma out_ndim_ckept reduced n :
  length (filter (fun i => negb (zmem i reduced)) (zrange0 (Z.of_nat n))) = ckept reduced 0 n.
Proof.
  rewrite zrange0_seq, Nat2Z.id. rewrite <- (filter_range_ckept reduced n 0).
  reflexivity.
Qed.

(* ---- keepdims = True ---- *)
Definition input_index_keep (a : Z) (reduced : list Z) (slice_index : list idx) : list idx :=
  map (fun ai => if zmem (fst ai) reduced then icolon else snd ai) (enumerate_from a slice_index).

Lemma input_index_keep_length a reduced sl : length (input_index_keep a reduced sl) = length sl.
Proof. unfold input_index_keep. rewrite map_length, enumerate_from_length. reflexivity. Qed.

Lemma input_index_keep_reduced reduced sl : forall a i, (i < length sl)%nat ->
  zmem (a + Z.of_nat i) reduced = true -> nth i (input_index_keep a reduced sl) icolon = icolon.
Proof.
  induction sl as [|s t IH]; intros a i Hi Hm; [cbn in Hi; lia|].
  destruct i as [|i]; cbn [input_index_keep enumerate_from map nth fst snd].
  - replace (a + Z.of_nat 0) with a in Hm by lia. rewrite Hm. reflexivity.
  - apply (IH (a + 1) i); [cbn in Hi; lia|]. rewrite <- Hm. f_equal. lia.
Qed.

Lemma input_index_keep_kept reduced sl : forall a,
  kept_proj_from a reduced (input_index_keep a reduced sl) = kept_proj_from a reduced sl.
Proof.
  induction sl as [|s t IH]; intros a; [reflexivity|].
  unfold kept_proj_from, input_index_keep in *. cbn [enumerate_from map filter fst snd].
  destruct (zmem a reduced) eqn:E; cbn [negb map snd]; rewrite (IH (a + 1)); reflexivity.
Qed.

(* ---- keepdims = False ---- *)
Lemma input_index_drop_length reduced n : forall a sl, length (input_index_drop a n reduced sl) = n.
Proof.
  induction n as [|n IH]; intros a sl; [reflexivity|]. cbn [input_index_drop].
  destruct (zmem a reduced); [cbn; rewrite IH; reflexivity|].
  destruct sl; cbn; rewrite IH; reflexivity.
Qed.

Lemma input_index_drop_reduced reduced n : forall a sl i, (i < n)%nat ->
  zmem (a + Z.of_nat i) reduced = true -> nth i (input_index_drop a n reduced sl) icolon = icolon.
Proof.
  induction n as [|n IH]; intros a sl i Hi Hm; [lia|]. cbn [input_index_drop].
  destruct i as [|i].
  - replace (a + Z.of_nat 0) with a in Hm by lia. rewrite Hm. reflexivity.
  - assert (zmem (a + 1 + Z.of_nat i) reduced = true) as Hm' by (rewrite <- Hm; f_equal; lia).
    destruct (zmem a reduced); [cbn [nth]; apply IH; [lia | assumption]|].
    destruct sl; cbn [nth]; apply IH; try lia; assumption.
Qed.

Lemma input_index_drop_kept reduced n : forall a sl, length sl = ckept reduced a n ->
  kept_proj_from a reduced (input_index_drop a n reduced sl) = sl.
Proof.
  induction n as [|n IH]; intros a sl Hlen.
  - cbn in *. destruct sl; [reflexivity | discriminate].
  - cbn [input_index_drop ckept] in *. unfold kept_proj_from in *.
    destruct (zmem a reduced) eqn:E.
    + cbn [enumerate_from filter fst]. rewrite E. cbn [negb]. apply IH. lia.
    + destruct sl as [|s rest]; [cbn in Hlen; lia|].
      cbn [enumerate_from filter fst]. rewrite E. cbn [negb map snd]. f_equal. apply IH. cbn in Hlen. lia.
Qed.

(* ---- the statement behind C18_slice_through_reduction ---- *)
Definition full_index_of (index : list idx) (out_ndim : nat) : list idx :=
  index ++ repeat icolon (out_ndim - length index)%nat.

Theorem accept_slice_mapping index shape reduced keepdims input_index final :
  accept_slice index shape reduced keepdims = Some (input_index, final) ->
  let ndim := length shape in
  let out_ndim := if keepdims then ndim else ckept reduced 0 ndim in
  (length index <= out_ndim)%nat ->
  let slice_index := map int_to_slice (full_index_of index out_ndim) in
  (* never an index with None; the input index addresses every input axis *)
  existsb idx_is_none index = false /\
  length input_index = ndim /\
  (* reduced axes are never forwarded *)
  (forall ax, (ax < ndim)%nat -> zmem (Z.of_nat ax) reduced = true -> nth ax input_index icolon = icolon) /\
  (* kept axes map in order *)
  kept_proj reduced input_index = (if keepdims then kept_proj reduced slice_index else slice_index) /\
  (* something is pushed, and no kept axis becomes empty *)
  forallb idx_is_colon input_index = false.
Proof.
  intros H. cbv zeta. intros Hlen. revert H.
  set (ndim := length shape). set (out_ndim := if keepdims then ndim else ckept reduced 0 ndim) in *.
  set (slice_index := map int_to_slice (full_index_of index out_ndim)).
  change (length index <= out_ndim)%nat in Hlen.
  unfold accept_slice. intros H.
  destruct (existsb idx_is_none index) eqn:Enone; [discriminate|].
  rewrite out_ndim_ckept in H. fold ndim in H.
  change (if keepdims then ndim else ckept reduced 0 ndim) with out_ndim in H.
  change (index ++ repeat icolon (out_ndim - length index)) with (full_index_of index out_ndim) in H.
  fold slice_index in H.
  set (ii := if keepdims then map (fun ai => if zmem (fst ai) reduced then icolon else snd ai) (enumerate slice_index)
             else input_index_drop 0 ndim reduced slice_index) in H.
  destruct (forallb idx_is_colon ii) eqn:Ecolon; [discriminate|].
  match type of H with (if ?c then _ else _) = _ => destruct c; [discriminate|] end.
  injection H as Hii _. subst input_index.
  assert (length slice_index = out_ndim) as Hsl.
  { unfold slice_index, full_index_of. rewrite map_length, app_length, repeat_length. lia. }
  split; [reflexivity|].
  destruct keepdims; subst ii.
  - change (map (fun ai => if zmem (fst ai) reduced then icolon else snd ai) (enumerate slice_index))
      with (input_index_keep 0 reduced slice_index) in *.
    split; [rewrite input_index_keep_length; exact Hsl|].
    split; [|split; [apply input_index_keep_kept | assumption]].
    intros ax Hax Hm. apply input_index_keep_reduced; [rewrite Hsl; exact Hax | exact Hm].
  - split; [apply input_index_drop_length|].
    split; [|split; [apply input_index_drop_kept; exact Hsl | assumption]].
    intros ax Hax Hm. apply input_index_drop_reduced; [exact Hax | exact Hm].
Qed.

(* what stays on the output: an integer became slice(i, i+1) on the input and [0] on the
   output; a slice is pushed whole and the output keeps [:].  Together they select what the
   original index selects. *)
Lemma sel_colon n : sel colon n = zrange0 n.
Proof. reflexivity. Qed.

Lemma sel_colon_identity (pos : list Z) :
  map (fun j => nthZ pos j) (sel colon (Z.of_nat (length pos))) = pos.
Proof.
  rewrite sel_colon.
  rewrite zrange0_seq, Nat2Z.id, map_map. unfold nthZ.
  rewrite (map_ext _ (fun i => nth i pos 0)) by (intros i; rewrite Nat2Z.id; reflexivity).
  induction pos as [|x t IH]; [reflexivity|].
  cbn [length seq map nth]. f_equal. rewrite <- seq_shift, map_map. exact IH.
Qed.

Lemma zrange_one k b : k < b -> b <= k + 1 -> zrange k b 1 = [k].
Proof.
  intros H1 H2. unfold zrange.
  assert (range_len k b 1 = 1) as ->.
  { unfold range_len. change (1 >? 0) with true. cbv iota. replace (k <? b) with true by lia.
    rewrite Z.div_1_r. lia. }
  change (Z.to_nat 1) with 1%nat. cbn [seq map]. f_equal. lia.
Qed.

Lemma sel_int_slice k n : 0 <= k < n -> sel (mkslice (Some k) (Some (k + 1)) None) n = [k].
Proof.
  intros H. unfold sel, indices, step_of, adjust_endpoint. cbn [s_start s_stop s_step].
  replace (k <? 0) with false by lia. replace (k >=? n) with false by lia.
  replace (k + 1 <? 0) with false by lia. change (1 <? 0) with false. cbv iota.
  destruct (k + 1 >=? n) eqn:E; apply zrange_one; lia.
Qed.

Definition idx_in_range (i : idx) (n : Z) : Prop :=
  match i with IInt k => 0 <= k < n | ISlice _ => True | INone => False end.

Theorem int_slice_roundtrip (i : idx) (n : Z) : idx_in_range i n ->
  idx_sel_compose (int_to_slice i) (if idx_is_int i then IInt 0 else icolon) n = idx_sel i n.
Proof.
  destruct i as [|k|s]; cbn [idx_in_range]; intros H; [contradiction| |].
  - cbn [int_to_slice idx_is_int idx_sel_compose idx_sel].
    rewrite sel_int_slice by assumption.
    reflexivity.
  - cbn [int_to_slice idx_is_int idx_sel_compose idx_sel icolon].
    rewrite sel_colon_identity. reflexivity.
Qed.

(* the index that stays on the output *)
Theorem accept_slice_final index shape reduced keepdims input_index final :
  accept_slice index shape reduced keepdims = Some (input_index, final) ->
  let ndim := length shape in
  let out_ndim := if keepdims then ndim else ckept reduced 0 ndim in
  let full := full_index_of index out_ndim in
  let final_index :=
    if keepdims then map (fun ai => if zmem (fst ai) reduced then snd ai
                                    else if idx_is_int (snd ai) then IInt 0 else icolon) (enumerate full)
    else map (fun i => if idx_is_int i then IInt 0 else icolon) full in
  final = if existsb (fun i => negb (idx_is_colon i)) final_index then Some final_index else None.
Proof.
  intros H. cbv zeta. revert H.
  set (ndim := length shape). set (out_ndim := if keepdims then ndim else ckept reduced 0 ndim) in *.
  set (full := full_index_of index out_ndim).
  unfold accept_slice. intros H.
  destruct (existsb idx_is_none index); [discriminate|].
  rewrite out_ndim_ckept in H. fold ndim in H.
  change (if keepdims then ndim else ckept reduced 0 ndim) with out_ndim in H.
  change (index ++ repeat icolon (out_ndim - length index)) with full in H.
  match type of H with (if ?c then _ else _) = _ => destruct c; [discriminate|] end.
  match type of H with (if ?c then _ else _) = _ => destruct c; [discriminate|] end.
  injection H as _ Hf. subst final. reflexivity.
Qed.
