(* T2 — every step of a plan returned by plan_rechunk is a chunking of the
   array's shape, and the plan ends in the requested chunking. *)
From DA Require Import PyBase PyBaseFacts Rechunk RechunkBase.
From Coq Require Import ZifyBool.
Open Scope Z_scope.
Ltac Zify.zify_post_hook ::= Z.to_euclidean_division_equations.

Notation nonneg := (Forall (fun c : Z => 0 <= c)).

(* one axis: non-negative sizes, summing to n, at least one chunk *)
Definition axis_ok (n : Z) (cs : list Z) : Prop := nonneg cs /\ zsum cs = n /\ cs <> [].
Definition layout (shape : list Z) (cs : chunksN) : Prop := Forall2 axis_ok shape cs.

Lemma all_nonneg_iff l : all_nonneg l = true <-> nonneg l.
Proof.
  unfold all_nonneg. rewrite forallb_forall, Forall_forall.
  split; intros H x Hx; specialize (H x Hx); lia.
Qed.

Lemma axis_ok_iff n cs :
  valid_chunks_b cs n && negb (match cs with [] => true | _ => false end) = true <-> axis_ok n cs.
Proof.
  unfold valid_chunks_b, axis_ok. rewrite !andb_true_iff, all_nonneg_iff, Z.eqb_eq.
  destruct cs; cbn [negb]; split; intros H; try tauto; try (intuition congruence).
Qed.

Lemma layout_ok_iff shape : forall cs, layout_ok shape cs = true <-> layout shape cs.
Proof.
  unfold layout_ok, layout.
  induction shape as [|n shape IH]; intros [|c cs]; cbn [length Nat.eqb combine forallb fst snd].
  - split; [constructor|reflexivity].
  - split; [discriminate|intros H; inversion H].
  - split; [discriminate|intros H; inversion H].
  - specialize (IH cs). rewrite andb_true_iff in IH.
    rewrite 2 andb_true_iff, axis_ok_iff. split.
    + intros (Hl & Ha & Hf). constructor; [exact Ha|]. apply IH. tauto.
    + intros H. inversion H as [|? ? ? ? Ha Hf]; subst. apply IH in Hf. tauto.
Qed.

Lemma layout_nthL shape : forall cs d,
  layout shape cs -> (d < length shape)%nat -> axis_ok (nth d shape 0) (nthL cs d).
Proof.
  unfold layout, nthL. induction shape as [|n shape IH]; intros cs d H Hd; [cbn in Hd; lia|].
  inversion H as [|? c ? cs' Ha Hf]; subst. destruct d as [|d]; cbn [nth]; [exact Ha|].
  apply IH; [exact Hf|cbn in Hd; lia].
Qed.

Lemma layout_set_nthL shape : forall cs d v,
  layout shape cs -> ((d < length shape)%nat -> axis_ok (nth d shape 0) v) ->
  layout shape (set_nthL cs d v).
Proof.
  unfold layout. induction shape as [|n shape IH]; intros cs d v H Hv.
  - inversion H; subst. cbn. constructor.
  - inversion H as [|? c ? cs' Ha Hf]; subst. destruct d as [|d]; cbn [set_nthL].
    + constructor; [|exact Hf]. apply Hv. cbn. lia.
    + constructor; [exact Ha|]. apply IH; [exact Hf|]. intros Hd. apply Hv. cbn. lia.
Qed.

(* ------------------------------------------------------------------ *)
(* list arithmetic *)
Lemma zsum_repeat x n : zsum (repeat x n) = x * Z.of_nat n.
Proof. induction n as [|n IH]; [cbn; lia|]. cbn [repeat zsum]. rewrite IH. lia. Qed.

Lemma nonneg_repeat x n : 0 <= x -> nonneg (repeat x n).
Proof. intros Hx. induction n; cbn [repeat]; constructor; assumption. Qed.

Lemma all_equal_repeat cs : all_equal cs = true -> cs = repeat (hd 0 cs) (length cs).
Proof.
  destruct cs as [|x t]; [reflexivity|]. cbn [all_equal hd length repeat]. intros H. f_equal.
  induction t as [|y t IH]; [reflexivity|]. cbn [forallb] in H. apply andb_true_iff in H.
  destruct H as [H1 H2]. apply Z.eqb_eq in H1. subst y. cbn [length repeat]. f_equal. exact (IH H2).
Qed.

Lemma zsum_zero_all_equal cs : nonneg cs -> zsum cs = 0 -> all_equal cs = true.
Proof.
  intros Hn Hs.
  assert (Forall (fun c => c = 0) cs) as Hz.
  { induction Hn as [|x t Hx Ht IH]; [constructor|]. cbn [zsum] in Hs.
    pose proof (zsum_nonneg t Ht). constructor; [lia|]. apply IH. lia. }
  destruct cs as [|x t]; [reflexivity|]. cbn [all_equal].
  inversion Hz as [|? ? Hx Ht]; subst. apply forallb_forall. intros y Hy.
  rewrite Forall_forall in Ht. specialize (Ht y Hy). lia.
Qed.

Lemma zsum_filter_nonzero l : zsum (filter (fun c => negb (c =? 0)) l) = zsum l.
Proof.
  induction l as [|x t IH]; [reflexivity|]. cbn [filter zsum].
  destruct (x =? 0) eqn:E; cbn [negb zsum]; lia.
Qed.

Lemma nonneg_filter (f : Z -> bool) l : nonneg l -> nonneg (filter f l).
Proof.
  intros H. rewrite Forall_forall in *. intros x Hx. apply filter_In in Hx. apply H. tauto.
Qed.

Lemma zmax_list_nonneg l : 0 <= zmax_list l.
Proof. induction l as [|x t IH]; cbn [zmax_list fold_right]; [lia|]. fold (zmax_list t). lia. Qed.

Lemma zmax_nonzero_sum_pos l : nonneg l -> zmax_list l <> 0 -> 0 < zsum l.
Proof.
  intros Hn. induction Hn as [|x t Hx Ht IH]; cbn [zmax_list fold_right zsum]; [lia|].
  fold (zmax_list t). intros H. pose proof (zsum_nonneg t Ht). pose proof (zmax_list_nonneg t). lia.
Qed.

(* ------------------------------------------------------------------ *)
(* divide_to_width *)
Lemma divide_one_sum nb : forall i c, zsum (divide_one c nb i) = match i with O => 0 | S _ => c end.
Proof.
  induction i as [|i IH]; intros c; [reflexivity|]. cbn [divide_one zsum]. rewrite IH.
  destruct i as [|i]; [|lia]. change (Z.of_nat 1) with 1. rewrite Z.div_1_r. lia.
Qed.

Lemma divide_one_nonneg nb : forall i c, 0 <= c -> nonneg (divide_one c nb i).
Proof.
  induction i as [|i IH]; intros c Hc; [constructor|]. cbn [divide_one].
  assert (0 < Z.of_nat (S i)) as Hi by lia.
  constructor; [apply Z.div_pos; lia|]. apply IH.
  pose proof (Z.div_le_upper_bound c (Z.of_nat (S i)) c Hi). nia.
Qed.

Lemma divide_to_width_ok cs w r :
  divide_to_width cs w = Some r -> nonneg cs -> nonneg r /\ zsum r = zsum cs.
Proof.
  unfold divide_to_width. destruct (w <=? 0) eqn:Ew; [discriminate|]. intros H Hn.
  injection H as <-. induction Hn as [|c t Hc Ht IH]; [split; [constructor|reflexivity]|].
  cbn [map concat zsum]. destruct IH as [IH1 IH2]. split.
  - apply Forall_app. split; [apply divide_one_nonneg; exact Hc | exact IH1].
  - rewrite zsum_app, IH2, divide_one_sum. f_equal.
    unfold ceil_divZ. destruct (Z.to_nat (- (- c / w))) eqn:En; [|reflexivity]. nia.
Qed.

(* ------------------------------------------------------------------ *)
(* merge_to_number: the heap loop *)
Lemma set_nth_length : forall l i v, length (set_nth l i v) = length l.
Proof. induction l as [|x t IH]; intros [|i] v; cbn [set_nth length]; auto. Qed.

Lemma zsum_set_nth : forall l i v, (i < length l)%nat -> zsum (set_nth l i v) = zsum l - nth i l 0 + v.
Proof.
  induction l as [|x t IH]; intros [|i] v Hi; cbn [length] in Hi; try lia; cbn [set_nth zsum nth]; [lia|].
  rewrite IH by lia. lia.
Qed.

Lemma nth_set_nth_other : forall l i j v, i <> j -> nth j (set_nth l i v) 0 = nth j l 0.
Proof.
  induction l as [|x t IH]; intros [|i] [|j] v Hij; cbn [set_nth nth]; try reflexivity; try congruence.
  apply IH. congruence.
Qed.

Lemma nonneg_set_nth : forall l i v, nonneg l -> 0 <= v -> nonneg (set_nth l i v).
Proof.
  induction l as [|x t IH]; intros [|i] v Hl Hv; cbn [set_nth]; try assumption;
    inversion Hl; subst; constructor; auto.
Qed.

Lemma nonneg_nth l i : nonneg l -> 0 <= nth i l 0.
Proof.
  intros H. destruct (Nat.lt_ge_cases i (length l)) as [Hi|Hi].
  - rewrite Forall_forall in H. apply H. apply nth_In. exact Hi.
  - rewrite nth_overflow by exact Hi. lia.
Qed.

Definition entry_ok (e : heap_entry) : Prop := let '(_, i, j) := e in (i < j)%nat.

Lemma pop_min_forall (P : heap_entry -> Prop) : forall h e h',
  pop_min h = Some (e, h') -> Forall P h -> P e /\ Forall P h'.
Proof.
  induction h as [|x t IH]; intros e h' H Hf; cbn [pop_min] in H; [discriminate|].
  inversion Hf as [|? ? Hx Ht]; subst.
  destruct (pop_min t) as [[m rest]|] eqn:Ep.
  - destruct (IH _ _ eq_refl Ht) as [Hm Hrest].
    destruct (entry_lt m x); injection H as <- <-; split; auto.
  - injection H as <- <-. split; auto.
Qed.

Lemma next_nonzero_ge l : forall fuel j j', next_nonzero l j fuel = Some j' -> (j <= j')%nat.
Proof.
  induction fuel as [|f IH]; intros j j' H; cbn [next_nonzero] in H; [discriminate|].
  destruct (nth_error l j) as [v|]; [|discriminate].
  destruct (v =? 0).
  - apply IH in H. lia.
  - injection H as <-. lia.
Qed.

Lemma init_heap_ok : forall l i, Forall entry_ok (init_heap i l).
Proof.
  induction l as [|a t IH]; intros i; [constructor|].
  destruct t as [|b t']; [constructor|].
  change (init_heap i (a :: b :: t')) with ((a + b, i, S i) :: init_heap (S i) (b :: t')).
  constructor; [cbn; lia | apply IH].
Qed.

Lemma merge_loop_inv : forall fuel chunks heap nm r,
  nonneg chunks -> Forall entry_ok heap ->
  merge_loop fuel chunks heap nm = Some r -> nonneg r /\ zsum r = zsum chunks.
Proof.
  induction fuel as [|fuel IH]; intros chunks heap nm r Hn Hh H; cbn [merge_loop] in H;
    (destruct (nm <=? 0); [injection H as <-; split; [exact Hn|reflexivity]|]); [discriminate|].
  destruct (pop_min heap) as [[[[width i] j] heap']|] eqn:Ep; [|discriminate].
  destruct (pop_min_forall entry_ok _ _ _ Ep Hh) as [Hij Hh']. cbn in Hij.
  destruct (nth j chunks 0 =? 0) eqn:Ecj.
  { destruct (next_nonzero chunks (S j) (length chunks)) as [j'|] eqn:En; [|discriminate].
    apply next_nonzero_ge in En.
    eapply IH; [exact Hn| |exact H]. constructor; [cbn; lia|exact Hh']. }
  destruct (negb (nth i chunks 0 + nth j chunks 0 =? width)) eqn:Ew.
  { eapply IH; [exact Hn| |exact H]. constructor; [cbn; lia|exact Hh']. }
  destruct (nth i chunks 0 =? 0) eqn:Eci; [discriminate|].
  apply IH in H.
  - destruct H as [H1 H2]. split; [exact H1|]. rewrite H2.
    assert (i < length chunks)%nat as Hi.
    { destruct (Nat.lt_ge_cases i (length chunks)) as [Hi|Hi]; [exact Hi|].
      rewrite nth_overflow in Eci by exact Hi. lia. }
    assert (j < length chunks)%nat as Hj.
    { destruct (Nat.lt_ge_cases j (length chunks)) as [Hj|Hj]; [exact Hj|].
      rewrite nth_overflow in Ecj by exact Hj. lia. }
    rewrite zsum_set_nth by (rewrite set_nth_length; exact Hj).
    rewrite nth_set_nth_other by lia.
    rewrite zsum_set_nth by exact Hi. lia.
  - pose proof (nonneg_nth chunks i Hn). pose proof (nonneg_nth chunks j Hn).
    apply nonneg_set_nth; [apply nonneg_set_nth; [exact Hn|lia]|lia].
  - exact Hh'.
Qed.

(* the arithmetic of the uniform fast path: n blocks of width w into k blocks *)
Lemma uniform_merge_arith n w k :
  0 < w -> 0 < k -> k < n ->
  let width := w * (n * w / k / w) in
  let adjust := (n * w - k * width) / w in
  0 <= adjust <= k /\ 0 <= width /\
  (width + w) * adjust + width * (k - adjust) = n * w.
Proof.
  intros Hw Hk Hn. cbv zeta.
  rewrite Z.div_div by lia.
  rewrite (Z.div_mul_cancel_r n k w) by lia.
  replace (n * w - k * (w * (n / k))) with ((n - k * (n / k)) * w) by ring.
  rewrite Z.div_mul by lia.
  pose proof (Z.div_mod n k ltac:(lia)) as Hdm.
  pose proof (Z.mod_pos_bound n k Hk) as Hmb.
  assert (0 <= n / k) by (apply Z.div_pos; lia).
  repeat split; nia.
Qed.

Lemma merge_to_number_ok cs k r :
  merge_to_number cs k = Some r -> nonneg cs -> 0 <= k ->
  nonneg r /\ zsum r = zsum cs /\ (cs <> [] -> r <> []).
Proof.
  unfold merge_to_number, lenZ'. intros H Hn Hk0.
  destruct (Z.of_nat (length cs) <=? k) eqn:Elen.
  { injection H as <-. auto. }
  destruct (all_equal cs) eqn:Eeq.
  - destruct ((k =? 0) || (hd 0 cs =? 0)) eqn:Ez; [discriminate|].
    apply orb_false_iff in Ez. destruct Ez as [Ek Ew].
    assert (0 < k) as Hk by lia.
    pose proof (all_equal_repeat cs Eeq) as Hrep.
    set (w := hd 0 cs) in *. set (n := Z.of_nat (length cs)) in *.
    assert (0 < w) as Hw.
    { assert (0 <= w); [|lia]. destruct cs as [|x t]; [cbn; lia|]. inversion Hn; assumption. }
    destruct (uniform_merge_arith n w k Hw Hk ltac:(lia)) as (Ha & Hwd & Hsum).
    cbv zeta in Ha, Hwd, Hsum.
    set (width := w * (n * w / k / w)) in *.
    set (adjust := (n * w - k * width) / w) in *.
    injection H as <-. split; [|split].
    + apply Forall_app. split; apply nonneg_repeat; lia.
    + rewrite zsum_app, !zsum_repeat, !Z2Nat.id by lia.
      rewrite Hsum, Hrep, zsum_repeat. fold n. lia.
    + intros _ Hnil. apply (f_equal (@length Z)) in Hnil.
      rewrite app_length, !repeat_length in Hnil. cbn [length] in Hnil. lia.
  - destruct (k =? 0); [discriminate|].
    destruct (merge_loop _ cs _ _) as [r0|] eqn:Em; [|discriminate].
    injection H as <-.
    apply merge_loop_inv in Em; [|exact Hn|apply init_heap_ok]. destruct Em as [Hr0 Hs].
    split; [apply nonneg_filter; exact Hr0|]. split; [rewrite zsum_filter_nonzero; exact Hs|].
    intros _ Hnil.
    assert (zsum cs = 0) as Hz.
    { rewrite <- Hs, <- (zsum_filter_nonzero r0), Hnil. reflexivity. }
    rewrite (zsum_zero_all_equal cs Hn Hz) in Eeq. discriminate.
Qed.

(* ------------------------------------------------------------------ *)
(* find_merge_rechunk keeps a layout of the shape *)
Lemma fm_loop_layout shape old new lnum lden : forall order chunks largest hit c l h,
  layout shape old -> layout shape new -> layout shape chunks ->
  fm_loop order old new chunks lnum lden largest hit = Some (c, l, h) -> layout shape c.
Proof.
  induction order as [|dim rest IH]; intros chunks largest hit c l h Ho Hn Hc H; cbn [fm_loop] in H.
  { injection H as <- _ _. exact Hc. }
  destruct (_ <=? lnum).
  { eapply IH; [exact Ho|exact Hn| |exact H].
    apply layout_set_nthL; [exact Hc|]. intros Hd. apply layout_nthL; assumption. }
  destruct (largest =? 0); [discriminate|].
  destruct (divide_to_width (nthL new dim) _) as [c'|] eqn:Ed; [|discriminate].
  destruct (lenZ' c' <=? lenZ' (nthL old dim)).
  - destruct (zmax_list (nthL old dim) =? 0) eqn:Eow; [discriminate|].
    eapply IH; [exact Ho|exact Hn| |exact H].
    apply layout_set_nthL; [exact Hc|]. intros Hd.
    destruct (layout_nthL shape old dim Ho Hd) as (Ho1 & Ho2 & _).
    destruct (layout_nthL shape new dim Hn Hd) as (Hn1 & Hn2 & _).
    destruct (divide_to_width_ok _ _ _ Ed Hn1) as [Hc1 Hc2].
    pose proof (zmax_nonzero_sum_pos _ Ho1 ltac:(lia)) as Hpos.
    split; [exact Hc1|]. split; [lia|]. intros ->. cbn [zsum] in Hc2. lia.
  - eapply IH; eauto.
Qed.

Lemma find_merge_layout shape order old new lnum lden chunks hit :
  layout shape old -> layout shape new ->
  find_merge_rechunk order old new lnum lden = Some (chunks, hit) -> layout shape chunks.
Proof.
  unfold find_merge_rechunk. intros Ho Hn H.
  destruct (negb _); [discriminate|].
  destruct (fm_loop _ _ _ _ _ _ _ _) as [[[c l] h]|] eqn:Ef; [|discriminate].
  destruct (_ && _); [|discriminate]. injection H as <- _.
  eapply fm_loop_layout; [exact Ho|exact Hn|exact Ho|exact Ef].
Qed.

(* find_split_rechunk keeps a layout of the shape *)
Lemma lenZ'_pos_nonempty {A} (l : list A) : 0 < lenZ' l <-> l <> [].
Proof. unfold lenZ'. destruct l; cbn [length]; split; intros H; try congruence; lia. Qed.

Lemma fs_loop_layout shape old new limit : forall dims chunks r,
  layout shape old -> layout shape new -> layout shape chunks ->
  fs_loop dims old new chunks limit = Some r -> layout shape r.
Proof.
  induction dims as [|dim rest IH]; intros chunks r Ho Hn Hc H; cbn [fs_loop] in H.
  { injection H as <-. exact Hc. }
  destruct (_ >? limit).
  { injection H as <-. exact Hc. }
  destruct (lenZ' (nthL old dim) >? lenZ' (nthL new dim)).
  { eapply IH; eauto. }
  destruct (merge_to_number (nthL new dim) _) as [c|] eqn:Em; [|discriminate].
  destruct (lenZ' c >? _) eqn:Emax; [discriminate|].
  destruct ((lenZ' c >=? lenZ' (nthL old dim)) && _) eqn:Eacc.
  - eapply IH; [exact Ho|exact Hn| |exact H].
    apply layout_set_nthL; [exact Hc|]. intros Hd.
    apply andb_true_iff in Eacc. destruct Eacc as [Elen _].
    destruct (layout_nthL shape old dim Ho Hd) as (_ & _ & Ho3).
    destruct (layout_nthL shape new dim Hn Hd) as (Hn1 & Hn2 & _).
    apply lenZ'_pos_nonempty in Ho3.
    destruct (merge_to_number_ok _ _ _ Em Hn1 ltac:(lia)) as (Hc1 & Hc2 & _).
    split; [exact Hc1|]. split; [lia|]. apply lenZ'_pos_nonempty. lia.
  - eapply IH; eauto.
Qed.

Lemma find_split_layout shape old new limit r :
  layout shape old -> layout shape new ->
  find_split_rechunk old new limit = Some r -> layout shape r.
Proof. unfold find_split_rechunk. intros Ho Hn H. eapply fs_loop_layout; [exact Ho|exact Hn|exact Ho|exact H]. Qed.

(* the while-loop *)
Lemma plan_loop_layout shape lnum lden fuel : forall orders current new threshold gst fp steps r,
  layout shape current -> layout shape new -> Forall (layout shape) steps ->
  plan_loop fuel orders current new lnum lden threshold gst fp steps = Some r ->
  Forall (layout shape) r.
Proof.
  induction fuel as [|fuel IH]; intros orders current new threshold gst fp steps r Hc Hn Hs H;
    cbn [plan_loop] in H; [discriminate|].
  destruct (_ <? gst).
  { injection H as <-. apply Forall_rev. exact Hs. }
  destruct (if fp then Some current else _) as [c0|] eqn:Ec0; [|discriminate].
  assert (layout shape c0) as Hc0.
  { destruct fp; [injection Ec0 as <-; exact Hc|]. eapply find_split_layout; [exact Hc|exact Hn|exact Ec0]. }
  destruct orders as [|order orders']; [discriminate|].
  destruct (find_merge_rechunk order c0 new lnum lden) as [[chunks hit]|] eqn:Em; [|discriminate].
  apply (find_merge_layout shape) in Em; [|exact Hc0|exact Hn].
  destruct (_ || _).
  { injection H as <-. apply Forall_rev. exact Hs. }
  assert (Forall (layout shape) (if chunksN_eqb chunks current then steps else chunks :: steps)) as Hs'.
  { destruct (chunksN_eqb chunks current); [exact Hs|constructor; assumption]. }
  destruct (negb hit).
  { injection H as <-. apply Forall_rev. exact Hs'. }
  eapply IH; [exact Em|exact Hn|exact Hs'|exact H].
Qed.

(* the intermediates of _bound_degree *)
Lemma bd_intermediate_layout : forall shape old new counts r rest,
  layout shape old -> layout shape new ->
  bd_intermediate old new counts = Some (r, rest) -> layout shape r.
Proof.
  unfold layout.
  induction shape as [|n shape IH]; intros old new counts r rest Ho Hn H.
  { inversion Ho; subst. cbn [bd_intermediate] in H. injection H as <- _. constructor. }
  inversion Ho as [|? oc ? old' Hoa Hof]; subst.
  inversion Hn as [|? nc ? new' Hna Hnf]; subst.
  cbn [bd_intermediate] in H.
  destruct (lenZ' oc =? lenZ' nc).
  - destruct (bd_intermediate old' new' counts) as [[r' cs']|] eqn:Eb; [|discriminate].
    injection H as <- _. constructor; [exact Hna|]. exact (IH _ _ _ _ _ Hof Hnf Eb).
  - destruct counts as [|count counts']; [discriminate|].
    destruct (merge_to_number _ _) as [m|] eqn:Em; [|discriminate].
    destruct (bd_intermediate old' new' counts') as [[r' cs']|] eqn:Eb; [|discriminate].
    injection H as <- _. constructor; [|exact (IH _ _ _ _ _ Hof Hnf Eb)].
    destruct Hoa as (Ho1 & Ho2 & Ho3). destruct Hna as (Hn1 & Hn2 & Hn3).
    pose proof (proj2 (lenZ'_pos_nonempty oc) Ho3) as Hlo.
    pose proof (proj2 (lenZ'_pos_nonempty nc) Hn3) as Hln.
    destruct (lenZ' oc >? lenZ' nc).
    + destruct (merge_to_number_ok _ _ _ Em Ho1 ltac:(lia)) as (Hm1 & Hm2 & Hm3).
      split; [exact Hm1|]. split; [lia|]. exact (Hm3 Ho3).
    + destruct (merge_to_number_ok _ _ _ Em Hn1 ltac:(lia)) as (Hm1 & Hm2 & Hm3).
      split; [exact Hm1|]. split; [lia|]. exact (Hm3 Hn3).
Qed.

(* Prop form of plan_valid *)
Lemma plan_valid_intro shape new p' :
  Forall (layout shape) (p' ++ [new]) -> plan_valid shape new (p' ++ [new]) = true.
Proof.
  intros H. unfold plan_valid. rewrite last_opt_snoc.
  apply andb_true_iff. split; [apply chunksN_eqb_eq; reflexivity|].
  apply forallb_forall. intros x Hx. apply layout_ok_iff.
  rewrite Forall_forall in H. exact (H x Hx).
Qed.

Theorem plan_valid_thm :
  forall orders oracle old new itemsize threshold bsl degree_limit plan shape,
    layout_ok shape old = true -> layout_ok shape new = true ->
    plan_rechunk orders oracle old new itemsize threshold bsl degree_limit = Some plan ->
    plan_valid shape new plan = true.
Proof.
  intros orders oracle old new itemsize threshold bsl degree_limit plan shape Ho Hn H.
  apply layout_ok_iff in Ho. apply layout_ok_iff in Hn.
  unfold plan_rechunk in H.
  match type of H with match ?s with _ => _ end = _ => destruct s as [st|] eqn:Est end; [|discriminate].
  assert (exists s, st = s ++ [new] /\ Forall (layout shape) s) as (s & -> & Hs).
  { destruct (Nat.leb (length new) 1).
    - injection Est as <-. exists []. split; [reflexivity|constructor].
    - destruct (plan_loop _ _ _ _ _ _ _ _ _ _) as [s|] eqn:Ep; [|discriminate].
      cbn [option_map] in Est. injection Est as <-. exists s. split; [reflexivity|].
      eapply plan_loop_layout; [exact Ho|exact Hn| |exact Ep]. constructor. }
  destruct (bound_all_last _ _ _ _ _ _ H) as [p' ->].
  apply plan_valid_intro.
  eapply (bound_all_forall (layout shape)); [|exact Ho| |exact H].
  - intros a b inter cs cs' Ha Hb Hi _. exact (bd_intermediate_layout _ _ _ _ _ _ Ha Hb Hi).
  - apply Forall_app. split; [exact Hs|]. constructor; [exact Hn|constructor].
Qed.

(* ------------------------------------------------------------------ *)
(* FINDING (not reachable from plan_rechunk, whose callers clamp / assert
   max_number >= 1): for a negative max_number the uniform fast path of
   merge_to_number returns the empty layout, whose sum is wrong.  This is why
   merge_to_number_ok carries the hypothesis 0 <= k. *)
Example merge_to_number_negative_k : merge_to_number [1;1] (-1) = Some [].
Proof. vm_compute. reflexivity. Qed.

(* The hypotheses of plan_valid_thm are satisfiable on plans with >= 2 steps. *)
Example plan_valid_hyps_sat :
  let old := [[1;1;1;1;1;1;1;1];[8]] in
  let new := [[8];[1;1;1;1;1;1;1;1]] in
  let orders := [[0%nat];[0%nat];[0%nat];[0%nat]] in
  layout_ok [8;8] old = true /\ layout_ok [8;8] new = true /\
  plan_rechunk orders [] old new 1 1 16 100 = Some [[[2;2;2;2];[8]]; new] /\
  plan_rechunk orders [3;4;2;2;4;3;2;2;1;1] old new 1 1 16 2
  = Some [[[2;2;2;2];[8]]; [[2;2;2;2];[4;4]]; [[4;4];[2;2;2;2]]; new].
Proof. vm_compute. repeat split. Qed.
