(* Graph.v — the SHARED TASK-GRAPH LAYER (definitions only; stdlib only).

   What is modelled (dask side: `arr.__dask_graph__()` is a dict  key -> GraphNode, every
   GraphNode has `.dependencies`, `arr.__dask_keys__()` is the nested list of output keys
   `(name, i, j, ...)`):

   * a dependency graph: the harness numbers the real keys (harness/graphs.py:reify) and
     hands Coq the list  (key, dependencies of key).  Keys are `positive` (not `nat`):
     graphs have a few thousand tasks, unary literals of that size are too slow to parse and
     compare, and `positive` gives us the stdlib radix tree `PositiveMap` for an
     O(n log n) checker;
   * `topo_check_b g order`: an acyclicity/closedness CHECKER that validates an untrusted
     topological order (certificate) supplied by the harness;
   * the advertised key grid (`grid numblocks`, row-major);
   * an EXECUTION model with pure tasks (C10, order independence);
   * a HEAP model with buffers, views/aliases and in-place writes (C10, no task mutates
     its inputs / the user's sources).

   Proofs are in GraphFacts.v. *)
From Coq Require Import List Bool Arith PArith NArith FMapPositive Relations.
Import ListNotations.

Module PM := PositiveMap.

(* ------------------------------------------------------------------------- *)
(** * Dependency graphs *)

Definition key := positive.
Definition graph := list (key * list key).      (* (key, its dependencies) *)

Definition keys (g : graph) : list key := map fst g.
Definition defined (g : graph) (k : key) : Prop := In k (keys g).

(* every dependency of every task is itself a key of the graph *)
Definition closed (g : graph) : Prop :=
  forall k ds d, In (k, ds) g -> In d ds -> defined g d.

(* k depends directly on d *)
Definition edge (g : graph) (k d : key) : Prop := exists ds, In (k, ds) g /\ In d ds.

(* no key reaches itself through one or more dependency edges *)
Definition acyclic (g : graph) : Prop := forall k, ~ clos_trans key (edge g) k k.

(* equivalent certificate form: a rank that strictly decreases along dependency edges *)
Definition ranked (g : graph) : Prop :=
  exists rank : key -> nat, forall k d, edge g k d -> (rank d < rank k)%nat.

(* `order` lists every key exactly once and every dependency of a key strictly earlier *)
Definition topological (g : graph) (order : list key) : Prop :=
  NoDup order /\
  (forall k, In k order <-> defined g k) /\
  (forall pre k post ds, order = pre ++ k :: post -> In (k, ds) g -> incl ds pre).

(* --- simple (quadratic) boolean versions: the specification-side checkers --- *)
Fixpoint mem_b (k : key) (l : list key) : bool :=
  match l with [] => false | x :: t => Pos.eqb k x || mem_b k t end.
Definition defined_b (g : graph) (k : key) : bool := mem_b k (keys g).
Definition closed_b (g : graph) : bool :=
  forallb (fun kd => forallb (defined_b g) (snd kd)) g.
Fixpoint nodup_b (l : list key) : bool :=
  match l with [] => true | x :: t => negb (mem_b x t) && nodup_b t end.
Definition no_dup_keys_b (g : graph) : bool := nodup_b (keys g).

(* --- the efficient certificate checker --- *)
Definition pm_mem {A} (k : key) (m : PM.t A) : bool :=
  match PM.find k m with Some _ => true | None => false end.

(* key -> dependencies as a radix tree; None on a duplicate key *)
Fixpoint build_map (g : graph) (m : PM.t (list key)) : option (PM.t (list key)) :=
  match g with
  | [] => Some m
  | (k, ds) :: t => if pm_mem k m then None else build_map t (PM.add k ds m)
  end.

(* walk the certificate: each key is a key of the graph, is new, and all its
   dependencies have already been seen *)
Fixpoint walk (m : PM.t (list key)) (seen : PM.t unit) (order : list key) : bool :=
  match order with
  | [] => true
  | k :: t =>
    match PM.find k m with
    | None => false
    | Some ds =>
      negb (pm_mem k seen) && forallb (fun d => pm_mem d seen) ds && walk m (PM.add k tt seen) t
    end
  end.

(* the full structural check of C04: certificate `order` + the output keys `outs` are defined *)
Definition graph_check_b (g : graph) (order : list key) (outs : list key) : bool :=
  match build_map g (PM.empty _) with
  | None => false
  | Some m =>
    Nat.eqb (length order) (length g) && walk m (PM.empty unit) order
    && forallb (fun k => pm_mem k m) outs
  end.

Definition topo_check_b (g : graph) (order : list key) : bool := graph_check_b g order [].

(* self-contained variant: a fuelled Kahn pass computes the certificate inside Coq, the
   checker above validates it (so only the checker has to be trusted/proved) *)
Fixpoint kahn (fuel : nat) (rest : graph) (done : PM.t unit) (acc : list key) : option (list key) :=
  match rest with
  | [] => Some (rev acc)
  | _ :: _ =>
    match fuel with
    | O => None
    | S f =>
      let '(ready, blocked) :=
        partition (fun kd => forallb (fun d => pm_mem d done) (snd kd)) rest in
      match ready with
      | [] => None
      | _ :: _ =>
        kahn f blocked (fold_left (fun m kd => PM.add (fst kd) tt m) ready done)
             (rev_append (map fst ready) acc)
      end
    end
  end.

Definition acyclic_b (g : graph) : bool :=
  match kahn (S (length g)) g (PM.empty unit) [] with
  | Some order => topo_check_b g order
  | None => false
  end.

(* ------------------------------------------------------------------------- *)
(** * The advertised key grid: all block indices, row-major
      (`__dask_keys__` = [(name,) + idx for idx in itertools.product of range(n) for n in numblocks]) *)

Fixpoint grid (numblocks : list nat) : list (list nat) :=
  match numblocks with
  | [] => [[]]
  | n :: t => flat_map (fun i => map (cons i) (grid t)) (seq 0 n)
  end.

Fixpoint glist_eqb {A} (eqb : A -> A -> bool) (a b : list A) : bool :=
  match a, b with
  | [], [] => true
  | x :: a', y :: b' => eqb x y && glist_eqb eqb a' b'
  | _, _ => false
  end.

Definition keys_ok_b (numblocks : list nat) (out : list (list nat)) : bool :=
  glist_eqb (glist_eqb Nat.eqb) out (grid numblocks).

(* binary-literal front end used by the harness *)
Definition keys_okN_b (numblocks : list N) (out : list (list N)) : bool :=
  keys_ok_b (map N.to_nat numblocks) (map (map N.to_nat) out).

Definition in_bounds (idx nb : list nat) : Prop := Forall2 lt idx nb.

(* ------------------------------------------------------------------------- *)
(** * Execution model: pure tasks *)

Section Exec.
  Variable V : Type.                       (* task values, abstract *)

  (* the result of a task is a function of the values of its dependencies, in order *)
  Record task := { t_key : key; t_deps : list key; t_fun : list V -> V }.

  Inductive res := Val (v : V) | Stuck.    (* Stuck: a dependency was missing when it ran *)

  Definition store := key -> option res.
  Definition empty_store : store := fun _ => None.
  Definition lookup (s : store) (k : key) : option res := s k.
  Definition upd (s : store) (k : key) (r : res) : store :=
    fun k' => if Pos.eqb k' k then Some r else s k'.

  Fixpoint find_task (g : list task) (k : key) : option task :=
    match g with
    | [] => None
    | t :: g' => if Pos.eqb (t_key t) k then Some t else find_task g' k
    end.

  (* values of the dependencies; None if one is absent or stuck *)
  Fixpoint gather (s : store) (ds : list key) : option (list V) :=
    match ds with
    | [] => Some []
    | d :: t =>
      match s d, gather s t with
      | Some (Val v), Some vs => Some (v :: vs)
      | _, _ => None
      end
    end.

  Definition exec (s : store) (t : task) : res :=
    match gather s (t_deps t) with
    | Some vs => Val (t_fun t vs)
    | None => Stuck
    end.

  Definition step (g : list task) (s : store) (k : key) : store :=
    match find_task g k with
    | Some t => upd s k (exec s t)
    | None => s
    end.

  Definition run (g : list task) (order : list key) : store :=
    fold_left (step g) order empty_store.

  Definition dep_graph (g : list task) : graph := map (fun t => (t_key t, t_deps t)) g.

  (* a store that satisfies every task's defining equation *)
  Definition satisfies (g : list task) (s : store) : Prop :=
    forall t, In t g -> s (t_key t) = Some (exec s t).

  (* --- concurrent schedules (thread pool): a task READS its dependencies at its Start
         event and PUBLISHES its result at its Finish event; events of other tasks may
         interleave arbitrarily in between --- *)
  Inductive event := Start (k : key) | Finish (k : key).

  (* c_pending: results computed by running tasks, not yet published *)
  Record cstate := { c_store : store; c_pending : store }.

  Definition cstep (g : list task) (c : cstate) (e : event) : cstate :=
    match e with
    | Start k =>
      match find_task g k with
      | Some t => {| c_store := c_store c; c_pending := upd (c_pending c) k (exec (c_store c) t) |}
      | None => c
      end
    | Finish k =>
      match c_pending c k with
      | Some r => {| c_store := upd (c_store c) k r; c_pending := c_pending c |}
      | None => c
      end
    end.

  Definition crun (g : list task) (sched : list event) : cstate :=
    fold_left (cstep g) sched {| c_store := empty_store; c_pending := empty_store |}.

  (* a legal schedule: a task is started at most once and only after all its dependencies
     have finished; it finishes once, after it started; in the end exactly the keys of
     the graph have finished *)
  Fixpoint sched_ok_from (g : list task) (started finished : list key) (sched : list event) : Prop :=
    match sched with
    | [] => forall k, In k finished <-> defined (dep_graph g) k
    | Start k :: r =>
      ~ In k started /\
      (forall t, In t g -> t_key t = k -> incl (t_deps t) finished) /\
      sched_ok_from g (k :: started) finished r
    | Finish k :: r =>
      In k started /\ ~ In k finished /\ sched_ok_from g started (k :: finished) r
    end.

  Definition schedule_ok (g : list task) (sched : list event) : Prop := sched_ok_from g [] [] sched.

  (* the serial schedule of an order *)
  Definition serial (order : list key) : list event :=
    flat_map (fun k => [Start k; Finish k]) order.
End Exec.

Arguments Val {V} v.
Arguments Stuck {V}.
Arguments t_key {V} t.
Arguments t_deps {V} t.
Arguments t_fun {V} t.
Arguments lookup {V} s k.
Arguments upd {V} s k r.
Arguments find_task {V} g k.
Arguments gather {V} s ds.
Arguments exec {V} s t.
Arguments step {V} g s k.
Arguments cstep {V} g c e.
Arguments crun {V} g sched.
Arguments schedule_ok {V} g sched.
Arguments c_store {V} c.
Arguments c_pending {V} c.
Arguments sched_ok_from {V} g started finished sched.
Arguments run {V} g order.
Arguments dep_graph {V} g.
Arguments satisfies {V} g s.

(* ------------------------------------------------------------------------- *)
(** * Heap model: buffers, views, in-place writes *)

(* buffer identities: the user's source arrays, and the one buffer a task may allocate for
   its result (named after the task, so the naming does not depend on the schedule) *)
Inductive buf := Src (i : nat) | Own (k : key).

Definition buf_eqb (a b : buf) : bool :=
  match a, b with
  | Src i, Src j => Nat.eqb i j
  | Own k, Own l => Pos.eqb k l
  | _, _ => false
  end.

(* what the RESULT of a task is, memory-wise *)
Inductive effect :=
| Fresh                      (* a newly allocated buffer *)
| ViewOf (i : nat)           (* a view into the result of its i-th dependency (x[sl], x.T, ...) *)
| SameAs (i : nat)           (* the very same object as its i-th dependency (Alias) *)
| ViewOfSource (s : nat).    (* a view into a source buffer (from_array getter) *)

Section Heap.
  Variable C : Type.                       (* buffer contents / values, abstract *)

  Record htask := {
    h_key : key;
    h_deps : list key;
    h_eff : effect;
    h_fun : list C -> C;                   (* Fresh: contents of the new buffer *)
    h_view : C -> C;                       (* ViewOf/ViewOfSource: what the view shows of its base *)
    h_writes : list buf;                   (* buffers the task writes in place while running *)
    h_wval : buf -> list C -> C -> C       (* ... and what it writes (from dep values, old contents) *)
  }.

  (* a reference = base buffer + how to read the value out of it *)
  Record ref := { r_buf : buf; r_view : C -> C }.
  Inductive hres := HRef (r : ref) | HStuck.

  Definition heap := buf -> C.
  Definition env := key -> option hres.
  Record state := { st_env : env; st_heap : heap }.

  Definition deref (h : heap) (r : ref) : C := r_view r (h (r_buf r)).
  Definition hupd (h : heap) (b : buf) (c : C) : heap :=
    fun b' => if buf_eqb b' b then c else h b'.
  Definition eupd (e : env) (k : key) (r : hres) : env :=
    fun k' => if Pos.eqb k' k then Some r else e k'.

  Fixpoint hfind (g : list htask) (k : key) : option htask :=
    match g with
    | [] => None
    | t :: g' => if Pos.eqb (h_key t) k then Some t else hfind g' k
    end.

  Fixpoint hgather (e : env) (ds : list key) : option (list ref) :=
    match ds with
    | [] => Some []
    | d :: t =>
      match e d, hgather e t with
      | Some (HRef r), Some rs => Some (r :: rs)
      | _, _ => None
      end
    end.

  (* the in-place writes of a task *)
  Definition scribble (t : htask) (vals : list C) (h : heap) : heap :=
    fold_left (fun h b => hupd h b (h_wval t b vals (h b))) (h_writes t) h.

  Definition fresh_result (t : htask) (vals : list C) (e : env) (h : heap) : state :=
    {| st_env := eupd e (h_key t) (HRef {| r_buf := Own (h_key t); r_view := fun c => c |});
       st_heap := hupd h (Own (h_key t)) (h_fun t vals) |}.

  Definition hexec (t : htask) (s : state) : state :=
    match hgather (st_env s) (h_deps t) with
    | None => {| st_env := eupd (st_env s) (h_key t) HStuck; st_heap := st_heap s |}
    | Some refs =>
      let vals := map (deref (st_heap s)) refs in
      let h1 := scribble t vals (st_heap s) in
      match h_eff t with
      | Fresh => fresh_result t vals (st_env s) h1
      | ViewOf i =>
        match nth_error refs i with
        | Some r => {| st_env := eupd (st_env s) (h_key t)
                                   (HRef {| r_buf := r_buf r; r_view := fun c => h_view t (r_view r c) |});
                       st_heap := h1 |}
        | None => fresh_result t vals (st_env s) h1
        end
      | SameAs i =>
        match nth_error refs i with
        | Some r => {| st_env := eupd (st_env s) (h_key t) (HRef r); st_heap := h1 |}
        | None => fresh_result t vals (st_env s) h1
        end
      | ViewOfSource i =>
        {| st_env := eupd (st_env s) (h_key t) (HRef {| r_buf := Src i; r_view := h_view t |});
           st_heap := h1 |}
      end
    end.

  Definition hstep (g : list htask) (s : state) (k : key) : state :=
    match hfind g k with Some t => hexec t s | None => s end.

  Definition hinit (h0 : heap) : state := {| st_env := fun _ => None; st_heap := h0 |}.

  Definition hrun (g : list htask) (order : list key) (h0 : heap) : state :=
    fold_left (hstep g) order (hinit h0).

  (* the value of key k as the heap shows it NOW *)
  Definition hvalue (s : state) (k : key) : option (res C) :=
    match st_env s k with
    | None => None
    | Some HStuck => Some Stuck
    | Some (HRef r) => Some (Val (deref (st_heap s) r))
    end.

  Definition hdep_graph (g : list htask) : graph := map (fun t => (h_key t, h_deps t)) g.

  (* a task writes only the buffer it allocated itself *)
  Definition task_well_behaved (t : htask) : Prop :=
    forall b, In b (h_writes t) -> b = Own (h_key t).
  Definition well_behaved (g : list htask) : Prop := forall t, In t g -> task_well_behaved t.

  Definition well_behaved_b (g : list htask) : bool :=
    forallb (fun t => forallb (fun b => buf_eqb b (Own (h_key t))) (h_writes t)) g.

  (* the pure task a heap task denotes (source contents h0 fixed) *)
  Definition abs_task (h0 : heap) (t : htask) : task C :=
    {| t_key := h_key t;
       t_deps := h_deps t;
       t_fun := fun vals =>
         match h_eff t with
         | Fresh => h_fun t vals
         | ViewOf i => match nth_error vals i with Some v => h_view t v | None => h_fun t vals end
         | SameAs i => match nth_error vals i with Some v => v | None => h_fun t vals end
         | ViewOfSource i => h_view t (h0 (Src i))
         end |}.

  Definition abstract (h0 : heap) (g : list htask) : list (task C) := map (abs_task h0) g.
End Heap.

Arguments h_key {C} h.
Arguments h_deps {C} h.
Arguments h_eff {C} h.
Arguments h_writes {C} h.
Arguments h_fun {C} h.
Arguments h_view {C} h.
Arguments h_wval {C} h.
Arguments HStuck {C}.
Arguments HRef {C} r.
Arguments r_buf {C} r.
Arguments r_view {C} r.
Arguments st_env {C} s.
Arguments st_heap {C} s.
Arguments deref {C} h r.
Arguments hupd {C} h b c.
Arguments eupd {C} e k r.
Arguments hfind {C} g k.
Arguments hgather {C} e ds.
Arguments scribble {C} t vals h.
Arguments fresh_result {C} t vals e h.
Arguments hexec {C} t s.
Arguments hstep {C} g s k.
Arguments hinit {C} h0.
Arguments hrun {C} g order h0.
Arguments hvalue {C} s k.
Arguments hdep_graph {C} g.
Arguments task_well_behaved {C} t.
Arguments well_behaved {C} g.
Arguments well_behaved_b {C} g.
Arguments abs_task {C} h0 t.
Arguments abstract {C} h0 g.
