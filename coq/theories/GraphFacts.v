(* GraphFacts.v — proofs about the shared task-graph layer (Graph.v).  Stdlib only. *)
From Coq Require Import List Bool Arith PArith NArith FMapPositive Relations Lia.
From DA Require Import Graph.
Import ListNotations.

(* ------------------------------------------------------------------------- *)
(** * Boolean membership / reflection of the quadratic checkers *)

Lemma mem_b_In : forall k l, mem_b k l = true <-> In k l.
Proof.
  intros k l; induction l as [|x t IH]; cbn.
  - split; [discriminate | tauto].
  - rewrite orb_true_iff, IH, Pos.eqb_eq. split; intros [H|H]; auto.
Qed.

Lemma nodup_b_NoDup : forall l, nodup_b l = true <-> NoDup l.
Proof.
  induction l as [|x t IH]; cbn.
  - split; [constructor | reflexivity].
  - rewrite andb_true_iff, negb_true_iff, IH. split.
    + intros [Hm Hn]. constructor; [|exact Hn].
      intro Hin. apply mem_b_In in Hin. congruence.
    + intro Hn. inversion Hn as [|? ? Hnotin Hnd]; subst. split; [|exact Hnd].
      destruct (mem_b x t) eqn:E; [|reflexivity]. apply mem_b_In in E. contradiction.
Qed.

Lemma no_dup_keys_b_spec : forall g, no_dup_keys_b g = true <-> NoDup (keys g).
Proof. intro g. apply nodup_b_NoDup. Qed.

Lemma defined_b_spec : forall g k, defined_b g k = true <-> defined g k.
Proof. intros g k. apply mem_b_In. Qed.

Lemma closed_b_spec : forall g, closed_b g = true <-> closed g.
Proof.
  intro g. unfold closed_b, closed. rewrite forallb_forall. split.
  - intros H k ds d Hin Hd. specialize (H (k, ds) Hin). cbn in H.
    rewrite forallb_forall in H. apply defined_b_spec. exact (H d Hd).
  - intros H [k ds] Hin. cbn. rewrite forallb_forall. intros d Hd.
    apply defined_b_spec. exact (H k ds d Hin Hd).
Qed.

Lemma in_keys : forall (g : graph) k ds, In (k, ds) g -> defined g k.
Proof. intros g k ds H. unfold defined, keys. change k with (fst (k, ds)). apply in_map. exact H. Qed.

Lemma defined_in : forall (g : graph) k, defined g k -> exists ds, In (k, ds) g.
Proof.
  intros g k H. unfold defined, keys in H. apply in_map_iff in H.
  destruct H as [[k' ds] [E Hin]]. cbn in E. subst. eauto.
Qed.

(* ------------------------------------------------------------------------- *)
(** * ranked -> acyclic;  topological -> closed, ranked, acyclic *)

Lemma ranked_acyclic : forall g, ranked g -> acyclic g.
Proof.
  intros g [rank Hr] k Hc.
  assert (Hlt : forall a b, clos_trans key (edge g) a b -> rank b < rank a).
  { intros a b H. induction H as [a b H | a b c _ IH1 _ IH2].
    - apply Hr; exact H.
    - lia. }
  specialize (Hlt k k Hc). lia.
Qed.

(* index of the first occurrence (length if absent) *)
Fixpoint index_of (k : key) (l : list key) : nat :=
  match l with [] => 0 | x :: t => if Pos.eqb x k then 0 else S (index_of k t) end.

Lemma index_of_in_lt : forall k pre post, In k pre -> index_of k (pre ++ post) < length pre.
Proof.
  intros k pre post; induction pre as [|x t IH]; cbn; intro H; [contradiction|].
  destruct (Pos.eqb x k) eqn:E; [lia|].
  destruct H as [H|H]; [subst; rewrite Pos.eqb_refl in E; discriminate|].
  specialize (IH H). lia.
Qed.

Lemma index_of_notin : forall k pre post, ~ In k pre -> index_of k (pre ++ k :: post) = length pre.
Proof.
  intros k pre post; induction pre as [|x t IH]; cbn; intro H.
  - rewrite Pos.eqb_refl. reflexivity.
  - destruct (Pos.eqb x k) eqn:E.
    + apply Pos.eqb_eq in E. subst. exfalso. apply H. left; reflexivity.
    + rewrite IH; [reflexivity|]. intro Hin. apply H. right; exact Hin.
Qed.

Lemma NoDup_app_notin : forall (pre : list key) k post, NoDup (pre ++ k :: post) -> ~ In k pre /\ ~ In k post.
Proof.
  intros pre k post H. apply NoDup_remove_2 in H. split; intro Hin; apply H; apply in_or_app; auto.
Qed.

Lemma NoDup_app_l : forall (a b : list key), NoDup (a ++ b) -> NoDup a.
Proof.
  induction a as [|x a IH]; cbn; intros b H; [constructor|].
  inversion H as [|? ? Hx Hnd]; subst. constructor; [|eapply IH; eauto].
  intro Hin. apply Hx. apply in_or_app. left; exact Hin.
Qed.

Lemma topological_closed : forall g o, topological g o -> closed g.
Proof.
  intros g o (Hnd & Hkeys & Hdeps) k ds d Hin Hd.
  assert (Hk : In k o) by (apply Hkeys; eapply in_keys; eauto).
  apply in_split in Hk. destruct Hk as [pre [post E]].
  apply Hkeys. rewrite E. apply in_or_app. left. exact (Hdeps pre k post ds E Hin d Hd).
Qed.

Lemma topological_ranked : forall g o, topological g o -> ranked g.
Proof.
  intros g o (Hnd & Hkeys & Hdeps). exists (fun k => index_of k o).
  intros k d [ds [Hin Hd]].
  assert (Hk : In k o) by (apply Hkeys; eapply in_keys; eauto).
  apply in_split in Hk. destruct Hk as [pre [post E]].
  pose proof (Hdeps pre k post ds E Hin d Hd) as Hpre.
  rewrite E in Hnd. apply NoDup_app_notin in Hnd. destruct Hnd as [Hn1 _].
  rewrite E. rewrite (index_of_notin k pre post Hn1).
  apply index_of_in_lt. exact Hpre.
Qed.

Lemma topological_acyclic : forall g o, topological g o -> acyclic g.
Proof. intros g o H. apply ranked_acyclic. eapply topological_ranked; eauto. Qed.

Theorem topological_closed_acyclic : forall g o, topological g o -> closed g /\ acyclic g.
Proof. intros g o H. split; [eapply topological_closed | eapply topological_acyclic]; eauto. Qed.

(* ------------------------------------------------------------------------- *)
(** * Soundness of the certificate checker *)

Lemma pm_mem_add : forall A (m : PM.t A) k k' x,
  pm_mem k' (PM.add k x m) = Pos.eqb k' k || pm_mem k' m.
Proof.
  intros A m k k' x. unfold pm_mem. destruct (Pos.eqb k' k) eqn:E.
  - apply Pos.eqb_eq in E. subst. rewrite PM.gss. reflexivity.
  - apply Pos.eqb_neq in E. rewrite PM.gso by exact E. reflexivity.
Qed.

Lemma pm_mem_empty : forall A k, pm_mem k (PM.empty A) = false.
Proof. intros A k. unfold pm_mem. rewrite PM.gempty. reflexivity. Qed.

Lemma build_map_mono : forall g m0 m, build_map g m0 = Some m ->
  forall k ds, PM.find k m0 = Some ds -> ~ In k (keys g) -> PM.find k m = Some ds.
Proof.
  induction g as [|[k1 ds1] t IH]; cbn; intros m0 m H k ds Hf Hn.
  - inversion H; subst; exact Hf.
  - destruct (pm_mem k1 m0); [discriminate|].
    apply (IH _ _ H).
    + rewrite PM.gso; [exact Hf|]. intro E. apply Hn. left. symmetry; exact E.
    + intro Hin. apply Hn. right; exact Hin.
Qed.

Lemma build_map_spec : forall g m0 m,
  build_map g m0 = Some m ->
  NoDup (keys g) /\
  (forall k, In k (keys g) -> pm_mem k m0 = false) /\
  (forall k ds, In (k, ds) g -> PM.find k m = Some ds) /\
  (forall k ds, PM.find k m = Some ds -> In (k, ds) g \/ PM.find k m0 = Some ds).
Proof.
  induction g as [|[k0 ds0] t IH]; cbn; intros m0 m H.
  - inversion H; subst. split; [constructor|]. split; [intros k []|].
    split; [intros k ds []|]. intros k ds Hf; right; exact Hf.
  - destruct (pm_mem k0 m0) eqn:Em; [discriminate|].
    destruct (IH _ _ H) as (Hnd & Hfresh & Hfind & Hinv).
    assert (Hk0 : ~ In k0 (keys t)).
    { intro Hin. specialize (Hfresh k0 Hin). rewrite pm_mem_add, Pos.eqb_refl in Hfresh. discriminate. }
    repeat split.
    + constructor; assumption.
    + intros k [E|Hin]; [subst; exact Em|].
      specialize (Hfresh k Hin). rewrite pm_mem_add in Hfresh. apply orb_false_iff in Hfresh. tauto.
    + intros k ds [E|Hin]; [|apply Hfind; exact Hin].
      inversion E; subst.
      apply (build_map_mono _ _ _ H); [apply PM.gss | exact Hk0].
    + intros k ds Hf. destruct (Hinv k ds Hf) as [Hin|Hadd]; [left; right; exact Hin|].
      destruct (Pos.eq_dec k k0) as [E|E].
      * subst. rewrite PM.gss in Hadd. inversion Hadd; subst. left; left; reflexivity.
      * rewrite PM.gso in Hadd by exact E. right; exact Hadd.
Qed.

Lemma walk_spec : forall m order seen,
  walk m seen order = true ->
  NoDup order /\
  (forall k, In k order -> pm_mem k seen = false) /\
  (forall pre k post, order = pre ++ k :: post ->
     exists ds, PM.find k m = Some ds /\ forall d, In d ds -> pm_mem d seen = true \/ In d pre).
Proof.
  intros m order; induction order as [|k0 t IH]; cbn; intros seen H.
  - split; [constructor|]. split; [intros k []|].
    intros pre k post E. destruct pre; discriminate.
  - destruct (PM.find k0 m) as [ds0|] eqn:Ef; [|discriminate].
    apply andb_true_iff in H. destruct H as [H Hw].
    apply andb_true_iff in H. destruct H as [Hnew Hdeps].
    apply negb_true_iff in Hnew. rewrite forallb_forall in Hdeps.
    destruct (IH _ Hw) as (Hnd & Hfresh & Hsplit).
    assert (Hk0 : ~ In k0 t).
    { intro Hin. specialize (Hfresh k0 Hin). rewrite pm_mem_add, Pos.eqb_refl in Hfresh. discriminate. }
    split; [constructor; assumption|]. split.
    + intros k [E|Hin]; [subst; exact Hnew|].
      specialize (Hfresh k Hin). rewrite pm_mem_add in Hfresh. apply orb_false_iff in Hfresh. tauto.
    + intros pre k post E. destruct pre as [|p pre'].
      * cbn in E. inversion E; subst. exists ds0. split; [exact Ef|].
        intros d Hd. left. exact (Hdeps d Hd).
      * cbn in E. inversion E; subst.
        destruct (Hsplit pre' k post eq_refl) as [ds [Hf Hds]].
        exists ds. split; [exact Hf|]. intros d Hd.
        destruct (Hds d Hd) as [Hs|Hp]; [|right; right; exact Hp].
        rewrite pm_mem_add in Hs. apply orb_true_iff in Hs. destruct Hs as [Hs|Hs].
        -- apply Pos.eqb_eq in Hs. subst. right; left; reflexivity.
        -- left; exact Hs.
Qed.

(* the checker accepts only genuine topological orders of graphs without duplicate keys,
   and only when all the requested output keys are defined *)
Theorem graph_check_sound : forall g order outs,
  graph_check_b g order outs = true ->
  NoDup (keys g) /\ topological g order /\ (forall k, In k outs -> defined g k).
Proof.
  intros g order outs H. unfold graph_check_b in H.
  destruct (build_map g (PM.empty (list key))) as [m|] eqn:Eb; [|discriminate].
  apply andb_true_iff in H. destruct H as [H Houts].
  apply andb_true_iff in H. destruct H as [Hlen Hw].
  apply Nat.eqb_eq in Hlen.
  destruct (build_map_spec _ _ _ Eb) as (Hnd & _ & Hfind & Hinv).
  destruct (walk_spec _ _ _ Hw) as (Hndo & _ & Hsplit).
  assert (Hin_m : forall k ds, PM.find k m = Some ds -> In (k, ds) g).
  { intros k ds Hf. destruct (Hinv k ds Hf) as [Hin|He]; [exact Hin|]. rewrite PM.gempty in He. discriminate. }
  assert (Hsub : incl order (keys g)).
  { intros k Hk. apply in_split in Hk. destruct Hk as [pre [post E]].
    destruct (Hsplit pre k post E) as [ds [Hf _]]. eapply in_keys. apply Hin_m. exact Hf. }
  assert (Hsup : incl (keys g) order).
  { apply NoDup_length_incl; [exact Hndo | | exact Hsub].
    unfold keys. rewrite map_length. lia. }
  split; [exact Hnd|]. split.
  - split; [exact Hndo|]. split.
    + intro k. split; [apply Hsub | apply Hsup].
    + intros pre k post ds E Hin d Hd.
      destruct (Hsplit pre k post E) as [ds' [Hf Hds]].
      rewrite (Hfind k ds Hin) in Hf. inversion Hf; subst ds'.
      destruct (Hds d Hd) as [Hs|Hp]; [|exact Hp].
      rewrite pm_mem_empty in Hs. discriminate.
  - rewrite forallb_forall in Houts. intros k Hk. specialize (Houts k Hk).
    unfold pm_mem in Houts. destruct (PM.find k m) as [ds|] eqn:Ef; [|discriminate].
    eapply in_keys. apply Hin_m. exact Ef.
Qed.

Theorem topo_check_topological : forall g order,
  topo_check_b g order = true -> NoDup (keys g) /\ topological g order.
Proof.
  intros g order H. destruct (graph_check_sound g order [] H) as (H1 & H2 & _). split; assumption.
Qed.

Theorem topo_check_sound : forall g order,
  topo_check_b g order = true -> closed g /\ NoDup (keys g) /\ acyclic g.
Proof.
  intros g order H. destruct (topo_check_topological g order H) as [Hnd Ht].
  split; [eapply topological_closed; eauto|]. split; [exact Hnd|].
  eapply topological_acyclic; eauto.
Qed.

Theorem topo_check_ranked : forall g order,
  topo_check_b g order = true -> ranked g.
Proof.
  intros g order H. destruct (topo_check_topological g order H) as [_ Ht].
  eapply topological_ranked; eauto.
Qed.

Theorem acyclic_b_sound : forall g,
  acyclic_b g = true -> closed g /\ NoDup (keys g) /\ acyclic g.
Proof.
  intros g H. unfold acyclic_b in H.
  destruct (kahn (S (length g)) g (PM.empty unit) []) as [o|]; [|discriminate].
  eapply topo_check_sound; eauto.
Qed.

(* the checker is also complete: every genuine certificate is accepted *)
Lemma walk_complete : forall m order seen,
  NoDup order ->
  (forall k, In k order -> pm_mem k seen = false) ->
  (forall pre k post, order = pre ++ k :: post ->
     exists ds, PM.find k m = Some ds /\ forall d, In d ds -> pm_mem d seen = true \/ In d pre) ->
  walk m seen order = true.
Proof.
  intros m order; induction order as [|k0 t IH]; cbn; intros seen Hnd Hfresh Hsplit; [reflexivity|].
  destruct (Hsplit [] k0 t eq_refl) as [ds0 [Hf Hds]]. rewrite Hf.
  inversion Hnd as [|? ? Hk0 Hnd']; subst.
  rewrite (Hfresh k0 (or_introl eq_refl)). cbn.
  assert (Hall : forallb (fun d => pm_mem d seen) ds0 = true).
  { apply forallb_forall. intros d Hd. destruct (Hds d Hd) as [Hs|[]]. exact Hs. }
  rewrite Hall. cbn. apply IH; [exact Hnd'| |].
  - intros k Hk. rewrite pm_mem_add. rewrite (Hfresh k (or_intror Hk)).
    destruct (Pos.eqb k k0) eqn:E; [|reflexivity]. apply Pos.eqb_eq in E. subst. contradiction.
  - intros pre k post E.
    destruct (Hsplit (k0 :: pre) k post) as [ds [Hf' Hds']]; [cbn; rewrite E; reflexivity|].
    exists ds. split; [exact Hf'|]. intros d Hd. rewrite pm_mem_add.
    destruct (Hds' d Hd) as [Hs|[Hp|Hp]].
    + left. rewrite Hs. apply orb_true_r.
    + subst. left. rewrite Pos.eqb_refl. reflexivity.
    + right; exact Hp.
Qed.

Lemma build_map_complete : forall g m0,
  NoDup (keys g) -> (forall k, In k (keys g) -> pm_mem k m0 = false) ->
  exists m, build_map g m0 = Some m.
Proof.
  induction g as [|[k0 ds0] t IH]; cbn; intros m0 Hnd Hfresh; [eauto|].
  rewrite (Hfresh k0 (or_introl eq_refl)).
  inversion Hnd as [|? ? Hk0 Hnd']; subst.
  apply IH; [exact Hnd'|]. intros k Hk. rewrite pm_mem_add, (Hfresh k (or_intror Hk)).
  destruct (Pos.eqb k k0) eqn:E; [|reflexivity]. apply Pos.eqb_eq in E. subst. contradiction.
Qed.

Theorem topo_check_complete : forall g order,
  NoDup (keys g) -> topological g order -> topo_check_b g order = true.
Proof.
  intros g order Hnd (Hndo & Hkeys & Hdeps). unfold topo_check_b, graph_check_b.
  destruct (build_map_complete g (PM.empty _) Hnd) as [m Eb].
  { intros k _. apply pm_mem_empty. }
  rewrite Eb. destruct (build_map_spec _ _ _ Eb) as (_ & _ & Hfind & _).
  cbn. rewrite andb_true_r. apply andb_true_iff. split.
  - apply Nat.eqb_eq.
    assert (H1 : length order <= length (keys g)).
    { apply NoDup_incl_length; [exact Hndo|]. intros k Hk. apply Hkeys. exact Hk. }
    assert (H2 : length (keys g) <= length order).
    { apply NoDup_incl_length; [exact Hnd|]. intros k Hk. apply Hkeys. exact Hk. }
    unfold keys in H1, H2. rewrite map_length in H1, H2. lia.
  - apply walk_complete; [exact Hndo | intros; apply pm_mem_empty |].
    intros pre k post E.
    assert (Hk : defined g k) by (apply Hkeys; rewrite E; apply in_or_app; right; left; reflexivity).
    destruct (defined_in g k Hk) as [ds Hin].
    exists ds. split; [apply Hfind; exact Hin|].
    intros d Hd. right. exact (Hdeps pre k post ds E Hin d Hd).
Qed.

(* ------------------------------------------------------------------------- *)
(** * The key grid *)

Lemma flat_map_length_const : forall A B (f : A -> list B) L l,
  (forall x, length (f x) = L) -> length (flat_map f l) = length l * L.
Proof.
  intros A B f L l H; induction l as [|x t IH]; cbn; [reflexivity|].
  rewrite app_length, H, IH. reflexivity.
Qed.

Theorem grid_length : forall nb, length (grid nb) = fold_right Nat.mul 1 nb.
Proof.
  induction nb as [|n t IH]; cbn; [reflexivity|].
  rewrite (flat_map_length_const _ _ _ (length (grid t))).
  - rewrite seq_length, IH. reflexivity.
  - intro i. apply map_length.
Qed.

Theorem grid_in_bounds : forall nb idx, In idx (grid nb) <-> in_bounds idx nb.
Proof.
  unfold in_bounds. induction nb as [|n t IH]; cbn; intro idx.
  - split.
    + intros [E|[]]. subst. constructor.
    + intro H. inversion H. left; reflexivity.
  - rewrite in_flat_map. split.
    + intros [i [Hi Hm]]. apply in_map_iff in Hm. destruct Hm as [r [E Hr]]. subst idx.
      apply in_seq in Hi. constructor; [lia|]. apply IH. exact Hr.
    + intro H. inversion H as [|i n' r t' Hlt Hr]; subst.
      exists i. split; [apply in_seq; lia|]. apply in_map. apply IH. exact Hr.
Qed.

Lemma NoDup_flat_map_disjoint : forall A B (f : A -> list B) l,
  NoDup l -> (forall x, NoDup (f x)) ->
  (forall x y z, In z (f x) -> In z (f y) -> x = y) ->
  NoDup (flat_map f l).
Proof.
  intros A B f l Hl Hf Hdis; induction Hl as [|x t Hx Ht IH]; cbn; [constructor|].
  assert (Happ : forall (a b : list B), NoDup a -> NoDup b -> (forall z, In z a -> ~ In z b) -> NoDup (a ++ b)).
  { clear. induction a as [|u a IH]; cbn; intros b Ha Hb Hd; [exact Hb|].
    inversion Ha; subst. constructor.
    - intro Hin. apply in_app_or in Hin. destruct Hin as [Hin|Hin]; [contradiction|].
      apply (Hd u); [left; reflexivity | exact Hin].
    - apply IH; [assumption|assumption|]. intros z Hz Hzb. apply (Hd z); [right; exact Hz | exact Hzb]. }
  apply Happ; [apply Hf | exact IH |].
  intros z Hz Hin. apply in_flat_map in Hin. destruct Hin as [y [Hy Hzy]].
  assert (x = y) by (eapply Hdis; eauto). subst. contradiction.
Qed.

Theorem grid_NoDup : forall nb, NoDup (grid nb).
Proof.
  induction nb as [|n t IH]; cbn.
  - constructor; [intros []|constructor].
  - apply NoDup_flat_map_disjoint.
    + apply seq_NoDup.
    + intro i. clear - IH. induction IH as [|r l Hr Hl IHl]; cbn; constructor; [|exact IHl].
      intro Hin. apply in_map_iff in Hin. destruct Hin as [r' [E Hr']]. inversion E; subst. contradiction.
    + intros x y z Hx Hy. apply in_map_iff in Hx. apply in_map_iff in Hy.
      destruct Hx as [r1 [E1 _]]. destruct Hy as [r2 [E2 _]]. subst z. inversion E2. reflexivity.
Qed.

Lemma glist_eqb_eq : forall A (eqb : A -> A -> bool),
  (forall x y, eqb x y = true <-> x = y) ->
  forall a b, glist_eqb eqb a b = true <-> a = b.
Proof.
  intros A eqb Heq; induction a as [|x a IH]; intros [|y b]; cbn; try (split; [discriminate|discriminate]).
  - split; reflexivity.
  - rewrite andb_true_iff, Heq, IH. split; [intros [-> ->]; reflexivity | intro E; inversion E; auto].
Qed.

Theorem keys_ok_b_spec : forall nb out, keys_ok_b nb out = true <-> out = grid nb.
Proof.
  intros nb out. unfold keys_ok_b. apply glist_eqb_eq. intros x y.
  apply glist_eqb_eq. intros a b. apply Nat.eqb_eq.
Qed.

(* what an accepted key list satisfies: every in-bounds block index exactly once *)
Theorem keys_ok_exactly_once : forall nb out, keys_ok_b nb out = true ->
  NoDup out /\ length out = fold_right Nat.mul 1 nb /\ forall idx, In idx out <-> in_bounds idx nb.
Proof.
  intros nb out H. apply keys_ok_b_spec in H. subst out.
  split; [apply grid_NoDup|]. split; [apply grid_length|]. apply grid_in_bounds.
Qed.

Lemma map_to_nat_inj : forall a b, map N.to_nat a = map N.to_nat b -> a = b.
Proof.
  induction a as [|x a IH]; intros [|y b] E; cbn in E; try discriminate; [reflexivity|].
  inversion E as [[E1 E2]]. apply N2Nat.inj in E1. subst. f_equal. apply IH. exact E2.
Qed.

Theorem keys_okN_b_spec : forall nb out,
  keys_okN_b nb out = true <-> out = map (map N.of_nat) (grid (map N.to_nat nb)).
Proof.
  intros nb out. unfold keys_okN_b. rewrite keys_ok_b_spec. split.
  - intro E. rewrite <- E. rewrite map_map.
    rewrite <- (map_id out) at 1. apply map_ext. intro idx. rewrite map_map.
    rewrite <- (map_id idx) at 1. apply map_ext. intro x. symmetry. apply N2Nat.id.
  - intro E. subst out. rewrite map_map.
    rewrite <- (map_id (grid _)) at 2. apply map_ext. intro idx. rewrite map_map.
    rewrite <- (map_id idx) at 2. apply map_ext. intro x. apply Nat2N.id.
Qed.

(* ------------------------------------------------------------------------- *)
(** * C10, pure tasks: every topological order computes the same store *)

Section ExecFacts.
  Variable V : Type.
  Implicit Types (g : list (task V)) (s : store V) (t : task V) (k d : key).

  Lemma upd_same : forall s k r, upd s k r k = Some r.
  Proof. intros. unfold upd. rewrite Pos.eqb_refl. reflexivity. Qed.

  Lemma upd_other : forall s k r k', k' <> k -> upd s k r k' = s k'.
  Proof. intros s k r k' H. unfold upd. apply Pos.eqb_neq in H. rewrite H. reflexivity. Qed.

  Lemma step_other : forall g s k k', k' <> k -> step g s k k' = s k'.
  Proof.
    intros g s k k' H. unfold step. destruct (find_task g k); [|reflexivity].
    apply upd_other. exact H.
  Qed.

  Lemma fold_step_other : forall g order s k',
    ~ In k' order -> fold_left (step g) order s k' = s k'.
  Proof.
    intros g order; induction order as [|k t IH]; cbn; intros s k' H; [reflexivity|].
    rewrite IH by (intro Hin; apply H; right; exact Hin).
    apply step_other. intro E. apply H. left. symmetry; exact E.
  Qed.

  Lemma gather_ext : forall s s' ds, (forall d, In d ds -> s d = s' d) -> gather s ds = gather s' ds.
  Proof.
    intros s s' ds; induction ds as [|d t IH]; cbn; intro H; [reflexivity|].
    rewrite (H d (or_introl eq_refl)), IH; [reflexivity|].
    intros d' Hd'. apply H. right; exact Hd'.
  Qed.

  Lemma exec_ext : forall s s' t, (forall d, In d (t_deps t) -> s d = s' d) -> exec s t = exec s' t.
  Proof. intros s s' t H. unfold exec. rewrite (gather_ext s s' _ H). reflexivity. Qed.

  Lemma gather_some : forall s ds, (forall d, In d ds -> exists v, s d = Some (Val v)) ->
    exists vs, gather s ds = Some vs.
  Proof.
    intros s ds; induction ds as [|d t IH]; cbn; intro H; [eauto|].
    destruct (H d (or_introl eq_refl)) as [v Ev]. rewrite Ev.
    destruct IH as [vs Evs]; [intros d' Hd'; apply H; right; exact Hd'|].
    rewrite Evs. eauto.
  Qed.

  Lemma find_task_some : forall g k t, find_task g k = Some t -> In t g /\ t_key t = k.
  Proof.
    induction g as [|t0 g IH]; cbn; intros k t H; [discriminate|].
    destruct (Pos.eqb (t_key t0) k) eqn:E.
    - inversion H; subst. apply Pos.eqb_eq in E. auto.
    - destruct (IH _ _ H). auto.
  Qed.

  Lemma find_task_In : forall g t, NoDup (map (@t_key V) g) -> In t g -> find_task g (t_key t) = Some t.
  Proof.
    induction g as [|t0 g IH]; cbn; intros t Hnd Hin; [contradiction|].
    inversion Hnd as [|? ? Hn Hnd']; subst.
    destruct Hin as [E|Hin].
    - subst. rewrite Pos.eqb_refl. reflexivity.
    - destruct (Pos.eqb (t_key t0) (t_key t)) eqn:E.
      + apply Pos.eqb_eq in E. exfalso. apply Hn. rewrite E. apply in_map. exact Hin.
      + apply IH; assumption.
  Qed.

  Lemma dep_graph_in : forall g t, In t g -> In (t_key t, t_deps t) (dep_graph g).
  Proof. intros g t H. unfold dep_graph. apply (in_map (fun t => (t_key t, t_deps t))). exact H. Qed.

  Lemma dep_graph_keys : forall g, keys (dep_graph g) = map (@t_key V) g.
  Proof. intro g. unfold keys, dep_graph. rewrite map_map. reflexivity. Qed.

  Lemma dep_graph_defined : forall g k, defined (dep_graph g) k <-> exists t, In t g /\ t_key t = k.
  Proof.
    intros g k. unfold defined. rewrite dep_graph_keys, in_map_iff. split; intros [t [A B]]; eauto.
  Qed.

  Lemma run_app : forall g pre post, run g (pre ++ post) = fold_left (step g) post (run g pre).
  Proof. intros. unfold run. apply fold_left_app. Qed.

  (* a key's entry is written when it runs ... *)
  Lemma run_at : forall g pre k post t,
    NoDup (pre ++ k :: post) -> find_task g k = Some t ->
    run g (pre ++ k :: post) k = Some (exec (run g pre) t).
  Proof.
    intros g pre k post t Hnd Hf. rewrite run_app. cbn.
    apply NoDup_app_notin in Hnd. destruct Hnd as [_ Hpost].
    rewrite fold_step_other by exact Hpost.
    unfold step. rewrite Hf. apply upd_same.
  Qed.

  (* ... and never changes afterwards *)
  Lemma run_stable : forall g pre post k,
    NoDup (pre ++ post) -> In k pre -> run g (pre ++ post) k = run g pre k.
  Proof.
    intros g pre post k Hnd Hin. rewrite run_app. apply fold_step_other.
    intro Hp. revert Hnd Hin Hp. clear. induction pre as [|x pre IH]; cbn; intros Hnd Hin Hp; [contradiction|].
    inversion Hnd as [|? ? Hx Hnd']; subst. destruct Hin as [E|Hin].
    - subst. apply Hx. apply in_or_app. right; exact Hp.
    - exact (IH Hnd' Hin Hp).
  Qed.

  Lemma run_undefined : forall g o k, ~ In k o -> run g o k = None.
  Proof. intros g o k H. unfold run. rewrite fold_step_other by exact H. reflexivity. Qed.

  (* the final store satisfies every task's defining equation *)
  Theorem run_satisfies : forall g o,
    NoDup (map (@t_key V) g) -> topological (dep_graph g) o -> satisfies g (run g o).
  Proof.
    intros g o Hnd (Hndo & Hkeys & Hdeps) t Hin.
    assert (Hk : In (t_key t) o).
    { apply Hkeys. apply dep_graph_defined. eauto. }
    apply in_split in Hk. destruct Hk as [pre [post E]].
    rewrite E. rewrite (run_at g pre (t_key t) post t); [|rewrite <- E; exact Hndo | apply find_task_In; assumption].
    f_equal. apply exec_ext. intros d Hd. symmetry.
    apply run_stable; [rewrite <- E; exact Hndo|].
    exact (Hdeps pre (t_key t) post (t_deps t) E (dep_graph_in g t Hin) d Hd).
  Qed.

  (* on an acyclic graph the defining equations have at most one solution *)
  Theorem satisfies_unique : forall g o s1 s2,
    topological (dep_graph g) o -> satisfies g s1 -> satisfies g s2 ->
    forall k, In k o -> s1 k = s2 k.
  Proof.
    intros g o s1 s2 (Hndo & Hkeys & Hdeps) H1 H2.
    assert (Hpre : forall pre post, o = pre ++ post -> forall k, In k pre -> s1 k = s2 k).
    { intro pre; induction pre as [|x pre IH] using rev_ind; intros post E k Hk; [contradiction|].
      rewrite <- app_assoc in E. cbn in E.
      apply in_app_or in Hk. destruct Hk as [Hk|[Hk|[]]]; [exact (IH _ E k Hk)|]. subst x.
      assert (Hd : defined (dep_graph g) k).
      { apply Hkeys. rewrite E. apply in_or_app. right; left; reflexivity. }
      apply dep_graph_defined in Hd. destruct Hd as [t [Hin Ek]]. subst k.
      rewrite (H1 t Hin), (H2 t Hin). f_equal. apply exec_ext.
      intros d Hd. apply (IH _ E).
      exact (Hdeps pre (t_key t) post (t_deps t) E (dep_graph_in g t Hin) d Hd). }
    intros k Hk. apply (Hpre o []); [rewrite app_nil_r; reflexivity | exact Hk].
  Qed.

  (* CONFLUENCE: any two topological orders give the same value for every key *)
  Theorem run_confluent : forall g o1 o2,
    NoDup (map (@t_key V) g) ->
    topological (dep_graph g) o1 -> topological (dep_graph g) o2 ->
    forall k, lookup (run g o1) k = lookup (run g o2) k.
  Proof.
    intros g o1 o2 Hnd T1 T2 k. unfold lookup.
    destruct (in_dec Pos.eq_dec k o1) as [Hin|Hn].
    - apply (satisfies_unique g o1); auto using run_satisfies.
    - rewrite (run_undefined g o1 k Hn). symmetry. apply run_undefined.
      intro H2. apply Hn. destruct T1 as (_ & K1 & _). destruct T2 as (_ & K2 & _).
      apply K1. apply K2. exact H2.
  Qed.

  (* no task is stuck, and exactly the keys of the graph get a value *)
  Theorem run_no_stuck : forall g o,
    NoDup (map (@t_key V) g) -> topological (dep_graph g) o ->
    forall k, defined (dep_graph g) k -> exists v, lookup (run g o) k = Some (Val v).
  Proof.
    intros g o Hnd T. pose proof (run_satisfies g o Hnd T) as Hsat.
    destruct T as (Hndo & Hkeys & Hdeps). unfold lookup.
    assert (Hpre : forall pre post, o = pre ++ post -> forall k, In k pre -> exists v, run g o k = Some (Val v)).
    { intro pre; induction pre as [|x pre IH] using rev_ind; intros post E k Hk; [contradiction|].
      rewrite <- app_assoc in E. cbn in E.
      apply in_app_or in Hk. destruct Hk as [Hk|[Hk|[]]]; [exact (IH _ E k Hk)|]. subst x.
      assert (Hd : defined (dep_graph g) k).
      { apply Hkeys. rewrite E. apply in_or_app. right; left; reflexivity. }
      apply dep_graph_defined in Hd. destruct Hd as [t [Hin Ek]]. subst k.
      rewrite (Hsat t Hin). unfold exec.
      destruct (gather_some (run g o) (t_deps t)) as [vs Evs].
      - intros d Hd. apply (IH _ E).
        exact (Hdeps pre (t_key t) post (t_deps t) E (dep_graph_in g t Hin) d Hd).
      - rewrite Evs. eauto. }
    intros k Hk. apply (Hpre o []); [rewrite app_nil_r; reflexivity | apply Hkeys; exact Hk].
  Qed.

  Theorem run_domain : forall g o, topological (dep_graph g) o ->
    forall k, ~ defined (dep_graph g) k -> lookup (run g o) k = None.
  Proof.
    intros g o (_ & Hkeys & _) k Hn. apply run_undefined. intro H. apply Hn. apply Hkeys. exact H.
  Qed.

  (* --- concurrent schedules --- *)
  Definition cinv g (c : cstate V) (started finished : list key) : Prop :=
    incl finished started /\
    (forall k, ~ In k finished -> c_store c k = None) /\
    (forall t, In t g -> In (t_key t) started -> incl (t_deps t) finished) /\
    (forall t, In t g -> In (t_key t) finished -> c_store c (t_key t) = Some (exec (c_store c) t)) /\
    (forall t, In t g -> In (t_key t) started -> ~ In (t_key t) finished ->
               c_pending c (t_key t) = Some (exec (c_store c) t)).

  Lemma cstep_start_inv : forall g c started finished k,
    NoDup (map (@t_key V) g) -> cinv g c started finished ->
    (forall t, In t g -> t_key t = k -> incl (t_deps t) finished) ->
    cinv g (cstep g c (Start k)) (k :: started) finished.
  Proof.
    intros g c started finished k Hnd (HA & HB & HC & HD & HE) Hdeps. unfold cstep, cinv.
    destruct (find_task g k) as [t|] eqn:Ef; cbn [c_store c_pending].
    - split; [intros x Hx; right; apply HA; exact Hx|]. split; [exact HB|]. split.
      + intros t' Hin [E|Hs]; [apply Hdeps; auto | apply HC; assumption].
      + split; [exact HD|].
        intros t' Hin Hs Hnf. destruct (Pos.eq_dec (t_key t') k) as [E|E].
        * assert (t' = t).
          { pose proof (find_task_In g t' Hnd Hin) as F. rewrite E, Ef in F. inversion F; reflexivity. }
          subst t'. rewrite E. rewrite upd_same. reflexivity.
        * rewrite upd_other by exact E. apply HE; [exact Hin | | exact Hnf].
          destruct Hs as [Hs|Hs]; [symmetry in Hs; contradiction | exact Hs].
    - assert (Hno : forall t', In t' g -> t_key t' <> k).
      { intros t' Hin E. pose proof (find_task_In g t' Hnd Hin) as F. rewrite E, Ef in F. discriminate. }
      split; [intros x Hx; right; apply HA; exact Hx|]. split; [exact HB|]. split.
      + intros t' Hin [E|Hs]; [symmetry in E; exfalso; exact (Hno t' Hin E) | apply HC; assumption].
      + split; [exact HD|].
        intros t' Hin [E|Hs] Hnf; [symmetry in E; exfalso; exact (Hno t' Hin E) | apply HE; assumption].
  Qed.

  Lemma cstep_finish_inv : forall g c started finished k,
    cinv g c started finished -> In k started -> ~ In k finished ->
    cinv g (cstep g c (Finish k)) started (k :: finished).
  Proof.
    intros g c started finished k (HA & HB & HC & HD & HE) Hs Hnf. unfold cstep, cinv.
    destruct (c_pending c k) as [r|] eqn:Ep; cbn [c_store c_pending].
    - (* publishing k does not change what any started task read *)
      assert (Hex : forall t', In t' g -> In (t_key t') started ->
                exec (upd (c_store c) k r) t' = exec (c_store c) t').
      { intros t' Hin Hst. apply exec_ext. intros d Hd. apply upd_other.
        intro E. subst d. apply Hnf. exact (HC t' Hin Hst k Hd). }
      split; [intros x [E|Hx]; [subst; exact Hs | apply HA; exact Hx]|]. split.
      { intros k' Hk'. rewrite upd_other; [apply HB|]; intro E; apply Hk'; [right; exact E | left; symmetry; exact E]. }
      split; [intros t' Hin Hst d Hd; right; exact (HC t' Hin Hst d Hd)|]. split.
      + intros t' Hin [E|Hf].
        * subst k. rewrite upd_same. rewrite (Hex t' Hin Hs).
          rewrite (HE t' Hin Hs Hnf) in Ep. inversion Ep; reflexivity.
        * assert (t_key t' <> k) by (intro E; subst; contradiction).
          rewrite upd_other by assumption. rewrite (Hex t' Hin (HA _ Hf)). apply HD; assumption.
      + intros t' Hin Hst Hnf'. rewrite (Hex t' Hin Hst). apply HE; [exact Hin | exact Hst |].
        intro Hf. apply Hnf'. right; exact Hf.
    - split; [intros x [E|Hx]; [subst; exact Hs | apply HA; exact Hx]|]. split.
      { intros k' Hk'. apply HB. intro E. apply Hk'. right; exact E. }
      split; [intros t' Hin Hst d Hd; right; exact (HC t' Hin Hst d Hd)|]. split.
      + intros t' Hin [E|Hf]; [|apply HD; assumption].
        subst k. rewrite (HE t' Hin Hs Hnf) in Ep. discriminate.
      + intros t' Hin Hst Hnf'. apply HE; [exact Hin | exact Hst |].
        intro Hf. apply Hnf'. right; exact Hf.
  Qed.

  Lemma crun_inv : forall g sched c started finished,
    NoDup (map (@t_key V) g) -> cinv g c started finished -> sched_ok_from g started finished sched ->
    exists started' finished', cinv g (fold_left (cstep g) sched c) started' finished' /\
      forall k, In k finished' <-> defined (dep_graph g) k.
  Proof.
    intros g sched; induction sched as [|[k|k] r IH]; intros c started finished Hnd Hinv Hok.
    - exists started, finished. split; [exact Hinv | exact Hok].
    - destruct Hok as (Hns & Hdeps & Hok). cbn [fold_left].
      eapply IH; [exact Hnd | | exact Hok]. apply cstep_start_inv; assumption.
    - destruct Hok as (Hs & Hnf & Hok). cbn [fold_left].
      eapply IH; [exact Hnd | | exact Hok]. apply cstep_finish_inv; assumption.
  Qed.

  (* CONCURRENT EXECUTION: every legal interleaved schedule publishes, for every key, the
     value of the serial run in any topological order *)
  Theorem crun_confluent : forall g sched o,
    NoDup (map (@t_key V) g) -> schedule_ok g sched -> topological (dep_graph g) o ->
    forall k, lookup (c_store (crun g sched)) k = lookup (run g o) k.
  Proof.
    intros g sched o Hnd Hok T k. unfold lookup, crun.
    destruct (crun_inv g sched {| c_store := empty_store V; c_pending := empty_store V |} [] [] Hnd) as
      (st & fin & (HA & HB & HC & HD & HE) & Hfin).
    { split; [intros x []|]. split; [reflexivity|]. split; [intros t _ []|].
      split; [intros t _ []|]. intros t _ []. }
    { exact Hok. }
    destruct (in_dec Pos.eq_dec k o) as [Hin|Hn].
    - apply (satisfies_unique g o); [exact T | | apply run_satisfies; assumption | exact Hin].
      intros t Ht. apply HD; [exact Ht|]. apply Hfin. apply dep_graph_defined. eauto.
    - rewrite (run_undefined g o k Hn). apply HB. intro Hf. apply Hn.
      destruct T as (_ & K & _). apply K. apply Hfin. exact Hf.
  Qed.

  (* the serial schedule of a topological order is a legal schedule (so schedule_ok is
     satisfiable whenever a topological order exists) *)
  Theorem serial_schedule_ok : forall g o, topological (dep_graph g) o -> schedule_ok g (serial o).
  Proof.
    intros g o (Hndo & Hkeys & Hdeps). unfold schedule_ok.
    assert (Hgen : forall post pre started finished, o = pre ++ post ->
              (forall k, In k started <-> In k pre) -> (forall k, In k finished <-> In k pre) ->
              sched_ok_from g started finished (serial post)).
    { induction post as [|k r IH]; intros pre started finished E Hst Hfi.
      - cbn. rewrite app_nil_r in E. subst pre. intro k. rewrite Hfi. apply Hkeys.
      - assert (Hk : ~ In k pre).
        { rewrite E in Hndo. apply NoDup_app_notin in Hndo. tauto. }
        cbn. split; [rewrite Hst; exact Hk|]. split.
        { intros t Hin Ek d Hd. apply Hfi. subst k.
          exact (Hdeps pre (t_key t) r (t_deps t) E (dep_graph_in g t Hin) d Hd). }
        split; [left; reflexivity|]. split; [rewrite Hfi; exact Hk|].
        apply (IH (pre ++ [k])).
        + rewrite <- app_assoc. exact E.
        + intro x. cbn. rewrite in_app_iff, Hst. cbn. tauto.
        + intro x. cbn. rewrite in_app_iff, Hfi. cbn. tauto. }
    apply (Hgen o [] [] []); [reflexivity | tauto | tauto].
  Qed.
End ExecFacts.

(* ------------------------------------------------------------------------- *)
(** * C10, heap semantics: well-behaved tasks do not disturb anybody else's buffers,
      so the heap run refines the pure run and is order independent *)

Lemma buf_eqb_eq : forall a b, buf_eqb a b = true <-> a = b.
Proof.
  intros [i|k] [j|l]; cbn; try (split; discriminate).
  - rewrite Nat.eqb_eq. split; [intros ->; reflexivity | intro E; inversion E; reflexivity].
  - rewrite Pos.eqb_eq. split; [intros ->; reflexivity | intro E; inversion E; reflexivity].
Qed.

Section HeapFacts.
  Variable C : Type.
  Implicit Types (g : list (htask C)) (t : htask C) (s : state C) (h : heap C) (k : key) (b : buf).

  Lemma hupd_other : forall h b c b', b' <> b -> hupd h b c b' = h b'.
  Proof.
    intros h b c b' H. unfold hupd. destruct (buf_eqb b' b) eqn:E; [|reflexivity].
    apply buf_eqb_eq in E. contradiction.
  Qed.

  Lemma hupd_same : forall h b c, hupd h b c b = c.
  Proof.
    intros h b c. unfold hupd. destruct (buf_eqb b b) eqn:E; [reflexivity|].
    assert (buf_eqb b b = true) by (apply buf_eqb_eq; reflexivity). congruence.
  Qed.

  Lemma scribble_other : forall t vals h b, ~ In b (h_writes t) -> scribble t vals h b = h b.
  Proof.
    intros t vals h b. unfold scribble. generalize (h_writes t) as ws. intro ws. revert h.
    induction ws as [|w ws IH]; cbn; intros h H; [reflexivity|].
    rewrite IH by (intro Hin; apply H; right; exact Hin).
    apply hupd_other. intro E. apply H. left. symmetry; exact E.
  Qed.

  Lemma scribble_frame : forall t vals h b,
    task_well_behaved t -> b <> Own (h_key t) -> scribble t vals h b = h b.
  Proof.
    intros t vals h b Hwb Hb. apply scribble_other. intro Hin. apply Hb. apply Hwb. exact Hin.
  Qed.

  (* STEP NON-INTERFERENCE: running a well-behaved task changes no buffer but its own *)
  Theorem hexec_frame : forall t s b,
    task_well_behaved t -> b <> Own (h_key t) -> st_heap (hexec t s) b = st_heap s b.
  Proof.
    intros t s b Hwb Hb. unfold hexec.
    destruct (hgather (st_env s) (h_deps t)) as [refs|]; [|reflexivity].
    assert (Hfresh : forall vals e, st_heap (fresh_result t vals e (scribble t vals (st_heap s))) b = st_heap s b).
    { intros vals e. cbn. rewrite hupd_other by exact Hb. apply scribble_frame; assumption. }
    destruct (h_eff t) as [|i|i|i].
    - apply Hfresh.
    - destruct (nth_error refs i); [cbn; apply scribble_frame; assumption | apply Hfresh].
    - destruct (nth_error refs i); [cbn; apply scribble_frame; assumption | apply Hfresh].
    - cbn. apply scribble_frame; assumption.
  Qed.

  Lemma hfind_some : forall g k t, hfind g k = Some t -> In t g /\ h_key t = k.
  Proof.
    induction g as [|t0 g IH]; cbn; intros k t H; [discriminate|].
    destruct (Pos.eqb (h_key t0) k) eqn:E.
    - inversion H; subst. apply Pos.eqb_eq in E. auto.
    - destruct (IH _ _ H). auto.
  Qed.

  Theorem hstep_frame : forall g s k b,
    well_behaved g -> b <> Own k -> st_heap (hstep g s k) b = st_heap s b.
  Proof.
    intros g s k b Hwb Hb. unfold hstep. destruct (hfind g k) as [t|] eqn:E; [|reflexivity].
    apply hfind_some in E. destruct E as [Hin Ek]. subst k.
    apply hexec_frame; [apply Hwb; exact Hin | exact Hb].
  Qed.

  (* a buffer that belongs to none of the executed keys is never touched; in particular
     the user's SOURCE buffers are never modified, whatever the order *)
  Theorem hrun_frame : forall g order s b,
    well_behaved g -> (forall k, In k order -> b <> Own k) ->
    st_heap (fold_left (hstep g) order s) b = st_heap s b.
  Proof.
    intros g order; induction order as [|k t IH]; cbn; intros s b Hwb Hb; [reflexivity|].
    rewrite IH; [|exact Hwb | intros k' Hk'; apply Hb; right; exact Hk'].
    apply hstep_frame; [exact Hwb | apply Hb; left; reflexivity].
  Qed.

  Theorem sources_never_modified : forall g order h0 i,
    well_behaved g -> st_heap (hrun g order h0) (Src i) = h0 (Src i).
  Proof.
    intros g order h0 i Hwb. unfold hrun. rewrite hrun_frame; [reflexivity | exact Hwb |].
    intros k _. discriminate.
  Qed.

  (* --- the simulation invariant between the heap run and the pure run --- *)
  Definition okref (done : list key) (r : ref C) : Prop := forall k', r_buf r = Own k' -> In k' done.

  Definition agree_at (done : list key) (h : heap C) (hr : option (hres C)) (pr : option (res C)) : Prop :=
    match hr, pr with
    | None, None => True
    | Some HStuck, Some Stuck => True
    | Some (HRef r), Some (Val v) => deref h r = v /\ okref done r
    | _, _ => False
    end.

  Definition agree (done : list key) (h0 : heap C) (s : state C) (p : store C) : Prop :=
    (forall i, st_heap s (Src i) = h0 (Src i)) /\
    (forall k, agree_at done (st_heap s) (st_env s k) (p k)).

  Lemma agree_at_frame : forall done done' h h' hr pr k,
    agree_at done h hr pr -> ~ In k done -> incl done done' ->
    (forall b, b <> Own k -> h' b = h b) ->
    agree_at done' h' hr pr.
  Proof.
    intros done done' h h' hr pr k H Hk Hincl Hfr. unfold agree_at in *.
    destruct hr as [[r|]|], pr as [[v|]|]; try exact H; try contradiction.
    destruct H as [Hd Hok]. split.
    - unfold deref in *. rewrite Hfr; [exact Hd|].
      intro E. apply Hk. apply Hok. exact E.
    - intros k' E. apply Hincl. apply Hok. exact E.
  Qed.

  Lemma agree_gather : forall done h0 s p, agree done h0 s p -> forall ds,
    match hgather (st_env s) ds, gather p ds with
    | Some refs, Some vals => vals = map (deref (st_heap s)) refs /\ Forall (okref done) refs
    | None, None => True
    | _, _ => False
    end.
  Proof.
    intros done h0 s p [_ Hag] ds. induction ds as [|d ds IH]; cbn.
    - split; [reflexivity | constructor].
    - specialize (Hag d). unfold agree_at in Hag.
      destruct (st_env s d) as [[r|]|], (p d) as [[v|]|]; try contradiction; try exact I.
      + destruct (hgather (st_env s) ds) as [refs|], (gather p ds) as [vals|]; try contradiction; try exact I.
        destruct IH as [E F]. destruct Hag as [Hd Hok]. split.
        * cbn. rewrite Hd, E. reflexivity.
        * constructor; assumption.
  Qed.

  Lemma agree_extend : forall done h0 s p k h' hr pr,
    agree done h0 s p -> ~ In k done ->
    (forall b, b <> Own k -> h' b = st_heap s b) ->
    agree_at (k :: done) h' (Some hr) (Some pr) ->
    agree (k :: done) h0 {| st_env := eupd (st_env s) k hr; st_heap := h' |} (upd p k pr).
  Proof.
    intros done h0 s p k h' hr pr [Hsrc Hag] Hk Hfr Hnew. split; cbn.
    - intro i. rewrite Hfr by discriminate. apply Hsrc.
    - intro k1. unfold eupd, upd. destruct (Pos.eqb k1 k) eqn:E; [exact Hnew|].
      eapply agree_at_frame; [apply Hag | exact Hk | | exact Hfr].
      intros x Hx. right; exact Hx.
  Qed.

  Lemma agree_mono : forall done done' h0 s p, agree done h0 s p -> incl done done' -> agree done' h0 s p.
  Proof.
    intros done done' h0 s p [Hsrc Hag] Hincl. split; [exact Hsrc|]. intro k.
    specialize (Hag k). unfold agree_at in *.
    destruct (st_env s k) as [[r|]|], (p k) as [[v|]|]; try exact Hag.
    destruct Hag as [Hd Hok]. split; [exact Hd|]. intros k' E. apply Hincl. apply Hok. exact E.
  Qed.

  Lemma hexec_agree : forall done h0 s p t,
    agree done h0 s p -> task_well_behaved t -> ~ In (h_key t) done ->
    agree (h_key t :: done) h0 (hexec t s) (upd p (h_key t) (exec p (abs_task h0 t))).
  Proof.
    intros done h0 s p t Hag Hwb Hk.
    pose proof (agree_gather _ _ _ _ Hag (h_deps t)) as Hg.
    unfold hexec, exec. cbn [t_deps abs_task].
    destruct (hgather (st_env s) (h_deps t)) as [refs|], (gather p (h_deps t)) as [vals|]; try contradiction.
    2:{ apply agree_extend; [exact Hag | exact Hk | reflexivity | exact I]. }
    destruct Hg as [Evals Hok]. rewrite <- Evals.
    set (h1 := scribble t vals (st_heap s)).
    assert (Hh1 : forall b, b <> Own (h_key t) -> h1 b = st_heap s b).
    { intros b Hb. apply scribble_frame; assumption. }
    (* the Fresh case, also the fallback of the others *)
    assert (Hfresh : forall v, v = h_fun t vals ->
              agree (h_key t :: done) h0 (fresh_result t vals (st_env s) h1) (upd p (h_key t) (Val v))).
    { intros v ->. unfold fresh_result. apply agree_extend; [exact Hag | exact Hk | |].
      - intros b Hb. rewrite hupd_other by exact Hb. apply Hh1. exact Hb.
      - cbn. split; [unfold deref; cbn; apply hupd_same|].
        intros k' E. cbn in E. inversion E. left; reflexivity. }
    assert (Hnth : forall i, nth_error vals i = option_map (deref (st_heap s)) (nth_error refs i)).
    { intro i. rewrite Evals. revert i. clear. induction refs as [|r refs IH]; intros [|i]; cbn; auto. }
    unfold abs_task. cbn [t_fun].
    destruct (h_eff t) as [|i|i|i].
    - apply Hfresh. reflexivity.
    - rewrite Hnth. destruct (nth_error refs i) as [r|] eqn:En; cbn [option_map].
      + assert (Hr : okref done r).
        { rewrite Forall_forall in Hok. apply Hok. eapply nth_error_In; eauto. }
        apply agree_extend; [exact Hag | exact Hk | exact Hh1 |].
        cbn. split.
        * unfold deref; cbn. rewrite Hh1; [reflexivity|].
          intro E. apply Hk. apply Hr. exact E.
        * intros k' E. cbn in E. right. apply Hr. exact E.
      + apply Hfresh. reflexivity.
    - rewrite Hnth. destruct (nth_error refs i) as [r|] eqn:En; cbn [option_map].
      + assert (Hr : okref done r).
        { rewrite Forall_forall in Hok. apply Hok. eapply nth_error_In; eauto. }
        apply agree_extend; [exact Hag | exact Hk | exact Hh1 |].
        cbn. split.
        * unfold deref. rewrite Hh1; [reflexivity|].
          intro E. apply Hk. apply Hr. exact E.
        * intros k' E. right. apply Hr. exact E.
      + apply Hfresh. reflexivity.
    - apply agree_extend; [exact Hag | exact Hk | exact Hh1 |].
      cbn. split.
      + unfold deref; cbn. rewrite Hh1 by discriminate. destruct Hag as [Hsrc _]. rewrite Hsrc. reflexivity.
      + intros k' E. cbn in E. discriminate.
  Qed.

  Lemma find_task_abstract : forall h0 g k,
    find_task (abstract h0 g) k = option_map (abs_task h0) (hfind g k).
  Proof.
    intros h0 g k. induction g as [|t g IH]; cbn; [reflexivity|].
    destruct (Pos.eqb (h_key t) k); [reflexivity | exact IH].
  Qed.

  Lemma hstep_agree : forall g done h0 s p k,
    well_behaved g -> agree done h0 s p -> ~ In k done ->
    agree (k :: done) h0 (hstep g s k) (step (abstract h0 g) p k).
  Proof.
    intros g done h0 s p k Hwb Hag Hk. unfold hstep, step. rewrite find_task_abstract.
    destruct (hfind g k) as [t|] eqn:E; cbn [option_map].
    - apply hfind_some in E. destruct E as [Hin Ek]. subst k.
      change (t_key (abs_task h0 t)) with (h_key t).
      apply hexec_agree; [exact Hag | apply Hwb; exact Hin | exact Hk].
    - eapply agree_mono; [exact Hag|]. intros x Hx. right; exact Hx.
  Qed.

  Lemma hrun_agree : forall g h0 order done s p,
    well_behaved g -> agree done h0 s p -> NoDup order -> (forall k, In k order -> ~ In k done) ->
    agree (rev order ++ done) h0 (fold_left (hstep g) order s) (fold_left (step (abstract h0 g)) order p).
  Proof.
    intros g h0 order; induction order as [|k t IH]; cbn; intros done s p Hwb Hag Hnd Hfresh; [exact Hag|].
    inversion Hnd as [|? ? Hk Hnd']; subst.
    rewrite <- app_assoc. cbn. apply IH; [exact Hwb | | exact Hnd' |].
    - apply hstep_agree; [exact Hwb | exact Hag | apply Hfresh; left; reflexivity].
    - intros k' Hk' [E|Hin]; [subst; contradiction|].
      exact (Hfresh k' (or_intror Hk') Hin).
  Qed.

  Lemma agree_hvalue : forall done h0 s p, agree done h0 s p -> forall k, hvalue s k = p k.
  Proof.
    intros done h0 s p [_ Hag] k. specialize (Hag k). unfold hvalue, agree_at in *.
    destruct (st_env s k) as [[r|]|], (p k) as [[v|]|]; try contradiction; try reflexivity.
    destruct Hag as [Hd _]. rewrite Hd. reflexivity.
  Qed.

  (* REFINEMENT: for well-behaved tasks the heap run shows, for every key, exactly the value
     of the pure run of the abstracted graph — views and aliases included *)
  Theorem heap_refines_pure : forall g order h0,
    well_behaved g -> NoDup order ->
    forall k, hvalue (hrun g order h0) k = lookup (run (abstract h0 g) order) k.
  Proof.
    intros g order h0 Hwb Hnd k. unfold hrun, run, lookup.
    eapply agree_hvalue. apply (hrun_agree g h0 order [] (hinit h0) (empty_store C)); auto.
    split; [reflexivity|]. intro k0. exact I.
  Qed.

  Lemma abstract_dep_graph : forall h0 g, dep_graph (abstract h0 g) = hdep_graph g.
  Proof. intros. unfold dep_graph, abstract, hdep_graph. rewrite map_map. reflexivity. Qed.

  Lemma abstract_keys : forall h0 g, map (@t_key C) (abstract h0 g) = map (@h_key C) g.
  Proof. intros. unfold abstract. rewrite map_map. reflexivity. Qed.

  (* ORDER INDEPENDENCE of the heap semantics *)
  Theorem heap_confluent : forall g o1 o2 h0,
    well_behaved g -> NoDup (map (@h_key C) g) ->
    topological (hdep_graph g) o1 -> topological (hdep_graph g) o2 ->
    forall k, hvalue (hrun g o1 h0) k = hvalue (hrun g o2 h0) k.
  Proof.
    intros g o1 o2 h0 Hwb Hnd T1 T2 k.
    rewrite !heap_refines_pure; [| exact Hwb | apply T2 | exact Hwb | apply T1].
    apply run_confluent; rewrite ?abstract_keys, ?abstract_dep_graph; assumption.
  Qed.

  Theorem heap_no_stuck : forall g o h0,
    well_behaved g -> NoDup (map (@h_key C) g) -> topological (hdep_graph g) o ->
    forall k, defined (hdep_graph g) k -> exists v, hvalue (hrun g o h0) k = Some (Val v).
  Proof.
    intros g o h0 Hwb Hnd T k Hk. rewrite heap_refines_pure; [| exact Hwb | apply T].
    apply run_no_stuck; rewrite ?abstract_keys, ?abstract_dep_graph; assumption.
  Qed.

  (* NO TASK MODIFIES THE VALUE OF A TASK COMPUTED EARLIER (in particular of its dependencies):
     once a key has been computed, whatever runs later leaves its observable value unchanged *)
  Theorem computed_values_never_change : forall g pre post h0 k,
    well_behaved g -> NoDup (pre ++ post) -> In k pre ->
    hvalue (hrun g (pre ++ post) h0) k = hvalue (hrun g pre h0) k.
  Proof.
    intros g pre post h0 k Hwb Hnd Hin.
    rewrite !heap_refines_pure; [| exact Hwb | eapply NoDup_app_l; exact Hnd | exact Hwb | exact Hnd].
    unfold lookup. apply run_stable; assumption.
  Qed.

  Lemma well_behaved_b_spec : forall g, well_behaved_b g = true <-> well_behaved g.
  Proof.
    intro g. unfold well_behaved_b, well_behaved, task_well_behaved. rewrite forallb_forall. split.
    - intros H t Hin b Hb. specialize (H t Hin). rewrite forallb_forall in H.
      apply buf_eqb_eq. exact (H b Hb).
    - intros H t Hin. rewrite forallb_forall. intros b Hb. apply buf_eqb_eq. exact (H t Hin b Hb).
  Qed.
End HeapFacts.
