(* Correctness of block-slice planning: _slice_1d (model: slice_1d_slice) and
   new_blockdim, for every axis length, every chunking (zero-length chunks
   included) and every normalized slice. *)
From DA Require Import PyBase PyBaseFacts Slicing NormalizeFacts Slice1dBase.
From Coq Require Import ZifyBool.
Open Scope Z_scope.
Ltac Zify.zify_post_hook ::= Z.to_euclidean_division_equations.

(* ---------------------------------------------------------------------- *)
(* Normalized slices: a (slight) superset of the outputs of normalize_slice
   for a nonzero step.
   positive step:  start is None or 0 <= start <= dim,
                   stop  is None or 0 <= stop <= dim, and start <= stop;
   negative step:  start is None or 0 <= start <= dim - 1,
                   stop  is None or 0 <= stop  <= dim - 1. *)
Definition opt_between (lo hi : Z) (o : option Z) : bool :=
  match o with None => true | Some a => (lo <=? a) && (a <=? hi) end.

Definition normalized_b (idx : pslice) (dim : Z) : bool :=
  let k := step_of idx in
  if k >? 0 then
    opt_between 0 dim (s_start idx) && opt_between 0 dim (s_stop idx) &&
    match s_start idx, s_stop idx with Some a, Some b => a <=? b | _, _ => true end
  else if k <? 0 then
    opt_between 0 (dim - 1) (s_start idx) && opt_between 0 (dim - 1) (s_stop idx)
  else false.

Definition normalized (idx : pslice) (dim : Z) : Prop :=
  (0 < step_of idx /\
   (forall a, s_start idx = Some a -> 0 <= a <= dim) /\
   (forall b, s_stop idx = Some b -> 0 <= b <= dim) /\
   (forall a b, s_start idx = Some a -> s_stop idx = Some b -> a <= b))
  \/
  (step_of idx < 0 /\
   (forall a, s_start idx = Some a -> 0 <= a <= dim - 1) /\
   (forall b, s_stop idx = Some b -> 0 <= b <= dim - 1)).

Lemma normalized_b_iff idx dim : normalized_b idx dim = true <-> normalized idx dim.
Proof.
  unfold normalized_b, normalized, opt_between.
  destruct idx as [[a|] [b|] k]; cbn [s_start s_stop]; set (st := step_of _); split.
  all: try (intros H; destruct (st >? 0) eqn:E1; [left | destruct (st <? 0) eqn:E2; [right | discriminate]];
            repeat split; try lia; intros; repeat match goal with H : Some _ = Some _ |- _ => injection H as <- end;
            try discriminate; lia).
  all: intros [(H1 & H2 & H3 & H4) | (H1 & H2 & H3)];
       try (specialize (H2 _ eq_refl)); try (specialize (H3 _ eq_refl)); try (specialize (H4 _ _ eq_refl eq_refl));
       destruct (st >? 0) eqn:E1; try destruct (st <? 0) eqn:E2; lia.
Qed.

Theorem normalize_slice_normalized s dim :
  0 <= dim -> step_of s <> 0 -> normalized (normalize_slice s dim) dim.
Proof.
  intros Hn Hk. apply normalized_b_iff.
  destruct (indices s dim) as [[a b] k] eqn:Hi.
  pose proof (indices_bounds s dim a b k Hn Hi) as (Hstep & Hpos & Hneg).
  unfold normalize_slice. rewrite Hi.
  destruct (k >? 0) eqn:Ekp.
  - assert (0 < k) as Hk0 by lia. specialize (Hpos Hk0). clear Hneg.
    destruct (a =? 0) eqn:Ea, (b >=? dim) eqn:Eb, (k =? 1) eqn:Ek1;
      try (destruct (b <? a) eqn:Eba);
      unfold normalized_b, opt_between, step_of; cbn [s_start s_stop s_step];
      repeat break_if; lia.
  - destruct (k <? 0) eqn:Ekn; [|exfalso; lia].
    assert (k < 0) as Hk0 by lia. specialize (Hneg Hk0). clear Hpos.
    destruct (a >=? dim - 1) eqn:Ea; [|destruct (a <? 0) eqn:Ea0]; destruct (b <? 0) eqn:Eb;
      unfold normalized_b, opt_between, step_of; cbn [s_start s_stop s_step];
      repeat break_if; lia.
Qed.

(* ---------------------------------------------------------------------- *)
(* local slices and their absolute positions *)

Lemma nthZ_nonneg l i : Forall nonneg l -> 0 <= nthZ l i.
Proof.
  intros H. unfold nthZ.
  destruct (nth_in_or_default (Z.to_nat i) l 0) as [Hin | ->]; [|lia].
  rewrite Forall_forall in H. exact (H _ Hin).
Qed.

Lemma sel_local_pos a b k n :
  0 < k -> 0 <= a < n -> 0 < b <= n -> sel (mkslice (Some a) (Some b) (Some k)) n = zrange a b k.
Proof.
  intros Hk Ha Hb. unfold sel, indices, adjust_endpoint, step_of. cbn [s_start s_stop s_step].
  f_equal; repeat break_if; lia.
Qed.

Lemma sel_colon_explicit n : 0 <= n -> sel (mkslice (Some 0) (Some n) (Some 1)) n = sel colon n.
Proof.
  intros Hn. unfold sel, indices, adjust_endpoint, step_of, colon. cbn [s_start s_stop s_step].
  change (1 <? 0) with false. cbv iota.
  destruct (Z.eq_dec n 0) as [->|Hne]; [reflexivity|].
  f_equal; repeat break_if; lia.
Qed.

Lemma abs_positions_colonize lengths i v :
  Forall nonneg lengths ->
  abs_positions lengths (colonize lengths (i, v)) = abs_positions lengths (i, LSlice v).
Proof.
  intros Hnn. unfold colonize.
  destruct (pslice_eqb v (mkslice (Some 0) (Some (nthZ lengths i)) (Some 1))) eqn:E; [|reflexivity].
  apply pslice_eqb_eq in E. subst v. unfold abs_positions. f_equal.
  symmetry. apply sel_colon_explicit. apply nthZ_nonneg. exact Hnn.
Qed.

Lemma colonize_fst lengths e : fst (colonize lengths e) = fst e.
Proof. destruct e as [k v]. unfold colonize. break_if; reflexivity. Qed.

Lemma plan_positions_cons lengths e plan :
  plan_positions lengths (e :: plan) = abs_positions lengths e ++ plan_positions lengths plan.
Proof. reflexivity. Qed.

Lemma plan_positions_colonize lengths d :
  Forall nonneg lengths ->
  plan_positions lengths (map (colonize lengths) d) =
  plan_positions lengths (map (fun e => (fst e, LSlice (snd e))) d).
Proof.
  intros Hnn. induction d as [|[i v] t IH]; [reflexivity|].
  cbn [map fst snd]. rewrite !plan_positions_cons, IH, abs_positions_colonize by exact Hnn.
  reflexivity.
Qed.

(* the tail of _slice_1d: colonize, and the x[:0] special case *)
Definition finish (lengths : list Z) (d : list (Z * pslice)) : list (Z * ploc) :=
  match d with
  | [] => [(0, LSlice (mkslice (Some 0) (Some 0) (Some 1)))]
  | _ => map (colonize lengths) d
  end.

Lemma sel_empty_slice n : sel (mkslice (Some 0) (Some 0) (Some 1)) n = [].
Proof.
  unfold sel, indices, adjust_endpoint, step_of. cbn [s_start s_stop s_step].
  change (0 <? 0) with false. change (1 <? 0) with false. cbv iota.
  apply zrange_nil_pos; lia.
Qed.

Lemma plan_positions_finish lengths d :
  plan_positions lengths (finish lengths d) = plan_positions lengths (map (colonize lengths) d).
Proof.
  destruct d as [|e t]; [|reflexivity].
  cbn [finish map]. unfold plan_positions. cbn [map concat abs_positions].
  rewrite sel_empty_slice. reflexivity.
Qed.

(* ---------------------------------------------------------------------- *)
(* positive step: the loop s1d_pos *)

Lemma s1d_pos_stop_nonpos ls : forall i start stop step,
  Forall nonneg ls -> stop <= 0 -> s1d_pos i ls start stop step = [].
Proof.
  induction ls as [|len t IH]; intros i start stop step Hnn Hs; cbn [s1d_pos]; [reflexivity|].
  inversion Hnn as [|x l Hx Ht]; subst. unfold nonneg in Hx.
  destruct ((start <? len) && (stop >? 0)) eqn:E; [lia|].
  apply IH; [exact Ht | lia].
Qed.

Lemma pos_piece lengths pre len rest start stop step :
  Forall nonneg lengths -> lengths = pre ++ len :: rest ->
  0 < step -> 0 <= start < len -> 0 < stop ->
  abs_positions lengths (lenZ pre, LSlice (mkslice (Some start) (Some (Z.min stop len)) (Some step))) =
  zrange (zsum pre + start) (zsum pre + Z.min stop len) step.
Proof.
  intros Hnn -> Hk Hs Hstop. unfold abs_positions.
  rewrite firstnZ_lenZ_app, nthZ_lenZ_app.
  rewrite sel_local_pos by lia. apply zrange_shift.
Qed.

(* Loop invariant of the positive-step loop.  [ls] is the segment of blocks
   still to visit; it starts at block number i = |pre|, i.e. at absolute
   offset zsum pre; [start] (>= 0) is the next selected position and [stop]
   the end of the selection, both relative to that offset.  The pieces
   emitted for the remaining blocks enumerate exactly the rest of the range,
   cut at the end of the segment. *)
Theorem s1d_pos_positions lengths :
  Forall nonneg lengths ->
  forall ls pre post i start stop step,
    lengths = pre ++ ls ++ post -> i = lenZ pre -> 0 < step -> 0 <= start ->
    plan_positions lengths (map (fun e => (fst e, LSlice (snd e))) (s1d_pos i ls start stop step)) =
    zrange (zsum pre + start) (Z.min (zsum pre + stop) (zsum pre + zsum ls)) step.
Proof.
  intros Hnn ls.
  induction ls as [|len t IH]; intros pre post i start stop step Hl Hi Hk Hs.
  - cbn [s1d_pos map zsum]. symmetry. apply zrange_nil_pos; lia.
  - assert (Forall nonneg (len :: t)) as Hlt.
    { rewrite Hl in Hnn. apply Forall_app in Hnn as [_ Hnn]. apply Forall_app in Hnn as [Hnn _]. exact Hnn. }
    inversion Hlt as [|x l Hlen Ht]; subst x l. unfold nonneg in Hlen.
    pose proof (zsum_nonneg t Ht) as Hzt.
    destruct (Z_le_gt_dec stop 0) as [Hstop|Hstop].
    { rewrite s1d_pos_stop_nonpos by (assumption || lia). cbn [map].
      symmetry. apply zrange_nil_pos; lia. }
    assert (lengths = (pre ++ [len]) ++ t ++ post) as Hl'.
    { rewrite Hl. rewrite <- app_assoc. reflexivity. }
    assert (i + 1 = lenZ (pre ++ [len])) as Hi'.
    { rewrite lenZ_app, Hi. reflexivity. }
    assert (zsum (pre ++ [len]) = zsum pre + len) as Hz.
    { rewrite zsum_app. cbn [zsum]. lia. }
    cbn [s1d_pos zsum].
    destruct ((start <? len) && (stop >? 0)) eqn:E.
    + cbn [map fst snd]. rewrite plan_positions_cons.
      rewrite (IH (pre ++ [len]) post (i + 1) _ _ step Hl' Hi' Hk) by (apply Z.mod_pos_bound; lia).
      rewrite Hi. rewrite (pos_piece lengths pre len (t ++ post)) by (assumption || lia).
      rewrite Hz.
      rewrite (zrange_split_pos (zsum pre + start) (Z.min (zsum pre + stop) (zsum pre + (len + zsum t)))
                 (zsum pre + len) step) by lia.
      replace (zsum pre + start - (zsum pre + len)) with (start - len) by ring.
      f_equal; f_equal; lia.
    + rewrite (IH (pre ++ [len]) post (i + 1) _ _ step Hl' Hi' Hk) by lia.
      rewrite Hz. f_equal; lia.
Qed.

(* ---------------------------------------------------------------------- *)
(* positive step: the whole function *)

Definition start_pos (idx : pslice) : Z := match s_start idx with None => 0 | Some a => a end.
Definition stop_pos (idx : pslice) (dim : Z) : Z := match s_stop idx with None => dim | Some b => b end.

Lemma model_step_of idx :
  step_of idx <> 0 ->
  match s_step idx with None => 1 | Some k => if k =? 0 then 1 else k end = step_of idx.
Proof.
  unfold step_of. destruct (s_step idx) as [k|]; [|reflexivity].
  intros H. destruct (k =? 0) eqn:E; [lia | reflexivity].
Qed.

Lemma slice_1d_slice_pos dim lengths idx :
  pslice_eqb idx colon = false -> 0 < step_of idx ->
  0 <= start_pos idx -> 0 <= stop_pos idx dim ->
  slice_1d_slice dim lengths idx =
    let bnd := cumsum lengths in
    let a := start_pos idx in
    let b := stop_pos idx dim in
    let istart := bisect_right bnd a in
    let istop := Z.min (bisect_left bnd b + 1) (lenZ lengths) in
    let shift := if istart >? 0 then nthZ bnd (istart - 1) else 0 in
    finish lengths (s1d_pos istart (firstnZ (istop - istart) (skipnZ istart lengths))
                            (a - shift) (b - shift) (step_of idx)).
Proof.
  intros Hne Hk Ha Hb. unfold slice_1d_slice. rewrite Hne.
  rewrite model_step_of by lia.
  assert (step_of idx >? 0 = true) as -> by lia.
  fold (start_pos idx). fold (stop_pos idx dim).
  cbv beta iota zeta.
  assert ((start_pos idx <? 0) = false) as -> by lia.
  assert ((stop_pos idx dim <? 0) = false) as -> by lia.
  reflexivity.
Qed.

Lemma indices_normalized_pos idx dim :
  0 < step_of idx ->
  (forall a, s_start idx = Some a -> 0 <= a <= dim) ->
  (forall b, s_stop idx = Some b -> 0 <= b <= dim) ->
  indices idx dim = (start_pos idx, stop_pos idx dim, step_of idx).
Proof.
  intros Hk Ha Hb. unfold indices, adjust_endpoint, start_pos, stop_pos.
  destruct (s_start idx) as [a|]; [specialize (Ha a eq_refl)|];
    (destruct (s_stop idx) as [b|]; [specialize (Hb b eq_refl)|]);
    f_equal; try f_equal; repeat break_if; lia.
Qed.

(* block istart = bisect_right(boundaries, a) begins at or before a *)
Lemma shift_spec lengths a :
  0 <= a ->
  let j := bisect_right (cumsum lengths) a in
  0 <= j <= lenZ lengths /\
  (if j >? 0 then nthZ (cumsum lengths) (j - 1) else 0) = zsum (firstnZ j lengths) /\
  zsum (firstnZ j lengths) <= a.
Proof.
  intros Ha j.
  pose proof (bisect_right_cumsum lengths 0 a) as (H1 & H2 & _). fold (cumsum lengths) in H1, H2. fold j in H1, H2.
  split; [exact H1|].
  destruct (j >? 0) eqn:E.
  - rewrite cumsum_nthZ by lia. split; [reflexivity | lia].
  - rewrite zsum_firstnZ_0 by lia. split; [reflexivity | lia].
Qed.

(* index == colon: every block, whole *)
Lemma all_colon_positions lengths :
  Forall nonneg lengths ->
  forall ls pre post i,
    lengths = pre ++ ls ++ post -> i = lenZ pre ->
    plan_positions lengths (all_colon_from i ls) = zrange (zsum pre) (zsum pre + zsum ls) 1.
Proof.
  intros Hnn ls. induction ls as [|len t IH]; intros pre post i Hl Hi.
  - cbn [all_colon_from zsum]. symmetry. apply zrange_nil_pos; lia.
  - assert (Forall nonneg (len :: t)) as Hlt.
    { rewrite Hl in Hnn. apply Forall_app in Hnn as [_ Hnn]. apply Forall_app in Hnn as [Hnn _]. exact Hnn. }
    inversion Hlt as [|x l Hlen Ht]; subst x l. unfold nonneg in Hlen.
    pose proof (zsum_nonneg t Ht) as Hzt.
    cbn [all_colon_from zsum]. rewrite plan_positions_cons.
    rewrite (IH (pre ++ [len]) post (i + 1)).
    2: { rewrite Hl, <- app_assoc. reflexivity. }
    2: { rewrite lenZ_app, Hi. reflexivity. }
    rewrite zsum_app. cbn [zsum].
    rewrite Hi, Hl. unfold abs_positions. cbn [app]. rewrite firstnZ_lenZ_app, nthZ_lenZ_app.
    change (sel colon len) with (zrange 0 len 1). rewrite zrange_shift.
    rewrite (zrange_split_pos (zsum pre) (zsum pre + (len + zsum t)) (zsum pre + len) 1) by lia.
    rewrite Z.mod_1_r. f_equal; f_equal; lia.
Qed.

Theorem slice_1d_partition_pos dim lengths idx :
  valid_chunks lengths dim -> normalized idx dim -> 0 < step_of idx ->
  plan_positions lengths (slice_1d_slice dim lengths idx) = sel idx dim.
Proof.
  intros [Hnn Hsum] [(Hk & Ha & Hb & Hab) | (Hk & _)] Hk'; [clear Hk' | lia].
  change (Forall nonneg lengths) in Hnn.
  assert (0 <= dim) as Hdim by (rewrite <- Hsum; apply zsum_nonneg; exact Hnn).
  unfold sel. rewrite (indices_normalized_pos idx dim Hk Ha Hb).
  assert (0 <= start_pos idx <= dim) as Hsa.
  { unfold start_pos. destruct (s_start idx) as [a|]; [apply Ha; reflexivity | lia]. }
  assert (0 <= stop_pos idx dim <= dim) as Hsb.
  { unfold stop_pos. destruct (s_stop idx) as [b|]; [apply Hb; reflexivity | lia]. }
  destruct (pslice_eqb idx colon) eqn:Hc.
  - apply pslice_eqb_eq in Hc. subst idx. unfold slice_1d_slice. cbn [pslice_eqb colon s_start s_stop s_step oZ_eqb andb].
    rewrite (all_colon_positions lengths Hnn lengths [] [] 0).
    + cbn [zsum]. rewrite Hsum. reflexivity.
    + rewrite app_nil_r. reflexivity.
    + reflexivity.
  - rewrite slice_1d_slice_pos by (assumption || lia). cbv zeta.
    set (a := start_pos idx) in *. set (b := stop_pos idx dim) in *.
    pose proof (shift_spec lengths a ltac:(lia)) as Hsh. cbv zeta in Hsh.
    set (istart := bisect_right (cumsum lengths) a) in *.
    destruct Hsh as (Hj & Hshift & Hle). rewrite Hshift.
    set (istop := Z.min (bisect_left (cumsum lengths) b + 1) (lenZ lengths)).
    rewrite plan_positions_finish, plan_positions_colonize by exact Hnn.
    rewrite (s1d_pos_positions lengths Hnn _ (firstnZ istart lengths)
               (skipnZ (istop - istart) (skipnZ istart lengths)) istart).
    2: { unfold firstnZ, skipnZ. apply split3. }
    2: { symmetry. apply lenZ_firstnZ. lia. }
    2: lia.
    2: lia.
    assert (b <= zsum (firstnZ istart lengths) + zsum (firstnZ (istop - istart) (skipnZ istart lengths))) as HE.
    { assert (b <= zsum (firstnZ istop lengths)) as H0.
      { pose proof (bisect_left_cumsum lengths 0 b) as HB. cbv zeta in HB. fold (cumsum lengths) in HB.
        unfold istop. set (jl := bisect_left (cumsum lengths) b) in *.
        destruct HB as (B1 & _ & B3).
        destruct (Z_lt_le_dec jl (lenZ lengths)) as [Hlt|Hge].
        - rewrite Z.min_l by lia. specialize (B3 Hlt). lia.
        - rewrite Z.min_r by lia. rewrite zsum_firstnZ_all by lia. lia. }
      destruct (Z_le_gt_dec istart istop) as [Hii|Hii].
      - replace istop with (istart + (istop - istart)) in H0 by ring.
        rewrite zsum_firstnZ_add in H0 by lia. exact H0.
      - rewrite (zsum_firstnZ_0 _ (istop - istart)) by lia.
        pose proof (zsum_firstnZ_le lengths istop istart Hnn ltac:(lia)). lia. }
    f_equal; lia.
Qed.

(* ---------------------------------------------------------------------- *)
(* negative step: the visiting order blocks_desc *)

Definition in_window (istart istop : Z) (b : Z * Z * Z) : bool :=
  let '(i, _, _) := b in (istop <? i) && (i <=? istart).

Lemma block_bounds_from_app l1 : forall i off l2,
  block_bounds_from i off (l1 ++ l2) =
  block_bounds_from i off l1 ++ block_bounds_from (i + lenZ l1) (off + zsum l1) l2.
Proof.
  induction l1 as [|x t IH]; intros i off l2.
  - cbn [app block_bounds_from zsum]. unfold lenZ. cbn [length]. f_equal; lia.
  - cbn [app block_bounds_from zsum]. rewrite IH, lenZ_cons. f_equal. f_equal. f_equal; lia.
Qed.

Lemma filter_window_all ls : forall i off istart istop,
  istop < i -> i + lenZ ls - 1 <= istart ->
  filter (in_window istart istop) (block_bounds_from i off ls) = block_bounds_from i off ls.
Proof.
  induction ls as [|x t IH]; intros i off istart istop H1 H2; [reflexivity|].
  rewrite lenZ_cons in H2. pose proof (lenZ_nonneg t).
  cbn [block_bounds_from filter in_window].
  assert ((istop <? i) && (i <=? istart) = true) as -> by lia.
  rewrite IH by lia. reflexivity.
Qed.

Lemma filter_window_none ls : forall i off istart istop,
  i + lenZ ls - 1 <= istop \/ istart < i ->
  filter (in_window istart istop) (block_bounds_from i off ls) = [].
Proof.
  induction ls as [|x t IH]; intros i off istart istop H; [reflexivity|].
  rewrite lenZ_cons in H. pose proof (lenZ_nonneg t).
  cbn [block_bounds_from filter in_window].
  assert ((istop <? i) && (i <=? istart) = false) as -> by lia.
  apply IH. lia.
Qed.

Lemma blocks_desc_empty lengths istart istop :
  istart <= istop -> blocks_desc lengths istart istop = [].
Proof.
  intros H. unfold blocks_desc. fold (in_window istart istop). unfold block_bounds.
  generalize 0 at 1 as i. generalize 0 as off.
  induction lengths as [|x t IH]; intros off i; [reflexivity|].
  cbn [block_bounds_from filter in_window].
  assert ((istop <? i) && (i <=? istart) = false) as -> by lia.
  apply IH.
Qed.

Lemma blocks_desc_segment lengths istart istop :
  -1 <= istop < istart -> istart < lenZ lengths ->
  let A := firstnZ (istop + 1) lengths in
  let B := firstnZ (istart - istop) (skipnZ (istop + 1) lengths) in
  let C := skipnZ (istart - istop) (skipnZ (istop + 1) lengths) in
  lengths = A ++ B ++ C /\ lenZ A = istop + 1 /\ lenZ B = istart - istop /\
  blocks_desc lengths istart istop = rev (block_bounds_from (istop + 1) (zsum A) B).
Proof.
  intros H1 H2 A B C.
  assert (lengths = A ++ B ++ C) as Hl by (unfold A, B, C, firstnZ, skipnZ; apply split3).
  assert (lenZ A = istop + 1) as HA by (apply lenZ_firstnZ; lia).
  assert (lenZ B = istart - istop) as HB.
  { unfold B. apply lenZ_firstnZ. unfold lenZ, skipnZ. rewrite skipn_length. unfold lenZ in H2. lia. }
  split; [exact Hl|]. split; [exact HA|]. split; [exact HB|].
  unfold blocks_desc. fold (in_window istart istop). f_equal.
  unfold block_bounds. rewrite Hl at 1.
  rewrite !block_bounds_from_app, !filter_app.
  rewrite filter_window_none by lia.
  rewrite filter_window_all by lia.
  rewrite filter_window_none by lia.
  rewrite app_nil_r. cbn [app]. f_equal; lia.
Qed.

(* ---------------------------------------------------------------------- *)
(* negative step: the loop s1d_neg *)

Lemma s1d_neg_nil blocks : forall rstart stop step,
  rstart <= stop -> s1d_neg blocks rstart stop step = [].
Proof.
  induction blocks as [|[[i cstart] cstop] t IH]; intros rstart stop step H; [reflexivity|].
  cbn [s1d_neg].
  assert ((cstart <=? rstart) && (rstart <? cstop) && (rstart >? stop) = false) as -> by lia.
  apply IH. exact H.
Qed.

Lemma sel_local_neg a b k n :
  k < 0 -> - n <= a < 0 -> - n - 1 <= b < 0 ->
  sel (mkslice (Some a) (Some b) (Some k)) n = zrange (a + n) (b + n) k.
Proof.
  intros Hk Ha Hb. unfold sel, indices, adjust_endpoint, step_of. cbn [s_start s_stop s_step].
  f_equal; repeat break_if; lia.
Qed.

Lemma neg_piece lengths pre len rest rstart stop step :
  lengths = pre ++ len :: rest ->
  step < 0 -> zsum pre <= rstart < zsum pre + len -> stop < rstart ->
  abs_positions lengths
    (lenZ pre, LSlice (mkslice (Some (rstart - (zsum pre + len)))
                               (Some (Z.max (zsum pre - (zsum pre + len) - 1) (stop - (zsum pre + len))))
                               (Some step))) =
  zrange rstart (Z.max stop (zsum pre - 1)) step.
Proof.
  intros -> Hk Hr Hs. unfold abs_positions.
  rewrite firstnZ_lenZ_app, nthZ_lenZ_app.
  rewrite sel_local_neg by lia. rewrite zrange_shift. f_equal; lia.
Qed.

Lemma block_bounds_from_snoc ls x i off :
  rev (block_bounds_from i off (ls ++ [x])) =
  (i + lenZ ls, off + zsum ls, off + zsum ls + x) :: rev (block_bounds_from i off ls).
Proof.
  rewrite block_bounds_from_app. cbn [block_bounds_from]. rewrite rev_app_distr. reflexivity.
Qed.

(* Loop invariant of the negative-step loop.  [B] is the segment of blocks
   still to visit (they are visited from the last one down); it starts at
   block number i = |pre|, i.e. at absolute offset zsum pre.  [rstart] is the
   next selected (absolute) position, which must lie below the end of the
   segment, [stop] the (exclusive, absolute) end of the selection.  The pieces
   emitted enumerate exactly the rest of the range that lies at or above the
   start of the segment. *)
Theorem s1d_neg_positions lengths :
  forall B pre post i rstart stop step,
    lengths = pre ++ B ++ post -> i = lenZ pre -> Forall nonneg B ->
    step < 0 -> rstart < zsum pre + zsum B ->
    plan_positions lengths
      (map (fun e => (fst e, LSlice (snd e)))
           (s1d_neg (rev (block_bounds_from i (zsum pre) B)) rstart stop step)) =
    zrange rstart (Z.max stop (zsum pre - 1)) step.
Proof.
  intros B. induction B as [|x B' IH] using rev_ind; intros pre post i rstart stop step Hl Hi Hnn Hk Hr.
  - cbn [block_bounds_from rev s1d_neg map]. cbn [zsum] in Hr.
    symmetry. apply zrange_nil_neg; lia.
  - apply Forall_app in Hnn as [HB' Hx]. inversion Hx as [|x' l' Hx0 _]; subst x' l'. unfold nonneg in Hx0.
    rewrite zsum_app in Hr. cbn [zsum] in Hr.
    destruct (Z_le_gt_dec rstart stop) as [Hrs|Hrs].
    { rewrite s1d_neg_nil by exact Hrs. cbn [map]. symmetry. apply zrange_nil_neg; lia. }
    assert (lengths = pre ++ B' ++ (x :: post)) as Hl'.
    { rewrite Hl, <- app_assoc. reflexivity. }
    pose proof (zsum_nonneg B' HB') as HzB.
    rewrite block_bounds_from_snoc. cbn [s1d_neg].
    set (c := zsum pre + zsum B').
    destruct ((c <=? rstart) && (rstart <? c + x) && (rstart >? stop)) eqn:E.
    + cbn [map fst snd]. rewrite plan_positions_cons.
      rewrite (IH pre (x :: post) i _ stop step Hl' Hi HB' Hk).
      2: { fold c. pose proof (Z.mod_neg_bound (rstart - (c - 1)) step Hk). lia. }
      assert (lengths = (pre ++ B') ++ x :: post) as Hl2.
      { rewrite Hl, <- !app_assoc. reflexivity. }
      assert (i + lenZ B' = lenZ (pre ++ B')) as -> by (rewrite lenZ_app, Hi; reflexivity).
      assert (c = zsum (pre ++ B')) as Hc by (unfold c; rewrite zsum_app; reflexivity).
      rewrite Hc.
      rewrite (neg_piece lengths (pre ++ B') x post rstart stop step Hl2 Hk) by lia.
      rewrite <- Hc.
      rewrite (zrange_split_neg rstart (Z.max stop (zsum pre - 1)) (c - 1) step) by lia.
      f_equal; f_equal; lia.
    + apply (IH pre (x :: post) i rstart stop step Hl' Hi HB' Hk). fold c. lia.
Qed.

(* ---------------------------------------------------------------------- *)
(* negative step: the whole function *)

Definition start_neg (idx : pslice) (dim : Z) : Z := match s_start idx with None => dim - 1 | Some a => a end.
Definition stop_neg (idx : pslice) : Z := match s_stop idx with None => -1 | Some b => b end.

Lemma slice_1d_slice_neg dim lengths idx :
  0 <= dim -> step_of idx < 0 ->
  (forall a, s_start idx = Some a -> 0 <= a <= dim - 1) ->
  (forall b, s_stop idx = Some b -> 0 <= b <= dim - 1) ->
  slice_1d_slice dim lengths idx =
    let bnd := cumsum lengths in
    let a := start_neg idx dim in
    let b := stop_neg idx in
    let istart := Z.min (bisect_right bnd a + 1) (lenZ bnd - 1) in
    let istop := Z.max (bisect_right bnd b - 1) (-1) in
    finish lengths (s1d_neg (blocks_desc lengths istart istop) a b (step_of idx)).
Proof.
  intros Hdim Hk Ha Hb. unfold slice_1d_slice.
  assert (pslice_eqb idx colon = false) as ->.
  { destruct (pslice_eqb idx colon) eqn:E; [|reflexivity].
    apply pslice_eqb_eq in E. subst idx. cbn in Hk. lia. }
  rewrite model_step_of by lia.
  assert (step_of idx >? 0 = false) as -> by lia.
  cbv beta iota zeta.
  assert ((if (if match s_start idx with Some a => a | None => dim - 1 end >=? dim then dim - 1
               else match s_start idx with Some a => a | None => dim - 1 end) <? 0
           then (if match s_start idx with Some a => a | None => dim - 1 end >=? dim then dim - 1
                 else match s_start idx with Some a => a | None => dim - 1 end) + dim
           else (if match s_start idx with Some a => a | None => dim - 1 end >=? dim then dim - 1
                 else match s_start idx with Some a => a | None => dim - 1 end)) = start_neg idx dim) as ->.
  { unfold start_neg. destruct (s_start idx) as [a|]; [specialize (Ha a eq_refl)|]; repeat break_if; lia. }
  assert ((if match s_stop idx with Some b => b | None => - (dim + 1) end <? 0
           then match s_stop idx with Some b => b | None => - (dim + 1) end + dim
           else match s_stop idx with Some b => b | None => - (dim + 1) end) = stop_neg idx) as ->.
  { unfold stop_neg. destruct (s_stop idx) as [b|]; [specialize (Hb b eq_refl)|]; repeat break_if; lia. }
  reflexivity.
Qed.

Lemma indices_normalized_neg idx dim :
  step_of idx < 0 ->
  (forall a, s_start idx = Some a -> 0 <= a <= dim - 1) ->
  (forall b, s_stop idx = Some b -> 0 <= b <= dim - 1) ->
  indices idx dim = (start_neg idx dim, stop_neg idx, step_of idx).
Proof.
  intros Hk Ha Hb. unfold indices, adjust_endpoint, start_neg, stop_neg.
  destruct (s_start idx) as [a|]; [specialize (Ha a eq_refl)|];
    (destruct (s_stop idx) as [b|]; [specialize (Hb b eq_refl)|]);
    f_equal; try f_equal; repeat break_if; lia.
Qed.

Theorem slice_1d_partition_neg dim lengths idx :
  valid_chunks lengths dim -> normalized idx dim -> step_of idx < 0 ->
  plan_positions lengths (slice_1d_slice dim lengths idx) = sel idx dim.
Proof.
  intros [Hnn Hsum] [(Hk & _) | (Hk & Ha & Hb)] Hk'; [lia | clear Hk'].
  change (Forall nonneg lengths) in Hnn.
  assert (0 <= dim) as Hdim by (rewrite <- Hsum; apply zsum_nonneg; exact Hnn).
  unfold sel. rewrite (indices_normalized_neg idx dim Hk Ha Hb).
  rewrite slice_1d_slice_neg by assumption. cbv zeta.
  assert (-1 <= start_neg idx dim <= dim - 1) as Hsa.
  { unfold start_neg. destruct (s_start idx) as [a|]; [specialize (Ha a eq_refl)|]; lia. }
  assert (-1 <= stop_neg idx <= dim - 1) as Hsb.
  { unfold stop_neg. destruct (s_stop idx) as [b|]; [specialize (Hb b eq_refl)|]; lia. }
  set (a := start_neg idx dim) in *. set (b := stop_neg idx) in *.
  rewrite plan_positions_finish, plan_positions_colonize by exact Hnn.
  rewrite cumsum_lenZ.
  pose proof (bisect_right_cumsum lengths 0 a) as HA. cbv zeta in HA. fold (cumsum lengths) in HA.
  pose proof (bisect_right_cumsum lengths 0 b) as HB. cbv zeta in HB. fold (cumsum lengths) in HB.
  set (j := bisect_right (cumsum lengths) a) in *.
  set (j' := bisect_right (cumsum lengths) b) in *.
  destruct HA as (A1 & _ & A3). destruct HB as (B1 & B2 & _).
  set (istart := Z.min (j + 1) (lenZ lengths - 1)).
  set (istop := Z.max (j' - 1) (-1)).
  destruct (Z.eq_dec (lenZ lengths) 0) as [Hlen0|Hlen0].
  { assert (lengths = []) as -> by (destruct lengths; [reflexivity | rewrite lenZ_cons in Hlen0; pose proof (lenZ_nonneg lengths); lia]).
    cbn [zsum] in Hsum. cbn. symmetry. apply zrange_nil_neg; lia. }
  pose proof (lenZ_nonneg lengths) as Hlen.
  (* U1: the selection starts below the end of block istart *)
  assert (a < zsum (firstnZ (istart + 1) lengths)) as U1.
  { unfold istart. destruct (Z_le_gt_dec (j + 1) (lenZ lengths - 1)) as [Hj|Hj].
    - rewrite Z.min_l by lia. specialize (A3 ltac:(lia)).
      pose proof (zsum_firstnZ_le lengths (j + 1) (j + 1 + 1) Hnn ltac:(lia)). lia.
    - rewrite Z.min_r by lia. rewrite zsum_firstnZ_all by lia. lia. }
  (* U2: the selection stops at or above the last position before block istop+1 *)
  assert (zsum (firstnZ (istop + 1) lengths) - 1 <= b) as U2.
  { unfold istop. destruct (Z_le_gt_dec j' 0) as [Hj|Hj].
    - rewrite Z.max_r by lia. rewrite zsum_firstnZ_0 by lia. lia.
    - rewrite Z.max_l by lia. specialize (B2 ltac:(lia)).
      replace (j' - 1 + 1) with j' by ring. lia. }
  destruct (Z_le_gt_dec istart istop) as [Hii|Hii].
  - rewrite blocks_desc_empty by exact Hii. cbn [s1d_neg map].
    pose proof (zsum_firstnZ_le lengths (istart + 1) (istop + 1) Hnn ltac:(lia)).
    symmetry. apply zrange_nil_neg; lia.
  - pose proof (blocks_desc_segment lengths istart istop ltac:(lia) ltac:(lia)) as HS. cbv zeta in HS.
    destruct HS as (Hl & HlA & HlB & ->).
    rewrite (s1d_neg_positions lengths _ _ _ (istop + 1) a b (step_of idx) Hl).
    + f_equal. lia.
    + symmetry. exact HlA.
    + apply Forall_firstn, Forall_skipn. exact Hnn.
    + exact Hk.
    + replace (istart + 1) with ((istop + 1) + (istart - istop)) in U1 by ring.
      rewrite zsum_firstnZ_add in U1 by lia. exact U1.
Qed.

(* ---------------------------------------------------------------------- *)
(* Theorem A *)

Theorem slice_1d_partition dim lengths idx :
  valid_chunks lengths dim -> normalized idx dim ->
  plan_positions lengths (slice_1d_slice dim lengths idx) = sel idx dim.
Proof.
  intros Hv Hn.
  assert (0 < step_of idx \/ step_of idx < 0) as [Hk|Hk] by (destruct Hn as [(H & _)|(H & _)]; lia).
  - apply slice_1d_partition_pos; assumption.
  - apply slice_1d_partition_neg; assumption.
Qed.

(* ---------------------------------------------------------------------- *)
(* Structure of the plan: block numbers are strictly monotone, and every
   local slice has explicit in-block endpoints. *)

Fixpoint asc_in {A} (lo hi : Z) (l : list (Z * A)) : Prop :=
  match l with [] => True | e :: t => lo <= fst e < hi /\ asc_in (fst e + 1) hi t end.
Fixpoint desc_in {A} (lo hi : Z) (l : list (Z * A)) : Prop :=
  match l with [] => True | e :: t => lo <= fst e < hi /\ desc_in lo (fst e) t end.

Lemma asc_in_weaken {A} (l : list (Z * A)) : forall lo hi lo' hi',
  asc_in lo hi l -> lo' <= lo -> hi <= hi' -> asc_in lo' hi' l.
Proof.
  induction l as [|e t IH]; intros lo hi lo' hi' H H1 H2; [exact I|].
  cbn [asc_in] in *. destruct H as [Hb Ht]. split; [lia|].
  apply (IH _ _ _ _ Ht); lia.
Qed.

Lemma desc_in_weaken {A} (l : list (Z * A)) : forall lo hi lo' hi',
  desc_in lo hi l -> lo' <= lo -> hi <= hi' -> desc_in lo' hi' l.
Proof.
  induction l as [|e t IH]; intros lo hi lo' hi' H H1 H2; [exact I|].
  cbn [desc_in] in *. destruct H as [Hb Ht]. split; [lia|].
  apply (IH _ _ _ _ Ht); lia.
Qed.

Lemma asc_in_Forall {A} (l : list (Z * A)) : forall lo hi,
  asc_in lo hi l -> Forall (fun e => lo <= fst e < hi) l.
Proof.
  induction l as [|e t IH]; intros lo hi H; [constructor|].
  cbn [asc_in] in H. destruct H as [Hb Ht]. constructor; [exact Hb|].
  apply IH. apply (asc_in_weaken t _ _ _ _ Ht); lia.
Qed.

Lemma desc_in_Forall {A} (l : list (Z * A)) : forall lo hi,
  desc_in lo hi l -> Forall (fun e => lo <= fst e < hi) l.
Proof.
  induction l as [|e t IH]; intros lo hi H; [constructor|].
  cbn [desc_in] in H. destruct H as [Hb Ht]. constructor; [exact Hb|].
  apply IH. apply (desc_in_weaken t _ _ _ _ Ht); lia.
Qed.

Lemma asc_in_NoDup {A} (l : list (Z * A)) : forall lo hi, asc_in lo hi l -> NoDup (map fst l).
Proof.
  induction l as [|e t IH]; intros lo hi H; cbn [map]; [constructor|].
  cbn [asc_in] in H. destruct H as [Hb Ht]. constructor; [|exact (IH _ _ Ht)].
  intros Hin. apply in_map_iff in Hin as (e' & He' & Hin').
  pose proof (asc_in_Forall t _ _ Ht) as HF. rewrite Forall_forall in HF.
  specialize (HF e' Hin'). lia.
Qed.

Lemma desc_in_NoDup {A} (l : list (Z * A)) : forall lo hi, desc_in lo hi l -> NoDup (map fst l).
Proof.
  induction l as [|e t IH]; intros lo hi H; cbn [map]; [constructor|].
  cbn [desc_in] in H. destruct H as [Hb Ht]. constructor; [|exact (IH _ _ Ht)].
  intros Hin. apply in_map_iff in Hin as (e' & He' & Hin').
  pose proof (desc_in_Forall t _ _ Ht) as HF. rewrite Forall_forall in HF.
  specialize (HF e' Hin'). lia.
Qed.

Lemma asc_in_map {A B} (f : Z * A -> Z * B) (l : list (Z * A)) :
  (forall e, fst (f e) = fst e) -> forall lo hi, asc_in lo hi l -> asc_in lo hi (map f l).
Proof.
  intros Hf. induction l as [|e t IH]; intros lo hi H; [exact I|].
  cbn [map asc_in] in *. rewrite Hf. destruct H as [Hb Ht]. split; [exact Hb | exact (IH _ _ Ht)].
Qed.

Lemma desc_in_map {A B} (f : Z * A -> Z * B) (l : list (Z * A)) :
  (forall e, fst (f e) = fst e) -> forall lo hi, desc_in lo hi l -> desc_in lo hi (map f l).
Proof.
  intros Hf. induction l as [|e t IH]; intros lo hi H; [exact I|].
  cbn [map desc_in] in *. rewrite Hf. destruct H as [Hb Ht]. split; [exact Hb | exact (IH _ _ Ht)].
Qed.

(* sorted(d.items()) on a plan in ascending / descending block order *)
Lemma sort_asc {A} (l : list (Z * A)) : forall lo hi, asc_in lo hi l -> sort_by_key l = l.
Proof.
  induction l as [|e t IH]; intros lo hi H; [reflexivity|].
  cbn [asc_in] in H. destruct H as [Hb Ht].
  cbn [sort_by_key]. rewrite (IH _ _ Ht).
  destruct t as [|h t']; [reflexivity|].
  cbn [asc_in] in Ht. cbn [insert_by_key].
  assert (fst e <=? fst h = true) as -> by lia. reflexivity.
Qed.

Lemma insert_last {A} (e : Z * A) (l : list (Z * A)) :
  Forall (fun h => fst h < fst e) l -> insert_by_key e l = l ++ [e].
Proof.
  induction 1 as [|h t Hh Ht IH]; [reflexivity|].
  cbn [insert_by_key app]. assert (fst e <=? fst h = false) as -> by lia.
  rewrite IH. reflexivity.
Qed.

Lemma sort_desc {A} (l : list (Z * A)) : forall lo hi, desc_in lo hi l -> sort_by_key l = rev l.
Proof.
  induction l as [|e t IH]; intros lo hi H; [reflexivity|].
  cbn [desc_in] in H. destruct H as [Hb Ht].
  cbn [sort_by_key rev]. rewrite (IH _ _ Ht).
  apply insert_last. apply Forall_rev.
  pose proof (desc_in_Forall t _ _ Ht) as HF.
  eapply Forall_impl; [|exact HF]. cbv beta. intros h Hh. lia.
Qed.

(* keys emitted by the two loops *)
Lemma s1d_pos_keys ls : forall i start stop step,
  asc_in i (i + lenZ ls) (s1d_pos i ls start stop step).
Proof.
  induction ls as [|len t IH]; intros i start stop step; [exact I|].
  cbn [s1d_pos]. rewrite lenZ_cons. pose proof (lenZ_nonneg t) as Ht.
  destruct ((start <? len) && (stop >? 0)).
  - cbn [asc_in fst]. split; [lia|].
    eapply asc_in_weaken; [apply IH | lia | lia].
  - eapply asc_in_weaken; [apply IH | lia | lia].
Qed.

Lemma s1d_neg_keys B : forall i off rstart stop step,
  desc_in i (i + lenZ B) (s1d_neg (rev (block_bounds_from i off B)) rstart stop step).
Proof.
  induction B as [|x B' IH] using rev_ind; intros i off rstart stop step; [exact I|].
  rewrite block_bounds_from_snoc. cbn [s1d_neg]. rewrite lenZ_app.
  change (lenZ [x]) with 1. pose proof (lenZ_nonneg B') as HB.
  destruct ((off + zsum B' <=? rstart) && (rstart <? off + zsum B' + x) && (rstart >? stop)).
  - cbn [desc_in fst]. split; [lia|]. apply IH.
  - eapply desc_in_weaken; [apply IH | lia | lia].
Qed.

(* ceil((stop - start) / step) is the length of the local range *)
Lemma ceil_div_pos a b k : 0 < k -> - k < b - a -> ceil_div (b - a) k = range_len a b k.
Proof.
  intros Hk H. unfold ceil_div. rewrite range_len_pos_step by lia.
  destruct (a <? b) eqn:E; nia.
Qed.

Lemma ceil_div_neg a b k : k < 0 -> b < a -> ceil_div (b - a) k = range_len a b k.
Proof.
  intros Hk H. unfold ceil_div. rewrite range_len_neg_step by lia.
  destruct (b <? a) eqn:E; nia.
Qed.

(* what the loops guarantee about each entry (i, slice(a, b, k)) *)
Definition entry_ok (lengths : list Z) (k : Z) (e : Z * pslice) : Prop :=
  exists a b, snd e = mkslice (Some a) (Some b) (Some k) /\
    let len := nthZ lengths (fst e) in
    (0 < k /\ 0 <= a < len /\ 0 < b <= len /\ - k < b - a) \/
    (k < 0 /\ - len <= a < 0 /\ - len - 1 <= b < a).

Lemma piece_len_colonize lengths i a b k :
  piece_len lengths (colonize lengths (i, mkslice (Some a) (Some b) (Some k))) = ceil_div (b - a) k.
Proof.
  unfold colonize.
  destruct (pslice_eqb _ _) eqn:E.
  - apply pslice_eqb_eq in E. injection E as -> -> ->. reflexivity.
  - reflexivity.
Qed.

Lemma entry_len lengths k e :
  Forall nonneg lengths -> entry_ok lengths k e ->
  piece_len lengths (colonize lengths e) = lenZ (abs_positions lengths (colonize lengths e)).
Proof.
  intros Hnn (a & b & Hs & H). destruct e as [i s]. cbn [fst snd] in *. subst s.
  rewrite piece_len_colonize, abs_positions_colonize by exact Hnn.
  unfold abs_positions, lenZ. rewrite map_length.
  destruct H as [(Hk & Ha & Hb & Hab) | (Hk & Ha & Hb)].
  - rewrite sel_local_pos by lia. rewrite zrange_length. apply ceil_div_pos; lia.
  - rewrite sel_local_neg by lia. rewrite zrange_length.
    rewrite (Z.add_comm a), (Z.add_comm b), range_len_shift. apply ceil_div_neg; lia.
Qed.

Lemma s1d_pos_entries lengths :
  Forall nonneg lengths ->
  forall ls pre post i start stop step,
    lengths = pre ++ ls ++ post -> i = lenZ pre -> 0 < step -> 0 <= start ->
    start <= stop \/ start < step ->
    Forall (entry_ok lengths step) (s1d_pos i ls start stop step).
Proof.
  intros Hnn ls.
  induction ls as [|len t IH]; intros pre post i start stop step Hl Hi Hk Hs Hss; [constructor|].
  assert (Forall nonneg (len :: t)) as Hlt.
  { rewrite Hl in Hnn. apply Forall_app in Hnn as [_ Hnn]. apply Forall_app in Hnn as [Hnn _]. exact Hnn. }
  inversion Hlt as [|x l Hlen Ht]; subst x l. unfold nonneg in Hlen.
  destruct (Z_le_gt_dec stop 0) as [Hstop|Hstop].
  { rewrite s1d_pos_stop_nonpos by (assumption || lia). constructor. }
  assert (lengths = (pre ++ [len]) ++ t ++ post) as Hl'.
  { rewrite Hl. rewrite <- app_assoc. reflexivity. }
  assert (i + 1 = lenZ (pre ++ [len])) as Hi'.
  { rewrite lenZ_app, Hi. reflexivity. }
  cbn [s1d_pos].
  destruct ((start <? len) && (stop >? 0)) eqn:E.
  - pose proof (Z.mod_pos_bound (start - len) step Hk) as Hm.
    constructor.
    + exists start, (Z.min stop len). split; [reflexivity|]. cbn [fst].
      rewrite Hi, Hl. cbn [app]. rewrite nthZ_lenZ_app. left. lia.
    + apply (IH (pre ++ [len]) post (i + 1) _ _ step Hl' Hi' Hk); lia.
  - apply (IH (pre ++ [len]) post (i + 1) _ _ step Hl' Hi' Hk); lia.
Qed.

Lemma s1d_neg_entries lengths :
  forall B pre post i rstart stop step,
    lengths = pre ++ B ++ post -> i = lenZ pre -> step < 0 ->
    Forall (entry_ok lengths step) (s1d_neg (rev (block_bounds_from i (zsum pre) B)) rstart stop step).
Proof.
  intros B. induction B as [|x B' IH] using rev_ind; intros pre post i rstart stop step Hl Hi Hk; [constructor|].
  assert (lengths = pre ++ B' ++ (x :: post)) as Hl'.
  { rewrite Hl, <- app_assoc. reflexivity. }
  rewrite block_bounds_from_snoc. cbn [s1d_neg].
  set (c := zsum pre + zsum B').
  destruct ((c <=? rstart) && (rstart <? c + x) && (rstart >? stop)) eqn:E.
  - constructor; [|apply (IH pre (x :: post) i _ stop step Hl' Hi Hk)].
    eexists _, _. split; [reflexivity|]. cbn [fst].
    assert (i + lenZ B' = lenZ (pre ++ B')) as -> by (rewrite lenZ_app, Hi; reflexivity).
    assert (lengths = (pre ++ B') ++ x :: post) as -> by (rewrite Hl, <- !app_assoc; reflexivity).
    rewrite nthZ_lenZ_app. right. lia.
  - apply (IH pre (x :: post) i rstart stop step Hl' Hi Hk).
Qed.

Lemma lenZ_firstnZ_le {A} (l : list A) m : lenZ (firstnZ m l) <= lenZ l.
Proof. unfold lenZ, firstnZ. rewrite firstn_length. lia. Qed.

Lemma lenZ_skipnZ {A} (l : list A) a : 0 <= a <= lenZ l -> lenZ (skipnZ a l) = lenZ l - a.
Proof. unfold lenZ, skipnZ. intros H. rewrite skipn_length. lia. Qed.

(* Whenever the index is not the full slice, the plan is [finish] of a list d
   of explicit entries, strictly ascending in block number for positive steps
   and strictly descending for negative steps. *)
Lemma plan_structure dim lengths idx :
  valid_chunks lengths dim -> normalized idx dim -> pslice_eqb idx colon = false ->
  exists d, slice_1d_slice dim lengths idx = finish lengths d /\
    Forall (entry_ok lengths (step_of idx)) d /\
    ((0 < step_of idx /\ asc_in 0 (lenZ lengths) d) \/
     (step_of idx < 0 /\ desc_in 0 (lenZ lengths) d)).
Proof.
  intros [Hnn Hsum] Hnorm Hc.
  change (Forall nonneg lengths) in Hnn.
  assert (0 <= dim) as Hdim by (rewrite <- Hsum; apply zsum_nonneg; exact Hnn).
  destruct Hnorm as [(Hk & Ha & Hb & Hab) | (Hk & Ha & Hb)].
  - assert (0 <= start_pos idx <= dim) as Hsa.
    { unfold start_pos. destruct (s_start idx) as [a|]; [apply Ha; reflexivity | lia]. }
    assert (0 <= stop_pos idx dim <= dim) as Hsb.
    { unfold stop_pos. destruct (s_stop idx) as [b|]; [apply Hb; reflexivity | lia]. }
    assert (start_pos idx <= stop_pos idx dim) as Hsab.
    { unfold start_pos, stop_pos in *. destruct (s_start idx) as [a|], (s_stop idx) as [b|]; try lia.
      apply Hab; reflexivity. }
    rewrite slice_1d_slice_pos by (assumption || lia). cbv zeta.
    set (a := start_pos idx) in *. set (b := stop_pos idx dim) in *.
    pose proof (shift_spec lengths a ltac:(lia)) as Hsh. cbv zeta in Hsh.
    set (istart := bisect_right (cumsum lengths) a) in *.
    destruct Hsh as (Hj & Hshift & Hle). rewrite Hshift.
    set (istop := Z.min (bisect_left (cumsum lengths) b + 1) (lenZ lengths)).
    eexists. split; [reflexivity|]. split.
    + apply (s1d_pos_entries lengths Hnn _ (firstnZ istart lengths)
               (skipnZ (istop - istart) (skipnZ istart lengths)) istart).
      * unfold firstnZ, skipnZ. apply split3.
      * symmetry. apply lenZ_firstnZ. lia.
      * lia.
      * lia.
      * left. lia.
    + left. split; [exact Hk|].
      eapply asc_in_weaken; [apply s1d_pos_keys | lia |].
      pose proof (lenZ_firstnZ_le (skipnZ istart lengths) (istop - istart)) as H1.
      rewrite lenZ_skipnZ in H1 by lia. lia.
  - rewrite slice_1d_slice_neg by assumption. cbv zeta.
    rewrite cumsum_lenZ.
    set (a := start_neg idx dim). set (b := stop_neg idx).
    set (istart := Z.min (bisect_right (cumsum lengths) a + 1) (lenZ lengths - 1)).
    set (istop := Z.max (bisect_right (cumsum lengths) b - 1) (-1)).
    eexists. split; [reflexivity|].
    destruct (Z_le_gt_dec istart istop) as [Hii|Hii].
    + rewrite blocks_desc_empty by exact Hii. cbn [s1d_neg].
      split; [constructor|]. right. split; [exact Hk | exact I].
    + pose proof (blocks_desc_segment lengths istart istop ltac:(lia) ltac:(lia)) as HS. cbv zeta in HS.
      destruct HS as (Hl & HlA & HlB & ->). split.
      * apply (s1d_neg_entries lengths _ _ _ (istop + 1) a b (step_of idx) Hl); [|exact Hk].
        symmetry. exact HlA.
      * right. split; [exact Hk|].
        eapply desc_in_weaken; [apply s1d_neg_keys | lia | lia].
Qed.

(* ---------------------------------------------------------------------- *)
(* Theorem C: new_blockdim returns the piece lengths, in plan order *)

Lemma map_entry_len lengths k d :
  Forall nonneg lengths -> Forall (entry_ok lengths k) d ->
  map (piece_len lengths) (map (colonize lengths) d) =
  map (fun e => Z.of_nat (length (abs_positions lengths e))) (map (colonize lengths) d).
Proof.
  intros Hnn H. induction H as [|e t He Ht IH]; [reflexivity|].
  cbn [map]. rewrite IH. f_equal. apply (entry_len lengths k e Hnn He).
Qed.

Theorem new_blockdim_colon dim lengths : new_blockdim dim lengths colon = lengths.
Proof. reflexivity. Qed.

Theorem new_blockdim_lengths dim lengths idx :
  valid_chunks lengths dim -> normalized idx dim -> idx <> colon ->
  new_blockdim dim lengths idx =
  map (fun e => Z.of_nat (length (abs_positions lengths e))) (slice_1d_slice dim lengths idx).
Proof.
  intros Hv Hnorm Hne.
  assert (pslice_eqb idx colon = false) as Hc.
  { destruct (pslice_eqb idx colon) eqn:E; [|reflexivity]. apply pslice_eqb_eq in E. contradiction. }
  destruct (plan_structure dim lengths idx Hv Hnorm Hc) as (d & Hplan & Hent & Hkeys).
  destruct Hv as [Hnn _]. change (Forall nonneg lengths) in Hnn.
  unfold new_blockdim. rewrite Hc, Hplan.
  destruct d as [|e0 d0].
  { cbn [finish sort_by_key insert_by_key map abs_positions]. rewrite sel_empty_slice.
    cbn [map length]. change (piece_len lengths _) with 0.
    destruct (s_step idx) as [k|]; [destruct (k <? 0)|]; reflexivity. }
  assert (finish lengths (e0 :: d0) = map (colonize lengths) (e0 :: d0)) as -> by reflexivity.
  set (d := e0 :: d0) in *.
  destruct Hkeys as [(Hk & Hasc) | (Hk & Hdesc)].
  - rewrite (sort_asc (map (colonize lengths) d) 0 (lenZ lengths))
      by (apply asc_in_map; [apply colonize_fst | exact Hasc]).
    rewrite (map_entry_len lengths _ d Hnn Hent).
    unfold step_of in Hk. destruct (s_step idx) as [k|]; [|reflexivity].
    assert (k <? 0 = false) as -> by lia. reflexivity.
  - rewrite (sort_desc (map (colonize lengths) d) 0 (lenZ lengths))
      by (apply desc_in_map; [apply colonize_fst | exact Hdesc]).
    rewrite map_rev. rewrite (map_entry_len lengths _ d Hnn Hent).
    unfold step_of in Hk. destruct (s_step idx) as [k|]; [|lia].
    assert (k <? 0 = true) as -> by lia. apply rev_involutive.
Qed.

Lemma zsum_map_length {A} (f : A -> list Z) (l : list A) :
  zsum (map (fun e => Z.of_nat (length (f e))) l) = Z.of_nat (length (concat (map f l))).
Proof.
  induction l as [|x t IH]; [reflexivity|].
  cbn [map zsum concat]. rewrite app_length, IH. lia.
Qed.

Lemma sel_length s n : Z.of_nat (length (sel s n)) = slice_len s n.
Proof. unfold sel, slice_len. destruct (indices s n) as [[a b] k]. apply zrange_length. Qed.

Corollary new_blockdim_sum dim lengths idx :
  valid_chunks lengths dim -> normalized idx dim ->
  zsum (new_blockdim dim lengths idx) = slice_len idx dim.
Proof.
  intros Hv Hnorm.
  destruct (pslice_eqb idx colon) eqn:Hc.
  - apply pslice_eqb_eq in Hc. subst idx. rewrite new_blockdim_colon.
    destruct Hv as [Hnn Hsum]. pose proof (zsum_nonneg lengths Hnn) as H0.
    rewrite Hsum in *. change (slice_len colon dim) with (range_len 0 dim 1).
    rewrite range_len_pos_step by lia. destruct (0 <? dim) eqn:E; [|lia].
    rewrite Z.div_1_r. lia.
  - rewrite new_blockdim_lengths; [|assumption|assumption|].
    2: { intros ->. cbn in Hc. discriminate. }
    rewrite zsum_map_length. fold (plan_positions lengths (slice_1d_slice dim lengths idx)).
    rewrite (slice_1d_partition dim lengths idx Hv Hnorm). apply sel_length.
Qed.

(* ---------------------------------------------------------------------- *)
(* Theorem B: block numbers are in range and pairwise distinct, and every
   piece stays inside its block *)

Lemma zrange_In p a b k :
  In p (zrange a b k) -> exists i, 0 <= i < range_len a b k /\ p = a + i * k.
Proof.
  unfold zrange. intros H. apply in_map_iff in H as (i & Hp & Hi).
  apply in_seq in Hi. exists (Z.of_nat i). split; [lia | symmetry; exact Hp].
Qed.

Lemma sel_in_range s n p : 0 <= n -> step_of s <> 0 -> In p (sel s n) -> 0 <= p < n.
Proof.
  intros Hn Hk Hin. unfold sel in Hin.
  destruct (indices s n) as [[a b] k] eqn:Hi.
  pose proof (indices_bounds s n a b k Hn Hi) as (Hstep & Hpos & Hneg).
  apply zrange_In in Hin as (i & Hir & ->).
  assert (0 < k \/ k < 0) as [Hk0|Hk0] by lia.
  - specialize (Hpos Hk0).
    assert (a < b) as Hab.
    { destruct (Z_lt_le_dec a b) as [H|H]; [exact H|]. rewrite range_len_empty_pos in Hir by lia. lia. }
    pose proof (range_len_pos_last a b k Hk0 Hab). nia.
  - specialize (Hneg Hk0).
    assert (b < a) as Hab.
    { destruct (Z_lt_le_dec b a) as [H|H]; [exact H|]. rewrite range_len_empty_neg in Hir by lia. lia. }
    pose proof (range_len_neg_last a b k Hk0 Hab). nia.
Qed.

Lemma zsum_firstn_succ l : forall n, (n < length l)%nat ->
  zsum (firstn (S n) l) = zsum (firstn n l) + nth n l 0.
Proof.
  induction l as [|x t IH]; intros n Hn; cbn [length] in Hn; [lia|].
  destruct n as [|n].
  - cbn [firstn zsum nth]. lia.
  - change (firstn (S (S n)) (x :: t)) with (x :: firstn (S n) t).
    change (firstn (S n) (x :: t)) with (x :: firstn n t).
    cbn [zsum nth]. rewrite IH by lia. lia.
Qed.

Lemma zsum_firstnZ_succ l i :
  0 <= i < lenZ l -> zsum (firstnZ (i + 1) l) = zsum (firstnZ i l) + nthZ l i.
Proof.
  unfold lenZ, firstnZ, nthZ. intros H.
  replace (Z.to_nat (i + 1)) with (S (Z.to_nat i)) by lia.
  apply zsum_firstn_succ. lia.
Qed.

Definition in_block (lengths : list Z) (e : Z * ploc) : Prop :=
  0 <= fst e < lenZ lengths /\
  forall p, In p (abs_positions lengths e) ->
    zsum (firstnZ (fst e) lengths) <= p < zsum (firstnZ (fst e + 1) lengths).

Lemma in_block_slice lengths i s :
  Forall nonneg lengths -> 0 <= i < lenZ lengths -> step_of s <> 0 -> in_block lengths (i, LSlice s).
Proof.
  intros Hnn Hi Hk. split; [exact Hi|]. cbn [fst]. intros p Hp.
  unfold abs_positions in Hp. apply in_map_iff in Hp as (q & <- & Hq).
  apply sel_in_range in Hq; [|apply nthZ_nonneg; exact Hnn | exact Hk].
  rewrite zsum_firstnZ_succ by exact Hi. lia.
Qed.

Lemma in_block_colonize lengths k e :
  Forall nonneg lengths -> 0 <= fst e < lenZ lengths -> entry_ok lengths k e ->
  in_block lengths (colonize lengths e).
Proof.
  intros Hnn Hi (a & b & Hs & H). destruct e as [i s]. cbn [fst snd] in *. subst s.
  assert (k <> 0) as Hk by (destruct H as [(H & _)|(H & _)]; lia).
  unfold colonize. break_if; apply in_block_slice; try assumption; cbn; lia.
Qed.

Lemma all_colon_keys ls : forall i, asc_in i (i + lenZ ls) (all_colon_from i ls).
Proof.
  induction ls as [|x t IH]; intros i; [exact I|].
  cbn [all_colon_from asc_in fst]. rewrite lenZ_cons. pose proof (lenZ_nonneg t).
  split; [lia|]. eapply asc_in_weaken; [apply IH | lia | lia].
Qed.

Lemma all_colon_snd ls : forall i, Forall (fun e => snd e = LSlice colon) (all_colon_from i ls).
Proof.
  induction ls as [|x t IH]; intros i; constructor; [reflexivity | apply IH].
Qed.

Theorem slice_1d_pieces_in_block dim lengths idx :
  valid_chunks lengths dim -> lengths <> [] -> normalized idx dim ->
  NoDup (map fst (slice_1d_slice dim lengths idx)) /\
  Forall (in_block lengths) (slice_1d_slice dim lengths idx).
Proof.
  intros Hv Hne Hnorm.
  assert (0 < lenZ lengths) as Hlen.
  { destruct lengths as [|x t]; [contradiction|]. rewrite lenZ_cons. pose proof (lenZ_nonneg t). lia. }
  destruct (pslice_eqb idx colon) eqn:Hc.
  - destruct Hv as [Hnn _]. change (Forall nonneg lengths) in Hnn.
    unfold slice_1d_slice. rewrite Hc.
    pose proof (all_colon_keys lengths 0) as Hk. rewrite Z.add_0_l in Hk.
    split; [exact (asc_in_NoDup _ _ _ Hk)|].
    pose proof (asc_in_Forall _ _ _ Hk) as HF. pose proof (all_colon_snd lengths 0) as HS.
    rewrite Forall_forall in HF. rewrite Forall_forall in HS. rewrite Forall_forall. intros [i loc] Hin.
    specialize (HF _ Hin). specialize (HS _ Hin). cbn [fst snd] in *. subst loc.
    apply in_block_slice; [exact Hnn | exact HF | cbn; lia].
  - destruct (plan_structure dim lengths idx Hv Hnorm Hc) as (d & Hplan & Hent & Hkeys).
    destruct Hv as [Hnn _]. change (Forall nonneg lengths) in Hnn.
    rewrite Hplan. destruct d as [|e0 d0].
    { cbn [finish map fst]. split; [repeat constructor; intros []|].
      constructor; [|constructor]. apply in_block_slice; [exact Hnn | lia | cbn; lia]. }
    assert (finish lengths (e0 :: d0) = map (colonize lengths) (e0 :: d0)) as -> by reflexivity.
    set (d := e0 :: d0) in *.
    assert (NoDup (map fst d) /\ Forall (fun e => 0 <= fst e < lenZ lengths) d) as [HND HR].
    { destruct Hkeys as [(_ & H) | (_ & H)].
      - split; [exact (asc_in_NoDup _ _ _ H) | exact (asc_in_Forall _ _ _ H)].
      - split; [exact (desc_in_NoDup _ _ _ H) | exact (desc_in_Forall _ _ _ H)]. }
    split.
    + rewrite map_map. rewrite (map_ext _ fst (colonize_fst lengths)). exact HND.
    + rewrite Forall_forall in HR. rewrite Forall_forall in Hent. rewrite Forall_forall. intros e' Hin. apply in_map_iff in Hin as (e & <- & Hin).
      apply (in_block_colonize lengths (step_of idx)); [exact Hnn | exact (HR _ Hin) | exact (Hent _ Hin)].
Qed.

(* ---------------------------------------------------------------------- *)
(* The hypotheses are satisfiable on non-trivial inputs (zero-length chunk,
   step larger than a block, negative step). *)

Example valid_chunks_ex : valid_chunks [2; 0; 2; 3] 7.
Proof. split; [repeat constructor; lia | reflexivity]. Qed.

Example normalize_slice_normalized_ex :
  normalize_slice (mkslice (Some (-2)) (Some (-9)) (Some (-2))) 7 = mkslice (Some 5) None (Some (-2)) /\
  normalized (mkslice (Some 5) None (Some (-2))) 7.
Proof.
  split; [reflexivity|].
  change (mkslice (Some 5) None (Some (-2))) with (normalize_slice (mkslice (Some (-2)) (Some (-9)) (Some (-2))) 7).
  apply normalize_slice_normalized; cbn; lia.
Qed.

Example slice_1d_partition_ex_neg :
  let lengths := [2; 0; 2; 3] in
  let idx := mkslice (Some 5) None (Some (-2)) in
  valid_chunks lengths 7 /\ normalized idx 7 /\
  slice_1d_slice 7 lengths idx =
    [(3, LSlice (mkslice (Some (-2)) (Some (-4)) (Some (-2))));
     (2, LSlice (mkslice (Some (-1)) (Some (-3)) (Some (-2))));
     (0, LSlice (mkslice (Some (-1)) (Some (-3)) (Some (-2))))] /\
  plan_positions lengths (slice_1d_slice 7 lengths idx) = [5; 3; 1] /\
  sel idx 7 = [5; 3; 1].
Proof.
  cbv zeta. split; [exact valid_chunks_ex|]. split; [apply normalized_b_iff; reflexivity|].
  split; [reflexivity|]. split; reflexivity.
Qed.

Example slice_1d_partition_ex_pos :
  let lengths := [2; 0; 2; 3] in
  let idx := mkslice (Some 1) (Some 6) (Some 3) in
  valid_chunks lengths 7 /\ normalized idx 7 /\
  slice_1d_slice 7 lengths idx =
    [(0, LSlice (mkslice (Some 1) (Some 2) (Some 3)));
     (3, LSlice (mkslice (Some 0) (Some 2) (Some 3)))] /\
  plan_positions lengths (slice_1d_slice 7 lengths idx) = [1; 4] /\
  sel idx 7 = [1; 4].
Proof.
  cbv zeta. split; [exact valid_chunks_ex|]. split; [apply normalized_b_iff; reflexivity|].
  split; [reflexivity|]. split; reflexivity.
Qed.

Example slice_1d_pieces_in_block_ex :
  let lengths := [2; 0; 2; 3] in
  let idx := mkslice (Some 5) None (Some (-2)) in
  valid_chunks lengths 7 /\ lengths <> [] /\ normalized idx 7 /\
  map fst (slice_1d_slice 7 lengths idx) = [3; 2; 0].
Proof.
  cbv zeta. split; [exact valid_chunks_ex|]. split; [discriminate|].
  split; [apply normalized_b_iff; reflexivity | reflexivity].
Qed.

Example new_blockdim_lengths_ex :
  let lengths := [2; 0; 2; 3] in
  let idx := mkslice (Some 5) None (Some (-2)) in
  valid_chunks lengths 7 /\ normalized idx 7 /\ idx <> colon /\
  new_blockdim 7 lengths idx = [1; 1; 1] /\ slice_len idx 7 = 3.
Proof.
  cbv zeta. split; [exact valid_chunks_ex|]. split; [apply normalized_b_iff; reflexivity|].
  split; [discriminate|]. split; reflexivity.
Qed.

Print Assumptions normalize_slice_normalized.
Print Assumptions s1d_pos_positions.
Print Assumptions s1d_neg_positions.
Print Assumptions slice_1d_partition_pos.
Print Assumptions slice_1d_partition_neg.
Print Assumptions slice_1d_partition.
Print Assumptions slice_1d_pieces_in_block.
Print Assumptions new_blockdim_lengths.
Print Assumptions new_blockdim_sum.
