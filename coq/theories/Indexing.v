(* L2 — models of the basic-indexing pipeline behind Array.__getitem__:
     slicing/_utils.py   replace_ellipsis, check_index, posify_index, normalize_index
     _collection.py      Array.__getitem__  (basic indices)
     slicing/_basic.py   slice_array, slice_with_newaxes, slice_wrap_lists (no lists),
                         slice_slices_and_integers, SliceSlicesIntegers.chunks / ._layer
     manipulation/_expand.py  ExpandDims.chunks / ._layer (key mapping)
   Definitions only; each definition names the Python it transcribes.  The per-axis
   helpers (normalize_slice, posify_int, check_int, slice_1d_slice, slice_1d_int,
   new_blockdim) are the C13 models of Slicing.v.
   The second half of the file is SPECIFICATION side: what NumPy means by a basic index. *)
From DA Require Export PyBase Slicing.
Open Scope Z_scope.

(* One element of a basic index tuple as the user writes it. *)
Inductive ielem := EInt (i : Z) | ESlice (s : pslice) | ENone | EEllipsis.

Definition ielem_eqb (a b : ielem) : bool :=
  match a, b with
  | EInt x, EInt y => x =? y
  | ESlice s, ESlice t => pslice_eqb s t
  | ENone, ENone => true
  | EEllipsis, EEllipsis => true
  | _, _ => false
  end.

Definition is_none (e : ielem) : bool := match e with ENone => true | _ => false end.
Definition is_ellipsis (e : ielem) : bool := match e with EEllipsis => true | _ => false end.
Definition is_int (e : ielem) : bool := match e with EInt _ => true | _ => false end.
Definition not_none (e : ielem) : bool := negb (is_none e).

Definition countZ {A} (p : A -> bool) (l : list A) : Z := lenZ (filter p l).

(* ---------------------------------------------------------------------- *)
(* replace_ellipsis(n, index)   [slicing/_utils.py]
     isellipsis = [i for i, ind in enumerate(index) if ind is Ellipsis]
     if not isellipsis: return index
     loc = isellipsis[0]
     extra_dimensions = n - (len(index) - sum(i is None for i in index) - 1)
     return index[:loc] + (slice(None),) * extra_dimensions + index[loc + 1:]
   [split_first_ellipsis] = (index[:loc], index[loc+1:]) for the FIRST Ellipsis.
   A tuple times a non-positive int is (): Z.to_nat. *)
Fixpoint split_first_ellipsis (index : list ielem) : option (list ielem * list ielem) :=
  match index with
  | [] => None
  | EEllipsis :: t => Some ([], t)
  | e :: t => match split_first_ellipsis t with
              | Some (a, b) => Some (e :: a, b)
              | None => None
              end
  end.

Definition colons (k : Z) : list ielem := repeat (ESlice colon) (Z.to_nat k).

Definition replace_ellipsis (n : Z) (index : list ielem) : list ielem :=
  match split_first_ellipsis index with
  | None => index
  | Some (pre, post) =>
      let extra := n - (lenZ index - countZ is_none index - 1) in
      pre ++ colons extra ++ post
  end.

(* ---------------------------------------------------------------------- *)
(* normalize_index(idx, shape) for basic indices (ints, slices, None, Ellipsis).
   Outcome: the normalized tuple, or the exception class that escapes. *)
Inductive nres := NOk (idx : list ielem) | NIndexError | NTypeError | NValueError.

Definition nres_eqb (a b : nres) : bool :=
  match a, b with
  | NOk x, NOk y => list_eqb ielem_eqb x y
  | NIndexError, NIndexError => true
  | NTypeError, NTypeError => true
  | NValueError, NValueError => true
  | _, _ => false
  end.

(*   for axis, (i, d) in enumerate(zip(idx, none_shape)):
         if d is not None: check_index(axis, i, d)
     none_shape pairs every non-None entry with the next axis length.  check_index:
     int out of [-d, d) -> IndexError; slice -> ok; a leftover Ellipsis reaches
     `ind >= dimension` -> TypeError.  The first failing entry decides. *)
Fixpoint check_all (idx : list ielem) (shape : list Z) : option nres :=
  match idx with
  | [] => None
  | ENone :: t => check_all t shape
  | e :: t =>
      match shape with
      | [] => None          (* unreachable: excluded by the "Too many indices" test *)
      | d :: shape' =>
          match e with
          | EInt i => if check_int d i then check_all t shape' else Some NIndexError
          | ESlice _ => check_all t shape'
          | _ => Some NTypeError
          end
      end
  end.

(*   idx = tuple(map(sanitize_index, idx))            -- identity on int-valued entries
     idx = tuple(map(normalize_slice, idx, none_shape))  -- slice.indices raises ValueError on step 0
     idx = posify_index(none_shape, idx) *)
Fixpoint has_zero_step (idx : list ielem) : bool :=
  match idx with
  | [] => false
  | ESlice s :: t => (match s_step s with Some 0 => true | _ => false end) || has_zero_step t
  | _ :: t => has_zero_step t
  end.

Fixpoint norm_entries (idx : list ielem) (shape : list Z) : list ielem :=
  match idx with
  | [] => []
  | ENone :: t => ENone :: norm_entries t shape
  | e :: t =>
      match shape with
      | [] => e :: norm_entries t []                     (* unreachable *)
      | d :: shape' =>
          match e with
          | EInt i => EInt (posify_int d i) :: norm_entries t shape'
          | ESlice s => ESlice (normalize_slice s d) :: norm_entries t shape'
          | _ => e :: norm_entries t shape'              (* unreachable *)
          end
      end
  end.

(*   idx = replace_ellipsis(len(shape), idx)
     n_sliced_dims = number of entries that are not None   (no arrays here)
     idx = idx + (slice(None),) * (len(shape) - n_sliced_dims)
     if len([i for i in idx if i is not None]) > len(shape): raise IndexError *)
Definition pad_index (rank : Z) (idx : list ielem) : list ielem :=
  idx ++ colons (rank - countZ not_none idx).

Definition normalize_index (idx : list ielem) (shape : list Z) : nres :=
  let rank := lenZ shape in
  let idx1 := pad_index rank (replace_ellipsis rank idx) in
  if countZ not_none idx1 >? rank then NIndexError
  else match check_all idx1 shape with
       | Some err => err
       | None => if has_zero_step idx1 then NValueError else NOk (norm_entries idx1 shape)
       end.

(* ---------------------------------------------------------------------- *)
(* slice_with_newaxes(x, index)   [slicing/_basic.py]
     index2 = tuple(ind for ind in index if ind is not None)
     where_none = [i for i, ind in enumerate(index) if ind is None]
     for i, xx in enumerate(where_none):
         n = sum(isinstance(ind, Integral) for ind in index[:xx]);  where_none[i] -= n *)
Definition strip_nones (index : list ielem) : list ielem := filter not_none index.

Fixpoint where_none_from (pos nints : Z) (index : list ielem) : list Z :=
  match index with
  | [] => []
  | ENone :: t => (pos - nints) :: where_none_from (pos + 1) nints t
  | EInt _ :: t => where_none_from (pos + 1) (nints + 1) t
  | _ :: t => where_none_from (pos + 1) nints t
  end.
Definition where_none (index : list ielem) : list Z := where_none_from 0 0 index.

(* ---------------------------------------------------------------------- *)
(* SliceSlicesIntegers(array, index, allow_getitem_optimization)
   .chunks:
     new_blockdims = [new_blockdim(d, db, i) for d, i, db in zip(shape, index, chunks)
                      if not isinstance(i, Integral)] *)
Fixpoint ssi_chunks (shape : list Z) (chunks : list (list Z)) (index : list ielem) : list (list Z) :=
  match shape, chunks, index with
  | d :: shape', db :: chunks', i :: index' =>
      match i with
      | EInt _ => ssi_chunks shape' chunks' index'
      | ESlice s => new_blockdim d db s :: ssi_chunks shape' chunks' index'
      | _ => ssi_chunks shape' chunks' index'            (* unreachable: asserted away *)
      end
  | _, _, _ => []
  end.

(* ._layer:
     block_slices = list(map(_slice_1d, shape, chunks, index))
     sorted_block_slices = [sorted(i.items()) for i in block_slices]
     in_names  = product([name], *[pluck(0, s) for s in sorted_block_slices])
     out_names = product([name], *[range(len(d))[::-1] if i.step and i.step < 0 else range(len(d))
                                   for d, i in zip(block_slices, index) if not isinstance(i, Integral)])
     all_slices = product( *[pluck(1, s) for s in sorted_block_slices])
     {out: Task(getitem, in, slices) or Alias  for out, in, slices in zip(out_names, in_names, all_slices)} *)
Definition axis_plan (d : Z) (db : list Z) (i : ielem) : list (Z * ploc) :=
  match i with
  | EInt k => slice_1d_int db k
  | ESlice s => slice_1d_slice d db s
  | _ => []
  end.

Fixpoint block_slices (shape : list Z) (chunks : list (list Z)) (index : list ielem) : list (list (Z * ploc)) :=
  match shape, chunks, index with
  | d :: shape', db :: chunks', i :: index' => axis_plan d db i :: block_slices shape' chunks' index'
  | _, _, _ => []
  end.

(* itertools.product over the lists ls: last factor varies fastest *)
Fixpoint product {A} (ls : list (list A)) : list (list A) :=
  match ls with
  | [] => [[]]
  | l :: rest => flat_map (fun x => map (cons x) (product rest)) l
  end.

(* list(range(n)) *)
Definition iota (n : nat) : list Z := map Z.of_nat (seq 0 n).

Definition neg_step (s : pslice) : bool :=
  match s_step s with Some k => k <? 0 | None => false end.

Definition out_range (s : pslice) (d : list (Z * ploc)) : list Z :=
  if neg_step s then rev (iota (length d)) else iota (length d).

Fixpoint out_ranges (bs : list (list (Z * ploc))) (index : list ielem) : list (list Z) :=
  match bs, index with
  | d :: bs', i :: index' =>
      match i with
      | ESlice s => out_range s d :: out_ranges bs' index'
      | _ => out_ranges bs' index'
      end
  | _, _ => []
  end.

(* one graph entry: (output block index, (input block index, per-axis local index)) *)
Definition ssi_layer (shape : list Z) (chunks : list (list Z)) (index : list ielem)
  : list (list Z * (list Z * list ploc)) :=
  let bs := block_slices shape chunks index in
  let sorted := map sort_by_key bs in
  let in_names := product (map (map fst) sorted) in
  let out_names := product (out_ranges bs index) in
  let all_slices := product (map (map snd) sorted) in
  combine out_names (combine in_names all_slices).

(* an entry is emitted as Alias(out -> in) instead of a getitem task *)
Definition is_colon_loc (l : ploc) : bool := ploc_eqb l (LSlice colon).
Definition entry_is_alias (allow : bool) (sl : list ploc) : bool := allow && forallb is_colon_loc sl.

(* ---------------------------------------------------------------------- *)
(* ExpandDims(array, axes).chunks:  for ax in sorted(axes): chunks.insert(ax, (1,))
   ._layer:  out_block_id = list(block_id); for ax in axes: out_block_id.insert(ax, 0)
   list.insert(i, v) for 0 <= i (i >= len appends). *)
Definition py_insert {A} (l : list A) (i : Z) (v : A) : list A := firstnZ i l ++ v :: skipnZ i l.
Definition insert_axes {A} (axes : list Z) (l : list A) (v : A) : list A :=
  fold_left (fun acc ax => py_insert acc ax v) axes l.

(* ---------------------------------------------------------------------- *)
(* Array.__getitem__(index) for a basic index:
     index2 = normalize_index(index, self.shape)
     if all(isinstance(i, slice) and i == slice(None) for i in index2): return self
     slice_array -> slice_with_newaxes -> slice_wrap_lists -> slice_slices_and_integers
       = SliceSlicesIntegers(x, index2-without-None, allow_getitem_optimization = not where_none)
       wrapped in ExpandDims(., where_none) when where_none is non-empty. *)
Inductive gres :=
| GErr (e : nres)
| GSelf
| GNode (index : list ielem) (allow : bool) (axes : list Z).

Definition is_colon_elem (e : ielem) : bool :=
  match e with ESlice s => pslice_eqb s colon | _ => false end.

Definition getitem_basic (idx : list ielem) (shape : list Z) : gres :=
  match normalize_index idx shape with
  | NOk index2 =>
      if forallb is_colon_elem index2 then GSelf
      else let wn := where_none index2 in
           GNode (strip_nones index2) (match wn with [] => true | _ => false end) wn
  | e => GErr e
  end.

(* chunks of the collection x[idx] *)
Definition getitem_chunks (shape : list Z) (chunks : list (list Z)) (index : list ielem) (axes : list Z) : list (list Z) :=
  insert_axes axes (ssi_chunks shape chunks index) [1].

(* ====================================================================== *)
(* SPECIFICATION SIDE *)

(* NumPy's expansion of a basic index on an array of rank `rank`: the (single)
   Ellipsis stands for as many full slices as are needed to consume every axis;
   without an Ellipsis the missing trailing axes get full slices. *)
Definition consumed (idx : list ielem) : Z :=
  countZ (fun e => match e with EInt _ | ESlice _ => true | _ => false end) idx.

Fixpoint np_expand_at (fill : list ielem) (idx : list ielem) : list ielem :=
  match idx with
  | [] => []
  | EEllipsis :: t => fill ++ t
  | e :: t => e :: np_expand_at fill t
  end.

Definition np_expand (rank : Z) (idx : list ielem) : list ielem :=
  let fill := colons (rank - consumed idx) in
  if existsb is_ellipsis idx then np_expand_at fill idx else idx ++ fill.

(* What NumPy does with each entry of an Ellipsis-free basic index, in order:
   an integer picks one position of the next axis and drops the axis, a slice keeps
   the axis and selects positions [sel s n], None adds an axis of length 1. *)
Inductive axis_act := ADrop (p : Z) | AKeep (ps : list Z) | ANew.

Definition np_int_pos (n i : Z) : Z := if i <? 0 then i + n else i.

Fixpoint np_meaning (idx : list ielem) (shape : list Z) : list axis_act :=
  match idx with
  | [] => []
  | ENone :: t => ANew :: np_meaning t shape
  | EInt i :: t => match shape with n :: sh => ADrop (np_int_pos n i) :: np_meaning t sh | [] => [] end
  | ESlice s :: t => match shape with n :: sh => AKeep (sel s n) :: np_meaning t sh | [] => [] end
  | EEllipsis :: t => []
  end.

(* the (expanded, Ellipsis-free) index is one NumPy accepts on this shape: an axis for
   every consuming entry, integers inside [-n, n), non-zero steps *)
Fixpoint np_valid (idx : list ielem) (shape : list Z) : Prop :=
  match idx with
  | [] => True
  | ENone :: t => np_valid t shape
  | EInt i :: t => match shape with n :: sh => - n <= i < n /\ np_valid t sh | [] => False end
  | ESlice s :: t => match shape with n :: sh => step_of s <> 0 /\ np_valid t sh | [] => False end
  | EEllipsis :: t => False
  end.

(* shape of the result *)
Fixpoint out_shape (m : list axis_act) : list Z :=
  match m with
  | [] => []
  | ADrop _ :: t => out_shape t
  | AKeep ps :: t => lenZ ps :: out_shape t
  | ANew :: t => 1 :: out_shape t
  end.

(* [kept_view vals v idx]: walk the index; every slice entry takes the next of
   `vals` (one value per axis the slicing node keeps), every None contributes v,
   integers contribute nothing.  This is the per-axis layout of the final result. *)
Fixpoint kept_view {A} (vals : list A) (v : A) (idx : list ielem) : list A :=
  match idx with
  | [] => []
  | ENone :: t => v :: kept_view vals v t
  | EInt _ :: t => kept_view vals v t
  | _ :: t => match vals with x :: vals' => x :: kept_view vals' v t | [] => [] end
  end.

(* the j-th segment of `positions` when cut into consecutive runs of lengths `lens` *)
Definition segment {A} (positions : list A) (lens : list Z) (j : Z) : list A :=
  firstnZ (nthZ lens j) (skipnZ (zsum (firstnZ j lens)) positions).
