(* L1 — models of the transfer-estimate arithmetic (`transfer_bytes`):
   _rechunk.py:_rechunk_stage_transfer / Rechunk.transfer_bytes / P2PRechunk.transfer_bytes,
   slicing/_basic.py:SliceSlicesIntegers.transfer_bytes,
   reductions/_reduction.py:PartialReduce.transfer_bytes,
   _blockwise.py:Blockwise.transfer_bytes, _expr.py:ArrayExpr.transfer_bytes (default),
   and the alias nodes (ChunksOverride / ChunksFreeze / RootAlias / Concatenate).
   Definitions only.  Every chunk size is a known integer here (the NaN early
   returns of the Python code are outside the model); every float the Python
   code computes from them in the modelled functions is an integer-valued
   double (exact while < 2^53) except the two quotients 1/gather and
   out_blocks/dep_blocks, which the model keeps as exact rationals. *)
From DA Require Export PyBase Slicing.
Open Scope Z_scope.

(* ====================================================================== *)
(* _rechunk_stage_transfer(old_chunks, new_chunks, itemsize), one axis.

   The two-pointer loop.  The old layout is kept as (current block [o] = old[j],
   remaining blocks [rest] = old[j+1:]), so `j + 1 < len(old)` is `rest <> []`.
   n_intersections[j] is only ever used in  r_ax = sum(c * n for c, n in zip(old,
   n_intersections)); the model adds old[j] to r at the point of
   `n_intersections[j] += 1`, which is the same sum. *)

(* the body of `if overlap > 0:` for the current old block *)
Definition st_visit (o os ns ne best nsrc u r : Z) : Z * Z * Z * Z :=
  let overlap := Z.min (os + o) ne - Z.max os ns in
  if 0 <? overlap
  then (Z.max best overlap, nsrc + 1, (if overlap =? o then u + o else u), r + o)
  else (best, nsrc, u, r).

(* `while True:` — returns (old[j], old[j+1:], old_start, best, n_sources, u_ax, r_ax) *)
Fixpoint st_inner (rest : list Z) (o os ns ne best nsrc u r : Z) {struct rest}
  : Z * list Z * Z * Z * Z * Z * Z :=
  let '(best', nsrc', u', r') := st_visit o os ns ne best nsrc u r in
  match rest with
  | o1 :: rest1 =>
      if os + o <=? ne                      (* old_end <= new_end and j + 1 < len(old) *)
      then st_inner rest1 o1 (os + o) ns ne best' nsrc' u' r'
      else (o, rest, os, best', nsrc', u', r')
  | [] => (o, rest, os, best', nsrc', u', r')
  end.

(* `for c_new in new:` — returns (l_ax, u_ax, s_ax, r_ax) *)
Fixpoint st_outer (new : list Z) (o : Z) (rest : list Z) (os ns l u s r : Z) : Z * Z * Z * Z :=
  match new with
  | [] => (l, u, s, r)
  | c :: new' =>
      let ne := ns + c in
      let '(o', rest', os', best, nsrc, u', r') := st_inner rest o os ns ne 0 0 u r in
      st_outer new' o' rest' os' ne (l + best) u' (if nsrc <=? 1 then s + c else s) r'
  end.

(* one iteration of `for old, new in zip(old_chunks, new_chunks)`:
   Some (t_ax, l_ax, r_ax, u_ax, s_ax); None = IndexError (old[0] on an empty tuple) *)
Definition stage_axis (old new : list Z) : option (Z * Z * Z * Z * Z) :=
  match old with
  | [] => match new with [] => Some (0, 0, 0, 0, 0) | _ :: _ => None end
  | o :: rest =>
      let '(l, u, s, r) := st_outer new o rest 0 0 0 0 0 0 in
      Some (zsum old, l, r, u, s)
  end.

(* the running products total, largest, reads, uncut, single *)
Fixpoint stage_prods (olds news : list (list Z)) (pT pL pR pU pS : Z) : option (Z * Z * Z * Z * Z) :=
  match olds, news with
  | old :: olds', new :: news' =>
      match stage_axis old new with
      | None => None
      | Some (t, l, r, u, s) => stage_prods olds' news' (pT * t) (pL * l) (pR * r) (pU * u) (pS * s)
      end
  | _, _ => Some (pT, pL, pR, pU, pS)
  end.

Definition rechunk_stage_transfer (olds news : list (list Z)) (itemsize : Z) : option (Z * Z) :=
  match stage_prods olds news 1 1 1 1 1 with
  | None => None
  | Some (pT, pL, pR, pU, pS) => Some (itemsize * (pT - pL), itemsize * (pR - pU + pT - pS))
  end.

(* Rechunk.transfer_bytes: the sum over the stages `steps` that plan_rechunk emits.
   The plan is an ORACLE ARGUMENT here (plan_rechunk is modelled in Rechunk.v and
   is property C15's subject); theorems quantify over every list of layouts. *)
Fixpoint rechunk_transfer (prev : list (list Z)) (steps : list (list (list Z))) (itemsize lo hi : Z)
  : option (Z * Z) :=
  match steps with
  | [] => Some (lo, hi)
  | chunks :: steps' =>
      match rechunk_stage_transfer prev chunks itemsize with
      | None => None
      | Some (slo, shi) => rechunk_transfer chunks steps' itemsize (lo + slo) (hi + shi)
      end
  end.

Fixpoint zprod (l : list Z) : Z := match l with [] => 1 | x :: t => x * zprod t end.

(* P2PRechunk.transfer_bytes: (lo of the single stage, array.nbytes) *)
Definition p2p_transfer (olds news : list (list Z)) (itemsize : Z) : option (Z * Z) :=
  match rechunk_stage_transfer olds news itemsize with
  | None => None
  | Some (lo, _) => Some (lo, zprod (map zsum olds) * itemsize)
  end.

(* ====================================================================== *)
(* SliceSlicesIntegers.transfer_bytes *)

(* _slice_1d(shape, chunks, idx) for one element of the (padded) index *)
Definition slice_axis_plan (dim : Z) (lengths : list Z) (idx : pidx) : list (Z * ploc) :=
  match idx with
  | IInt i => slice_1d_int lengths i
  | ISlice s => slice_1d_slice dim lengths s
  | INone => []
  end.

(* reads_ax = sum(chunks[bnum] for bnum in block_slices) *)
Definition reads_ax (lengths : list Z) (plan : list (Z * ploc)) : Z :=
  zsum (map (fun e => nthZ lengths (fst e)) plan).

(* alias_ax = sum(chunks[bnum] for bnum, sl in block_slices.items() if sl == slice(None)) *)
Definition alias_ax (lengths : list Z) (plan : list (Z * ploc)) : Z :=
  zsum (map (fun e => if ploc_eqb (snd e) (LSlice colon) then nthZ lengths (fst e) else 0) plan).

Fixpoint slice_prods (shape : list Z) (chunks : list (list Z)) (index : list pidx) (reads aliased : Z)
  : Z * Z :=
  match shape, chunks, index with
  | d :: shape', c :: chunks', i :: index' =>
      let plan := slice_axis_plan d c i in
      slice_prods shape' chunks' index' (reads * reads_ax c plan) (aliased * alias_ax c plan)
  | _, _, _ => (reads, aliased)
  end.

Definition slice_transfer (shape : list Z) (chunks : list (list Z)) (index : list pidx)
           (allow_getitem_optimization : bool) (itemsize : Z) : Z * Z :=
  let index := index ++ repeat (ISlice colon) (length shape - length index) in
  let '(reads, aliased) := slice_prods shape chunks index 1 1 in
  let aliased := if allow_getitem_optimization then aliased else 0 in
  (0, itemsize * (reads - aliased)).

(* ====================================================================== *)
(* PartialReduce.transfer_bytes *)

(* max(group) of a non-empty tuple *)
Definition zmax_ne (g : list Z) : Z :=
  match g with [] => 0 | x :: t => fold_right Z.max x t end.

(* sum(max(group) for group in partition_all(k, chunks)), k >= 1; fuel = len(chunks) *)
Fixpoint group_max_sum (fuel : nat) (k : nat) (l : list Z) : Z :=
  match fuel with
  | O => 0
  | S f =>
      match l with
      | [] => 0
      | _ :: _ => zmax_ne (firstn k l) + group_max_sum f k (skipn k l)
      end
  end.

(* one factor of `largest`: split = Some k if i in self.split_every *)
Definition pr_axis (split : option Z) (chunks : list Z) : option Z :=
  match split with
  | None => Some (zsum chunks)
  | Some k => if k <? 1 then None      (* outside the callers' domain (split_every >= 1) *)
              else Some (group_max_sum (length chunks) (Z.to_nat k) chunks)
  end.

Fixpoint pr_largest (splits : list (option Z)) (chunks : list (list Z)) (acc : Z) : option Z :=
  match splits, chunks with
  | sp :: splits', c :: chunks' =>
      match pr_axis sp c with
      | None => None
      | Some f => pr_largest splits' chunks' (acc * f)
      end
  | _, _ => Some acc
  end.

(* splits has one entry per axis of x *)
Definition partial_reduce_transfer (splits : list (option Z)) (chunks : list (list Z)) (itemsize : Z)
  : option (Z * Z) :=
  match pr_largest splits chunks 1 with
  | None => None
  | Some largest =>
      let nbytes := zprod (map zsum chunks) * itemsize in
      Some (nbytes - itemsize * largest, nbytes)
  end.

(* ====================================================================== *)
(* Blockwise.transfer_bytes — exact rationals (num, den), den > 0 *)

Definition qadd (a b : Z * Z) : Z * Z := (fst a * snd b + fst b * snd a, snd a * snd b).

Fixpoint assoc_get (k : Z) (l : list (Z * Z)) : option Z :=
  match l with
  | [] => None
  | (k', v) :: t => if k =? k' then Some v else assoc_get k t
  end.

(* dict(zip(ind, numblocks)): a later duplicate key overwrites an earlier one *)
Fixpoint zipdict (ks vs : list Z) : list (Z * Z) :=
  match ks, vs with
  | k :: ks', v :: vs' =>
      let d := zipdict ks' vs' in
      match assoc_get k d with Some _ => d | None => (k, v) :: d end
  | _, _ => []
  end.

(* fanout: product of n over out indices with n > 1 whose arg block count (default 1) is 1 *)
Definition bw_fanout (out : list (Z * Z)) (arg : list (Z * Z)) : Z :=
  fold_left (fun acc e => let '(i, n) := e in
             if (1 <? n) && (match assoc_get i arg with Some m => m | None => 1 end =? 1)
             then acc * n else acc) out 1.

(* gather: product of the arg's block counts over indices absent from the output
   (over zip(ind, arg.numblocks): duplicates count every time) *)
Fixpoint bw_gather (out : list (Z * Z)) (ind nb : list Z) : Z :=
  match ind, nb with
  | i :: ind', n :: nb' =>
      match assoc_get i out with
      | Some _ => bw_gather out ind' nb'
      | None => n * bw_gather out ind' nb'
      end
  | _, _ => 1
  end.

(* one (arg, ind) pair: (name, ind, numblocks, nbytes).  Returns (lo, hi), lo rational *)
Definition bw_arg (out : list (Z * Z)) (ind nb : list Z) (nbytes : Z) : (Z * Z) * Z :=
  let fanout := bw_fanout out (zipdict ind nb) in
  let gather := bw_gather out ind nb in
  ((nbytes * (fanout * gather - 1), gather), nbytes * fanout).

Definition bw_key_eqb (a b : Z * list Z) : bool := (fst a =? fst b) && zlist_eqb (snd a) (snd b).

(* the loop over toolz.partition(2, self.args) with the `seen` set *)
Fixpoint bw_loop (out : list (Z * Z)) (args : list (Z * list Z * list Z * Z)) (seen : list (Z * list Z))
         (lo : Z * Z) (hi : Z) : (Z * Z) * Z :=
  match args with
  | [] => (lo, hi)
  | (name, ind, nb, nbytes) :: args' =>
      if existsb (bw_key_eqb (name, ind)) seen then bw_loop out args' seen lo hi
      else
        let '(alo, ahi) := bw_arg out ind nb nbytes in
        bw_loop out args' ((name, ind) :: seen) (qadd lo alo) (hi + ahi)
  end.

Definition blockwise_transfer (out_ind out_nb : list Z) (args : list (Z * list Z * list Z * Z))
  : (Z * Z) * Z :=
  bw_loop (zipdict out_ind out_nb) args [] (0, 1) 0.

(* ====================================================================== *)
(* ArrayExpr.transfer_bytes (the default) — exact rationals.
   deps: (name, number of blocks of the dep, nbytes of the dep) *)
Definition dflt_dep (out_blocks dep_blocks nbytes : Z) : (Z * Z) * (Z * Z) :=
  let d := Z.max 1 dep_blocks in
  if d <=? out_blocks                                    (* ratio >= 1 *)
  then ((nbytes * (out_blocks - d), d), (nbytes * out_blocks, d))
  else ((nbytes * (d - out_blocks), d), (nbytes, 1)).

Fixpoint dflt_loop (out_blocks : Z) (deps : list (Z * Z * Z)) (seen : list Z) (lo hi : Z * Z)
  : (Z * Z) * (Z * Z) :=
  match deps with
  | [] => (lo, hi)
  | (name, dep_blocks, nbytes) :: deps' =>
      if existsb (Z.eqb name) seen then dflt_loop out_blocks deps' seen lo hi
      else
        let '(dlo, dhi) := dflt_dep out_blocks dep_blocks nbytes in
        dflt_loop out_blocks deps' (name :: seen) (qadd lo dlo) (qadd hi dhi)
  end.

Definition default_transfer (out_blocks : Z) (deps : list (Z * Z * Z)) : (Z * Z) * (Z * Z) :=
  dflt_loop out_blocks deps [] (0, 1) (0, 1).

(* ====================================================================== *)
(* ChunksOverride / ChunksFreeze / RootAlias / Concatenate .transfer_bytes *)
Definition alias_transfer : Z * Z := (0, 0).

(* ====================================================================== *)
(* specification side *)
Definition wellformed (p : Z * Z) : Prop := 0 <= fst p /\ fst p <= snd p.
(* a/b <= c/d for positive denominators *)
Definition qle (a b : Z * Z) : Prop := fst a * snd b <= fst b * snd a.
Definition qwellformed (lo hi : Z * Z) : Prop :=
  0 < snd lo /\ 0 < snd hi /\ 0 <= fst lo /\ qle lo hi.
