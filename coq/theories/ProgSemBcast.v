(* Facts about the reference semantics (ProgSem.v), part 4: slicing distributes over element-wise
   operations WITH broadcasting: each operand is sliced by the entries of the index that fall on its own
   axes, with a full slice where the operand is stretched (size 1 against a larger result axis). *)
From DA Require Import PyBase PyBaseFacts Slicing NormalizeFacts FuseFacts NdArray NdArrayFacts ProgSem ProgSemFacts ProgSemLaws.
From Coq Require Import ZifyBool.
Open Scope Z_scope.
Ltac Zify.zify_post_hook ::= Z.to_euclidean_division_equations.

(* ---------------------------------------------------------------------- *)
(* n-ary node over operands each wrapped in a unary operation chosen from the operand's shape *)

Lemma oshape_eval p a : eval p = Some a -> oshape p = nshape a.
Proof. intros H. unfold oshape. rewrite (eval_some_pshape p a H). reflexivity. Qed.

Lemma sequence_map_un_dep (oo : list Z -> unop) : (forall s, not_rechunk (oo s) = true) ->
  forall ps l, sequence (map eval ps) = Some l ->
  sequence (map eval (map (fun p => PUn (oo (oshape p)) p) ps)) =
  if forallb (fun a => un_ok (oo (nshape a)) (nshape a)) l
  then Some (map (fun a => to_nd (un_arr (oo (nshape a)) (of_nd a))) l) else None.
Proof.
  intros No. induction ps as [|p ps IH]; intros l H; cbn [map sequence] in H.
  - injection H as <-. reflexivity.
  - destruct (eval p) as [a|] eqn:Ea; [|discriminate].
    destruct (sequence (map eval ps)) as [t|] eqn:Et; [|discriminate]. injection H as <-.
    cbn [map sequence eval forallb]. rewrite Ea. rewrite (IH t eq_refl). rewrite (oshape_eval p a Ea).
    unfold un_eval. destruct (un_ok (oo (nshape a)) (nshape a)) eqn:Ok; cbn [andb]; [|reflexivity].
    destruct (forallb (fun a0 => un_ok (oo (nshape a0)) (nshape a0)) t); [|reflexivity].
    specialize (No (nshape a)). destruct (oo (nshape a)); try reflexivity; discriminate.
Qed.

Lemma eval_n_un_dep_intro (oo : list Z -> unop) no ps l :
  (forall s, not_rechunk (oo s) = true) -> n_congr no ->
  sequence (map eval ps) = Some l -> Forall wf l ->
  forallb (fun a => un_ok (oo (nshape a)) (nshape a)) l = true ->
  n_ok no (map (fun a => un_shape (oo (nshape a)) (nshape a)) l) = true ->
  eval (PN no (map (fun p => PUn (oo (oshape p)) p) ps)) =
  Some (to_nd (n_arr no (map (fun a => un_arr (oo (nshape a)) (of_nd a)) l))).
Proof.
  intros No Hc El Hwf Hoks Hnok. cbn [eval]. rewrite (sequence_map_un_dep oo No ps l El), Hoks.
  unfold n_eval. rewrite !map_map. cbn [nshape to_nd].
  assert (map (fun x => shape (un_arr (oo (nshape x)) (of_nd x))) l = map (fun a => un_shape (oo (nshape a)) (nshape a)) l) as Hsh
    by (apply map_ext; intros a; apply un_arr_shape).
  rewrite Hsh, Hnok. f_equal. apply to_nd_ext.
  rewrite <- (map_map (fun a => to_nd (un_arr (oo (nshape a)) (of_nd a))) of_nd).
  rewrite (map_map (fun a => to_nd (un_arr (oo (nshape a)) (of_nd a))) of_nd).
  apply Hc.
  - apply Forall_forall. intros x Hx. apply in_map_iff in Hx. destruct Hx as (a & <- & Ha).
    cbn [of_nd shape nshape to_nd]. rewrite un_arr_shape. apply un_shape_nonneg.
    + rewrite forallb_forall in Hoks. apply Hoks. exact Ha.
    + rewrite Forall_forall in Hwf. apply (Hwf a Ha).
  - rewrite map_map. cbn [of_nd shape nshape to_nd]. rewrite Hsh. exact Hnok.
  - apply Forall2_map_same. intros a _. apply of_to_nd.
Qed.

(* ---------------------------------------------------------------------- *)
(* broadcasting on reversed shapes (last axis first), position by position with default 1 *)
Definition rall (rs : list (list Z)) : list Z := fold_right rbshape [] rs.

Lemma rev_bshape_all ss : rev (bshape_all ss) = rall (map (@rev Z) ss).
Proof.
  induction ss as [|s ss IH]; [reflexivity|].
  cbn [bshape_all fold_right map rall]. fold (bshape_all ss). fold (rall (map (@rev Z) ss)).
  unfold bshape. rewrite rev_involutive, IH. reflexivity.
Qed.

Lemma rbshape_nth a : forall b k, nth k (rbshape a b) 1 = bdim (nth k a 1) (nth k b 1).
Proof.
  unfold bdim. induction a as [|x a IH]; intros b k.
  - cbn [rbshape]. destruct k; reflexivity.
  - destruct b as [|y b]; cbn [rbshape].
    + destruct (nth k (x :: a) 1 =? 1) eqn:E; [|destruct k; reflexivity]. destruct k; cbn [nth] in *; lia.
    + destruct k as [|k]; cbn [nth]; [reflexivity | apply IH].
Qed.

Lemma rbshape_length a : forall b, length (rbshape a b) = Nat.max (length a) (length b).
Proof.
  induction a as [|x a IH]; intros [|y b]; cbn [rbshape length]; try reflexivity. rewrite IH. reflexivity.
Qed.

(* the first entry that is not 1 *)
Fixpoint fn1 (l : list Z) : Z := match l with [] => 1 | x :: t => bdim x (fn1 t) end.

Lemma rall_nth rs k : nth k (rall rs) 1 = fn1 (map (fun r => nth k r 1) rs).
Proof.
  induction rs as [|r rs IH]; cbn [rall fold_right map fn1]; [destruct k; reflexivity|].
  fold (rall rs). rewrite rbshape_nth, IH. reflexivity.
Qed.

Definition maxlen (rs : list (list Z)) : nat := fold_right (fun r m => Nat.max (length r) m) O rs.

Lemma rall_length rs : length (rall rs) = maxlen rs.
Proof.
  induction rs as [|r rs IH]; cbn [rall fold_right maxlen]; [reflexivity|].
  fold (rall rs). fold (maxlen rs). rewrite rbshape_length, IH. reflexivity.
Qed.

Lemma fn1_unique v l : (forall x, In x l -> x = 1 \/ x = v) -> (v = 1 \/ In v l) -> fn1 l = v.
Proof.
  induction l as [|x l IH]; intros Hall Hv; cbn [fn1].
  - destruct Hv as [->|[]]. reflexivity.
  - unfold bdim. destruct (x =? 1) eqn:E.
    + apply IH; [intros y Hy; apply Hall; right; exact Hy|].
      destruct Hv as [Hv|[Hv|Hv]]; [left; exact Hv | left; lia | right; exact Hv].
    + destruct (Hall x (or_introl eq_refl)) as [Hx|Hx]; [lia | exact Hx].
Qed.

Lemma fn1_cases l : fn1 l = 1 /\ (forall x, In x l -> x = 1) \/ fn1 l <> 1 /\ In (fn1 l) l.
Proof.
  induction l as [|x l IH]; cbn [fn1]; [left; split; [reflexivity | intros x []]|].
  unfold bdim. destruct (x =? 1) eqn:E.
  - destruct IH as [[H1 H2]|[H1 H2]].
    + left. split; [exact H1|]. intros y [<-|Hy]; [lia | apply H2; exact Hy].
    + right. split; [exact H1 | right; exact H2].
  - right. split; [lia | left; reflexivity].
Qed.

Lemma rbcast_nth ra : forall ro, rbcast_intob ra ro = true <->
  (length ra <= length ro)%nat /\ forall k, (k < length ra)%nat -> nth k ra 1 = 1 \/ nth k ra 1 = nth k ro 1.
Proof.
  induction ra as [|n ra IH]; intros ro.
  - cbn [rbcast_intob length]. split; [intros _; split; [lia | intros k Hk; lia] | reflexivity].
  - destruct ro as [|m ro]; cbn [rbcast_intob length]; [split; [discriminate | intros [H _]; lia]|].
    rewrite andb_true_iff, IH. split.
    + intros [H1 [H2 H3]]. split; [lia|]. intros [|k] Hk; cbn [nth]; [lia | apply H3; lia].
    + intros [H1 H2]. split; [specialize (H2 O ltac:(lia)); cbn [nth] in H2; lia|].
      split; [lia|]. intros k Hk. apply (H2 (S k)). lia.
Qed.

(* slicing on reversed shapes *)
Fixpoint rslice (rsl : list pslice) (ro : list Z) : list Z :=
  match rsl, ro with
  | a :: rsl', n :: ro' => slice_len a n :: rslice rsl' ro'
  | _, _ => []
  end.

Lemma rslice_length rsl : forall ro, length (rslice rsl ro) = Nat.min (length rsl) (length ro).
Proof. induction rsl as [|a rsl IH]; intros [|n ro]; cbn [rslice length]; try reflexivity. rewrite IH. reflexivity. Qed.

Lemma rslice_nth rsl : forall ro k d, (k < length rsl)%nat -> (k < length ro)%nat ->
  nth k (rslice rsl ro) d = slice_len (nth k rsl colon) (nth k ro 1).
Proof.
  induction rsl as [|a rsl IH]; intros [|n ro] k d H1 H2; cbn [length] in *; try lia.
  cbn [rslice]. destruct k as [|k]; cbn [nth]; [reflexivity | apply IH; lia].
Qed.

Lemma rslice_app a : forall b a' b', length a = length b ->
  rslice (a ++ a') (b ++ b') = rslice a b ++ rslice a' b'.
Proof.
  induction a as [|x a IH]; intros [|y b] a' b' H; cbn [length] in H; try discriminate; [reflexivity|].
  cbn [app rslice]. rewrite IH by lia. reflexivity.
Qed.

Lemma rev_slice_shape sl : forall s, length sl = length s ->
  rev (slice_shape (map ISlice sl) s) = rslice (rev sl) (rev s).
Proof.
  induction sl as [|a sl IH]; intros [|n s] H; cbn [length] in H; try discriminate; [reflexivity|].
  cbn [map slice_shape hd tl rev]. rewrite IH by lia.
  rewrite rslice_app by (rewrite !rev_length; lia). reflexivity.
Qed.

(* map3 *)
Lemma map3_length {A B C D} (f : A -> B -> C -> D) a : forall b c,
  length (map3 f a b c) = Nat.min (length a) (Nat.min (length b) (length c)).
Proof.
  induction a as [|x a IH]; intros [|y b] [|z c]; cbn [map3 length]; try reflexivity; try (rewrite Nat.min_0_r; reflexivity).
  rewrite IH. reflexivity.
Qed.

Lemma map3_nth {A B C D} (f : A -> B -> C -> D) da db dc dd a : forall b c k,
  (k < length a)%nat -> (k < length b)%nat -> (k < length c)%nat ->
  nth k (map3 f a b c) dd = f (nth k a da) (nth k b db) (nth k c dc).
Proof.
  induction a as [|x a IH]; intros [|y b] [|z c] k H1 H2 H3; cbn [length] in *; try lia.
  cbn [map3]. destruct k as [|k]; cbn [nth]; [reflexivity | apply IH; lia].
Qed.

Lemma map3_app {A B C D} (f : A -> B -> C -> D) a : forall b c a' b' c',
  length a = length b -> length b = length c ->
  map3 f (a ++ a') (b ++ b') (c ++ c') = map3 f a b c ++ map3 f a' b' c'.
Proof.
  induction a as [|x a IH]; intros [|y b] [|z c] a' b' c' H1 H2; cbn [length] in *; try discriminate; [reflexivity|].
  cbn [app map3]. rewrite IH by lia. reflexivity.
Qed.

Lemma rev_map3 {A B C D} (f : A -> B -> C -> D) a : forall b c,
  length a = length b -> length b = length c -> rev (map3 f a b c) = map3 f (rev a) (rev b) (rev c).
Proof.
  induction a as [|x a IH]; intros [|y b] [|z c] H1 H2; cbn [length] in *; try discriminate; [reflexivity|].
  cbn [map3 rev]. rewrite IH by lia. rewrite map3_app by (rewrite !rev_length; lia). reflexivity.
Qed.

Lemma map3_firstn {A B C D} (f : A -> B -> C -> D) b : forall a c,
  map3 f (firstn (length b) a) b (firstn (length b) c) = map3 f a b c.
Proof.
  induction b as [|y b IH]; intros a c; cbn [length firstn].
  - destruct a; [reflexivity|]. destruct c; reflexivity.
  - destruct a as [|x a]; [reflexivity|]. destruct c as [|z c]; cbn [map3]; [reflexivity|]. rewrite IH. reflexivity.
Qed.

Lemma rev_lastn {A} m (l : list A) : (m <= length l)%nat -> rev (lastn m l) = firstn m (rev l).
Proof.
  intros H. unfold lastn. rewrite firstn_rev. reflexivity.
Qed.


Lemma rev_bc_index sl sa o : length sl = length o -> (length sa <= length o)%nat ->
  rev (map3 bc_pick (lastn (length sa) sl) sa (lastn (length sa) o)) = map3 bc_pick (rev sl) (rev sa) (rev o).
Proof.
  intros H1 H2.
  assert (length (lastn (length sa) sl) = length sa) as L1 by (unfold lastn; rewrite skipn_length; lia).
  assert (length (lastn (length sa) o) = length sa) as L2 by (unfold lastn; rewrite skipn_length; lia).
  rewrite rev_map3 by lia. rewrite !rev_lastn by lia.
  rewrite <- (rev_length sa). apply map3_firstn.
Qed.

(* ---------------------------------------------------------------------- *)
(* the sliced operands broadcast to the sliced result shape (reversed coordinates) *)
Definition rg (rsl : list pslice) (ro ra : list Z) : list Z := rslice (map3 bc_pick rsl ra ro) ra.

Lemma rg_length rsl ro ra : (length ra <= length ro)%nat -> length rsl = length ro -> length (rg rsl ro ra) = length ra.
Proof. intros H1 H2. unfold rg. rewrite rslice_length, map3_length. lia. Qed.

Lemma rg_nth rsl ro ra k : (length ra <= length ro)%nat -> length rsl = length ro -> (k < length ra)%nat ->
  nth k (rg rsl ro ra) 1 = slice_len (bc_pick (nth k rsl colon) (nth k ra 1) (nth k ro 1)) (nth k ra 1).
Proof.
  intros H1 H2 Hk. unfold rg. rewrite rslice_nth by (rewrite ?map3_length; lia).
  rewrite (map3_nth bc_pick colon 1 1 colon) by lia. reflexivity.
Qed.

Lemma rg_value rsl ro ra k :
  (length ra <= length ro)%nat -> length rsl = length ro -> (k < length ra)%nat ->
  (nth k ra 1 = 1 \/ nth k ra 1 = nth k ro 1) ->
  (nth k ra 1 = nth k ro 1 /\ nth k (rg rsl ro ra) 1 = slice_len (nth k rsl colon) (nth k ro 1)) \/
  (nth k ra 1 <> nth k ro 1 /\ nth k (rg rsl ro ra) 1 = 1).
Proof.
  intros H1 H2 Hk Hc. rewrite rg_nth by assumption. unfold bc_pick.
  destruct (nth k ra 1 =? nth k ro 1) eqn:E.
  - left. apply Z.eqb_eq in E. rewrite E. split; reflexivity.
  - right. split; [lia|]. destruct Hc as [Hc|Hc]; [|lia]. rewrite Hc. apply slice_len_colon. lia.
Qed.

Lemma maxlen_witness rs k : (k < maxlen rs)%nat -> exists r, In r rs /\ (k < length r)%nat.
Proof.
  induction rs as [|r rs IH]; cbn [maxlen fold_right]; [lia|]. fold (maxlen rs). intros H.
  destruct (Nat.lt_ge_cases k (length r)) as [Hk|Hk].
  - exists r. split; [left; reflexivity | exact Hk].
  - destruct IH as (t & Ht & Hkt); [lia|]. exists t. split; [right; exact Ht | exact Hkt].
Qed.

Lemma maxlen_map_same (g : list Z -> list Z) rs : (forall r, In r rs -> length (g r) = length r) -> maxlen (map g rs) = maxlen rs.
Proof.
  induction rs as [|r rs IH]; intros H; [reflexivity|]. cbn [map maxlen fold_right]. fold (maxlen rs). fold (maxlen (map g rs)).
  rewrite IH by (intros t Ht; apply H; right; exact Ht). rewrite (H r) by (left; reflexivity). reflexivity.
Qed.

Lemma maxlen_ge rs r : In r rs -> (length r <= maxlen rs)%nat.
Proof.
  induction rs as [|t rs IH]; intros H; [destruct H|]. cbn [maxlen fold_right]. fold (maxlen rs).
  destruct H as [->|H]; [lia | specialize (IH H); lia].
Qed.

Lemma list_eq_nth1 (l l' : list Z) :
  length l = length l' -> (forall k, (k < length l)%nat -> nth k l 1 = nth k l' 1) -> l = l'.
Proof. intros H1 H2. apply (nth_ext l l' 1 1); assumption. Qed.

Lemma rall_sliced rsl rs :
  let ro := rall rs in
  length rsl = length ro -> Forall (fun ra => rbcast_intob ra ro = true) rs ->
  rall (map (rg rsl ro) rs) = rslice rsl ro.
Proof.
  intros ro Hl Hb. rewrite Forall_forall in Hb.
  assert (Hlen : forall ra, In ra rs -> (length ra <= length ro)%nat) by (intros ra Hra; apply (rbcast_nth ra ro); apply Hb; exact Hra).
  assert (Hrolen : length ro = maxlen rs) by (unfold ro; apply rall_length).
  apply list_eq_nth1.
  - rewrite rall_length, rslice_length, maxlen_map_same by (intros r Hr; apply rg_length; [apply Hlen; exact Hr | exact Hl]).
    lia.
  - intros k Hk. rewrite rall_length, maxlen_map_same in Hk by (intros r Hr; apply rg_length; [apply Hlen; exact Hr | exact Hl]).
    assert (k < length ro)%nat as Hko by lia.
    rewrite rall_nth, map_map. rewrite rslice_nth by lia.
    apply fn1_unique.
    + intros x Hx. apply in_map_iff in Hx. destruct Hx as (ra & <- & Hra).
      destruct (Nat.lt_ge_cases k (length ra)) as [Hkr|Hkr].
      * destruct (proj1 (rbcast_nth ra ro) (Hb ra Hra)) as [_ Hc].
        destruct (rg_value rsl ro ra k (Hlen ra Hra) Hl Hkr (Hc k Hkr)) as [[_ H]|[_ H]]; [right | left]; exact H.
      * left. apply nth_overflow. rewrite rg_length by (try apply Hlen; assumption). exact Hkr.
    + pose proof (rall_nth rs k) as Hro. fold ro in Hro.
      destruct (fn1_cases (map (fun r => nth k r 1) rs)) as [[H1 Hall]|[H1 Hin]].
      * (* the result axis is 1: every operand that has the axis is sliced *)
        destruct (maxlen_witness rs k Hk) as (ra & Hra & Hkr).
        right. apply in_map_iff. exists ra. split; [|exact Hra].
        destruct (proj1 (rbcast_nth ra ro) (Hb ra Hra)) as [_ Hc].
        destruct (rg_value rsl ro ra k (Hlen ra Hra) Hl Hkr (Hc k Hkr)) as [[_ H]|[Hne _]]; [exact H|].
        exfalso. apply Hne. rewrite Hro, H1. apply Hall. apply in_map_iff. exists ra. split; [reflexivity | exact Hra].
      * apply in_map_iff in Hin. destruct Hin as (ra & Hv & Hra). rewrite <- Hro in Hv, H1.
        assert (k < length ra)%nat as Hkr.
        { destruct (Nat.lt_ge_cases k (length ra)) as [?|Hge]; [assumption|]. rewrite nth_overflow in Hv by exact Hge. lia. }
        right. apply in_map_iff. exists ra. split; [|exact Hra].
        destruct (proj1 (rbcast_nth ra ro) (Hb ra Hra)) as [_ Hc].
        destruct (rg_value rsl ro ra k (Hlen ra Hra) Hl Hkr (Hc k Hkr)) as [[_ H]|[Hne _]]; [exact H | congruence].
Qed.

Lemma rg_bcast rsl ro ra :
  length rsl = length ro -> rbcast_intob ra ro = true -> rbcast_intob (rg rsl ro ra) (rslice rsl ro) = true.
Proof.
  intros Hl Hb. apply rbcast_nth in Hb. destruct Hb as [Hlen Hc]. apply rbcast_nth.
  rewrite rg_length, rslice_length by assumption. split; [lia|]. intros k Hk.
  rewrite (rslice_nth rsl ro k 1) by lia.
  destruct (rg_value rsl ro ra k Hlen Hl Hk (Hc k Hk)) as [[_ H]|[_ H]]; [right | left]; exact H.
Qed.

(* ---------------------------------------------------------------------- *)
(* back to shapes as NumPy writes them *)
Lemma lastn_length {A} m (l : list A) : (m <= length l)%nat -> length (lastn m l) = m.
Proof. intros H. unfold lastn. rewrite skipn_length. lia. Qed.

Lemma bc_index_length sl sa o : length sl = length o -> (length sa <= length o)%nat -> length (bc_index sl sa o) = length sa.
Proof. intros H1 H2. unfold bc_index. rewrite map3_length, !lastn_length by lia. lia. Qed.

Lemma bcast_intob_length sa o : bcast_intob sa o = true -> (length sa <= length o)%nat.
Proof. unfold bcast_intob. intros H. apply rbcast_nth in H. rewrite !rev_length in H. tauto. Qed.

Definition bc_shape (sl : list pslice) (o sa : list Z) : list Z := slice_shape (map ISlice (bc_index sl sa o)) sa.

Lemma rev_bc_shape sl o sa : length sl = length o -> (length sa <= length o)%nat ->
  rev (bc_shape sl o sa) = rg (rev sl) (rev o) (rev sa).
Proof.
  intros H1 H2. unfold bc_shape, rg. rewrite rev_slice_shape by (apply bc_index_length; assumption).
  unfold bc_index. rewrite rev_bc_index by assumption. reflexivity.
Qed.

Lemma bshape_all_sliced sl ss o :
  o = bshape_all ss ->
  length sl = length o -> forallb (fun sa => bcast_intob sa o) ss = true ->
  bshape_all (map (bc_shape sl o) ss) = slice_shape (map ISlice sl) o.
Proof.
  intros Ho Hl Hb. rewrite forallb_forall in Hb.
  assert (Hro : rev o = rall (map (@rev Z) ss)) by (rewrite Ho; apply rev_bshape_all).
  rewrite <- (rev_involutive (bshape_all _)), <- (rev_involutive (slice_shape _ _)). f_equal.
  rewrite rev_bshape_all, rev_slice_shape by exact Hl. rewrite map_map.
  rewrite (map_ext_in _ (fun sa => rg (rev sl) (rev o) (rev sa))).
  - rewrite <- (map_map (@rev Z) (rg (rev sl) (rev o))).
    rewrite Hro. apply rall_sliced.
    + rewrite <- Hro. rewrite !rev_length. exact Hl.
    + apply Forall_forall. intros ra Hra. apply in_map_iff in Hra. destruct Hra as (sa & <- & Hsa).
      rewrite <- Hro. apply (Hb sa Hsa).
  - intros sa Hsa. apply rev_bc_shape; [exact Hl | apply bcast_intob_length; apply Hb; exact Hsa].
Qed.

Lemma bc_shape_bcast sl o sa : length sl = length o -> bcast_intob sa o = true ->
  bcast_intob (bc_shape sl o sa) (slice_shape (map ISlice sl) o) = true.
Proof.
  intros Hl Hb. unfold bcast_intob. rewrite rev_bc_shape by (try apply bcast_intob_length; assumption).
  rewrite rev_slice_shape by exact Hl. apply rg_bcast; [rewrite !rev_length; exact Hl | exact Hb].
Qed.

Lemma Forall_map3_pick (P : pslice -> Prop) : P colon -> forall a b c, Forall P a -> Forall P (map3 bc_pick a b c).
Proof.
  intros Hc. induction a as [|x a IH]; intros [|y b] [|z c] H; cbn [map3]; try constructor.
  - inversion H; subst. unfold bc_pick. destruct (y =? z); assumption.
  - apply IH. inversion H; assumption.
Qed.

Lemma bc_index_ok sl sa o : sl_okb sl = true -> sl_okb (bc_index sl sa o) = true.
Proof.
  intros H. apply sl_okb_iff. apply sl_okb_iff in H. unfold bc_index. apply Forall_map3_pick.
  - unfold step_of, colon. cbn. lia.
  - unfold lastn. apply Forall_skipn. exact H.
Qed.

(* ---------------------------------------------------------------------- *)
(* values: the operand position a sliced result position reads *)
Lemma bc_core : forall sa suf sls outs,
  compat sa suf -> length sls = length sa -> Forall (fun a => step_of a <> 0) sls ->
  in_bounds outs (slice_shape (map ISlice sls) suf) ->
  mask sa (slice_src (map ISlice sls) suf outs) =
  slice_src (map ISlice (map3 bc_pick sls sa suf)) sa
            (mask (slice_shape (map ISlice (map3 bc_pick sls sa suf)) sa) outs).
Proof.
  induction sa as [|n sa IH]; intros [|M suf] [|a sls] outs Hc Hl Hok Ho; cbn [compat length] in *; try (exfalso; tauto); try discriminate.
  - destruct outs; reflexivity.
  - destruct Hc as [Hn Hc]. inversion Hok as [|a0 l0 Ha Hok']; subst.
    cbn [map slice_shape hd tl] in Ho. destruct outs as [|j outs]; cbn [in_bounds] in Ho; [tauto|]. destruct Ho as [Hj Ho].
    cbn [map3 map slice_shape slice_src hd tl mask].
    rewrite (IH suf sls outs Hc ltac:(lia) Hok' Ho). f_equal.
    unfold bc_pick. destruct (n =? M) eqn:E.
    + apply Z.eqb_eq in E. subst M.
      assert ((if slice_len a n =? 1 then 0 else j) = j) as -> by (destruct (slice_len a n =? 1) eqn:E1; lia).
      destruct (n =? 1) eqn:E2; [|reflexivity].
      apply Z.eqb_eq in E2. subst n. pose proof (sel_nth_range a 1 j ltac:(lia) Ha Hj). lia.
    + assert (n = 1) as -> by lia. cbn [Z.eqb Pos.eqb].
      rewrite slice_len_colon by lia. cbn [Z.eqb Pos.eqb]. rewrite nthZ_sel_colon by lia. reflexivity.
Qed.

Lemma firstn_skipn_lengths {A} (l : list A) k : (k <= length l)%nat -> length (skipn k l) = (length l - k)%nat.
Proof. intros _. apply skipn_length. Qed.

Lemma bc_values sl sa o out :
  length sl = length o -> sl_okb sl = true -> bcast_intob sa o = true ->
  in_bounds out (slice_shape (map ISlice sl) o) ->
  bidx sa (slice_src (map ISlice sl) o out) =
  slice_src (map ISlice (bc_index sl sa o)) sa (bidx (bc_shape sl o sa) out).
Proof.
  intros Hl Hok Hb Ho.
  destruct (bcast_intob_spec sa o Hb) as (pre & suf & -> & Hc).
  pose proof (compat_length _ _ Hc) as Hm.
  set (p := length pre) in *.
  assert (exists slp sls, sl = slp ++ sls /\ length slp = p /\ length sls = length sa) as (slp & sls & -> & Hlp & Hls).
  { exists (firstn p sl), (skipn p sl). rewrite firstn_skipn, firstn_length, skipn_length.
    rewrite app_length in Hl. unfold p. repeat split; lia. }
  assert (bc_index (slp ++ sls) sa (pre ++ suf) = map3 bc_pick sls sa suf) as Hbi.
  { unfold bc_index. rewrite !lastn_app by lia. reflexivity. }
  unfold bc_shape. rewrite Hbi.
  rewrite map_app in *.
  assert (basicb (map ISlice slp) = true) as Hbas by (clear; induction slp; [reflexivity | assumption]).
  rewrite slice_shape_app in Ho by (try exact Hbas; rewrite map_length; exact Hlp).
  rewrite slice_src_app by (try exact Hbas; rewrite map_length; exact Hlp).
  assert (nslices (map ISlice slp) = p) as Hns.
  { unfold nslices. rewrite <- Hlp. clear. induction slp; [reflexivity|]. cbn [map filter is_sliceb length]. f_equal. assumption. }
  rewrite Hns.
  pose proof (in_bounds_app_inv _ out _ Ho) as [Ho1 Ho2].
  rewrite sl_shape_length in Ho1, Ho2 by (rewrite Hlp; reflexivity). fold p in Ho1, Ho2.
  pose proof (in_bounds_length _ _ Ho2) as Hlo2. rewrite sl_shape_length in Hlo2 by lia.
  unfold bidx.
  rewrite lastn_app by (rewrite sl_src_length by lia; lia).
  assert (length (slice_shape (map ISlice (map3 bc_pick sls sa suf)) sa) = length sa) as Hlg
    by (apply sl_shape_length; rewrite map3_length; lia).
  rewrite Hlg.
  rewrite <- (firstn_skipn p out) at 2. rewrite lastn_app by lia.
  apply bc_core; try assumption.
  apply sl_okb_iff in Hok. apply Forall_app in Hok. tauto.
Qed.

(* ---------------------------------------------------------------------- *)
(* the law on index functions, then on programs *)
Theorem slice_elemwise_bcast_arr f sl (xs : list (arr Z)) :
  let o := bshape_all (map shape xs) in
  length sl = length o -> sl_okb sl = true ->
  forallb (fun sa => bcast_intob sa o) (map shape xs) = true ->
  aeq (aslice (map ISlice sl) (aelemwise f xs))
      (aelemwise f (map (fun x => aslice (map ISlice (bc_index sl (shape x) o)) x) xs)).
Proof.
  intros o Hl Hok Hb. split; cbn [aslice aelemwise shape get]; fold o.
  - rewrite map_map. cbn [aslice shape].
    rewrite <- (bshape_all_sliced sl (map shape xs) o eq_refl Hl Hb). rewrite map_map. reflexivity.
  - intros out Ho. f_equal. rewrite map_map. apply map_ext_in. intros x Hx.
    cbn [aslice shape get]. f_equal.
    rewrite forallb_forall in Hb.
    apply bc_values; try assumption. apply Hb. apply in_map. exact Hx.
Qed.

Theorem eval_slice_elemwise_bcast f sl ps o r :
  pshape (PElem f ps) = Some o -> length sl = length o ->
  eval (PSlice (map ISlice sl) (PElem f ps)) = Some r ->
  eval (PElem f (map (fun p => PSlice (map ISlice (bc_index sl (oshape p) o)) p) ps)) = Some r.
Proof.
  intros Hp Hl H.
  destruct (eval_un_n_inv (OSlice (map ISlice sl)) (NElem f) ps r eq_refl (congr_slice _) H) as (l & El & Hwf & Hnok & Hok & ->).
  assert (o = bshape_all (map nshape l)) as Ho.
  { assert (eval (PElem f ps) = Some (to_nd (n_arr (NElem f) (map of_nd l)))) as Ec
      by (cbn [eval]; rewrite El; unfold n_eval; rewrite Hnok; reflexivity).
    apply eval_some_pshape in Ec. rewrite Hp in Ec. injection Ec as ->.
    change (shape (n_arr (NElem f) (map of_nd l)) = n_shape (NElem f) (map nshape l)).
    rewrite n_arr_shape, map_map. reflexivity. }
  cbn [n_shape un_ok] in Hok. rewrite <- Ho in Hok. rewrite ixokb_sl in Hok by exact Hl.
  pose proof Hnok as Hnok'. cbn [n_ok] in Hnok'. apply andb_true_iff in Hnok'. destruct Hnok' as [Hlen Hb]. rewrite <- Ho in Hb.
  set (oo := fun sa : list Z => OSlice (map ISlice (bc_index sl sa o))).
  change (map (fun p => PSlice (map ISlice (bc_index sl (oshape p) o)) p) ps) with (map (fun p => PUn (oo (oshape p)) p) ps).
  rewrite (eval_n_un_dep_intro oo (NElem f) ps l (fun _ => eq_refl) (congr_elem f) El Hwf).
  - f_equal. apply to_nd_ext. apply aeq_sym. unfold oo. cbn [un_arr n_arr].
    pose proof (slice_elemwise_bcast_arr (ef_apply f) sl (map of_nd l)) as Hlaw. cbv zeta in Hlaw.
    assert (Hms : map shape (map of_nd l) = map nshape l) by (rewrite map_map; reflexivity).
    rewrite Hms, <- Ho in Hlaw. rewrite map_map in Hlaw. apply Hlaw; assumption.
  - apply forallb_forall. intros a Ha. unfold oo. cbn [un_ok].
    rewrite forallb_forall in Hb.
    rewrite ixokb_sl by (apply bc_index_length; [exact Hl | apply bcast_intob_length; apply Hb; apply in_map; exact Ha]).
    apply bc_index_ok. exact Hok.
  - unfold oo. cbn [un_shape n_ok]. rewrite map_length. rewrite map_length in Hlen. rewrite Hlen. cbn [andb].
    rewrite <- (map_map nshape (fun sa => slice_shape (map ISlice (bc_index sl sa o)) sa)).
    change (fun sa => slice_shape (map ISlice (bc_index sl sa o)) sa) with (bc_shape sl o).
    rewrite (bshape_all_sliced sl (map nshape l) o Ho Hl Hb).
    apply forallb_forall. intros s' Hs'. apply in_map_iff in Hs'. destruct Hs' as (sa & <- & Hsa).
    rewrite forallb_forall in Hb. apply bc_shape_bcast; [exact Hl | apply Hb; exact Hsa].
Qed.
