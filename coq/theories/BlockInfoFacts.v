(* Facts about the block_info / ChunksFreeze / grid-gate models of BlockInfo.v. *)
From DA Require Import PyBase PyBaseFacts Rechunk RechunkBase CrosswalkFacts BlockInfo.
From Coq Require Import ZifyBool.
Open Scope Z_scope.
Ltac Zify.zify_post_hook ::= Z.to_euclidean_division_equations.

(* ------------------------------------------------------------------ *)
(* generic helpers *)

Lemma all_some_Forall2 {A B} (f : A -> option B) : forall l r,
  all_some (map f l) = Some r -> Forall2 (fun x y => f x = Some y) l r.
Proof.
  induction l as [|x t IH]; intros r H; cbn [map all_some] in H.
  - injection H as <-. constructor.
  - destruct (f x) as [y|] eqn:Ef; [|discriminate].
    destruct (all_some (map f t)) as [r'|] eqn:Et; cbn [option_map] in H; [|discriminate].
    injection H as <-. constructor; [exact Ef|]. apply IH. reflexivity.
Qed.

Lemma Forall2_all_some {A B} (f : A -> option B) : forall l r,
  Forall2 (fun x y => f x = Some y) l r -> all_some (map f l) = Some r.
Proof.
  induction 1 as [|x y l r Hxy _ IH]; cbn [map all_some]; [reflexivity|].
  rewrite Hxy, IH. reflexivity.
Qed.

Lemma Forall2_map_eq {A B} (f : A -> B) : forall l r,
  Forall2 (fun x y => f x = y) l r -> map f l = r.
Proof. induction 1 as [|x y l r Hxy _ IH]; cbn [map]; [reflexivity|]. rewrite Hxy, IH. reflexivity. Qed.

Lemma NoDup_map_inj {A B} (f : A -> B) (l : list A) :
  (forall a b, f a = f b -> a = b) -> NoDup l -> NoDup (map f l).
Proof.
  intros Hinj H. induction H as [|x l Hx _ IH]; cbn [map]; constructor; [|exact IH].
  intros Hin. apply in_map_iff in Hin. destruct Hin as (y & E & Hy). apply Hinj in E. subst y. exact (Hx Hy).
Qed.

Lemma Forall2_impl {A B} (P Q : A -> B -> Prop) : (forall a b, P a b -> Q a b) ->
  forall l r, Forall2 P l r -> Forall2 Q l r.
Proof. intros H l r HF. induction HF; constructor; auto. Qed.

Lemma zseq_length n : length (zseq n) = n.
Proof. unfold zseq. rewrite map_length, seq_length. reflexivity. Qed.

Lemma In_zseq n x : In x (zseq n) <-> 0 <= x < Z.of_nat n.
Proof.
  unfold zseq. rewrite in_map_iff. split.
  - intros (k & <- & Hk). apply in_seq in Hk. lia.
  - intros H. exists (Z.to_nat x). split; [lia|]. apply in_seq. lia.
Qed.

Lemma NoDup_zseq n : NoDup (zseq n).
Proof.
  unfold zseq. apply NoDup_map_inj; [|apply seq_NoDup].
  intros a b H. lia.
Qed.

(* ------------------------------------------------------------------ *)
(* one axis: array-location *)

Lemma nth_errorZ_Some {A} (l : list A) i x :
  nth_errorZ l i = Some x -> 0 <= i < lenZ' l.
Proof.
  unfold nth_errorZ, lenZ'. destruct (i <? 0) eqn:E; [discriminate|]. intros H.
  assert (Hn : (Z.to_nat i < length l)%nat) by (apply nth_error_Some; congruence). lia.
Qed.

Lemma nth_errorZ_nthZ (l : list Z) i :
  0 <= i < lenZ' l -> nth_errorZ l i = Some (nthZ l i).
Proof.
  unfold nth_errorZ, lenZ', nthZ. intros H. destruct (i <? 0) eqn:E; [lia|].
  destruct (nth_error l (Z.to_nat i)) as [x|] eqn:En.
  - f_equal. symmetry. apply nth_error_nth. exact En.
  - apply nth_error_None in En. lia.
Qed.

Lemma cum0_length cs : lenZ' (cum0 cs) = lenZ' cs + 1.
Proof. unfold cum0, cumsum, lenZ'. cbn [length]. rewrite cumsum_from_length. lia. Qed.

Lemma array_location_some cs j :
  0 <= j < lenZ' cs -> array_location cs j = Some (array_location_t cs j).
Proof.
  intros H. unfold array_location, loc_of_starts, array_location_t.
  pose proof (cum0_length cs) as Hl.
  rewrite !nth_errorZ_nthZ by lia. reflexivity.
Qed.

Lemma array_location_Some_inv cs j ab :
  array_location cs j = Some ab -> 0 <= j < lenZ' cs /\ ab = array_location_t cs j.
Proof.
  unfold array_location, loc_of_starts. intros H.
  destruct (nth_errorZ (cum0 cs) j) as [a|] eqn:Ea; [|discriminate].
  destruct (nth_errorZ (cum0 cs) (j + 1)) as [b|] eqn:Eb; [|discriminate].
  pose proof (nth_errorZ_Some _ _ _ Ea) as H1. pose proof (nth_errorZ_Some _ _ _ Eb) as H2.
  pose proof (cum0_length cs) as Hl.
  assert (Hj : 0 <= j < lenZ' cs) by lia. split; [exact Hj|].
  rewrite nth_errorZ_nthZ in Ea by lia. rewrite nth_errorZ_nthZ in Eb by lia.
  injection Ea as <-. injection Eb as <-. injection H as <-. reflexivity.
Qed.

Lemma nthZ_nth_error (l : list Z) i c : 0 <= i -> nth_error l (Z.to_nat i) = Some c -> nthZ l i = c.
Proof. intros _ H. unfold nthZ. apply nth_error_nth. exact H. Qed.

(* the interval of block j starts where the previous blocks end and is as long as the block *)
Lemma array_location_t_cum cs j :
  0 <= j < lenZ' cs ->
  array_location_t cs j = (cum cs (Z.to_nat j), cum cs (Z.to_nat j) + nthZ cs j).
Proof.
  intros H. unfold array_location_t, lenZ' in *. rewrite !cum0_nthZ by lia. f_equal.
  replace (Z.to_nat (j + 1)) with (S (Z.to_nat j)) by lia.
  destruct (nth_error cs (Z.to_nat j)) as [c|] eqn:En.
  - rewrite (cum_S _ _ _ En). rewrite (nthZ_nth_error _ _ _ (proj1 H) En). reflexivity.
  - apply nth_error_None in En. lia.
Qed.

Lemma array_location_length cs j :
  0 <= j < lenZ' cs -> snd (array_location_t cs j) - fst (array_location_t cs j) = nthZ cs j.
Proof. intros H. rewrite array_location_t_cum by exact H. cbn [fst snd]. lia. Qed.

Lemma cum_all cs : cum cs (length cs) = zsum cs.
Proof. unfold cum. rewrite firstn_all. reflexivity. Qed.

Lemma tiles_from_seq cs : Forall (fun c => 0 <= c) cs -> forall n k,
  (k + n = length cs)%nat ->
  tiles_from (cum cs k) (map (array_location_t cs) (map Z.of_nat (seq k n))) (zsum cs).
Proof.
  intros Hpos. induction n as [|n IH]; intros k Hk; cbn [seq map tiles_from].
  - replace k with (length cs) by lia. apply cum_all.
  - rewrite array_location_t_cum by (unfold lenZ'; lia).
    rewrite Nat2Z.id.
    assert (Hc : 0 <= nthZ cs (Z.of_nat k)).
    { unfold nthZ. rewrite Nat2Z.id. rewrite Forall_forall in Hpos. apply Hpos. apply nth_In. lia. }
    split; [reflexivity|]. split; [lia|].
    destruct (nth_error cs k) as [c|] eqn:En.
    + replace (cum cs k + nthZ cs (Z.of_nat k)) with (cum cs (S k)).
      * apply IH. lia.
      * rewrite (cum_S _ _ _ En). f_equal. symmetry. apply nthZ_nth_error; [lia|]. rewrite Nat2Z.id. exact En.
    + apply nth_error_None in En. lia.
Qed.

(* the array-location intervals of one axis tile [0, n) in block order *)
Lemma array_location_tiles cs :
  Forall (fun c => 0 <= c) cs ->
  tiles_from 0 (map (array_location_t cs) (zseq (length cs))) (zsum cs).
Proof.
  intros H. unfold zseq. change 0 with (cum cs 0). apply tiles_from_seq; [exact H|lia].
Qed.

(* ------------------------------------------------------------------ *)
(* the block grid *)

Lemma In_product : forall rs loc,
  In loc (product rs) <-> Forall2 (fun l r => In l r) loc rs.
Proof.
  induction rs as [|r rs IH]; intros loc; cbn [product].
  - split.
    + intros [<-|[]]. constructor.
    + intros H. inversion H. left. reflexivity.
  - rewrite in_flat_map. split.
    + intros (x & Hx & Hin). apply in_map_iff in Hin. destruct Hin as (t & <- & Ht).
      constructor; [exact Hx|]. apply IH. exact Ht.
    + intros H. inversion H as [|l r' loc' rs' Hl Hrest]; subst.
      exists l. split; [exact Hl|]. apply in_map_iff. exists loc'. split; [reflexivity|]. apply IH. exact Hrest.
Qed.

Lemma NoDup_map_cons {A} (x : A) l : NoDup l -> NoDup (map (cons x) l).
Proof. intros H. apply NoDup_map_inj; [|exact H]. intros a b E. congruence. Qed.

Lemma NoDup_app_intro {A} (l1 l2 : list A) :
  NoDup l1 -> NoDup l2 -> (forall x, In x l1 -> ~ In x l2) -> NoDup (l1 ++ l2).
Proof.
  induction l1 as [|a l1 IH]; intros H1 H2 Hd; cbn [app]; [exact H2|].
  inversion H1 as [|a' l1' Hna H1']; subst. constructor.
  - rewrite in_app_iff. intros [H|H]; [exact (Hna H)|]. exact (Hd a (or_introl eq_refl) H).
  - apply IH; [exact H1'|exact H2|]. intros x Hx. apply Hd. right. exact Hx.
Qed.

Lemma NoDup_flat_map_cons : forall (r : list Z) (P : list (list Z)),
  NoDup r -> NoDup P -> NoDup (flat_map (fun x => map (cons x) P) r).
Proof.
  induction r as [|x r IH]; intros P Hr HP; cbn [flat_map]; [constructor|].
  inversion Hr as [|x' r' Hnotin Hr']; subst.
  apply NoDup_app_intro.
  - apply NoDup_map_cons. exact HP.
  - apply IH; assumption.
  - intros l Hl Hl2. apply in_map_iff in Hl. destruct Hl as (t & <- & _).
    apply in_flat_map in Hl2. destruct Hl2 as (y & Hy & Hin).
    apply in_map_iff in Hin. destruct Hin as (t' & E & _). injection E as -> _. exact (Hnotin Hy).
Qed.

Lemma NoDup_product : forall rs, Forall (@NoDup Z) rs -> NoDup (product rs).
Proof.
  induction rs as [|r rs IH]; intros H; cbn [product].
  - constructor; [intros []|constructor].
  - inversion H; subst. apply NoDup_flat_map_cons; [assumption|]. apply IH. assumption.
Qed.

Lemma Forall2_map_r {A B C} (P : A -> C -> Prop) (f : B -> C) : forall l1 l2,
  Forall2 P l1 (map f l2) <-> Forall2 (fun a b => P a (f b)) l1 l2.
Proof.
  induction l1 as [|a l1 IH]; intros [|b l2]; cbn [map]; split; intros H; try (inversion H; fail); try constructor;
    inversion H; subst; try assumption; apply IH; assumption.
Qed.

(* the locations enumerate the block grid: every grid point, exactly once *)
Lemma block_ids_spec cs loc : In loc (block_ids cs) <-> in_grid cs loc.
Proof.
  unfold block_ids, in_grid. rewrite In_product, Forall2_map_r.
  split; intros H; induction H; constructor; try assumption.
  - apply In_zseq in H. unfold lenZ'. exact H.
  - apply In_zseq. unfold lenZ' in H. exact H.
Qed.

Lemma block_ids_nodup cs : NoDup (block_ids cs).
Proof.
  unfold block_ids. apply NoDup_product. apply Forall_forall. intros r Hr.
  apply in_map_iff in Hr. destruct Hr as (c & <- & _). apply NoDup_zseq.
Qed.

Lemma block_ids_count cs : Z.of_nat (length (block_ids cs)) = number_of_blocks cs.
Proof.
  unfold block_ids, number_of_blocks. induction cs as [|c cs IH]; cbn [map product zprod fold_right]; [reflexivity|].
  change (fold_right Z.mul 1 (map lenZ' cs)) with (zprod (map lenZ' cs)). rewrite <- IH.
  generalize (product (map (fun c0 : list Z => zseq (length c0)) cs)) as P. intros P.
  unfold lenZ'. rewrite <- (zseq_length (length c)) at 2. generalize (zseq (length c)) as r.
  induction r as [|x r IHr]; cbn [flat_map length]; [lia|].
  rewrite app_length, map_length. lia.
Qed.

(* ------------------------------------------------------------------ *)
(* the output entry (block_info[None]) *)

Lemma out_info_Some_inv oc bid o :
  out_info oc bid = Some o -> length bid = length oc -> o = out_info_t oc bid /\ in_grid oc bid.
Proof.
  unfold out_info, out_info_t, map2. intros H Hlen.
  destruct (all_some (map (fun p => array_location (fst p) (snd p)) (combine oc bid))) as [al|] eqn:E1; [|discriminate].
  destruct (all_some (map (fun p => nth_errorZ (fst p) (snd p)) (combine oc bid))) as [cs|] eqn:E2; [|discriminate].
  injection H as <-.
  apply all_some_Forall2 in E1. apply all_some_Forall2 in E2.
  assert (Hal : map (fun p => array_location_t (fst p) (snd p)) (combine oc bid) = al).
  { apply Forall2_map_eq. eapply Forall2_impl; [|exact E1]. cbn beta. intros p ab Hp.
    apply array_location_Some_inv in Hp. symmetry. apply Hp. }
  assert (Hcs : map (fun p => nthZ (fst p) (snd p)) (combine oc bid) = cs).
  { apply Forall2_map_eq. eapply Forall2_impl; [|exact E2]. cbn beta. intros p c Hp.
    pose proof (nth_errorZ_Some _ _ _ Hp) as Hr. rewrite nth_errorZ_nthZ in Hp by exact Hr. congruence. }
  rewrite Hal, Hcs. split; [reflexivity|].
  unfold in_grid. clear Hal Hcs E1 al. revert bid cs Hlen E2.
  induction oc as [|c oc IH]; intros [|b bid] cs Hlen E2; cbn [length] in Hlen; try discriminate; [constructor|].
  cbn [combine] in E2. inversion E2 as [|p y l r Hp Hrest]; subst. cbn [fst snd] in Hp.
  constructor; [apply (nth_errorZ_Some _ _ _ Hp)|]. eapply IH; [lia|exact Hrest].
Qed.

Lemma out_info_total oc bid : in_grid oc bid -> out_info oc bid = Some (out_info_t oc bid).
Proof.
  intros H. unfold out_info, out_info_t, map2.
  assert (H1 : all_some (map (fun p => array_location (fst p) (snd p)) (combine oc bid))
               = Some (map (fun p => array_location_t (fst p) (snd p)) (combine oc bid))).
  { apply Forall2_all_some. unfold in_grid in H. induction H as [|l c bid' oc' Hl _ IH]; cbn [combine map]; constructor.
    - cbn [fst snd]. apply array_location_some. exact Hl.
    - exact IH. }
  assert (H2 : all_some (map (fun p => nth_errorZ (fst p) (snd p)) (combine oc bid))
               = Some (map (fun p => nthZ (fst p) (snd p)) (combine oc bid))).
  { clear H1. apply Forall2_all_some. unfold in_grid in H. induction H as [|l c bid' oc' Hl _ IH]; cbn [combine map]; constructor.
    - cbn [fst snd]. apply nth_errorZ_nthZ. exact Hl.
    - exact IH. }
  rewrite H1, H2. reflexivity.
Qed.

(* chunk-shape = the lengths of the array-location intervals = the advertised sizes *)
Lemma chunk_shape_is_interval_length oc bid :
  in_grid oc bid ->
  map2 nthZ oc bid = map (fun ab => snd ab - fst ab) (map2 array_location_t oc bid).
Proof.
  unfold in_grid, map2. intros H. induction H as [|l c bid' oc' Hl _ IH]; cbn [combine map]; [reflexivity|].
  cbn [fst snd]. rewrite (array_location_length c l Hl). f_equal. exact IH.
Qed.

(* ------------------------------------------------------------------ *)
(* the payload as a whole *)

Lemma in_grid_length oc bid : in_grid oc bid -> length bid = length oc.
Proof. unfold in_grid. induction 1; cbn [length]; congruence. Qed.

Lemma block_entry_inv args dr oi oc bid k ins o :
  block_entry args dr oi oc bid = Some (k, ins, o) -> k = bid /\ out_info oc bid = Some o.
Proof.
  unfold block_entry. intros H.
  destruct (all_some _) as [l|]; [|discriminate].
  destruct (out_info oc bid) as [o'|]; [|discriminate].
  injection H as <- _ <-. split; reflexivity.
Qed.

Lemma payload_entries args dr oi oc p :
  block_info_payload args dr oi oc = Some p ->
  Forall2 (fun bid e => block_entry args dr oi oc bid = Some e) (block_ids oc) p.
Proof. unfold block_info_payload. apply all_some_Forall2. Qed.

Lemma Forall2_In_r {A B} (P : A -> B -> Prop) l r y : Forall2 P l r -> In y r -> exists x, In x l /\ P x y.
Proof.
  induction 1 as [|a b l r Hab _ IH]; intros Hin; [destruct Hin|].
  destruct Hin as [<-|Hin].
  - exists a. split; [left; reflexivity|exact Hab].
  - destruct (IH Hin) as (x & Hx & Hp). exists x. split; [right; exact Hx|exact Hp].
Qed.

Lemma payload_matches_layout args dr oi oc p :
  block_info_payload args dr oi oc = Some p ->
  map (fun e => fst (fst e)) p = block_ids oc /\
  NoDup (block_ids oc) /\
  (forall loc, In loc (block_ids oc) <-> in_grid oc loc) /\
  (forall bid ins o, In (bid, ins, o) p ->
     in_grid oc bid /\ o = out_info_t oc bid /\
     snd o = map (fun ab => snd ab - fst ab) (map2 array_location_t oc bid)).
Proof.
  intros H. pose proof (payload_entries _ _ _ _ _ H) as HF.
  split; [|split; [apply block_ids_nodup|split; [apply block_ids_spec|]]].
  - clear H. remember (block_ids oc) as ids eqn:Hids. clear Hids.
    induction HF as [|bid e l r He _ IH]; cbn [map]; [reflexivity|].
    destruct e as [[k ins] o]. apply block_entry_inv in He. destruct He as [-> _]. cbn [fst]. f_equal. exact IH.
  - intros bid ins o Hin. destruct (Forall2_In_r _ _ _ _ HF Hin) as (b & Hb & He).
    apply block_entry_inv in He. destruct He as [<- Ho].
    apply block_ids_spec in Hb. pose proof (out_info_Some_inv _ _ _ Ho (in_grid_length _ _ Hb)) as [-> _].
    split; [exact Hb|]. split; [reflexivity|]. unfold out_info_t. cbn [snd].
    apply chunk_shape_is_interval_length. exact Hb.
Qed.

Lemma map_blocks_info_payload args drop na ch oi oc p :
  map_blocks_info args drop na ch = MOk (oi, oc, p) ->
  exists dr, block_info_payload args dr oi oc = Some p.
Proof.
  unfold map_blocks_info, mbind. intros H.
  destruct (mb_indices args drop na ch) as [ix|]; [|discriminate].
  destruct (mb_out_chunks args ix ch) as [oc'|]; [|discriminate].
  destruct (block_info_payload _ _ _ _) as [p'|] eqn:E; [|discriminate].
  injection H as <- <- <-. eexists. exact E.
Qed.

(* ------------------------------------------------------------------ *)
(* input entries *)

Lemma combine_length_eq {A B} (l1 : list A) (l2 : list B) : length l1 = length l2 -> length (combine l1 l2) = length l1.
Proof. intros H. rewrite combine_length. lia. Qed.

Lemma rev_range_length n : length (rev_range n) = n.
Proof. unfold rev_range. rewrite rev_length. apply zseq_length. Qed.

Lemma Forall2_combine_map {A B C D} (P : C -> D -> Prop) (f : A * B -> C) (g : A * B -> D) : forall (l : list (A * B)),
  (forall x, In x l -> P (f x) (g x)) -> Forall2 P (map f l) (map g l).
Proof. induction l as [|x l IH]; intros H; cbn [map]; constructor; [apply H; left; reflexivity|apply IH; intros y Hy; apply H; right; exact Hy]. Qed.

(* what a successful in_info says, axis by axis *)
Lemma in_info_inv cs dr oi bid sh nc al cl :
  in_info cs dr oi bid = Some (sh, nc, al, cl) ->
  let starts := arg_starts cs dr oi in
  sh = map zsum cs /\ nc = arg_num_chunks starts /\
  length cl = length cs /\ length starts = length cs /\
  Forall2 (fun s_l ab => loc_of_starts (fst s_l) (snd s_l) = Some ab) (combine starts cl) al.
Proof.
  unfold in_info. cbv zeta. intros H.
  destruct (all_some _) as [al'|] eqn:E; [|discriminate]. injection H as <- <- <- <-.
  assert (Hs : length (arg_starts cs dr oi) = length cs).
  { unfold arg_starts. destruct dr; rewrite map_length; [|reflexivity].
    apply combine_length_eq. rewrite rev_range_length. reflexivity. }
  split; [reflexivity|]. split; [reflexivity|]. split.
  - rewrite map_length. rewrite combine_length. unfold arg_num_chunks. rewrite map_length, rev_range_length. lia.
  - split; [exact Hs|]. apply all_some_Forall2 in E. exact E.
Qed.

Lemma arg_starts_nodrop cs oi : arg_starts cs false oi = map cum0 cs.
Proof. reflexivity. Qed.

Lemma Forall2_combine_map_l {A B C} (f : A -> B) (P : B * C -> (Z * Z) -> Prop) : forall (l : list A) (cl : list C) al,
  Forall2 P (combine (map f l) cl) al -> Forall2 (fun x ab => P (f (fst x), snd x) ab) (combine l cl) al.
Proof.
  induction l as [|a l IH]; intros [|c cl] al H; cbn [map combine] in *; inversion H; subst; constructor; try assumption.
  apply IH. assumption.
Qed.

(* without dropped axes: the chunk-location lies in the argument's own grid and the
   array-location is that block's interval in the argument's advertised layout *)
Lemma in_info_sound cs oi bid sh nc al cl :
  in_info cs false oi bid = Some (sh, nc, al, cl) ->
  sh = map zsum cs /\ nc = map lenZ' cs /\ in_grid cs cl /\ al = map2 array_location_t cs cl.
Proof.
  intros H. apply in_info_inv in H. cbv zeta in H. destruct H as (-> & -> & Hlen & _ & HF).
  rewrite arg_starts_nodrop in *. split; [reflexivity|]. split.
  - unfold arg_num_chunks. rewrite map_map. apply map_ext. intros c. pose proof (cum0_length c). lia.
  - apply Forall2_combine_map_l in HF. cbn [fst snd] in HF.
    assert (HF' : Forall2 (fun x ab => 0 <= snd x < lenZ' (fst x) /\ ab = array_location_t (fst x) (snd x)) (combine cs cl) al).
    { eapply Forall2_impl; [|exact HF]. cbn beta. intros x ab Hx. apply array_location_Some_inv in Hx. exact Hx. }
    clear HF. split.
    + unfold in_grid. revert cl al Hlen HF'. induction cs as [|c cs IH]; intros [|l cl] al Hlen HF'; cbn [length] in Hlen; try discriminate; [constructor|].
      cbn [combine] in HF'. inversion HF' as [|x y l0 r0 Hx Hrest]; subst. cbn [fst snd] in Hx.
      constructor; [apply Hx|]. eapply IH; [lia|exact Hrest].
    + unfold map2. symmetry. apply Forall2_map_eq. eapply Forall2_impl; [|exact HF']. cbn beta. intros x ab [_ ->]. reflexivity.
Qed.

(* ------------------------------------------------------------------ *)
(* which inputs an entry describes *)

Lemma index_from_In {A} : forall (l : list A) k i x,
  In (i, x) (index_from k l) <-> k <= i /\ nth_error l (Z.to_nat (i - k)) = Some x.
Proof.
  induction l as [|a l IH]; intros k i x; cbn [index_from In].
  - split; [intros []|]. intros [_ H]. destruct (Z.to_nat (i - k)); discriminate.
  - rewrite IH. split.
    + intros [E|[Hk Hn]].
      * injection E as <- <-. split; [lia|]. rewrite Z.sub_diag. reflexivity.
      * split; [lia|]. replace (Z.to_nat (i - k)) with (S (Z.to_nat (i - (k + 1)))) by lia. exact Hn.
    + intros [Hk Hn]. destruct (Z.eq_dec i k) as [->|Hne].
      * left. rewrite Z.sub_diag in Hn. cbn in Hn. congruence.
      * right. split; [lia|]. replace (Z.to_nat (i - k)) with (S (Z.to_nat (i - (k + 1)))) in Hn by lia. exact Hn.
Qed.

Lemma Forall2_In_l {A B} (P : A -> B -> Prop) l r x : Forall2 P l r -> In x l -> exists y, In y r /\ P x y.
Proof.
  induction 1 as [|a b l r Hab _ IH]; intros Hin; [destruct Hin|].
  destruct Hin as [<-|Hin].
  - exists b. split; [left; reflexivity|exact Hab].
  - destruct (IH Hin) as (y & Hy & Hp). exists y. split; [right; exact Hy|exact Hp].
Qed.

(* an entry has one info per ARRAY argument, keyed by the argument's position, and it is
   the in_info of that argument *)
Lemma block_entry_inputs args dr oi oc bid k ins o :
  block_entry args dr oi oc bid = Some (k, ins, o) ->
  (forall i cs, nth_error args i = Some (Some cs) ->
     exists b, in_info cs dr oi bid = Some b /\ In (Z.of_nat i, b) ins) /\
  (forall i b, In (i, b) ins ->
     exists cs, 0 <= i /\ nth_error args (Z.to_nat i) = Some (Some cs) /\ in_info cs dr oi bid = Some b).
Proof.
  unfold block_entry. intros H.
  match type of H with context [all_some (map ?F _)] => set (F0 := F) in * end.
  destruct (all_some (map F0 (index_from 0 args))) as [l|] eqn:E; [|discriminate].
  destruct (out_info oc bid) as [o'|]; [|discriminate].
  injection H as _ <- _. apply all_some_Forall2 in E. split.
  - intros i cs Hn.
    assert (Hin : In (Z.of_nat i, Some cs) (index_from 0 args)).
    { apply index_from_In. split; [lia|]. rewrite Z.sub_0_r, Nat2Z.id. exact Hn. }
    destruct (Forall2_In_l _ _ _ _ E Hin) as (y & Hy & HF). unfold F0 in HF. cbn [fst snd] in HF.
    destruct (in_info cs dr oi bid) as [b|]; cbn [option_map] in HF; [|discriminate].
    injection HF as <-. exists b. split; [reflexivity|].
    apply in_flat_map. eexists. split; [exact Hy|]. left. reflexivity.
  - intros i b Hin. apply in_flat_map in Hin. destruct Hin as (y & Hy & Hsel).
    destruct y as [e|]; [|destruct Hsel]. destruct Hsel as [->|[]].
    destruct (Forall2_In_r _ _ _ _ E Hy) as ([i' a] & Hia & HF). unfold F0 in HF. cbn [fst snd] in HF.
    destruct a as [cs|]; [|discriminate].
    destruct (in_info cs dr oi bid) as [b'|] eqn:Ei; cbn [option_map] in HF; [|discriminate].
    injection HF as -> ->. apply index_from_In in Hia. destruct Hia as [Hi Hn]. rewrite Z.sub_0_r in Hn.
    exists cs. split; [exact Hi|]. split; [exact Hn|exact Ei].
Qed.

(* ------------------------------------------------------------------ *)
(* the block the task hands over is the block block_info describes *)

Lemma combine_map_l {A B C} (f : A -> B) : forall (l : list A) (l2 : list C),
  combine (map f l) l2 = map (fun p => (f (fst p), snd p)) (combine l l2).
Proof. induction l as [|a l IH]; intros [|c l2]; cbn [map combine]; try reflexivity. f_equal. apply IH. Qed.

Lemma in_info_cl cs dr oi bid sh nc al cl :
  in_info cs dr oi bid = Some (sh, nc, al, cl) ->
  cl = map (fun p => if fst p >? 1 then match dict_get (snd p) (combine oi bid) with Some l => l | None => 0 end else 0)
           (combine (arg_num_chunks (arg_starts cs dr oi)) (rev_range (length cs))).
Proof.
  unfold in_info. cbv zeta. intros H. destruct (all_some _) as [al'|]; [|discriminate].
  injection H as _ _ _ <-. apply map_ext. intros [n ind]. reflexivity.
Qed.

Lemma Forall2_map_both {A B C} (P : B -> C -> Prop) (f : A -> B) (g : A -> C) : forall l,
  Forall2 P (map f l) (map g l) -> Forall (fun x => P (f x) (g x)) l.
Proof. induction l as [|x l IH]; cbn [map]; intros H; inversion H; subst; constructor; auto. Qed.

Lemma map_fst_combine {A B} : forall (l : list A) (l2 : list B), length l = length l2 -> map fst (combine l l2) = l.
Proof. induction l as [|a l IH]; intros [|b l2] H; cbn [length] in H; try discriminate; cbn [combine map fst]; [reflexivity|]. f_equal. apply IH. lia. Qed.

Lemma block_given_is_block_described cs oi bid sh nc al cl b :
  in_info cs false oi bid = Some (sh, nc, al, cl) ->
  dep_block_id cs oi [] bid = Some b ->
  b = cl.
Proof.
  intros Hi Hd. pose proof (in_info_sound _ _ _ _ _ _ _ Hi) as (_ & _ & Hg & _).
  apply in_info_cl in Hi. rewrite arg_starts_nodrop in Hi. unfold arg_num_chunks in Hi.
  rewrite map_map, combine_map_l, map_map in Hi. cbn [fst snd] in Hi.
  set (L := combine cs (rev_range (length cs))) in *.
  assert (HL : map fst L = cs) by (apply map_fst_combine; rewrite rev_range_length; reflexivity).
  unfold in_grid in Hg.
  assert (Hg' : Forall2 (fun l c => 0 <= l < lenZ' c) cl (map fst L)) by (rewrite HL; exact Hg).
  clear Hg. rename Hg' into Hg. rewrite Hi in Hg.
  apply Forall2_map_both in Hg.
  unfold dep_block_id in Hd. cbn [fold_left] in Hd. fold L in Hd. apply all_some_Forall2 in Hd.
  rewrite Hi. clear Hi HL. symmetry. apply Forall2_map_eq.
  induction Hd as [|[c ind] y l r Hy _ IH]; [constructor|].
  inversion Hg as [|x l' Hx Hrest]; subst. constructor; [|apply IH; exact Hrest].
  cbn [fst snd] in *. pose proof (cum0_length c) as Hc.
  destruct (dict_get ind (combine oi bid)) as [v|].
  - injection Hy as <-. destruct (lenZ' (cum0 c) - 1 >? 1) eqn:E.
    + symmetry. apply Z.mod_small. lia.
    + assert (lenZ' c = 1) by lia. replace (lenZ' c) with 1 by lia. symmetry. apply Z.mod_1_r.
  - destruct (lenZ' c =? 1) eqn:E1; [|discriminate]. injection Hy as <-.
    destruct (lenZ' (cum0 c) - 1 >? 1) eqn:E; [lia|reflexivity].
Qed.

(* ------------------------------------------------------------------ *)
(* ChunksFreeze *)

Lemma forallb_combine_eq {A} (f : A -> A -> bool) :
  (forall x y, f x y = true -> x = y) ->
  forall a b, length a = length b ->
  forallb (fun p => f (fst p) (snd p)) (combine a b) = true -> a = b.
Proof.
  intros Hf. induction a as [|x a IH]; intros [|y b] Hlen H; cbn [length] in Hlen; try discriminate; [reflexivity|].
  cbn [combine forallb fst snd] in H. apply andb_true_iff in H. destruct H as [H1 H2].
  f_equal; [apply Hf; exact H1|]. apply IH; [lia|exact H2].
Qed.

Lemma forallb_combine_refl {A} (f : A -> A -> bool) :
  (forall x, f x x = true) -> forall a, forallb (fun p => f (fst p) (snd p)) (combine a a) = true.
Proof. intros Hf. induction a as [|x a IH]; cbn [combine forallb fst snd]; [reflexivity|]. rewrite Hf, IH. reflexivity. Qed.

Lemma odim_match_eq (a b : list (option Z)) :
  Nat.eqb (length a) (length b) && forallb (fun q => onan_eqb (fst q) (snd q)) (combine a b) = true -> a = b.
Proof.
  intros H. apply andb_true_iff in H. destruct H as [H1 H2]. apply Nat.eqb_eq in H1.
  apply (forallb_combine_eq onan_eqb); [|exact H1|exact H2]. intros x y E. apply oZ_eqb_eq. exact E.
Qed.

(* _chunks_match is exactly equality once nan is represented by None *)
Lemma chunks_match_eq a b : chunks_match a b = true <-> a = b.
Proof.
  unfold chunks_match. split.
  - intros H. apply andb_true_iff in H. destruct H as [H1 H2]. apply Nat.eqb_eq in H1.
    apply (forallb_combine_eq (fun x y => Nat.eqb (length x) (length y) && forallb (fun q => onan_eqb (fst q) (snd q)) (combine x y)));
      [apply odim_match_eq|exact H1|exact H2].
  - intros <-. rewrite Nat.eqb_refl. cbn [andb].
    apply (forallb_combine_refl (fun x y => Nat.eqb (length x) (length y) && forallb (fun q => onan_eqb (fst q) (snd q)) (combine x y))).
    intros x. rewrite Nat.eqb_refl. cbn [andb]. apply (forallb_combine_refl onan_eqb). intros o. apply oZ_eqb_eq. reflexivity.
Qed.

Lemma list_eqb_eq {A} (eqb : A -> A -> bool) :
  (forall x y, eqb x y = true -> x = y) -> forall a b, list_eqb eqb a b = true -> a = b.
Proof.
  intros He. induction a as [|x a IH]; intros [|y b] H; cbn [list_eqb] in H; try discriminate; [reflexivity|].
  apply andb_true_iff in H. destruct H as [H1 H2]. f_equal; [apply He; exact H1|apply IH; exact H2].
Qed.

Lemma odim_eqb_eq a b : odim_eqb a b = true -> a = b.
Proof. apply list_eqb_eq. intros x y E. apply oZ_eqb_eq. exact E. Qed.

Lemma ochunks_eqb_eq a b : list_eqb odim_eqb a b = true -> a = b.
Proof. apply list_eqb_eq. apply odim_eqb_eq. Qed.

(* after lowering, the consumer sees the frozen layout, or lowering raises *)
Lemma freeze_restores frozen settled :
  length frozen = length settled ->
  match consumer_chunks settled (chunks_freeze_lower frozen settled) with
  | Some c => c = frozen
  | None => True
  end.
Proof.
  intros Hlen. unfold chunks_freeze_lower.
  destruct (chunks_match settled frozen) eqn:Em.
  { apply chunks_match_eq in Em. cbn [consumer_chunks]. exact Em. }
  destruct (existsb has_nan frozen); [exact I|].
  rewrite <- Hlen, firstn_all.
  assert (Hsp : is_nil frozen && negb (is_nil settled) &&
                forallb (fun d => match osum d with Some 0 => true | _ => false end) settled = false).
  { destruct frozen, settled; cbn [length] in Hlen; try discriminate; reflexivity. }
  rewrite Hsp.
  repeat match goal with |- context [if ?c then _ else _] => destruct c eqn:?; [exact I|] end.
  destruct (list_eqb odim_eqb frozen settled) eqn:Ee.
  { apply ochunks_eqb_eq in Ee. cbn [consumer_chunks]. congruence. }
  destruct (negb (validate_rechunk_b settled frozen)); [exact I|]. reflexivity.
Qed.

(* when does a Rechunk appear: only for fully known frozen sizes on a same-shape settled layout *)
Lemma freeze_rechunk_inv frozen settled t :
  length frozen = length settled ->
  chunks_freeze_lower frozen settled = FRechunk t ->
  t = frozen /\ existsb has_nan frozen = false /\ settled <> frozen /\ validate_rechunk_b settled frozen = true.
Proof.
  intros Hlen. unfold chunks_freeze_lower.
  destruct (chunks_match settled frozen) eqn:Em; [discriminate|].
  destruct (existsb has_nan frozen) eqn:En; [discriminate|].
  rewrite <- Hlen, firstn_all.
  assert (Hsp : is_nil frozen && negb (is_nil settled) &&
                forallb (fun d => match osum d with Some 0 => true | _ => false end) settled = false).
  { destruct frozen, settled; cbn [length] in Hlen; try discriminate; reflexivity. }
  rewrite Hsp.
  repeat match goal with |- context [if ?c then _ else _] => destruct c eqn:?; [discriminate|] end.
  destruct (list_eqb odim_eqb frozen settled); [discriminate|].
  destruct (validate_rechunk_b settled frozen) eqn:Ev; cbn [negb]; [|discriminate].
  intros H. injection H as <-. split; [reflexivity|]. split; [reflexivity|]. split; [|reflexivity].
  intros E. subst. assert (chunks_match frozen frozen = true) by (apply chunks_match_eq; reflexivity). congruence.
Qed.

Lemma freeze_vanish_same frozen : chunks_freeze_lower frozen frozen = FVanish.
Proof. unfold chunks_freeze_lower. assert (H : chunks_match frozen frozen = true) by (apply chunks_match_eq; reflexivity). rewrite H. reflexivity. Qed.

(* unknown frozen sizes can never be restored: any drift is an error *)
Lemma freeze_unknown_refuses frozen settled :
  existsb has_nan frozen = true -> settled <> frozen ->
  chunks_freeze_lower frozen settled = FError FRuntimeError.
Proof.
  intros Hn Hne. unfold chunks_freeze_lower.
  destruct (chunks_match settled frozen) eqn:Em; [apply chunks_match_eq in Em; contradiction|].
  rewrite Hn. reflexivity.
Qed.

(* the equal-rank hypothesis is needed: ArrayExpr.rechunk zips the requested chunks with the
   array's chunks, so a frozen layout of HIGHER rank whose prefix equals the settled layout
   lowers to the settled array itself *)
Lemma freeze_rank_mismatch_refuted :
  exists frozen settled,
    chunks_freeze_lower frozen settled = FVanish /\ settled <> frozen.
Proof.
  exists [[Some 3; Some 3; Some 6]; [Some 1]], [[Some 3; Some 3; Some 6]].
  split; [vm_compute; reflexivity|discriminate].
Qed.

(* ------------------------------------------------------------------ *)
(* the grid-preservation gate *)

Lemma py_dim_eqb_eq ns a b : py_dim_eqb ns a b = true -> a = b.
Proof.
  apply list_eqb_eq. intros [x|] [y|] E; try discriminate; [|reflexivity].
  apply Z.eqb_eq in E. congruence.
Qed.

Lemma py_chunks_eqb_eq ns a b : py_chunks_eqb ns a b = true -> a = b.
Proof. apply list_eqb_eq. apply py_dim_eqb_eq. Qed.

(* with a grid-sensitive dependent, a pushdown is accepted only if `self` is not a Blockwise
   and the pushed result advertises exactly the parent's chunks — for both oracle values *)
Lemma gate_accepts_only_unchanged {R} nan_same sb deps pc (r : R) rc res :
  has_grid_sensitive deps = true ->
  preserve_grid_contract nan_same sb deps pc (Some (r, rc)) = Some res ->
  sb = false /\ rc = pc /\ res = (r, rc).
Proof.
  unfold preserve_grid_contract. intros Hs. rewrite Hs. cbn [negb].
  destruct sb; [discriminate|].
  destruct (py_chunks_eqb nan_same rc pc) eqn:E; cbn [negb]; [|discriminate].
  intros H. injection H as <-. apply py_chunks_eqb_eq in E. auto.
Qed.

Lemma gate_known_chunks_accepts {R} nan_same deps (pc : ochunks) (r : R) :
  existsb has_nan pc = false ->
  preserve_grid_contract nan_same false deps pc (Some (r, pc)) = Some (r, pc).
Proof.
  intros Hk. unfold preserve_grid_contract. destruct (negb (has_grid_sensitive deps)); [reflexivity|].
  assert (E : py_chunks_eqb nan_same pc pc = true).
  { unfold py_chunks_eqb. induction pc as [|d pc IH]; cbn [list_eqb]; [reflexivity|].
    cbn [existsb] in Hk. apply orb_false_iff in Hk. destruct Hk as [Hd Hk]. rewrite (IH Hk), andb_true_r.
    unfold py_dim_eqb. clear IH Hk. induction d as [|[x|] d IHd]; cbn [list_eqb]; [reflexivity| |].
    - cbn [has_nan existsb] in Hd. rewrite Z.eqb_refl. cbn [andb]. apply IHd. exact Hd.
    - cbn [has_nan existsb] in Hd. discriminate. }
  rewrite E. reflexivity.
Qed.

Lemma gate_free {R} nan_same sb deps pc (result : option (R * ochunks)) :
  has_grid_sensitive deps = false -> preserve_grid_contract nan_same sb deps pc result = result.
Proof. intros H. unfold preserve_grid_contract. rewrite H. reflexivity. Qed.

Lemma gate_none {R} nan_same sb deps pc : @preserve_grid_contract R nan_same sb deps pc None = None.
Proof. unfold preserve_grid_contract. destruct (negb (has_grid_sensitive deps)); reflexivity. Qed.

Lemma requires_grid_iff k al :
  requires_grid k al = true <-> (k = KBlockwise /\ al = false) \/ k = KMapBlocksOutput.
Proof.
  destruct k, al; cbn; split; intros H; try discriminate; try reflexivity; auto;
    destruct H as [[H1 H2]|H]; try discriminate; auto.
Qed.

(* ------------------------------------------------------------------ *)
(* dropped axes: "we concatenate along dropped axes, so treat them as a single chunk" *)

Lemma Forall2_nth_error {A B} (P : A -> B -> Prop) : forall l r j x,
  Forall2 P l r -> nth_error l j = Some x -> exists y, nth_error r j = Some y /\ P x y.
Proof.
  intros l r j x H. revert j. induction H as [|a b l r Hab _ IH]; intros [|j] Hn; cbn [nth_error] in *; try discriminate.
  - injection Hn as <-. exists b. split; [reflexivity|exact Hab].
  - apply IH. exact Hn.
Qed.

Lemma nth_error_combine {A B} : forall (l1 : list A) (l2 : list B) j x y,
  nth_error l1 j = Some x -> nth_error l2 j = Some y -> nth_error (combine l1 l2) j = Some (x, y).
Proof.
  induction l1 as [|a l1 IH]; intros [|b l2] [|j] x y H1 H2; cbn [nth_error combine] in *; try discriminate.
  - congruence.
  - apply IH; assumption.
Qed.

Lemma in_info_axis cs dr oi bid sh nc al cl j c ind :
  in_info cs dr oi bid = Some (sh, nc, al, cl) ->
  nth_error cs j = Some c -> nth_error (rev_range (length cs)) j = Some ind ->
  let starts := if dr && negb (zmem ind oi) then [0; zsum c] else cum0 c in
  exists l ab, nth_error nc j = Some (lenZ' starts - 1) /\ nth_error cl j = Some l /\ nth_error al j = Some ab /\
               l = (if lenZ' starts - 1 >? 1 then match dict_get ind (combine oi bid) with Some v => v | None => 0 end else 0) /\
               loc_of_starts starts l = Some ab.
Proof.
  intros Hi Hc Hind. cbv zeta.
  pose proof (in_info_cl _ _ _ _ _ _ _ _ Hi) as Hcl.
  apply in_info_inv in Hi. cbv zeta in Hi. destruct Hi as (_ & Hnc & Hlen & Hslen & HF).
  set (st := if dr && negb (zmem ind oi) then [0; zsum c] else cum0 c).
  assert (Hst : nth_error (arg_starts cs dr oi) j = Some st).
  { unfold arg_starts, st. destruct dr; cbn [andb].
    - pose proof (nth_error_combine _ _ _ _ _ Hc Hind) as Hci.
      rewrite (map_nth_error _ _ _ Hci). destruct (zmem ind oi); reflexivity.
    - apply map_nth_error. exact Hc. }
  assert (Hncj : nth_error nc j = Some (lenZ' st - 1)).
  { rewrite Hnc. unfold arg_num_chunks. apply (map_nth_error (fun s => lenZ' s - 1)). exact Hst. }
  assert (Hclj : nth_error cl j = Some (if lenZ' st - 1 >? 1 then match dict_get ind (combine oi bid) with Some v => v | None => 0 end else 0)).
  { rewrite Hcl.
    pose proof (nth_error_combine _ _ _ _ _ Hncj Hind) as Hni. rewrite Hnc in Hni.
    rewrite (map_nth_error _ _ _ Hni). reflexivity. }
  destruct (Forall2_nth_error _ _ _ j _ HF (nth_error_combine _ _ _ _ _ Hst Hclj)) as (ab & Hab & Hloc).
  cbn [fst snd] in Hloc. eexists. exists ab. repeat split; eassumption.
Qed.

Lemma in_info_dropped_axis cs oi bid sh nc al cl j c ind :
  in_info cs true oi bid = Some (sh, nc, al, cl) ->
  nth_error cs j = Some c -> nth_error (rev_range (length cs)) j = Some ind ->
  zmem ind oi = false ->
  nth_error nc j = Some 1 /\ nth_error cl j = Some 0 /\ nth_error al j = Some (0, zsum c).
Proof.
  intros Hi Hc Hind Hm. destruct (in_info_axis _ _ _ _ _ _ _ _ _ _ _ Hi Hc Hind) as (l & ab & H1 & H2 & H3 & Hl & Hloc).
  rewrite Hm in *. cbn [andb negb] in *. change (lenZ' [0; zsum c] - 1) with 1 in *. cbn in Hl. subst l.
  cbn in Hloc. injection Hloc as <-. auto.
Qed.

Lemma in_info_kept_axis cs dr oi bid sh nc al cl j c ind :
  in_info cs dr oi bid = Some (sh, nc, al, cl) ->
  nth_error cs j = Some c -> nth_error (rev_range (length cs)) j = Some ind ->
  dr = false \/ zmem ind oi = true ->
  exists l, nth_error nc j = Some (lenZ' c) /\ nth_error cl j = Some l /\ 0 <= l < lenZ' c /\
            nth_error al j = Some (array_location_t c l).
Proof.
  intros Hi Hc Hind Hk. destruct (in_info_axis _ _ _ _ _ _ _ _ _ _ _ Hi Hc Hind) as (l & ab & H1 & H2 & H3 & _ & Hloc).
  assert (E : dr && negb (zmem ind oi) = false) by (destruct Hk as [->| ->]; [reflexivity|apply andb_false_r]).
  rewrite E in *. pose proof (cum0_length c) as Hlc.
  apply (array_location_Some_inv c l ab) in Hloc. destruct Hloc as [Hr ->].
  exists l. replace (lenZ' c) with (lenZ' (cum0 c) - 1) at 1 by lia. auto.
Qed.

(* ------------------------------------------------------------------ *)
(* the plain call map_blocks(f, x): a closed form of the whole payload *)

Lemma nth_error_ext' {A} : forall (l r : list A), (forall j, nth_error l j = nth_error r j) -> l = r.
Proof.
  induction l as [|a l IH]; intros [|b r] H.
  - reflexivity.
  - specialize (H O). discriminate.
  - specialize (H O). discriminate.
  - f_equal.
    + specialize (H O). cbn in H. congruence.
    + apply IH. intros j. exact (H (S j)).
Qed.

Lemma nth_error_combine_eq {A B} : forall (l1 : list A) (l2 : list B) j,
  nth_error (combine l1 l2) j =
  match nth_error l1 j, nth_error l2 j with Some x, Some y => Some (x, y) | _, _ => None end.
Proof.
  induction l1 as [|a l1 IH]; intros [|b l2] [|j]; cbn [combine nth_error]; try reflexivity.
  - destruct (nth_error l1 j); reflexivity.
  - apply IH.
Qed.

Lemma dict_get_combine_nodup {A} : forall (ks : list Z) (vs : list A) j k v,
  NoDup ks -> nth_error ks j = Some k -> nth_error vs j = Some v ->
  dict_get k (combine ks vs) = Some v.
Proof.
  induction ks as [|a ks IH]; intros [|b vs] [|j] k v Hnd Hk Hv; cbn [nth_error] in *; try discriminate.
  - injection Hk as <-. injection Hv as <-. cbn [combine dict_get]. rewrite Z.eqb_refl. reflexivity.
  - inversion Hnd as [|a' ks' Hna Hnd']; subst. cbn [combine dict_get].
    assert (Hne : k <> a) by (intros ->; apply Hna; eapply nth_error_In; exact Hk).
    destruct (k =? a) eqn:E; [lia|]. eapply IH; eassumption.
Qed.

Lemma NoDup_rev_range n : NoDup (rev_range n).
Proof. unfold rev_range. apply NoDup_rev. apply NoDup_zseq. Qed.

Definition dict_keys {A} (d : list (Z * A)) : list Z := map fst d.

Lemma dict_get_None {A} (d : list (Z * A)) k : ~ In k (dict_keys d) -> dict_get k d = None.
Proof.
  induction d as [|[k' v] d IH]; cbn [dict_keys map fst In dict_get]; intros H; [reflexivity|].
  destruct (k =? k') eqn:E; [exfalso; apply H; left; lia|]. apply IH. intros Hin. apply H. right. exact Hin.
Qed.

Lemma dict_set_fresh {A} (d : list (Z * A)) k v : ~ In k (dict_keys d) -> dict_set k v d = d ++ [(k, v)].
Proof.
  induction d as [|[k' v'] d IH]; cbn [dict_keys map fst In dict_set app]; intros H; [reflexivity|].
  destruct (k =? k') eqn:E; [exfalso; apply H; left; lia|]. f_equal. apply IH. intros Hin. apply H. right. exact Hin.
Qed.

Lemma chunkss_fold_fresh : forall (L : list (list Z * Z)) (d : list (Z * list Z)),
  NoDup (map snd L) -> (forall k, In k (map snd L) -> ~ In k (dict_keys d)) ->
  fold_left chunkss_step L d = d ++ map (fun ci => (snd ci, fst ci)) L.
Proof.
  induction L as [|[c i] L IH]; intros d Hnd Hdis; cbn [fold_left map]; [rewrite app_nil_r; reflexivity|].
  cbn [map snd] in Hnd, Hdis. inversion Hnd as [|i' L' Hni Hnd']; subst.
  unfold chunkss_step at 2. rewrite dict_get_None by (apply Hdis; left; reflexivity).
  rewrite dict_set_fresh by (apply Hdis; left; reflexivity).
  rewrite IH.
  - rewrite <- app_assoc. reflexivity.
  - exact Hnd'.
  - intros k Hk Hin. unfold dict_keys in Hin. rewrite map_app, in_app_iff in Hin. destruct Hin as [Hin|Hin].
    + apply (Hdis k); [right; exact Hk|exact Hin].
    + cbn in Hin. destruct Hin as [<-|[]]. exact (Hni Hk).
Qed.

Lemma map_swap_combine {A B} : forall (l1 : list A) (l2 : list B),
  map (fun ci => (snd ci, fst ci)) (combine l1 l2) = combine l2 l1.
Proof. induction l1 as [|a l1 IH]; intros [|b l2]; cbn [combine map fst snd]; try reflexivity. f_equal. apply IH. Qed.

Lemma map_snd_combine {A B} : forall (l : list A) (l2 : list B), length l = length l2 -> map snd (combine l l2) = l2.
Proof. induction l as [|a l IH]; intros [|b l2] H; cbn [length] in H; try discriminate; cbn [combine map snd]; [reflexivity|]. f_equal. apply IH. lia. Qed.

Lemma chunkss_single cs : chunkss_full [Some cs] [] = combine (rev_range (length cs)) cs.
Proof.
  unfold chunkss_full, chunkss_of_args. cbn [fold_left].
  rewrite chunkss_fold_fresh.
  - cbn [app]. apply map_swap_combine.
  - rewrite map_snd_combine by (rewrite rev_range_length; reflexivity). apply NoDup_rev_range.
  - intros k _ [].
Qed.

Lemma mseq_Forall2 {A B} (f : A -> mres B) : forall l r,
  Forall2 (fun x y => f x = MOk y) l r -> mseq (map f l) = MOk r.
Proof. induction 1 as [|x y l r Hxy _ IH]; cbn [map mseq]; [reflexivity|]. rewrite Hxy, IH. reflexivity. Qed.

Lemma Forall2_nth_intro {A B} (P : A -> B -> Prop) : forall l r,
  length l = length r ->
  (forall j x y, nth_error l j = Some x -> nth_error r j = Some y -> P x y) -> Forall2 P l r.
Proof.
  induction l as [|a l IH]; intros [|b r] Hlen H; cbn [length] in Hlen; try discriminate; constructor.
  - apply (H O); reflexivity.
  - apply IH; [lia|]. intros j x y Hx Hy. apply (H (S j)); assumption.
Qed.

Lemma out_chunks_single cs :
  mb_out_chunks [Some cs] (mk_mb_index (rev_range (length cs)) [] []) None = MOk cs.
Proof.
  unfold mb_out_chunks. cbn [mbi_new_axes mbi_out_ind]. rewrite chunkss_single.
  apply mseq_Forall2. apply Forall2_nth_intro; [apply rev_range_length|].
  intros j l c Hl Hc. unfold out_axis_chunks.
  rewrite (dict_get_combine_nodup _ _ _ _ _ (NoDup_rev_range _) Hl Hc). reflexivity.
Qed.

Lemma single_input_info cs bid :
  in_grid cs bid ->
  in_info cs false (rev_range (length cs)) bid = Some (info_t cs bid).
Proof.
  intros Hg. pose proof (in_grid_length _ _ Hg) as Hlen.
  unfold in_info. cbv zeta. rewrite arg_starts_nodrop.
  set (arr_k := map _ (combine (arg_num_chunks (map cum0 cs)) (rev_range (length cs)))).
  assert (Hk : arr_k = bid).
  { apply nth_error_ext'. intros j. unfold arr_k, arg_num_chunks.
    rewrite nth_error_map, nth_error_combine_eq, !nth_error_map.
    destruct (nth_error cs j) as [c|] eqn:Ec.
    - assert (Hj : (j < length cs)%nat) by (apply nth_error_Some; congruence).
      destruct (nth_error (rev_range (length cs)) j) as [ind|] eqn:Ei;
        [|apply nth_error_None in Ei; rewrite rev_range_length in Ei; lia].
      destruct (nth_error bid j) as [b|] eqn:Eb; [|apply nth_error_None in Eb; lia].
      cbn [option_map fst snd].
      rewrite (dict_get_combine_nodup _ _ _ _ _ (NoDup_rev_range _) Ei Eb).
      unfold in_grid in Hg. destruct (Forall2_nth_error _ _ _ j _ Hg Eb) as (c' & Hc' & Hb).
      rewrite Ec in Hc'. injection Hc' as <-. pose proof (cum0_length c).
      destruct (lenZ' (cum0 c) - 1 >? 1) eqn:E; [reflexivity|]. f_equal. lia.
    - cbn [option_map]. symmetry. apply nth_error_None. apply nth_error_None in Ec. lia. }
  rewrite Hk. unfold info_t.
  assert (Hal : all_some (map (fun p => loc_of_starts (fst p) (snd p)) (combine (map cum0 cs) bid))
                = Some (map2 array_location_t cs bid)).
  { apply Forall2_all_some. unfold map2. rewrite combine_map_l. unfold in_grid in Hg.
    clear Hk arr_k Hlen. induction Hg as [|l c bid' cs' Hl _ IH]; cbn [combine map]; constructor; [|exact IH].
    cbn [fst snd]. apply (array_location_some c l Hl). }
  rewrite Hal. f_equal. f_equal. f_equal. f_equal.
  unfold arg_num_chunks. rewrite map_map. apply map_ext. intros c. pose proof (cum0_length c). lia.
Qed.

Lemma max_ndim_single cs : max_ndim [Some cs] = length cs.
Proof. unfold max_ndim. cbn [map fold_right]. apply Nat.max_0_r. Qed.

(* map_blocks(f, x) with x advertising chunks cs: block_info[0] and block_info[None] both
   describe exactly the advertised layout, for every block of the grid, once each *)
Lemma map_blocks_single_input cs :
  map_blocks_info [Some cs] [] None None =
  MOk (rev_range (length cs), cs, map (single_entry cs) (block_ids cs)).
Proof.
  unfold map_blocks_info, mb_indices. rewrite max_ndim_single. cbn [apply_drop mbind apply_new lenZ' length].
  rewrite out_chunks_single. cbn [mbind mbi_drop mbi_out_ind is_nil negb].
  assert (Hp : block_info_payload [Some cs] false (rev_range (length cs)) cs = Some (map (single_entry cs) (block_ids cs))).
  { unfold block_info_payload. apply Forall2_all_some.
    assert (Hall : forall bid, In bid (block_ids cs) -> in_grid cs bid) by (intros bid; apply block_ids_spec).
    induction (block_ids cs) as [|bid ids IH]; cbn [map]; constructor.
    - unfold block_entry. cbn [index_from map fst snd].
      rewrite single_input_info by (apply Hall; left; reflexivity). cbn [option_map all_some].
      rewrite out_info_total by (apply Hall; left; reflexivity). reflexivity.
    - apply IH. intros b Hb. apply Hall. right. exact Hb. }
  rewrite Hp. reflexivity.
Qed.

(* ------------------------------------------------------------------ *)
(* statements in the form Properties/C20.v quotes them *)

Lemma array_location_axis cs :
  Forall (fun c => 0 <= c) cs ->
  tiles_from 0 (map (array_location_t cs) (zseq (length cs))) (zsum cs) /\
  (forall j, 0 <= j < lenZ' cs ->
     array_location cs j = Some (array_location_t cs j) /\
     snd (array_location_t cs j) - fst (array_location_t cs j) = nthZ cs j).
Proof.
  intros H. split; [apply array_location_tiles; exact H|].
  intros j Hj. split; [apply array_location_some; exact Hj|apply array_location_length; exact Hj].
Qed.

Lemma map_blocks_info_matches_layout args drop new_axis chunks out_ind oc p :
  map_blocks_info args drop new_axis chunks = MOk (out_ind, oc, p) ->
  map (fun e => fst (fst e)) p = block_ids oc /\
  NoDup (block_ids oc) /\
  (forall loc, In loc (block_ids oc) <-> in_grid oc loc) /\
  (forall bid ins o, In (bid, ins, o) p ->
     in_grid oc bid /\ o = out_info_t oc bid /\
     snd o = map (fun ab => snd ab - fst ab) (map2 array_location_t oc bid)).
Proof.
  intros H. destruct (map_blocks_info_payload _ _ _ _ _ _ _ H) as [dr Hp].
  exact (payload_matches_layout _ _ _ _ _ Hp).
Qed.

Lemma payload_input_entries args dr out_ind oc p bid ins o :
  block_info_payload args dr out_ind oc = Some p -> In (bid, ins, o) p ->
  (forall i cs, nth_error args i = Some (Some cs) ->
     exists b, in_info cs dr out_ind bid = Some b /\ In (Z.of_nat i, b) ins) /\
  (forall i b, In (i, b) ins ->
     exists cs, 0 <= i /\ nth_error args (Z.to_nat i) = Some (Some cs) /\ in_info cs dr out_ind bid = Some b).
Proof.
  intros Hp Hin.
  destruct (Forall2_In_r _ _ _ _ (payload_entries _ _ _ _ _ Hp) Hin) as (b & _ & He).
  pose proof (block_entry_inv _ _ _ _ _ _ _ _ He) as [-> _].
  exact (block_entry_inputs _ _ _ _ _ _ _ _ He).
Qed.

Lemma block_id_payload_spec oc :
  map fst (block_id_payload oc) = block_ids oc /\ Forall (fun e => snd e = fst e) (block_id_payload oc).
Proof.
  unfold block_id_payload. split.
  - rewrite map_map. cbn [fst]. apply map_id.
  - apply Forall_forall. intros e He. apply in_map_iff in He. destruct He as (b & <- & _). reflexivity.
Qed.
