(* C19 — sliding-window block plans and overlap/trim (dask_array/reductions/_sliding_window.py,
   dask_array/_overlap.py), 1-D model: one axis, a block is a `list A`, a chunked array is a
   `list (list A)`.  Definitions only; proofs in WindowBase.v, SlidingFacts.v, OverlapFacts.v.
   N-D: every function below acts on the sliding / overlapped axis only and is applied
   independently for every index of the other axes (the `product` loops over `other_ranges`). *)
From DA Require Import PyBase Scan.
Open Scope Z_scope.

(* ---- shared list helpers ---------------------------------------------------------- *)

(* starts = [0]; for c in chunks: starts.append(starts[-1] + c) *)
Definition starts (chunks : list Z) : list Z := 0 :: cumsum chunks.

(* min(chunks); None = ValueError on an empty tuple (an axis always has >= 1 block) *)
Definition zmin_list (l : list Z) : option Z :=
  match l with
  | [] => None
  | x :: t => Some (fold_left Z.min t x)
  end.

Definition zlen {A} (l : list A) : Z := Z.of_nat (length l).

(* a[start:stop] for ints 0 <= start (stop < start gives the empty list, stop > len clips) *)
Definition pyslice {A} (l : list A) (start stop : Z) : list A :=
  firstn (Z.to_nat (stop - start)) (skipn (Z.to_nat start) l).

(* a[-d:] for d > 0 (d >= len gives the whole list); [] for d = 0 (the callers skip depth 0) *)
Definition lastn {A} (d : Z) (l : list A) : list A := skipn (length l - Z.to_nat d) l.

(* the blocks of the 1-D array xs under the layout `chunks` *)
Fixpoint split_blocks {A} (chunks : list Z) (xs : list A) : list (list A) :=
  match chunks with
  | [] => []
  | c :: t => firstn (Z.to_nat c) xs :: split_blocks t (skipn (Z.to_nat c) xs)
  end.

Definition getblock {A} (blocks : list (list A)) (q : Z) : list A := nth (Z.to_nat q) blocks [].

(* elementwise ufunc(a, b) on equal-length operands *)
Fixpoint map2 {A B C} (f : A -> B -> C) (a : list A) (b : list B) : list C :=
  match a, b with
  | x :: a', y :: b' => f x y :: map2 f a' b'
  | _, _ => []
  end.

(* ---- reductions/_sliding_window.py ------------------------------------------------ *)

(* supports_native_sliding_window: the `for c in chunks` loop *)
Fixpoint supports_loop (chunks : list Z) (start out_len depth : Z) : bool :=
  match chunks with
  | [] => true
  | c :: t =>
      if start >=? out_len then true
      else if c >? depth then false
      else supports_loop t (start + c) out_len depth
  end.

(* supports_native_sliding_window(chunks, window)   (chunk sizes known: no NaN) *)
Definition supports_native_sliding_window (chunks : list Z) (window : Z) : bool :=
  let depth := window - 1 in
  if depth <=? 0 then false
  else match zmin_list chunks with
       | None => false
       | Some mn =>
           if mn <=? 0 then false
           else if zsum chunks <? window then false
           else if (mn >=? depth) && (last chunks 0 >? depth) then false
           else supports_loop chunks 0 (zsum chunks - depth) depth
       end.

(* SlidingWindowReduction.chunks, the sliding axis *)
Fixpoint swr_chunks_loop (chunks : list Z) (remaining : Z) : list Z :=
  match chunks with
  | [] => []
  | c :: t =>
      if remaining <=? 0 then []
      else let take := Z.min c remaining in take :: swr_chunks_loop t (remaining - take)
  end.
Definition swr_chunks (chunks : list Z) (window : Z) : list Z :=
  swr_chunks_loop chunks (zsum chunks - window + 1).

(* SlidingWindowReduction._block_plan: rows (out_len, band_offset, b, e) *)
Fixpoint block_plan_loop (sts : list Z) (window i : Z) (chunks : list Z) (remaining : Z)
  : list (Z * Z * Z * Z) :=
  match chunks with
  | [] => []
  | c :: t =>
      let out_len := Z.max 0 (Z.min c remaining) in
      let remaining' := remaining - out_len in
      (if out_len <=? 0 then (0, 0, i, i)
       else
         let edge := nthZ sts i + window - 1 in
         let b := bisect_right sts edge - 1 in
         let e := bisect_right sts (edge + out_len - 1) - 1 in
         (out_len, edge - nthZ sts b, b, e))
      :: block_plan_loop sts window (i + 1) t remaining'
  end.
Definition block_plan (chunks : list Z) (window : Z) : list (Z * Z * Z * Z) :=
  block_plan_loop (starts chunks) window 0 chunks (zsum chunks - window + 1).

Section Banded.
  Variable M : Type.
  Variable op : M -> M -> M.     (* the accumulating ufunc: np.add, np.multiply, np.minimum, ... *)
  Variable dflt : M.             (* never read on non-empty blocks *)

  (* ufunc.reduce(values, axis) of a non-empty block (_sliding_window_block_total) *)
  Definition mconcat1 (l : list M) : M :=
    match l with
    | [] => dflt
    | x :: t => fold_left op t x
    end.

  (* np.flip(ufunc.accumulate(np.flip(a))): entry t = a[n-1] op a[n-2] op ... op a[t] *)
  Definition suffix_scan (a : list M) : list M := rev (scan op (rev a)).

  (* _sliding_window_banded_reduce (reducers without count / NaN handling) *)
  Definition banded_reduce (block : list M) (totals : list M) (right_parts : list (list M))
             (out_len band_offset : Z) : list M :=
    let out := pyslice (suffix_scan block) 0 out_len in
    let out := fold_left (fun out total => map (fun o => op o total) out) totals out in
    let band := concat right_parts in
    let prefix := scan op (pyslice band 0 (band_offset + out_len)) in
    map2 op out (pyslice prefix band_offset (band_offset + out_len)).

  (* SlidingWindowReduction._layer: one task per output-emitting block, `break` at the first
     block with out_len <= 0 *)
  Fixpoint swr_layer_loop (blocks : list (list M)) (i : Z) (plan : list (Z * Z * Z * Z))
    : list (list M) :=
    match plan with
    | [] => []
    | (out_len, band_offset, b, e) :: t =>
        if out_len <=? 0 then []
        else banded_reduce (getblock blocks i)
                           (map (fun q => mconcat1 (getblock blocks q)) (zrange (i + 1) b 1))
                           (map (getblock blocks) (zrange b (e + 1) 1))
                           out_len band_offset
             :: swr_layer_loop blocks (i + 1) t
    end.

  (* the whole native reduction of xs chunked as `chunks` *)
  Definition sliding_native (chunks : list Z) (window : Z) (xs : list M) : list (list M) :=
    swr_layer_loop (split_blocks chunks xs) 0 (block_plan chunks window).

  (* specification: NumPy's sliding_window_view(xs, w) reduced over the window axis *)
  Definition sliding_spec (w : Z) (xs : list M) : list M :=
    map (fun t => mconcat1 (firstn (Z.to_nat w) (skipn t xs)))
        (seq 0 (Z.to_nat (zlen xs - w + 1))).
End Banded.

Arguments mconcat1 {M}. Arguments suffix_scan {M}. Arguments banded_reduce {M}.
Arguments swr_layer_loop {M}. Arguments sliding_native {M}. Arguments sliding_spec {M}.

(* the bare view: sliding_window_view(xs, w)[t] = xs[t : t + w] *)
Definition window_view {A} (w : Z) (xs : list A) : list (list A) :=
  map (fun t => firstn (Z.to_nat w) (skipn t xs)) (seq 0 (Z.to_nat (zlen xs - w + 1))).

(* MovingWindowReduction._block_plan: rows (start, size, band_offset, (g, h)) where
   g = h = None for a block that starts the array; middle = range(h + 1, i) *)
Fixpoint moving_plan_loop (sts : list Z) (window i : Z) (chunks : list Z)
  : list (Z * Z * Z * option (Z * Z)) :=
  match chunks with
  | [] => []
  | c :: t =>
      let start := nthZ sts i in
      (if start =? 0 then (start, c, 0, None)
       else
         let band_first := Z.max 0 (start - window + 1) in
         let band_last := Z.max band_first (start + c - window) in
         let g := bisect_right sts band_first - 1 in
         let h := bisect_right sts band_last - 1 in
         (start, c, band_first - nthZ sts g, Some (g, h)))
      :: moving_plan_loop sts window (i + 1) t
  end.
Definition moving_plan (chunks : list Z) (window : Z) : list (Z * Z * Z * option (Z * Z)) :=
  moving_plan_loop (starts chunks) window 0 chunks.

(* supports_native_moving_window(chunks, window) *)
Definition supports_native_moving_window (chunks : list Z) (window : Z) : bool :=
  if window <=? 1 then false
  else match zmin_list chunks with
       | None => false
       | Some mn =>
           if mn <=? 0 then false
           else if (zlen chunks <? 2) || (zsum chunks <? window) then false
           else fold_left Z.max (tl chunks) (hd 0 chunks) <=? window - 1
       end.

Section Moving.
  Variable M : Type.
  Variable op : M -> M -> M.
  Variable dflt : M.

  (* np.repeat(first, n, axis) of a length-<=1 slice *)
  Definition repeat_each (first : list M) (n : Z) : list M :=
    concat (map (fun x => repeat x (Z.to_nat n)) first).

  (* _moving_window_banded_reduce, ONE channel: the function runs the same steps on the prepared
     values (ufunc = the reducer's accumulating ufunc) and on the valid counts (np.add) *)
  Definition moving_banded_reduce (block : list M) (totals : list M) (left_parts : list (list M))
             (n_trunc band_offset : Z) : list M :=
    let out := scan op block in
    let out_len := zlen block in
    let out := fold_left (fun out total => map (fun o => op o total) out) totals out in
    match left_parts with
    | [] => out
    | _ :: _ =>
        let band := concat left_parts in
        let sc := suffix_scan op band in
        let seg := pyslice sc band_offset (band_offset + out_len - n_trunc) in
        let seg := if n_trunc =? 0 then seg
                   else repeat_each (pyslice sc band_offset (band_offset + 1)) n_trunc ++ seg in
        map2 op out seg
    end.

  (* MovingWindowReduction._layer, one channel *)
  Fixpoint mwr_layer_loop (blocks : list (list M)) (window i : Z)
           (plan : list (Z * Z * Z * option (Z * Z))) : list (list M) :=
    match plan with
    | [] => []
    | (start, c, band_offset, gh) :: t =>
        let n_trunc := Z.max 0 (Z.min c (window - 1 - start)) in
        (match gh with
         | None => moving_banded_reduce (getblock blocks i) [] [] n_trunc band_offset
         | Some (g, h) =>
             moving_banded_reduce (getblock blocks i)
                                  (map (fun q => mconcat1 op dflt (getblock blocks q)) (zrange (h + 1) i 1))
                                  (map (getblock blocks) (zrange g (h + 1) 1))
                                  n_trunc band_offset
         end)
        :: mwr_layer_loop blocks window (i + 1) t
    end.

  Definition moving_native (chunks : list Z) (window : Z) (xs : list M) : list (list M) :=
    mwr_layer_loop (split_blocks chunks xs) window 0 (moving_plan chunks window).

  (* specification: position j reduces xs[max(0, j - w + 1) : j + 1] (bottleneck move_sum / move_min / move_max) *)
  Definition moving_spec (w : Z) (xs : list M) : list M :=
    map (fun j => mconcat1 op dflt (pyslice xs (Z.max 0 (Z.of_nat j - w + 1)) (Z.of_nat j + 1)))
        (seq 0 (length xs)).
End Moving.

Arguments repeat_each {M}. Arguments moving_banded_reduce {M}. Arguments mwr_layer_loop {M}.
Arguments moving_native {M}. Arguments moving_spec {M}.

(* np.fmin / np.fmax on values where None stands for NaN (NaN is skipped) *)
Definition fmin (a b : option Z) : option Z :=
  match a, b with None, x => x | x, None => x | Some u, Some v => Some (Z.min u v) end.
Definition fmax (a b : option Z) : option Z :=
  match a, b with None, x => x | x, None => x | Some u, Some v => Some (Z.max u v) end.

(* the last step of _moving_window_banded_reduce: out[out_count < limit] = nan *)
Definition mask_count {V} (limit : Z) (vals : list V) (counts : list Z) : list (option V) :=
  map2 (fun v c => if c <? limit then None else Some v) vals counts.

(* ---- _overlap.py -------------------------------------------------------------------- *)

(* _overlap_internal_chunks, one axis with depth (left_depth, right_depth) *)
Definition overlap_internal_chunks (bds : list Z) (ld rd : Z) : list Z :=
  match bds with
  | [] => []
  | [b] => [b]
  | b0 :: rest => (b0 + rd) :: map (fun bd => bd + ld + rd) (removelast rest) ++ [last rest 0 + ld]
  end.

(* ensure_minimum_chunksize: the `for c in chunks` loop over (output, new) *)
Fixpoint emc_loop (size : Z) (chunks : list Z) (output : list Z) (new : Z) : list Z * Z :=
  match chunks with
  | [] => (output, new)
  | c :: t =>
      let '(output1, new1) :=
        if c <? size then
          (if new >? size + (size - c) then (output ++ [new - (size - c)], size) else (output, new + c))
        else (output, new) in
      let '(output2, new2) := if new1 >=? size then (output1 ++ [new1], 0) else (output1, new1) in
      let new3 := if c >=? size then new2 + c else new2 in
      emc_loop size t output2 new3
  end.

(* ensure_minimum_chunksize(size, chunks); None = ValueError *)
Definition ensure_minimum_chunksize (size : Z) (chunks : list Z) : option (list Z) :=
  match zmin_list chunks with
  | None => None
  | Some mn =>
      if size <=? mn then Some chunks
      else
        let '(output, new) := emc_loop size chunks [] 0 in
        if new >=? size then Some (output ++ [new])
        else match output with
             | [] => None
             | _ :: _ => Some (removelast output ++ [last output 0 + new])
             end
  end.

(* _get_overlap_rechunked_chunks, one axis: depth (before, after), boundary "none" or not *)
Definition overlap_rechunked_chunks (c : list Z) (before after : Z) (bnone : bool) : option (list Z) :=
  match ensure_minimum_chunksize (Z.max before after) c with
  | None => None
  | Some c1 =>
      if bnone then
        let c2 := match c1 with
                  | c0 :: c1' :: rest => if c0 <=? before then (c0 + c1') :: rest else c1
                  | _ => c1
                  end in
        let c3 := if (1 <? zlen c2) && (last c2 0 <=? after)
                  then removelast (removelast c2) ++ [last (removelast c2) 0 + last c2 0]
                  else c2 in
        Some c3
      else Some c1
  end.

(* boundary kinds of one axis *)
Inductive bkind (A : Type) : Type :=
| BNone | BPeriodic | BReflect | BNearest | BConst (v : A).
Arguments BNone {A}. Arguments BPeriodic {A}. Arguments BReflect {A}. Arguments BNearest {A}.
Arguments BConst {A}.

Definition is_none {A} (k : bkind A) : bool := match k with BNone => true | _ => false end.

(* periodic / reflect / nearest / constant: the two strips put around x (depth d >= 1):
     periodic: r = x[-d:] on the left,  l = x[0:d] on the right
     reflect : l = x[d-1::-1] on the left, r = x[-1:-d-1:-1] on the right
     nearest : repeat(x[0:1], d), repeat(x[-1:-2:-1], d)
     constant: full(d, v) both sides                                                      *)
Definition pad_left {A} (k : bkind A) (d : Z) (x : list A) : list A :=
  match k with
  | BNone => []
  | BPeriodic => lastn d x
  | BReflect => rev (firstn (Z.to_nat d) x)
  | BNearest => match x with [] => [] | x0 :: _ => repeat x0 (Z.to_nat d) end
  | BConst v => repeat v (Z.to_nat d)
  end.
Definition pad_right {A} (k : bkind A) (d : Z) (x : list A) : list A :=
  match k with
  | BNone => []
  | BPeriodic => firstn (Z.to_nat d) x
  | BReflect => rev (lastn d x)
  | BNearest => match x with [] => [] | x0 :: _ => repeat (last x x0) (Z.to_nat d) end
  | BConst v => repeat v (Z.to_nat d)
  end.

(* the globally padded array: what boundaries() builds, as one list *)
Definition pad {A} (k : bkind A) (d : Z) (x : list A) : list A :=
  if d =? 0 then x else pad_left k d x ++ x ++ pad_right k d x.

(* boundaries(x, depth, kind) on the block structure: concatenate([l, x, r]) where l and r are
   single blocks of `depth` elements (_remove_overlap_boundaries rechunks them to (depth,), which
   requires depth <= len(x); overlap() establishes it through ensure_minimum_chunksize) *)
Definition boundaries_blocks {A} (k : bkind A) (d : Z) (blocks : list (list A)) : list (list A) :=
  if d =? 0 then blocks
  else match k with
       | BNone => blocks
       | _ => [pad_left k d (concat blocks)] ++ blocks ++ [pad_right k d (concat blocks)]
       end.

(* OverlapInternal / dask.layers.ArrayOverlapLayer on one axis: block i becomes
     blocks[i-1][-ld:] ++ blocks[i] ++ blocks[i+1][0:rd]
   (fractional_slice: slice(-left_depth, None) of the left neighbour, slice(0, right_depth) of
   the right one; a zero depth contributes no fragment) *)
Fixpoint overlap_internal_loop {A} (prev : option (list A)) (blocks : list (list A)) (ld rd : Z)
  : list (list A) :=
  match blocks with
  | [] => []
  | b :: t =>
      ((match prev with None => [] | Some p => lastn ld p end)
         ++ b ++ (match t with [] => [] | nb :: _ => firstn (Z.to_nat rd) nb end))
      :: overlap_internal_loop (Some b) t ld rd
  end.
Definition overlap_internal {A} (blocks : list (list A)) (ld rd : Z) : list (list A) :=
  overlap_internal_loop None blocks ld rd.

(* chunk.trim(x3, {axis: 2*depth}) of overlap(): the dask slice x3[2d : -2d].  After
   boundaries + overlap_internal the first and the last block hold exactly 2d elements
   (d padding + d ghost cells, every real block being >= d long), so the slice drops exactly
   those two blocks. *)
Definition drop_edge_blocks {A} (blocks : list (list A)) : list (list A) := removelast (tl blocks).

(* overlap(x, depth, boundary, allow_rechunk=True) on one axis.  `blocks` is the input layout;
   depth is (ld, rd) (ld = rd unless the boundary is "none").  None = ValueError. *)
Definition overlap {A} (blocks : list (list A)) (ld rd : Z) (k : bkind A) : option (list (list A)) :=
  match overlap_rechunked_chunks (map zlen blocks) ld rd (is_none k) with
  | None => None
  | Some cs =>
      let x1 := split_blocks cs (concat blocks) in
      if is_none k then Some (overlap_internal x1 ld rd)
      else
        let x2 := boundaries_blocks k ld x1 in
        let x3 := overlap_internal x2 ld rd in
        Some (if ld =? 0 then x3 else drop_edge_blocks x3)
  end.

(* _trim(x, axes, boundary, _overlap_trim_info) on block j of nb along one axis:
     x[front : -back]  with front = 0 for the first block of a "none" axis else ld,
                            back  = None for the last block of a "none" axis (or rd = 0) else -rd *)
Definition trim_block {A} (x : list A) (j nb ld rd : Z) (bnone : bool) : list A :=
  let front := if (j =? 0) && bnone then 0 else ld in
  let back := if (j =? nb - 1) && bnone then 0 else rd in
  pyslice x front (zlen x - back).

Fixpoint trim_loop {A} (blocks : list (list A)) (j nb ld rd : Z) (bnone : bool) : list (list A) :=
  match blocks with
  | [] => []
  | b :: t => trim_block b j nb ld rd bnone :: trim_loop t (j + 1) nb ld rd bnone
  end.

(* trim_internal(x, axes, boundary): the blockwise _trim *)
Definition trim_internal {A} (blocks : list (list A)) (ld rd : Z) (bnone : bool) : list (list A) :=
  trim_loop blocks 0 (zlen blocks) ld rd bnone.

(* trim_internal: the advertised chunks of the trimmed array *)
Fixpoint trim_chunks_loop (bd : list Z) (j nb ld rd : Z) (bnone : bool) : list Z :=
  match bd with
  | [] => []
  | d :: t =>
      (if bnone then
         let d1 := if j =? 0 then d else d - ld in
         if j =? nb - 1 then d1 else d1 - rd
       else d - (ld + rd))
      :: trim_chunks_loop t (j + 1) nb ld rd bnone
  end.
Definition trim_internal_chunks (bd : list Z) (ld rd : Z) (bnone : bool) : list Z :=
  trim_chunks_loop bd 0 (zlen bd) ld rd bnone.

(* MapOverlap._lower on one axis: overlap -> map_blocks(func) -> trim_internal *)
Definition map_overlap {A B} (f : list A -> list B) (blocks : list (list A)) (ld rd : Z) (k : bkind A)
  : option (list (list B)) :=
  match overlap blocks ld rd k with
  | None => None
  | Some ov => Some (trim_internal (map f ov) ld rd (is_none k))
  end.

(* ---- specification-side helpers ------------------------------------------------------ *)

(* a concrete radius-r block function used by the correspondence harness and the Examples:
     F(b)[t] = sum_{k=-r..r} (k + r + 1) * np.roll(b, k)[t]      (np.roll(b, k)[t] = b[(t - k) mod len])
   its values within r of either end of the block depend on the wrap-around (edge garbage) *)
Definition roll_stencil (r : Z) (l : list Z) : list Z :=
  let n := zlen l in
  map (fun t => zsum (map (fun k => (k + r + 1) * nthZ l ((Z.of_nat t - k) mod n)) (zrange (- r) (r + 1) 1)))
      (seq 0 (length l)).

(* the same stencil as a function of one full window of 2r+1 values *)
Definition roll_stencil_g (r : Z) (win : list Z) : Z :=
  zsum (map (fun k => (k + r + 1) * nthZ win (r - k)) (zrange (- r) (r + 1) 1)).

(* F is a radius-r stencil with window function g: shape preserving, and at every position at
   least r away from both ends the value is g of the 2r+1 values around it *)
Definition is_stencil {A B} (r : nat) (g : list A -> B) (F : list A -> list B) : Prop :=
  forall l, length (F l) = length l /\
            forall t, (r <= t)%nat -> (t + r < length l)%nat ->
                      nth_error (F l) t = Some (g (firstn (2 * r + 1) (skipn (t - r) l))).

(* g applied to every full window of the list: the "valid" part of the global stencil *)
Definition stencil_valid {A B} (r : nat) (g : list A -> B) (l : list A) : list B :=
  map (fun t => g (firstn (2 * r + 1) (skipn t l))) (seq 0 (length l - 2 * r)).
