(* Proofs about the transfer-estimate models of Transfer.v (property C27). *)
From DA Require Import PyBase PyBaseFacts Slicing Unify UnifyFacts Transfer.
From Coq Require Import ZifyBool.
Open Scope Z_scope.
Ltac Zify.zify_post_hook ::= Z.to_euclidean_division_equations.

(* ====================================================================== *)
(* products of ordered non-negative factors *)
Lemma mul_le_mono_nn a b c d : 0 <= a <= b -> 0 <= c <= d -> 0 <= a * c <= b * d.
Proof. intros H1 H2. split; nia. Qed.

Lemma zprod_nonneg l : Forall (fun x => 0 <= x) l -> 0 <= zprod l.
Proof. induction 1 as [|x t Hx _ IH]; cbn [zprod]; nia. Qed.

(* ====================================================================== *)
(* _rechunk_stage_transfer, one axis: the two-pointer loop *)

Lemma st_visit_spec o os ns ne best nsrc u r b1 n1 u1 r1 ov :
  st_visit o os ns ne best nsrc u r = (b1, n1, u1, r1) ->
  ov = Z.min (os + o) ne - Z.max os ns ->
  (0 < ov /\ b1 = Z.max best ov /\ n1 = nsrc + 1 /\ r1 = r + o /\ (u1 = u + o /\ ov = o \/ u1 = u /\ ov <> o)) \/
  (ov <= 0 /\ b1 = best /\ n1 = nsrc /\ r1 = r /\ u1 = u).
Proof.
  unfold st_visit. intros H Hov. rewrite <- Hov in H.
  destruct (0 <? ov) eqn:E.
  - left. destruct (ov =? o) eqn:E2; injection H as <- <- <- <-; repeat split; try lia.
  - right. injection H as <- <- <- <-. repeat split; lia.
Qed.

(* invariant of the inner `while True:` loop for one new block [ns, ne) *)
Lemma st_inner_inv rest : forall o os ns ne best nsrc u r o' rest' os' best' nsrc' u' r' total,
  st_inner rest o os ns ne best nsrc u r = (o', rest', os', best', nsrc', u', r') ->
  0 <= o -> Forall (fun c => 0 <= c) rest -> os + o + zsum rest = total ->
  ns <= ne -> ne <= total -> os <= ne ->
  0 <= best <= ne - ns -> 0 <= nsrc ->
  (nsrc = 0 -> Z.max os ns - ns <= 0) -> (nsrc = 1 -> Z.max os ns - ns <= best) ->
  0 <= o' /\ Forall (fun c => 0 <= c) rest' /\ os' + o' + zsum rest' = total /\ os' <= ne /\
  0 <= best' <= ne - ns /\ 0 <= nsrc' /\ (nsrc' <= 1 -> ne - ns <= best') /\
  0 <= u' - u <= r' - r.
Proof.
  induction rest as [|o1 rest1 IH];
    intros o os ns ne best nsrc u r o' rest' os' best' nsrc' u' r' total H Ho Hrest Htot Hns Hne Hos Hbest Hnsrc H0 H1;
    cbn [st_inner] in H;
    destruct (st_visit o os ns ne best nsrc u r) as [[[b1 n1] u1] r1] eqn:V;
    pose proof (st_visit_spec _ _ _ _ _ _ _ _ _ _ _ _ _ V eq_refl) as V'; clear V.
  - injection H as <- <- <- <- <- <- <-. cbn [zsum] in Htot.
    repeat split; try assumption; try lia.
  - inversion Hrest as [|x y Ho1 Hrest1]; subst x y. cbn [zsum] in Htot.
    destruct (os + o <=? ne) eqn:E.
    + apply (IH _ _ _ _ _ _ _ _ _ _ _ _ _ _ _ total) in H; try assumption; try lia.
      destruct H as (A1 & A2 & A3 & A4 & A5 & A6 & A7 & A8).
      repeat split; try assumption; try lia.
    + injection H as <- <- <- <- <- <- <-.
      repeat split; try assumption; cbn [zsum]; try lia.
Qed.

Lemma st_outer_inv new : forall o rest os ns l u s r l' u' s' r' total,
  st_outer new o rest os ns l u s r = (l', u', s', r') ->
  0 <= o -> Forall (fun c => 0 <= c) rest -> Forall (fun c => 0 <= c) new ->
  os + o + zsum rest = total -> ns + zsum new = total -> os <= ns ->
  0 <= s' - s /\ s' - s <= l' - l /\ l' - l <= zsum new /\ 0 <= u' - u /\ u' - u <= r' - r.
Proof.
  induction new as [|c new' IH]; intros o rest os ns l u s r l' u' s' r' total H Ho Hrest Hnew Htot Hntot Hos;
    cbn [st_outer] in H.
  - injection H as <- <- <- <-. cbn [zsum]. lia.
  - inversion Hnew as [|x y Hc Hnew']; subst x y. cbn [zsum] in Hntot |- *.
    pose proof (zsum_nonneg _ Hnew') as Hz.
    cbv zeta in H.
    destruct (st_inner rest o os ns (ns + c) 0 0 u r) as [[[[[[o1 rest1] os1] best] nsrc] u1] r1] eqn:E.
    apply (st_inner_inv _ _ _ _ _ _ _ _ _ _ _ _ _ _ _ _ total) in E; try assumption; try lia.
    destruct E as (A1 & A2 & A3 & A4 & A5 & A6 & A7 & A8).
    apply (IH _ _ _ _ _ _ _ _ _ _ _ _ total) in H; try assumption; try lia.
    destruct (nsrc <=? 1) eqn:En; lia.
Qed.

(* per-axis bounds: 0 <= s_ax <= l_ax <= t_ax and 0 <= u_ax <= r_ax *)
Theorem stage_axis_bounds old new t l r u s :
  nonneg_layout old -> nonneg_layout new -> zsum old = zsum new ->
  stage_axis old new = Some (t, l, r, u, s) ->
  t = zsum old /\ 0 <= s /\ s <= l /\ l <= t /\ 0 <= u /\ u <= r.
Proof.
  intros Ho Hn Hs H. unfold stage_axis in H.
  destruct old as [|o rest].
  - destruct new; [|discriminate]. injection H as <- <- <- <- <-. cbn [zsum]. lia.
  - destruct (st_outer new o rest 0 0 0 0 0 0) as [[[l1 u1] s1] r1] eqn:E.
    injection H as <- <- <- <- <-.
    inversion Ho as [|x y Ho1 Hrest]; subst x y.
    apply (st_outer_inv _ _ _ _ _ _ _ _ _ _ _ _ _ (zsum (o :: rest))) in E; try assumption; cbn [zsum] in *; lia.
Qed.

Theorem stage_axis_total old new :
  old <> [] -> exists t l r u s, stage_axis old new = Some (t, l, r, u, s).
Proof.
  intros H. destruct old as [|o rest]; [congruence|]. unfold stage_axis.
  destruct (st_outer new o rest 0 0 0 0 0 0) as [[[l1 u1] s1] r1]. eauto 6.
Qed.

(* ---------------------------------------------------------------------- *)
(* the N-D combination *)
Definition axis_ok (old new : list Z) : Prop :=
  nonneg_layout old /\ nonneg_layout new /\ zsum old = zsum new.

Lemma stage_prods_bounds olds : forall news pT pL pR pU pS T' L' R' U' S',
  Forall2 axis_ok olds news ->
  stage_prods olds news pT pL pR pU pS = Some (T', L', R', U', S') ->
  0 <= pS <= pL -> pL <= pT -> 0 <= pU <= pR ->
  0 <= S' /\ S' <= L' /\ L' <= T' /\ 0 <= U' /\ U' <= R'.
Proof.
  induction olds as [|old olds' IH]; intros news pT pL pR pU pS T' L' R' U' S' HF H HS HL HU.
  - cbn [stage_prods] in H. injection H as <- <- <- <- <-. lia.
  - inversion HF as [|a b la lb [Ho [Hn Hs]] HF']; subst a la news.
    cbn [stage_prods] in H.
    destruct (stage_axis old b) as [[[[[t l] r] u] s]|] eqn:E; [|discriminate].
    apply stage_axis_bounds in E; try assumption.
    destruct E as (_ & B1 & B2 & B3 & B4 & B5).
    apply (IH _ _ _ _ _ _ _ _ _ _ _ HF') in H; [exact H | | |].
    + apply mul_le_mono_nn; lia.
    + apply mul_le_mono_nn; lia.
    + apply mul_le_mono_nn; lia.
Qed.

(* 0 <= min <= max for one stage *)
Theorem stage_wellformed olds news itemsize lo hi :
  0 <= itemsize -> Forall2 axis_ok olds news ->
  rechunk_stage_transfer olds news itemsize = Some (lo, hi) ->
  0 <= lo /\ lo <= hi.
Proof.
  intros Hi HF H. unfold rechunk_stage_transfer in H.
  destruct (stage_prods olds news 1 1 1 1 1) as [[[[[pT pL] pR] pU] pS]|] eqn:E; [|discriminate].
  injection H as <- <-.
  apply stage_prods_bounds in E; try assumption; try lia.
  split; nia.
Qed.

Lemma stage_prods_total olds : forall news pT pL pR pU pS,
  Forall (fun o => o <> []) olds ->
  exists q, stage_prods olds news pT pL pR pU pS = Some q.
Proof.
  induction olds as [|old olds' IH]; intros news pT pL pR pU pS HF.
  - cbn [stage_prods]. eauto.
  - inversion HF as [|a b Ho HF']; subst a b. destruct news as [|new news']; cbn [stage_prods]; [eauto|].
    destruct (stage_axis_total old new Ho) as (t & l & r & u & s & E). rewrite E. apply IH. exact HF'.
Qed.

(* no IndexError when every axis has at least one block *)
Theorem stage_total olds news itemsize :
  Forall (fun o => o <> []) olds -> exists p, rechunk_stage_transfer olds news itemsize = Some p.
Proof.
  intros HF. unfold rechunk_stage_transfer.
  destruct (stage_prods_total olds news 1 1 1 1 1 HF) as [[[[[pT pL] pR] pU] pS] E]. rewrite E. eauto.
Qed.

(* sum over the stages of a plan *)
Definition layouts_ok (a b : list (list Z)) : Prop := Forall2 axis_ok a b.

Fixpoint chain_ok (prev : list (list Z)) (steps : list (list (list Z))) : Prop :=
  match steps with
  | [] => True
  | c :: steps' => layouts_ok prev c /\ chain_ok c steps'
  end.

Lemma rechunk_transfer_acc steps : forall prev itemsize lo hi lo' hi',
  0 <= itemsize -> chain_ok prev steps ->
  rechunk_transfer prev steps itemsize lo hi = Some (lo', hi') ->
  0 <= lo' - lo /\ lo' - lo <= hi' - hi.
Proof.
  induction steps as [|c steps' IH]; intros prev itemsize lo hi lo' hi' Hi Hc H; cbn [rechunk_transfer] in H.
  - injection H as <- <-. lia.
  - destruct Hc as [Hc1 Hc2].
    destruct (rechunk_stage_transfer prev c itemsize) as [[slo shi]|] eqn:E; [|discriminate].
    apply stage_wellformed in E; try assumption.
    apply IH in H; try assumption. lia.
Qed.

Theorem rechunk_transfer_wellformed old steps itemsize lo hi :
  0 <= itemsize -> chain_ok old steps ->
  rechunk_transfer old steps itemsize 0 0 = Some (lo, hi) ->
  0 <= lo /\ lo <= hi.
Proof. intros Hi Hc H. apply rechunk_transfer_acc in H; try assumption. lia. Qed.

Lemma Forall2_len {A B} (P : A -> B -> Prop) l1 l2 : Forall2 P l1 l2 -> length l1 = length l2.
Proof. induction 1; cbn [length]; congruence. Qed.

(* P2P: the stage minimum never exceeds the array's bytes *)
Lemma stage_prods_total_val olds : forall news pT pL pR pU pS T' L' R' U' S',
  stage_prods olds news pT pL pR pU pS = Some (T', L', R', U', S') ->
  length olds = length news ->
  T' = pT * zprod (map zsum olds).
Proof.
  induction olds as [|old olds' IH]; intros news pT pL pR pU pS T' L' R' U' S' H Hlen.
  - cbn [stage_prods] in H. injection H as <- _ _ _ _. cbn [map zprod]. lia.
  - destruct news as [|new news']; [discriminate|]. cbn [stage_prods] in H.
    destruct (stage_axis old new) as [[[[[t l] r] u] s]|] eqn:E; [|discriminate].
    apply IH in H; [|cbn [length] in Hlen; lia]. cbn [map zprod]. subst T'.
    assert (t = zsum old) as ->.
    { unfold stage_axis in E. destruct old as [|o rest].
      - destruct new; [|discriminate]. injection E as <- _ _ _ _. reflexivity.
      - destruct (st_outer new o rest 0 0 0 0 0 0) as [[[l1 u1] s1] r1]. injection E as <- _ _ _ _. reflexivity. }
    ring.
Qed.

Theorem p2p_wellformed olds news itemsize lo hi :
  0 <= itemsize -> Forall2 axis_ok olds news ->
  p2p_transfer olds news itemsize = Some (lo, hi) ->
  0 <= lo /\ lo <= hi.
Proof.
  intros Hi HF H. unfold p2p_transfer in H.
  destruct (rechunk_stage_transfer olds news itemsize) as [[slo shi]|] eqn:E; [|discriminate].
  injection H as <- <-.
  pose proof (stage_wellformed _ _ _ _ _ Hi HF E) as [W1 W2]. split; [exact W1|].
  unfold rechunk_stage_transfer in E.
  destruct (stage_prods olds news 1 1 1 1 1) as [[[[[pT pL] pR] pU] pS]|] eqn:E2; [|discriminate].
  injection E as <- <-.
  pose proof (stage_prods_bounds _ _ _ _ _ _ _ _ _ _ _ _ HF E2 ltac:(lia) ltac:(lia) ltac:(lia)) as B.
  apply stage_prods_total_val in E2; [|eapply Forall2_len; eassumption].
  subst pT. nia.
Qed.

(* ---------------------------------------------------------------------- *)
(* a rechunk to the same chunks moves nothing.  With zero-size chunks the old
   pointer runs ahead of the new one over empty blocks, so the invariant is:
   the remaining new blocks are some empty blocks followed by the remaining old
   blocks. *)
Definition zeros (zs : list Z) : Prop := Forall (fun c => c = 0) zs.

Lemma st_inner_skip rest : forall o ns ne best nsrc u r,
  0 <= o -> Forall (fun c => 0 <= c) rest -> ns <= ne ->
  exists zs o' rest', zeros zs /\ o :: rest = zs ++ o' :: rest' /\
    st_inner rest o ne ns ne best nsrc u r = (o', rest', ne, best, nsrc, u, r).
Proof.
  induction rest as [|o1 rest1 IH]; intros o ns ne best nsrc u r Ho Hrest Hns; cbn [st_inner].
  - exists [], o, []. split; [constructor|]. split; [reflexivity|].
    unfold st_visit. destruct (0 <? Z.min (ne + o) ne - Z.max ne ns) eqn:E; [lia|reflexivity].
  - inversion Hrest as [|x y Ho1 Hrest1]; subst x y.
    unfold st_visit. destruct (0 <? Z.min (ne + o) ne - Z.max ne ns) eqn:E; [lia|].
    destruct (ne + o <=? ne) eqn:E2.
    + assert (o = 0) as -> by lia. replace (ne + 0) with ne by lia.
      destruct (IH o1 ns ne best nsrc u r Ho1 Hrest1 Hns) as (zs & o' & rest' & Hz & Heq & Hst).
      exists (0 :: zs), o', rest'. split; [constructor; [reflexivity|exact Hz]|].
      split; [cbn [app]; f_equal; exact Heq | exact Hst].
    + exists [], o, (o1 :: rest1). split; [constructor|]. split; reflexivity.
Qed.

Lemma zeros_zsum zs : zeros zs -> zsum zs = 0.
Proof. induction 1 as [|x t Hx _ IH]; cbn [zsum]; lia. Qed.

Lemma zeros_app a b : zeros a -> zeros b -> zeros (a ++ b).
Proof. intros Ha Hb. apply Forall_app. split; assumption. Qed.

Lemma tup4_eq (a b c d a' b' c' d' : Z) :
  a = a' -> b = b' -> c = c' -> d = d' -> (a, b, c, d) = (a', b', c', d').
Proof. intros -> -> -> ->. reflexivity. Qed.

Lemma st_outer_same new : forall o rest ns l u s r zs,
  Forall (fun c => 0 <= c) new -> zeros zs -> new = zs ++ o :: rest ->
  st_outer new o rest ns ns l u s r = (l + zsum new, u + zsum new, s + zsum new, r + zsum new).
Proof.
  induction new as [|c new' IH]; intros o rest ns l u s r zs Hnew Hz Heq.
  - destruct zs; discriminate.
  - inversion Hnew as [|x y Hc Hnew']; subst x y.
    cbn [st_outer zsum]. cbv zeta.
    destruct zs as [|z zs1].
    + (* the current new block is the current old block *)
      cbn [app] in Heq. injection Heq as -> ->.
      inversion Hnew as [|x y Ho Hrest]; subst x y.
      destruct rest as [|o1 rest1].
      * cbn [st_inner st_outer zsum]. unfold st_visit.
        replace (Z.min (ns + o) (ns + o) - Z.max ns ns) with o by lia.
        destruct (0 <? o) eqn:E.
        -- rewrite Z.eqb_refl. cbn [st_outer]. replace (0 + 1 <=? 1) with true by lia.
           apply tup4_eq; lia.
        -- cbn [st_outer]. replace (0 <=? 1) with true by lia.
           apply tup4_eq; lia.
      * inversion Hrest as [|x y Ho1 Hrest1]; subst x y.
        cbn [st_inner]. unfold st_visit at 1.
        replace (Z.min (ns + o) (ns + o) - Z.max ns ns) with o by lia.
        replace (ns + o <=? ns + o) with true by lia.
        destruct (0 <? o) eqn:E.
        -- rewrite Z.eqb_refl.
           destruct (st_inner_skip rest1 o1 ns (ns + o) (Z.max 0 o) (0 + 1) (u + o) (r + o) Ho1 Hrest1 ltac:(lia))
             as (zs' & o' & rest' & Hz' & Heq' & Hst).
           rewrite Hst. replace (0 + 1 <=? 1) with true by lia.
           rewrite (IH o' rest' (ns + o) _ _ _ _ zs' Hrest Hz' Heq').
           apply tup4_eq; lia.
        -- destruct (st_inner_skip rest1 o1 ns (ns + o) 0 0 u r Ho1 Hrest1 ltac:(lia))
             as (zs' & o' & rest' & Hz' & Heq' & Hst).
           rewrite Hst. replace (0 <=? 1) with true by lia.
           rewrite (IH o' rest' (ns + o) _ _ _ _ zs' Hrest Hz' Heq').
           apply tup4_eq; lia.
    + (* an empty new block; the old pointer is already past it *)
      cbn [app] in Heq. injection Heq as -> ->.
      inversion Hz as [|x y Hz0 Hz1]; subst x y. subst z.
      assert (Hall : Forall (fun c => 0 <= c) (o :: rest)).
      { apply Forall_app in Hnew'. apply Hnew'. }
      inversion Hall as [|x y Ho Hrest]; subst x y.
      replace (ns + 0) with ns by lia.
      destruct (st_inner_skip rest o ns ns 0 0 u r Ho Hrest ltac:(lia))
        as (zs' & o' & rest' & Hz' & Heq' & Hst).
      rewrite Hst. replace (0 <=? 1) with true by lia.
      rewrite (IH o' rest' ns _ _ _ _ (zs1 ++ zs') Hnew' (zeros_app _ _ Hz1 Hz')).
      * apply tup4_eq; lia.
      * rewrite Heq', app_assoc. reflexivity.
Qed.

Theorem stage_axis_same old :
  nonneg_layout old ->
  stage_axis old old = Some (zsum old, zsum old, zsum old, zsum old, zsum old).
Proof.
  intros Ho. unfold stage_axis. destruct old as [|o rest]; [reflexivity|].
  rewrite (st_outer_same (o :: rest) o rest 0 0 0 0 0 [] Ho ltac:(constructor) eq_refl).
  reflexivity.
Qed.

Lemma tup5_eq (a b c d e a' b' c' d' e' : Z) :
  a = a' -> b = b' -> c = c' -> d = d' -> e = e' -> (a, b, c, d, e) = (a', b', c', d', e').
Proof. intros -> -> -> -> ->. reflexivity. Qed.

Lemma stage_prods_same olds : forall pT pL pR pU pS,
  Forall nonneg_layout olds ->
  stage_prods olds olds pT pL pR pU pS =
  Some (pT * zprod (map zsum olds), pL * zprod (map zsum olds), pR * zprod (map zsum olds),
        pU * zprod (map zsum olds), pS * zprod (map zsum olds)).
Proof.
  induction olds as [|old olds' IH]; intros pT pL pR pU pS HF; cbn [stage_prods map zprod].
  - f_equal. apply tup5_eq; lia.
  - inversion HF as [|a b Ho HF']; subst a b.
    rewrite (stage_axis_same old Ho). rewrite (IH _ _ _ _ _ HF').
    f_equal. apply tup5_eq; ring.
Qed.

Theorem rechunk_same_zero olds itemsize :
  Forall nonneg_layout olds -> rechunk_stage_transfer olds olds itemsize = Some (0, 0).
Proof.
  intros HF. unfold rechunk_stage_transfer. rewrite (stage_prods_same olds 1 1 1 1 1 HF).
  f_equal. f_equal; ring.
Qed.


(* P2P to the same chunks: min is 0 but max stays array.nbytes *)
Theorem p2p_same olds itemsize :
  Forall nonneg_layout olds ->
  p2p_transfer olds olds itemsize = Some (0, zprod (map zsum olds) * itemsize).
Proof. intros HF. unfold p2p_transfer. rewrite (rechunk_same_zero olds itemsize HF). reflexivity. Qed.

(* ---------------------------------------------------------------------- *)
(* moved_fraction uses the same min-model as _rechunk_stage_transfer: its scan and the
   stage scan move the same pointer and keep the same `best` *)
Lemma mf_inner_sim rest : forall o ss ds de best nsrc u r f,
  (length rest < f)%nat -> 0 <= best ->
  forall o' rest' os' b' n' u' r',
  st_inner rest o ss ds de best nsrc u r = (o', rest', os', b', n', u', r') ->
  mf_inner f (o :: rest) ss ds de best = (o' :: rest', os', b') /\ 0 <= b'.
Proof.
  induction rest as [|o1 rest1 IH]; intros o ss ds de best nsrc u r f Hf Hb o' rest' os' b' n' u' r' H;
    (destruct f as [|f]; [cbn [length] in Hf; lia|]); cbn [st_inner] in H; cbn [mf_inner];
    unfold st_visit in H;
    set (ov := Z.min (ss + o) de - Z.max ss ds) in *.
  - destruct (0 <? ov) eqn:E; injection H as <- <- <- <- <- <- <-.
    + destruct (ov >? best) eqn:E2; split; try lia; repeat f_equal; lia.
    + destruct (ov >? best) eqn:E2; split; try lia; repeat f_equal; lia.
  - assert (Hbest : (if ov >? best then ov else best) = (if 0 <? ov then Z.max best ov else best)).
    { destruct (ov >? best) eqn:E2; destruct (0 <? ov) eqn:E; lia. }
    rewrite Hbest.
    destruct (ss + o <=? de) eqn:E3.
    + destruct (0 <? ov) eqn:E.
      * apply (IH _ _ _ _ _ _ _ _ f) in H; [exact H | cbn [length] in Hf; lia | lia].
      * apply (IH _ _ _ _ _ _ _ _ f) in H; [exact H | cbn [length] in Hf; lia | lia].
    + destruct (0 <? ov) eqn:E; injection H as <- <- <- <- <- <- <-; split; try reflexivity; lia.
Qed.

Lemma mf_outer_sim dst : forall o rest ss ds moved l u s r l' u' s' r',
  st_outer dst o rest ss ds l u s r = (l', u', s', r') ->
  mf_outer (o :: rest) ss ds dst moved = moved + zsum dst - (l' - l).
Proof.
  induction dst as [|c dst' IH]; intros o rest ss ds moved l u s r l' u' s' r' H; cbn [st_outer] in H; cbn [mf_outer zsum].
  - injection H as <- <- <- <-. lia.
  - cbv zeta in H.
    destruct (st_inner rest o ss ds (ds + c) 0 0 u r) as [[[[[[o1 rest1] os1] best] nsrc] u1] r1] eqn:E.
    destruct (mf_inner_sim rest o ss ds (ds + c) 0 0 u r (S (length (o :: rest))) ltac:(cbn [length]; lia) ltac:(lia) _ _ _ _ _ _ _ E)
      as [E2 _].
    rewrite E2. rewrite (IH _ _ _ _ _ _ _ _ _ _ _ _ _ H). lia.
Qed.

(* the numerator of moved_fraction is t_ax - l_ax of the rechunk stage src -> dst *)
Theorem moved_fraction_is_stage_min src dst t l r u s :
  zsum dst = zsum src -> zsum src <> 0 -> src <> dst ->
  stage_axis src dst = Some (t, l, r, u, s) ->
  moved_fraction src dst = (t - l, t).
Proof.
  intros Hs Hz Hne H. unfold moved_fraction.
  destruct ((zsum src =? 0) || zlist_eqb src dst) eqn:E1.
  { apply orb_true_iff in E1. destruct E1 as [E1|E1]; [lia|]. apply zlist_eqb_eq in E1. congruence. }
  replace (zsum dst =? zsum src) with true by (symmetry; apply Z.eqb_eq; exact Hs). cbn [negb].
  unfold stage_axis in H. destruct src as [|o rest]; [cbn [zsum] in Hz; lia|].
  destruct (st_outer dst o rest 0 0 0 0 0 0) as [[[l1 u1] s1] r1] eqn:E.
  injection H as <- <- <- <- <-.
  rewrite (mf_outer_sim _ _ _ _ _ 0 _ _ _ _ _ _ _ _ E). f_equal. cbn [zsum] in *. lia.
Qed.

(* ====================================================================== *)
(* SliceSlicesIntegers *)
Lemma nthZ_nonneg l i : nonneg_layout l -> 0 <= nthZ l i.
Proof.
  intros H. unfold nthZ. destruct (nth_in_or_default (Z.to_nat i) l 0) as [Hin|Heq]; [|rewrite Heq; lia].
  unfold nonneg_layout in H. rewrite Forall_forall in H. apply H. exact Hin.
Qed.

Lemma alias_le_reads lengths plan :
  nonneg_layout lengths -> 0 <= alias_ax lengths plan /\ alias_ax lengths plan <= reads_ax lengths plan.
Proof.
  intros H. unfold alias_ax, reads_ax. induction plan as [|e plan IH]; cbn [map zsum]; [lia|].
  pose proof (nthZ_nonneg lengths (fst e) H).
  destruct (ploc_eqb (snd e) (LSlice colon)); lia.
Qed.

Lemma slice_prods_bounds shape : forall chunks index reads aliased r a,
  Forall nonneg_layout chunks -> 0 <= aliased <= reads ->
  slice_prods shape chunks index reads aliased = (r, a) -> 0 <= a /\ a <= r.
Proof.
  induction shape as [|d shape' IH]; intros chunks index reads aliased r a HF Hb H.
  - cbn [slice_prods] in H. injection H as <- <-. lia.
  - destruct chunks as [|c chunks']; [cbn [slice_prods] in H; injection H as <- <-; lia|].
    destruct index as [|i index']; [cbn [slice_prods] in H; injection H as <- <-; lia|].
    cbn [slice_prods] in H. cbv zeta in H.
    inversion HF as [|x y Hc HF']; subst x y.
    pose proof (alias_le_reads c (slice_axis_plan d c i) Hc) as [A1 A2].
    apply IH in H; [exact H | exact HF' | apply mul_le_mono_nn; lia].
Qed.

Theorem slice_wellformed shape chunks index allow itemsize :
  0 <= itemsize -> Forall nonneg_layout chunks ->
  wellformed (slice_transfer shape chunks index allow itemsize).
Proof.
  intros Hi HF. unfold slice_transfer, wellformed.
  destruct (slice_prods shape chunks (index ++ repeat (ISlice colon) (length shape - length index)) 1 1)
    as [r a] eqn:E.
  apply slice_prods_bounds in E; [|exact HF|lia].
  cbn [fst snd]. destruct allow; nia.
Qed.

(* ====================================================================== *)
(* PartialReduce *)
Lemma zmax_ne_bounds g : nonneg_layout g -> 0 <= zmax_ne g /\ zmax_ne g <= zsum g.
Proof.
  intros H. destruct g as [|x t]; cbn [zmax_ne zsum]; [lia|].
  inversion H as [|a b Hx Ht]; subst a b. clear H.
  induction t as [|y t IH]; cbn [fold_right zsum]; [lia|].
  inversion Ht as [|a b Hy Ht']; subst a b. specialize (IH Ht'). lia.
Qed.

Lemma zsum_firstn_skipn k l : zsum (firstn k l) + zsum (skipn k l) = zsum l.
Proof. rewrite <- zsum_app, firstn_skipn. reflexivity. Qed.

Lemma group_max_sum_bounds fuel : forall k l,
  nonneg_layout l -> 0 <= group_max_sum fuel k l /\ group_max_sum fuel k l <= zsum l.
Proof.
  induction fuel as [|f IH]; intros k l H; cbn [group_max_sum].
  - pose proof (zsum_nonneg l H). lia.
  - destruct l as [|x t] eqn:El; [cbn [zsum]; lia|]. rewrite <- El in *.
    assert (H1 : nonneg_layout (firstn k l)).
    { unfold nonneg_layout in *. rewrite Forall_forall in *. intros z Hz. apply H.
      rewrite <- (firstn_skipn k l). apply in_or_app. left. exact Hz. }
    assert (H2 : nonneg_layout (skipn k l)).
    { unfold nonneg_layout in *. rewrite Forall_forall in *. intros z Hz. apply H.
      rewrite <- (firstn_skipn k l). apply in_or_app. right. exact Hz. }
    pose proof (zmax_ne_bounds _ H1). pose proof (IH k _ H2). pose proof (zsum_firstn_skipn k l). lia.
Qed.

Lemma pr_axis_bounds sp c f :
  nonneg_layout c -> pr_axis sp c = Some f -> 0 <= f /\ f <= zsum c.
Proof.
  intros H. unfold pr_axis. destruct sp as [k|].
  - destruct (k <? 1); [discriminate|]. intros E. injection E as <-. apply group_max_sum_bounds. exact H.
  - intros E. injection E as <-. pose proof (zsum_nonneg c H). lia.
Qed.

Lemma pr_largest_bounds splits : forall chunks acc g lg,
  length splits = length chunks -> Forall nonneg_layout chunks -> 0 <= acc <= g ->
  pr_largest splits chunks acc = Some lg ->
  0 <= lg /\ lg <= g * zprod (map zsum chunks).
Proof.
  induction splits as [|sp splits' IH]; intros chunks acc g lg Hlen HF Hb H.
  - destruct chunks; [|discriminate]. cbn [pr_largest] in H. injection H as <-. cbn [map zprod]. lia.
  - destruct chunks as [|c chunks']; [discriminate|]. cbn [pr_largest] in H.
    inversion HF as [|x y Hc HF']; subst x y.
    destruct (pr_axis sp c) as [f|] eqn:E; [|discriminate].
    apply pr_axis_bounds in E; [|exact Hc].
    apply (IH _ _ (g * zsum c)) in H; [| cbn [length] in Hlen; lia | exact HF' | apply mul_le_mono_nn; lia].
    cbn [map zprod]. replace (g * (zsum c * zprod (map zsum chunks'))) with (g * zsum c * zprod (map zsum chunks')) by ring.
    exact H.
Qed.

Theorem partial_reduce_wellformed splits chunks itemsize lo hi :
  0 <= itemsize -> length splits = length chunks -> Forall nonneg_layout chunks ->
  partial_reduce_transfer splits chunks itemsize = Some (lo, hi) ->
  0 <= lo /\ lo <= hi.
Proof.
  intros Hi Hlen HF H. unfold partial_reduce_transfer in H.
  destruct (pr_largest splits chunks 1) as [lg|] eqn:E; [|discriminate].
  injection H as <- <-.
  apply (pr_largest_bounds _ _ _ 1) in E; try assumption; try lia.
  split; nia.
Qed.

(* ====================================================================== *)
(* exact rationals *)
Lemma qadd_wf a b c d : qwellformed a b -> qwellformed c d -> qwellformed (qadd a c) (qadd b d).
Proof.
  destruct a as [a1 a2], b as [b1 b2], c as [c1 c2], d as [d1 d2].
  unfold qwellformed, qle, qadd. cbn [fst snd].
  intros (A1 & A2 & A3 & A4) (C1 & C2 & C3 & C4).
  assert (0 < a2 * c2) by nia. assert (0 < b2 * d2) by nia.
  repeat split; try assumption; [nia|].
  assert (E1 : a1 * b2 * (c2 * d2) <= b1 * a2 * (c2 * d2)) by (apply Z.mul_le_mono_nonneg_r; nia).
  assert (E2 : c1 * d2 * (a2 * b2) <= d1 * c2 * (a2 * b2)) by (apply Z.mul_le_mono_nonneg_r; nia).
  nia.
Qed.

(* ====================================================================== *)
(* Blockwise *)
Lemma bw_fanout_pos out arg : 1 <= bw_fanout out arg.
Proof.
  unfold bw_fanout. assert (G : forall acc, 1 <= acc ->
    1 <= fold_left (fun acc e => let '(i, n) := e in
             if (1 <? n) && (match assoc_get i arg with Some m => m | None => 1 end =? 1)
             then acc * n else acc) out acc).
  { induction out as [|[i n] out' IH]; intros acc Hacc; cbn [fold_left]; [exact Hacc|].
    apply IH. destruct (1 <? n) eqn:E; cbn [andb]; [|exact Hacc].
    destruct (_ =? 1); [nia | exact Hacc]. }
  apply G. lia.
Qed.

Lemma bw_gather_pos out ind : forall nb, Forall (fun n => 1 <= n) nb -> 1 <= bw_gather out ind nb.
Proof.
  induction ind as [|i ind' IH]; intros nb H; cbn [bw_gather]; [lia|].
  destruct nb as [|n nb']; [lia|]. inversion H as [|x y Hn H']; subst x y.
  specialize (IH nb' H'). destruct (assoc_get i out); [exact IH | nia].
Qed.

Definition bw_arg_ok (a : Z * list Z * list Z * Z) : Prop :=
  let '(_, _, nb, nbytes) := a in 0 <= nbytes /\ Forall (fun n => 1 <= n) nb.

Lemma bw_arg_wf out ind nb nbytes lo hi :
  0 <= nbytes -> Forall (fun n => 1 <= n) nb ->
  bw_arg out ind nb nbytes = (lo, hi) -> qwellformed lo (hi, 1).
Proof.
  intros Hn Hnb H. unfold bw_arg in H. injection H as <- <-.
  pose proof (bw_fanout_pos out (zipdict ind nb)) as Hf.
  pose proof (bw_gather_pos out ind nb Hnb) as Hg.
  set (f := bw_fanout out (zipdict ind nb)) in *. set (g := bw_gather out ind nb) in *.
  assert (Hfg : 1 <= f * g) by nia.
  unfold qwellformed, qle. cbn [fst snd]. repeat split; nia.
Qed.

Lemma bw_loop_wf out args : forall seen lo hi lo' hi',
  Forall bw_arg_ok args -> qwellformed lo (hi, 1) ->
  bw_loop out args seen lo hi = (lo', hi') -> qwellformed lo' (hi', 1).
Proof.
  induction args as [|[[[name ind] nb] nbytes] args' IH]; intros seen lo hi lo' hi' HF Hw H; cbn [bw_loop] in H.
  - injection H as <- <-. exact Hw.
  - inversion HF as [|x y Hok HF']; subst x y. unfold bw_arg_ok in Hok. destruct Hok as [Hn Hnb].
    destruct (existsb (bw_key_eqb (name, ind)) seen); [apply (IH _ _ _ _ _ HF' Hw H)|].
    destruct (bw_arg out ind nb nbytes) as [alo ahi] eqn:E.
    apply bw_arg_wf in E; try assumption.
    apply (IH _ _ _ _ _ HF') in H; [exact H|].
    pose proof (qadd_wf _ _ _ _ Hw E) as Q. unfold qadd at 2 in Q. cbn [fst snd] in Q.
    replace (hi * 1 + ahi * 1) with (hi + ahi) in Q by lia. exact Q.
Qed.

Theorem blockwise_wellformed out_ind out_nb args lo hi :
  Forall bw_arg_ok args ->
  blockwise_transfer out_ind out_nb args = (lo, hi) -> qwellformed lo (hi, 1).
Proof.
  intros HF H. unfold blockwise_transfer in H.
  apply (bw_loop_wf _ _ _ _ _ _ _ HF) in H; [exact H|].
  unfold qwellformed, qle. cbn [fst snd]. lia.
Qed.

(* ====================================================================== *)
(* the ArrayExpr default *)
Lemma dflt_dep_wf ob db nbytes lo hi :
  0 <= ob -> 0 <= nbytes -> dflt_dep ob db nbytes = (lo, hi) -> qwellformed lo hi.
Proof.
  intros Hob Hn H. unfold dflt_dep in H.
  destruct (Z.max 1 db <=? ob) eqn:E; injection H as <- <-;
    unfold qwellformed, qle; cbn [fst snd]; repeat split; nia.
Qed.

Definition dflt_dep_ok (d : Z * Z * Z) : Prop := let '(_, _, nbytes) := d in 0 <= nbytes.

Lemma dflt_loop_wf ob deps : forall seen lo hi lo' hi',
  0 <= ob -> Forall dflt_dep_ok deps -> qwellformed lo hi ->
  dflt_loop ob deps seen lo hi = (lo', hi') -> qwellformed lo' hi'.
Proof.
  induction deps as [|[[name db] nbytes] deps' IH]; intros seen lo hi lo' hi' Hob HF Hw H; cbn [dflt_loop] in H.
  - injection H as <- <-. exact Hw.
  - inversion HF as [|x y Hn HF']; subst x y. unfold dflt_dep_ok in Hn.
    destruct (existsb (Z.eqb name) seen); [apply (IH _ _ _ _ _ Hob HF' Hw H)|].
    destruct (dflt_dep ob db nbytes) as [dlo dhi] eqn:E.
    apply dflt_dep_wf in E; try assumption.
    apply (IH _ _ _ _ _ Hob HF') in H; [exact H|]. apply qadd_wf; assumption.
Qed.

Theorem default_wellformed ob deps lo hi :
  0 <= ob -> Forall dflt_dep_ok deps ->
  default_transfer ob deps = (lo, hi) -> qwellformed lo hi.
Proof.
  intros Hob HF H. unfold default_transfer in H.
  apply (dflt_loop_wf _ _ _ _ _ _ _ Hob HF) in H; [exact H|].
  unfold qwellformed, qle. cbn [fst snd]. lia.
Qed.

(* a node without array dependencies (a leaf) moves nothing *)
Theorem default_leaf_zero ob : default_transfer ob [] = ((0, 1), (0, 1)).
Proof. reflexivity. Qed.

(* ====================================================================== *)
(* alias nodes *)
Theorem alias_zero : alias_transfer = (0, 0).
Proof. reflexivity. Qed.
