(* Proofs about the advertised-chunks rule ProgChunks.pchunks. *)
From Coq Require Import ZifyBool.
From DA Require Import PyBase PyBaseFacts Slicing NormalizeFacts Slice1dBase Slice1dFacts NdArray NdArrayFacts ProgSem ProgSemFacts ProgSemLaws ProgChunks.
Open Scope Z_scope.
Ltac Zify.zify_post_hook ::= Z.to_euclidean_division_equations.

Lemma pchunks_PN orc o ps :
  pchunks orc (PN o ps) =
  match sequence (pchunks_from orc 0 ps) with Some css => n_chunks o (orc []) css | None => None end.
Proof.
  cbn [pchunks].
  assert (H : forall l i, (fix go (i : nat) (l : list prog) {struct l} : list (option layout) :=
                 match l with [] => [] | q :: t => pchunks (sub orc i) q :: go (S i) t end) i l
              = pchunks_from orc i l).
  { induction l as [|q t IH]; intros i; [reflexivity|]. cbn [pchunks_from]. rewrite IH. reflexivity. }
  rewrite H. reflexivity.
Qed.

(* ---------------------------------------------------------------------- *)
(* layouts *)
Definition ax_ok (c : list Z) : Prop := Forall (fun x => 0 <= x) c /\ c <> [].

Lemma lay_ok_unfold cs s : lay_ok cs s <-> cshape cs = s /\ Forall ax_ok cs.
Proof. reflexivity. Qed.

Lemma axis_okb_iff c : axis_okb c = true <-> ax_ok c.
Proof.
  unfold axis_okb, ax_ok, all_nonneg. rewrite andb_true_iff, forallb_forall, Forall_forall. split.
  - intros [H1 H2]. split; [intros x Hx; specialize (H1 x Hx); lia | destruct c; [discriminate | discriminate]].
  - intros [H1 H2]. split; [intros x Hx; specialize (H1 x Hx); lia | destruct c; [congruence | reflexivity]].
Qed.

Lemma zlist_eqb_eq a : forall b, zlist_eqb a b = true <-> a = b.
Proof.
  unfold zlist_eqb. induction a as [|x a IH]; intros [|y b]; cbn [list_eqb]; split; intros H; try reflexivity; try discriminate.
  - apply andb_true_iff in H. destruct H as [H1 H2]. apply IH in H2. f_equal; [lia | exact H2].
  - injection H as -> ->. apply andb_true_iff. split; [lia | apply IH; reflexivity].
Qed.

Lemma zlist2_eqb_eq a : forall b, zlist2_eqb a b = true <-> a = b.
Proof.
  unfold zlist2_eqb. induction a as [|x a IH]; intros [|y b]; cbn [list_eqb]; split; intros H; try reflexivity; try discriminate.
  - apply andb_true_iff in H. destruct H as [H1 H2]. apply IH in H2. apply zlist_eqb_eq in H1. congruence.
  - injection H as -> ->. apply andb_true_iff. split; [apply zlist_eqb_eq; reflexivity | apply IH; reflexivity].
Qed.

Lemma layout_okb_iff cs s : layout_okb cs s = true <-> lay_ok cs s.
Proof.
  unfold layout_okb, lay_ok. rewrite andb_true_iff, zlist_eqb_eq, forallb_forall, Forall_forall.
  split; intros [H1 H2]; (split; [exact H1|]); intros c Hc; apply axis_okb_iff; apply H2; exact Hc.
Qed.

Lemma lay_ok_nil : lay_ok [] [].
Proof. split; [reflexivity | constructor]. Qed.

Lemma lay_ok_cons c cs n s : lay_ok (c :: cs) (n :: s) <-> (zsum c = n /\ ax_ok c) /\ lay_ok cs s.
Proof.
  unfold lay_ok, cshape. cbn [map]. split.
  - intros [H1 H2]. injection H1 as H1 H3. inversion H2 as [|c0 cs0 Hc Hcs]; subst.
    split; [split; [reflexivity | exact Hc] | split; [reflexivity | exact Hcs]].
  - intros [[H1 H2] [H3 H4]]. split; [congruence | constructor; assumption].
Qed.

Lemma lay_ok_length cs s : lay_ok cs s -> length cs = length s.
Proof. intros [H _]. rewrite <- H. unfold cshape. rewrite map_length. reflexivity. Qed.

Lemma lay_ok_inv_cons cs n s : lay_ok cs (n :: s) -> exists c cs', cs = c :: cs' /\ zsum c = n /\ ax_ok c /\ lay_ok cs' s.
Proof.
  destruct cs as [|c cs']; intros H; [destruct H as [H _]; discriminate|].
  apply lay_ok_cons in H. exists c, cs'. tauto.
Qed.

Lemma lay_ok_inv_nil cs : lay_ok cs [] -> cs = [].
Proof. intros [H _]. destruct cs; [reflexivity | discriminate]. Qed.

Lemma lay_ok_nonneg cs s : lay_ok cs s -> nonneg_shape s.
Proof.
  revert s. induction cs as [|c cs IH]; intros s H.
  - destruct H as [<- _]. constructor.
  - destruct s as [|n s]; [destruct H as [H _]; discriminate|].
    apply lay_ok_cons in H. destruct H as [[H1 [H2 _]] H3]. constructor; [|apply IH; exact H3].
    subst n. clear -H2. induction H2; cbn [zsum]; lia.
Qed.

Lemma ax_ok_singleton n : 0 <= n -> ax_ok [n].
Proof. intros H. split; [constructor; [exact H | constructor] | discriminate]. Qed.

(* ---------------------------------------------------------------------- *)
(* basic indexing *)
Lemma match_nonempty {A B} (d : list A) (x : B) (f : A -> B) :
  match d with [] => [x] | _ :: _ => map f d end <> [].
Proof. destruct d; cbn [map]; discriminate. Qed.

Lemma new_blockdim_ax_ok d db s :
  valid_chunks db d -> db <> [] -> normalized s d -> ax_ok (new_blockdim d db s).
Proof.
  intros Hv Hne Hn.
  destruct (pslice_eqb s colon) eqn:Ec.
  - unfold new_blockdim. rewrite Ec. split; [apply Hv | exact Hne].
  - assert (Hs : s <> colon). { intros ->. cbn in Ec. discriminate. }
    rewrite (new_blockdim_lengths d db s Hv Hn Hs). split.
    + apply Forall_forall. intros x Hx. apply in_map_iff in Hx. destruct Hx as (e & <- & _). lia.
    + destruct (plan_structure d db s Hv Hn Ec) as (pl & -> & _).
      intros Hm. apply map_eq_nil in Hm. revert Hm. unfold finish. apply match_nonempty.
Qed.

Lemma slice_axis_ok d db s :
  valid_chunks db d -> db <> [] -> step_of s <> 0 ->
  zsum (new_blockdim d db (normalize_slice s d)) = slice_len s d /\ ax_ok (new_blockdim d db (normalize_slice s d)).
Proof.
  intros Hv Hne Hk.
  assert (Hd : 0 <= d). { destruct Hv as [Hf <-]. clear -Hf. induction Hf; cbn [zsum]; lia. }
  pose proof (normalize_slice_normalized s d Hd Hk) as Hn.
  split.
  - rewrite (new_blockdim_sum d db _ Hv Hn). apply sel_eq_slice_len. apply normalize_slice_sel; assumption.
  - apply new_blockdim_ax_ok; assumption.
Qed.

Lemma ax_ok_valid c : ax_ok c -> valid_chunks c (zsum c) /\ c <> [].
Proof. intros [H1 H2]. split; [split; [exact H1 | reflexivity] | exact H2]. Qed.

Lemma slice_chunks_ok ix : forall cs s,
  lay_ok cs s -> ixokb ix s = true -> lay_ok (slice_chunks ix cs) (slice_shape ix s).
Proof.
  induction ix as [|i ix IH]; intros cs s Hl Hok; cbn [slice_chunks slice_shape].
  - exact Hl.
  - destruct i as [k|sl|]; cbn [ixokb] in Hok.
    + destruct s as [|n s]; [discriminate|]. apply andb_true_iff in Hok. destruct Hok as [_ Hok].
      destruct (lay_ok_inv_cons _ _ _ Hl) as (c & cs' & -> & _ & _ & Hl'). cbn [tl]. apply IH; assumption.
    + destruct s as [|n s]; [discriminate|]. apply andb_true_iff in Hok. destruct Hok as [Hk Hok].
      destruct (lay_ok_inv_cons _ _ _ Hl) as (c & cs' & -> & Hc & Hax & Hl'). cbn [tl hd].
      destruct (ax_ok_valid c Hax) as [Hv Hne].
      assert (Hk' : step_of sl <> 0) by lia.
      destruct (slice_axis_ok (zsum c) c sl Hv Hne Hk') as [H1 H2].
      apply lay_ok_cons. split; [split; [rewrite H1, Hc; reflexivity | exact H2] | apply IH; assumption].
    + apply lay_ok_cons. split; [split; [reflexivity | apply ax_ok_singleton; lia] | apply IH; assumption].
Qed.

(* ---------------------------------------------------------------------- *)
(* transpose / expand / squeeze / reductions *)
Lemma Forall_nth_in {A} (P : A -> Prop) (l : list A) k d : Forall P l -> (k < length l)%nat -> P (nth k l d).
Proof. intros H Hk. rewrite Forall_forall in H. apply H. apply nth_In. exact Hk. Qed.

Lemma transpose_chunks_ok axes cs s :
  lay_ok cs s -> is_permb axes (length s) = true -> lay_ok (pickn [] cs axes) (transpose_shape axes s).
Proof.
  intros Hl Hp. pose proof (lay_ok_length _ _ Hl) as Hlen. destruct Hl as [<- Hf].
  destruct (is_permb_spec _ _ Hp) as (_ & _ & Hin).
  split; unfold transpose_shape, pickn, cshape.
  - rewrite map_map. apply map_ext. intros j. change 0 with (zsum []). rewrite map_nth. reflexivity.
  - apply Forall_forall. intros c Hc. apply in_map_iff in Hc. destruct Hc as (j & <- & Hj).
    apply Forall_nth_in; [exact Hf|]. apply Hin in Hj. unfold cshape in Hj. rewrite map_length in Hj. exact Hj.
Qed.

Lemma cshape_insert_at k c cs : cshape (insert_at k c cs) = insert_at k (zsum c) (cshape cs).
Proof. unfold insert_at, cshape. rewrite map_app, firstn_map, skipn_map. reflexivity. Qed.

Lemma cshape_remove_at k cs : cshape (remove_at k cs) = remove_at k (cshape cs).
Proof. unfold remove_at, cshape. rewrite map_app, firstn_map, skipn_map. reflexivity. Qed.

Lemma lay_ok_insert_at k c cs n s : zsum c = n -> ax_ok c -> lay_ok cs s -> lay_ok (insert_at k c cs) (insert_at k n s).
Proof.
  intros Hc Hax [<- Hf]. split; [rewrite cshape_insert_at, Hc; reflexivity|].
  unfold insert_at. apply Forall_app. split; [apply Forall_firstn; exact Hf | constructor; [exact Hax | apply Forall_skipn; exact Hf]].
Qed.

Lemma lay_ok_remove_at k cs s : lay_ok cs s -> lay_ok (remove_at k cs) (remove_at k s).
Proof.
  intros [<- Hf]. split; [apply cshape_remove_at|].
  unfold remove_at. apply Forall_app. split; [apply Forall_firstn; exact Hf | apply Forall_skipn; exact Hf].
Qed.

Lemma red_kchunks_ok axes cs : forall pos s, lay_ok cs s -> lay_ok (red_kchunks pos axes cs) (red_kshape pos axes s).
Proof.
  induction cs as [|c cs IH]; intros pos s Hl.
  - destruct Hl as [<- _]. exact lay_ok_nil.
  - destruct s as [|n s]; [destruct Hl as [Hl _]; discriminate|]. apply lay_ok_cons in Hl. destruct Hl as [[H1 H2] H3].
    cbn [red_kchunks red_kshape]. apply lay_ok_cons. split; [|apply IH; exact H3].
    destruct (memn pos axes); [split; [reflexivity | apply ax_ok_singleton; lia] | split; assumption].
Qed.

Lemma red_dchunks_ok axes cs : forall pos s, lay_ok cs s -> lay_ok (red_dchunks pos axes cs) (drop_axes_from pos axes s).
Proof.
  induction cs as [|c cs IH]; intros pos s Hl.
  - destruct Hl as [<- _]. exact lay_ok_nil.
  - destruct s as [|n s]; [destruct Hl as [Hl _]; discriminate|]. apply lay_ok_cons in Hl. destruct Hl as [[H1 H2] H3].
    cbn [red_dchunks drop_axes_from]. destruct (memn pos axes); [apply IH; exact H3|].
    apply lay_ok_cons. split; [split; assumption | apply IH; exact H3].
Qed.

(* ---------------------------------------------------------------------- *)
(* a slice on one axis *)
Lemma ax_index_ok ax sl : forall s, ixokb (ax_index ax sl) s = ltn ax (length s) && negb (step_of sl =? 0).
Proof.
  unfold ax_index, ltn. induction ax as [|ax IH]; intros [|n s]; cbn [repeat app ixokb length]; try reflexivity.
  - rewrite andb_true_r. reflexivity.
  - rewrite IH. reflexivity.
Qed.

Lemma ax_index_shape ax sl : forall s, nonneg_shape s -> (ax < length s)%nat ->
  slice_shape (ax_index ax sl) s = set_nth ax (slice_len sl (nth ax s 0)) s.
Proof.
  unfold ax_index. induction ax as [|ax IH]; intros [|n s] Hn Hl; cbn [length] in Hl; try lia;
    inversion Hn; subst; cbn [repeat app slice_shape hd tl set_nth nth].
  - reflexivity.
  - rewrite slice_len_colon by assumption. f_equal. apply IH; [assumption | lia].
Qed.

Lemma ax_slice_ok ax sl cs s :
  lay_ok cs s -> (ax < length s)%nat -> step_of sl <> 0 ->
  lay_ok (slice_chunks (ax_index ax sl) cs) (set_nth ax (slice_len sl (nth ax s 0)) s).
Proof.
  intros Hl Hax Hk. rewrite <- (ax_index_shape ax sl s (lay_ok_nonneg _ _ Hl) Hax).
  apply slice_chunks_ok; [exact Hl|]. rewrite ax_index_ok. unfold ltn.
  apply andb_true_iff. split; [apply Nat.ltb_lt; exact Hax | lia].
Qed.

Lemma flip_chunks_ok ax cs s : lay_ok cs s -> (ax < length s)%nat -> lay_ok (slice_chunks (flip_index ax) cs) s.
Proof.
  intros Hl Hax. pose proof (flip_index_shape ax s (lay_ok_nonneg _ _ Hl) Hax) as E.
  assert (G : lay_ok (slice_chunks (flip_index ax) cs) (slice_shape (flip_index ax) s)); [|rewrite E in G; exact G].
  apply slice_chunks_ok; [exact Hl|]. rewrite flip_index_ok. unfold ltn. apply Nat.ltb_lt. exact Hax.
Qed.

(* ---------------------------------------------------------------------- *)
(* element-wise: the deterministic case (all array operands carry the same layout) *)
Lemma rbshape_same a : rbshape a a = a.
Proof. induction a as [|x a IH]; cbn [rbshape]; [reflexivity|]. rewrite IH. unfold bdim. destruct (x =? 1); reflexivity. Qed.

Lemma rbshape_nil_r a : rbshape a [] = a.
Proof. destruct a; reflexivity. Qed.

Lemma bshape_same a : bshape a a = a.
Proof. unfold bshape. rewrite rbshape_same. apply rev_involutive. Qed.
Lemma bshape_nil_l a : bshape [] a = a.
Proof. unfold bshape. cbn [rev rbshape]. apply rev_involutive. Qed.
Lemma bshape_nil_r a : bshape a [] = a.
Proof. unfold bshape. cbn [rev]. rewrite rbshape_nil_r. apply rev_involutive. Qed.

Lemma lay_ok_fun cs s t : lay_ok cs s -> lay_ok cs t -> s = t.
Proof. intros [<- _] [<- _]. reflexivity. Qed.

Lemma bshape_all_uniform c0 s0 css : forall ss,
  Forall2 lay_ok css ss -> lay_ok c0 s0 -> (forall c, In c css -> c = [] \/ c = c0) ->
  bshape_all ss = s0 \/ (bshape_all ss = [] /\ forall c, In c css -> c = []).
Proof.
  intros ss H. induction H as [|c s css ss Hc _ IH]; intros H0 Hall.
  - right. split; [reflexivity | intros c []].
  - cbn [bshape_all fold_right]. change (fold_right bshape [] ss) with (bshape_all ss).
    assert (IH' := IH H0 (fun c' Hc' => Hall c' (or_intror Hc'))).
    destruct (Hall c (or_introl eq_refl)) as [-> | ->].
    + assert (s = []) as -> by (destruct Hc as [<- _]; reflexivity). rewrite bshape_nil_l.
      destruct IH' as [E | [E Hn]]; [left; exact E | right; split; [exact E|]].
      intros c' [<- | Hc']; [reflexivity | apply Hn; exact Hc'].
    + assert (s = s0) as -> by (apply (lay_ok_fun c0); assumption). left.
      destruct IH' as [-> | [-> _]]; [apply bshape_same | apply bshape_nil_r].
Qed.

Lemma Forall2_In_l {A B} (R : A -> B -> Prop) l l' a : Forall2 R l l' -> In a l -> exists b, In b l' /\ R a b.
Proof.
  induction 1 as [|x y l l' Hxy _ IH]; intros Hin; [destruct Hin|].
  destruct Hin as [<- | Hin]; [exists y; split; [left; reflexivity | exact Hxy]|].
  destruct (IH Hin) as (b & Hb & Hr). exists b. split; [right; exact Hb | exact Hr].
Qed.

Lemma elem_chunks_ok ov css ss :
  Forall2 lay_ok css ss -> lay_ok ov (bshape_all ss) -> lay_ok (elem_chunks ov css) (bshape_all ss).
Proof.
  intros H2 Hov. unfold elem_chunks.
  destruct (filter (fun c => negb (is_nil c)) css) as [|c0 rest] eqn:Ef.
  - (* only rank-0 operands *)
    assert (Hall : forall c, In c css -> c = [] \/ c = []).
    { intros c Hc. left. destruct c as [|x c]; [reflexivity|].
      assert (In (x :: c) (filter (fun c => negb (is_nil c)) css)) as Hin by (apply filter_In; split; [exact Hc | reflexivity]).
      rewrite Ef in Hin. destruct Hin. }
    destruct (bshape_all_uniform [] [] css ss H2 lay_ok_nil Hall) as [-> | [-> _]]; exact lay_ok_nil.
  - destruct (forallb (zlist2_eqb c0) rest) eqn:Eall; [|exact Hov].
    assert (Hin0 : In c0 css /\ negb (is_nil c0) = true).
    { apply (proj1 (filter_In (fun c => negb (is_nil c)) c0 css)). rewrite Ef. left. reflexivity. }
    destruct Hin0 as [Hin0 Hnn].
    destruct (Forall2_In_l _ _ _ _ H2 Hin0) as (s0 & _ & Hl0).
    assert (Hall : forall c, In c css -> c = [] \/ c = c0).
    { intros c Hc. destruct c as [|x c]; [left; reflexivity | right].
      assert (In (x :: c) (c0 :: rest)) as Hin by (rewrite <- Ef; apply filter_In; split; [exact Hc | reflexivity]).
      destruct Hin as [<- | Hin]; [reflexivity|].
      rewrite forallb_forall in Eall. specialize (Eall _ Hin). apply zlist2_eqb_eq in Eall. congruence. }
    destruct (bshape_all_uniform c0 s0 css ss H2 Hl0 Hall) as [-> | [_ Hn]]; [exact Hl0|].
    specialize (Hn c0 Hin0). subst c0. discriminate.
Qed.

(* ---------------------------------------------------------------------- *)
(* broadcast_to *)
Lemma lay_ok_app a s b t : lay_ok a s -> lay_ok b t -> lay_ok (a ++ b) (s ++ t).
Proof.
  intros [<- Ha] [<- Hb]. split; [unfold cshape; apply map_app | apply Forall_app; split; assumption].
Qed.

Lemma lay_ok_singletons pre : nonneg_shape pre -> lay_ok (map (fun n => [n]) pre) pre.
Proof.
  induction 1 as [|n pre Hn _ IH]; [exact lay_ok_nil|]. cbn [map]. apply lay_ok_cons.
  split; [split; [cbn [zsum]; lia | apply ax_ok_singleton; exact Hn] | exact IH].
Qed.

Lemma bcast_tail_ok cs : forall s suf, lay_ok cs s -> compat s suf -> nonneg_shape suf ->
  lay_ok (map3 (fun bd old new => if 1 <? old then bd else [new]) cs s suf) suf.
Proof.
  induction cs as [|c cs IH]; intros s suf Hl Hc Hn.
  - destruct Hl as [<- _]. destruct suf; [exact lay_ok_nil | destruct Hc].
  - destruct s as [|n s]; [destruct Hl as [Hl _]; discriminate|].
    destruct suf as [|m suf]; [destruct Hc|]. cbn [compat] in Hc. destruct Hc as [Hnm Hc].
    apply lay_ok_cons in Hl. destruct Hl as [[H1 H2] H3]. inversion Hn; subst.
    cbn [map3]. apply lay_ok_cons. split; [|apply IH; assumption].
    destruct (1 <? zsum c) eqn:E; [split; [lia | exact H2] | split; [cbn [zsum]; lia | apply ax_ok_singleton; assumption]].
Qed.

Lemma bcast_chunks_ok shp cs s :
  lay_ok cs s -> bcast_intob s shp = true -> all_nonneg shp = true -> lay_ok (bcast_chunks shp cs) shp.
Proof.
  intros Hl Hb Hn. unfold bcast_chunks.
  destruct (zlist_eqb (cshape cs) shp) eqn:E.
  - apply zlist_eqb_eq in E. destruct Hl as [Hs Hf]. split; [exact E | exact Hf].
  - apply bcast_intob_spec in Hb. destruct Hb as (pre & suf & -> & Hc).
    apply all_nonneg_iff in Hn. unfold nonneg_shape in Hn. apply Forall_app in Hn. destruct Hn as [Hn1 Hn2].
    pose proof (compat_length _ _ Hc) as Hlen. pose proof (lay_ok_length _ _ Hl) as Hlen2.
    assert (Hk : (length (pre ++ suf) - length cs)%nat = length pre) by (rewrite app_length; lia).
    rewrite Hk, firstn_app, Nat.sub_diag, firstn_all, firstn_O, app_nil_r.
    rewrite skipn_app, Nat.sub_diag, skipn_all, skipn_O. cbn [app].
    apply lay_ok_app; [apply lay_ok_singletons; exact Hn1|].
    destruct Hl as [Hs Hf]. rewrite Hs. apply bcast_tail_ok; [split; [exact Hs | exact Hf] | exact Hc | exact Hn2].
Qed.

(* ---------------------------------------------------------------------- *)
(* concatenate *)
Definition lay_wf (q : layout) : Prop := Forall ax_ok q.
(* every part has the rank of shape s and its dims, except along ax *)
Definition compat_all (ax : nat) (s : list Z) (ps : list layout) : Prop :=
  forall q, In q ps -> length q = length s /\ set_nth ax 0 (cshape q) = set_nth ax 0 s.

Definition concat_result (ax : nat) (ov : layout) (ps : list layout) : option layout :=
  match ps with
  | [] => None
  | [p] => Some p
  | p :: rest => Some (concat_axes 0 (length p) ax ov p rest)
  end.

Lemma concat_chunks_result ax ov parts :
  concat_chunks ax ov parts =
  concat_result ax ov (match filter (fun q => negb (lsize q =? 0)) parts with [] => parts | l => l end).
Proof.
  unfold concat_chunks, concat_result.
  destruct (filter (fun q => negb (lsize q =? 0)) parts) as [|a [|b l]]; reflexivity.
Qed.

Lemma skipn_nth_cons {A} (d : A) : forall i l, (i < length l)%nat -> skipn i l = nth i l d :: skipn (S i) l.
Proof.
  induction i as [|i IH]; intros [|x l] H; cbn [length] in H; try lia; [reflexivity|].
  cbn [skipn nth]. rewrite (IH l) by lia. reflexivity.
Qed.

Lemma zsum_app a b : zsum (a ++ b) = zsum a + zsum b.
Proof. induction a as [|x a IH]; cbn [app zsum]; lia. Qed.

Lemma zsum_concat l : zsum (concat l) = zsum (map zsum l).
Proof. induction l as [|x l IH]; cbn [concat map zsum]; [reflexivity|]. rewrite zsum_app, IH. reflexivity. Qed.

Lemma ax_ok_app_l a b : ax_ok a -> Forall (fun x => 0 <= x) b -> ax_ok (a ++ b).
Proof.
  intros [H1 H2] Hb. split; [apply Forall_app; split; assumption|]. destruct a; [congruence | discriminate].
Qed.

Lemma nonneg_concat l : Forall ax_ok l -> Forall (fun x => 0 <= x) (concat l).
Proof. induction 1 as [|c l [Hc _] _ IH]; cbn [concat]; [constructor | apply Forall_app; split; assumption]. Qed.

Lemma nth_cshape i q : nth i (cshape q) 0 = zsum (nth i q []).
Proof. unfold cshape. change 0 with (zsum []). apply map_nth. Qed.

Lemma set_nth_nth_eq k : forall a b v, set_nth k v a = set_nth k v b -> forall j, j <> k -> nth j a 0 = nth j b 0.
Proof.
  intros a b v H j Hj. rewrite <- (nth_set_nth_neq k j v a 0 (not_eq_sym Hj)), H. apply nth_set_nth_neq. congruence.
Qed.

Lemma concat_axes_ok ax ov p rest T n : forall i,
  (i + n = length p)%nat -> (ax < length p)%nat -> length T = length p ->
  lay_wf p -> Forall lay_wf rest -> (forall q, In q rest -> length q = length p) ->
  nth ax T 0 = zsum (map (fun q => nth ax (cshape q) 0) (p :: rest)) ->
  (forall j, j <> ax -> nth j T 0 = nth j (cshape p) 0) ->
  lay_ok ov T ->
  lay_ok (concat_axes i n ax ov p rest) (skipn i T).
Proof.
  induction n as [|n IH]; intros i Hin Hax HT Hp Hrest Hlen Hsum Hoth Hov.
  - cbn [concat_axes]. rewrite skipn_all2 by lia. exact lay_ok_nil.
  - cbn [concat_axes]. rewrite (skipn_nth_cons 0 i T) by lia. apply lay_ok_cons. split; [|apply IH; try assumption; lia].
    destruct (Nat.eqb i ax) eqn:Ei.
    + apply Nat.eqb_eq in Ei. subst i. split.
      * rewrite zsum_concat, map_map, Hsum. f_equal. apply map_ext. intros q. symmetry. apply nth_cshape.
      * cbn [map concat]. apply ax_ok_app_l; [apply Forall_nth_in; assumption|].
        apply nonneg_concat. apply Forall_forall. intros c Hc. apply in_map_iff in Hc. destruct Hc as (q & <- & Hq).
        rewrite Forall_forall in Hrest. apply Forall_nth_in; [apply Hrest; exact Hq | rewrite (Hlen q Hq); exact Hax].
    + apply Nat.eqb_neq in Ei.
      destruct (forallb (fun q => zlist_eqb (nth i q []) (nth i p [])) rest).
      * split; [rewrite (Hoth i Ei); symmetry; apply nth_cshape | apply Forall_nth_in; [exact Hp | lia]].
      * pose proof (lay_ok_length _ _ Hov) as Hlo. destruct Hov as [Ho1 Ho2].
        split; [rewrite <- Ho1; symmetry; apply nth_cshape | apply Forall_nth_in; [exact Ho2 | lia]].
Qed.

Lemma set_nth_set_nth k v w : forall l, set_nth k v (set_nth k w l) = set_nth k v l.
Proof. induction k as [|k IH]; intros [|x l]; cbn [set_nth]; try reflexivity. rewrite IH. reflexivity. Qed.

Lemma set_nth_change k v a b : set_nth k 0 a = set_nth k 0 b -> set_nth k v a = set_nth k v b.
Proof. intros H. rewrite <- (set_nth_set_nth k v 0 a), H. apply set_nth_set_nth. Qed.

Lemma concat_result_ok ax ov p rest r :
  (ax < length p)%nat -> lay_wf p -> Forall lay_wf rest -> compat_all ax (cshape p) rest ->
  lay_ok ov (concat_shape ax (cshape p) (map cshape rest)) ->
  concat_result ax ov (p :: rest) = Some r ->
  lay_ok r (concat_shape ax (cshape p) (map cshape rest)).
Proof.
  intros Hax Hp Hrest Hc Hov Hr.
  assert (Hlp : length (cshape p) = length p) by (unfold cshape; apply map_length).
  destruct rest as [|q rest'].
  - cbn [concat_result] in Hr. injection Hr as <-. unfold concat_shape. cbn [map zsum].
    rewrite Z.add_0_r, set_nth_same. split; [reflexivity | exact Hp].
  - set (rest := q :: rest') in *. assert (Hr' : r = concat_axes 0 (length p) ax ov p rest) by (cbn in Hr; congruence).
    subst r. set (T := concat_shape ax (cshape p) (map cshape rest)) in *.
    change T with (skipn 0 T). apply concat_axes_ok; try assumption.
    + lia.
    + unfold T, concat_shape. rewrite set_nth_length. exact Hlp.
    + intros q' Hq'. destruct (Hc q' Hq') as [Hl _]. rewrite Hl. exact Hlp.
    + unfold T, concat_shape. rewrite nth_set_nth_eq by lia. cbn [map]. rewrite map_map. reflexivity.
    + intros j Hj. unfold T, concat_shape. apply nth_set_nth_neq. congruence.
Qed.

(* an empty part dropped next to a non-empty part of the same other dims has length 0 along ax *)
Lemma prod_zero_axis ax : forall t u, set_nth ax 0 t = set_nth ax 0 u -> (ax < length t)%nat ->
  prodZ t = 0 -> prodZ u <> 0 -> nth ax t 0 = 0.
Proof.
  induction ax as [|ax IH]; intros [|a t] [|b u] H Hl Ht Hu; cbn [length] in Hl; try lia; cbn [set_nth] in H; try discriminate.
  - injection H as H. subst u. rewrite prodZ_cons in Ht, Hu. cbn [nth].
    apply Z.mul_eq_0 in Ht. destruct Ht as [Ht | Ht]; [exact Ht | rewrite Ht, Z.mul_0_r in Hu; congruence].
  - injection H as Hab H. subst b. rewrite prodZ_cons in Ht, Hu. cbn [nth].
    apply Z.mul_eq_0 in Ht. destruct Ht as [Ht | Ht]; [subst a; rewrite Z.mul_0_l in Hu; congruence|].
    apply (IH t u H); [lia | exact Ht | intros E; rewrite E, Z.mul_0_r in Hu; congruence].
Qed.

Lemma zsum_map_filter {A} (f : A -> bool) (g : A -> Z) l :
  (forall q, In q l -> f q = false -> g q = 0) -> zsum (map g (filter f l)) = zsum (map g l).
Proof.
  induction l as [|x l IH]; intros H; [reflexivity|]. cbn [filter map zsum].
  assert (IH' := IH (fun q Hq => H q (or_intror Hq))).
  destruct (f x) eqn:E; cbn [map zsum]; [lia|]. rewrite (H x (or_introl eq_refl) E). lia.
Qed.

Lemma concat_chunks_ok ax ov p0 prest r :
  (ax < length p0)%nat -> lay_wf p0 -> Forall lay_wf prest -> compat_all ax (cshape p0) prest ->
  lay_ok ov (concat_shape ax (cshape p0) (map cshape prest)) ->
  concat_chunks ax ov (p0 :: prest) = Some r ->
  lay_ok r (concat_shape ax (cshape p0) (map cshape prest)).
Proof.
  intros Hax Hp Hrest Hc Hov Hr. rewrite concat_chunks_result in Hr.
  set (f := fun q : layout => negb (lsize q =? 0)) in *.
  destruct (filter f (p0 :: prest)) as [|p' rest'] eqn:EF.
  - apply (concat_result_ok ax ov p0 prest r); assumption.
  - assert (Hlp : length (cshape p0) = length p0) by (unfold cshape; apply map_length).
    assert (Hall : forall q, In q (p0 :: prest) -> length q = length p0 /\ set_nth ax 0 (cshape q) = set_nth ax 0 (cshape p0) /\ lay_wf q).
    { intros q [<- | Hq]; [split; [reflexivity | split; [reflexivity | exact Hp]]|].
      destruct (Hc q Hq) as [H1 H2]. rewrite Forall_forall in Hrest. split; [lia | split; [exact H2 | apply Hrest; exact Hq]]. }
    assert (HF : forall q, In q (p' :: rest') -> In q (p0 :: prest) /\ f q = true).
    { intros q Hq. rewrite <- EF in Hq. apply filter_In in Hq. exact Hq. }
    destruct (HF p' (or_introl eq_refl)) as [Hp'in Hp'f].
    destruct (Hall p' Hp'in) as (Hp'l & Hp'c & Hp'w).
    assert (Hp'nz : prodZ (cshape p') <> 0). { unfold f, lsize in Hp'f. lia. }
    (* the shape is the same *)
    assert (ET : concat_shape ax (cshape p') (map cshape rest') = concat_shape ax (cshape p0) (map cshape prest)).
    { unfold concat_shape.
      change (cshape p' :: map cshape rest') with (map cshape (p' :: rest')).
      change (cshape p0 :: map cshape prest) with (map cshape (p0 :: prest)).
      rewrite <- EF, !map_map.
      rewrite (zsum_map_filter f (fun q => nth ax (cshape q) 0) (p0 :: prest)).
      - apply set_nth_change. exact Hp'c.
      - intros q Hq Hfq. destruct (Hall q Hq) as (Hql & Hqc & _).
        apply (prod_zero_axis ax (cshape q) (cshape p')).
        + rewrite Hqc, Hp'c. reflexivity.
        + unfold cshape. rewrite map_length. lia.
        + unfold f, lsize in Hfq. lia.
        + exact Hp'nz. }
    rewrite <- ET in Hov |- *.
    apply (concat_result_ok ax ov p' rest' r); try assumption.
    + lia.
    + apply Forall_forall. intros q Hq. destruct (HF q (or_intror Hq)) as [Hqin _]. apply (Hall q Hqin).
    + intros q Hq. destruct (HF q (or_intror Hq)) as [Hqin _]. destruct (Hall q Hqin) as (H1 & H2 & _).
      split; [unfold cshape; rewrite map_length; lia | rewrite H2, Hp'c; reflexivity].
Qed.

(* ---------------------------------------------------------------------- *)
(* stack *)
Lemma nth_insert_at {A} (k : nat) (v d : A) l : (k <= length l)%nat -> nth k (insert_at k v l) d = v.
Proof.
  intros H. unfold insert_at. rewrite app_nth2; rewrite firstn_length_le by exact H; [|lia].
  rewrite Nat.sub_diag. reflexivity.
Qed.

Lemma set_nth_insert_at k v w : forall l, (k <= length l)%nat -> set_nth k w (insert_at k v l) = insert_at k w l.
Proof.
  unfold insert_at. induction k as [|k IH]; intros l H.
  - reflexivity.
  - destruct l as [|x l]; cbn [length] in H; [lia|]. cbn [firstn skipn app set_nth]. f_equal. apply IH. lia.
Qed.

Lemma remove_insert_at {A} k (v : A) l : (k <= length l)%nat -> remove_at k (insert_at k v l) = l.
Proof.
  intros H. unfold remove_at, insert_at.
  rewrite firstn_app, firstn_firstn, Nat.min_id, firstn_length_le by exact H. rewrite Nat.sub_diag. cbn [firstn]. rewrite app_nil_r.
  replace (S k) with (length (firstn k l) + 1)%nat by (rewrite firstn_length_le by exact H; lia).
  rewrite skipn_app, skipn_all2 by lia.
  replace (length (firstn k l) + 1 - length (firstn k l))%nat with 1%nat by lia. cbn [skipn app].
  apply firstn_skipn.
Qed.

Lemma zsum_repeat_1 n : zsum (repeat 1 n) = Z.of_nat n.
Proof. induction n as [|n IH]; [reflexivity|]. cbn [repeat zsum]. lia. Qed.

Lemma ax_ok_repeat_1 n : (0 < n)%nat -> ax_ok (repeat 1 n).
Proof.
  intros H. split; [|destruct n; [lia | discriminate]].
  apply Forall_forall. intros x Hx. apply repeat_spec in Hx. lia.
Qed.

Lemma stack_shape ax s srest :
  (ax <= length s)%nat -> Forall (eq s) srest ->
  concat_shape ax (insert_at ax 1 s) (map (insert_at ax 1) srest) = insert_at ax (Z.of_nat (S (length srest))) s.
Proof.
  intros Hax Hall. unfold concat_shape. rewrite set_nth_insert_at by exact Hax. f_equal.
  change (insert_at ax 1 s :: map (insert_at ax 1) srest) with (map (insert_at ax 1) (s :: srest)).
  assert (G : forall l, Forall (eq s) l -> zsum (map (fun t => nth ax t 0) (map (insert_at ax 1) l)) = Z.of_nat (length l)).
  { induction 1 as [|t l <- _ IH]; [reflexivity|]. cbn [map zsum length]. rewrite IH, nth_insert_at by exact Hax. lia. }
  rewrite G; [reflexivity | constructor; [reflexivity | exact Hall]].
Qed.

(* ---------------------------------------------------------------------- *)
(* the lengths of the slices roll / diff / repeat use *)
Ltac slice_len_tac :=
  unfold slice_len, indices, adjust_endpoint, step_of, range_len; cbn [s_start s_stop s_step];
  change (1 <? 0) with false; change (1 >? 0) with true; cbv iota;
  repeat match goal with
         | |- context [if ?b then _ else _] =>
             lazymatch b with context [if _ then _ else _] => fail | _ => destruct b eqn:? end
         end; lia.

Lemma slice_len_split n a : 0 <= a <= n ->
  slice_len (mkslice (Some a) None None) n + slice_len (mkslice None (Some a) None) n = n.
Proof. intros H. slice_len_tac. Qed.

Lemma slice_len_from_1 n : 0 <= n -> slice_len (mkslice (Some 1) None None) n = Z.max (n - 1) 0.
Proof. intros H. slice_len_tac. Qed.

Lemma slice_len_to_m1 n : 0 <= n -> slice_len (mkslice None (Some (-1)) None) n = Z.max (n - 1) 0.
Proof. intros H. slice_len_tac. Qed.

Lemma slice_len_to_0 n : 0 <= n -> slice_len (mkslice None (Some 0) None) n = 0.
Proof. intros H. slice_len_tac. Qed.

(* ---------------------------------------------------------------------- *)
(* roll, diff *)
Lemma lay_ok_wf cs s : lay_ok cs s -> lay_wf cs.
Proof. intros [_ H]. exact H. Qed.

Lemma roll_chunks_ok shift ax ov cs s r :
  lay_ok cs s -> (ax < length s)%nat -> lay_ok ov s ->
  un_chunks (ORoll shift ax) ov cs = Some r -> lay_ok r s.
Proof.
  intros Hl Hax Hov Hr. cbn [un_chunks] in Hr.
  assert (Hs : cshape cs = s) by apply Hl. rewrite Hs in Hr.
  pose proof (lay_ok_nonneg _ _ Hl) as Hnn.
  set (n := nth ax s 0) in *.
  assert (Hn : 0 <= n) by (apply nonneg_nth; exact Hnn).
  set (sft := if n =? 0 then 0 else (- shift) mod n) in *.
  assert (Hsft : 0 <= sft <= n) by (unfold sft; destruct (n =? 0) eqn:E; lia).
  set (sa := mkslice (Some sft) None None) in *. set (sb := mkslice None (Some sft) None) in *.
  assert (Ha := ax_slice_ok ax sa cs s Hl Hax ltac:(cbn; lia)).
  assert (Hb := ax_slice_ok ax sb cs s Hl Hax ltac:(cbn; lia)).
  fold n in Ha, Hb.
  set (a := slice_chunks (ax_index ax sa) cs) in *. set (b := slice_chunks (ax_index ax sb) cs) in *.
  assert (Eca : cshape a = set_nth ax (slice_len sa n) s) by apply Ha.
  assert (Ecb : cshape b = set_nth ax (slice_len sb n) s) by apply Hb.
  assert (ET : concat_shape ax (cshape a) (map cshape [b]) = s).
  { unfold concat_shape. cbn [map zsum]. rewrite Eca, Ecb, !nth_set_nth_eq by exact Hax.
    rewrite set_nth_set_nth. replace (slice_len sa n + (slice_len sb n + 0)) with n by (pose proof (slice_len_split n sft Hsft); fold sa sb in H; lia).
    apply set_nth_same. }
  rewrite <- ET. apply (concat_chunks_ok ax ov a [b] r).
  - rewrite (lay_ok_length _ _ Ha), set_nth_length. exact Hax.
  - apply (lay_ok_wf _ _ Ha).
  - constructor; [apply (lay_ok_wf _ _ Hb) | constructor].
  - intros q [<- | []]. split.
    + rewrite (lay_ok_length _ _ Hb), Eca, !set_nth_length. reflexivity.
    + rewrite Eca, Ecb, !set_nth_set_nth. reflexivity.
  - rewrite ET. exact Hov.
  - exact Hr.
Qed.

Lemma diff_chunks_ok ax ov cs s :
  lay_ok cs s -> (ax < length s)%nat -> lay_ok ov (set_nth ax (Z.max (nth ax s 0 - 1) 0) s) ->
  lay_ok (elem_chunks ov [slice_chunks (ax_index ax (mkslice (Some 1) None None)) cs;
                          slice_chunks (ax_index ax (mkslice None (Some (-1)) None)) cs])
         (set_nth ax (Z.max (nth ax s 0 - 1) 0) s).
Proof.
  intros Hl Hax Hov.
  pose proof (lay_ok_nonneg _ _ Hl) as Hnn.
  assert (Hn : 0 <= nth ax s 0) by (apply nonneg_nth; exact Hnn).
  assert (Ha := ax_slice_ok ax (mkslice (Some 1) None None) cs s Hl Hax ltac:(cbn; lia)).
  assert (Hb := ax_slice_ok ax (mkslice None (Some (-1)) None) cs s Hl Hax ltac:(cbn; lia)).
  rewrite slice_len_from_1 in Ha by exact Hn. rewrite slice_len_to_m1 in Hb by exact Hn.
  set (T := set_nth ax (Z.max (nth ax s 0 - 1) 0) s) in *.
  assert (EB : bshape_all [T; T] = T).
  { cbn [bshape_all fold_right]. rewrite bshape_nil_r. apply bshape_same. }
  rewrite <- EB. apply elem_chunks_ok; [|rewrite EB; exact Hov].
  constructor; [exact Ha | constructor; [exact Hb | constructor]].
Qed.

(* ---------------------------------------------------------------------- *)
(* repeat *)
Lemma lset_nth_nil k v : lset_nth k v [] = [].
Proof. unfold lset_nth. rewrite firstn_nil, skipn_nil. reflexivity. Qed.
Lemma lset_nth_S k v x l : lset_nth (S k) v (x :: l) = x :: lset_nth k v l.
Proof. reflexivity. Qed.

Lemma cshape_lset_nth k v : forall l, cshape (lset_nth k v l) = set_nth k (zsum v) (cshape l).
Proof.
  induction k as [|k IH]; intros [|x l]; try (rewrite lset_nth_nil; reflexivity); [reflexivity|].
  rewrite lset_nth_S. unfold cshape in *. cbn [map set_nth]. rewrite IH. reflexivity.
Qed.

Lemma length_lset_nth k v : forall l, length (lset_nth k v l) = length l.
Proof.
  induction k as [|k IH]; intros [|x l]; try (rewrite lset_nth_nil; reflexivity); [reflexivity|].
  rewrite lset_nth_S. cbn [length]. rewrite IH. reflexivity.
Qed.

Lemma lay_wf_lset_nth k v : forall l, lay_wf l -> ax_ok v -> lay_wf (lset_nth k v l).
Proof.
  unfold lay_wf. induction k as [|k IH]; intros [|x l] Hl Hv; try (rewrite lset_nth_nil; constructor).
  - inversion Hl; subst. constructor; assumption.
  - rewrite lset_nth_S. inversion Hl; subst. constructor; [assumption | apply IH; assumption].
Qed.

Lemma round_half_even2_range start c : 0 <= c ->
  start <= round_half_even2 (2 * start + c) <= start + c.
Proof.
  intros Hc. unfold round_half_even2.
  destruct ((2 * start + c) mod 2 =? 0) eqn:E1; [lia|].
  destruct (((2 * start + c) / 2) mod 2 =? 0) eqn:E2; lia.
Qed.

Lemma repeat_slabs_ok k c : forall start, Forall (fun x => 0 <= x) c ->
  Forall (fun x => 0 <= x) (repeat_slabs k start c) /\ zsum (repeat_slabs k start c) = zsum c.
Proof.
  induction c as [|x c IH]; intros start Hc; cbn [repeat_slabs zsum]; [split; [constructor | reflexivity]|].
  inversion Hc as [|x0 c0 Hx Hc']; subst. destruct (IH (start + x) Hc') as [IH1 IH2].
  pose proof (round_half_even2_range start x Hx) as Hr.
  destruct (k =? 2); cbn [app]; rewrite ?zsum_app; cbn [zsum]; (split; [repeat constructor; try lia; exact IH1 | lia]).
Qed.

Lemma zsum_filter_nz l : zsum (filter (fun x => negb (x =? 0)) l) = zsum l.
Proof.
  pose proof (zsum_map_filter (fun x => negb (x =? 0)) (fun x => x) l) as H. rewrite !map_id in H.
  apply H. intros q _ Hq. lia.
Qed.

Lemma repeat_chunks_ok k ax ov cs s r :
  lay_ok cs s -> (ax < length s)%nat -> 0 <= k ->
  lay_ok ov (set_nth ax (nth ax s 0 * k) s) ->
  repeat_chunks k ax ov cs = Some r -> lay_ok r (set_nth ax (nth ax s 0 * k) s).
Proof.
  intros Hl Hax Hk Hov Hr. unfold repeat_chunks in Hr.
  pose proof (lay_ok_nonneg _ _ Hl) as Hnn.
  assert (Hn : 0 <= nth ax s 0) by (apply nonneg_nth; exact Hnn).
  destruct (k =? 1) eqn:E1.
  { injection Hr as <-. replace k with 1 by lia. rewrite Z.mul_1_r, set_nth_same. exact Hl. }
  destruct (k =? 0) eqn:E0.
  { injection Hr as <-. replace k with 0 by lia. rewrite Z.mul_0_r.
    assert (G := ax_slice_ok ax (mkslice None (Some 0) None) cs s Hl Hax ltac:(cbn; lia)).
    rewrite slice_len_to_0 in G by exact Hn. exact G. }
  destruct ((k =? 2) || (k =? 3)) eqn:E23; [|discriminate].
  pose proof (lay_ok_length _ _ Hl) as Hlen.
  assert (Hs : cshape cs = s) by apply Hl.
  set (c := nth ax cs []) in *.
  assert (Hc : ax_ok c) by (apply Forall_nth_in; [apply Hl | lia]).
  destruct (repeat_slabs_ok k c 0 (proj1 Hc)) as [Hsl1 Hsl2].
  set (F := filter (fun x => negb (x =? 0)) (repeat_slabs k 0 c)) in *.
  assert (HF1 : Forall (fun x => 0 <= x) F).
  { apply Forall_forall. intros x Hx. apply filter_In in Hx. rewrite Forall_forall in Hsl1. apply Hsl1. apply Hx. }
  assert (HF2 : zsum F = nth ax s 0).
  { unfold F. rewrite zsum_filter_nz, Hsl2. unfold c. rewrite <- Hs. symmetry. apply nth_cshape. }
  set (g := fun sl => lset_nth ax [sl * k] cs) in *.
  assert (Hg : forall sl, 0 <= sl -> cshape (g sl) = set_nth ax (sl * k) s /\ lay_wf (g sl) /\ length (g sl) = length s).
  { intros sl Hsl. unfold g. split; [|split].
    - rewrite cshape_lset_nth, Hs. cbn [zsum]. rewrite Z.add_0_r. reflexivity.
    - apply lay_wf_lset_nth; [apply Hl | apply ax_ok_singleton; nia].
    - rewrite length_lset_nth. exact Hlen. }
  destruct F as [|sl0 slrest] eqn:EF; [discriminate|]. cbn [map] in Hr.
  pose proof (Forall_inv HF1) as H0. pose proof (Forall_inv_tail HF1) as Hrest0. cbv beta in H0.
  destruct (Hg sl0 H0) as (Hc0 & Hw0 & Hl0).
  assert (Hsum : forall l, Forall (fun x => 0 <= x) l ->
            zsum (map (fun t => nth ax t 0) (map cshape (map g l))) = zsum l * k).
  { induction 1 as [|x l Hx _ IH]; [reflexivity|]. cbn [map zsum].
    rewrite IH. destruct (Hg x Hx) as (-> & _ & _). rewrite nth_set_nth_eq by exact Hax. lia. }
  assert (ET : concat_shape ax (cshape (g sl0)) (map cshape (map g slrest)) = set_nth ax (nth ax s 0 * k) s).
  { unfold concat_shape.
    change (cshape (g sl0) :: map cshape (map g slrest)) with (map cshape (map g (sl0 :: slrest))).
    rewrite (Hsum (sl0 :: slrest) HF1), HF2, Hc0, set_nth_set_nth. reflexivity. }
  rewrite <- ET. apply (concat_chunks_ok ax ov (g sl0) (map g slrest) r).
  - rewrite Hl0. exact Hax.
  - exact Hw0.
  - apply Forall_forall. intros q Hq. apply in_map_iff in Hq. destruct Hq as (sl & <- & Hsl).
    rewrite Forall_forall in Hrest0. apply (Hg sl (Hrest0 sl Hsl)).
  - intros q Hq. apply in_map_iff in Hq. destruct Hq as (sl & <- & Hsl).
    rewrite Forall_forall in Hrest0. destruct (Hg sl (Hrest0 sl Hsl)) as (Hcq & _ & Hlq).
    split; [rewrite Hlq, Hc0, set_nth_length; reflexivity | rewrite Hcq, Hc0, !set_nth_set_nth; reflexivity].
  - rewrite ET. exact Hov.
  - exact Hr.
Qed.

(* ---------------------------------------------------------------------- *)
(* one operation *)
Lemma un_chunks_ok o ov cs s r :
  lay_ok cs s -> un_ok o s = true -> lay_ok ov (un_shape o s) ->
  un_chunks o ov cs = Some r -> lay_ok r (un_shape o s).
Proof.
  intros Hl Hok Hov Hr.
  assert (Hs : cshape cs = s) by apply Hl.
  destruct o as [axes|ix|ax|ax|shp|ax|shift ax|idx ax|k ax|ax|req|f axes kd|f ax|spec];
    cbn [un_ok] in Hok; cbn [un_shape] in Hov |- *.
  - cbn [un_chunks] in Hr. injection Hr as <-. apply transpose_chunks_ok; assumption.
  - cbn [un_chunks] in Hr. injection Hr as <-. apply slice_chunks_ok; assumption.
  - cbn [un_chunks] in Hr. injection Hr as <-. apply lay_ok_insert_at; [reflexivity | apply ax_ok_singleton; lia | exact Hl].
  - cbn [un_chunks] in Hr. injection Hr as <-. apply lay_ok_remove_at. exact Hl.
  - cbn [un_chunks] in Hr. injection Hr as <-. apply andb_true_iff in Hok. destruct Hok as [H1 H2].
    apply (bcast_chunks_ok shp cs s); assumption.
  - cbn [un_chunks] in Hr. injection Hr as <-. apply flip_chunks_ok; [exact Hl | apply Nat.ltb_lt; exact Hok].
  - apply (roll_chunks_ok shift ax ov cs s r); [exact Hl | apply Nat.ltb_lt; exact Hok | exact Hov | exact Hr].
  - cbn [un_chunks] in Hr. discriminate.
  - cbn [un_chunks] in Hr. apply andb_true_iff in Hok. destruct Hok as [H1 H2].
    apply (repeat_chunks_ok k ax ov cs s r); [exact Hl | apply Nat.ltb_lt; exact H1 | lia | exact Hov | exact Hr].
  - cbn [un_chunks] in Hr. injection Hr as <-. apply diff_chunks_ok; [exact Hl | apply Nat.ltb_lt; exact Hok | exact Hov].
  - cbn [un_chunks] in Hr. discriminate.
  - cbn [un_chunks] in Hr. injection Hr as <-. rewrite Hs. unfold red_oshape.
    destruct kd; [apply red_kchunks_ok | apply red_dchunks_ok]; exact Hl.
  - cbn [un_chunks] in Hr. injection Hr as <-. exact Hl.
  - cbn [un_chunks] in Hr. rewrite Hs in Hr. destruct (layout_okb spec s) eqn:E; [|discriminate].
    injection Hr as <-. apply layout_okb_iff. exact E.
Qed.

Lemma Forall2_lay_ok_map css ss : Forall2 lay_ok css ss -> map cshape css = ss.
Proof. induction 1 as [|c s css ss [Hc _] _ IH]; [reflexivity|]. cbn [map]. rewrite Hc, IH. reflexivity. Qed.

Lemma n_chunks_ok o ov css ss r :
  Forall2 lay_ok css ss -> n_ok o ss = true -> lay_ok ov (n_shape o ss) ->
  n_chunks o ov css = Some r -> lay_ok r (n_shape o ss).
Proof.
  intros H2 Hok Hov Hr.
  destruct o as [f|ax|ax]; cbn [n_ok] in Hok; cbn [n_shape] in Hov |- *; cbn [n_chunks] in Hr.
  - injection Hr as <-. apply elem_chunks_ok; assumption.
  - destruct H2 as [|c0 s crest srest Hc0 Hrest]; [discriminate|].
    apply andb_true_iff in Hok. destruct Hok as [Hax Hcomp]. apply Nat.ltb_lt in Hax.
    pose proof (Forall2_lay_ok_map _ _ Hrest) as Em.
    assert (Es : cshape c0 = s) by apply Hc0.
    rewrite <- Em, <- Es in Hov |- *.
    apply (concat_chunks_ok ax ov c0 crest r); try assumption.
    + rewrite (lay_ok_length _ _ Hc0). exact Hax.
    + apply (lay_ok_wf _ _ Hc0).
    + clear -Hrest. induction Hrest as [|q t crest srest Hq _ IH]; constructor; [apply (lay_ok_wf _ _ Hq) | exact IH].
    + intros q Hq. destruct (Forall2_In_l _ _ _ _ Hrest Hq) as (t & Ht & Hqt).
      rewrite forallb_forall in Hcomp. specialize (Hcomp t Ht). unfold concat_compat in Hcomp.
      apply andb_true_iff in Hcomp. destruct Hcomp as [Hc1 Hc2]. apply Nat.eqb_eq in Hc1. apply zlist_eqb_eq in Hc2.
      assert (Eq : cshape q = t) by apply Hqt. rewrite Eq, Es.
      split; [rewrite (lay_ok_length _ _ Hqt); lia | congruence].
  - destruct H2 as [|c0 s crest srest Hc0 Hrest]; [discriminate|].
    apply andb_true_iff in Hok. destruct Hok as [Hax Hall]. apply Nat.leb_le in Hax.
    assert (Hall' : Forall (eq s) srest).
    { apply Forall_forall. intros t Ht. rewrite forallb_forall in Hall. specialize (Hall t Ht). apply zlist_eqb_eq in Hall. exact Hall. }
    rewrite (stack_shape ax s srest Hax Hall') in Hov |- *.
    injection Hr as <-.
    assert (Elen : length crest = length srest).
    { clear -Hrest. induction Hrest; cbn [length]; congruence. }
    change (length (c0 :: crest)) with (S (length crest)). rewrite Elen.
    apply lay_ok_insert_at; [apply (zsum_repeat_1 (S (length srest))) | apply (ax_ok_repeat_1 (S (length srest))); lia|].
    destruct (forallb (zlist2_eqb c0) crest); [exact Hc0|].
    apply (lay_ok_remove_at ax) in Hov. rewrite remove_insert_at in Hov by exact Hax. exact Hov.
Qed.

(* ---------------------------------------------------------------------- *)
(* the whole rule: advertised chunks are a layout of the advertised shape *)
Lemma orc_wf_un orc o q : orc_wf orc (PUn o q) -> orc_wf (sub orc 0) q.
Proof. intros H pth q' s' Hq Hs. apply (H (0%nat :: pth) q' s'); [exact Hq | exact Hs]. Qed.

Lemma orc_wf_n orc o ps j q : orc_wf orc (PN o ps) -> nth_error ps j = Some q -> orc_wf (sub orc j) q.
Proof.
  intros H Hj pth q' s' Hq Hs. apply (H (j :: pth) q' s'); [|exact Hs].
  cbn [subprog_at]. rewrite Hj. exact Hq.
Qed.

Lemma pchunks_from_ok ps :
  Forall (fun p => forall orc cs s, orc_wf orc p -> pchunks orc p = Some cs -> pshape p = Some s -> lay_ok cs s) ps ->
  forall orc i css ss,
  (forall j q, nth_error ps j = Some q -> orc_wf (sub orc (i + j)) q) ->
  sequence (pchunks_from orc i ps) = Some css -> sequence (map pshape ps) = Some ss -> Forall2 lay_ok css ss.
Proof.
  induction 1 as [|p ps Hp _ IH]; intros orc i css ss Hwf Hc Hs; cbn [pchunks_from map sequence] in Hc, Hs.
  - injection Hc as <-. injection Hs as <-. constructor.
  - destruct (pchunks (sub orc i) p) as [c|] eqn:Ec; [|discriminate].
    destruct (sequence (pchunks_from orc (S i) ps)) as [crest|] eqn:Ecr; [|discriminate]. injection Hc as <-.
    destruct (pshape p) as [s|] eqn:Es; [|discriminate].
    destruct (sequence (map pshape ps)) as [srest|] eqn:Esr; [|discriminate]. injection Hs as <-.
    constructor.
    + apply (Hp (sub orc i) c s); [|exact Ec | reflexivity].
      specialize (Hwf O p eq_refl). rewrite Nat.add_0_r in Hwf. exact Hwf.
    + apply (IH orc (S i) crest srest); [|exact Ecr | reflexivity].
      intros j q Hj. specialize (Hwf (S j) q Hj). replace (S i + j)%nat with (i + S j)%nat by lia. exact Hwf.
Qed.

Theorem pchunks_layout p : forall orc cs s,
  orc_wf orc p -> pchunks orc p = Some cs -> pshape p = Some s -> lay_ok cs s.
Proof.
  induction p as [s0 d|s0|n|c|o q IH|o ps IH] using prog_ind2; intros orc cs s Hwf Hc Hs.
  - cbn [pchunks] in Hc. injection Hc as <-. apply layout_okb_iff. apply (Hwf [] (PSrc s0 d) s); [reflexivity | exact Hs].
  - cbn [pchunks] in Hc. injection Hc as <-. apply layout_okb_iff. apply (Hwf [] (POnes s0) s); [reflexivity | exact Hs].
  - cbn [pchunks] in Hc. injection Hc as <-. apply layout_okb_iff. apply (Hwf [] (PArange n) s); [reflexivity | exact Hs].
  - cbn [pchunks pshape] in Hc, Hs. injection Hc as <-. injection Hs as <-. exact lay_ok_nil.
  - cbn [pchunks] in Hc. pose proof Hs as Hs0. cbn [pshape] in Hs.
    destruct (pchunks (sub orc 0) q) as [cq|] eqn:Ecq; [|discriminate].
    destruct (pshape q) as [sq|] eqn:Esq; [|discriminate].
    unfold un_rule in Hs. destruct (un_ok o sq) eqn:Eok; [|discriminate]. injection Hs as <-.
    apply (un_chunks_ok o (orc []) cq sq cs); [|exact Eok | | exact Hc].
    + apply (IH (sub orc 0) cq sq); [apply (orc_wf_un orc o q Hwf) | exact Ecq | reflexivity].
    + apply layout_okb_iff. apply (Hwf [] (PUn o q)); [reflexivity | exact Hs0].
  - rewrite pchunks_PN in Hc. pose proof Hs as Hs0. cbn [pshape] in Hs.
    destruct (sequence (pchunks_from orc 0 ps)) as [css|] eqn:Ecs; [|discriminate].
    destruct (sequence (map pshape ps)) as [ss|] eqn:Ess; [|discriminate].
    unfold n_rule in Hs. destruct (n_ok o ss) eqn:Eok; [|discriminate]. injection Hs as <-.
    apply (n_chunks_ok o (orc []) css ss cs); [|exact Eok | | exact Hc].
    + apply (pchunks_from_ok ps IH orc 0%nat css ss); [|exact Ecs | exact Ess].
      intros j q Hj. cbn [Nat.add]. apply (orc_wf_n orc o ps j q Hwf Hj).
    + apply layout_okb_iff. apply (Hwf [] (PN o ps)); [reflexivity | exact Hs0].
Qed.

(* ---------------------------------------------------------------------- *)
(* per-operation exactness (closed forms) *)

(* slicing: along a sliced axis the advertised chunk sizes are the numbers of positions the blocks of the
   operand contribute (the plan _slice_1d builds, in output order), and those positions, concatenated, are
   exactly the positions NumPy's x[sl] selects *)
Theorem slice_chunks_axis_exact sl ix db rest :
  ax_ok db -> step_of sl <> 0 ->
  let d := zsum db in
  let idx := normalize_slice sl d in
  slice_chunks (ISlice sl :: ix) (db :: rest)
    = (if pslice_eqb idx colon then db
       else map (fun e => Z.of_nat (length (abs_positions db e))) (slice_1d_slice d db idx))
      :: slice_chunks ix rest
  /\ plan_positions db (slice_1d_slice d db idx) = sel sl d.
Proof.
  intros Hax Hk d idx. destruct (ax_ok_valid db Hax) as [Hv Hne].
  assert (Hd : 0 <= d). { unfold d. destruct Hax as [Hf _]. clear -Hf. induction Hf; cbn [zsum]; lia. }
  pose proof (normalize_slice_normalized sl d Hd Hk) as Hn. fold idx in Hn.
  split.
  - cbn [slice_chunks hd tl]. fold d. fold idx. f_equal.
    destruct (pslice_eqb idx colon) eqn:Ec.
    + unfold new_blockdim. rewrite Ec. reflexivity.
    + apply new_blockdim_lengths; [exact Hv | exact Hn | intros E; rewrite E in Ec; discriminate].
  - rewrite (slice_1d_partition d db idx Hv Hn). apply normalize_slice_sel; assumption.
Qed.

(* transpose: axis i of the result carries the chunks of axis axes[i]; transposing back restores them *)
Theorem transpose_chunks_exact orc axes p cs :
  pchunks (sub orc 0) p = Some cs ->
  pchunks orc (PT axes p) = Some (map (fun j => nth j cs []) axes).
Proof. intros H. cbn [pchunks]. rewrite H. reflexivity. Qed.

Theorem transpose_chunks_inverse axes ov ov' cs r :
  is_permb axes (length cs) = true ->
  un_chunks (OT axes) ov cs = Some r -> un_chunks (OT (inv_axes axes)) ov' r = Some cs.
Proof.
  intros Hp Hr. cbn [un_chunks] in Hr |- *. injection Hr as <-. f_equal.
  apply (pickn_inv_l axes (length cs) Hp). reflexivity.
Qed.

(* concatenate: along the axis the result carries the chunks of the non-empty parts one after the other
   (whatever the oracle says) *)
Lemma concat_axes_nth ax ov p rest n : forall i j, (j < n)%nat ->
  nth j (concat_axes i n ax ov p rest) [] =
  (if Nat.eqb (i + j) ax then concat (map (fun q => nth ax q []) (p :: rest))
   else if forallb (fun q => zlist_eqb (nth (i + j) q []) (nth (i + j) p [])) rest then nth (i + j) p []
   else nth (i + j) ov []).
Proof.
  induction n as [|n IH]; intros i j Hj; [lia|]. cbn [concat_axes].
  destruct j as [|j]; [rewrite Nat.add_0_r; reflexivity|].
  cbn [nth]. rewrite IH by lia. replace (S i + j)%nat with (i + S j)%nat by lia. reflexivity.
Qed.

Theorem concat_chunks_axis_exact ax ov p q rest r :
  (ax < length p)%nat -> Forall (fun c => lsize c <> 0) (p :: q :: rest) ->
  concat_chunks ax ov (p :: q :: rest) = Some r ->
  nth ax r [] = concat (map (fun c => nth ax c []) (p :: q :: rest)).
Proof.
  intros Hax Hne Hr. unfold concat_chunks in Hr.
  assert (E : filter (fun c => negb (lsize c =? 0)) (p :: q :: rest) = p :: q :: rest).
  { clear -Hne. induction Hne as [|c l Hc _ IH]; [reflexivity|]. cbn [filter].
    destruct (lsize c =? 0) eqn:E; [lia|]. cbn [negb]. rewrite IH. reflexivity. }
  rewrite E in Hr. injection Hr as <-.
  rewrite (concat_axes_nth ax ov p (q :: rest) (length p) 0%nat ax Hax). cbn [Nat.add]. rewrite Nat.eqb_refl. reflexivity.
Qed.

(* flip: the chunks along the axis are the piece lengths of the plan of the reversing slice, whose positions
   are d-1, ..., 0 *)
Theorem flip_chunks_exact db rest :
  ax_ok db -> let d := zsum db in
  slice_chunks (flip_index 0) (db :: rest) = new_blockdim d db rev_slice :: rest /\
  new_blockdim d db rev_slice = map (fun e => Z.of_nat (length (abs_positions db e))) (slice_1d_slice d db rev_slice) /\
  plan_positions db (slice_1d_slice d db rev_slice) = zrange (d - 1) (-1) (-1).
Proof.
  intros Hax d. destruct (ax_ok_valid db Hax) as [Hv Hne].
  assert (Hd : 0 <= d). { unfold d. destruct Hax as [Hf _]. clear -Hf. induction Hf; cbn [zsum]; lia. }
  assert (En : normalize_slice rev_slice d = rev_slice).
  { unfold normalize_slice, rev_slice, indices, adjust_endpoint, step_of. cbn [s_start s_stop s_step].
    change (-1 <? 0) with true. change (-1 >? 0) with false. cbv iota.
    replace (d - 1 >=? d - 1) with true by lia. reflexivity. }
  assert (Hn : normalized rev_slice d). { rewrite <- En. apply normalize_slice_normalized; [exact Hd | cbn; lia]. }
  split; [|split].
  - unfold flip_index. cbn [repeat app slice_chunks hd tl]. fold d. rewrite En. reflexivity.
  - apply new_blockdim_lengths; [exact Hv | exact Hn | discriminate].
  - rewrite (slice_1d_partition d db rev_slice Hv Hn). unfold sel, rev_slice, indices, adjust_endpoint, step_of.
    cbn [s_start s_stop s_step]. change (-1 <? 0) with true. cbv iota. reflexivity.
Qed.

(* "flip = the same chunks reversed" fails when a chunk has size 0: the slice drops empty blocks *)
Lemma flip_is_reversed_chunks_refuted :
  exists db, (Forall (fun x => 0 <= x) db /\ db <> []) /\ slice_chunks (flip_index 0) [db] <> [rev db].
Proof. exists [0; 3; 0; 2]. split; [split; [repeat constructor; lia | discriminate] | vm_compute; discriminate]. Qed.

(* element-wise on ONE array operand (unary ufuncs, operations with Python scalars), or on operands that agree:
   the operand's chunks, whatever the oracle says *)
Theorem elem_chunks_deterministic ov cs :
  elem_chunks ov [cs] = cs /\ elem_chunks ov [cs; []] = cs /\ elem_chunks ov [[]; cs] = cs /\ elem_chunks ov [cs; cs] = cs.
Proof.
  assert (R : zlist2_eqb cs cs = true) by (apply zlist2_eqb_eq; reflexivity).
  unfold elem_chunks. destruct cs as [|c cs]; cbn [filter is_nil negb forallb]; [repeat split; reflexivity|].
  rewrite R. repeat split; reflexivity.
Qed.

(* reductions: a reduced axis is one block of size 1 with keepdims, and is dropped without *)
Theorem reduce_chunks_exact f axes kd ov cs :
  un_chunks (OReduce f axes kd) ov cs =
  Some (let l := red_axes axes (cshape cs) in if kd then red_kchunks 0 l cs else red_dchunks 0 l cs).
Proof. reflexivity. Qed.

(* the advertised chunks lay out the shape of the COMPUTED value *)
Corollary pchunks_layout_eval p orc cs a :
  orc_wf orc p -> pchunks orc p = Some cs -> eval p = Some a -> lay_ok cs (nshape a).
Proof. intros Hw Hc He. apply (pchunks_layout p orc cs (nshape a) Hw Hc). apply eval_some_pshape. exact He. Qed.

(* ---------------------------------------------------------------------- *)
(* the boolean well-formedness check of an oracle is sound *)
Lemma orc_wf_b_PN orc o ps :
  orc_wf_b orc (PN o ps) =
  (match pshape (PN o ps) with Some s => layout_okb (orc []) s | None => true end) && orc_wf_from orc 0 ps.
Proof.
  cbn [orc_wf_b]. f_equal.
  assert (H : forall l i, (fix go (i : nat) (l : list prog) {struct l} : bool :=
                 match l with [] => true | q :: t => orc_wf_b (sub orc i) q && go (S i) t end) i l
              = orc_wf_from orc i l).
  { induction l as [|q t IH]; intros i; [reflexivity|]. cbn [orc_wf_from]. rewrite IH. reflexivity. }
  apply H.
Qed.

Lemma orc_wf_from_nth ps : forall orc i j q,
  orc_wf_from orc i ps = true -> nth_error ps j = Some q -> orc_wf_b (sub orc (i + j)) q = true.
Proof.
  induction ps as [|p ps IH]; intros orc i j q H Hj; [destruct j; discriminate|].
  cbn [orc_wf_from] in H. apply andb_true_iff in H. destruct H as [H1 H2].
  destruct j as [|j]; cbn [nth_error] in Hj.
  - injection Hj as <-. rewrite Nat.add_0_r. exact H1.
  - replace (i + S j)%nat with (S i + j)%nat by lia. apply (IH orc (S i) j q H2 Hj).
Qed.

Theorem orc_wf_b_sound p : forall orc, orc_wf_b orc p = true -> orc_wf orc p.
Proof.
  induction p as [s0 d|s0|n|c|o q IH|o ps IH] using prog_ind2; intros orc H pth q' s' Hq Hs.
  1-4: (destruct pth as [|i pth]; cbn [subprog_at] in Hq; [|discriminate]; injection Hq as <-;
        cbn [orc_wf_b] in H; apply andb_true_iff in H; destruct H as [H _]; rewrite Hs in H; exact H).
  - cbn [orc_wf_b] in H. apply andb_true_iff in H. destruct H as [H1 H2].
    destruct pth as [|i pth]; cbn [subprog_at] in Hq.
    + injection Hq as <-. rewrite Hs in H1. exact H1.
    + destruct i as [|i]; [|discriminate]. apply (IH (sub orc 0) H2 pth q' s' Hq Hs).
  - rewrite orc_wf_b_PN in H. apply andb_true_iff in H. destruct H as [H1 H2].
    destruct pth as [|i pth]; cbn [subprog_at] in Hq.
    + injection Hq as <-. rewrite Hs in H1. exact H1.
    + destruct (nth_error ps i) as [q|] eqn:Ei; [|discriminate].
      pose proof (orc_wf_from_nth ps orc 0%nat i q H2 Ei) as Hw. cbn [Nat.add] in Hw.
      rewrite Forall_forall in IH. apply (IH q (nth_error_In ps i Ei) (sub orc i) Hw pth q' s' Hq Hs).
Qed.

Print Assumptions pchunks_layout.
Print Assumptions orc_wf_b_sound.
