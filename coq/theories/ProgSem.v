(* L3 — REFERENCE SEMANTICS of the program language of harness/progs.py (the public array API)
   for its integer-valued subset.  Definitions only; proofs are in ProgSemFacts.v (well-formedness,
   shape rule), ProgSemLaws.v / ProgSemReduce.v / ProgSemBcast.v (pushdown laws), ProgSemDen.v (in-bounds
   reads, eval = tabulated denotation).

   A value is a flat C-order array  (shape, data).  Every operation is defined as NumPy defines
   it: an index function from result indices to operand indices (NdArray.v: aslice, atranspose,
   aelemwise, abroadcast_to, aconcat, plus the ones added here), tabulated over the result's
   index space in row-major order.  [eval] returns None exactly where NumPy raises for this
   subset (shape mismatch, axis out of range, bad permutation, index out of bounds, empty
   min/max, impossible reshape).  [pshape] is the ADVERTISED shape rule: what a lazy library
   must announce without computing anything.

   Booleans are the integers 0/1 (NumPy's comparison / any / all results read as integers).
   Axis numbers are [nat] (non-negative axes only); everything else is [Z]. *)
From DA Require Export PyBase Slicing NdArray.
Open Scope Z_scope.

(* ---------------------------------------------------------------------- *)
(* flat arrays *)
Record ndarr := mknd { nshape : list Z; ndata : list Z }.

Definition prodZ (s : list Z) : Z := fold_right Z.mul 1 s.

(* C-order offset of an index, and its inverse *)
Fixpoint ravel (shp idx : list Z) : Z :=
  match shp, idx with
  | _ :: shp', i :: idx' => i * prodZ shp' + ravel shp' idx'
  | _, _ => 0
  end.

Fixpoint unravel (shp : list Z) (k : Z) : list Z :=
  match shp with
  | [] => []
  | _ :: shp' => k / prodZ shp' :: unravel shp' (k mod prodZ shp')
  end.

Definition nget (a : ndarr) (idx : list Z) : Z := nthZ (ndata a) (ravel (nshape a) idx).

(* flat array <-> index function *)
Definition of_nd (a : ndarr) : arr Z := mkarr (nshape a) (nget a).
Definition to_nd (x : arr Z) : ndarr := mknd (shape x) (to_list x).

(* well-formed: non-negative dims, one datum per index *)
Definition nd_wfb (a : ndarr) : bool := all_nonneg (nshape a) && (lenZ (ndata a) =? prodZ (nshape a)).

Definition ndarr_eqb (a b : ndarr) : bool := zlist_eqb (nshape a) (nshape b) && zlist_eqb (ndata a) (ndata b).

(* ---------------------------------------------------------------------- *)
(* list helpers (axis positions are nat) *)
Definition insert_at {A} (k : nat) (v : A) (l : list A) : list A := firstn k l ++ v :: skipn k l.
Definition remove_at {A} (k : nat) (l : list A) : list A := firstn k l ++ skipn (S k) l.
Definition upd (k : nat) (f : Z -> Z) (l : list Z) : list Z := set_nth k (f (nth k l 0)) l.
Definition ltn (k : nat) (n : nat) : bool := Nat.ltb k n.

Fixpoint nodupb (l : list nat) : bool :=
  match l with [] => true | x :: t => negb (memn x t) && nodupb t end.

(* ---------------------------------------------------------------------- *)
(* basic indexing  x[ix]:  ints, slices, None; fewer entries than axes = trailing full slices.
   NumPy raises IndexError for too many indices / an integer out of [-n, n), ValueError for step 0 *)
Fixpoint ixokb (ix : list pidx) (shp : list Z) : bool :=
  match ix with
  | [] => true
  | INone :: ix' => ixokb ix' shp
  | IInt i :: ix' => match shp with n :: shp' => check_int n i && ixokb ix' shp' | [] => false end
  | ISlice s :: ix' => match shp with _ :: shp' => negb (step_of s =? 0) && ixokb ix' shp' | [] => false end
  end.

(* specification side: the composition of two slices on an axis of length n as ONE slice, for
   every pair of non-zero steps (Slicing.compose_slices, the library's _compose_slices, is exact
   for unit steps only) *)
Definition compose_sel (o i : pslice) (n : Z) : pslice :=
  let '(a, b, k) := indices o n in
  let m := range_len a b k in
  let '(c, d, j) := indices i m in
  let len := range_len c d j in
  if len =? 0 then mkslice (Some 0) (Some 0) None
  else
    let start := a + c * k in
    let stop := start + len * (k * j) in
    mkslice (Some start) (if stop <? 0 then None else Some stop) (Some (k * j)).

Fixpoint map3 {A B C D} (f : A -> B -> C -> D) (a : list A) (b : list B) (c : list C) : list D :=
  match a, b, c with
  | x :: a', y :: b', z :: c' => f x y z :: map3 f a' b' c'
  | _, _, _ => []
  end.

Definition unit_stepb (s : pslice) : bool := match s_step s with None => true | Some k => k =? 1 end.
Definition sl_okb (sl : list pslice) : bool := forallb (fun a => negb (step_of a =? 0)) sl.

(* ---------------------------------------------------------------------- *)
(* operations as index functions (the ones NdArray.v does not have) *)
Definition aexpand (ax : nat) (x : arr Z) : arr Z :=
  mkarr (insert_at ax 1 (shape x)) (fun out => get x (remove_at ax out)).

Definition asqueeze (ax : nat) (x : arr Z) : arr Z :=
  mkarr (remove_at ax (shape x)) (fun out => get x (insert_at ax 0 out)).

(* np.flip(x, ax): position i reads n-1-i *)
Definition aflip (ax : nat) (x : arr Z) : arr Z :=
  let n := nth ax (shape x) 0 in
  mkarr (shape x) (fun out => get x (upd ax (fun i => n - 1 - i) out)).

(* np.roll(x, shift, ax): position i reads (i - shift) mod n *)
Definition aroll (shift : Z) (ax : nat) (x : arr Z) : arr Z :=
  let n := nth ax (shape x) 0 in
  mkarr (shape x) (fun out => get x (upd ax (fun i => (i - shift) mod n) out)).

(* np.take(x, idx, axis=ax): position i reads idx[i] (negative counts from the end) *)
Definition atake (idx : list Z) (ax : nat) (x : arr Z) : arr Z :=
  let n := nth ax (shape x) 0 in
  mkarr (set_nth ax (lenZ idx) (shape x)) (fun out => get x (upd ax (fun i => posify_int n (nthZ idx i)) out)).

(* np.repeat(x, k, axis=ax): position i reads i // k *)
Definition arepeat (k : Z) (ax : nat) (x : arr Z) : arr Z :=
  let n := nth ax (shape x) 0 in
  mkarr (set_nth ax (n * k) (shape x)) (fun out => get x (upd ax (fun i => i / k) out)).

(* np.diff(x, axis=ax): x[i+1] - x[i] *)
Definition adiff (ax : nat) (x : arr Z) : arr Z :=
  let n := nth ax (shape x) 0 in
  mkarr (set_nth ax (Z.max (n - 1) 0) (shape x))
        (fun out => get x (upd ax (fun i => i + 1) out) - get x out).

(* x.reshape(s) in C order: same flat offset *)
Definition areshape (s : list Z) (x : arr Z) : arr Z :=
  mkarr s (fun out => get x (unravel (shape x) (ravel s out))).

(* x.reshape(req): a negative entry is the unknown dimension (at most one) *)
Definition reshape_resolve (total : Z) (req : list Z) : option (list Z) :=
  let known := prodZ (filter (fun d => 0 <=? d) req) in
  match length (filter (fun d => d <? 0) req) with
  | O => if known =? total then Some req else None
  | S O => if (0 <? known) && (total mod known =? 0)
           then Some (map (fun d => if d <? 0 then total / known else d) req) else None
  | _ => None
  end.

(* ---- reductions over a set of axes *)
Inductive redop := RSum | RProd | RMin | RMax | RAny | RAll | RCount | RArgmin | RArgmax.

(* shape of the reduced sub-space (full rank, 1 on the kept axes) *)
Fixpoint red_rshape (pos : nat) (axes : list nat) (s : list Z) : list Z :=
  match s with
  | [] => []
  | n :: s' => (if memn pos axes then n else 1) :: red_rshape (S pos) axes s'
  end.
(* keepdims=True result shape *)
Fixpoint red_kshape (pos : nat) (axes : list nat) (s : list Z) : list Z :=
  match s with
  | [] => []
  | n :: s' => (if memn pos axes then 1 else n) :: red_kshape (S pos) axes s'
  end.
Definition red_oshape (axes : list nat) (kd : bool) (s : list Z) : list Z :=
  if kd then red_kshape 0 axes s else drop_axes_from 0 axes s.

(* the operand index read for reduced sub-index r (full rank) and result index out *)
Fixpoint red_src (pos : nat) (axes : list nat) (kd : bool) (r out : list Z) : list Z :=
  match r with
  | [] => []
  | ri :: r' =>
      if memn pos axes then ri :: red_src (S pos) axes kd r' (if kd then tl out else out)
      else hd 0 out :: red_src (S pos) axes kd r' (tl out)
  end.

Fixpoint argbest (better : Z -> Z -> bool) (best besti i : Z) (vs : list Z) : Z :=
  match vs with
  | [] => besti
  | v :: t => if better v best then argbest better v i (i + 1) t else argbest better best besti (i + 1) t
  end.

Definition nz (v : Z) : bool := negb (v =? 0).
Definition b2z (b : bool) : Z := if b then 1 else 0.

(* the values arrive in C order of the reduced sub-space: arg* = first extremum *)
Definition red_fold (f : redop) (vs : list Z) : Z :=
  match f with
  | RSum => zsum vs
  | RProd => fold_right Z.mul 1 vs
  | RMin => match vs with [] => 0 | v :: t => fold_left Z.min t v end
  | RMax => match vs with [] => 0 | v :: t => fold_left Z.max t v end
  | RAny => b2z (existsb nz vs)
  | RAll => b2z (forallb nz vs)
  | RCount => lenZ (filter nz vs)
  | RArgmin => match vs with [] => 0 | v :: t => argbest Z.ltb v 0 1 t end
  | RArgmax => match vs with [] => 0 | v :: t => argbest Z.gtb v 0 1 t end
  end.

Definition red_needs_nonempty (f : redop) : bool :=
  match f with RMin | RMax | RArgmin | RArgmax => true | _ => false end.
Definition red_is_arg (f : redop) : bool :=
  match f with RArgmin | RArgmax => true | _ => false end.

Definition areduce (f : redop) (axes : list nat) (kd : bool) (x : arr Z) : arr Z :=
  mkarr (red_oshape axes kd (shape x))
        (fun out => red_fold f (map (fun r => get x (red_src 0 axes kd r out))
                                    (all_indices (red_rshape 0 axes (shape x))))).

(* ---- cumulative sum / product along an axis *)
Inductive cumop := CSum | CProd.
Definition cum_fold (f : cumop) (vs : list Z) : Z :=
  match f with CSum => zsum vs | CProd => fold_right Z.mul 1 vs end.

Definition acum (f : cumop) (ax : nat) (x : arr Z) : arr Z :=
  mkarr (shape x)
        (fun out => cum_fold f (map (fun k => get x (set_nth ax k out)) (zrange 0 (nth ax out 0 + 1) 1))).

(* ---- element-wise functions (integer ufuncs; comparisons and logic give 0/1) *)
Inductive efun :=
| EAdd | ESub | EMul | EMaximum | EMinimum
| ENeg | EAbs | ESquare
| ELt | ELe | EGt | EGe | EEq | ENe
| ELogAnd | ELogOr | ELogNot
| EWhere | EClip.

Definition ef_arity (f : efun) : nat :=
  match f with
  | ENeg | EAbs | ESquare | ELogNot => 1
  | EWhere | EClip => 3
  | _ => 2
  end%nat.

Definition ef_apply (f : efun) (vs : list Z) : Z :=
  let a := nth 0 vs 0 in let b := nth 1 vs 0 in let c := nth 2 vs 0 in
  match f with
  | EAdd => a + b | ESub => a - b | EMul => a * b
  | EMaximum => Z.max a b | EMinimum => Z.min a b
  | ENeg => - a | EAbs => Z.abs a | ESquare => a * a
  | ELt => b2z (a <? b) | ELe => b2z (a <=? b) | EGt => b2z (a >? b) | EGe => b2z (a >=? b)
  | EEq => b2z (a =? b) | ENe => b2z (negb (a =? b))
  | ELogAnd => b2z (nz a && nz b) | ELogOr => b2z (nz a || nz b) | ELogNot => b2z (negb (nz a))
  | EWhere => if nz a then b else c                 (* np.where(a, b, c) *)
  | EClip => Z.min (Z.max a b) c                    (* np.clip(a, b, c) *)
  end.

(* ---------------------------------------------------------------------- *)
(* the program language *)
Inductive unop :=
| OT (axes : list nat)                       (* x.transpose(axes) *)
| OSlice (ix : list pidx)                    (* x[ix] *)
| OExpand (ax : nat)                         (* np.expand_dims(x, ax) *)
| OSqueeze (ax : nat)                        (* np.squeeze(x, axis=ax) *)
| OBroadcast (shp : list Z)                  (* np.broadcast_to(x, shp) *)
| OFlip (ax : nat)
| ORoll (shift : Z) (ax : nat)
| OTake (idx : list Z) (ax : nat)
| ORepeat (k : Z) (ax : nat)
| ODiff (ax : nat)
| OReshape (req : list Z)
| OReduce (f : redop) (axes : option (list nat)) (keepdims : bool)   (* axes None = all axes *)
| OCum (f : cumop) (ax : nat)
| ORechunk (chunks : list (list Z)).         (* chunks are metadata *)

Inductive naryop :=
| NElem (f : efun)                           (* ufunc with broadcasting *)
| NConcat (ax : nat)                         (* np.concatenate(xs, axis=ax) *)
| NStack (ax : nat).                         (* np.stack(xs, axis=ax) *)

Inductive prog :=
| PSrc (shp data : list Z)                   (* from_array(literal) *)
| POnes (shp : list Z)
| PArange (n : Z)
| PConst (c : Z)                             (* a Python scalar = 0-d array *)
| PUn (o : unop) (p : prog)
| PN (o : naryop) (ps : list prog).

Notation PT axes p := (PUn (OT axes) p).
Notation PSlice ix p := (PUn (OSlice ix) p).
Notation PExpand ax p := (PUn (OExpand ax) p).
Notation PSqueeze ax p := (PUn (OSqueeze ax) p).
Notation PBroadcast s p := (PUn (OBroadcast s) p).
Notation PFlip ax p := (PUn (OFlip ax) p).
Notation PRoll sh ax p := (PUn (ORoll sh ax) p).
Notation PTake idx ax p := (PUn (OTake idx ax) p).
Notation PRepeat k ax p := (PUn (ORepeat k ax) p).
Notation PDiff ax p := (PUn (ODiff ax) p).
Notation PReshape s p := (PUn (OReshape s) p).
Notation PReduce f axes kd p := (PUn (OReduce f axes kd) p).
Notation PCum f ax p := (PUn (OCum f ax) p).
Notation PRechunk c p := (PUn (ORechunk c) p).
Notation PElem f ps := (PN (NElem f) ps).
Notation PConcat ax ps := (PN (NConcat ax) ps).
Notation PStack ax ps := (PN (NStack ax) ps).
Notation PWhere c a b := (PN (NElem EWhere) [c; a; b]).

(* ---------------------------------------------------------------------- *)
(* unary operations: validity on the operand's shape, result shape, index function *)
Definition red_axes (axes : option (list nat)) (s : list Z) : list nat :=
  match axes with None => seq 0 (length s) | Some l => l end.

Definition un_ok (o : unop) (s : list Z) : bool :=
  let nd := length s in
  match o with
  | OT axes => is_permb axes nd
  | OSlice ix => ixokb ix s
  | OExpand ax => Nat.leb ax nd
  | OSqueeze ax => ltn ax nd && (nth ax s 0 =? 1)
  | OBroadcast shp => bcast_intob s shp && all_nonneg shp
  | OFlip ax => ltn ax nd
  | ORoll _ ax => ltn ax nd
  | OTake idx ax => ltn ax nd && forallb (check_int (nth ax s 0)) idx
  | ORepeat k ax => ltn ax nd && (0 <=? k)
  | ODiff ax => ltn ax nd
  | OReshape req => match reshape_resolve (prodZ s) req with Some _ => true | None => false end
  | OReduce f axes kd =>
      let l := red_axes axes s in
      forallb (fun a => ltn a nd) l && nodupb l
      && (negb (red_needs_nonempty f) || (0 <? prodZ (red_rshape 0 l s)))
      && (negb (red_is_arg f) || match axes with None => true | Some [_] => true | _ => false end)
  | OCum _ ax => ltn ax nd
  | ORechunk _ => true
  end.

Definition un_shape (o : unop) (s : list Z) : list Z :=
  match o with
  | OT axes => transpose_shape axes s
  | OSlice ix => slice_shape ix s
  | OExpand ax => insert_at ax 1 s
  | OSqueeze ax => remove_at ax s
  | OBroadcast shp => shp
  | OFlip _ | ORoll _ _ | OCum _ _ | ORechunk _ => s
  | OTake idx ax => set_nth ax (lenZ idx) s
  | ORepeat k ax => set_nth ax (nth ax s 0 * k) s
  | ODiff ax => set_nth ax (Z.max (nth ax s 0 - 1) 0) s
  | OReshape req => match reshape_resolve (prodZ s) req with Some s' => s' | None => [] end
  | OReduce f axes kd => red_oshape (red_axes axes s) kd s
  end.

Definition un_arr (o : unop) (x : arr Z) : arr Z :=
  match o with
  | OT axes => atranspose axes x
  | OSlice ix => aslice ix x
  | OExpand ax => aexpand ax x
  | OSqueeze ax => asqueeze ax x
  | OBroadcast shp => abroadcast_to shp x
  | OFlip ax => aflip ax x
  | ORoll sh ax => aroll sh ax x
  | OTake idx ax => atake idx ax x
  | ORepeat k ax => arepeat k ax x
  | ODiff ax => adiff ax x
  | OReshape req => areshape (un_shape o (shape x)) x
  | OReduce f axes kd => areduce f (red_axes axes (shape x)) kd x
  | OCum f ax => acum f ax x
  | ORechunk _ => x
  end.

Definition un_rule (o : unop) (s : list Z) : option (list Z) :=
  if un_ok o s then Some (un_shape o s) else None.

Definition un_eval (o : unop) (a : ndarr) : option ndarr :=
  if un_ok o (nshape a) then
    Some (match o with ORechunk _ => a | _ => to_nd (un_arr o (of_nd a)) end)
  else None.

(* ---------------------------------------------------------------------- *)
(* n-ary operations *)
(* every other operand has the rank of the first and its dims, except along ax *)
Definition concat_compat (ax : nat) (s t : list Z) : bool :=
  Nat.eqb (length s) (length t) && zlist_eqb (set_nth ax 0 s) (set_nth ax 0 t).

Definition n_ok (o : naryop) (ss : list (list Z)) : bool :=
  match o with
  | NElem f => Nat.eqb (length ss) (ef_arity f) && forallb (fun s => bcast_intob s (bshape_all ss)) ss
  | NConcat ax =>
      match ss with
      | [] => false
      | s :: rest => ltn ax (length s) && forallb (concat_compat ax s) rest
      end
  | NStack ax =>
      match ss with
      | [] => false
      | s :: rest => Nat.leb ax (length s) && forallb (zlist_eqb s) rest
      end
  end.

Definition n_shape (o : naryop) (ss : list (list Z)) : list Z :=
  match o with
  | NElem _ => bshape_all ss
  | NConcat ax => match ss with [] => [] | s :: rest => concat_shape ax s rest end
  | NStack ax => match ss with [] => []
                 | s :: rest => concat_shape ax (insert_at ax 1 s) (map (insert_at ax 1) rest) end
  end.

Definition n_arr (o : naryop) (xs : list (arr Z)) : arr Z :=
  match o with
  | NElem f => aelemwise (ef_apply f) xs
  | NConcat ax => match xs with [] => mkarr [] (fun _ => 0) | x :: rest => aconcat ax x rest end
  | NStack ax => match xs with [] => mkarr [] (fun _ => 0)
                 | x :: rest => aconcat ax (aexpand ax x) (map (aexpand ax) rest) end
  end.

Definition n_rule (o : naryop) (ss : list (list Z)) : option (list Z) :=
  if n_ok o ss then Some (n_shape o ss) else None.

Definition n_eval (o : naryop) (l : list ndarr) : option ndarr :=
  if n_ok o (map nshape l) then Some (to_nd (n_arr o (map of_nd l))) else None.

Fixpoint sequence {A} (l : list (option A)) : option (list A) :=
  match l with
  | [] => Some []
  | None :: _ => None
  | Some a :: t => match sequence t with Some r => Some (a :: r) | None => None end
  end.

(* ---------------------------------------------------------------------- *)
(* the evaluator and the advertised-shape rule *)
Definition src_ok (s d : list Z) : bool := all_nonneg s && (lenZ d =? prodZ s).

Fixpoint eval (p : prog) : option ndarr :=
  match p with
  | PSrc s d => if src_ok s d then Some (mknd s d) else None
  | POnes s => if all_nonneg s then Some (to_nd (mkarr s (fun _ => 1))) else None
  | PArange n => Some (to_nd (aarange (fun v => v) 0 1 (Z.max n 0)))
  | PConst c => Some (mknd [] [c])
  | PUn o q => match eval q with Some a => un_eval o a | None => None end
  | PN o ps => match sequence (map eval ps) with Some l => n_eval o l | None => None end
  end.

Fixpoint pshape (p : prog) : option (list Z) :=
  match p with
  | PSrc s d => if src_ok s d then Some s else None
  | POnes s => if all_nonneg s then Some s else None
  | PArange n => Some [Z.max n 0]
  | PConst _ => Some []
  | PUn o q => match pshape q with Some s => un_rule o s | None => None end
  | PN o ps => match sequence (map pshape ps) with Some ss => n_rule o ss | None => None end
  end.

(* ---------------------------------------------------------------------- *)
(* specification-side index transformers used by the pushdown laws (ProgSemLaws / ProgSemReduce /
   ProgSemBcast) *)
(* np.flip(x, ax) = x[:, ..., :, ::-1] *)
Definition rev_slice : pslice := mkslice None None (Some (-1)).
Definition flip_index (ax : nat) : list pidx := repeat (ISlice colon) ax ++ [ISlice rev_slice].

(* the index of a reduction's RESULT for the operand index sl (one slice per operand axis, a full
   slice on the reduced axis): unchanged with keepdims, the reduced axis removed without *)
Definition red_index (ax : nat) (kd : bool) (sl : list pslice) : list pslice :=
  if kd then sl else remove_at ax sl.

(* the index of ONE operand (shape sa) of an element-wise operation whose broadcast result (shape o) is
   indexed by sl: the entries that fall on the operand's axes (right aligned), a full slice where the
   operand is stretched (its axis differs from the result's, i.e. is 1) *)
Definition bc_pick (a : pslice) (n m : Z) : pslice := if n =? m then a else colon.
Definition bc_index (sl : list pslice) (sa o : list Z) : list pslice :=
  map3 bc_pick (lastn (length sa) sl) sa (lastn (length sa) o).

(* the advertised shape as a total function ([] for invalid programs) *)
Definition oshape (p : prog) : list Z := match pshape p with Some s => s | None => [] end.

(* ---------------------------------------------------------------------- *)
(* the same semantics WITHOUT materialising intermediate arrays: a program denotes an index function
   (NdArray.arr), compositionally.  ProgSemDen.eval_is_tabulated_den: eval p = option_map to_nd (pden p). *)
Fixpoint pden (p : prog) : option (arr Z) :=
  match p with
  | PSrc s d => if src_ok s d then Some (of_nd (mknd s d)) else None
  | POnes s => if all_nonneg s then Some (mkarr s (fun _ => 1)) else None
  | PArange n => Some (aarange (fun v => v) 0 1 (Z.max n 0))
  | PConst c => Some (mkarr [] (fun _ => c))
  | PUn o q => match pden q with
               | Some x => if un_ok o (shape x) then Some (un_arr o x) else None
               | None => None
               end
  | PN o ps => match sequence (map pden ps) with
               | Some xs => if n_ok o (map shape xs) then Some (n_arr o xs) else None
               | None => None
               end
  end.

(* what the correspondence harness checks by vm_compute *)
Definition eval_is (p : prog) (shp data : list Z) : bool :=
  match eval p with Some a => ndarr_eqb a (mknd shp data) | None => false end.
Definition pshape_is (p : prog) (shp : list Z) : bool :=
  match pshape p with Some s => zlist_eqb s shp | None => false end.
Definition eval_raises (p : prog) : bool :=
  match eval p with Some _ => false | None => true end.
