(* Soundness of the second group of rewrite rules of ExprRules.v:
   R10 slice through Concatenate, R11 slice through Stack, R12 slice of a constant array,
   R13 Elemwise._lower (chunk unification), R14 Rechunk._lower. *)
From DA Require Import PyBase PyBaseFacts Slicing NormalizeFacts FuseFacts NdArray NdArrayFacts ExprRules ExprRulesFacts.
From Coq Require Import ZifyBool.
Open Scope Z_scope.
Ltac Zify.zify_post_hook ::= Z.to_euclidean_division_equations.

(* ---------------------------------------------------------------------- *)
(* small list facts *)
Lemma set_nth_length k v l : length (set_nth k v l) = length l.
Proof. revert k. induction l as [|x l IH]; intros [|k]; cbn [set_nth length]; try reflexivity. rewrite IH. reflexivity. Qed.

Lemma nth_set_nth_eq k v l : (k < length l)%nat -> nth k (set_nth k v l) 0 = v.
Proof. revert k. induction l as [|x l IH]; intros [|k] H; cbn [length] in H; cbn [set_nth nth]; try lia. apply IH. lia. Qed.

Lemma nth_set_nth_neq k k' v l : k <> k' -> nth k' (set_nth k v l) 0 = nth k' l 0.
Proof.
  revert k k'. induction l as [|x l IH]; intros [|k] [|k'] H; cbn [set_nth nth]; try reflexivity; try lia.
  apply IH. lia.
Qed.

Lemma set_nth_set_nth k v w l : set_nth k v (set_nth k w l) = set_nth k v l.
Proof. revert k. induction l as [|x l IH]; intros [|k]; cbn [set_nth]; try reflexivity. rewrite IH. reflexivity. Qed.

Lemma set_nth_same k l : set_nth k (nth k l 0) l = l.
Proof. revert k. induction l as [|x l IH]; intros [|k]; cbn [set_nth nth]; try reflexivity. rewrite IH. reflexivity. Qed.

Lemma set_idx_length k v l : length (set_idx k v l) = length l.
Proof. revert k. induction l as [|x l IH]; intros [|k]; cbn [set_idx length]; try reflexivity. rewrite IH. reflexivity. Qed.

Lemma nth_set_idx_eq k v l d : (k < length l)%nat -> nth k (set_idx k v l) d = v.
Proof. revert k. induction l as [|x l IH]; intros [|k] H; cbn [length] in H; cbn [set_idx nth]; try lia; [reflexivity | apply IH; lia]. Qed.

Lemma nth_set_idx_neq k k' v l d : k <> k' -> nth k' (set_idx k v l) d = nth k' l d.
Proof.
  revert k k'. induction l as [|x l IH]; intros [|k] [|k'] H; cbn [set_idx nth]; try reflexivity; try lia.
  apply IH. lia.
Qed.

(* an index made of slices only *)
Lemma all_slices_of ix : existsb is_int ix = false -> existsb is_none ix = false -> forallb is_sliceb ix = true.
Proof.
  induction ix as [|i ix IH]; intros H1 H2; [reflexivity|]. cbn [existsb forallb] in *.
  apply orb_false_iff in H1, H2. destruct H1 as [Hi H1], H2 as [Hn H2].
  destruct i; try discriminate. cbn [is_sliceb andb]. apply IH; assumption.
Qed.

Lemma all_slices_basic ix : forallb is_sliceb ix = true -> basicb ix = true.
Proof.
  unfold basicb. induction ix as [|i ix IH]; intros H; [reflexivity|]. cbn [forallb] in *.
  apply andb_true_iff in H. destruct H as [Hi H]. destruct i; try discriminate. cbn [andb]. apply IH. exact H.
Qed.

Lemma all_slices_set_idx k s ix : forallb is_sliceb ix = true -> forallb is_sliceb (set_idx k (ISlice s) ix) = true.
Proof.
  revert k. induction ix as [|i ix IH]; intros [|k] H; cbn [set_idx forallb] in *; try reflexivity;
    apply andb_true_iff in H; destruct H as [Hi H].
  - cbn [is_sliceb andb]. exact H.
  - rewrite Hi. cbn [andb]. apply IH. exact H.
Qed.

(* with slices only, result axis k is source axis k *)
Lemma slice_src_nth_slices ix shp out k :
  forallb is_sliceb ix = true -> length ix = length shp -> (k < length ix)%nat ->
  nth k (slice_src ix shp out) 0 = pos1 (nth k ix dcolon) (nth k shp 0) (nth k out 0).
Proof.
  intros Hs Hl Hk. rewrite slice_src_nth by (try apply all_slices_basic; assumption).
  rewrite rank_all_slices by (try assumption; lia). reflexivity.
Qed.

Lemma slice_shape_nth_slices ix shp k :
  forallb is_sliceb ix = true -> length ix = length shp -> (k < length ix)%nat ->
  nth k (slice_shape ix shp) 0 = slen (nth k ix dcolon) (nth k shp 0).
Proof.
  intros Hs Hl Hk.
  assert (is_sliceb (nth k ix dcolon) = true) as Hsk by (rewrite forallb_forall in Hs; apply Hs; apply nth_In; exact Hk).
  rewrite <- (slice_shape_nth_rank ix shp k) by (try apply all_slices_basic; assumption).
  rewrite rank_all_slices by (try assumption; lia). reflexivity.
Qed.

Lemma slice_shape_length_slices ix : forall shp, forallb is_sliceb ix = true -> length ix = length shp ->
  length (slice_shape ix shp) = length ix.
Proof.
  induction ix as [|i ix IH]; intros [|n shp] Hs Hl; cbn [length] in Hl; try discriminate; [reflexivity|].
  cbn [forallb] in Hs. apply andb_true_iff in Hs. destruct Hs as [Hi Hs]. destruct i; try discriminate.
  cbn [slice_shape hd tl length]. f_equal. apply IH; [exact Hs | lia].
Qed.

Lemma slice_src_length_slices ix shp out : forallb is_sliceb ix = true -> length out = length ix ->
  length (slice_src ix shp out) = length ix.
Proof.
  intros Hs Hl. rewrite slice_src_length by (apply all_slices_basic; exact Hs).
  rewrite (all_slices_nslices ix Hs). lia.
Qed.

(* a unit-step slice [lo:hi] inside an axis of length n *)
Lemma range_slice_sel lo hi n j :
  0 <= lo -> hi <= n -> 0 <= j < hi - lo ->
  nthZ (sel (mkslice (Some lo) (Some hi) None) n) j = lo + j /\
  slice_len (mkslice (Some lo) (Some hi) None) n = hi - lo.
Proof.
  intros Hlo Hhi Hj. unfold nthZ, sel, slice_len. rewrite (indices_inbounds lo hi n) by lia.
  rewrite range_len_unit. split; [|lia].
  rewrite zrange_nth by (rewrite range_len_unit, Z2Nat.id; lia). rewrite Z2Nat.id by lia. lia.
Qed.

Lemma range_slice_len lo hi n : 0 <= lo -> lo <= hi -> hi <= n -> slice_len (mkslice (Some lo) (Some hi) None) n = hi - lo.
Proof. intros. unfold slice_len. rewrite (indices_inbounds lo hi n) by lia. rewrite range_len_unit. lia. Qed.

(* ---------------------------------------------------------------------- *)
(* R10: slicing a concatenation *)
Section ConcatSlice.
  Variable V : Type.
  Variable axis : nat.

  Definition offax (s : list Z) : list Z := set_nth axis 0 s.
  Definition naxis (a : arr V) : Z := nth axis (shape a) 0.

  Lemma offax_nth s t k : offax s = offax t -> k <> axis -> nth k s 0 = nth k t 0.
  Proof.
    intros H Hk. unfold offax in H.
    rewrite <- (nth_set_nth_neq axis k 0 s) by lia. rewrite H. apply nth_set_nth_neq. lia.
  Qed.

  Lemma offax_length s t : offax s = offax t -> length s = length t.
  Proof. intros H. unfold offax in H. rewrite <- (set_nth_length axis 0 s), H. apply set_nth_length. Qed.

  Lemma offax_set_nth v s : offax (set_nth axis v s) = offax s.
  Proof. unfold offax. apply set_nth_set_nth. Qed.

  Lemma in_bounds_axis_change out s s' v :
    in_bounds out s -> offax s' = offax s -> (axis < length s)%nat -> 0 <= v < nth axis s' 0 ->
    in_bounds (set_nth axis v out) s'.
  Proof.
    intros Ho Hoff Hax Hv. pose proof (in_bounds_length _ _ Ho) as Hl. pose proof (offax_length _ _ Hoff) as Hl'.
    apply in_bounds_of_nth; [rewrite set_nth_length; lia|].
    intros k Hk. destruct (Nat.eq_dec k axis) as [->|Hne].
    - rewrite nth_set_nth_eq by lia. exact Hv.
    - rewrite nth_set_nth_neq by lia. rewrite (offax_nth s' s k Hoff Hne). apply in_bounds_nth; [exact Ho | lia].
  Qed.

  Definition axsum (l : list (arr V)) : Z := zsum (map naxis l).

  Lemma concat_shape_eq (a : arr V) (rest : list (arr V)) :
    concat_shape axis (shape a) (map shape rest) = set_nth axis (axsum (a :: rest)) (shape a).
  Proof. unfold concat_shape, axsum, naxis. cbn [map]. rewrite map_map. reflexivity. Qed.

  Lemma concat_get_congr (rest rest' : list (arr V)) : Forall2 aeq rest rest' -> forall (a a' : arr V) out,
    aeq a a' -> (axis < length (shape a))%nat ->
    Forall (fun r => offax (shape r) = offax (shape a)) rest ->
    in_bounds out (set_nth axis (axsum (a :: rest)) (shape a)) ->
    concat_get axis a rest out = concat_get axis a' rest' out.
  Proof.
    induction 1 as [|b b' r r' Hb _ IH]; intros a a' out [Hs Hg] Hax Hoff Ho.
    - cbn [concat_get]. apply Hg. unfold axsum in Ho. cbn [map zsum] in Ho. rewrite Z.add_0_r in Ho.
      unfold naxis in Ho. rewrite set_nth_same in Ho. exact Ho.
    - cbn [concat_get]. rewrite <- Hs.
      inversion Hoff as [|b0 r0 Hob Hor]; subst.
      pose proof (in_bounds_nth _ _ axis Ho ltac:(rewrite set_nth_length; exact Hax)) as Hj.
      rewrite nth_set_nth_eq in Hj by exact Hax.
      destruct (nth axis out 0 <? nth axis (shape a) 0) eqn:E.
      + apply Hg. rewrite <- (set_nth_same axis out).
        apply (in_bounds_axis_change out (set_nth axis (axsum (a :: b :: r)) (shape a))); try assumption.
        * symmetry. apply offax_set_nth.
        * rewrite set_nth_length. exact Hax.
        * lia.
      + assert (axis < length (shape b))%nat as Haxb by (rewrite (offax_length _ _ Hob); exact Hax).
        apply IH; try assumption.
        * apply Forall_forall. intros x Hx. rewrite Forall_forall in Hor. rewrite (Hor x Hx). symmetry. exact Hob.
        * apply (in_bounds_axis_change out (set_nth axis (axsum (a :: b :: r)) (shape a))); try assumption.
          -- rewrite !offax_set_nth. exact Hob.
          -- rewrite set_nth_length. exact Hax.
          -- rewrite nth_set_nth_eq by exact Haxb. unfold axsum in *. cbn [map zsum] in *. unfold naxis at 1 in Hj. lia.
  Qed.

  Lemma aconcat_congr (a a' : arr V) (rest rest' : list (arr V)) :
    aeq a a' -> Forall2 aeq rest rest' -> (axis < length (shape a))%nat ->
    Forall (fun r => offax (shape r) = offax (shape a)) rest ->
    aeq (aconcat axis a rest) (aconcat axis a' rest').
  Proof.
    intros Ha Hr Hax Hoff. split; cbn [aconcat shape get].
    - destruct Ha as [Hs _]. rewrite Hs, (Forall2_aeq_shapes _ _ Hr). reflexivity.
    - intros out Ho. rewrite concat_shape_eq in Ho. apply concat_get_congr; assumption.
  Qed.

  Lemma aconcat_single (a : arr V) : aeq (aconcat axis a (@nil (arr V))) a.
  Proof.
    split; cbn [aconcat shape get map concat_get]; [|reflexivity].
    unfold concat_shape. cbn [map zsum]. rewrite Z.add_0_r. apply set_nth_same.
  Qed.

  (* the pieces, in coordinates relative to the first array of the list *)
  Variable ix : list pidx.
  Definition lix (lo hi : Z) : list pidx := set_idx axis (range_slice lo hi) ix.

  Fixpoint apieces (start stop : Z) (l : list (arr V)) : list (arr V) :=
    match l with
    | [] => []
    | a :: t =>
        let n := naxis a in
        (if Z.min stop n >? Z.max start 0 then [aslice (lix (Z.max start 0) (Z.min stop n)) a] else [])
        ++ apieces (start - n) (stop - n) t
    end.

  Fixpoint plen (start stop : Z) (l : list (arr V)) : Z :=
    match l with
    | [] => 0
    | a :: t => let n := naxis a in Z.max 0 (Z.min stop n - Z.max start 0) + plen (start - n) (stop - n) t
    end.

  Lemma plen_nonneg l : forall start stop, 0 <= plen start stop l.
  Proof. induction l as [|a l IH]; intros; cbn [plen]; [lia|]. specialize (IH (start - naxis a) (stop - naxis a)). lia. Qed.

  Lemma apieces_nil_plen l : forall start stop, apieces start stop l = [] -> plen start stop l = 0.
  Proof.
    induction l as [|a l IH]; intros start stop H; cbn [apieces plen] in *; [reflexivity|].
    apply app_eq_nil in H. destruct H as [H1 H2]. rewrite (IH _ _ H2).
    destruct (Z.min stop (naxis a) >? Z.max start 0) eqn:E; [discriminate | lia].
  Qed.

  Lemma apieces_stop_pos l : forall start stop, Forall (fun b => 0 <= naxis b) l -> apieces start stop l <> [] -> 0 < stop.
  Proof.
    induction l as [|a l IH]; intros start stop Hn H; cbn [apieces] in H; [congruence|].
    inversion Hn as [|a0 l0 Ha Hl]; subst.
    destruct (Z.min stop (naxis a) >? Z.max start 0) eqn:E; [lia|].
    cbn [app] in H. specialize (IH _ _ Hl H). lia.
  Qed.

  Lemma plen_total l : forall start stop, Forall (fun b => 0 <= naxis b) l ->
    plen start stop l = Z.max 0 (Z.min stop (axsum l) - Z.max start 0).
  Proof.
    induction l as [|a l IH]; intros start stop Hn; unfold axsum in *; cbn [plen map zsum]; [lia|].
    inversion Hn as [|a0 l0 Ha Hl]; subst. rewrite IH by exact Hl.
    assert (0 <= zsum (map naxis l)) as Hz.
    { clear -Hl. induction Hl as [|b l Hb _ IH]; cbn [map zsum]; lia. }
    lia.
  Qed.

  Hypothesis Hsl : forallb is_sliceb ix = true.

  Section WithShape.
    Variable S : list Z.          (* the shape of the concatenation *)
    Hypothesis Hlix : length ix = length S.
    Hypothesis Hax : (axis < length S)%nat.

    Lemma lix_slices lo hi : forallb is_sliceb (lix lo hi) = true.
    Proof. apply all_slices_set_idx. exact Hsl. Qed.

    Lemma lix_length lo hi : length (lix lo hi) = length ix.
    Proof. apply set_idx_length. Qed.

    (* the source index of a piece *)
    Lemma piece_src b lo hi j out :
      offax (shape b) = offax S -> length out = length S ->
      0 <= lo -> hi <= naxis b -> 0 <= j < hi - lo ->
      slice_src (lix lo hi) (shape b) (set_nth axis j out) = set_nth axis (lo + j) (slice_src ix S out).
    Proof.
      intros Hoff Hlo Hlo0 Hhi Hj. pose proof (offax_length _ _ Hoff) as Hlb.
      apply (nth_ext _ _ 0 0).
      - rewrite set_nth_length, !slice_src_length_slices; rewrite ?lix_length, ?set_nth_length; try lia; try apply lix_slices; exact Hsl.
      - intros k Hk. rewrite slice_src_length_slices in Hk by (rewrite ?lix_length, ?set_nth_length; try lia; apply lix_slices).
        rewrite lix_length in Hk.
        rewrite slice_src_nth_slices by (rewrite ?lix_length; try lia; apply lix_slices).
        destruct (Nat.eq_dec k axis) as [->|Hne].
        + unfold lix. rewrite nth_set_idx_eq by lia. rewrite !nth_set_nth_eq by (rewrite ?slice_src_length_slices; lia || exact Hsl).
          cbn [range_slice pos1]. apply (range_slice_sel lo hi (nth axis (shape b) 0) j); assumption.
        + unfold lix. rewrite nth_set_idx_neq by lia. rewrite !nth_set_nth_neq by lia.
          rewrite slice_src_nth_slices by (try lia; exact Hsl).
          rewrite (offax_nth _ _ k Hoff Hne). reflexivity.
    Qed.

    (* the shape of a piece *)
    Lemma piece_shape b lo hi :
      offax (shape b) = offax S -> 0 <= lo -> lo <= hi -> hi <= naxis b ->
      slice_shape (lix lo hi) (shape b) = set_nth axis (hi - lo) (slice_shape ix S).
    Proof.
      intros Hoff Hlo Hle Hhi. pose proof (offax_length _ _ Hoff) as Hlb.
      apply (nth_ext _ _ 0 0).
      - rewrite set_nth_length, !slice_shape_length_slices; rewrite ?lix_length; try lia; try apply lix_slices; exact Hsl.
      - intros k Hk. rewrite slice_shape_length_slices in Hk by (rewrite ?lix_length; try lia; apply lix_slices).
        rewrite lix_length in Hk.
        rewrite slice_shape_nth_slices by (rewrite ?lix_length; try lia; apply lix_slices).
        destruct (Nat.eq_dec k axis) as [->|Hne].
        + unfold lix. rewrite nth_set_idx_eq by lia. rewrite nth_set_nth_eq by (rewrite slice_shape_length_slices; lia || exact Hsl).
          cbn [range_slice slen]. apply range_slice_len; assumption.
        + unfold lix. rewrite nth_set_idx_neq by lia. rewrite nth_set_nth_neq by lia.
          rewrite slice_shape_nth_slices by (try lia; exact Hsl).
          rewrite (offax_nth _ _ k Hoff Hne). reflexivity.
    Qed.

    Definition okarr (b : arr V) : Prop := offax (shape b) = offax S /\ 0 <= naxis b.

    Lemma okarr_nonneg l : Forall okarr l -> Forall (fun b => 0 <= naxis b) l.
    Proof. intros H. eapply Forall_impl; [|exact H]. intros b [_ Hb]. exact Hb. Qed.

    (* every piece has the result's off-axis shape; the pieces' axis lengths add up to plen *)
    Lemma apieces_shapes l : forall start stop, Forall okarr l ->
      Forall (fun p => offax (shape p) = offax (slice_shape ix S)) (apieces start stop l) /\
      axsum (apieces start stop l) = plen start stop l.
    Proof.
      induction l as [|a l IH]; intros start stop Hok; cbn [apieces plen]; [split; [constructor | reflexivity]|].
      inversion Hok as [|a0 l0 [Hoff Hn] Hl]; subst.
      destruct (IH (start - naxis a) (stop - naxis a) Hl) as [IH1 IH2].
      destruct (Z.min stop (naxis a) >? Z.max start 0) eqn:E; cbn [app].
      - assert (shape (aslice (lix (Z.max start 0) (Z.min stop (naxis a))) a) =
                set_nth axis (Z.min stop (naxis a) - Z.max start 0) (slice_shape ix S)) as Hsh
          by (cbn [aslice shape]; apply piece_shape; [exact Hoff | lia | lia | lia]).
        split.
        + constructor; [rewrite Hsh; apply offax_set_nth | exact IH1].
        + unfold axsum in *. cbn [map zsum]. rewrite IH2. unfold naxis at 1. rewrite Hsh.
          rewrite nth_set_nth_eq by (rewrite slice_shape_length_slices; lia || exact Hsl). lia.
      - split; [exact IH1|]. rewrite IH2. lia.
    Qed.

    (* the value at position j of the concatenated pieces *)
    Lemma apieces_get out : length out = length S -> forall rest a start stop j,
      Forall okarr (a :: rest) -> 0 <= j < plen start stop (a :: rest) ->
      match apieces start stop (a :: rest) with
      | [] => False
      | p :: ps =>
          concat_get axis a rest (set_nth axis (Z.max start 0 + j) (slice_src ix S out)) =
          concat_get axis p ps (set_nth axis j out)
      end.
    Proof.
      intros Hlo. set (X := slice_src ix S out).
      assert (length X = length S) as HlX by (unfold X; rewrite slice_src_length_slices; lia || exact Hsl).
      induction rest as [|b r IH]; intros a start stop j Hok Hj; inversion Hok as [|a0 l0 [Hoff Hn] Hl]; subst.
      - cbn [apieces plen] in *. destruct (Z.min stop (naxis a) >? Z.max start 0) eqn:E; cbn [app]; [|lia].
        cbn [concat_get aslice get]. f_equal. symmetry. apply piece_src; try assumption; lia.
      - assert (forall start stop, apieces start stop (a :: b :: r) =
                  (if Z.min stop (naxis a) >? Z.max start 0 then [aslice (lix (Z.max start 0) (Z.min stop (naxis a))) a] else [])
                  ++ apieces (start - naxis a) (stop - naxis a) (b :: r)) as Hunf by reflexivity.
        assert (plen start stop (a :: b :: r) =
                  Z.max 0 (Z.min stop (naxis a) - Z.max start 0) + plen (start - naxis a) (stop - naxis a) (b :: r)) as Hpl by reflexivity.
        rewrite Hunf. rewrite Hpl in Hj. clear Hunf Hpl.
        set (n := naxis a) in *. set (os := Z.max start 0) in *. set (oe := Z.min stop n) in *.
        set (W := apieces (start - n) (stop - n) (b :: r)) in *.
        pose proof (plen_nonneg (b :: r) (start - n) (stop - n)) as Hpn.
        assert (W <> [] -> n < stop) as Hstop.
        { intros HW. pose proof (apieces_stop_pos (b :: r) (start - n) (stop - n) (okarr_nonneg _ Hl) HW). lia. }
        assert (concat_get axis a (b :: r) (set_nth axis (os + j) X) =
                if os + j <? n then get a (set_nth axis (os + j) X)
                else concat_get axis b r (set_nth axis (os + j - n) X)) as HL.
        { cbn [concat_get]. rewrite nth_set_nth_eq by lia. fold (naxis a). fold n. rewrite set_nth_set_nth. reflexivity. }
        rewrite HL. clear HL.
        destruct (oe >? os) eqn:E; cbn [app].
        + set (p := aslice (lix os oe) a).
          assert (naxis p = oe - os) as Hnp.
          { unfold naxis, p. cbn [aslice shape]. rewrite piece_shape by (try exact Hoff; lia).
            apply nth_set_nth_eq. rewrite slice_shape_length_slices; lia || exact Hsl. }
          assert (0 <= j < oe - os -> get a (set_nth axis (os + j) X) = get p (set_nth axis j out)) as Hhead.
          { intros Hjj. unfold p. cbn [aslice get]. f_equal. symmetry. apply piece_src; try assumption; lia. }
          destruct W as [|q qs] eqn:EW.
          * assert (plen (start - n) (stop - n) (b :: r) = 0) as Hz by (apply apieces_nil_plen; exact EW).
            cbn [concat_get]. destruct (os + j <? n) eqn:E1; [apply Hhead; lia | lia].
          * cbn [concat_get]. rewrite nth_set_nth_eq by lia. fold (naxis p). rewrite Hnp, set_nth_set_nth.
            destruct (j <? oe - os) eqn:E2.
            -- destruct (os + j <? n) eqn:E1; [apply Hhead; lia | lia].
            -- specialize (Hstop ltac:(congruence)).
               destruct (os + j <? n) eqn:E1; [lia|].
               specialize (IH b (start - n) (stop - n) (j - (oe - os)) Hl ltac:(lia)).
               fold W in IH. rewrite EW in IH.
               replace (Z.max (start - n) 0 + (j - (oe - os))) with (os + j - n) in IH by lia. exact IH.
        + assert (W <> []) as HW.
          { intros HW. pose proof (apieces_nil_plen (b :: r) (start - n) (stop - n) HW). lia. }
          specialize (Hstop HW).
          destruct (os + j <? n) eqn:E1; [lia|].
          specialize (IH b (start - n) (stop - n) j Hl ltac:(lia)). fold W in IH.
          destruct W as [|q qs]; [exact IH|].
          replace (Z.max (start - n) 0 + j) with (os + j - n) in IH by lia. exact IH.
    Qed.
  End WithShape.

  (* the slice of a concatenation is the concatenation of the sliced pieces *)
  Theorem aslice_aconcat a rest s start stop p ps :
    Forall (fun b => offax (shape b) = offax (shape a)) rest ->
    Forall (fun b => 0 <= naxis b) (a :: rest) ->
    (axis < length (shape a))%nat -> length ix = length (shape a) ->
    nth axis ix dcolon = ISlice s -> indices s (axsum (a :: rest)) = (start, stop, 1) ->
    apieces start stop (a :: rest) = p :: ps ->
    aeq (aslice ix (aconcat axis a rest)) (aconcat axis p ps) /\
    (axis < length (shape p))%nat /\ Forall (fun q => offax (shape q) = offax (shape p)) ps.
  Proof.
    intros Hoff Hnn Hax Hlix Hs Hind Hp.
    set (T := axsum (a :: rest)) in *. set (S := set_nth axis T (shape a)).
    assert (0 <= T) as HT.
    { unfold T, axsum. clear -Hnn. induction Hnn as [|b l Hb _ IH]; cbn [map zsum]; lia. }
    assert (length ix = length S) as HlS by (unfold S; rewrite set_nth_length; exact Hlix).
    assert (axis < length S)%nat as HaxS by (unfold S; rewrite set_nth_length; exact Hax).
    assert (Forall (okarr S) (a :: rest)) as Hok.
    { inversion Hnn as [|a0 l0 Ha Hl]; subst. constructor.
      - split; [unfold S; symmetry; apply offax_set_nth | exact Ha].
      - apply Forall_forall. intros b Hb. rewrite Forall_forall in Hoff, Hl. split; [|apply Hl; exact Hb].
        rewrite (Hoff b Hb). unfold S. symmetry. apply offax_set_nth. }
    destruct (indices_bounds s T start stop 1 HT Hind) as (_ & Hpos & _). specialize (Hpos ltac:(lia)).
    destruct (apieces_shapes S HlS HaxS (a :: rest) start stop Hok) as [Hsh Hsum]. rewrite Hp in Hsh, Hsum.
    rewrite (plen_total (a :: rest) start stop Hnn) in Hsum. fold T in Hsum.
    inversion Hsh as [|p0 ps0 Hshp Hshps]; subst.
    assert (length (slice_shape ix S) = length ix) as Hlss by (apply slice_shape_length_slices; assumption).
    assert (axis < length (shape p))%nat as Haxp by (rewrite (offax_length _ _ Hshp), Hlss; lia).
    assert (Forall (fun q => offax (shape q) = offax (shape p)) ps) as Hoffp.
    { eapply Forall_impl; [|exact Hshps]. intros q Hq. cbn beta in Hq. rewrite Hq. symmetry. exact Hshp. }
    split; [|split; assumption].
    assert (slice_len s T = Z.max 0 (Z.min stop T - Z.max start 0)) as Hlen.
    { unfold slice_len. rewrite Hind, range_len_unit. lia. }
    assert (shape (aconcat axis a rest) = S) as HshC by (cbn [aconcat shape]; apply concat_shape_eq).
    split.
    - change (shape (aslice ix (aconcat axis a rest))) with (slice_shape ix (shape (aconcat axis a rest))).
      rewrite HshC. cbn [shape aconcat]. rewrite concat_shape_eq, Hsum.
      apply (nth_ext _ _ 0 0); [rewrite set_nth_length, (offax_length _ _ Hshp); reflexivity|].
      intros k Hk. rewrite Hlss in Hk.
      destruct (Nat.eq_dec k axis) as [->|Hne].
      + rewrite nth_set_nth_eq by exact Haxp. rewrite slice_shape_nth_slices by (try assumption; lia).
        rewrite Hs. cbn [slen]. unfold S. rewrite nth_set_nth_eq by exact Hax. exact Hlen.
      + rewrite nth_set_nth_neq by lia. symmetry. apply (offax_nth _ _ k Hshp Hne).
    - change (shape (aslice ix (aconcat axis a rest))) with (slice_shape ix (shape (aconcat axis a rest))).
      change (get (aslice ix (aconcat axis a rest))) with (fun out => get (aconcat axis a rest) (slice_src ix (shape (aconcat axis a rest)) out)).
      cbn beta. rewrite HshC. intros out Ho.
      pose proof (in_bounds_length _ _ Ho) as Hlo. rewrite Hlss in Hlo.
      pose proof (in_bounds_nth _ _ axis Ho ltac:(lia)) as Hj.
      rewrite slice_shape_nth_slices in Hj by (try assumption; lia). rewrite Hs in Hj. cbn [slen] in Hj.
      unfold S in Hj at 1. rewrite nth_set_nth_eq in Hj by exact Hax. rewrite Hlen in Hj.
      set (j := nth axis out 0) in *.
      pose proof (apieces_get S HlS HaxS out ltac:(lia) rest a start stop j Hok) as HG.
      rewrite (plen_total (a :: rest) start stop Hnn) in HG. fold T in HG. specialize (HG ltac:(lia)).
      rewrite Hp in HG. cbn [aconcat get].
      replace (set_nth axis j out) with out in HG by (symmetry; apply set_nth_same). rewrite <- HG. f_equal.
      rewrite <- (set_nth_same axis (slice_src ix S out)) at 1. f_equal.
      rewrite slice_src_nth_slices by (try assumption; lia). rewrite Hs. cbn [pos1]. fold j.
      unfold S. rewrite nth_set_nth_eq by exact Hax.
      unfold nthZ, sel. rewrite Hind. rewrite zrange_nth by (rewrite range_len_unit, Z2Nat.id; lia).
      rewrite Z2Nat.id by lia. lia.
  Qed.
End ConcatSlice.

(* ---------------------------------------------------------------------- *)
(* R11: slicing a stack *)
Lemma insert_at_app {A} (pre suf : list A) v : insert_at (length pre) v (pre ++ suf) = pre ++ v :: suf.
Proof.
  unfold insert_at. rewrite firstn_app, skipn_app, Nat.sub_diag, firstn_all, skipn_all. cbn [firstn skipn].
  rewrite app_nil_r. reflexivity.
Qed.

Lemma remove_at_app {A} (pre suf : list A) v : remove_at (length pre) (pre ++ v :: suf) = pre ++ suf.
Proof.
  unfold remove_at. rewrite firstn_app, Nat.sub_diag, firstn_all. cbn [firstn]. rewrite app_nil_r. f_equal.
  replace (S (length pre)) with (length (pre ++ [v])) by (rewrite app_length; cbn [length]; lia).
  replace (pre ++ v :: suf) with ((pre ++ [v]) ++ suf) by (rewrite <- app_assoc; reflexivity).
  rewrite skipn_app, skipn_all, Nat.sub_diag. reflexivity.
Qed.

Lemma split_nth {A} (l : list A) d k : (k < length l)%nat -> l = firstn k l ++ nth k l d :: skipn (S k) l.
Proof.
  revert k. induction l as [|x l IH]; intros [|k] H; cbn [length] in H; try lia; cbn [firstn nth skipn app]; [reflexivity|].
  f_equal. apply IH. lia.
Qed.

Lemma nth_skipn_firstn {A} (l : list A) d : forall s t j, (s + j < t)%nat ->
  nth j (skipn s (firstn t l)) d = nth (s + j) l d.
Proof.
  induction l as [|x l IH]; intros s t j H.
  - rewrite firstn_nil, skipn_nil. destruct j, (s + _)%nat; reflexivity.
  - destruct t as [|t]; [lia|]. cbn [firstn]. destruct s as [|s]; cbn [skipn Nat.add].
    + destruct j as [|j]; cbn [nth]; [reflexivity|]. apply (IH O t j). lia.
    + apply IH. lia.
Qed.

Lemma Forall_skipn_firstn {A} (P : A -> Prop) l s t : Forall P l -> Forall P (skipn s (firstn t l)).
Proof.
  intros H.
  assert (forall n (l0 : list A), Forall P l0 -> Forall P (firstn n l0) /\ Forall P (skipn n l0)) as Hfs.
  { intros n l0 H0. rewrite <- (firstn_skipn n l0) in H0. apply Forall_app in H0. exact H0. }
  apply Hfs. apply Hfs. exact H.
Qed.

Section StackSlice.
  Variable V : Type.

  Lemma in_bounds_remove_at out : forall pre v suf, in_bounds out (pre ++ v :: suf) ->
    in_bounds (remove_at (length pre) out) (pre ++ suf).
  Proof.
    intros pre v suf H. destruct (in_bounds_app_inv pre out (v :: suf) H) as [H1 H2].
    pose proof (in_bounds_length _ _ H1) as Hl.
    rewrite <- (firstn_skipn (length pre) out). rewrite <- Hl at 1. 
    destruct (skipn (length pre) out) as [|j osuf] eqn:Es; cbn [in_bounds] in H2; [tauto|].
    rewrite remove_at_app. apply in_bounds_app; [exact H1 | tauto].
  Qed.

  Lemma nth_aeq (l l' : list (arr V)) : Forall2 aeq l l' -> forall k d d', (k < length l)%nat -> aeq (nth k l d) (nth k l' d').
  Proof.
    induction 1 as [|x x' l l' Hx _ IH]; intros k d d' Hk; cbn [length] in Hk; [lia|].
    destruct k as [|k]; cbn [nth]; [exact Hx | apply IH; lia].
  Qed.

  Lemma astack_congr (a a' : arr V) (rest rest' : list (arr V)) axis :
    aeq a a' -> Forall2 aeq rest rest' -> (axis <= length (shape a))%nat ->
    Forall (fun r => shape r = shape a) rest ->
    aeq (astack axis a rest) (astack axis a' rest').
  Proof.
    intros Ha Hr Hax Hsh. split; cbn [astack shape get].
    - destruct Ha as [Hs _]. rewrite Hs.
      assert (length rest = length rest') as ->
        by (rewrite <- (map_length shape rest), (Forall2_aeq_shapes _ _ Hr), map_length; reflexivity).
      reflexivity.
    - intros out Ho.
      unfold insert_at in Ho.
      assert (length (firstn axis (shape a)) = axis) as Hlp by (rewrite firstn_length; lia).
      assert (shape a = firstn axis (shape a) ++ skipn axis (shape a)) as Hsa by (symmetry; apply firstn_skipn).
      set (spre := firstn axis (shape a)) in *. set (ssuf := skipn axis (shape a)) in *. clearbody spre ssuf. subst axis.
      pose proof (in_bounds_remove_at out _ _ _ Ho) as Hrm. rewrite <- Hsa in Hrm.
      pose proof (in_bounds_nth _ _ (length spre) Ho ltac:(rewrite app_length; cbn [length]; lia)) as Hj.
      rewrite nth_middle in Hj. set (axis := length spre) in *.
      set (k := Z.to_nat (nth axis out 0)) in *.
      assert (k < length (a :: rest))%nat as Hk by (cbn [length]; unfold k; lia).
      assert (Forall2 aeq (a :: rest) (a' :: rest')) as HF by (constructor; assumption).
      assert (Forall (fun r => shape r = shape a) (a :: rest)) as HS by (constructor; [reflexivity | exact Hsh]).
      pose proof (nth_aeq _ _ HF k a a' Hk) as [_ Hg]. apply Hg.
      rewrite Forall_forall in HS. rewrite (HS (nth k (a :: rest) a)) by (apply nth_In; exact Hk). exact Hrm.
  Qed.

  Lemma astack_get_app (a : arr V) rest k P v Q : length P = k ->
    get (astack k a rest) (P ++ v :: Q) = get (nth (Z.to_nat v) (a :: rest) a) (P ++ Q).
  Proof. intros <-. cbn [astack get]. rewrite nth_middle, remove_at_app. reflexivity. Qed.

  Theorem aslice_astack (a : arr V) rest ipre s isuf spre ssuf start stop p ps :
    shape a = spre ++ ssuf -> Forall (fun b => shape b = shape a) rest ->
    length ipre = length spre -> length isuf = length ssuf ->
    forallb is_sliceb ipre = true -> forallb is_sliceb isuf = true ->
    indices s (Z.of_nat (S (length rest))) = (start, stop, 1) ->
    map (aslice (ipre ++ isuf)) (skipn (Z.to_nat start) (firstn (Z.to_nat stop) (a :: rest))) = p :: ps ->
    aeq (aslice (ipre ++ ISlice s :: isuf) (astack (length spre) a rest)) (astack (length spre) p ps) /\
    shape p = slice_shape (ipre ++ isuf) (shape a) /\ Forall (fun q => shape q = shape p) ps.
  Proof.
    intros Hsa Hsr Hlp Hls Hsp Hss Hind Hmap.
    set (N := Z.of_nat (S (length rest))) in *. set (l := a :: rest) in *.
    destruct (indices_bounds s N start stop 1 ltac:(lia) Hind) as (_ & Hpos & _). specialize (Hpos ltac:(lia)).
    set (sl := skipn (Z.to_nat start) (firstn (Z.to_nat stop) l)) in *.
    assert (length sl = (Z.to_nat stop - Z.to_nat start)%nat) as Hlsl.
    { unfold sl. rewrite skipn_length, firstn_length. unfold l. cbn [length]. lia. }
    assert (length sl = S (length ps)) as Hlsl2 by (rewrite <- (map_length (aslice (ipre ++ isuf)) sl), Hmap; reflexivity).
    assert (Forall (fun b => shape b = spre ++ ssuf) sl) as Hshs.
    { unfold sl. apply Forall_skipn_firstn. constructor; [exact Hsa|].
      eapply Forall_impl; [|exact Hsr]. intros b Hb. cbn beta in Hb. rewrite Hb. exact Hsa. }
    assert (Forall (fun q => shape q = slice_shape (ipre ++ isuf) (spre ++ ssuf)) (p :: ps)) as Hshp.
    { rewrite <- Hmap. apply Forall_map. eapply Forall_impl; [|exact Hshs]. intros b Hb. cbn [aslice shape]. rewrite Hb. reflexivity. }
    inversion Hshp as [|p0 ps0 Hp Hps]; subst p0 ps0.
    pose proof (all_slices_basic ipre Hsp) as Hbp.
    assert (length (slice_shape ipre spre) = length spre) as HlA by (rewrite slice_shape_length_slices; assumption).
    assert (slice_len s N = Z.of_nat (S (length ps))) as HL.
    { unfold slice_len. rewrite Hind, range_len_unit. lia. }
    split; [|split; [rewrite Hsa; exact Hp | eapply Forall_impl; [|exact Hps]; intros q Hq; cbn beta in Hq; rewrite Hq; symmetry; exact Hp]].
    split.
    - cbn [aslice astack shape]. rewrite Hsa, insert_at_app, Hp.
      rewrite !slice_shape_app by assumption. cbn [slice_shape hd tl]. rewrite <- HlA, insert_at_app. fold N. rewrite HL. reflexivity.
    - cbn [aslice shape]. intros out Ho. cbn [astack shape] in Ho. rewrite Hsa, insert_at_app in Ho.
      rewrite slice_shape_app in Ho by assumption. cbn [slice_shape hd tl] in Ho.
      destruct (in_bounds_app_inv _ _ _ Ho) as [Ho1 Ho2]. rewrite HlA in Ho1, Ho2.
      pose proof (in_bounds_length _ _ Ho1) as Hlo1. rewrite HlA in Hlo1.
      destruct (skipn (length spre) out) as [|j osuf] eqn:Eo; cbn [in_bounds] in Ho2; [tauto|]. destruct Ho2 as [Hj Ho2].
      set (opre := firstn (length spre) out) in *.
      assert (out = opre ++ j :: osuf) as Hout by (unfold opre; rewrite <- Eo; symmetry; apply firstn_skipn).
      fold N in Hj. rewrite HL in Hj.
      assert (nslices ipre = length spre) as Hns by (rewrite (all_slices_nslices ipre Hsp); exact Hlp).
      (* left: the source index *)
      cbn [aslice get]. change (shape (astack (length spre) a rest)) with (insert_at (length spre) N (shape a)).
      rewrite Hsa, insert_at_app. rewrite slice_src_app by assumption. rewrite Hns. fold opre. rewrite Eo.
      cbn [slice_src hd tl].
      set (P := slice_src ipre spre opre). set (Q := slice_src isuf ssuf osuf).
      assert (length P = length spre) as HlP by (unfold P; rewrite slice_src_length_slices; lia || assumption).
      rewrite (astack_get_app a rest (length spre) P _ Q HlP).
      (* right *)
      rewrite Hout. rewrite (astack_get_app p ps (length spre) opre j osuf Hlo1).
      assert (nthZ (sel s N) j = start + j) as Hv.
      { unfold nthZ, sel. rewrite Hind. rewrite zrange_nth by (rewrite range_len_unit, Z2Nat.id; lia). rewrite Z2Nat.id by lia. lia. }
      rewrite Hv. rewrite <- Hmap.
      set (f := aslice (ipre ++ isuf)).
      rewrite (nth_indep (map f sl) p (f a)) by (rewrite map_length; lia). rewrite (map_nth f).
      assert (nth (Z.to_nat j) sl a = nth (Z.to_nat (start + j)) l a) as Hn.
      { unfold sl. rewrite nth_skipn_firstn by lia. f_equal. lia. }
      rewrite Hn. unfold f. cbn [aslice get]. f_equal.
      assert (shape (nth (Z.to_nat (start + j)) l a) = spre ++ ssuf) as Hsn.
      { assert (Forall (fun b => shape b = spre ++ ssuf) l) as HFl.
        { unfold l. constructor; [exact Hsa|]. eapply Forall_impl; [|exact Hsr]. intros b Hb. cbn beta in Hb. rewrite Hb. exact Hsa. }
        rewrite Forall_forall in HFl. apply HFl. apply nth_In. unfold l. cbn [length]. lia. }
      rewrite Hsn. rewrite slice_src_app by assumption. rewrite Hns.
      rewrite <- Hlo1 at 1 2. rewrite firstn_app, Nat.sub_diag, firstn_all, skipn_app, skipn_all, Nat.sub_diag.
      cbn [firstn skipn]. rewrite app_nil_r. reflexivity.
  Qed.
End StackSlice.

(* ---------------------------------------------------------------------- *)
(* R15 list-level facts: slicing through broadcast_to *)
Definition bt_index (ix : list pidx) (sa : list Z) : list pidx := zip2 bt_axis (lastn (length sa) ix) sa.

Lemma zip2_length {A B C} (f : A -> B -> C) a : forall b, length a = length b -> length (zip2 f a b) = length b.
Proof. induction a as [|x a IH]; intros [|y b] H; cbn [length] in H; try discriminate; [reflexivity|]. cbn [zip2 length]. f_equal. apply IH. lia. Qed.

Lemma bt_core ixs : forall sa osuf out,
  compat sa osuf -> idx_okb ixs osuf = true -> forallb is_sliceb ixs = true -> in_bounds out (slice_shape ixs osuf) ->
  mask sa (slice_src ixs osuf out) =
  slice_src (zip2 bt_axis ixs sa) sa (mask (slice_shape (zip2 bt_axis ixs sa) sa) out).
Proof.
  induction ixs as [|i ixs IH]; intros [|n sa] [|m osuf] out Hc Hok Hsl Ho;
    cbn [compat idx_okb] in Hc, Hok; try (exfalso; tauto); try discriminate.
  - cbn [slice_shape in_bounds] in Ho. destruct out; [reflexivity | exfalso; exact Ho].
  - destruct i; discriminate.
  - destruct Hc as [Hnm Hc]. cbn [forallb] in Hsl. apply andb_true_iff in Hsl. destruct Hsl as [Hi0 Hsl].
    destruct i as [z|s|]; try discriminate. apply andb_true_iff in Hok. destruct Hok as [Hi Hok].
    cbn [zip2]. unfold bt_axis. cbn [slice_shape slice_src hd tl] in *.
    destruct out as [|j out]; cbn [in_bounds] in Ho; [exfalso; exact Ho|]. destruct Ho as [Hj Ho]. cbn [hd tl].
    destruct (n =? 1) eqn:E.
    + assert (n = 1) as -> by lia. cbn [mask slice_shape slice_src hd tl]. rewrite slice_len_colon by lia.
      cbn [mask hd tl]. change (1 =? 1) with true. cbn iota. rewrite nthZ_sel_colon by lia.
      f_equal. apply IH; assumption.
    + assert (n = m) as -> by lia. cbn [mask slice_shape slice_src hd tl]. rewrite E. cbn [mask hd tl].
      destruct (slice_len s m =? 1) eqn:E1.
      * assert (j = 0) as -> by lia. f_equal. apply IH; assumption.
      * f_equal. apply IH; assumption.
Qed.

Lemma bt_compat ixs : forall sa osuf,
  compat sa osuf -> idx_okb ixs osuf = true -> forallb is_sliceb ixs = true ->
  compat (slice_shape (zip2 bt_axis ixs sa) sa) (slice_shape ixs osuf).
Proof.
  induction ixs as [|i ixs IH]; intros [|n sa] [|m osuf] Hc Hok Hsl;
    cbn [compat idx_okb] in Hc, Hok; try (exfalso; tauto); try discriminate.
  - exact I.
  - destruct i; discriminate.
  - destruct Hc as [Hnm Hc]. cbn [forallb] in Hsl. apply andb_true_iff in Hsl. destruct Hsl as [Hi0 Hsl].
    destruct i as [z|s|]; try discriminate. apply andb_true_iff in Hok. destruct Hok as [Hi Hok].
    cbn [zip2]. unfold bt_axis. destruct (n =? 1) eqn:E.
    + assert (n = 1) as -> by lia. cbn [slice_shape hd tl compat]. split; [left; apply slice_len_colon; lia | apply IH; assumption].
    + assert (n = m) as -> by lia. cbn [slice_shape hd tl compat]. split; [right; reflexivity | apply IH; assumption].
Qed.

Lemma all_slices_split ipre isuf : forallb is_sliceb (ipre ++ isuf) = true ->
  forallb is_sliceb ipre = true /\ forallb is_sliceb isuf = true.
Proof. rewrite forallb_app. apply andb_true_iff. Qed.

Lemma bt_bidx ix sa o out :
  bcast_into sa o -> idx_okb ix o = true -> forallb is_sliceb ix = true -> in_bounds out (slice_shape ix o) ->
  bidx sa (slice_src ix o out) = slice_src (bt_index ix sa) sa (bidx (slice_shape (bt_index ix sa) sa) out).
Proof.
  intros (pre & suf & -> & Hc) Hok Hsl Ho.
  destruct (idx_okb_split ix pre suf Hok) as (ipre & isuf & -> & Hlp & Hokp & Hoks).
  destruct (all_slices_split _ _ Hsl) as [Hslp Hsls].
  pose proof (compat_length _ _ Hc) as Hls. pose proof (idx_okb_length _ _ Hoks) as Hli.
  pose proof (idx_okb_basic _ _ Hokp) as Hbp. pose proof (idx_okb_basic _ _ Hoks) as Hbs.
  unfold bt_index. rewrite lastn_app by lia.
  rewrite slice_shape_app in Ho by assumption.
  destruct (in_bounds_app_inv _ _ _ Ho) as [Ho1 Ho2].
  rewrite (slice_shape_length _ _ Hokp) in Ho1, Ho2.
  pose proof (in_bounds_length _ _ Ho) as Hlo. rewrite app_length, (slice_shape_length _ _ Hokp), (slice_shape_length _ _ Hoks) in Hlo.
  rewrite slice_src_app by assumption.
  unfold bidx. rewrite lastn_app.
  2:{ rewrite slice_src_length by exact Hbs. rewrite skipn_length. lia. }
  set (ia := zip2 bt_axis isuf sa).
  assert (length (slice_shape ia sa) = nslices isuf) as Hlia.
  { pose proof (bt_compat isuf sa suf Hc Hoks Hsls) as Hcc. fold ia in Hcc.
    rewrite (compat_length _ _ Hcc). apply slice_shape_length. exact Hoks. }
  rewrite (lastn_skipn out (nslices ipre)) by lia.
  apply bt_core; assumption.
Qed.

Lemma bt_bcast ix sa o :
  bcast_into sa o -> idx_okb ix o = true -> forallb is_sliceb ix = true ->
  bcast_into (slice_shape (bt_index ix sa) sa) (slice_shape ix o) /\ length (bt_index ix sa) = length sa.
Proof.
  intros (pre & suf & -> & Hc) Hok Hsl.
  destruct (idx_okb_split ix pre suf Hok) as (ipre & isuf & -> & Hlp & Hokp & Hoks).
  destruct (all_slices_split _ _ Hsl) as [Hslp Hsls].
  pose proof (compat_length _ _ Hc) as Hls. pose proof (idx_okb_length _ _ Hoks) as Hli.
  unfold bt_index. rewrite lastn_app by lia. split; [|apply zip2_length; lia].
  rewrite slice_shape_app by (try assumption; apply (idx_okb_basic _ pre); exact Hokp).
  exists (slice_shape ipre pre), (slice_shape isuf suf). split; [reflexivity|].
  apply bt_compat; assumption.
Qed.

Lemma abroadcast_to_congr {V} (a b : arr V) shp :
  aeq a b -> bcast_into (shape a) shp -> aeq (abroadcast_to shp a) (abroadcast_to shp b).
Proof.
  intros [Hs Hg] Hb. split; cbn [abroadcast_to shape get]; [reflexivity|].
  intros out Ho. rewrite <- Hs. apply Hg. apply (bidx_in_bounds _ shp); assumption.
Qed.

Lemma unit_ranges_shape ix : forall oshape ranges,
  omap (fun p => unit_range (fst p) (snd p)) (combine ix oshape) = Some ranges -> length ix = length oshape ->
  map (fun r => Z.max 0 (snd r - fst r)) ranges = slice_shape ix oshape.
Proof.
  induction ix as [|i ix IH]; intros [|n oshape] ranges H Hl; cbn [length] in Hl; try discriminate; cbn [combine omap] in H.
  - injection H as <-. reflexivity.
  - cbn [fst snd] in H. destruct (unit_range i n) as [[a b]|] eqn:Eu; [|discriminate].
    destruct (omap _ (combine ix oshape)) as [r|] eqn:Er; [|discriminate]. injection H as <-.
    cbn [map fst snd]. rewrite (IH oshape r Er) by lia.
    destruct i as [z|s|]; cbn [unit_range] in Eu; try discriminate.
    destruct (indices s n) as [[a' b'] k] eqn:Hi. destruct (k =? 1) eqn:Ek; [|discriminate]. injection Eu as <- <-.
    assert (k = 1) as -> by lia. cbn [slice_shape hd tl]. f_equal. unfold slice_len. rewrite Hi, range_len_unit. lia.
Qed.

Lemma Forall2_aeq_sym {V} (A B : list (arr V)) : Forall2 aeq A B -> Forall2 aeq B A.
Proof. induction 1; constructor; [apply aeq_sym; assumption | assumption]. Qed.

Lemma Forall_map {A B} (P : B -> Prop) (f : A -> B) l : Forall (fun x => P (f x)) l -> Forall P (map f l).
Proof. induction 1; cbn [map]; constructor; assumption. Qed.

Section Sound2.
  Variable V : Type.
  Variable leafv : Z -> list Z -> V.
  Variable constv : Z -> V.
  Variable fop : Z -> list V -> V.
  Variable inj : Z -> V.
  Notation D := (den V leafv constv fop inj).
  Notation dshape := (den_shape V leafv constv fop inj).

  (* ------------------------------------------------------------------ *)
  (* R10: Slice(Concatenate(arrays), ix) *)
  Lemma concat_pieces_sound axis full : forall arrays start stop cum ys,
    concat_pieces axis full start stop cum arrays = Some ys ->
    Forall (fun a => wfb a = true /\ length full = endim a) arrays ->
    Forall2 aeq (map D ys) (apieces V axis full (start - cum) (stop - cum) (map D arrays)).
  Proof.
    induction arrays as [|arr t IH]; intros start stop cum ys H Hw; cbn [concat_pieces] in H.
    - injection H as <-. constructor.
    - inversion Hw as [|a0 l0 [Hwa Hla] Hwt]; subst. cbn [map apieces].
      set (n := nth axis (eshape arr) 0) in *.
      assert (naxis V axis (D arr) = n) as Hn by (unfold naxis; rewrite dshape; reflexivity). rewrite !Hn.
      replace (start - cum - n) with (start - (cum + n)) by lia.
      replace (stop - cum - n) with (stop - (cum + n)) by lia.
      assert ((Z.min (stop - cum) n >? Z.max (start - cum) 0) = (Z.min stop (cum + n) >? Z.max start cum)) as Hc
        by (destruct (Z.min (stop - cum) n >? Z.max (start - cum) 0) eqn:E1, (Z.min stop (cum + n) >? Z.max start cum) eqn:E2; lia).
      rewrite Hc. destruct (Z.min stop (cum + n) >? Z.max start cum) eqn:E.
      + destruct (mk_getitem arr _) as [y|] eqn:Ey; [|discriminate].
        destruct (concat_pieces axis full start stop (cum + n) t) as [r|] eqn:Er; [|discriminate].
        injection H as <-. cbn [map app]. constructor; [|apply IH; assumption].
        replace (Z.max (start - cum) 0) with (Z.max start cum - cum) by lia.
        replace (Z.min (stop - cum) n) with (Z.min stop (cum + n) - cum) by lia.
        refine (proj1 (mk_getitem_sound V leafv constv fop inj arr _ y Hwa _ Ey)).
        rewrite set_idx_length. exact Hla.
      + cbn [app]. apply IH; assumption.
  Qed.

  Theorem rule_slice_concat_sound e e' :
    rule_slice_concat e = Some e' -> wfb e = true -> aeq (D e) (D e').
  Proof.
    destruct e as [| |y ix o| | | | | | | | | | |]; try discriminate.
    destruct y as [| | | | | | |a axis rest| | | | | |]; try discriminate.
    cbn [rule_slice_concat wfb]. intros H Hw.
    apply andb_true_iff in Hw. destruct Hw as [Hw Hok].
    repeat (apply andb_true_iff in Hw; destruct Hw as [Hw ?]).
    match goal with Hx : Nat.ltb axis (endim a) = true |- _ => apply Nat.ltb_lt in Hx; rename Hx into Hax end.
    match goal with Hx : forallb wfb rest = true |- _ => rename Hx into Hwr end.
    match goal with Hx : forallb _ rest = true |- _ => rename Hx into Hoff end.
    assert (endim (EConcat a axis rest) = endim a) as Hnd
      by (unfold endim; cbn [eshape]; unfold concat_shape; apply set_nth_length).
    pose proof (idx_okb_length _ _ Hok) as Hlix. fold (endim (EConcat a axis rest)) in Hlix. rewrite Hnd in Hlix.
    rewrite Hnd, (pad_index_full ix (endim a) Hlix) in H.
    destruct (existsb is_int ix) eqn:Ei; [discriminate|].
    destruct (existsb is_none ix) eqn:En; [discriminate|].
    pose proof (all_slices_of ix Ei En) as Hsl.
    destruct (nth axis ix INone) as [z|s|] eqn:Es; try discriminate.
    assert (nth axis ix dcolon = ISlice s) as Hs by (rewrite (nth_indep ix dcolon INone) by lia; exact Es).
    set (As := map D (a :: rest)).
    assert (zsum (map (fun x => nth axis (eshape x) 0) (a :: rest)) = axsum V axis As) as HT.
    { unfold As, axsum. rewrite map_map. f_equal. apply map_ext. intros x. unfold naxis. rewrite dshape. reflexivity. }
    rewrite HT in H. destruct (indices s (axsum V axis As)) as [[start stop] step] eqn:Hind.
    destruct (step =? 1) eqn:Est; [|discriminate]. cbn [negb] in H. assert (step = 1) as -> by lia.
    destruct (concat_pieces axis ix start stop 0 (a :: rest)) as [ys|] eqn:Ep; [|discriminate].
    assert (Forall (fun x => wfb x = true /\ length ix = endim x) (a :: rest)) as Hwf.
    { constructor; [split; assumption|]. apply Forall_forall. intros r Hr.
      rewrite forallb_forall in Hwr, Hoff. split; [apply Hwr; exact Hr|].
      specialize (Hoff r Hr). apply zlist_eqb_eq in Hoff. unfold endim.
      rewrite <- (set_nth_length axis 0 (eshape r)), Hoff, set_nth_length. exact Hlix. }
    pose proof (concat_pieces_sound axis ix (a :: rest) start stop 0 ys Ep Hwf) as HF.
    rewrite !Z.sub_0_r in HF. fold As in HF.
    assert (Forall (fun b => offax axis (shape b) = offax axis (shape (D a))) (map D rest)) as H1.
    { apply Forall_map. apply Forall_forall. intros r Hr. rewrite forallb_forall in Hoff. specialize (Hoff r Hr).
      apply zlist_eqb_eq in Hoff. rewrite !dshape. exact Hoff. }
    assert (Forall (fun b => 0 <= naxis V axis b) As) as H2.
    { unfold As. apply Forall_map. apply Forall_forall. intros r Hr. unfold naxis. rewrite dshape. apply nth_nonneg.
      apply wfb_nonneg. rewrite Forall_forall in Hwf. apply (Hwf r Hr). }
    assert (axis < length (shape (D a)))%nat as H3 by (rewrite dshape; exact Hax).
    assert (length ix = length (shape (D a))) as H4 by (rewrite dshape; exact Hlix).
    change (D (ESlice (EConcat a axis rest) ix o)) with (aslice ix (aconcat axis (D a) (map D rest))).
    destruct ys as [|x xs]; [discriminate|].
    cbn [map] in HF. inversion HF as [|x0 p l0 ps Hxp Hxs Hpe Hpp]; subst.
    symmetry in Hpp. unfold As in Hpp. cbn [map] in Hpp.
    destruct (aslice_aconcat V axis ix Hsl (D a) (map D rest) s start stop p ps H1 H2 H3 H4 Hs Hind Hpp) as (Hmain & Haxp & Hoffp).
    apply (aeq_trans _ (aconcat axis p ps)); [exact Hmain|].
    assert (aeq (aconcat axis p ps) (aconcat axis (D x) (map D xs))) as Hc
      by (apply aconcat_congr; [apply aeq_sym; exact Hxp | apply Forall2_aeq_sym; exact Hxs | exact Haxp | exact Hoffp]).
    destruct xs as [|x2 xs]; injection H as <-.
    - apply (aeq_trans _ (aconcat axis (D x) (map D []))); [exact Hc | apply aconcat_single].
    - exact Hc.
  Qed.

  (* ------------------------------------------------------------------ *)
  (* R12: a slice of a constant array *)
  Theorem rule_slice_full_sound e e' :
    rule_slice_full e = Some e' -> aeq (D e) (D e') /\ eshape e' = eshape e /\ echunks e' = echunks e.
  Proof.
    destruct e as [| |y ix o| | | | | | | | | | |]; try discriminate.
    destruct y as [| | | | | | | | | | | |id shp c|]; try discriminate.
    cbn [rule_slice_full]. intros H. injection H as <-.
    split; [|split; reflexivity]. split; cbn [den aslice afull shape get]; [reflexivity|]. intros; reflexivity.
  Qed.

  Lemma zll_eqb_eq a : forall b, zll_eqb a b = true -> a = b.
  Proof.
    unfold zll_eqb. induction a as [|x a IH]; intros [|y b] E; cbn in E; try discriminate; [reflexivity|].
    apply andb_true_iff in E. destruct E as [E1 E2]. apply ExprRulesFacts.zlist_eqb_eq in E1. subst y. f_equal. apply IH. exact E2.
  Qed.

  (* ------------------------------------------------------------------ *)
  (* R13: Elemwise._lower — operands are rechunked to the unified layout, values untouched *)
  Lemma lower_arg_cases target a p : lower_arg target a = Some p ->
    fst p = a \/ fst p = ERechunk a 0 (unify_arg_chunks (eshape a) target) 0 false false.
  Proof.
    unfold lower_arg. destruct (is_const a); [intros H; injection H as <-; left; reflexivity|].
    destruct (echunks a) as [ca|]; [|discriminate].
    destruct (_ && _); intros H; injection H as <-; [right | left]; reflexivity.
  Qed.

  Theorem rule_elemwise_lower_args target op args e' :
    rule_elemwise_lower target (EElemwise op args) = Some e' ->
    exists args', e' = EElemwise op args' /\
      Forall2 (fun a a' => a' = a \/ a' = ERechunk a 0 (unify_arg_chunks (eshape a) target) 0 false false) args args'.
  Proof.
    cbn [rule_elemwise_lower]. destruct (omap (lower_arg target) args) as [r|] eqn:Eo; [|discriminate].
    destruct (existsb snd r); [|discriminate]. intros H. injection H as <-.
    exists (map fst r). split; [reflexivity|]. apply omap_Forall2 in Eo.
    induction Eo as [|a p l l' Hp _ IH]; cbn [map]; constructor; [|exact IH].
    apply (lower_arg_cases target a p Hp).
  Qed.

  (* after the rule, every array operand (with no empty chunk tuple) advertises the layout the unification assigns to it *)
  Theorem rule_elemwise_lower_aligned target op args e' :
    rule_elemwise_lower target (EElemwise op args) = Some e' ->
    exists args', e' = EElemwise op args' /\
      Forall2 (fun a a' => is_const a = true \/
                 forall ca, echunks a = Some ca -> forallb (fun d => negb (Nat.eqb (length d) 0)) ca = true ->
                            echunks a' = Some (unify_arg_chunks (eshape a) target)) args args'.
  Proof.
    cbn [rule_elemwise_lower]. destruct (omap (lower_arg target) args) as [r|] eqn:Eo; [|discriminate].
    destruct (existsb snd r); [|discriminate]. intros H. injection H as <-.
    exists (map fst r). split; [reflexivity|]. apply omap_Forall2 in Eo.
    induction Eo as [|a p l l' Hp _ IH]; cbn [map]; constructor; [|exact IH].
    unfold lower_arg in Hp. destruct (is_const a); [left; reflexivity|]. right.
    destruct (echunks a) as [ca0|] eqn:Ea; [|discriminate]. intros ca Hca Hne. injection Hca as <-.
    rewrite Hne, andb_true_r in Hp.
    destruct (zll_eqb (unify_arg_chunks (eshape a) target) ca0) eqn:E; cbn [negb] in Hp; injection Hp as <-; cbn [fst].
    - apply zll_eqb_eq in E. rewrite E. exact Ea.
    - reflexivity.
  Qed.

  Theorem rule_elemwise_lower_sound target e e' :
    rule_elemwise_lower target e = Some e' -> aeq (D e) (D e') /\ eshape e' = eshape e.
  Proof.
    destruct e as [| | | |op args| | | | | | | | |]; try discriminate. intros H.
    destruct (rule_elemwise_lower_args target op args e' H) as (args' & -> & HF).
    assert (map D args' = map D args /\ map eshape args' = map eshape args) as [H1 H2].
    { clear H. induction HF as [|a a' l l' Ha _ [IH1 IH2]]; [split; reflexivity|]. cbn [map].
      destruct Ha as [->| ->]; cbn [den eshape arechunk]; rewrite IH1, IH2; split; reflexivity. }
    cbn [den eshape]. rewrite H1, H2. split; [apply aeq_refl | reflexivity].
  Qed.

  (* ------------------------------------------------------------------ *)
  (* R14: Rechunk._lower *)
  (* Rechunk._pushdown_through_concatenate *)
  Lemma mk_rechunk_spec a ch y : mk_rechunk a ch = Some y ->
    D y = D a /\ eshape y = eshape a /\ echunks y = Some ch.
  Proof.
    unfold mk_rechunk. destruct (echunks a) as [c|] eqn:Ec; [|discriminate].
    destruct (zll_eqb ch c) eqn:E; intros H; injection H as <-.
    - apply zll_eqb_eq in E. subst c. repeat split. exact Ec.
    - repeat split.
  Qed.

  Lemma echunks_concat a axis rest :
    echunks (EConcat a axis rest) =
    match echunks a, omap echunks rest with
    | Some c, Some cs => Some (set_at axis (concat (map (fun d => nth axis d []) (c :: cs))) c)
    | _, _ => None
    end.
  Proof.
    cbn [echunks].
    assert (forall l, (fix go (l : list expr) : option (list (list (list Z))) :=
               match l with
               | [] => Some []
               | x :: t => match echunks x, go t with Some y, Some r => Some (y :: r) | _, _ => None end
               end) l = omap echunks l) as Hgo.
    { induction l as [|x l IH]; [reflexivity|]. cbn [omap]. rewrite <- IH. reflexivity. }
    rewrite Hgo. reflexivity.
  Qed.

  Lemma split_parts_length sizes : forall tgt per, split_parts sizes tgt = Some per -> length per = length sizes.
  Proof.
    induction sizes as [|sz sizes IH]; intros tgt per H; cbn [split_parts] in H.
    - destruct tgt; [injection H as <-; reflexivity | discriminate].
    - destruct (split_part sz tgt) as [p r]. destruct (split_parts sizes r) as [q|] eqn:E; [|discriminate].
      injection H as <-. cbn [length]. f_equal. apply (IH r). exact E.
  Qed.

  Lemma omap_length {A B} (f : A -> option B) l : forall l', omap f l = Some l' -> length l' = length l.
  Proof.
    induction l as [|x l IH]; intros l' H; cbn [omap] in H; [injection H as <-; reflexivity|].
    destruct (f x); [|discriminate]. destruct (omap f l) as [r|]; [|discriminate]. injection H as <-.
    cbn [length]. f_equal. apply IH. reflexivity.
  Qed.

  Lemma set_at_overflow {A} k (v : A) l : (length l <= k)%nat -> set_at k v l = l.
  Proof. revert k. induction l as [|x l IH]; intros [|k] H; cbn [length] in H; cbn [set_at]; try reflexivity; try lia. f_equal. apply IH. lia. Qed.

  Lemma set_at_set_at {A} k (v w : A) l : set_at k v (set_at k w l) = set_at k v l.
  Proof. revert k. induction l as [|x l IH]; intros [|k]; cbn [set_at]; try reflexivity. f_equal. apply IH. Qed.

  Lemma set_at_same {A} k (d : A) l : set_at k (nth k l d) l = l.
  Proof. revert k. induction l as [|x l IH]; intros [|k]; cbn [set_at nth]; try reflexivity. f_equal. apply IH. Qed.

  Lemma nth_set_at {A} k (v d : A) l : (k < length l)%nat -> nth k (set_at k v l) d = v.
  Proof. revert k. induction l as [|x l IH]; intros [|k] H; cbn [length] in H; cbn [set_at nth]; try lia; [reflexivity | apply IH; lia]. Qed.

  Lemma mk_rechunks_spec l : forall specs ys, length specs = length l ->
    Forall2 (fun p y => mk_rechunk (fst p) (snd p) = Some y) (combine l specs) ys ->
    map D ys = map D l /\ map eshape ys = map eshape l /\ omap echunks ys = Some specs.
  Proof.
    induction l as [|b l IH]; intros [|sp specs] ys Hl HF; cbn [length] in Hl; try discriminate; cbn [combine] in HF.
    - inversion HF; subst. repeat split.
    - inversion HF as [|p y l0 ys' Hy HF']; subst. cbn [fst snd] in Hy.
      destruct (mk_rechunk_spec _ _ _ Hy) as (H1 & H2 & H3).
      destruct (IH specs ys' ltac:(lia) HF') as (I1 & I2 & I3).
      cbn [map omap]. rewrite H1, H2, H3, I1, I2, I3. repeat split.
  Qed.

  Theorem rechunk_through_concat_sound e e' :
    rechunk_through_concat e = Some e' ->
    aeq (D e) (D e') /\ eshape e' = eshape e /\ echunks e' = echunks e.
  Proof.
    destruct e as [| | | | |y spec target prm bal pp| | | | | | | |]; try discriminate.
    destruct y as [| | | | | | |a axis rest| | | | | |]; try discriminate.
    cbn [rechunk_through_concat]. destruct pp; [discriminate|].
    set (arrays := a :: rest).
    destruct (omap echunks arrays) as [cs|] eqn:Ecs; [|discriminate].
    set (part_dims := map (fun c => nth axis c []) cs). set (taxis := nth axis target []).
    destruct (if negb (list_eqb Z.eqb taxis (concat part_dims)) then _ else Some part_dims) as [per_part|] eqn:Epp; [|discriminate].
    assert (length per_part = length arrays) as Hlpp.
    { rewrite <- (omap_length _ _ _ Ecs). destruct (negb _).
      - destruct (_ || _); [discriminate|]. rewrite (split_parts_length _ _ _ Epp). unfold part_dims. rewrite !map_length. reflexivity.
      - injection Epp as <-. unfold part_dims. apply map_length. }
    set (specs := map (fun p => set_at axis p target) per_part).
    destruct (list_eqb zll_eqb specs cs); [discriminate|].
    destruct (negb (list_eqb Z.eqb taxis (concat part_dims)) && _); [discriminate|].
    destruct (omap _ (combine arrays specs)) as [ys|] eqn:Eys; [|discriminate].
    destruct ys as [|x xs]; [discriminate|].
    assert (length specs = length arrays) as Hls by (unfold specs; rewrite map_length; exact Hlpp).
    apply omap_Forall2 in Eys.
    assert (map D (x :: xs) = map D arrays /\ map eshape (x :: xs) = map eshape arrays /\ omap echunks (x :: xs) = Some specs) as (HD & HS & HC).
    { apply mk_rechunks_spec; assumption. }
    unfold arrays in HD, HS. cbn [map] in HD, HS. injection HD as HD1 HD2. injection HS as HS1 HS2.
    assert (aeq (D (ERechunk (EConcat a axis rest) spec target prm bal false)) (D (EConcat x axis xs)) /\
            eshape (EConcat x axis xs) = eshape (ERechunk (EConcat a axis rest) spec target prm bal false)) as [Hv Hsh].
    { cbn [den eshape arechunk]. rewrite HD1, HD2, HS1, HS2. split; [apply aeq_refl | reflexivity]. }
    destruct (list_eqb Z.eqb (concat per_part) taxis) eqn:Eax; intros H; injection H as <-.
    - split; [exact Hv|]. split; [exact Hsh|].
      rewrite echunks_concat. cbn [omap] in HC.
      destruct (echunks x) as [c0|]; [|discriminate]. destruct (omap echunks xs) as [cr|]; [|discriminate].
      injection HC as HC. cbn [echunks]. f_equal.
      apply ExprRulesFacts.zlist_eqb_eq in Eax.
      destruct per_part as [|p0 per]; [cbn [length] in Hlpp; discriminate|].
      unfold specs in HC. cbn [map] in HC. injection HC as -> ->.
      destruct (Nat.lt_ge_cases axis (length target)) as [Hlt|Hge].
      + rewrite set_at_set_at.
        replace (map (fun d => nth axis d []) (set_at axis p0 target :: map (fun p => set_at axis p target) per)) with (p0 :: per).
        2:{ cbn [map]. rewrite nth_set_at by exact Hlt. f_equal. rewrite map_map.
            clear -Hlt. induction per as [|q per IH]; [reflexivity|]. cbn [map]. rewrite nth_set_at by exact Hlt. f_equal. exact IH. }
        rewrite Eax. apply set_at_same.
      + rewrite (set_at_overflow axis p0 target) by lia. apply set_at_overflow. exact Hge.
    - split; [exact Hv|]. split; [exact Hsh | reflexivity].
  Qed.

  (* R16: rechunk pushdown through ExpandDims / Transpose *)
  Theorem rule_rechunk_expand_dims_sound e e' :
    rule_rechunk_expand_dims e = Some e' -> aeq (D e) (D e') /\ eshape e' = eshape e.
  Proof.
    destruct e as [| | | | |y spec c prm bal pp| | | | | | | |]; try discriminate.
    destruct y as [| | | | | |x axes| | | | | | |]; try discriminate.
    cbn [rule_rechunk_expand_dims]. intros H. injection H as <-. split; [apply aeq_refl | reflexivity].
  Qed.

  Theorem rule_rechunk_transpose_sound e e' :
    rule_rechunk_transpose e = Some e' -> aeq (D e) (D e') /\ eshape e' = eshape e.
  Proof.
    destruct e as [| | | | |y spec c prm bal pp| | | | | | | |]; try discriminate.
    destruct y as [| | |x axes| | | | | | | | | |]; try discriminate.
    cbn [rule_rechunk_transpose]. destruct (negb (spec =? 0)); [discriminate|].
    destruct (mk_rechunk x _) as [x'|] eqn:Ex; [|discriminate]. intros H. injection H as <-.
    destruct (mk_rechunk_spec _ _ _ Ex) as (H1 & H2 & _).
    cbn [den eshape arechunk]. rewrite H1, H2. split; [apply aeq_refl | reflexivity].
  Qed.

  Theorem rule_rechunk_lower_sound p2p e e' :
    rule_rechunk_lower p2p e = Some e' -> wfb e = true ->
    aeq (D e) (D e') /\ eshape e' = eshape e /\ (is_slice e' = false -> echunks e' = echunks e).
  Proof.
    destruct e as [| | | | |x spec c prm bal pp| | | | | | | |]; try discriminate.
    cbn [rule_rechunk_lower wfb]. intros H Hw.
    destruct (negb (prm =? 0) || pp); [discriminate|].
    destruct (echunks x) as [cx|] eqn:Ex; [|discriminate].
    destruct (negb bal && zll_eqb c cx) eqn:En.
    { injection H as <-. apply andb_true_iff in En. destruct En as [_ En]. apply zll_eqb_eq in En. subst cx.
      split; [apply aeq_refl|]. split; [reflexivity|]. intros _. exact Ex. }
    destruct (is_source x) eqn:Esrc.
    { destruct (rule_rechunk_fromarray_sound V leafv constv fop inj _ _ H) as [Ha Hc]. split; [exact Ha|]. split; [|intros _; exact Hc].
      destruct x; try discriminate. cbn [rule_rechunk_fromarray] in H. destruct (_ || _); [discriminate|]. injection H as <-. reflexivity. }
    destruct (if is_concat x then rechunk_through_concat (ERechunk x spec c prm bal pp)
              else if is_slice x then rechunk_through_slice p2p x c else None) as [r|] eqn:Er.
    - injection H as <-. destruct (is_concat x) eqn:Ecc.
      { destruct (rechunk_through_concat_sound _ _ Er) as (Ha & Hs & Hc). split; [exact Ha|]. split; [exact Hs|]. intros _. exact Hc. }
      destruct x as [| |y ix0 o| | | | | | | | | | |]; cbn [is_slice rechunk_through_slice] in Er; try discriminate.
      cbn [wfb] in Hw. apply andb_true_iff in Hw. destruct Hw as [Hwy Hok].
      rewrite (pad_index_full ix0 (endim y)) in Er by (apply idx_okb_length; exact Hok).
      destruct (negb (Nat.eqb _ _)); [discriminate|]. destruct (echunks y); [|discriminate].
      destruct (expand_chunks _ _ _ _) as [[expanded aligned]|]; [|discriminate].
      destruct aligned; [discriminate|]. destruct (existsb _ c); [discriminate|].
      destruct (_ >? _); [discriminate|]. destruct p2p; [discriminate|]. injection Er as <-.
      split; [apply aeq_refl|]. split; [reflexivity|]. discriminate.
    - destruct p2p; [discriminate|]. injection H as <-.
      split; [apply aeq_refl|]. split; [reflexivity|]. intros _. reflexivity.
  Qed.

  (* ------------------------------------------------------------------ *)
  (* R11: Slice(Stack(arrays, axis), ix) *)
  Lemma insert_at_length {A} k (v : A) l : length (insert_at k v l) = S (length l).
  Proof. unfold insert_at. rewrite app_length. cbn [length]. rewrite <- (firstn_skipn k l) at 3. rewrite app_length. lia. Qed.

  Lemma all_slices_app a b : forallb is_sliceb (a ++ b) = true -> forallb is_sliceb a = true /\ forallb is_sliceb b = true.
  Proof. rewrite forallb_app. apply andb_true_iff. Qed.

  Theorem rule_slice_stack_sound e e' :
    rule_slice_stack e = Some e' -> wfb e = true -> aeq (D e) (D e').
  Proof.
    destruct e as [| |y ix o| | | | | | | | | | |]; try discriminate.
    destruct y as [| | | | | | | | | | |a axis rest| |]; try discriminate.
    cbn [rule_slice_stack wfb]. intros H Hw.
    apply andb_true_iff in Hw. destruct Hw as [Hw Hok].
    repeat (apply andb_true_iff in Hw; destruct Hw as [Hw ?]).
    match goal with Hx : Nat.leb axis (endim a) = true |- _ => apply Nat.leb_le in Hx; rename Hx into Hax end.
    match goal with Hx : forallb wfb rest = true |- _ => rename Hx into Hwr end.
    match goal with Hx : forallb _ rest = true |- _ => rename Hx into Hsame end.
    assert (endim (EStack a axis rest) = S (endim a)) as Hnd by (unfold endim; cbn [eshape]; apply insert_at_length).
    pose proof (idx_okb_length _ _ Hok) as Hlix. fold (endim (EStack a axis rest)) in Hlix. rewrite Hnd in Hlix.
    rewrite Hnd, (pad_index_full ix (S (endim a)) Hlix) in H.
    destruct (existsb is_int ix) eqn:Ei; [discriminate|].
    destruct (existsb is_none ix) eqn:En; [discriminate|].
    pose proof (all_slices_of ix Ei En) as Hsl.
    destruct (nth axis ix INone) as [z|s|] eqn:Es; try discriminate.
    destruct (indices s (Z.of_nat (S (length rest)))) as [[start stop] step] eqn:Hind.
    destruct (step =? 1) eqn:Est; [|discriminate]. cbn [negb] in H. assert (step = 1) as -> by lia.
    set (sel := skipn (Z.to_nat start) (firstn (Z.to_nat stop) (a :: rest))) in *.
    set (other := remove_at axis ix) in *.
    destruct (omap _ sel) as [ys|] eqn:Eo; [|discriminate]. destruct ys as [|x xs]; [discriminate|]. injection H as <-.
    (* the index and the shape, split at the stacked axis *)
    set (ipre := firstn axis ix). set (isuf := skipn (S axis) ix).
    assert (ix = ipre ++ ISlice s :: isuf) as Hix by (rewrite <- Es; apply split_nth; lia).
    assert (other = ipre ++ isuf) as Hother by reflexivity.
    set (spre := firstn axis (eshape a)). set (ssuf := skipn axis (eshape a)).
    assert (eshape a = spre ++ ssuf) as Hsa by (symmetry; apply firstn_skipn).
    assert (length spre = axis) as Hlsp by (unfold spre; rewrite firstn_length; unfold endim in Hax; lia).
    assert (length ipre = length spre) as Hlip by (unfold ipre; rewrite firstn_length; lia).
    assert (length isuf = length ssuf) as Hlis.
    { unfold isuf, ssuf. rewrite !skipn_length. unfold endim in Hlix. lia. }
    assert (forallb is_sliceb ipre = true /\ forallb is_sliceb (ISlice s :: isuf) = true) as [Hsp Hss0] by (apply all_slices_app; rewrite <- Hix; exact Hsl).
    assert (forallb is_sliceb isuf = true) as Hss by (cbn [forallb is_sliceb andb] in Hss0; exact Hss0).
    assert (forallb is_sliceb other = true) as Hso by (rewrite Hother, forallb_app, Hsp, Hss; reflexivity).
    assert (length other = endim a) as Hlo.
    { rewrite Hother, app_length, Hlip, Hlis. unfold endim. rewrite <- app_length. f_equal. symmetry. exact Hsa. }
    (* the operands *)
    assert (Forall (fun r => wfb r = true /\ eshape r = eshape a) (a :: rest)) as Hall.
    { constructor; [split; [assumption | reflexivity]|]. apply Forall_forall. intros r Hr.
      rewrite forallb_forall in Hwr, Hsame. split; [apply Hwr; exact Hr | apply zlist_eqb_eq; apply Hsame; exact Hr]. }
    assert (Forall2 aeq (map D (x :: xs)) (map (aslice other) (map D sel))) as HF.
    { assert (Forall (fun r => wfb r = true /\ eshape r = eshape a) sel) as Hsel by (apply Forall_skipn_firstn; exact Hall).
      apply omap_Forall2 in Eo. clear -Eo Hsel Hso Hlo. induction Eo as [|r y l l' Hy _ IH]; cbn [map]; [constructor|].
      inversion Hsel as [|r0 l0 [Hwr Hsr] Hsl]; subst. constructor; [|apply IH; exact Hsl].
      destruct (negb (forallb is_colon other)) eqn:En.
      - refine (proj1 (mk_getitem_sound V leafv constv fop inj r other y Hwr _ Hy)). unfold endim in *. rewrite Hsr. exact Hlo.
      - injection Hy as <-. apply negb_false_iff in En.
        destruct (slice_all_colon other (eshape r) (wfb_nonneg r Hwr) ltac:(unfold endim in Hlo; rewrite Hsr; exact Hlo) En) as [Hs Hg].
        split; cbn [aslice shape get]; rewrite dshape; [symmetry; exact Hs|].
        intros out Ho. rewrite Hg by exact Ho. reflexivity. }
    assert (map D sel = skipn (Z.to_nat start) (firstn (Z.to_nat stop) (D a :: map D rest))) as Hmsel
      by (unfold sel; rewrite <- skipn_map, <- firstn_map; reflexivity).
    destruct (map (aslice other) (map D sel)) as [|p ps] eqn:Emap; [inversion HF|].
    rewrite Hmsel, Hother in Emap.
    destruct (aslice_astack V (D a) (map D rest) ipre s isuf spre ssuf start stop p ps) as (Hmain & Hshp & Hshps); try assumption.
    { rewrite dshape. exact Hsa. }
    { apply Forall_map. apply Forall_forall. intros r Hr. rewrite !dshape. rewrite Forall_forall in Hall. apply Hall. right. exact Hr. }
    { rewrite map_length. exact Hind. }
    rewrite Hlsp in Hmain.
    change (D (ESlice (EStack a axis rest) ix o)) with (aslice ix (astack axis (D a) (map D rest))).
    rewrite Hix at 1. apply (aeq_trans _ (astack axis p ps)); [exact Hmain|].
    cbn [map] in HF. assert (aeq (D x) p /\ Forall2 aeq (map D xs) ps) as [Hxp Hxs] by (inversion HF; split; assumption).
    change (D (EStack x axis xs)) with (astack axis (D x) (map D xs)).
    apply astack_congr; [apply aeq_sym; exact Hxp | apply Forall2_aeq_sym; exact Hxs | | exact Hshps].
    rewrite Hshp, dshape, <- Hother. rewrite slice_shape_length_slices by (try exact Hso; unfold endim in Hlo; lia).
    rewrite Hlo. exact Hax.
  Qed.

  (* ------------------------------------------------------------------ *)
  (* R15: Slice(BroadcastTo(x, shape), ix) *)
  Theorem rule_slice_broadcast_to_sound e e' :
    rule_slice_broadcast_to e = Some e' -> wfb e = true -> aeq (D e) (D e') /\ eshape e' = eshape e.
  Proof.
    destruct e as [| |y ix o| | | | | | | | | | |]; try discriminate.
    destruct y as [| | | | | | | |x oshape ochunks| | | | |]; try discriminate.
    cbn [rule_slice_broadcast_to wfb]. intros H Hw.
    apply andb_true_iff in Hw. destruct Hw as [Hw Hok].
    apply andb_true_iff in Hw. destruct Hw as [Hw Hbc]. apply andb_true_iff in Hw. destruct Hw as [Hwx Hno].
    apply bcast_intob_spec in Hbc.
    pose proof (idx_okb_length _ _ Hok) as Hlix.
    rewrite (pad_index_full ix (length oshape) Hlix) in H.
    destruct (existsb is_int ix) eqn:Ei; [discriminate|].
    destruct (existsb is_none ix) eqn:En; [discriminate|].
    pose proof (all_slices_of ix Ei En) as Hsl.
    destruct (omap _ (combine ix oshape)) as [ranges|] eqn:Er; [|discriminate].
    pose proof (unit_ranges_shape ix oshape ranges Er Hlix) as Hshape.
    set (sx := eshape x) in *.
    assert (zip2 bt_axis (skipn (length oshape - endim x) ix) sx = bt_index ix sx) as Hbt.
    { unfold bt_index, lastn. unfold endim. fold sx. rewrite Hlix. reflexivity. }
    rewrite Hbt in H.
    destruct (bt_bcast ix sx oshape Hbc Hok Hsl) as [Hbc2 Hlbt].
    destruct (match bt_index ix sx with [] => Some x | _ :: _ => mk_getitem x (bt_index ix sx) end) as [sliced|] eqn:Es; [|discriminate].
    destruct (echunks sliced); [|discriminate]. injection H as <-.
    assert (aeq (D sliced) (aslice (bt_index ix sx) (D x))) as Hsliced.
    { destruct (bt_index ix sx) as [|i0 l0] eqn:Eb.
      - injection Es as <-. split; cbn [aslice shape get slice_shape slice_src]; [reflexivity | intros; reflexivity].
      - rewrite <- Eb in *. refine (proj1 (mk_getitem_sound V leafv constv fop inj x _ sliced Hwx _ Es)). exact Hlbt. }
    split; [|cbn [eshape]; exact Hshape].
    change (D (ESlice (EBroadcastTo x oshape ochunks) ix o)) with (aslice ix (abroadcast_to oshape (D x))).
    change (D (EBroadcastTo sliced (map (fun r => Z.max 0 (snd r - fst r)) ranges) _))
      with (abroadcast_to (map (fun r => Z.max 0 (snd r - fst r)) ranges) (D sliced)).
    rewrite Hshape.
    apply (aeq_trans _ (abroadcast_to (slice_shape ix oshape) (aslice (bt_index ix sx) (D x)))).
    - split; cbn [aslice abroadcast_to shape get]; [reflexivity|].
      intros out Ho. rewrite !dshape. fold sx. f_equal. apply bt_bidx; assumption.
    - apply aeq_sym. apply abroadcast_to_congr; [exact Hsliced|].
      destruct Hsliced as [Hs _]. rewrite Hs. cbn [aslice shape]. rewrite dshape. exact Hbc2.
  Qed.
End Sound2.

(* ---------------------------------------------------------------------- *)
(* C08: the new simplify rules strictly decrease the measure [mu] *)
Lemma mu_concat a axis rest : mu (EConcat a axis rest) = S (mu a + mu_sum rest).
Proof. reflexivity. Qed.

Lemma mu_stack a axis rest : mu (EStack a axis rest) = S (mu a + mu_sum rest).
Proof. reflexivity. Qed.

Lemma concat_pieces_mu axis full : forall arrays start stop cum ys,
  concat_pieces axis full start stop cum arrays = Some ys -> (mu_sum ys <= 3 * mu_sum arrays)%nat.
Proof.
  induction arrays as [|arr t IH]; intros start stop cum ys H; cbn [concat_pieces] in H.
  - injection H as <-. cbn [mu_sum]. lia.
  - cbn [mu_sum]. destruct (_ >? _).
    + destruct (mk_getitem arr _) as [y|] eqn:Ey; [|discriminate].
      destruct (concat_pieces axis full start stop _ t) as [r|] eqn:Er; [|discriminate].
      injection H as <-. cbn [mu_sum]. pose proof (mk_getitem_mu _ _ _ Ey). specialize (IH _ _ _ _ Er). lia.
    + specialize (IH _ _ _ _ H). lia.
Qed.

Theorem rule_slice_concat_mu e e' : rule_slice_concat e = Some e' -> (mu e' < mu e)%nat.
Proof.
  destruct e as [| |y ix o| | | | | | | | | | |]; try discriminate.
  destruct y as [| | | | | | |a axis rest| | | | | |]; try discriminate.
  cbn [rule_slice_concat]. destruct (existsb is_int _); [discriminate|]. destruct (existsb is_none _); [discriminate|].
  destruct (nth axis _ INone) as [z|s|]; try discriminate.
  destruct (indices s _) as [[start stop] step]. destruct (negb _); [discriminate|].
  destruct (concat_pieces _ _ _ _ _ _) as [ys|] eqn:Ep; [|discriminate].
  pose proof (concat_pieces_mu _ _ _ _ _ _ _ Ep) as Hm. cbn [mu_sum] in Hm.
  change (mu (ESlice (EConcat a axis rest) ix o)) with (3 * mu (EConcat a axis rest))%nat. rewrite mu_concat.
  destruct ys as [|x [|x2 xs]]; [discriminate| |]; intros H; injection H as <-.
  - cbn [mu_sum] in Hm. lia.
  - rewrite mu_concat. cbn [mu_sum] in *. lia.
Qed.

Lemma mu_sum_skipn_firstn l s t : (mu_sum (skipn s (firstn t l)) <= mu_sum l)%nat.
Proof.
  rewrite <- (firstn_skipn t l) at 2. rewrite mu_sum_app.
  rewrite <- (firstn_skipn s (firstn t l)) at 2. rewrite mu_sum_app. lia.
Qed.

Theorem rule_slice_stack_mu e e' : rule_slice_stack e = Some e' -> (mu e' < mu e)%nat.
Proof.
  destruct e as [| |y ix o| | | | | | | | | | |]; try discriminate.
  destruct y as [| | | | | | | | | | |a axis rest| |]; try discriminate.
  cbn [rule_slice_stack]. destruct (existsb is_int _); [discriminate|]. destruct (existsb is_none _); [discriminate|].
  destruct (nth axis _ INone) as [z|s|]; try discriminate.
  destruct (indices s _) as [[start stop] step]. destruct (negb (step =? 1)); [discriminate|].
  set (sel := skipn _ (firstn _ (a :: rest))).
  destruct (omap _ sel) as [ys|] eqn:Eo; [|discriminate]. destruct ys as [|x xs]; [discriminate|].
  intros H. injection H as <-.
  change (mu (ESlice (EStack a axis rest) ix o)) with (3 * mu (EStack a axis rest))%nat. rewrite !mu_stack.
  assert (mu_sum (x :: xs) <= 3 * mu_sum sel)%nat as Hm.
  { apply omap_Forall2 in Eo. induction Eo as [|r y l l' Hy _ IH]; [cbn; lia|]. cbn [mu_sum].
    assert (mu y <= 3 * mu r)%nat by (destruct (negb _); [apply (mk_getitem_mu _ _ _ Hy) | injection Hy as <-; lia]). lia. }
  pose proof (mu_sum_skipn_firstn (a :: rest) (Z.to_nat start) (Z.to_nat stop)) as Hs. fold sel in Hs.
  cbn [mu_sum] in *. lia.
Qed.

Theorem rule_slice_full_mu e e' : rule_slice_full e = Some e' -> (mu e' < mu e)%nat.
Proof.
  destruct e as [| |y ix o| | | | | | | | | | |]; try discriminate.
  destruct y as [| | | | | | | | | | | |id shp c|]; try discriminate.
  cbn [rule_slice_full]. intros H. injection H as <-. cbn [mu]. lia.
Qed.

(* contexts: Concatenate and Stack *)
Theorem mu_monotone_concat e e' :
  (mu e' < mu e)%nat ->
  (forall axis rest, mu (EConcat e' axis rest) < mu (EConcat e axis rest))%nat /\
  (forall a axis l1 l2, mu (EConcat a axis (l1 ++ e' :: l2)) < mu (EConcat a axis (l1 ++ e :: l2)))%nat /\
  (forall axis rest, mu (EStack e' axis rest) < mu (EStack e axis rest))%nat /\
  (forall a axis l1 l2, mu (EStack a axis (l1 ++ e' :: l2)) < mu (EStack a axis (l1 ++ e :: l2)))%nat.
Proof.
  intros H. repeat split; intros; rewrite ?mu_concat, ?mu_stack, ?mu_sum_app; cbn [mu_sum]; lia.
Qed.

Theorem rule_slice_broadcast_to_mu e e' : rule_slice_broadcast_to e = Some e' -> (mu e' < mu e)%nat.
Proof.
  destruct e as [| |y ix o| | | | | | | | | | |]; try discriminate.
  destruct y as [| | | | | | | |x oshape ochunks| | | | |]; try discriminate.
  cbn [rule_slice_broadcast_to]. destruct (existsb is_int _); [discriminate|]. destruct (existsb is_none _); [discriminate|].
  destruct (omap _ (combine _ _)) as [ranges|]; [|discriminate].
  destruct (match zip2 bt_axis _ _ with [] => Some x | _ :: _ => _ end) as [sliced|] eqn:Es; [|discriminate].
  assert (mu sliced <= 3 * mu x)%nat as Hm.
  { destruct (zip2 bt_axis _ _); [injection Es as <-; lia | apply (mk_getitem_mu _ _ _ Es)]. }
  destruct (echunks sliced); [|discriminate]. intros H. injection H as <-. cbn [mu]. lia.
Qed.

(* rechunks sink towards the leaves: [Rechunk](x) = 2x + 1 makes every rechunk pushdown decrease the measure *)
Lemma mk_rechunk_mu a ch y : mk_rechunk a ch = Some y -> (mu y <= S (2 * mu a))%nat.
Proof.
  unfold mk_rechunk. destruct (echunks a); [|discriminate]. destruct (zll_eqb ch l); intros H; injection H as <-; cbn [mu]; lia.
Qed.

Theorem rule_rechunk_elemwise_mu e e' : rule_rechunk_elemwise e = Some e' -> (mu e' < mu e)%nat.
Proof.
  destruct e as [| | | | |y spec c prm bal pp| | | | | | | |]; try discriminate.
  destruct y as [| | | |op args| | | | | | | | |]; try discriminate. cbn [rule_rechunk_elemwise].
  destruct (negb (spec =? 0)); [discriminate|].
  destruct (omap _ args) as [args'|] eqn:Eo; [|discriminate]. intros H. injection H as <-.
  apply omap_Forall2 in Eo.
  change (mu (ERechunk (EElemwise op args) spec c prm bal pp)) with (S (2 * mu (EElemwise op args))).
  rewrite !mu_elemwise.
  assert (mu_sum args' <= 2 * mu_sum args + length args /\ length args' = length args)%nat as [Hs Hl].
  { induction Eo as [|a a' l l' Ha _ [IH1 IH2]]; [cbn; lia|]. cbn [mu_sum length].
    assert (mu a' <= S (2 * mu a))%nat.
    { destruct (is_const a); [injection Ha as <-; lia | apply (mk_rechunk_mu _ _ _ Ha)]. }
    lia. }
  lia.
Qed.

Theorem rule_rechunk_fromarray_mu e e' : rule_rechunk_fromarray e = Some e' -> (mu e' < mu e)%nat.
Proof.
  destruct e as [| | | | |y spec c prm bal pp| | | | | | | |]; try discriminate.
  destruct y as [| | | | | | | | | |s chunks region nd isz other| | |]; try discriminate. cbn [rule_rechunk_fromarray].
  destruct (pp || negb nd); [discriminate|]. intros H. injection H as <-. cbn [mu]. lia.
Qed.

Theorem rule_rechunk_expand_dims_mu e e' : rule_rechunk_expand_dims e = Some e' -> (mu e' < mu e)%nat.
Proof.
  destruct e as [| | | | |y spec c prm bal pp| | | | | | | |]; try discriminate.
  destruct y as [| | | | | |x axes| | | | | | |]; try discriminate.
  cbn [rule_rechunk_expand_dims]. intros H. injection H as <-. cbn [mu]. lia.
Qed.

Theorem rule_rechunk_transpose_mu e e' : rule_rechunk_transpose e = Some e' -> (mu e' < mu e)%nat.
Proof.
  destruct e as [| | | | |y spec c prm bal pp| | | | | | | |]; try discriminate.
  destruct y as [| | |x axes| | | | | | | | | |]; try discriminate.
  cbn [rule_rechunk_transpose]. destruct (negb (spec =? 0)); [discriminate|].
  destruct (mk_rechunk x _) as [x'|] eqn:Ex; [|discriminate]. intros H. injection H as <-.
  pose proof (mk_rechunk_mu _ _ _ Ex). cbn [mu]. lia.
Qed.
