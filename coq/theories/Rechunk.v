(* L1 — model of the rechunk planner and crosswalk in dask_array/_rechunk.py.
   Definitions only.  Float-derived choices of the Python code (the np.log sort
   key of find_merge_rechunk, nsteps = ceil(log/log) and round(no*(nn/no)**(t/n))
   in _bound_degree) are *oracle arguments*: every theorem quantifies over all
   oracle values. *)
From DA Require Export PyBase.
Open Scope Z_scope.

Definition chunks1 := list Z.
Definition chunksN := list (list Z).

Definition zmax_list (l : list Z) : Z := fold_right Z.max 0 l.     (* max(c) for non-negative c *)
Definition zprod (l : list Z) : Z := fold_right Z.mul 1 l.

(* ------------------------------------------------------------------ *)
(* cumdims_label / _breakpoints : label true = 'o', false = 'n' *)
Definition cum0 (cs : list Z) : list Z := 0 :: cumsum cs.

(* sorted(cumold + cumnew, key=position): a stable sort of two sorted runs is
   the merge that prefers the left ('o') run on ties. *)
Fixpoint merge_breaks (o : list Z) (n : list Z) {struct o} : list (bool * Z) :=
  let fix aux (n : list Z) {struct n} : list (bool * Z) :=
    match o, n with
    | [], _ => map (fun x => (false, x)) n
    | _, [] => map (fun x => (true, x)) o
    | x :: o', y :: n' =>
        if x <=? y then (true, x) :: merge_breaks o' n
        else (false, y) :: aux n'
    end in
  aux n.

Record ix_state := mk_ix {
  ix_last_end : Z; ix_old_idx : Z; ix_last_o_end : Z;
  ix_ret : list (list (Z * Z * Z));      (* reversed *)
  ix_next : list (Z * Z * Z)             (* reversed *)
}.

(* one iteration of the for-loop of _intersect_1d *)
Definition ix_step (last_old_chunk_idx last_o_br : Z) (st : ix_state) (prev cur : bool * Z) : ix_state :=
  let '(last_is_o, last_br) := prev in
  let '(is_o, br) := cur in
  (* if last_label == "n": start = last_end; flush ret_next *)
  let '(start, ret, next) :=
    if negb last_is_o then
      (ix_last_end st,
       match ix_next st with [] => ix_ret st | nx => rev nx :: ix_ret st end,
       [])
    else (0, ix_ret st, ix_next st) in
  let end_ := br - last_br + start in
  if br =? last_br then
    let '(old_idx, last_o_end) := if is_o then (ix_old_idx st + 1, end_) else (ix_old_idx st, ix_last_o_end st) in
    if negb is_o && negb last_is_o then
      if br =? last_o_br then
        mk_ix end_ old_idx last_o_end ret ((last_old_chunk_idx, last_o_end, last_o_end) :: next)
      else
        (* falls through to the append below; label is 'n' *)
        mk_ix end_ old_idx last_o_end ret ((old_idx, start, end_) :: next)
    else mk_ix end_ old_idx last_o_end ret next
  else
    let next' := (ix_old_idx st, start, end_) :: next in
    if is_o then mk_ix end_ (ix_old_idx st + 1) end_ ret next'
    else mk_ix end_ (ix_old_idx st) (ix_last_o_end st) ret next'.

Fixpoint ix_loop (loc lob : Z) (st : ix_state) (prev : bool * Z) (rest : list (bool * Z)) : ix_state :=
  match rest with
  | [] => st
  | cur :: t => ix_loop loc lob (ix_step loc lob st prev cur) cur t
  end.

(* _intersect_1d(_breakpoints(cumold, cumnew)) : per new block, the list of
   (old block index, start, stop) pieces *)
Definition intersect_1d (old new : list Z) : list (list (Z * Z * Z)) :=
  let breaks := merge_breaks (cum0 old) (cum0 new) in
  let last_old_chunk_idx := Z.of_nat (length old) - 1 in
  let last_o_br := zsum old in
  match breaks with
  | [] => []
  | b0 :: rest =>
      let st := ix_loop last_old_chunk_idx last_o_br (mk_ix 0 0 0 [] []) b0 rest in
      rev (match ix_next st with [] => ix_ret st | nx => rev nx :: ix_ret st end)
  end.

(* old_to_new for fully known chunks *)
Definition old_to_new (old new : chunksN) : list (list (list (Z * Z * Z))) :=
  map (fun p => intersect_1d (fst p) (snd p)) (combine old new).

(* ------------------------------------------------------------------ *)
Definition lenZ' {A} (l : list A) : Z := Z.of_nat (length l).

Definition number_of_blocks (cs : chunksN) : Z := zprod (map lenZ' cs).
Definition largest_block_size (cs : chunksN) : Z := zprod (map zmax_list cs).

Definition estimate_graph_size (old new : chunksN) : Z :=
  zprod (map (fun p => let '(oc, nc) := p in
                       if zlist_eqb oc nc then lenZ' oc else lenZ' oc + lenZ' nc - 1)
             (combine old new)).

(* divide_to_width(desired_chunks, max_width); None = the Python raises
   (max_width <= 0 makes np.ceil(c / max_width) inf or nan) *)
Fixpoint divide_one (c nb : Z) (i : nat) : list Z :=
  (* for i in range(nb): n = c // (nb - i); append n; c -= n    — i counts remaining *)
  match i with
  | O => []
  | S i' => let n := c / Z.of_nat i in n :: divide_one (c - n) nb i'
  end.

Definition ceil_divZ (a b : Z) : Z := - ((- a) / b).

Definition divide_to_width (cs : list Z) (w : Z) : option (list Z) :=
  if w <=? 0 then None
  else Some (concat (map (fun c => let nb := ceil_divZ c w in divide_one c nb (Z.to_nat nb)) cs)).

(* merge_to_number(desired_chunks, max_number) *)
Definition all_equal (l : list Z) : bool :=
  match l with [] => true | x :: t => forallb (Z.eqb x) t end.

Definition heap_entry := (Z * nat * nat)%type.   (* (width, i, j) *)

Definition entry_lt (a b : heap_entry) : bool :=
  let '(wa, ia, ja) := a in let '(wb, ib, jb) := b in
  (wa <? wb) || ((wa =? wb) && ((Nat.ltb ia ib) || ((Nat.eqb ia ib) && Nat.ltb ja jb))).

Fixpoint pop_min (h : list heap_entry) : option (heap_entry * list heap_entry) :=
  match h with
  | [] => None
  | e :: t =>
      match pop_min t with
      | None => Some (e, [])
      | Some (m, rest) => if entry_lt m e then Some (m, e :: rest) else Some (e, t)
      end
  end.

Fixpoint set_nth (l : list Z) (i : nat) (v : Z) : list Z :=
  match l, i with
  | [], _ => []
  | _ :: t, O => v :: t
  | x :: t, S i' => x :: set_nth t i' v
  end.

(* first index >= j with a non-zero entry; None = IndexError *)
Fixpoint next_nonzero (l : list Z) (j : nat) (fuel : nat) : option nat :=
  match fuel with
  | O => None
  | S f => match nth_error l j with
           | None => None
           | Some v => if v =? 0 then next_nonzero l (S j) f else Some j
           end
  end.

Fixpoint merge_loop (fuel : nat) (chunks : list Z) (heap : list heap_entry) (nmerges : Z) : option (list Z) :=
  if nmerges <=? 0 then Some chunks else
  match fuel with
  | O => None
  | S f =>
      match pop_min heap with
      | None => None                                  (* IndexError: pop from empty heap *)
      | Some ((width, i, j), heap') =>
          let ci := nth i chunks 0 in
          let cj := nth j chunks 0 in
          if cj =? 0 then
            match next_nonzero chunks (S j) (length chunks) with
            | None => None
            | Some j' => merge_loop f chunks ((ci + nth j' chunks 0, i, j') :: heap') nmerges
            end
          else if negb (ci + cj =? width) then
            merge_loop f chunks ((ci + cj, i, j) :: heap') nmerges
          else if ci =? 0 then None                    (* assert chunks[i] != 0 *)
          else merge_loop f (set_nth (set_nth chunks i 0) j width) heap' (nmerges - 1)
      end
  end.

Fixpoint init_heap (i : nat) (l : list Z) : list heap_entry :=
  match l with
  | a :: ((b :: _) as t) => (a + b, i, S i) :: init_heap (S i) t
  | _ => []
  end.

Definition merge_to_number (cs : list Z) (max_number : Z) : option (list Z) :=
  let n := lenZ' cs in
  if n <=? max_number then Some cs
  else if all_equal cs then
    let w := hd 0 cs in
    let total := n * w in
    if (max_number =? 0) || (w =? 0) then None        (* ZeroDivisionError *)
    else
      let desired_width := total / max_number in
      let width := w * (desired_width / w) in
      let adjust := (total - max_number * width) / w in
      Some (repeat (width + w) (Z.to_nat adjust) ++ repeat width (Z.to_nat (max_number - adjust)))
  else if max_number =? 0 then None                    (* sum // 0 *)
  else
    match merge_loop (4 * length cs + 8) cs (init_heap 0 cs) (n - max_number) with
    | Some r => Some (filter (fun c => negb (c =? 0)) r)
    | None => None
    end.

(* ------------------------------------------------------------------ *)
(* find_merge_rechunk(old, new, limit) with the sort order as an oracle.
   limit is the rational lnum / lden (lden = itemsize > 0). *)
Definition nthL (l : chunksN) (d : nat) : list Z := nth d l [].

Fixpoint set_nthL (l : chunksN) (i : nat) (v : list Z) : chunksN :=
  match l, i with
  | [], _ => []
  | _ :: t, O => v :: t
  | x :: t, S i' => x :: set_nthL t i' v
  end.

Definition or1 (x : Z) : Z := if x =? 0 then 1 else x.

Fixpoint fm_loop (order : list nat) (old new chunks : chunksN) (lnum lden : Z) (largest : Z) (hit : bool)
  : option (chunksN * Z * bool) :=
  match order with
  | [] => Some (chunks, largest, hit)
  | dim :: rest =>
      let ow := zmax_list (nthL old dim) in
      let nw := zmax_list (nthL new dim) in
      let new_largest := largest * nw / or1 ow in
      if new_largest * lden <=? lnum then
        fm_loop rest old new (set_nthL chunks dim (nthL new dim)) lnum lden new_largest hit
      else
        if largest =? 0 then None else
        let chunk_limit := (lnum * ow) / (lden * largest) in
        match divide_to_width (nthL new dim) chunk_limit with
        | None => None
        | Some c =>
            if lenZ' c <=? lenZ' (nthL old dim) then
              if ow =? 0 then None else
              fm_loop rest old new (set_nthL chunks dim c) lnum lden (largest * zmax_list c / ow) true
            else fm_loop rest old new chunks lnum lden largest true
        end
  end.

Definition merge_candidates (old new : chunksN) : list nat :=
  filter (fun d => lenZ' (nthL new d) <=? lenZ' (nthL old d)) (seq 0 (length old)).

Fixpoint remove_first (x : nat) (l : list nat) : option (list nat) :=
  match l with
  | [] => None
  | y :: t => if Nat.eqb x y then Some t else option_map (cons y) (remove_first x t)
  end.
Fixpoint is_perm (a b : list nat) : bool :=
  match a with
  | [] => match b with [] => true | _ => false end
  | x :: a' => match remove_first x b with Some b' => is_perm a' b' | None => false end
  end.

Definition find_merge_rechunk (order : list nat) (old new : chunksN) (lnum lden : Z) : option (chunksN * bool) :=
  if negb (is_perm order (merge_candidates old new)) then None else
  match fm_loop order old new old lnum lden (largest_block_size old) false with
  | None => None
  | Some (chunks, largest, hit) =>
      (* assert largest == _largest_block_size(chunks); assert largest <= limit *)
      if (largest =? largest_block_size chunks) && (largest * lden <=? lnum) then Some (chunks, hit) else None
  end.

(* find_split_rechunk(old, new, graph_size_limit) *)
Fixpoint fs_loop (dims : list nat) (old new chunks : chunksN) (limit : Z) : option chunksN :=
  match dims with
  | [] => Some chunks
  | dim :: rest =>
      let gs := estimate_graph_size chunks new in
      if gs >? limit then Some chunks
      else if lenZ' (nthL old dim) >? lenZ' (nthL new dim) then fs_loop rest old new chunks limit
      else
        let max_number := (lenZ' (nthL old dim) * limit) / gs in
        match merge_to_number (nthL new dim) max_number with
        | None => None
        | Some c =>
            if lenZ' c >? max_number then None else     (* assert *)
            if (lenZ' c >=? lenZ' (nthL old dim)) && (zmax_list c <=? zmax_list (nthL old dim))
            then fs_loop rest old new (set_nthL chunks dim c) limit
            else fs_loop rest old new chunks limit
        end
  end.

Definition find_split_rechunk (old new : chunksN) (limit : Z) : option chunksN :=
  fs_loop (seq 0 (length old)) old new old limit.

Definition chunksN_eqb := zlist2_eqb.

(* the while-loop of plan_rechunk; orders = oracle stream for find_merge_rechunk *)
Fixpoint plan_loop (fuel : nat) (orders : list (list nat)) (current new : chunksN) (lnum lden : Z)
         (threshold gst : Z) (first_pass : bool) (steps : list chunksN) : option (list chunksN) :=
  match fuel with
  | O => None
  | S f =>
      let gs := estimate_graph_size current new in
      if gs <? gst then Some (rev steps)
      else
        let chunks0 := if first_pass then Some current else find_split_rechunk current new (gs * threshold) in
        match chunks0, orders with
        | Some c0, order :: orders' =>
            match find_merge_rechunk order c0 new lnum lden with
            | None => None
            | Some (chunks, hit) =>
                if (chunksN_eqb chunks current && negb first_pass) || chunksN_eqb chunks new then Some (rev steps)
                else
                  let steps' := if chunksN_eqb chunks current then steps else chunks :: steps in
                  if negb hit then Some (rev steps')
                  else plan_loop f orders' chunks new lnum lden threshold gst false steps'
            end
        | _, _ => None
        end
  end.

(* _max_overlap(from, to) *)
Definition max_overlap (from to : chunksN) : Z :=
  zprod (map (fun axis => zmax_list (map lenZ' axis)) (old_to_new from to)).

(* one intermediate chunking of _bound_degree; counts = oracle values of
   round(no * (nn/no) ** (t/nsteps)) for the axes whose block count changes *)
Fixpoint bd_intermediate (old new : chunksN) (counts : list Z) : option (chunksN * list Z) :=
  match old, new with
  | oc :: old', nc :: new' =>
      let no := lenZ' oc in let nn := lenZ' nc in
      if no =? nn then
        match bd_intermediate old' new' counts with
        | Some (r, cs) => Some (nc :: r, cs)
        | None => None
        end
      else
        match counts with
        | [] => None
        | count :: counts' =>
            let count := Z.min (Z.max count (Z.min no nn)) (Z.max no nn) in
            match merge_to_number (if no >? nn then oc else nc) count, bd_intermediate old' new' counts' with
            | Some m, Some (r, cs) => Some (m :: r, cs)
            | _, _ => None
            end
        end
  | _, _ => Some ([], counts)
  end.

Fixpoint bd_steps (n : nat) (old new prev : chunksN) (counts : list Z) (steps : list chunksN)
  : option (list chunksN * list Z) :=
  match n with
  | O => Some (rev steps, counts)
  | S n' =>
      match bd_intermediate old new counts with
      | None => None
      | Some (inter, counts') =>
          if largest_block_size inter >? Z.max (largest_block_size old) (largest_block_size new)
          then bd_steps n' old new prev counts' steps
          else if chunksN_eqb inter prev then bd_steps n' old new prev counts' steps
          else bd_steps n' old new inter counts' (inter :: steps)
      end
  end.

Definition last_opt {A} (l : list A) : option A := match rev l with [] => None | x :: _ => Some x end.

(* _bound_degree(old, new, degree_limit); the oracle stream supplies nsteps and
   then the counts.  Returns the steps and the unconsumed oracle. *)
Definition bound_degree (old new : chunksN) (degree_limit : Z) (oracle : list Z) : option (list chunksN * list Z) :=
  let dl := Z.max 2 degree_limit in
  let degree := Z.max (max_overlap old new) (max_overlap new old) in
  if degree <=? dl then Some ([new], oracle)
  else
    match oracle with
    | [] => None
    | nsteps :: oracle' =>
        match bd_steps (Z.to_nat (nsteps - 1)) old new old oracle' [] with
        | None => None
        | Some (steps, rest) =>
            match last_opt steps with
            | Some l => if chunksN_eqb l new then Some (steps, rest) else Some (steps ++ [new], rest)
            | None => Some ([new], rest)
            end
        end
    end.

Fixpoint bound_all (prev : chunksN) (steps : list chunksN) (degree_limit : Z) (oracle : list Z) : option (list chunksN) :=
  match steps with
  | [] => Some []
  | s :: t =>
      match bound_degree prev s degree_limit oracle with
      | None => None
      | Some (l, oracle') => option_map (app l) (bound_all s t degree_limit oracle')
      end
  end.

(* plan_rechunk(old, new, itemsize, threshold, block_size_limit) for fully
   known, non-empty chunk tuples.  bsl = block_size_limit in bytes. *)
Definition plan_rechunk (orders : list (list nat)) (oracle : list Z)
           (old new : chunksN) (itemsize threshold bsl degree_limit : Z) : option (list chunksN) :=
  let steps :=
    if Nat.leb (length new) 1 then Some [new]
    else
      let lo := largest_block_size old in
      let ln := largest_block_size new in
      (* block_size_limit = max(bsl / itemsize, lo, ln) as the rational lnum / itemsize *)
      let lnum := Z.max bsl (Z.max (lo * itemsize) (ln * itemsize)) in
      let gst := threshold * (number_of_blocks old + number_of_blocks new) in
      option_map (fun s => s ++ [new])
                 (plan_loop 100 orders old new lnum itemsize threshold gst true []) in
  match steps with
  | None => None
  | Some st => bound_all old st degree_limit oracle
  end.

(* ------------------------------------------------------------------ *)
(* Specification side (boolean checkers; soundness proved in RechunkFacts.v) *)

(* pieces of one new block are contiguous slices of consecutive old blocks that
   tile [lo, hi) exactly *)
Fixpoint pieces_tile (old_cum0 : list Z) (old : list Z) (pieces : list (Z * Z * Z)) (pos hi : Z) : bool :=
  match pieces with
  | [] => pos =? hi
  | (i, a, b) :: t =>
      let off := nthZ old_cum0 i in
      (0 <=? i) && (i <? lenZ' old) &&
      (0 <=? a) && (a <=? b) && (b <=? nthZ old i) &&
      (off + a =? pos) && pieces_tile old_cum0 old t (off + b) hi
  end.

Fixpoint crosswalk_ok_from (old_cum0 old : list Z) (new : list Z) (cw : list (list (Z * Z * Z))) (pos : Z) : bool :=
  match new, cw with
  | [], [] => true
  | c :: new', pieces :: cw' =>
      negb (match pieces with [] => true | _ => false end) &&
      pieces_tile old_cum0 old pieces pos (pos + c) && crosswalk_ok_from old_cum0 old new' cw' (pos + c)
  | _, _ => false
  end.

Definition crosswalk_ok (old new : list Z) (cw : list (list (Z * Z * Z))) : bool :=
  crosswalk_ok_from (cum0 old) old new cw 0.

Definition layout_ok (shape : list Z) (cs : chunksN) : bool :=
  (Nat.eqb (length shape) (length cs)) &&
  forallb (fun p => valid_chunks_b (snd p) (fst p) && negb (match snd p with [] => true | _ => false end)) (combine shape cs).

(* plan is non-empty, ends in new, every step is a layout of the shape *)
Definition plan_valid (shape : list Z) (new : chunksN) (plan : list chunksN) : bool :=
  match last_opt plan with
  | Some l => chunksN_eqb l new && forallb (layout_ok shape) plan
  | None => false
  end.

(* no step has a block larger than max(limit/itemsize, largest old, largest new) *)
Definition plan_within_budget (old new : chunksN) (itemsize bsl : Z) (plan : list chunksN) : bool :=
  let lnum := Z.max bsl (Z.max (largest_block_size old * itemsize) (largest_block_size new * itemsize)) in
  forallb (fun cs => largest_block_size cs * itemsize <=? lnum) plan.
