(* L0 — Python integer / slice / range semantics used by every model.
   Definitions only (proofs live in PyBaseFacts.v). *)
From Coq Require Export ZArith List Bool Lia.
Export ListNotations.
Open Scope Z_scope.

(* Python's // and % on ints are floor division and its remainder: exactly
   Coq's Z.div / Z.modulo (sign of the divisor). *)
Definition pydiv (a b : Z) : Z := a / b.
Definition pymod (a b : Z) : Z := a mod b.

(* A Python slice object whose fields are None or an int. *)
Record pslice := mkslice { s_start : option Z; s_stop : option Z; s_step : option Z }.

Definition colon : pslice := mkslice None None None.

Definition oZ_eqb (a b : option Z) : bool :=
  match a, b with
  | None, None => true
  | Some x, Some y => x =? y
  | _, _ => false
  end.

Definition pslice_eqb (a b : pslice) : bool :=
  oZ_eqb (s_start a) (s_start b) && oZ_eqb (s_stop a) (s_stop b) && oZ_eqb (s_step a) (s_step b).

(* slice.indices(n) — transcription of CPython's PySlice_Unpack +
   PySlice_AdjustIndices.  Precondition of the real method: step <> 0 (raises
   ValueError otherwise) and 0 <= n. *)
Definition step_of (s : pslice) : Z := match s_step s with None => 1 | Some k => k end.

Definition adjust_endpoint (v : option Z) (n step : Z) (dflt_neg dflt_pos : Z) : Z :=
  match v with
  | None => if step <? 0 then dflt_neg else dflt_pos
  | Some x =>
      if x <? 0 then
        let x' := x + n in
        if x' <? 0 then (if step <? 0 then -1 else 0) else x'
      else if x >=? n then (if step <? 0 then n - 1 else n)
      else x
  end.

Definition indices (s : pslice) (n : Z) : Z * Z * Z :=
  let step := step_of s in
  let start := adjust_endpoint (s_start s) n step (n - 1) 0 in
  let stop := adjust_endpoint (s_stop s) n step (-1) n in
  (start, stop, step).

(* len(range(start, stop, step)), step <> 0 *)
Definition range_len (start stop step : Z) : Z :=
  if step >? 0 then (if start <? stop then (stop - start - 1) / step + 1 else 0)
  else (if stop <? start then (start - stop - 1) / (- step) + 1 else 0).

(* list(range(start, stop, step)) *)
Definition zrange (start stop step : Z) : list Z :=
  map (fun i => start + Z.of_nat i * step) (seq 0 (Z.to_nat (range_len start stop step))).

(* The positions of a length-n axis that NumPy's x[s] selects, in order:
   list(range(start, stop, step)) for s.indices(n).  This is the *specification* of slicing. *)
Definition sel (s : pslice) (n : Z) : list Z :=
  let '(a, b, k) := indices s n in zrange a b k.

Definition slice_len (s : pslice) (n : Z) : Z :=
  let '(a, b, k) := indices s n in range_len a b k.

(* cumulative sums: cumsum [a;b;c] = [a; a+b; a+b+c] (dask's cached_cumsum) *)
Fixpoint cumsum_from (acc : Z) (l : list Z) : list Z :=
  match l with
  | [] => []
  | x :: t => (acc + x) :: cumsum_from (acc + x) t
  end.
Definition cumsum (l : list Z) : list Z := cumsum_from 0 l.

Fixpoint zsum (l : list Z) : Z := match l with [] => 0 | x :: t => x + zsum t end.

(* bisect.bisect_right / bisect_left on a sorted list: number of elements <= x
   (resp. < x) — for sorted input this equals the insertion point. *)
Fixpoint bisect_right (l : list Z) (x : Z) : Z :=
  match l with
  | [] => 0
  | y :: t => if y <=? x then 1 + bisect_right t x else 0
  end.
Fixpoint bisect_left (l : list Z) (x : Z) : Z :=
  match l with
  | [] => 0
  | y :: t => if y <? x then 1 + bisect_left t x else 0
  end.

Definition nthZ (l : list Z) (i : Z) : Z := nth (Z.to_nat i) l 0.

Definition all_nonneg (l : list Z) : bool := forallb (fun c => 0 <=? c) l.
Definition all_pos (l : list Z) : bool := forallb (fun c => 0 <? c) l.

(* A chunk layout of one axis is valid for length n. *)
Definition valid_chunks (cs : list Z) (n : Z) : Prop :=
  Forall (fun c => 0 <= c) cs /\ zsum cs = n.
Definition valid_chunks_b (cs : list Z) (n : Z) : bool :=
  all_nonneg cs && (zsum cs =? n).

Fixpoint list_eqb {A} (eqb : A -> A -> bool) (a b : list A) : bool :=
  match a, b with
  | [], [] => true
  | x :: a', y :: b' => eqb x y && list_eqb eqb a' b'
  | _, _ => false
  end.

Definition zlist_eqb := list_eqb Z.eqb.
Definition zlist2_eqb := list_eqb zlist_eqb.

(* indices of cases whose check is false — what the correspondence prints *)
Fixpoint mismatches_from {A} (i : nat) (chk : A -> bool) (l : list A) : list nat :=
  match l with
  | [] => []
  | x :: t => if chk x then mismatches_from (S i) chk t else i :: mismatches_from (S i) chk t
  end.
Definition mismatches {A} (chk : A -> bool) (l : list A) : list nat := mismatches_from 0%nat chk l.
