(* MutationFacts.v — proofs about the in-place-operation model (Mutation.v). *)
From Coq Require Import List Bool ZArith PArith Lia.
From DA Require Import PyBase PyBaseFacts Slice1dFacts Mutation.
Import ListNotations.
Open Scope Z_scope.

(* ------------------------------------------------------------------------- *)
(** * lists *)

Lemma set_nth_length : forall A (l : list A) i x, length (set_nth l i x) = length l.
Proof. induction l as [|y t IH]; intros [|i] x; cbn; auto. Qed.

Lemma nth_error_set_nth_same : forall A (l : list A) i x, (i < length l)%nat -> nth_error (set_nth l i x) i = Some x.
Proof. induction l as [|y t IH]; intros [|i] x H; cbn in *; try lia; auto. apply IH. lia. Qed.

Lemma nth_error_set_nth_other : forall A (l : list A) i j x, i <> j -> nth_error (set_nth l i x) j = nth_error l j.
Proof. induction l as [|y t IH]; intros [|i] [|j] x H; cbn; auto; try congruence. Qed.

Lemma Forall_set_nth : forall A (P : A -> Prop) l i x, Forall P l -> P x -> Forall P (set_nth l i x).
Proof.
  induction l as [|y t IH]; intros [|i] x Hl Hx; cbn; auto; inversion Hl; subst; constructor; auto.
Qed.

(* ------------------------------------------------------------------------- *)
(** * C11_cache_coherent *)

Lemma coherent_fresh : forall e, coherent (fresh e).
Proof. intro e. split; cbn; intros; discriminate. Qed.

Lemma coherent_replace : forall c e, coherent (replace_expr c e).
Proof. intros c e. split; cbn; intros; discriminate. Qed.

Lemma coherent_materialize : forall c cfg, coherent c -> coherent (materialize c cfg).
Proof.
  intros c cfg [H1 H2]. split; cbn; [|exact H2].
  intros e f H. destruct (c_low c) as [[e0 f0]|] eqn:El.
  - inversion H; subst. destruct (H1 e f eq_refl) as [A B]. split; [exact A|]. rewrite B. reflexivity.
  - inversion H; subst. split; reflexivity.
Qed.

Lemma coherent_cache_keys : forall c, coherent c -> coherent (cache_keys c).
Proof.
  intros c [H1 H2]. split; cbn; [exact H1|].
  intros e H. destruct (c_keys c) as [k|] eqn:Ek; inversion H; subst; [apply H2; reflexivity | reflexivity].
Qed.

Lemma coherent_optimized : forall c o, coherent (optimized c o).
Proof. intros c o. split; cbn; intros; [inversion H; subst; auto | discriminate]. Qed.

Definition all_coherent (st : state) : Prop := Forall coherent (colls st).

Lemma update_coherent : forall st c f,
  all_coherent st -> (forall x, coherent x -> coherent (f x)) -> all_coherent (update st c f).
Proof.
  intros st c f H Hf. unfold update, get_coll. destruct (nth_error (colls st) c) as [x|] eqn:E; [|exact H].
  unfold all_coherent. cbn. apply Forall_set_nth; [exact H|]. apply Hf.
  unfold all_coherent in H. rewrite Forall_forall in H. apply H. eapply nth_error_In. exact E.
Qed.

Lemma new_object_coherent : forall st x, all_coherent st -> coherent x -> all_coherent (new_object st x).
Proof. intros st x H Hx. unfold all_coherent, new_object. cbn. apply Forall_app. split; [exact H | constructor; [exact Hx|constructor]]. Qed.

Lemma step_coherent : forall st o, all_coherent st -> all_coherent (step st o).
Proof.
  intros st o H. destruct o; cbn.
  - destruct (coll_of st h); [|exact H]. destruct (identity_returning k); [exact H|].
    destruct (get_coll st n); [|exact H]. apply new_object_coherent; [exact H | apply coherent_fresh].
  - destruct (coll_of st h); [|exact H]. apply update_coherent; [exact H|]. intros; apply coherent_replace.
  - destruct (coll_of st h); [|exact H]. apply update_coherent; [exact H|]. intros; apply coherent_replace.
  - destruct (coll_of st src); [|exact H]. destruct (coll_of st dst); [|exact H].
    destruct (get_coll st n); [|exact H]. apply update_coherent; [exact H|]. intros; apply coherent_replace.
  - destruct (coll_of st h); [|exact H]. apply update_coherent; [exact H|]. intros; apply coherent_replace.
  - destruct (coll_of st h); [|exact H]. apply update_coherent; [exact H|]. intros; apply coherent_materialize; assumption.
  - destruct (coll_of st h); [|exact H]. apply update_coherent; [exact H|]. intros; apply coherent_cache_keys; assumption.
  - destruct (coll_of st h); [|exact H]. destruct (get_coll st n) as [x|]; [|exact H].
    destruct (c_opt x); [exact H|]. apply new_object_coherent; [exact H | apply coherent_optimized].
Qed.

Lemma run_coherent : forall ops st, all_coherent st -> all_coherent (run ops st).
Proof. induction ops as [|o t IH]; intros st H; cbn; [exact H|]. apply IH. apply step_coherent. exact H. Qed.

Theorem cache_coherent : forall ops src c x,
  get_coll (run ops (init src)) c = Some x -> coherent x.
Proof.
  intros ops src c x H.
  assert (Hall : all_coherent (run ops (init src))).
  { apply run_coherent. unfold all_coherent, init. cbn. constructor; [apply coherent_fresh | constructor]. }
  unfold all_coherent in Hall. rewrite Forall_forall in Hall. apply Hall. eapply nth_error_In. exact H.
Qed.

Lemma coherent_b_spec : forall c, coherent_b c = true -> coherent c.
Proof.
  assert (Heq : forall a b, expr_eqb a b = true -> a = b).
  { induction a; intros [] H; cbn in H; try discriminate;
      repeat match goal with
             | H : _ && _ = true |- _ => apply andb_true_iff in H; destruct H
             | H : Pos.eqb _ _ = true |- _ => apply Pos.eqb_eq in H; subst
             | H : Z.eqb _ _ = true |- _ => apply Z.eqb_eq in H; subst
             end; try reflexivity.
    - f_equal; [destruct k, k0; try discriminate; reflexivity | apply IHa; assumption].
    - f_equal. apply IHa. assumption.
    - f_equal. apply IHa. assumption.
    - f_equal. apply IHa. assumption.
    - f_equal; [apply IHa1 | apply IHa2]; assumption. }
  intros c H. unfold coherent_b in H. apply andb_true_iff in H. destruct H as [H1 H2]. split.
  - intros e f E. rewrite E in H1. apply andb_true_iff in H1. destruct H1 as [A B].
    apply Heq in A. destruct (c_flag c) as [f'|]; [|discriminate]. apply Bool.eqb_prop in B. subst. auto.
  - intros e E. rewrite E in H2. apply Heq in H2. exact H2.
Qed.

(* ------------------------------------------------------------------------- *)
(** * C11_others_unchanged *)


Lemma get_coll_update_other : forall st c f d, c <> d -> get_coll (update st c f) d = get_coll st d.
Proof.
  intros st c f d H. unfold update. destruct (get_coll st c); [|reflexivity].
  unfold get_coll. cbn. apply nth_error_set_nth_other. exact H.
Qed.

Lemma get_coll_update_same : forall st c f x, get_coll st c = Some x -> get_coll (update st c f) c = Some (f x).
Proof.
  intros st c f x H. unfold update. rewrite H. unfold get_coll in *. cbn.
  apply nth_error_set_nth_same. apply nth_error_Some. congruence.
Qed.

Lemma get_coll_new_object : forall st x d y, get_coll st d = Some y -> get_coll (new_object st x) d = Some y.
Proof.
  intros st x d y H. unfold get_coll, new_object in *. cbn. rewrite nth_error_app1; [exact H|].
  apply nth_error_Some. congruence.
Qed.

Lemma expr_of_update_same : forall st c f,
  (forall x, c_expr (f x) = c_expr x) -> forall d, expr_of (update st c f) d = expr_of st d.
Proof.
  intros st c f Hf d. unfold expr_of. destruct (Nat.eq_dec c d) as [E|E].
  - subst. destruct (get_coll st d) as [x|] eqn:Ex.
    + rewrite (get_coll_update_same st d f x Ex). rewrite Hf. reflexivity.
    + unfold update. rewrite Ex. rewrite Ex. reflexivity.
  - rewrite get_coll_update_other by exact E. reflexivity.
Qed.

(* one step: an op changes no expression except its target's *)
Theorem step_frame : forall st o c e,
  expr_of st c = Some e -> expr_target st o <> Some c -> expr_of (step st o) c = Some e.
Proof.
  intros st o c e He Ht.
  assert (Hnew : forall x, expr_of (new_object st x) c = Some e).
  { intro x. unfold expr_of in *. destruct (get_coll st c) as [y|] eqn:Ey; [|discriminate].
    rewrite (get_coll_new_object st x c y Ey). exact He. }
  assert (Hupd : forall c' f, Some c' <> Some c -> expr_of (update st c' f) c = Some e).
  { intros c' f Hne. unfold expr_of. rewrite get_coll_update_other; [exact He|]. congruence. }
  destruct o; cbn in *.
  - destruct (coll_of st h); [|exact He]. destruct (identity_returning k); [exact He|].
    destruct (get_coll st n); [apply Hnew | exact He].
  - destruct (coll_of st h); [apply Hupd; exact Ht | exact He].
  - destruct (coll_of st h); [apply Hupd; exact Ht | exact He].
  - destruct (coll_of st src); [|exact He]. destruct (coll_of st dst); [|exact He].
    destruct (get_coll st n); [apply Hupd; exact Ht | exact He].
  - destruct (coll_of st h); [apply Hupd; exact Ht | exact He].
  - destruct (coll_of st h); [|exact He]. rewrite expr_of_update_same; [exact He | reflexivity].
  - destruct (coll_of st h); [|exact He]. rewrite expr_of_update_same; [exact He | reflexivity].
  - destruct (coll_of st h); [|exact He]. destruct (get_coll st n) as [x|]; [|exact He].
    destruct (c_opt x); [exact He | apply Hnew].
Qed.


Theorem run_frame : forall ops st c e,
  expr_of st c = Some e -> expr_untouched c ops st -> expr_of (run ops st) c = Some e.
Proof.
  induction ops as [|o t IH]; intros st c e He Hu; cbn; [exact He|].
  destruct Hu as [H1 H2]. apply IH; [|exact H2]. apply step_frame; assumption.
Qed.

(* a derivation captures the parent's CURRENT expression; whatever happens to the parent (or to
   anybody else) afterwards, the derived collection keeps pointing to it *)
Theorem others_unchanged : forall st h k c x ops,
  coll_of st h = Some c -> get_coll st c = Some x -> identity_returning k = false ->
  let d := length (colls st) in
  let st1 := step st (Derive h k) in
  coll_of st1 (length (handles st)) = Some d /\
  (expr_untouched d ops st1 -> expr_of (run ops st1) d = Some (EDer k (c_expr x))).
Proof.
  intros st h k c x ops Hh Hc Hk d st1.
  assert (E1 : st1 = new_object st (fresh (EDer k (c_expr x)))).
  { unfold st1. cbn. rewrite Hh, Hk, Hc. reflexivity. }
  split.
  - rewrite E1. unfold coll_of, new_object. cbn. rewrite nth_error_app2 by lia.
    rewrite Nat.sub_diag. reflexivity.
  - intro Hu. apply run_frame; [|exact Hu]. rewrite E1. unfold expr_of, get_coll, new_object. cbn.
    unfold d. rewrite nth_error_app2 by lia. rewrite Nat.sub_diag. reflexivity.
Qed.

(* the identity-returning derivations bind a new handle to the SAME object (F9) *)
Theorem identity_derivation_aliases : forall st h k c,
  coll_of st h = Some c -> identity_returning k = true ->
  let st1 := step st (Derive h k) in
  coll_of st1 (length (handles st)) = Some c /\ colls st1 = colls st.
Proof.
  intros st h k c Hh Hk st1. unfold st1. cbn. rewrite Hh, Hk. unfold coll_of, new_alias. cbn.
  split; [|reflexivity]. rewrite nth_error_app2 by lia. rewrite Nat.sub_diag. reflexivity.
Qed.

(* ------------------------------------------------------------------------- *)
(** * C11_setitem_1d_den *)

Lemma list_upd_length : forall l p v, length (list_upd l p v) = length l.
Proof. induction l as [|y t IH]; intros [|p] v; cbn; auto. Qed.

Lemma list_upd_same : forall l p v d, (p < length l)%nat -> nth p (list_upd l p v) d = v.
Proof. induction l as [|y t IH]; intros [|p] v d H; cbn in *; try lia; auto. apply IH. lia. Qed.

Lemma list_upd_other : forall l p q v d, p <> q -> nth q (list_upd l p v) d = nth q l d.
Proof. induction l as [|y t IH]; intros [|p] [|q] v d H; cbn; auto; try congruence. Qed.

Lemma assign_spec : forall ps x v i0,
  NoDup ps -> (forall p, In p ps -> 0 <= p < Z.of_nat (length x)) ->
  length (assign x ps v i0) = length x /\
  (forall j, (j < length ps)%nat -> nth (Z.to_nat (nth j ps 0)) (assign x ps v i0) 0 = value_at v (i0 + j)) /\
  (forall p, ~ In (Z.of_nat p) ps -> nth p (assign x ps v i0) 0 = nth p x 0).
Proof.
  induction ps as [|p0 t IH]; intros x v i0 Hnd Hb; cbn [assign].
  - split; [reflexivity|]. split; [intros j Hj; cbn in Hj; lia | reflexivity].
  - inversion Hnd as [|? ? Hp0 Hnd']; subst.
    pose proof (Hb p0 (or_introl eq_refl)) as Hp0b.
    destruct (IH (list_upd x (Z.to_nat p0) (value_at v i0)) v (S i0) Hnd') as (L & S1 & O1).
    { intros p Hp. rewrite list_upd_length. apply Hb. right; exact Hp. }
    rewrite list_upd_length in L. split; [exact L|]. split.
    + intros [|j] Hj; cbn [nth].
      * rewrite O1 by (rewrite Z2Nat.id by lia; exact Hp0).
        rewrite list_upd_same by lia. f_equal. lia.
      * cbn in Hj. rewrite S1 by lia. f_equal. lia.
    + intros p Hp. rewrite O1 by (intro H; apply Hp; right; exact H).
      apply list_upd_other. intro E. apply Hp. left. subst p. lia.
Qed.

Lemma zrange_NoDup : forall a b k, k <> 0 -> NoDup (zrange a b k).
Proof.
  intros a b k Hk. unfold zrange.
  assert (H : forall l : list nat, NoDup l -> NoDup (map (fun i : nat => a + Z.of_nat i * k) l)).
  { intros l Hl. induction Hl as [|x t Hx Ht IH]; cbn; constructor; [|exact IH].
    intro Hin. apply in_map_iff in Hin. destruct Hin as [y [E Hy]].
    assert (y = x) by nia. subst. contradiction. }
  apply H. apply seq_NoDup.
Qed.

Lemma sel_NoDup : forall s n, step_of s <> 0 -> NoDup (sel s n).
Proof.
  intros s n H. unfold sel, indices. apply zrange_NoDup. exact H.
Qed.

(* NumPy's  x[k] = v  on a 1-D array, for every basic slice k with a non-zero step: the length is
   kept, the i-th selected position receives the i-th value (the scalar, when broadcast), every
   position that k does not select keeps its value *)
Theorem setitem_den_spec : forall x k v,
  step_of k <> 0 ->
  let n := Z.of_nat (length x) in
  let r := setitem_den x k v in
  length r = length x /\
  (forall i, (i < length (sel k n))%nat -> nth (Z.to_nat (nth i (sel k n) 0)) r 0 = value_at v i) /\
  (forall p, ~ In (Z.of_nat p) (sel k n) -> nth p r 0 = nth p x 0).
Proof.
  intros x k v Hk n r. unfold r, setitem_den. fold n.
  destruct (assign_spec (sel k n) x v 0 (sel_NoDup k n Hk)) as (L & S1 & O1).
  - intros p Hp. apply (sel_in_range k n p); [unfold n; lia | exact Hk | exact Hp].
  - split; [exact L|]. split; [|exact O1]. intros i Hi. rewrite S1 by exact Hi. reflexivity.
Qed.
