(* C15 — Rechunk plans are valid and respect the block-size budget. *)
From DA Require Import PyBase Rechunk.
Open Scope Z_scope.

Example C15_crosswalk_example :
  crosswalk_ok [10;10;10;10;10] [25;5;20] (intersect_1d [10;10;10;10;10] [25;5;20]) = true.
Proof. vm_compute. reflexivity. Qed.
Print Assumptions C15_crosswalk_example.
