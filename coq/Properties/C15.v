(* C15 — Rechunk plans are valid and respect the block-size budget.
   Statements only; proofs in theories/Rechunk*.v, CrosswalkFacts.v, IntersectFacts.v.
   plan_rechunk returns None exactly where the Python raises/asserts; `orders` and
   `oracle` are the float-derived choices (np.log sort key; ceil(log/log); round(..**..))
   and every theorem holds for ALL their values. *)
From DA Require Import PyBase Rechunk RechunkFacts.
Open Scope Z_scope.

(* the plan is a non-empty finite list of chunkings of the shape, ending in `new` *)
Theorem C15_plan_valid :
  forall orders oracle old new itemsize threshold bsl degree_limit plan shape,
    layout_ok shape old = true -> layout_ok shape new = true ->
    plan_rechunk orders oracle old new itemsize threshold bsl degree_limit = Some plan ->
    plan_valid shape new plan = true.
Proof. exact plan_valid_thm. Qed.

(* no step has a block larger than max(limit/itemsize, largest old, largest new) —
   including the steps the degree-bounding pass inserts (repaired: fix 19b762a) *)
Theorem C15_plan_budget :
  forall orders oracle old new itemsize threshold bsl degree_limit plan,
    0 < itemsize ->
    plan_rechunk orders oracle old new itemsize threshold bsl degree_limit = Some plan ->
    plan_within_budget old new itemsize bsl plan = true.
Proof. exact plan_budget_any_rank. Qed.

(* rank <= 1 skips size planning: every step is within the two endpoints *)
Theorem C15_plan_budget_rank_le1 :
  forall orders oracle old new itemsize threshold bsl degree_limit plan,
    plan_rechunk orders oracle old new itemsize threshold bsl degree_limit = Some plan ->
    (length new <= 1)%nat ->
    plan_within_endpoints old new plan = true.
Proof. exact plan_budget_rank_le1. Qed.

(* the crosswalk covers each new block exactly once with contiguous in-bounds pieces
   of old blocks — zero-size chunks included *)
Theorem C15_crosswalk_exact :
  forall old new, nonneg old -> nonneg new -> old <> [] -> zsum old = zsum new ->
  length (intersect_1d old new) = length new /\
  forall j pieces, nth_error (intersect_1d old new) j = Some pieces ->
    pieces <> [] /\
    Forall (piece_in_bounds old) pieces /\
    concat (map (piece_positions old) pieces) = seqZ (cum new j) (cum new (S j)).
Proof. exact intersect_1d_spec. Qed.

(* N-D: every axis of old_to_new passes the checker (the N-D crosswalk is the product) *)
Theorem C15_old_to_new_grid :
  forall shape old new,
  layout_ok shape old = true -> layout_ok shape new = true ->
  Forall2 (fun on cw => crosswalk_ok (fst on) (snd on) cw = true) (combine old new) (old_to_new old new).
Proof. exact old_to_new_ok. Qed.

(* soundness of the boolean checker the harness runs on the implementation's output *)
Theorem C15_crosswalk_checker_sound :
  forall old new cw, crosswalk_ok old new cw = true ->
  length cw = length new /\
  forall j pieces, nth_error cw j = Some pieces ->
    pieces <> [] /\ Forall (piece_in_bounds old) pieces /\
    concat (map (piece_positions old) pieces) = seqZ (cum new j) (cum new (S j)).
Proof. exact crosswalk_sound. Qed.

Example C15_ex_two_step_plan :
  plan_rechunk [[0%nat];[0%nat];[0%nat];[0%nat]] [] [[1;1;1;1;1;1;1;1];[8]] [[8];[1;1;1;1;1;1;1;1]] 1 1 16 100
  = Some [[[2;2;2;2];[8]]; [[8];[1;1;1;1;1;1;1;1]]].
Proof. vm_compute. reflexivity. Qed.

Example C15_ex_zero_chunks : crosswalk_ok [2;0;2] [0;4] (intersect_1d [2;0;2] [0;4]) = true.
Proof. vm_compute. reflexivity. Qed.

Print Assumptions C15_plan_valid.
Print Assumptions C15_plan_budget.
Print Assumptions C15_plan_budget_rank_le1.
Print Assumptions C15_crosswalk_exact.
Print Assumptions C15_old_to_new_grid.
Print Assumptions C15_crosswalk_checker_sound.
