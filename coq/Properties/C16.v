(* C16 — Chunk normalization produces valid layouts within the byte limit.
   Statements only; proofs in theories/NormChunksFacts.v.  The float k-th root `size`
   of auto_chunks is an oracle argument (`sizes`): every theorem holds for all oracle
   values, the byte-limit theorems under the explicit root hypothesis.
   Second part (theorems C16_prev_...): the `previous_chunks` branch of auto_chunks (model: theories/AutoPrev.v; proofs:
   AutoPrevFacts / AutoPrevTerm / AutoPrevTerm2 / AutoPrevBound).  There the floats `proposed` and
   `max_chunk_size` are the oracle [orc round axis]; medians, multiplier and round_to are exact rationals. *)
From DA Require Import PyBase NormChunks NormChunksFacts.
From DA Require Import AutoPrev AutoPrevFacts AutoPrevTerm AutoPrevTerm2 AutoPrevBound AutoPrevSafe.
Open Scope Z_scope.

(* every accepted specification yields one non-empty tuple per axis of non-negative
   sizes summing to the axis length — for ALL oracle values *)
Theorem C16_valid_layout : forall sizes specs shape cs,
  Forall (fun n => 0 <= n) shape ->
  normalize_chunks sizes specs shape = Ok cs ->
  layout_ok cs shape = true.
Proof. exact normalize_valid_layout. Qed.

(* an explicit uniform size c yields blocks of size c except possibly a smaller last block *)
Theorem C16_uniform : forall sizes specs shape cs i c n,
  nth_error specs i = Some (AInt c) -> 0 < c ->
  nth_error shape i = Some n -> 0 < n ->
  normalize_chunks sizes specs shape = Ok cs ->
  nth_error cs i = Some (repeat c (Z.to_nat (n / c)) ++ (if n mod c =? 0 then [] else [n mod c])).
Proof. exact normalize_uniform. Qed.

Theorem C16_full_axis : forall sizes specs shape cs i sp n,
  nth_error specs i = Some sp -> sp = AFull \/ sp = AInt (-1) ->
  nth_error shape i = Some n ->
  normalize_chunks sizes specs shape = Ok cs ->
  nth_error cs i = Some [n].
Proof. exact normalize_full. Qed.

(* only zero-length axes carry zero-size chunks — unless the caller wrote a 0 into an
   explicit tuple ... *)
Theorem C16_zero_only_on_empty_axes : forall sizes specs shape cs,
  (forall l, In (ATuple l) specs -> ~ In 0 l) ->
  normalize_chunks sizes specs shape = Ok cs ->
  forall i n l, nth_error shape i = Some n -> 0 < n -> nth_error cs i = Some l ->
    Forall (fun c => 0 < c) l.
Proof. exact normalize_zero_only_on_empty_axes. Qed.

(* ... in which case the full-strength clause is refuted (known finding F4) *)
Theorem C16_explicit_zero_chunk_refuted :
  exists sizes specs shape cs,
    normalize_chunks sizes specs shape = Ok cs /\
    exists i n l, nth_error shape i = Some n /\ 0 < n /\ nth_error cs i = Some l /\ In 0 l.
Proof. exact normalize_explicit_zero_refuted. Qed.

(* 'auto' axes: blocks within the limit unless the fixed axes alone exceed it *)
Theorem C16_auto_limit : forall limit itemsize sizes specs shape cs,
  0 < itemsize -> 0 <= limit ->
  normalize_chunks sizes specs shape = Ok cs ->
  count_autos (subst_all specs shape) <> 0 ->
  oracles_sound limit itemsize (S (length (subst_all specs shape))) sizes (subst_all specs shape) shape ->
  exists num den specsL,
    auto_last (S (length (subst_all specs shape))) sizes (subst_all specs shape) shape = Some (num, den, specsL) /\
    (itemsize * max_block cs <= limit \/
     (num / den < 1 /\ existsb (fun b => b) (small_flags num den specsL shape) = false)) /\
    itemsize * max_block cs <= Z.max limit (itemsize * largest_fixed specsL).
Proof. exact normalize_auto_limit_all_levels. Qed.

(* the model's fuel / oracle exhaustion error is unreachable with one oracle value per auto axis *)
Theorem C16_auto_fuel_adequate : forall sizes specs shape,
  length specs = length shape ->
  count_autos specs <= Z.of_nat (length sizes) ->
  exists specs', auto_chunks (S (length specs)) sizes specs shape = Ok specs'.
Proof. exact auto_chunks_fuel_adequate. Qed.

Example C16_ex_two_level_auto :
  normalize_chunks [(2236,100);(500,3)] [AAuto; AAuto; AInt 2] [3; 1000; 10]
  = Ok [[3]; repeat 166 6 ++ [4]; [2;2;2;2;2]].
Proof. vm_compute. reflexivity. Qed.

Example C16_ex_negative_rejected : normalize_chunks [] [AInt (-3)] [10] = Err EValue.
Proof. vm_compute. reflexivity. Qed.

Print Assumptions C16_valid_layout.
Print Assumptions C16_uniform.
Print Assumptions C16_full_axis.
Print Assumptions C16_zero_only_on_empty_axes.
Print Assumptions C16_explicit_zero_chunk_refuted.
Print Assumptions C16_auto_limit.
Print Assumptions C16_auto_fuel_adequate.

(* ====================================================================== *)
(* normalize_chunks(..., previous_chunks=...) / x.rechunk('auto'): model AutoPrev.normalize_chunks_prev *)

(* (a) every accepted result is a layout of the shape — for ALL oracle values and all fuel *)
Theorem C16_prev_valid_layout : forall orc fuel limit itemsize specs shape prev cs,
  Forall (fun n => 0 <= n) shape ->
  normalize_chunks_prev orc fuel limit itemsize specs shape prev = POk cs ->
  layout_ok cs shape = true.
Proof. exact normalize_prev_valid_layout. Qed.

(* (a) 'auto' axes of positive length get positive chunks (zero-size chunks only on zero-length axes) *)
Theorem C16_prev_auto_axes_positive : forall orc fuel limit itemsize specs shape prev cs,
  Forall (fun n => 0 <= n) shape ->
  normalize_chunks_prev orc fuel limit itemsize specs shape prev = POk cs ->
  forall i n l, nth_error specs i = Some AAuto -> nth_error shape i = Some n -> 0 < n ->
    nth_error cs i = Some l -> Forall (fun c => 0 < c) l.
Proof. exact normalize_prev_auto_positive. Qed.

(* (a) the other axes are converted exactly as without previous_chunks *)
Theorem C16_prev_fixed_axes_untouched : forall orc fuel limit itemsize specs shape prev cs,
  Forall (fun n => 0 <= n) shape ->
  normalize_chunks_prev orc fuel limit itemsize specs shape prev = POk cs ->
  forall i sp n, nth_error specs i = Some sp -> sp <> AAuto -> nth_error shape i = Some n ->
    exists l, nth_error cs i = Some l /\ convert_axis (subst_full sp n) n = Ok l.
Proof. exact normalize_prev_fixed_untouched. Qed.

Theorem C16_prev_no_auto_ignores_previous : forall orc fuel limit itemsize specs shape prev sizes,
  length specs = length shape ->
  count_autos (subst_all specs shape) = 0 ->
  normalize_chunks_prev orc fuel limit itemsize specs shape prev =
  match normalize_chunks sizes specs shape with Ok cs => POk cs | Err e => PErr e end.
Proof. exact normalize_prev_no_auto. Qed.

(* (b) the byte bound this branch guarantees: T * max(1, limit) with T = tn/td (the configured tolerance is
   5/4), PROVIDED the proposals of every pass are numbers and the LAST pass that starts with `autos` non-empty
   is accurate (AutoPrev.acc_round: prod(max(1, int(proposed), int(max_chunk_size))) <= T * target, where
   target = limit / (itemsize * largest_block * prod(settled median_chunks entries)) is the value prod(proposed)
   has mathematically, and the settled entries multiply to >= 1).  The full-strength statement without the
   accuracy hypothesis is false already because the oracle is arbitrary; with real floats it fails when the
   settled entries multiply to < 1: see the _refuted theorem below. *)
Theorem C16_prev_limit : forall tn td orc fuel limit itemsize specs shape prev cs,
  0 < td -> 0 <= tn -> 0 <= itemsize -> Forall (fun n => 0 <= n) shape ->
  normalize_chunks_prev orc fuel limit itemsize specs shape prev = POk cs ->
  prev_acc tn td orc fuel limit itemsize specs shape prev = true ->
  itemsize * max_block cs * td <= tn * Z.max 1 limit.
Proof. exact normalize_prev_limit. Qed.

(* (b, refuted) valid previous chunks with zero-size chunks (median 1/2): blocks of 2 x limit although the
   fixed axes fit — normalize_chunks(('auto','auto'), (1,100), limit=10, dtype='u1',
   previous_chunks=((0,1),(10,)*10)) = ((1,), (20,)*5)  [replayed on the implementation: finding C16-P1] *)
Theorem C16_prev_limit_zero_size_previous_chunks_refuted :
  exists orc fuel limit itemsize specs shape prev cs,
    layout_ok prev shape = true /\
    normalize_chunks_prev orc fuel limit itemsize specs shape prev = POk cs /\
    itemsize * largest_fixed specs <= limit /\
    5 * limit < 4 * (itemsize * max_block cs).
Proof. exact normalize_prev_limit_zero_prev_refuted. Qed.

(* (c) TERMINATION of `while multiplier_remaining:`.
   - multiplier >= 1 initially (prev_start gives reduce = false): #autos + 1 passes suffice for ALL oracle values;
   - multiplier < 1 initially (reduce = true: result IS median_chunks and the loop runs until the recomputed
     multiplier stops changing): (#autos + 1) * (sum of the 'auto' axis lengths + 3) passes suffice PROVIDED every
     executed pass is sane (AutoPrev.round_sane: the proposals are numbers; proposed >= the entry it was
     computed from when multiplier >= 1; prod(int(proposed)) <= target);
   - the loop is not reached (no 'auto', error before it): trivially. *)
Theorem C16_prev_terminates : forall orc fuel limit itemsize specs shape prev,
  match prev_start limit itemsize specs shape prev with
  | None => True
  | Some (false, cs, st0) => (n_autos (ls_axes st0) < fuel)%nat
  | Some (true, cs, st0) => prev_sane orc fuel limit itemsize specs shape prev = true /\
                            reduce_fuel_bound cs (ls_axes st0) <= Z.of_nat fuel
  end ->
  normalize_chunks_prev orc fuel limit itemsize specs shape prev <> PFuel.
Proof. exact normalize_prev_terminates. Qed.

Theorem C16_prev_terminates_growing : forall orc fuel limit itemsize specs shape prev cs st0,
  prev_start limit itemsize specs shape prev = Some (false, cs, st0) ->
  (length (filter is_auto (subst_all specs shape)) < fuel)%nat ->
  normalize_chunks_prev orc fuel limit itemsize specs shape prev <> PFuel.
Proof. exact normalize_prev_grow_terminates. Qed.

(* (c) why sanity is needed: in the shrinking case, with NaN proposals and an axis still in `autos`, NO pass
   ends the loop: the axis stays in `autos`, its dict entry becomes NaN, the recomputed multiplier is NaN and
   `multiplier != last_multiplier` holds for NaN — the state stops changing but the exit test never fires *)
Theorem C16_prev_nan_never_exits : forall fuel limit itemsize cs orc r st,
  (forall r' a, orc r' a = (FNan, FNan)) ->
  length cs = length (ls_axes st) ->
  (0 < n_autos (ls_axes st))%nat ->
  forall st', prev_loop fuel true limit itemsize cs orc r st <> LDone st'.
Proof. exact prev_loop_nan_never_exits. Qed.

(* (c, refuted) full-strength termination is FALSE: the known hang (finding C14-F26 / C16-P2),
   normalize_chunks((-2,'auto','auto'), (5,5,2), dtype='i4', previous_chunks=((1,)*5,(5,),(2,))):
   largest_block = -2 < 0, so multiplier < 0 and multiplier ** (1/2) is NaN (the oracle the implementation
   produces): the model runs out of ANY fuel *)
Theorem C16_prev_negative_entry_never_returns_refuted :
  exists orc limit itemsize specs shape prev,
    forall fuel, normalize_chunks_prev orc fuel limit itemsize specs shape prev = PFuel.
Proof.
  exists (fun _ _ => (FNan, FNan)), 134217728, 4, [AInt (-2); AAuto; AAuto], [5; 5; 2], [[1; 1; 1; 1; 1]; [5]; [2]].
  exact normalize_prev_negative_entry_never_returns.
Qed.

(* (c) WHICH INPUTS ARE SAFE.  On a well-formed input — itemsize > 0, the product of the explicit entries
   (largest_block) positive, shape >= 0, previous chunks >= 0 — the exact multiplier at the start of EVERY pass is
   a positive number, for all numeric oracle values.  The implementation's proposals are
   median_chunks[a] * multiplier ** (1/n): NaN only for a negative multiplier with n >= 2.  So exactly the inputs
   with a negative largest_block (an odd number of negative explicit entries) or negative previous chunks, next to
   two or more 'auto' axes, can hang; all others cannot produce the NaN of C16_prev_nan_never_exits. *)
Theorem C16_prev_safe_inputs_multiplier_positive : forall orc fuel limit itemsize specs shape prev,
  0 < itemsize -> 0 < largest_fixed (subst_all specs shape) ->
  Forall (fun n => 0 <= n) shape ->
  (forall pvs, conv_prev shape prev = Ok pvs -> Forall (Forall (fun c => 0 <= c)) pvs) ->
  (forall r a, fwf (fst (orc r a)) && fwf (snd (orc r a)) = true) ->
  Forall mult_pos (prev_mults orc fuel limit itemsize specs shape prev).
Proof. exact prev_mults_positive. Qed.

(* Examples: the hypotheses are satisfiable on real runs (oracle values = the floats of the implementation) *)
(* shrinking case, two passes: normalize_chunks(('auto','auto'), (12,12), limit=8, dtype='u1',
   previous_chunks=((4,4,4),(6,6))) = ((2,)*6, (3,)*4); proposals 2.309.., 3.464.. in both passes *)
Definition ex_shrink_oracle : nat -> nat -> fval * fval :=
  orc_of_table
    [[(0%nat, (FQ 1300077228592327 562949953421312, FQ 5814122118263953 2251799813685248));
      (1%nat, (FQ 3900231685776981 1125899906842624, FQ 4360591588697965 1125899906842624))];
     [(0%nat, (FQ 1300077228592327 562949953421312, FQ 5814122118263953 2251799813685248));
      (1%nat, (FQ 3900231685776981 1125899906842624, FQ 4360591588697965 1125899906842624))]].
Example C16_prev_ex_shrink :
  normalize_chunks_prev ex_shrink_oracle 64 8 1 [AAuto; AAuto] [12; 12] [[4; 4; 4]; [6; 6]]
    = POk [[2; 2; 2; 2; 2; 2]; [3; 3; 3; 3]] /\
  (exists cs st0, prev_start 8 1 [AAuto; AAuto] [12; 12] [[4; 4; 4]; [6; 6]] = Some (true, cs, st0) /\
                  reduce_fuel_bound cs (ls_axes st0) = 81) /\
  prev_sane ex_shrink_oracle 81 8 1 [AAuto; AAuto] [12; 12] [[4; 4; 4]; [6; 6]] = true /\
  prev_acc 5 4 ex_shrink_oracle 64 8 1 [AAuto; AAuto] [12; 12] [[4; 4; 4]; [6; 6]] = true /\
  prev_acc 1 1 ex_shrink_oracle 64 8 1 [AAuto; AAuto] [12; 12] [[4; 4; 4]; [6; 6]] = true.
Proof. vm_compute. repeat split; try reflexivity. eexists _, _. split; reflexivity. Qed.

(* growing case: normalize_chunks(('auto','auto'), (100,100), limit=600, dtype='u1',
   previous_chunks=((10,)*10,(50,50))) keeps the previous chunks (10 x 50 = 500 bytes) *)
Definition ex_grow_oracle : nat -> nat -> fval * fval :=
  orc_of_table
    [[(0%nat, (FQ 3083403882353351 281474976710656, FQ 6894700683028857 562949953421312));
      (1%nat, (FQ 3854254852941689 70368744177664, FQ 1077296981723259 17592186044416))]].
Example C16_prev_ex_grow :
  normalize_chunks_prev ex_grow_oracle 3 600 1 [AAuto; AAuto] [100; 100] [[10;10;10;10;10;10;10;10;10;10]; [50; 50]]
    = POk [[10;10;10;10;10;10;10;10;10;10]; [50; 50]] /\
  prev_acc 5 4 ex_grow_oracle 3 600 1 [AAuto; AAuto] [100; 100] [[10;10;10;10;10;10;10;10;10;10]; [50; 50]] = true.
Proof. vm_compute. split; reflexivity. Qed.

(* the exact multipliers of the two passes of C16_prev_ex_shrink: 8/(4 x 12/2) = 16/48, then 8/(2 x 3) = 8/6 *)
Example C16_prev_ex_mults :
  prev_mults ex_shrink_oracle 64 8 1 [AAuto; AAuto] [12; 12] [[4; 4; 4]; [6; 6]] = [FQ 16 48; FQ 8 6].
Proof. vm_compute. reflexivity. Qed.

(* an int previous chunk (h5py / zarr `.chunks`) is expanded: previous_chunks=(7, 4) on shape (20, 10) *)
Example C16_prev_ex_conv : conv_prev [20; 10] [[7]; [4]] = Ok [[7; 7; 6]; [4; 4; 2]].
Proof. vm_compute. reflexivity. Qed.

Print Assumptions C16_prev_valid_layout.
Print Assumptions C16_prev_auto_axes_positive.
Print Assumptions C16_prev_fixed_axes_untouched.
Print Assumptions C16_prev_no_auto_ignores_previous.
Print Assumptions C16_prev_limit.
Print Assumptions C16_prev_limit_zero_size_previous_chunks_refuted.
Print Assumptions C16_prev_terminates.
Print Assumptions C16_prev_terminates_growing.
Print Assumptions C16_prev_nan_never_exits.
Print Assumptions C16_prev_negative_entry_never_returns_refuted.
Print Assumptions C16_prev_safe_inputs_multiplier_positive.
