(* C16 — Chunk normalization produces valid layouts within the byte limit. *)
From DA Require Import PyBase NormChunks.
Open Scope Z_scope.

Example C16_uniform_example :
  normalize_chunks [] [AInt 4; AInt 3] [10; 10] = Ok [[4;4;2];[3;3;3;1]].
Proof. vm_compute. reflexivity. Qed.
Print Assumptions C16_uniform_example.
