(* C16 — Chunk normalization produces valid layouts within the byte limit.
   Statements only; proofs in theories/NormChunksFacts.v.  The float k-th root `size`
   of auto_chunks is an oracle argument (`sizes`): every theorem holds for all oracle
   values, the byte-limit theorems under the explicit root hypothesis. *)
From DA Require Import PyBase NormChunks NormChunksFacts.
Open Scope Z_scope.

(* every accepted specification yields one non-empty tuple per axis of non-negative
   sizes summing to the axis length — for ALL oracle values *)
Theorem C16_valid_layout : forall sizes specs shape cs,
  Forall (fun n => 0 <= n) shape ->
  normalize_chunks sizes specs shape = Ok cs ->
  layout_ok cs shape = true.
Proof. exact normalize_valid_layout. Qed.

(* an explicit uniform size c yields blocks of size c except possibly a smaller last block *)
Theorem C16_uniform : forall sizes specs shape cs i c n,
  nth_error specs i = Some (AInt c) -> 0 < c ->
  nth_error shape i = Some n -> 0 < n ->
  normalize_chunks sizes specs shape = Ok cs ->
  nth_error cs i = Some (repeat c (Z.to_nat (n / c)) ++ (if n mod c =? 0 then [] else [n mod c])).
Proof. exact normalize_uniform. Qed.

Theorem C16_full_axis : forall sizes specs shape cs i sp n,
  nth_error specs i = Some sp -> sp = AFull \/ sp = AInt (-1) ->
  nth_error shape i = Some n ->
  normalize_chunks sizes specs shape = Ok cs ->
  nth_error cs i = Some [n].
Proof. exact normalize_full. Qed.

(* only zero-length axes carry zero-size chunks — unless the caller wrote a 0 into an
   explicit tuple ... *)
Theorem C16_zero_only_on_empty_axes : forall sizes specs shape cs,
  (forall l, In (ATuple l) specs -> ~ In 0 l) ->
  normalize_chunks sizes specs shape = Ok cs ->
  forall i n l, nth_error shape i = Some n -> 0 < n -> nth_error cs i = Some l ->
    Forall (fun c => 0 < c) l.
Proof. exact normalize_zero_only_on_empty_axes. Qed.

(* ... in which case the full-strength clause is refuted (known finding F4) *)
Theorem C16_explicit_zero_chunk_refuted :
  exists sizes specs shape cs,
    normalize_chunks sizes specs shape = Ok cs /\
    exists i n l, nth_error shape i = Some n /\ 0 < n /\ nth_error cs i = Some l /\ In 0 l.
Proof. exact normalize_explicit_zero_refuted. Qed.

(* 'auto' axes: blocks within the limit unless the fixed axes alone exceed it *)
Theorem C16_auto_limit : forall limit itemsize sizes specs shape cs,
  0 < itemsize -> 0 <= limit ->
  normalize_chunks sizes specs shape = Ok cs ->
  count_autos (subst_all specs shape) <> 0 ->
  oracles_sound limit itemsize (S (length (subst_all specs shape))) sizes (subst_all specs shape) shape ->
  exists num den specsL,
    auto_last (S (length (subst_all specs shape))) sizes (subst_all specs shape) shape = Some (num, den, specsL) /\
    (itemsize * max_block cs <= limit \/
     (num / den < 1 /\ existsb (fun b => b) (small_flags num den specsL shape) = false)) /\
    itemsize * max_block cs <= Z.max limit (itemsize * largest_fixed specsL).
Proof. exact normalize_auto_limit_all_levels. Qed.

(* the model's fuel / oracle exhaustion error is unreachable with one oracle value per auto axis *)
Theorem C16_auto_fuel_adequate : forall sizes specs shape,
  length specs = length shape ->
  count_autos specs <= Z.of_nat (length sizes) ->
  exists specs', auto_chunks (S (length specs)) sizes specs shape = Ok specs'.
Proof. exact auto_chunks_fuel_adequate. Qed.

Example C16_ex_two_level_auto :
  normalize_chunks [(2236,100);(500,3)] [AAuto; AAuto; AInt 2] [3; 1000; 10]
  = Ok [[3]; repeat 166 6 ++ [4]; [2;2;2;2;2]].
Proof. vm_compute. reflexivity. Qed.

Example C16_ex_negative_rejected : normalize_chunks [] [AInt (-3)] [10] = Err EValue.
Proof. vm_compute. reflexivity. Qed.

Print Assumptions C16_valid_layout.
Print Assumptions C16_uniform.
Print Assumptions C16_full_axis.
Print Assumptions C16_zero_only_on_empty_axes.
Print Assumptions C16_explicit_zero_chunk_refuted.
Print Assumptions C16_auto_limit.
Print Assumptions C16_auto_fuel_adequate.
