(* C27 — Transfer estimates are well-formed.
   "For every node of every (raw or optimized) expression, the transfer estimate is a
    (min, max) pair with 0 <= min <= max, or NaN only when chunk sizes are unknown; a rechunk
    to the same chunks and a pure alias move nothing.  The moved fraction between two layouts
    of an axis lies in [0, 1], is 0 for pure splits and identical layouts."
   Statements only; proofs in theories/TransferFacts.v and theories/UnifyFacts.v.
   Models: theories/Transfer.v and theories/Transfer2.v (transfer_bytes overrides, exact integers /
   rationals; Transfer2.v: OverlapInternal, Stack, CumReduction, CumReductionBlelloch, Shuffle,
   SlidingWindowReduction, MovingWindowReduction; proofs in theories/Transfer2Facts.v and
   theories/Transfer2WindowFacts.v) and theories/Unify.v (moved_fraction).  Chunk sizes are known integers in the models; the NaN
   clause is checked by the harness on real nodes.
     nonneg_layout l  :=  every chunk of l is >= 0
     axis_ok old new  :=  nonneg_layout old /\ nonneg_layout new /\ zsum old = zsum new
                          (what _validate_rechunk establishes for every caller)
     refines_b fine coarse = true  :=  rechunking coarse -> fine only SPLITS blocks
     pos_layout l     :=  every chunk of l is > 0
     wellformed (lo, hi)  :=  0 <= lo /\ lo <= hi
     depth_ok (before, after)  :=  0 <= before /\ 0 <= after *)
From DA Require Import PyBase Slicing Unify UnifyFacts Transfer TransferFacts Transfer2 Transfer2Facts Transfer2WindowFacts.
Open Scope Z_scope.

(* ---- moved_fraction (n, m) = n / m ------------------------------------------------ *)
Theorem C27_moved_fraction_range :
  forall src dst n m, nonneg_layout dst -> moved_fraction src dst = (n, m) ->
  0 <= n /\ n <= m /\ (0 < m \/ (n = 0 /\ m = 1)).
Proof. exact moved_fraction_range. Qed.

Theorem C27_moved_fraction_zero_same :
  forall s, moved_fraction s s = (0, 1).
Proof. exact moved_fraction_same. Qed.

Theorem C27_moved_fraction_zero_split :
  forall src dst, nonneg_layout src -> nonneg_layout dst -> refines_b dst src = true ->
  fst (moved_fraction src dst) = 0.
Proof. exact moved_fraction_split_free_nonneg. Qed.

(* moved_fraction is the same min-model as _rechunk_stage_transfer: moved = t_ax - l_ax *)
Theorem C27_moved_fraction_is_stage_min :
  forall src dst t l r u s,
  zsum dst = zsum src -> zsum src <> 0 -> src <> dst ->
  stage_axis src dst = Some (t, l, r, u, s) ->
  moved_fraction src dst = (t - l, t).
Proof. exact moved_fraction_is_stage_min. Qed.

(* ---- _rechunk_stage_transfer ------------------------------------------------------- *)
(* one axis of the two-pointer loop: 0 <= s_ax <= l_ax <= t_ax = sum(old) and 0 <= u_ax <= r_ax
   (these are exactly the inequalities that make min >= 0 and max - min =
    itemsize * ((reads - uncut) + (largest - single)) >= 0 in the product) *)
Theorem C27_stage_axis_bounds :
  forall old new t l r u s,
  nonneg_layout old -> nonneg_layout new -> zsum old = zsum new ->
  stage_axis old new = Some (t, l, r, u, s) ->
  t = zsum old /\ 0 <= s /\ s <= l /\ l <= t /\ 0 <= u /\ u <= r.
Proof. exact stage_axis_bounds. Qed.

(* the N-D combination: 0 <= min <= max *)
Theorem C27_stage_wellformed :
  forall olds news itemsize lo hi,
  0 <= itemsize -> Forall2 axis_ok olds news ->
  rechunk_stage_transfer olds news itemsize = Some (lo, hi) ->
  0 <= lo /\ lo <= hi.
Proof. exact stage_wellformed. Qed.

(* it never fails (IndexError) when every axis has at least one block *)
Theorem C27_stage_total :
  forall olds news itemsize,
  Forall (fun o => o <> []) olds -> exists p, rechunk_stage_transfer olds news itemsize = Some p.
Proof. exact stage_total. Qed.

(* a rechunk to the same chunks moves nothing (zero-size chunks allowed) *)
Theorem C27_rechunk_same_zero :
  forall olds itemsize,
  Forall nonneg_layout olds -> rechunk_stage_transfer olds olds itemsize = Some (0, 0).
Proof. exact rechunk_same_zero. Qed.

(* Rechunk.transfer_bytes = sum over the stages of ANY plan that keeps the axis lengths *)
Theorem C27_rechunk_wellformed :
  forall old steps itemsize lo hi,
  0 <= itemsize -> chain_ok old steps ->
  rechunk_transfer old steps itemsize 0 0 = Some (lo, hi) ->
  0 <= lo /\ lo <= hi.
Proof. exact rechunk_transfer_wellformed. Qed.

(* P2PRechunk.transfer_bytes = (stage min, array.nbytes) *)
Theorem C27_p2p_wellformed :
  forall olds news itemsize lo hi,
  0 <= itemsize -> Forall2 axis_ok olds news ->
  p2p_transfer olds news itemsize = Some (lo, hi) ->
  0 <= lo /\ lo <= hi.
Proof. exact p2p_wellformed. Qed.

(* "a rechunk to the same chunks moves nothing" for P2PRechunk: min is 0 ... *)
Theorem C27_p2p_same_min_zero :
  forall olds itemsize, Forall nonneg_layout olds ->
  p2p_transfer olds olds itemsize = Some (0, zprod (map zsum olds) * itemsize).
Proof. exact p2p_same. Qed.

(* ... but max is the whole array: the clause is FALSE for P2PRechunk (finding; replayed on
   P2PRechunk(da.from_array(np.arange(10), chunks=5).expr, ((5, 5),)).transfer_bytes == (0.0, 80)) *)
Theorem C27_p2p_same_moves_refuted :
  exists olds itemsize, Forall nonneg_layout olds /\ 0 <= itemsize /\
    p2p_transfer olds olds itemsize = Some (0, 80).
Proof. exists [[5; 5]], 8. repeat split; try (vm_compute; reflexivity); try lia. repeat constructor; lia. Qed.

(* ---- SliceSlicesIntegers: aliased <= reads per axis and in the product ---------------- *)
Theorem C27_slice_axis_alias_le_reads :
  forall lengths plan, nonneg_layout lengths ->
  0 <= alias_ax lengths plan /\ alias_ax lengths plan <= reads_ax lengths plan.
Proof. exact alias_le_reads. Qed.

Theorem C27_slice_wellformed :
  forall shape chunks index allow itemsize,
  0 <= itemsize -> Forall nonneg_layout chunks ->
  0 <= fst (slice_transfer shape chunks index allow itemsize) /\
  fst (slice_transfer shape chunks index allow itemsize) <= snd (slice_transfer shape chunks index allow itemsize).
Proof. exact slice_wellformed. Qed.

(* ---- PartialReduce ----------------------------------------------------------------- *)
Theorem C27_partial_reduce_wellformed :
  forall splits chunks itemsize lo hi,
  0 <= itemsize -> length splits = length chunks -> Forall nonneg_layout chunks ->
  partial_reduce_transfer splits chunks itemsize = Some (lo, hi) ->
  0 <= lo /\ lo <= hi.
Proof. exact partial_reduce_wellformed. Qed.

(* ---- Blockwise (min is the exact rational fst lo / snd lo) --------------------------- *)
Theorem C27_blockwise_wellformed :
  forall out_ind out_nb args lo hi,
  Forall (fun a => let '(_, _, nb, nbytes) := a in 0 <= nbytes /\ Forall (fun n => 1 <= n) nb) args ->
  blockwise_transfer out_ind out_nb args = (lo, hi) ->
  0 < snd lo /\ 0 <= fst lo /\ fst lo <= hi * snd lo.
Proof.
  intros out_ind out_nb args lo hi HF H.
  destruct (blockwise_wellformed out_ind out_nb args lo hi HF H) as (A & _ & B & C).
  unfold qle in C. cbn [fst snd] in C. repeat split; lia.
Qed.

(* ---- the ArrayExpr default (min = fst lo / snd lo, max = fst hi / snd hi) ------------- *)
Theorem C27_default_wellformed :
  forall out_blocks deps lo hi,
  0 <= out_blocks -> Forall (fun d => let '(_, _, nbytes) := d in 0 <= nbytes) deps ->
  default_transfer out_blocks deps = (lo, hi) ->
  0 < snd lo /\ 0 < snd hi /\ 0 <= fst lo /\ fst lo * snd hi <= fst hi * snd lo.
Proof. exact default_wellformed. Qed.

(* ---- alias nodes (ChunksOverride / ChunksFreeze / RootAlias / Concatenate) and leaves -- *)
Theorem C27_alias_zero : alias_transfer = (0, 0).
Proof. exact alias_zero. Qed.

Theorem C27_leaf_zero : forall out_blocks, default_transfer out_blocks [] = ((0, 1), (0, 1)).
Proof. exact default_leaf_zero. Qed.

(* ====================================================================================== *)
(* The overrides of Transfer2.v.  `chunks` is x.chunks of the node's input (one layout per axis),
   `axis` the position of the axis the node works along, itemsize = x.dtype.itemsize. *)

(* the float quotient x.nbytes / n of Shuffle / CumReduction / CumReductionBlelloch is exact: it is
   the byte size of one hyperplane along the axis (so the model's integer division loses nothing) *)
Theorem C27_row_bytes_exact :
  forall chunks axis itemsize,
  (axis < length chunks)%nat -> zsum (nth axis chunks []) <> 0 ->
  nbytes_of chunks itemsize / zsum (nth axis chunks []) = cross_section chunks axis itemsize.
Proof. exact row_bytes_exact. Qed.

(* ---- OverlapInternal (halo exchange); depths = one (before, after) per axis ----------- *)
Theorem C27_overlap_wellformed :
  forall chunks depths itemsize,
  0 <= itemsize -> Forall nonneg_layout chunks -> Forall depth_ok depths ->
  wellformed (overlap_transfer chunks depths itemsize).
Proof. exact overlap_wellformed. Qed.

(* zero where nothing moves: every axis has a single block or depth 0 -> min = 0 (max = x.nbytes:
   the blocks themselves are fetched) *)
Theorem C27_overlap_no_exchange_zero :
  forall chunks depths itemsize,
  Forall no_exchange (combine chunks depths) ->
  overlap_transfer chunks depths itemsize = (0, nbytes_of chunks itemsize).
Proof. exact overlap_no_exchange_zero. Qed.

(* what min is: (before + after) hyperplanes per internal block boundary *)
Theorem C27_overlap_one_axis :
  forall chunks before after itemsize,
  (2 <= length chunks)%nat -> (before, after) <> (0, 0) ->
  fst (overlap_transfer [chunks] [(before, after)] itemsize) =
  (before + after) * (Z.of_nat (length chunks) - 1) * itemsize.
Proof. exact overlap_one_axis. Qed.

(* ---- Stack ---------------------------------------------------------------------------- *)
Theorem C27_stack_wellformed :
  forall nbytes, Forall (fun b => 0 <= b) nbytes ->
  wellformed (stack_transfer nbytes) /\ fst (stack_transfer nbytes) = 0.
Proof. intros nbytes H. split; [exact (stack_wellformed nbytes H) | exact (stack_min_zero nbytes)]. Qed.

(* ---- CumReduction (min = lo, max = the exact rational hn / hd) -------------------------- *)
Theorem C27_cum_wellformed :
  forall chunks axis itemsize lo hn hd,
  0 <= itemsize -> Forall nonneg_layout chunks ->
  cum_transfer chunks axis itemsize = Some (lo, (hn, hd)) ->
  0 < hd /\ 0 <= lo /\ lo * hd <= hn.
Proof. exact cum_wellformed. Qed.

(* no ZeroDivisionError when the axis has at least one block *)
Theorem C27_cum_total :
  forall chunks axis itemsize,
  nth axis chunks [] <> [] -> exists r, cum_transfer chunks axis itemsize = Some r.
Proof. exact cum_total. Qed.

(* zero where nothing moves: a single block along the axis carries nothing *)
Theorem C27_cum_single_block :
  forall chunks axis itemsize,
  length (nth axis chunks []) = 1%nat ->
  cum_transfer chunks axis itemsize = Some (0, (nbytes_of chunks itemsize, 1)).
Proof. exact cum_single_block. Qed.

(* the carried state: h * (k - 1) hyperplanes (h = 1 sequential, 3 Blelloch) *)
Theorem C27_cum_carry_hyperplanes :
  forall h chunks axis itemsize,
  (axis < length chunks)%nat ->
  cum_carry h chunks axis itemsize =
  if zsum (nth axis chunks []) =? 0 then 0
  else h * (Z.of_nat (length (nth axis chunks [])) - 1) * cross_section chunks axis itemsize.
Proof. exact cum_carry_hyperplanes. Qed.

(* ---- CumReductionBlelloch ---------------------------------------------------------------- *)
Theorem C27_blelloch_wellformed :
  forall chunks axis itemsize,
  0 <= itemsize -> Forall nonneg_layout chunks ->
  wellformed (blelloch_transfer chunks axis itemsize).
Proof. exact blelloch_wellformed. Qed.

Theorem C27_blelloch_single_block :
  forall chunks axis itemsize,
  length (nth axis chunks []) = 1%nat ->
  blelloch_transfer chunks axis itemsize = (0, 2 * nbytes_of chunks itemsize).
Proof. exact blelloch_single_block. Qed.

(* ---- Shuffle: for EVERY grouping new_chunks of ANY index lists (not only what _new_chunks
   builds; duplicates and out-of-range indices included) --------------------------------- *)
Theorem C27_shuffle_wellformed :
  forall chunks axis itemsize new_chunks,
  0 <= itemsize -> Forall nonneg_layout chunks ->
  wellformed (shuffle_transfer chunks axis itemsize new_chunks).
Proof. exact shuffle_wellformed. Qed.

(* zero where nothing moves: every output chunk is drawn from ONE source block -> min = 0 *)
Theorem C27_shuffle_one_source_min_zero :
  forall chunks axis itemsize new_chunks,
  Forall (one_source (cumsum (nth axis chunks []))) new_chunks ->
  fst (shuffle_transfer chunks axis itemsize new_chunks) = 0.
Proof. exact shuffle_one_source_min_zero. Qed.

Theorem C27_shuffle_empty_axis :
  forall chunks axis itemsize new_chunks,
  zsum (nth axis chunks []) = 0 -> shuffle_transfer chunks axis itemsize new_chunks = (0, 0).
Proof. exact shuffle_empty_axis. Qed.

(* ---- MovingWindowReduction (trailing window): positive chunks along the sliding axis, window >= 1
   (supports_native_moving_window establishes positive chunks and window >= 2) ---------------- *)
Theorem C27_moving_wellformed :
  forall chunks axis itemsize window,
  0 <= itemsize -> Forall nonneg_layout chunks -> pos_layout (nth axis chunks []) -> 1 <= window ->
  wellformed (moving_transfer chunks axis itemsize window).
Proof. exact moving_wellformed. Qed.

(* zero where nothing moves: a single block *)
Theorem C27_moving_single_block :
  forall chunks axis itemsize window c,
  nth axis chunks [] = [c] ->
  moving_transfer chunks axis itemsize window = (0, c * cross_section chunks axis itemsize).
Proof. exact moving_single_block. Qed.

Theorem C27_supports_moving_two_blocks :
  forall chunks window,
  supports_moving chunks window = true -> (2 <= length chunks)%nat /\ 2 <= window.
Proof. exact supports_moving_two_blocks. Qed.

(* ---- SlidingWindowReduction: non-negative chunks (zero-size chunks allowed), window >= 1 ----- *)
Theorem C27_sliding_wellformed :
  forall chunks axis itemsize window,
  0 <= itemsize -> Forall nonneg_layout chunks -> 1 <= window ->
  wellformed (sliding_transfer chunks axis itemsize window).
Proof. exact sliding_wellformed. Qed.

(* per block (what the proof rests on): for every output-emitting row (out_len > 0) of block i
     i <= b <= e < numblocks, 0 <= band_offset, band_offset + out_len <= sum(chunks[b : e + 1]),
     chunks[i] <= window - 1 -> i < b, and starts[i] < sum(chunks) - window + 1
   (sw_row_ok / sw_rows_ok in theories/Transfer2WindowFacts.v) *)
Theorem C27_sliding_plan_rows :
  forall full window, nonneg_layout full -> 1 <= window ->
  sw_rows_ok full window 0 (sliding_plan full window).
Proof. exact sliding_plan_rows. Qed.

(* inside the constructor's guard every output-emitting block has its band strictly to the right
   (b > i): `middles = (b - i - 1) * cross` is >= 0 and the block itself is never counted
     sw_rows_right i ((out_len, _, b, _) :: rows) := (out_len <= 0 \/ i < b) /\ sw_rows_right (i + 1) rows *)
Theorem C27_sliding_guard_band_right :
  forall full window,
  supports_sliding full window = true -> sw_rows_right 0 (sliding_plan full window).
Proof. exact sliding_guard_band_right. Qed.

Theorem C27_sliding_window_too_long :
  forall chunks axis itemsize window,
  zsum (nth axis chunks []) < window -> sliding_transfer chunks axis itemsize window = (0, 0).
Proof. exact sliding_window_too_long. Qed.

(* the constructor's guard supports_native_sliding_window accepts only layouts with >= 2 blocks ... *)
Theorem C27_supports_sliding_two_blocks :
  forall chunks window,
  supports_sliding chunks window = true -> (2 <= length chunks)%nat /\ 2 <= window.
Proof. exact supports_sliding_two_blocks. Qed.

(* ... and outside it the clause "a single block moves nothing" is FALSE of the faithful model:
   with one block the band is the block itself (b = e = i), `middles = (b - i - 1) * cross` is
   -cross, and min = (n - 1) * cross.  Replayed:
   SlidingWindowReduction(da.zeros((5, 3), chunks=((5,), (2, 1))).expr, 2, 0, 2, False, "sum",
   np.dtype("f8")).transfer_bytes == (96.0, 216.0).  Not reachable through the public API (the
   guard rejects single-block axes); the task layer uses range(i + 1, b), i.e. max(0, b - i - 1). *)
Theorem C27_sliding_single_block_moves_refuted :
  exists chunks axis itemsize window,
    length (nth axis chunks []) = 1%nat /\ 1 <= window <= zsum (nth axis chunks []) /\
    sliding_transfer chunks axis itemsize window = (96, 216).
Proof. exact sliding_single_block_moves. Qed.

(* ---- the hypotheses are satisfiable on non-trivial inputs, and are needed -------------- *)
Example C27_ex_stage_doc : rechunk_stage_transfer [[4; 6]] [[5; 5]] 8 = Some (8, 136).
Proof. vm_compute. reflexivity. Qed.
Example C27_ex_stage_axis : stage_axis [4; 6] [5; 5] = Some (10, 9, 16, 4, 5).
Proof. vm_compute. reflexivity. Qed.
Example C27_ex_stage_2d_zero_chunks :
  rechunk_stage_transfer [[3; 0; 0; 2]; [2; 2]] [[1; 4]; [4]] 8 = Some (112, 352).
Proof. vm_compute. reflexivity. Qed.
Example C27_ex_axis_ok : Forall2 axis_ok [[3; 0; 0; 2]; [2; 2]] [[1; 4]; [4]].
Proof. repeat constructor; lia. Qed.
Example C27_ex_same_zero_chunks : rechunk_stage_transfer [[3; 0; 0; 2]; [0]] [[3; 0; 0; 2]; [0]] 8 = Some (0, 0).
Proof. vm_compute. reflexivity. Qed.
(* without equal axis lengths (never passed by a caller) the estimate is ill-formed *)
Example C27_ex_equal_sums_needed : rechunk_stage_transfer [[1]] [[5]] 8 = Some (0, -32).
Proof. vm_compute. reflexivity. Qed.
Example C27_ex_rechunk_two_stages :
  rechunk_transfer [[4; 6]] [[[5; 5]]; [[10]]] 8 0 0 = Some (48, 216).
Proof. vm_compute. reflexivity. Qed.
Example C27_ex_p2p : p2p_transfer [[4; 6]; [2]] [[5; 5]; [1; 1]] 8 = Some (16, 160).
Proof. vm_compute. reflexivity. Qed.
Example C27_ex_slice :
  slice_transfer [100] [[20; 20; 20; 20; 20]] [ISlice (mkslice (Some 0) (Some 35) None)] true 8 = (0, 160).
Proof. vm_compute. reflexivity. Qed.
Example C27_ex_slice_noalias :
  slice_transfer [100] [[20; 20; 20; 20; 20]] [ISlice (mkslice (Some 0) (Some 35) None)] false 8 = (0, 320).
Proof. vm_compute. reflexivity. Qed.
Example C27_ex_partial_reduce :
  partial_reduce_transfer [Some 2; None] [[3; 3; 3; 1]; [2; 2]] 8 = Some (128, 320).
Proof. vm_compute. reflexivity. Qed.
(* x (2x2 blocks, index ij) + y (1 block along j only, index j): y is broadcast to 4 output blocks *)
Example C27_ex_blockwise :
  blockwise_transfer [0; 1] [2; 2] [(7, [0; 1], [2; 2], 128); (8, [1], [1], 32)] = ((96, 1), 256).
Proof. vm_compute. reflexivity. Qed.
(* contraction: 3 blocks gathered into 1: min = nbytes * (1 - 1/3) *)
Example C27_ex_blockwise_gather :
  blockwise_transfer [0] [1] [(7, [0; 1], [1; 3], 90)] = ((180, 3), 90).
Proof. vm_compute. reflexivity. Qed.
Example C27_ex_default : default_transfer 1 [(7, 4, 80)] = ((240, 4), (80, 1)).
Proof. vm_compute. reflexivity. Qed.
Example C27_ex_moved_fraction : moved_fraction [4; 6] [5; 5] = (1, 10).
Proof. vm_compute. reflexivity. Qed.
Example C27_ex_split : refines_b [2; 2; 6] [4; 6] = true /\ moved_fraction [4; 6] [2; 2; 6] = (0, 10).
Proof. vm_compute. split; reflexivity. Qed.

(* Transfer2.v *)
Example C27_ex_overlap : overlap_transfer [[2; 1; 3; 1]; [2; 1]] [(1, 2); (1, 1)] 8 = (328, 928).
Proof. vm_compute. reflexivity. Qed.
Example C27_ex_overlap_single_blocks :
  Forall no_exchange (combine [[7]; [2; 1]] [(1, 2); (0, 0)]) /\ overlap_transfer [[7]; [2; 1]] [(1, 2); (0, 0)] 8 = (0, 168).
Proof. split; [repeat constructor; cbn; (lia || tauto) | vm_compute; reflexivity]. Qed.
Example C27_ex_stack : stack_transfer [168; 168; 84] = (0, 420).
Proof. vm_compute. reflexivity. Qed.
(* CumReduction over 4 blocks: min = 3 hyperplanes = 72, max = 2256 / 4 = 564 *)
Example C27_ex_cum : cum_transfer [[2; 1; 3; 1]; [2; 1]] 0 8 = Some (72, (2256, 4)).
Proof. vm_compute. reflexivity. Qed.
Example C27_ex_blelloch : blelloch_transfer [[2; 1; 3; 1]; [2; 1]] 0 8 = (216, 552).
Proof. vm_compute. reflexivity. Qed.
Example C27_ex_shuffle_new_chunks : shuffle_new_chunks 3 [[6; 5; 2]; [4; 1]; [3; 0]; [2; 2; 2; 2; 0; 1; 6]]
  = Some [[6; 5; 2]; [4; 1]; [3; 0]; [2; 2; 2]; [2; 0; 1]; [6]].
Proof. vm_compute. reflexivity. Qed.
Example C27_ex_shuffle : shuffle_transfer [[2; 1; 3; 1]; [2; 1]] 0 8 [[6; 5; 2]; [4; 1]; [3; 0]] = (96, 528).
Proof. vm_compute. reflexivity. Qed.
Example C27_ex_shuffle_one_source :
  Forall (one_source (cumsum [2; 1; 3; 1])) [[1; 0; 0]; [5; 3]] /\ shuffle_transfer [[2; 1; 3; 1]; [2; 1]] 0 8 [[1; 0; 0]; [5; 3]] = (0, 120).
Proof. split; [repeat constructor; [exists 0 | exists 2]; repeat constructor | vm_compute; reflexivity]. Qed.
Example C27_ex_sliding_plan : sliding_plan [2; 1; 3; 1] 3 = [(2, 0, 1, 2); (1, 1, 2, 2); (2, 2, 2, 3); (0, 0, 3, 3)].
Proof. vm_compute. reflexivity. Qed.
Example C27_ex_sliding : sliding_transfer [[2; 1; 3; 1]; [2; 1]] 0 8 3 = (168, 384).
Proof. vm_compute. reflexivity. Qed.
Example C27_ex_supports_sliding : supports_sliding [2; 1; 2; 1] 3 = true /\ supports_sliding [2; 1; 3; 1] 3 = false /\ supports_sliding [5] 2 = false.
Proof. vm_compute. repeat split; reflexivity. Qed.
Example C27_ex_moving_plan : moving_plan [2; 1; 3; 1] 3 = [(0, 2, 0, None, 0); (2, 1, 0, Some (0, 0), 0); (3, 3, 1, Some (0, 2), 0); (6, 1, 1, Some (2, 2), 0)].
Proof. vm_compute. reflexivity. Qed.
Example C27_ex_moving : moving_transfer [[2; 1; 3; 1]; [2; 1]] 0 8 3 = (216, 432).
Proof. vm_compute. reflexivity. Qed.
(* many size-1 blocks under a long window: 9 fully covered middle blocks for the last block *)
Example C27_ex_moving_middles : nth 11 (moving_plan [1; 1; 1; 1; 1; 1; 1; 1; 1; 1; 1; 1] 11) (0, 0, 0, None, 0) = (11, 1, 0, Some (1, 1), 9).
Proof. vm_compute. reflexivity. Qed.
Example C27_ex_supports_moving : supports_moving [2; 1; 2; 1] 3 = true /\ supports_moving [2; 1; 3; 1] 3 = false.
Proof. vm_compute. split; reflexivity. Qed.
(* the hypothesis is needed: a negative depth is ill-formed (window < 1 is outside the model: the real
   code then indexes starts[-1]) *)
Example C27_ex_overlap_negative_depth : overlap_transfer [[2; 2]] [(-1, 0)] 8 = (-8, 40).
Proof. vm_compute. reflexivity. Qed.

Print Assumptions C27_moved_fraction_range.
Print Assumptions C27_moved_fraction_zero_same.
Print Assumptions C27_moved_fraction_zero_split.
Print Assumptions C27_moved_fraction_is_stage_min.
Print Assumptions C27_stage_axis_bounds.
Print Assumptions C27_stage_wellformed.
Print Assumptions C27_stage_total.
Print Assumptions C27_rechunk_same_zero.
Print Assumptions C27_rechunk_wellformed.
Print Assumptions C27_p2p_wellformed.
Print Assumptions C27_p2p_same_min_zero.
Print Assumptions C27_p2p_same_moves_refuted.
Print Assumptions C27_slice_axis_alias_le_reads.
Print Assumptions C27_slice_wellformed.
Print Assumptions C27_partial_reduce_wellformed.
Print Assumptions C27_blockwise_wellformed.
Print Assumptions C27_default_wellformed.
Print Assumptions C27_alias_zero.
Print Assumptions C27_leaf_zero.
Print Assumptions C27_row_bytes_exact.
Print Assumptions C27_overlap_wellformed.
Print Assumptions C27_overlap_no_exchange_zero.
Print Assumptions C27_overlap_one_axis.
Print Assumptions C27_stack_wellformed.
Print Assumptions C27_cum_wellformed.
Print Assumptions C27_cum_total.
Print Assumptions C27_cum_single_block.
Print Assumptions C27_cum_carry_hyperplanes.
Print Assumptions C27_blelloch_wellformed.
Print Assumptions C27_blelloch_single_block.
Print Assumptions C27_shuffle_wellformed.
Print Assumptions C27_shuffle_one_source_min_zero.
Print Assumptions C27_shuffle_empty_axis.
Print Assumptions C27_moving_wellformed.
Print Assumptions C27_moving_single_block.
Print Assumptions C27_supports_moving_two_blocks.
Print Assumptions C27_sliding_wellformed.
Print Assumptions C27_sliding_plan_rows.
Print Assumptions C27_sliding_guard_band_right.
Print Assumptions C27_sliding_window_too_long.
Print Assumptions C27_supports_sliding_two_blocks.
Print Assumptions C27_sliding_single_block_moves_refuted.
