(* C27 — Transfer estimates are well-formed.
   "For every node of every (raw or optimized) expression, the transfer estimate is a
    (min, max) pair with 0 <= min <= max, or NaN only when chunk sizes are unknown; a rechunk
    to the same chunks and a pure alias move nothing.  The moved fraction between two layouts
    of an axis lies in [0, 1], is 0 for pure splits and identical layouts."
   Statements only; proofs in theories/TransferFacts.v and theories/UnifyFacts.v.
   Models: theories/Transfer.v (transfer_bytes overrides, exact integers / rationals) and
   theories/Unify.v (moved_fraction).  Chunk sizes are known integers in the models; the NaN
   clause is checked by the harness on real nodes.
     nonneg_layout l  :=  every chunk of l is >= 0
     axis_ok old new  :=  nonneg_layout old /\ nonneg_layout new /\ zsum old = zsum new
                          (what _validate_rechunk establishes for every caller)
     refines_b fine coarse = true  :=  rechunking coarse -> fine only SPLITS blocks *)
From DA Require Import PyBase Slicing Unify UnifyFacts Transfer TransferFacts.
Open Scope Z_scope.

(* ---- moved_fraction (n, m) = n / m ------------------------------------------------ *)
Theorem C27_moved_fraction_range :
  forall src dst n m, nonneg_layout dst -> moved_fraction src dst = (n, m) ->
  0 <= n /\ n <= m /\ (0 < m \/ (n = 0 /\ m = 1)).
Proof. exact moved_fraction_range. Qed.

Theorem C27_moved_fraction_zero_same :
  forall s, moved_fraction s s = (0, 1).
Proof. exact moved_fraction_same. Qed.

Theorem C27_moved_fraction_zero_split :
  forall src dst, nonneg_layout src -> nonneg_layout dst -> refines_b dst src = true ->
  fst (moved_fraction src dst) = 0.
Proof. exact moved_fraction_split_free_nonneg. Qed.

(* moved_fraction is the same min-model as _rechunk_stage_transfer: moved = t_ax - l_ax *)
Theorem C27_moved_fraction_is_stage_min :
  forall src dst t l r u s,
  zsum dst = zsum src -> zsum src <> 0 -> src <> dst ->
  stage_axis src dst = Some (t, l, r, u, s) ->
  moved_fraction src dst = (t - l, t).
Proof. exact moved_fraction_is_stage_min. Qed.

(* ---- _rechunk_stage_transfer ------------------------------------------------------- *)
(* one axis of the two-pointer loop: 0 <= s_ax <= l_ax <= t_ax = sum(old) and 0 <= u_ax <= r_ax
   (these are exactly the inequalities that make min >= 0 and max - min =
    itemsize * ((reads - uncut) + (largest - single)) >= 0 in the product) *)
Theorem C27_stage_axis_bounds :
  forall old new t l r u s,
  nonneg_layout old -> nonneg_layout new -> zsum old = zsum new ->
  stage_axis old new = Some (t, l, r, u, s) ->
  t = zsum old /\ 0 <= s /\ s <= l /\ l <= t /\ 0 <= u /\ u <= r.
Proof. exact stage_axis_bounds. Qed.

(* the N-D combination: 0 <= min <= max *)
Theorem C27_stage_wellformed :
  forall olds news itemsize lo hi,
  0 <= itemsize -> Forall2 axis_ok olds news ->
  rechunk_stage_transfer olds news itemsize = Some (lo, hi) ->
  0 <= lo /\ lo <= hi.
Proof. exact stage_wellformed. Qed.

(* it never fails (IndexError) when every axis has at least one block *)
Theorem C27_stage_total :
  forall olds news itemsize,
  Forall (fun o => o <> []) olds -> exists p, rechunk_stage_transfer olds news itemsize = Some p.
Proof. exact stage_total. Qed.

(* a rechunk to the same chunks moves nothing (zero-size chunks allowed) *)
Theorem C27_rechunk_same_zero :
  forall olds itemsize,
  Forall nonneg_layout olds -> rechunk_stage_transfer olds olds itemsize = Some (0, 0).
Proof. exact rechunk_same_zero. Qed.

(* Rechunk.transfer_bytes = sum over the stages of ANY plan that keeps the axis lengths *)
Theorem C27_rechunk_wellformed :
  forall old steps itemsize lo hi,
  0 <= itemsize -> chain_ok old steps ->
  rechunk_transfer old steps itemsize 0 0 = Some (lo, hi) ->
  0 <= lo /\ lo <= hi.
Proof. exact rechunk_transfer_wellformed. Qed.

(* P2PRechunk.transfer_bytes = (stage min, array.nbytes) *)
Theorem C27_p2p_wellformed :
  forall olds news itemsize lo hi,
  0 <= itemsize -> Forall2 axis_ok olds news ->
  p2p_transfer olds news itemsize = Some (lo, hi) ->
  0 <= lo /\ lo <= hi.
Proof. exact p2p_wellformed. Qed.

(* "a rechunk to the same chunks moves nothing" for P2PRechunk: min is 0 ... *)
Theorem C27_p2p_same_min_zero :
  forall olds itemsize, Forall nonneg_layout olds ->
  p2p_transfer olds olds itemsize = Some (0, zprod (map zsum olds) * itemsize).
Proof. exact p2p_same. Qed.

(* ... but max is the whole array: the clause is FALSE for P2PRechunk (finding; replayed on
   P2PRechunk(da.from_array(np.arange(10), chunks=5).expr, ((5, 5),)).transfer_bytes == (0.0, 80)) *)
Theorem C27_p2p_same_moves_refuted :
  exists olds itemsize, Forall nonneg_layout olds /\ 0 <= itemsize /\
    p2p_transfer olds olds itemsize = Some (0, 80).
Proof. exists [[5; 5]], 8. repeat split; try (vm_compute; reflexivity); try lia. repeat constructor; lia. Qed.

(* ---- SliceSlicesIntegers: aliased <= reads per axis and in the product ---------------- *)
Theorem C27_slice_axis_alias_le_reads :
  forall lengths plan, nonneg_layout lengths ->
  0 <= alias_ax lengths plan /\ alias_ax lengths plan <= reads_ax lengths plan.
Proof. exact alias_le_reads. Qed.

Theorem C27_slice_wellformed :
  forall shape chunks index allow itemsize,
  0 <= itemsize -> Forall nonneg_layout chunks ->
  0 <= fst (slice_transfer shape chunks index allow itemsize) /\
  fst (slice_transfer shape chunks index allow itemsize) <= snd (slice_transfer shape chunks index allow itemsize).
Proof. exact slice_wellformed. Qed.

(* ---- PartialReduce ----------------------------------------------------------------- *)
Theorem C27_partial_reduce_wellformed :
  forall splits chunks itemsize lo hi,
  0 <= itemsize -> length splits = length chunks -> Forall nonneg_layout chunks ->
  partial_reduce_transfer splits chunks itemsize = Some (lo, hi) ->
  0 <= lo /\ lo <= hi.
Proof. exact partial_reduce_wellformed. Qed.

(* ---- Blockwise (min is the exact rational fst lo / snd lo) --------------------------- *)
Theorem C27_blockwise_wellformed :
  forall out_ind out_nb args lo hi,
  Forall (fun a => let '(_, _, nb, nbytes) := a in 0 <= nbytes /\ Forall (fun n => 1 <= n) nb) args ->
  blockwise_transfer out_ind out_nb args = (lo, hi) ->
  0 < snd lo /\ 0 <= fst lo /\ fst lo <= hi * snd lo.
Proof.
  intros out_ind out_nb args lo hi HF H.
  destruct (blockwise_wellformed out_ind out_nb args lo hi HF H) as (A & _ & B & C).
  unfold qle in C. cbn [fst snd] in C. repeat split; lia.
Qed.

(* ---- the ArrayExpr default (min = fst lo / snd lo, max = fst hi / snd hi) ------------- *)
Theorem C27_default_wellformed :
  forall out_blocks deps lo hi,
  0 <= out_blocks -> Forall (fun d => let '(_, _, nbytes) := d in 0 <= nbytes) deps ->
  default_transfer out_blocks deps = (lo, hi) ->
  0 < snd lo /\ 0 < snd hi /\ 0 <= fst lo /\ fst lo * snd hi <= fst hi * snd lo.
Proof. exact default_wellformed. Qed.

(* ---- alias nodes (ChunksOverride / ChunksFreeze / RootAlias / Concatenate) and leaves -- *)
Theorem C27_alias_zero : alias_transfer = (0, 0).
Proof. exact alias_zero. Qed.

Theorem C27_leaf_zero : forall out_blocks, default_transfer out_blocks [] = ((0, 1), (0, 1)).
Proof. exact default_leaf_zero. Qed.

(* ---- the hypotheses are satisfiable on non-trivial inputs, and are needed -------------- *)
Example C27_ex_stage_doc : rechunk_stage_transfer [[4; 6]] [[5; 5]] 8 = Some (8, 136).
Proof. vm_compute. reflexivity. Qed.
Example C27_ex_stage_axis : stage_axis [4; 6] [5; 5] = Some (10, 9, 16, 4, 5).
Proof. vm_compute. reflexivity. Qed.
Example C27_ex_stage_2d_zero_chunks :
  rechunk_stage_transfer [[3; 0; 0; 2]; [2; 2]] [[1; 4]; [4]] 8 = Some (112, 352).
Proof. vm_compute. reflexivity. Qed.
Example C27_ex_axis_ok : Forall2 axis_ok [[3; 0; 0; 2]; [2; 2]] [[1; 4]; [4]].
Proof. repeat constructor; lia. Qed.
Example C27_ex_same_zero_chunks : rechunk_stage_transfer [[3; 0; 0; 2]; [0]] [[3; 0; 0; 2]; [0]] 8 = Some (0, 0).
Proof. vm_compute. reflexivity. Qed.
(* without equal axis lengths (never passed by a caller) the estimate is ill-formed *)
Example C27_ex_equal_sums_needed : rechunk_stage_transfer [[1]] [[5]] 8 = Some (0, -32).
Proof. vm_compute. reflexivity. Qed.
Example C27_ex_rechunk_two_stages :
  rechunk_transfer [[4; 6]] [[[5; 5]]; [[10]]] 8 0 0 = Some (48, 216).
Proof. vm_compute. reflexivity. Qed.
Example C27_ex_p2p : p2p_transfer [[4; 6]; [2]] [[5; 5]; [1; 1]] 8 = Some (16, 160).
Proof. vm_compute. reflexivity. Qed.
Example C27_ex_slice :
  slice_transfer [100] [[20; 20; 20; 20; 20]] [ISlice (mkslice (Some 0) (Some 35) None)] true 8 = (0, 160).
Proof. vm_compute. reflexivity. Qed.
Example C27_ex_slice_noalias :
  slice_transfer [100] [[20; 20; 20; 20; 20]] [ISlice (mkslice (Some 0) (Some 35) None)] false 8 = (0, 320).
Proof. vm_compute. reflexivity. Qed.
Example C27_ex_partial_reduce :
  partial_reduce_transfer [Some 2; None] [[3; 3; 3; 1]; [2; 2]] 8 = Some (128, 320).
Proof. vm_compute. reflexivity. Qed.
(* x (2x2 blocks, index ij) + y (1 block along j only, index j): y is broadcast to 4 output blocks *)
Example C27_ex_blockwise :
  blockwise_transfer [0; 1] [2; 2] [(7, [0; 1], [2; 2], 128); (8, [1], [1], 32)] = ((96, 1), 256).
Proof. vm_compute. reflexivity. Qed.
(* contraction: 3 blocks gathered into 1: min = nbytes * (1 - 1/3) *)
Example C27_ex_blockwise_gather :
  blockwise_transfer [0] [1] [(7, [0; 1], [1; 3], 90)] = ((180, 3), 90).
Proof. vm_compute. reflexivity. Qed.
Example C27_ex_default : default_transfer 1 [(7, 4, 80)] = ((240, 4), (80, 1)).
Proof. vm_compute. reflexivity. Qed.
Example C27_ex_moved_fraction : moved_fraction [4; 6] [5; 5] = (1, 10).
Proof. vm_compute. reflexivity. Qed.
Example C27_ex_split : refines_b [2; 2; 6] [4; 6] = true /\ moved_fraction [4; 6] [2; 2; 6] = (0, 10).
Proof. vm_compute. split; reflexivity. Qed.

Print Assumptions C27_moved_fraction_range.
Print Assumptions C27_moved_fraction_zero_same.
Print Assumptions C27_moved_fraction_zero_split.
Print Assumptions C27_moved_fraction_is_stage_min.
Print Assumptions C27_stage_axis_bounds.
Print Assumptions C27_stage_wellformed.
Print Assumptions C27_stage_total.
Print Assumptions C27_rechunk_same_zero.
Print Assumptions C27_rechunk_wellformed.
Print Assumptions C27_p2p_wellformed.
Print Assumptions C27_p2p_same_min_zero.
Print Assumptions C27_p2p_same_moves_refuted.
Print Assumptions C27_slice_axis_alias_le_reads.
Print Assumptions C27_slice_wellformed.
Print Assumptions C27_partial_reduce_wellformed.
Print Assumptions C27_blockwise_wellformed.
Print Assumptions C27_default_wellformed.
Print Assumptions C27_alias_zero.
Print Assumptions C27_leaf_zero.
