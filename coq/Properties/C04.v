(* C04 — "For every array, `__dask_keys__()` is the grid of `(name, *block_index)` keys over the
   advertised block structure with `name` equal to the collection's name, and the graph from
   `__dask_graph__()` defines every one of those keys.  The graph defines every key any task
   depends on and contains no dependency cycle.  The collection's name never changes because
   of optimization."

   Statements only; proofs in theories/GraphFacts.v.  The harness (harness/graphs.py) numbers
   the real keys, computes a topological order with Kahn's algorithm in Python and hands the
   order to Coq as an UNTRUSTED certificate: `graph_check_b g order outs && keys_okN_b nb idx`
   is evaluated inside Coq on every generated graph.  The theorems below say what an accepted
   case is guaranteed to satisfy, for graphs of any size.  (The name clauses compare Python
   strings and are checked by the harness only.) *)
From Coq Require Import List Bool Arith PArith NArith Relations.
From DA Require Import Graph GraphFacts.
Import ListNotations.

(* the certificate checker is sound: an accepted graph is closed (defines every key any task
   depends on), has no duplicate keys and no dependency cycle *)
Theorem C04_checker_sound :
  forall g order, topo_check_b g order = true ->
  closed g /\ NoDup (keys g) /\ acyclic g.
Proof. exact topo_check_sound. Qed.

(* the full check used by the harness additionally guarantees that the certificate is a
   topological order and that every requested output key is defined by the graph *)
Theorem C04_graph_check_sound :
  forall g order outs, graph_check_b g order outs = true ->
  NoDup (keys g) /\ topological g order /\ (forall k, In k outs -> defined g k).
Proof. exact graph_check_sound. Qed.

(* a topological order is a witness of closedness and acyclicity ... *)
Theorem C04_topological_closed_acyclic :
  forall g o, topological g o -> closed g /\ acyclic g.
Proof. exact topological_closed_acyclic. Qed.

(* ... equivalently there is a rank that strictly decreases along every dependency edge *)
Theorem C04_checker_ranked :
  forall g order, topo_check_b g order = true ->
  exists rank : key -> nat, forall k d, edge g k d -> rank d < rank k.
Proof. exact topo_check_ranked. Qed.

Theorem C04_ranked_acyclic : forall g, ranked g -> acyclic g.
Proof. exact ranked_acyclic. Qed.

(* the checker is complete: it rejects no genuine certificate (so a rejection by the harness
   means the Python-side order is not topological, or the graph is not well formed) *)
Theorem C04_checker_complete :
  forall g order, NoDup (keys g) -> topological g order -> topo_check_b g order = true.
Proof. exact topo_check_complete. Qed.

(* self-contained variant (Kahn inside Coq, validated by the same checker) *)
Theorem C04_acyclic_b_sound :
  forall g, acyclic_b g = true -> closed g /\ NoDup (keys g) /\ acyclic g.
Proof. exact acyclic_b_sound. Qed.

(* the simple quadratic checkers decide exactly the two structural predicates *)
Theorem C04_closed_b_spec : forall g, closed_b g = true <-> closed g.
Proof. exact closed_b_spec. Qed.
Theorem C04_no_dup_keys_b_spec : forall g, no_dup_keys_b g = true <-> NoDup (keys g).
Proof. exact no_dup_keys_b_spec. Qed.

(* the advertised key grid: product-many block indices, each in bounds, none repeated *)
Theorem C04_grid_length : forall nb, length (grid nb) = fold_right Nat.mul 1 nb.
Proof. exact grid_length. Qed.
Theorem C04_grid_in_bounds : forall nb idx, In idx (grid nb) <-> Forall2 lt idx nb.
Proof. exact grid_in_bounds. Qed.
Theorem C04_grid_NoDup : forall nb, NoDup (grid nb).
Proof. exact grid_NoDup. Qed.

(* what the harness-side comparison of `__dask_keys__()` with the grid establishes *)
Theorem C04_keys_ok_spec : forall nb out, keys_ok_b nb out = true <-> out = grid nb.
Proof. exact keys_ok_b_spec. Qed.
Theorem C04_keys_ok_exactly_once :
  forall nb out, keys_ok_b nb out = true ->
  NoDup out /\ length out = fold_right Nat.mul 1 nb /\ forall idx, In idx out <-> Forall2 lt idx nb.
Proof. exact keys_ok_exactly_once. Qed.
Theorem C04_keys_okN_spec :
  forall nb out, keys_okN_b nb out = true <-> out = map (map N.of_nat) (grid (map N.to_nat nb)).
Proof. exact keys_okN_b_spec. Qed.

(* ---- Examples ---- *)
Open Scope positive_scope.

(* a 5-task diamond: 1 <- {2,3} <- 4 <- 5 *)
Definition C04_diamond : graph := [(1, []); (2, [1]); (3, [1]); (4, [2; 3]); (5, [4])].

Example C04_ex_diamond_order1 : graph_check_b C04_diamond [1; 2; 3; 4; 5] [5] = true.
Proof. vm_compute. reflexivity. Qed.
Example C04_ex_diamond_order2 : graph_check_b C04_diamond [1; 3; 2; 4; 5] [5] = true.
Proof. vm_compute. reflexivity. Qed.
Example C04_ex_diamond_self_contained : acyclic_b C04_diamond = true.
Proof. vm_compute. reflexivity. Qed.
(* not a topological order / an output key that is not in the graph *)
Example C04_ex_diamond_bad_order : topo_check_b C04_diamond [1; 2; 4; 3; 5] = false.
Proof. vm_compute. reflexivity. Qed.
Example C04_ex_diamond_missing_out : graph_check_b C04_diamond [1; 2; 3; 4; 5] [6] = false.
Proof. vm_compute. reflexivity. Qed.

(* a cyclic graph is rejected WHATEVER certificate is offered *)
Definition C04_cyclic : graph := [(1, []); (2, [1; 3]); (3, [2])].
Example C04_ex_cyclic_rejected : forall order, topo_check_b C04_cyclic order = false.
Proof.
  intro order. destruct (topo_check_b C04_cyclic order) eqn:E; [|reflexivity].
  apply topo_check_sound in E. destruct E as (_ & _ & Hac). exfalso. apply (Hac 2).
  apply t_trans with 3; apply t_step.
  - exists [1; 3]. split; [right; left; reflexivity | right; left; reflexivity].
  - exists [2]. split; [right; right; left; reflexivity | left; reflexivity].
Qed.
Example C04_ex_cyclic_kahn : acyclic_b C04_cyclic = false.
Proof. vm_compute. reflexivity. Qed.

(* a dangling dependency (key 7 is not defined) is rejected whatever certificate is offered *)
Definition C04_dangling : graph := [(1, []); (2, [1; 7])].
Example C04_ex_dangling_rejected : forall order, topo_check_b C04_dangling order = false.
Proof.
  intro order. destruct (topo_check_b C04_dangling order) eqn:E; [|reflexivity].
  apply topo_check_sound in E. destruct E as (Hcl & _ & _). exfalso.
  assert (H : defined C04_dangling 7).
  { apply (Hcl 2 [1; 7] 7); [right; left; reflexivity | right; left; reflexivity]. }
  cbv in H. intuition discriminate.
Qed.

(* duplicate keys are rejected *)
Example C04_ex_duplicate_rejected : topo_check_b [(1, []); (1, [])] [1] = false.
Proof. vm_compute. reflexivity. Qed.

Close Scope positive_scope.

(* the key grid of a 2 x 3 block structure, row-major *)
Example C04_ex_grid : grid [2; 3] = [[0; 0]; [0; 1]; [0; 2]; [1; 0]; [1; 1]; [1; 2]].
Proof. vm_compute. reflexivity. Qed.
Example C04_ex_grid_0d : grid [] = [[]].
Proof. vm_compute. reflexivity. Qed.
Example C04_ex_keys_ok : keys_okN_b [2; 2]%N [[0; 0]; [0; 1]; [1; 0]; [1; 1]]%N = true.
Proof. vm_compute. reflexivity. Qed.
Example C04_ex_keys_wrong_order : keys_okN_b [2; 2]%N [[0; 0]; [1; 0]; [0; 1]; [1; 1]]%N = false.
Proof. vm_compute. reflexivity. Qed.

Print Assumptions C04_checker_sound.
Print Assumptions C04_graph_check_sound.
Print Assumptions C04_topological_closed_acyclic.
Print Assumptions C04_checker_ranked.
Print Assumptions C04_ranked_acyclic.
Print Assumptions C04_checker_complete.
Print Assumptions C04_acyclic_b_sound.
Print Assumptions C04_closed_b_spec.
Print Assumptions C04_no_dup_keys_b_spec.
Print Assumptions C04_grid_length.
Print Assumptions C04_grid_in_bounds.
Print Assumptions C04_grid_NoDup.
Print Assumptions C04_keys_ok_spec.
Print Assumptions C04_keys_ok_exactly_once.
Print Assumptions C04_keys_okN_spec.
Print Assumptions C04_ex_cyclic_rejected.
Print Assumptions C04_ex_dangling_rejected.
