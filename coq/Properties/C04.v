(* C04 — placeholder until the graph layer (Graph.v) lands. *)
From DA Require Import PyBase.
Open Scope Z_scope.
Example C04_placeholder : zsum [1;2;3] = 6. Proof. reflexivity. Qed.
Print Assumptions C04_placeholder.
