(* C19 — Windowed and scan operations match their NumPy definitions.
   Statements only; models in theories/Scan.v, Window.v (scans, sliding + moving windows, overlap); proofs in ScanFacts.v, BlellochFacts.v,
   WindowBase.v, SlidingFacts.v, OverlapFacts.v; diff / gradient: models in theories/DiffGrad.v, proofs in DiffGradFacts.v.
   1-D (one axis): a block is a `list`, a chunked array a `list (list _)`; N-D arrays run the
   same per-axis wiring independently for every index of the other axes (correspondence only). *)
From DA Require Import PyBase Scan ScanFacts BlellochFacts Window WindowBase SlidingFacts OverlapFacts DiffGrad DiffGradFacts.
From Coq Require Import QArith.
Open Scope Z_scope.

(* ---- cumulative scans -------------------------------------------------------------- *)

(* CumReduction._layer (sequential carry; an empty block carries the identity): the
   concatenated block outputs are the scan of the concatenated blocks, any block sizes incl. 0 *)
Theorem C19_cumsum_sequential :
  forall (M : Type) (op : M -> M -> M) (e : M),
    (forall a b c, op a (op b c) = op (op a b) c) -> (forall a, op e a = a) -> (forall a, op a e = a) ->
    forall blocks : list (list M),
      concat (cum_sequential op e blocks) = scan op (concat blocks) /\
      map (@length M) (cum_sequential op e blocks) = map (@length M) blocks.
Proof. exact cum_sequential_spec. Qed.

(* CumReductionBlelloch._layer: the up-sweep / down-sweep over the block totals leaves in
   prefix_vals[i] the total of blocks 0..i for EVERY number of blocks (no bound), hence the
   Blelloch wiring produces block for block what the sequential scheme produces: the scan of
   the concatenated blocks in the input layout, any block sizes incl. 0.  (Proved over the free
   monoid -- words of block indices -- and transferred to every monoid by naturality of the
   sweeps, ScanFacts.blelloch_prefix_hom.) *)
Theorem C19_cumsum_blelloch :
  forall (M : Type) (op : M -> M -> M) (e : M),
    (forall a b c, op a (op b c) = op (op a b) c) -> (forall a, op e a = a) -> (forall a, op a e = a) ->
    forall blocks : list (list M),
      cum_blelloch op e blocks = Some (cum_sequential op e blocks) /\
      (forall out, cum_blelloch op e blocks = Some out ->
         concat out = scan op (concat blocks) /\ map (@length M) out = map (@length M) blocks).
Proof. exact cum_blelloch_correct. Qed.

(* the sweeps alone: for every n, slot i of prefix_vals ends up combining totals 0..i in order *)
Theorem C19_blelloch_wiring :
  forall n : nat, blelloch_wiring n = Some (map iota (seq 0 n)).
Proof. exact blelloch_wiring_correct. Qed.

(* ---- native sliding-window reduction ------------------------------------------------- *)

(* the advertised chunks of SlidingWindowReduction are a layout of the n - w + 1 outputs *)
Theorem C19_sliding_chunks :
  forall cs w, supports_native_sliding_window cs w = true ->
    Forall (fun c => 0 < c) (swr_chunks cs w) /\ zsum (swr_chunks cs w) = zsum cs - w + 1.
Proof. exact swr_chunks_valid. Qed.

(* _block_plan + _sliding_window_banded_reduce: for supported (chunks, window) the concatenated
   banded block results are the reduction of every window, and the blocks have the advertised
   sizes.  NOTE the hypothesis `op a b = op b a`: the suffix scan of the implementation,
   np.flip(ufunc.accumulate(np.flip(block))), combines a block's values in REVERSE order, so the
   model needs commutativity (every ufunc in NATIVE_SLIDING_REDUCERS is commutative). *)
Theorem C19_sliding_native :
  forall (M : Type) (op : M -> M -> M) (dflt : M),
    (forall a b c, op a (op b c) = op (op a b) c) -> (forall a b, op a b = op b a) ->
    forall cs w (xs : list M),
      supports_native_sliding_window cs w = true -> zsum cs = zlen xs ->
      concat (sliding_native op dflt cs w xs)
      = map (fun t => mconcat1 op dflt (firstn (Z.to_nat w) (skipn t xs))) (seq 0 (Z.to_nat (zlen xs - w + 1)))
      /\ map zlen (sliding_native op dflt cs w xs) = swr_chunks cs w.
Proof. intros M op dflt Ha Hc cs w xs Hs Hl. exact (sliding_native_correct M op dflt Ha Hc cs w xs Hs Hl). Qed.

(* MovingWindowReduction (bottleneck move_sum / move_min / move_max through map_overlap):
   _block_plan + _moving_window_banded_reduce, ONE channel (the implementation runs the same
   steps on the prepared values and on the valid counts; the final NaN mask `count < min_count`
   is pointwise).  Output j reduces xs[max(0, j-w+1) : j+1]; the layout is the input's.
   Commutativity is needed for the same reason as above (the band's flipped accumulate, and the
   own-block prefix is combined BEFORE the left-edge band). *)
Theorem C19_moving_native :
  forall (M : Type) (op : M -> M -> M) (dflt : M),
    (forall a b c, op a (op b c) = op (op a b) c) -> (forall a b, op a b = op b a) ->
    forall cs w (xs : list M),
      supports_native_moving_window cs w = true -> zsum cs = zlen xs ->
      concat (moving_native op dflt cs w xs)
      = map (fun j => mconcat1 op dflt (pyslice xs (Z.max 0 (Z.of_nat j - w + 1)) (Z.of_nat j + 1))) (seq 0 (length xs))
      /\ map zlen (moving_native op dflt cs w xs) = cs.
Proof. intros M op dflt Ha Hc cs w xs Hs Hl. exact (moving_native_correct M op dflt Ha Hc cs w xs Hs Hl). Qed.

(* ---- overlap / trim / map_overlap ------------------------------------------------------ *)

(* ensure_minimum_chunksize returns a layout of the same length with every chunk >= size *)
Theorem C19_ensure_minimum_chunksize :
  forall size cs out, Forall (fun c => 0 <= c) cs -> ensure_minimum_chunksize size cs = Some out ->
    zsum out = zsum cs /\ Forall (fun c => size <= c) out /\ Forall (fun c => 0 <= c) out /\ out <> [].
Proof. exact ensure_minimum_chunksize_contract. Qed.

(* overlap(): every overlapped block is the block widened by the depth inside the padded array
   (trim_bounds lists the (start, stop) of block j: [a_j - front_j, a_j + c_j + back_j)) *)
Theorem C19_overlap_blocks :
  forall (A : Type) (blocks : list (list A)) ld rd (k : bkind A) ov,
    0 <= ld -> 0 <= rd -> (is_none k = false -> ld = rd) ->
    overlap blocks ld rd k = Some ov ->
    exists cs,
      overlap_rechunked_chunks (map zlen blocks) ld rd (is_none k) = Some cs /\
      zsum cs = zlen (concat blocks) /\ Forall (fun c => Z.max ld rd <= c) cs /\ cs <> [] /\
      ov = map (pys (pad k ld (concat blocks))) (trim_bounds cs (ov_off k ld) 0 (zlen cs) ld rd (is_none k)).
Proof. intros A. exact (@overlap_spec A). Qed.

(* trimming the overlapped blocks gives back the (rechunked) original blocks, every boundary kind,
   every depth (incl. depth > smallest block: the model rechunks like the implementation) *)
Theorem C19_overlap_trim_id :
  forall (A : Type) (blocks : list (list A)) ld rd (k : bkind A) ov,
    0 <= ld -> 0 <= rd -> (is_none k = false -> ld = rd) ->
    overlap blocks ld rd k = Some ov ->
    exists cs,
      overlap_rechunked_chunks (map zlen blocks) ld rd (is_none k) = Some cs /\
      trim_internal ov ld rd (is_none k) = split_blocks cs (concat blocks) /\
      concat (trim_internal ov ld rd (is_none k)) = concat blocks /\
      map zlen ov = map (fun lh => snd lh - fst lh) (trim_bounds cs (ov_off k ld) 0 (zlen cs) ld rd (is_none k)).
Proof. intros A. exact (@overlap_trim_id A). Qed.

(* map_overlap of ANY shape-preserving block function F that is a radius-r stencil (window
   function g; arbitrary values within r of a block's ends), r <= depth, boundary periodic /
   reflect / nearest / constant: the result is g on every window of the globally padded array *)
Theorem C19_map_overlap_stencil :
  forall (A B : Type) (r : nat) (g : list A -> B) (F : list A -> list B),
    is_stencil r g F ->
    forall (blocks : list (list A)) d (k : bkind A) res,
      is_none k = false -> Z.of_nat r <= d ->
      map_overlap F blocks d d k = Some res ->
      let xs := concat blocks in
      concat res = stencil_valid r g (pyslice (pad k d xs) (d - Z.of_nat r) (d + zlen xs + Z.of_nat r)) /\
      overlap_rechunked_chunks (map zlen blocks) d d false = Some (map zlen res).
Proof. intros A B r g F HF. exact (map_overlap_stencil_bounded r g F HF). Qed.

(* boundary "none" (asymmetric depths allowed): positions at least r from both ends of the array *)
Theorem C19_map_overlap_stencil_none :
  forall (A B : Type) (r : nat) (g : list A -> B) (F : list A -> list B),
    is_stencil r g F ->
    forall (blocks : list (list A)) ld rd res,
      Z.of_nat r <= ld -> Z.of_nat r <= rd ->
      map_overlap F blocks ld rd BNone = Some res ->
      let xs := concat blocks in
      zlen (concat res) = zlen xs /\
      pyslice (concat res) (Z.of_nat r) (zlen xs - Z.of_nat r) = stencil_valid r g xs /\
      overlap_rechunked_chunks (map zlen blocks) ld rd true = Some (map zlen res).
Proof. intros A B r g F HF. exact (map_overlap_stencil_none r g F HF). Qed.

(* ---- diff ------------------------------------------------------------------------------- *)

(* one pass of diff()'s loop, r[1:] - r[:-1], is NumPy's first difference out[i] = a[i+1] - a[i] *)
Theorem C19_diff_step :
  forall l : list Z, diff_step l = map (fun i => nth (S i) l 0 - nth i l 0) (seq 0 (length l - 1)).
Proof. exact diff_step_spec. Qed.

(* diff(a, n, prepend, append) = numpy.diff for EVERY n (n < 0: both raise; n = 0: the array itself,
   prepend / append ignored by both) and every prepend / append; the result has
   max(0, len(prepend) + len(a) + len(append) - n) elements *)
Theorem C19_diff :
  forall n (p q : option (list Z)) (a : list Z),
    da_diff n p q a = np_diff_full n p q a /\
    (forall r, da_diff n p q a = Some r -> n <> 0 -> zlen r = Z.max 0 (zlen (diff_combined p q a) - n)).
Proof. exact da_diff_correct. Qed.

(* the n-th difference in closed form: out[i] = sum_{k=0..n} (-1)^(n-k) C(n,k) a[i+k] *)
Theorem C19_diff_closed_form :
  forall (n : nat) (l : list Z),
    np_diff n l = map (fun i => zsum (map (fun k => sbinom n k * nth (i + k) l 0) (seq 0 (S n)))) (seq 0 (length l - n)).
Proof. exact np_diff_closed_form. Qed.

Theorem C19_sbinom_is_signed_binomial :
  forall n k : nat, (k <= n)%nat -> sbinom n k = (-1) ^ Z.of_nat (n - k) * binom n k.
Proof. exact sbinom_binom. Qed.

(* ---- gradient ---------------------------------------------------------------------------- *)

(* (a) the guard exactly as gradient() checks it -- every chunk of the axis >= edge_order + 1 --,
   edge_order 1 and 2, EVERY layout and input, any per-position kernel (mid / lft / rgt: central
   difference and the one-sided formulas over the first / last edge_order + 1 samples; unit, scalar
   or coordinate spacing are instances): map_overlap(depth 1, boundary "none") keeps the chunks
   and the concatenated trimmed per-block results are numpy.gradient of the whole axis *)
Theorem C19_gradient_plan :
  forall (T R : Type) (d : T) (mid : T -> T -> T -> R) (lft rgt : list T -> R) (eo : Z) (blocks : list (list T)),
    1 <= eo <= 2 -> blocks <> [] -> gradient_guard eo (map zlen blocks) = true ->
    exists G, np_gradient_gen d mid lft rgt eo (concat blocks) = Some G /\
              gradient_plan d mid lft rgt eo blocks = Some (split_blocks (map zlen blocks) G) /\
              concat (split_blocks (map zlen blocks) G) = G /\
              map zlen (split_blocks (map zlen blocks) G) = map zlen blocks.
Proof. exact gradient_plan_correct. Qed.

(* unit spacing, integer inputs: TWICE the gradient, exactly *)
Theorem C19_gradient_unit_spacing :
  forall eo (blocks : list (list Z)),
    1 <= eo <= 2 -> blocks <> [] -> gradient_guard eo (map zlen blocks) = true ->
    exists G, np_gradient2 eo (concat blocks) = Some G /\
              da_gradient2 eo blocks = Some (split_blocks (map zlen blocks) G) /\
              concat (split_blocks (map zlen blocks) G) = G /\
              map zlen (split_blocks (map zlen blocks) G) = map zlen blocks.
Proof. exact da_gradient2_correct. Qed.

(* scalar spacing h: exact rationals (list equality, not just Qeq) *)
Theorem C19_gradient_scalar_spacing :
  forall eo (h : Q) (blocks : list (list Z)),
    1 <= eo <= 2 -> blocks <> [] -> gradient_guard eo (map zlen blocks) = true ->
    exists G, np_gradient eo h (concat blocks) = Some G /\
              da_gradient eo h blocks = Some (split_blocks (map zlen blocks) G) /\
              concat (split_blocks (map zlen blocks) G) = G /\
              map zlen (split_blocks (map zlen blocks) G) = map zlen blocks.
Proof. exact da_gradient_correct. Qed.

Theorem C19_gradient_scalar_is_twice_over_2h :
  forall eo (h : Q) (l : list Z), np_gradient eo h l = option_map (map (over2h h)) (np_gradient2 eo l).
Proof. exact np_gradient_over2h. Qed.

(* coordinates gradient(f, x): samples (f[i], x[i]), NumPy's non-uniform second-order formulas *)
Theorem C19_gradient_coordinates :
  forall eo (blocks : list (list (Z * Z))),
    1 <= eo <= 2 -> blocks <> [] -> gradient_guard eo (map zlen blocks) = true ->
    exists G, np_gradient_x eo (concat blocks) = Some G /\
              da_gradient_x eo blocks = Some (split_blocks (map zlen blocks) G) /\
              concat (split_blocks (map zlen blocks) G) = G /\
              map zlen (split_blocks (map zlen blocks) G) = map zlen blocks.
Proof. exact da_gradient_x_correct. Qed.

(* the position-wise definition used above is numpy.gradient as NumPy writes it, with slices:
   out[0] one-sided, out[1:-1] = (f[2:] - f[:-2]) / 2h, out[-1] one-sided (twice the unit-spacing value) *)
Theorem C19_np_gradient_slices :
  forall eo (l : list Z),
    2 <= zlen l -> eo + 1 <= zlen l ->
    np_gradient2 eo l =
    Some ([lft2 eo (firstn (Z.to_nat (eo + 1)) l)]
          ++ map2 Z.sub (pyslice l 2 (zlen l)) (pyslice l 0 (zlen l - 2))
          ++ [rgt2 eo (lastn (eo + 1) l)]).
Proof. exact np_gradient2_slices. Qed.

(* (c) chunks below the guard.  gradient() raises; but the guard is NOT what makes (a) true: the
   map_overlap pipeline behind it (overlap()'s rechunk merges one-element edge blocks into their
   neighbours) computes numpy.gradient for EVERY layout -- blocks of size 1, even 0 -- whenever
   numpy.gradient itself is defined, and fails exactly when numpy.gradient fails. *)
Theorem C19_gradient_guard_rejects :
  forall (T R : Type) (d : T) (mid : T -> T -> T -> R) (lft rgt : list T -> R) (eo : Z) (blocks : list (list T)),
    gradient_guard eo (map zlen blocks) = false -> gradient_plan d mid lft rgt eo blocks = None.
Proof. exact gradient_plan_guard_none. Qed.

Theorem C19_gradient_without_guard :
  forall (T R : Type) (d : T) (mid : T -> T -> T -> R) (lft rgt : list T -> R) (eo : Z) (blocks : list (list T)) G,
    0 <= eo <= 2 -> blocks <> [] ->
    np_gradient_gen d mid lft rgt eo (concat blocks) = Some G ->
    exists cs, overlap_rechunked_chunks (map zlen blocks) 1 1 true = Some cs /\
               gradient_core d mid lft rgt eo blocks = Some (split_blocks cs G) /\
               concat (split_blocks cs G) = G /\ map zlen (split_blocks cs G) = cs.
Proof. exact gradient_core_correct. Qed.

Theorem C19_gradient_without_guard_fails_like_numpy :
  forall (T R : Type) (d : T) (mid : T -> T -> T -> R) (lft rgt : list T -> R) (eo : Z) (blocks : list (list T)),
    0 <= eo -> np_gradient_gen d mid lft rgt eo (concat blocks) = None -> gradient_core d mid lft rgt eo blocks = None.
Proof. exact gradient_core_none. Qed.

(* chunks that pass the guard (>= edge_order + 1 >= 2) are not touched by overlap()'s rechunk, so the
   chunks array_locs was computed from are the chunks of the blocks the kernel sees *)
Theorem C19_gradient_guard_no_rechunk :
  forall cs, cs <> [] -> Forall (fun c => 2 <= c) cs -> overlap_rechunked_chunks cs 1 1 true = Some cs.
Proof. exact rechunk_id_ge2. Qed.

(* (d) array_locs, every layout: (start_j, stop_j) = [a_j - front_j, a_j + c_j + back_j) with
   front_0 = 0, back_last = 0 and 1 otherwise: the block plus its one-element halo ... *)
Theorem C19_array_locs :
  forall cs, cs <> [] ->
    combine (fst (array_locs cs)) (snd (array_locs cs)) = trim_bounds cs 0 0 (zlen cs) 1 1 true.
Proof. exact array_locs_bounds. Qed.

(* ... so that the coordinate windows coord[start_j : stop_j] are exactly the overlapped blocks of
   the coordinate array chunked like f (under the guard) *)
Theorem C19_array_locs_windows :
  forall (A : Type) (cblocks : list (list A)),
    cblocks <> [] -> Forall (fun c => 2 <= c) (map zlen cblocks) ->
    overlap cblocks 1 1 BNone = Some (coord_windows (concat cblocks) (map zlen cblocks)).
Proof. intros A. exact (@coord_windows_overlap A). Qed.

(* ---- the hypotheses are satisfiable on non-trivial inputs --------------------------------- *)
Example C19_ex_scan_zero_blocks :
  cum_blelloch Z.add 0 [[1;2];[];[3];[4;5;6];[];[7]] = Some [[1;3];[];[6];[10;15;21];[];[28]].
Proof. vm_compute. reflexivity. Qed.

Example C19_ex_blelloch_tasks_7 :   (* (level, i, left operand slot) *)
  blelloch_tasks 7 = [(0,1,0);(0,3,2);(0,5,4);(1,3,1);(2,5,3);(3,2,1);(3,4,3);(3,6,5)].
Proof. vm_compute. reflexivity. Qed.

Example C19_ex_supported_window_spans_blocks :
  supports_native_sliding_window [2;3;1;4] 5 = true /\
  block_plan [2;3;1;4] 5 = [(2,2,1,2);(3,0,3,3);(1,3,3,3);(0,0,3,3)] /\
  sliding_native Z.add 0 [2;3;1;4] 5 [0;3;6;2;5;1;4;0;3;6] = [[16;17];[18;12;13];[14]].
Proof. vm_compute. repeat split. Qed.

Example C19_ex_moving_window_spans_blocks :
  supports_native_moving_window [2;3;1;4] 5 = true /\
  moving_plan [2;3;1;4] 5 = [(0,2,0,None);(2,3,0,Some (0,0));(5,1,1,Some (0,0));(6,4,0,Some (1,2))] /\
  moving_native Z.add 0 [2;3;1;4] 5 [0;3;6;2;5;1;4;0;3;6] = [[0;3];[9;11;16];[17];[18;12;13;14]].
Proof. vm_compute. repeat split. Qed.

Example C19_ex_overlap_depth_gt_block :
  overlap [[1;2;3];[4];[5;6;7;8;9]] 2 2 BPeriodic = Some [[8;9;1;2;3;4;5;6];[3;4;5;6;7;8;9;1;2]].
Proof. vm_compute. reflexivity. Qed.

Example C19_ex_roll_stencil_is_stencil : is_stencil 1 (roll_stencil_g 1) (roll_stencil 1).
Proof. exact (roll_stencil_is_stencil 1). Qed.

Example C19_ex_map_overlap_each_kind :
  map_overlap (roll_stencil 1) [[1;2;3];[4;5];[6;7;8;9]] 2 2 BReflect = Some [[7;10;16];[22;28];[34;40;46;51]] /\
  map_overlap (roll_stencil 1) [[1;2;3];[4;5];[6;7;8;9]] 1 1 BPeriodic = Some [[31;10;16];[22;28];[34;40;46;43]] /\
  map_overlap (roll_stencil 1) [[1;2;3];[4;5];[6;7;8;9]] 1 1 BNearest = Some [[7;10;16];[22;28];[34;40;46;51]] /\
  map_overlap (roll_stencil 1) [[1;2;3];[4;5];[6;7;8;9]] 1 1 (BConst 7) = Some [[25;10;16];[22;28];[34;40;46;49]] /\
  map_overlap (roll_stencil 1) [[1;2;3];[4;5];[6;7;8;9]] 1 1 BNone = Some [[16;10;16];[22;28];[34;40;46;47]].
Proof. vm_compute. repeat split. Qed.

Example C19_ex_diff :
  da_diff 2 (Some [7]) None [9;1;16;1;25;81;4] = Some [-10;23;-30;39;32;-133] /\
  da_diff 9 None None [1;2;3] = Some [] /\ da_diff (-1) None None [1;2;3] = None /\
  da_diff 0 (Some [7]) (Some [8]) [1;2;3] = Some [1;2;3] /\
  map (sbinom 3) [0;1;2;3;4]%nat = [-1;3;-3;1;0].
Proof. vm_compute. repeat split. Qed.

Example C19_ex_gradient_guarded :
  gradient_guard 2 [3;4;5] = true /\
  np_gradient2 2 [9;1;16;1;25;81;4;36;25;9;25;64] = Some [-39;7;0;9;80;-21;-45;21;-27;0;55;101] /\
  da_gradient2 2 (split_blocks [3;4;5] [9;1;16;1;25;81;4;36;25;9;25;64]) = Some [[-39;7;0];[9;80;-21;-45];[21;-27;0;55;101]] /\
  gradient_ext (split_blocks [3;4;5] [9;1;16;1;25;81;4;36;25;9;25;64]) = Some [[9;1;16;1];[16;1;25;81;4;36];[4;36;25;9;25;64]] /\
  array_locs [3;4;5] = ([0;2;6], [4;8;12]).
Proof. vm_compute. repeat split. Qed.

(* the guard rejects layouts on which the pipeline behind it is right *)
Example C19_ex_gradient_guard_is_stricter_than_needed :
  da_gradient2 1 [[9];[1;16;1]] = None /\
  da_gradient2_core 1 [[9];[1;16;1]] = Some [[-16;7;0;-30]] /\ np_gradient2 1 [9;1;16;1] = Some [-16;7;0;-30] /\
  da_gradient2_core 2 (split_blocks [1;1;3;1;5;1] [9;1;16;1;25;81;4;36;25;9;25;64]) = Some [[-39;7];[0;9;80];[-21];[-45;21;-27;0;55;101]].
Proof. vm_compute. repeat split. Qed.

Example C19_ex_gradient_rationals :
  da_gradient 2 (1#2) [[9;1;16];[1;25;81;4]] = Some [[-78#2; 14#2; 0#2]; [18#2; 160#2; -42#2; -574#2]]%Q /\
  np_gradient_x 1 (combine [9;1;16;1;25] [0;1;3;6;10]) = Some [-8#1; -102#36; 2250#900; -2016#7056; 24#4]%Q /\
  da_gradient_x 2 (split_blocks [3;3] (combine [9;1;16;1;25;4] [0;1;3;6;10;15])) = Some [[-474#36; -102#36; 2250#900]; [-2016#7056; 47520#32400; -319680#32400]]%Q.
Proof. vm_compute. repeat split. Qed.

Print Assumptions C19_cumsum_sequential.
Print Assumptions C19_cumsum_blelloch.
Print Assumptions C19_blelloch_wiring.
Print Assumptions C19_sliding_chunks.
Print Assumptions C19_sliding_native.
Print Assumptions C19_moving_native.
Print Assumptions C19_ensure_minimum_chunksize.
Print Assumptions C19_overlap_blocks.
Print Assumptions C19_overlap_trim_id.
Print Assumptions C19_map_overlap_stencil.
Print Assumptions C19_map_overlap_stencil_none.
Print Assumptions C19_diff_step.
Print Assumptions C19_diff.
Print Assumptions C19_diff_closed_form.
Print Assumptions C19_sbinom_is_signed_binomial.
Print Assumptions C19_gradient_plan.
Print Assumptions C19_gradient_unit_spacing.
Print Assumptions C19_gradient_scalar_spacing.
Print Assumptions C19_gradient_scalar_is_twice_over_2h.
Print Assumptions C19_gradient_coordinates.
Print Assumptions C19_gradient_guard_rejects.
Print Assumptions C19_gradient_without_guard.
Print Assumptions C19_gradient_without_guard_fails_like_numpy.
Print Assumptions C19_gradient_guard_no_rechunk.
Print Assumptions C19_array_locs.
Print Assumptions C19_array_locs_windows.
Print Assumptions C19_np_gradient_slices.
