(* C21 — "The Frisky records path computes the same results as the dask graph":
   "For every array, the task records from `__frisky_graph__()` (and the plain records plus layer
   chunks from `__frisky_records_chunks__()`) either are declined with NotImplementedError or form
   a complete graph that defines every output key from `__frisky_output_keys__()` and computes
   the same block values as `__dask_graph__()`.  Several collections walked with a shared `seen`
   set together form a complete graph."

   Statements only; the model is theories/Records.v (a small compiler: dask `_task_spec` nodes ->
   flat Frisky records, `flatten` = GraphRecordsLayer.to_task_records / _records /
   _Flattener.resolve; `walk`, `collect`, `collect_shared`, `check_complete` = collect.py), the
   proofs are in theories/RecordsFacts.v.  harness/c21.py reifies every real layer (input graph and
   real output records) and checks `flatten_opt input = output` inside Coq on every run, so the
   theorems below speak about the translation the implementation performs.

   Only the generic translation is in scope (the native Rust layers are absent in the sandbox).
   Standing abstractions (see Records.v): a key is the string `str(_norm_key(key))`, numbered;
   a lifted key "<parent>-subN" is the pair `KSub parent N` and is ASSUMED not to be the string of a
   graph key; functions and literal leaves are opaque tags interpreted by `apply` / `vlit`;
   `kle` is the oracle for Python's order of the key strings (all theorems hold for every `kle`). *)
From Coq Require Import List Bool Arith PArith.
From DA Require Import Graph GraphFacts Records RecordsFacts.
Import ListNotations.

(* ------------------------------------------------------------------------- *)
(** 1. The declared deps of every emitted record are exactly the TaskRefs embedded in its
       args/kwargs: they are `sorted(set(refs))`, duplicate free, and the same set — so an
       executor that resolves every embedded ref never misses a dependency edge, and no edge is
       spurious.  (`data_ok`: DataNode values embed no TaskRef; see the refutation below.) *)
Theorem C21_flatten_deps_exact :
  forall kle g r, data_ok g = true -> In r (flatten kle g) ->
  r_deps r = sorted_deps kle (rec_refs r) /\
  NoDup (r_deps r) /\ (forall x, In x (r_deps r) <-> In x (rec_refs r)).
Proof. exact flatten_deps_exact. Qed.

(* the hypothesis is necessary: `DataNode(value)` is handed over verbatim, with no dep edge, so a
   TaskRef inside a DataNode value is embedded but not declared (replayed against the real
   `_records`: see the report / harness corpus) *)
Theorem C21_deps_exact_without_data_ok_refuted :
  exists kle g r, In r (flatten kle g) /\ exists x, In x (rec_refs r) /\ ~ In x (r_deps r).
Proof.
  exists (fun _ _ => true), [(1%positive, NData (TList [TRef (KG 2%positive)]))].
  eexists. split; [left; reflexivity|]. exists (KG 2%positive). split; [left; reflexivity | intros []].
Qed.

(* ------------------------------------------------------------------------- *)
(** 2. Record keys are pairwise distinct: the lifted "<parent>-subN" keys among themselves and
       from every graph key, given that the graph keys (strings) are distinct; every record key
       is a graph key or a sub-key (N >= 1) of a graph key. *)
Theorem C21_fresh_keys_unique :
  forall kle g, NoDup (map fst g) ->
  NoDup (map r_key (flatten kle g)) /\
  (forall r, In r (flatten kle g) ->
     (exists k, r_key r = KG k /\ In k (map fst g)) \/
     (exists p i, r_key r = KSub p i /\ In p (map fst g) /\ 1 <= i)).
Proof. exact flatten_keys_unique. Qed.

(* ------------------------------------------------------------------------- *)
(** 3. Compiler correctness.  For a translatable source graph with distinct keys that is closed
       and acyclic (certificate form: it has a topological order `os`), executing the flattened
       records in ANY topological order `ot` of their declared deps gives, for every source key,
       the value the source graph computes (inline nodes evaluated recursively), and that value
       exists (nothing is stuck).  V, the interpretation of functions / literals / containers are
       arbitrary; the only law used is `identity(v) = v`. *)
Theorem C21_flatten_sound :
  forall (V : Type) (apply : tag -> list V -> list (tag * V) -> V) (vlit : tag -> V)
         (vlist vtuple : list V -> V) (vdict : list (tag * V) -> V),
  (forall v, apply ident_fn [v] [] = v) ->
  forall kle g os ot,
  NoDup (map fst g) -> supported g = true -> data_ok g = true ->
  topological (src_graph g) os ->
  rtopological (rec_graph (flatten kle g)) ot ->
  forall k, In k (map fst g) ->
    rec_run V apply vlit vlist vtuple vdict (flatten kle g) ot (KG k)
    = src_run V apply vlit vlist vtuple vdict g os k /\
    exists v, src_run V apply vlit vlist vtuple vdict g os k = Some v.
Proof. exact flatten_sound. Qed.

(* The same against DASK's OWN reading of raw Python containers.  In `src_run` above a raw list /
   tuple / dict argument is looked into (a GraphNode inside is evaluated), which is how
   `_Flattener.resolve` and Frisky read it; dask itself hands a raw container over verbatim, a
   GraphNode or TaskRef inside stays an object (`vquote`: its value as data, arbitrary).  On
   `raw_ok` graphs — raw containers hold only literals and raw containers — both readings agree,
   so the records compute what dask computes.  harness/c21.py evaluates `raw_ok` inside Coq on every
   real layer and reports a layer that takes the generic path and violates it. *)
Theorem C21_flatten_sound_dask :
  forall (V : Type) (apply : tag -> list V -> list (tag * V) -> V) (vlit : tag -> V)
         (vlist vtuple : list V -> V) (vdict : list (tag * V) -> V) (vquote : arg -> V),
  (forall v, apply ident_fn [v] [] = v) ->
  forall kle g os ot,
  NoDup (map fst g) -> supported g = true -> data_ok g = true -> raw_ok g = true ->
  topological (src_graph g) os ->
  rtopological (rec_graph (flatten kle g)) ot ->
  forall k, In k (map fst g) ->
    rec_run V apply vlit vlist vtuple vdict (flatten kle g) ot (KG k)
    = src_run_dask V apply vlit vlist vtuple vdict vquote g os k /\
    exists v, src_run_dask V apply vlit vlist vtuple vdict vquote g os k = Some v.
Proof. exact flatten_sound_dask. Qed.

(* such an order of the records always exists: the lifted sub-tasks of a key, in the order
   `_Flattener` appended them, right before the key itself *)
Theorem C21_records_order_exists :
  forall kle g os, NoDup (map fst g) -> supported g = true -> topological (src_graph g) os ->
  rtopological (rec_graph (flatten kle g)) (flat_order kle g os).
Proof. exact flat_order_topological. Qed.

(* and all of them compute the same store (every key, including the lifted ones) *)
Theorem C21_records_confluent :
  forall (V : Type) (apply : tag -> list V -> list (tag * V) -> V) (vlit : tag -> V)
         (vlist vtuple : list V -> V) (vdict : list (tag * V) -> V) kle g o1 o2,
  NoDup (map fst g) -> data_ok g = true ->
  rtopological (rec_graph (flatten kle g)) o1 -> rtopological (rec_graph (flatten kle g)) o2 ->
  forall x, rec_run V apply vlit vlist vtuple vdict (flatten kle g) o1 x
          = rec_run V apply vlit vlist vtuple vdict (flatten kle g) o2 x.
Proof. exact rec_run_confluent. Qed.

(* ------------------------------------------------------------------------- *)
(** 4. Completeness (`_check_complete`).  For a translatable graph without self-aliases the
       dangling deps of the records are exactly the source references to undefined keys; hence
       the check passes iff the source graph is closed; and every source key is produced. *)
Theorem C21_complete :
  forall kle g, no_self_alias g -> supported g = true ->
  (check_complete (flatten kle g) = true <-> closed (src_graph g)) /\
  (forall x, In x (dangling (flatten kle g)) <->
             exists d, x = KG d /\ (exists k, edge (src_graph g) k d) /\ ~ defined (src_graph g) d) /\
  (forall k, defined (src_graph g) k -> In (KG k) (produced (flatten kle g))).
Proof.
  intros kle g Hs Hsup. split; [apply check_complete_closed; assumption|].
  split; [apply dangling_spec; assumption | intros k; apply flatten_defines; assumption].
Qed.

(* a self-alias emits no record (the scheduler is supposed to hold the data): a closed source
   graph with a referenced self-alias is therefore reported incomplete — the hypothesis of
   C21_complete is necessary, and by design such a graph is declined *)
Theorem C21_complete_self_alias_refuted :
  exists kle g, closed (src_graph g) /\ supported g = true /\ check_complete (flatten kle g) = false.
Proof.
  exists (fun _ _ => true), [(1%positive, NAlias 1%positive); (2%positive, NAlias 1%positive)].
  split; [apply closed_b_spec; reflexivity | split; reflexivity].
Qed.

(* ------------------------------------------------------------------------- *)
(** 5. The walk.  `_walk_records` never runs out of fuel in the model; one collection with a
       fresh `seen` emits every reachable layer exactly once and returns the translation of the
       combined graph iff every layer is translatable and the result is complete (otherwise it
       declines); several collections with ONE shared `seen` emit each layer reachable from some
       root exactly once, the union of their records is the translation of the combined source
       graph, equal as a set to what one walk over all roots yields, and it is complete exactly
       when the combined source graph is closed. *)
Theorem C21_walk_total : forall d roots seen, exists r, walk d roots seen = Some r.
Proof. exact walk_total. Qed.

Theorem C21_collect_single :
  forall kle d root,
  exists seen' em,
    walk d [root] [] = Some (seen', em) /\
    NoDup em /\ (forall nm, In nm em <-> reach d [root] nm) /\
    collect kle d root None =
    (if supported (combined d em) && check_complete (flatten kle (combined d em))
     then Some (seen', flatten kle (combined d em)) else None).
Proof. exact collect_single_spec. Qed.

Theorem C21_shared_seen :
  forall kle d roots seen' rs,
  collect_shared kle d roots [] = Some (seen', rs) ->
  exists em,
    NoDup em /\ (forall nm, In nm em <-> reach d roots nm) /\
    rs = flatten kle (combined d em) /\ supported (combined d em) = true /\
    (forall seen1 em1, walk d roots [] = Some (seen1, em1) ->
       forall r, In r rs <-> In r (flatten kle (combined d em1))) /\
    (no_self_alias (combined d em) ->
       (check_complete rs = true <-> closed (src_graph (combined d em)))).
Proof. exact collect_shared_spec. Qed.

(* the shared walk declines only when a reachable layer is not translatable *)
Theorem C21_shared_seen_total :
  forall kle d roots seen,
  (forall nm, reach d roots nm -> supported (graph_of d nm) = true) ->
  exists res, collect_shared kle d roots seen = Some res.
Proof. exact collect_shared_total. Qed.

(* ------------------------------------------------------------------------- *)
(** Examples: the hypotheses are satisfiable on a non-trivial graph, and the statements compute. *)
Open Scope positive_scope.

(* concatenate3([[getitem(a0, ..), a1]]) with a nested inline task, a kwarg, a raw dict holding an
   inline task, an alias, a DataNode and a container node *)
Definition ex_g : sgraph :=
  [ (1, NData (TLit 9));
    (2, NAlias 1);
    (3, NTask 5 [ASeq ContList [ASeq ContList [ATask 6 [ARef 2; ATask 7 [AAlias 1] [(9, ALit 4)]] []; ARef 2]];
                 ADict [(8, ATask 6 [AData (TTuple [TLit 3; TLit 4])] [])]]
              [(10, ASeq RawTuple [ALit 2; ARef 1])]);
    (4, NCont false [ARef 3; ATask 7 [ARef 3] []]) ].
Definition ex_kle (a b : rkey) : bool :=
  match a, b with
  | KG k, KG l => Pos.leb k l
  | KG _, KSub _ _ => true
  | KSub _ _, KG _ => false
  | KSub p n, KSub q m => if Pos.eqb p q then Nat.leb n m else Pos.leb p q
  end.
Definition ex_os : list key := [1; 2; 3; 4].

Example C21_ex_hyps :
  NoDup (map fst ex_g) /\ supported ex_g = true /\ data_ok ex_g = true /\ no_self_alias ex_g /\
  topological (src_graph ex_g) ex_os.
Proof.
  split; [apply nodup_b_NoDup; reflexivity|]. split; [reflexivity|]. split; [reflexivity|].
  split; [apply no_self_alias_b_spec; reflexivity | apply topo_check_topological; reflexivity].
Qed.

Example C21_ex_flatten :
  map r_key (flatten ex_kle ex_g) =
    [KG 1; KG 2; KG 3; KSub 3 2; KSub 3 1; KSub 3 3; KG 4; KSub 4 1] /\
  flat_order ex_kle ex_g ex_os = [KG 1; KG 2; KSub 3 2; KSub 3 1; KSub 3 3; KG 3; KSub 4 1; KG 4] /\
  map r_deps (flatten ex_kle ex_g) =
    [[]; [KG 1]; [KG 1; KG 2; KSub 3 1; KSub 3 3]; [KG 1]; [KG 2; KSub 3 2]; []; [KG 3; KSub 4 1]; [KG 3]] /\
  check_complete (flatten ex_kle ex_g) = true.
Proof. vm_compute. repeat split; reflexivity. Qed.

(* a concrete interpretation: values are trees that record exactly what was applied to what *)
Inductive exV := XLit (t : tag) | XList (l : list exV) | XTuple (l : list exV)
               | XDict (l : list (tag * exV)) | XApp (f : tag) (a : list exV) (k : list (tag * exV)).
Definition ex_apply (f : tag) (a : list exV) (k : list (tag * exV)) : exV :=
  match Pos.eqb f ident_fn, a, k with true, [v], [] => v | _, _, _ => XApp f a k end.
Lemma ex_apply_ident : forall v, ex_apply ident_fn [v] [] = v.
Proof. reflexivity. Qed.

(* records path (two different topological orders) = source graph, on every key, by computation *)
Example C21_ex_run :
  let run := rec_run exV ex_apply XLit XList XTuple XDict (flatten ex_kle ex_g) in
  let src := src_run exV ex_apply XLit XList XTuple XDict ex_g ex_os in
  forallb (fun k => match run (flat_order ex_kle ex_g ex_os) (KG k), src k with
                    | Some a, Some b => true | _, _ => false end) ex_os = true /\
  map (fun k => run (flat_order ex_kle ex_g ex_os) (KG k)) ex_os = map src ex_os /\
  map (fun k => run [KG 1; KSub 3 3; KG 2; KSub 3 2; KSub 3 1; KG 3; KSub 4 1; KG 4] (KG k)) ex_os = map src ex_os.
Proof. vm_compute. repeat split; reflexivity. Qed.

(* ... and by the theorem *)
Example C21_ex_sound :
  forall k, In k ex_os ->
    rec_run exV ex_apply XLit XList XTuple XDict (flatten ex_kle ex_g) (flat_order ex_kle ex_g ex_os) (KG k)
    = src_run exV ex_apply XLit XList XTuple XDict ex_g ex_os k.
Proof.
  destruct C21_ex_hyps as (H1 & H2 & H3 & _ & H5). intros k Hk.
  apply (C21_flatten_sound exV ex_apply XLit XList XTuple XDict ex_apply_ident ex_kle ex_g ex_os
           (flat_order ex_kle ex_g ex_os) H1 H2 H3 H5 (C21_records_order_exists ex_kle ex_g ex_os H1 H2 H5) k Hk).
Qed.

(* `raw_ok` is necessary: a Task inside a RAW dict (this is the shape of FusedBlockwise's
   `_execute_subgraph({key: Task(...)}, ...)`) is lifted and executed by the records path, whereas
   dask passes the Task object as data.  (The implementation knows: "The generic GraphRecordsLayer
   adapter mistranslates this", _frisky/fused_blockwise.py; FusedBlockwise has a native layer.) *)
Theorem C21_sound_without_raw_ok_refuted :
  exists (vquote : arg -> exV) g os ot k,
    NoDup (map fst g) /\ supported g = true /\ data_ok g = true /\
    topological (src_graph g) os /\ rtopological (rec_graph (flatten ex_kle g)) ot /\ In k (map fst g) /\
    rec_run exV ex_apply XLit XList XTuple XDict (flatten ex_kle g) ot (KG k)
    <> src_run_dask exV ex_apply XLit XList XTuple XDict vquote g os k.
Proof.
  exists (fun _ => XLit 99), [(1, NTask 5 [ADict [(8, ATask 6 [] [])]] [])], [1].
  exists (flat_order ex_kle [(1, NTask 5 [ADict [(8, ATask 6 [] [])]] [])] [1]), 1.
  assert (T : topological (src_graph [(1, NTask 5 [ADict [(8, ATask 6 [] [])]] [])]) [1])
    by (apply topo_check_topological; reflexivity).
  assert (N : NoDup (map fst [(1, NTask 5 [ADict [(8, ATask 6 [] [])]] [])]))
    by (apply nodup_b_NoDup; reflexivity).
  split; [exact N|]. split; [reflexivity|]. split; [reflexivity|]. split; [exact T|].
  split; [apply C21_records_order_exists; [exact N | reflexivity | exact T]|].
  split; [left; reflexivity|]. vm_compute. discriminate.
Qed.

(* a dangling source reference is reported, and only it *)
Example C21_ex_dangling :
  dangling (flatten ex_kle [(1, NTask 5 [ARef 7; ATask 6 [ARef 8; ARef 1] []] [])]) = [KG 7; KG 8].
Proof. reflexivity. Qed.

(* three expression nodes 1 -> {2, 3} -> 4 (a diamond) and a second root 5 -> 3: the shared walk
   emits 4 once; the union equals one walk over both roots as a set *)
Definition ex_dag : dag :=
  [ mklnode 1 [(11, NTask 5 [ARef 12; ARef 13] [])] [2; 3];
    mklnode 2 [(12, NTask 6 [ARef 14] [])] [4];
    mklnode 3 [(13, NTask 6 [ATask 7 [ARef 14] []] [])] [4];
    mklnode 4 [(14, NData (TLit 2))] [];
    mklnode 5 [(15, NTask 5 [ARef 13] [])] [3] ].

Example C21_ex_walk :
  walk ex_dag [1] [] = Some ([2; 4; 3; 1], [1; 3; 4; 2]) /\
  walk_shared ex_dag [1; 5] [] = Some ([5; 2; 4; 3; 1], [1; 3; 4; 2; 5]) /\
  walk ex_dag [1; 5] [] = Some ([2; 1; 4; 3; 5], [5; 3; 4; 1; 2]).
Proof. vm_compute. repeat split; reflexivity. Qed.

Example C21_ex_collect :
  (exists rs, collect ex_kle ex_dag 1 None = Some ([2; 4; 3; 1], rs) /\ length rs = 5%nat) /\
  (* alone, with a shared set, the second collection contributes only its own layer ... *)
  (exists s rs, collect_shared ex_kle ex_dag [1; 5] [] = Some (s, rs) /\ length rs = 6%nat /\ check_complete rs = true) /\
  (* ... whose records are not complete by themselves *)
  (exists s rs, collect ex_kle ex_dag 5 (Some [2; 4; 3; 1]) = Some (s, rs) /\ check_complete rs = false) /\
  (* a layer that dangles is declined *)
  collect ex_kle [mklnode 1 [(11, NTask 5 [ARef 12] [])] []] 1 None = None.
Proof.
  split; [eexists; split; [vm_compute; reflexivity | reflexivity]|].
  split; [do 2 eexists; split; [vm_compute; reflexivity | split; reflexivity]|].
  split; [do 2 eexists; split; [vm_compute; reflexivity | reflexivity] | reflexivity].
Qed.

Print Assumptions C21_flatten_deps_exact.
Print Assumptions C21_deps_exact_without_data_ok_refuted.
Print Assumptions C21_fresh_keys_unique.
Print Assumptions C21_flatten_sound.
Print Assumptions C21_flatten_sound_dask.
Print Assumptions C21_sound_without_raw_ok_refuted.
Print Assumptions C21_records_order_exists.
Print Assumptions C21_records_confluent.
Print Assumptions C21_complete.
Print Assumptions C21_complete_self_alias_refuted.
Print Assumptions C21_walk_total.
Print Assumptions C21_collect_single.
Print Assumptions C21_shared_seen.
Print Assumptions C21_shared_seen_total.
Print Assumptions C21_ex_sound.

(* ========================================================================= *)
(** 6. The FAST PATHS of the pure-Python FusedBlockwiseLayer (_frisky/fused_blockwise.py), the only
       native layer that runs without the Rust extension.  Model: theories/FusedFast.v
       (`probe_blocks` = _probe_blocks; `analytical` / `uniform` / `site_based` / `seed_spec` = the
       four derivations of _fast_spec; `fast_record` = _fast_records; a task family
       `l_task : block id -> task` in canonical form: canonical subgraph + source sites), proofs:
       theories/FusedFastFacts.v.  harness/c21.py reifies every FusedBlockwise node it meets (every
       block's real fused task) and compares, inside Coq, the real _probe_blocks, the real result of
       each of the four derivations (maximal block, inkey order, projections, seed templates and
       holes, materialized slots) and the set of blocks whose real fast record differs from the
       real slow record with what the model computes.

       What a record computes is its `eff`: canonical subgraph, output, the source block read at
       every reference site (depth-first order), the set of dependency keys.  The slow record of a
       block is the block's own task; `eff_equiv` of the two = same block value.

       FINDING C21-A in one sentence: every derivation decides "the fused subgraph is the same in
       all blocks" on `probe_blocks` only (theorem 6.3), which is refuted as a decision procedure
       (6.4) and is complete exactly for literals that take, at every position of their axis, a value
       seen at a probed position (6.5, 6.6). *)
From Coq Require Import ZArith Lia.
From DA Require Import FusedFast FusedFastFacts.
Close Scope positive_scope.
Open Scope Z_scope.

(* ------------------------------------------------------------------------- *)
(** 6.1 Which blocks are probed: block 0, the last block, per axis with more than one block the
        last and the middle position (other coordinates 0), and the "diagonal" block. *)
Theorem C21_probe_blocks_spec : forall nb p,
  In p (probe_blocks nb) <->
  p = zero_block nb \/ p = map (fun n => n - 1) nb \/
  (exists i n, nth_error nb i = Some n /\ 1 < n /\
               (p = set_nth i (n - 1) (zero_block nb) \/ p = set_nth i (n / 2) (zero_block nb))) \/
  p = diag_block nb.
Proof. exact probe_blocks_spec. Qed.

(* per axis: positions 0, n-1 and n/2 are probed with all other coordinates 0 ... *)
Theorem C21_probe_axis_cover : forall nb i n k,
  nth_error nb i = Some n -> 1 <= n -> (k = 0 \/ k = n - 1 \/ k = n / 2) ->
  In (set_nth i k (zero_block nb)) (probe_blocks nb).
Proof. exact probe_axis_cover. Qed.

(* ... and no probe has, on axis i, any position other than 0, n-1, n/2, min(i, n-1) *)
Theorem C21_probe_positions : forall nb p i n,
  In p (probe_blocks nb) -> nth_error nb i = Some n ->
  nth i p 0 = 0 \/ nth i p 0 = n - 1 \/ nth i p 0 = n / 2 \/ nth i p 0 = Z.min (Z.of_nat i) (n - 1).
Proof. exact probe_positions. Qed.

Theorem C21_probes_in_grid : forall nb p,
  Forall (fun n => 1 <= n) nb -> In p (probe_blocks nb) -> in_grid nb p.
Proof. exact probes_in_grid. Qed.

(* ------------------------------------------------------------------------- *)
(** 6.2 (a) SOUNDNESS UNDER THE REAL HYPOTHESIS.  If the family really is SHARED (every block of the
        grid has block 0's canonical subgraph) with AFFINE SLOTS (site j of every block reads source
        s_j at the block an affine projection P_j makes of the block id), then whenever
        _analytical_site_spec accepts, the record it generates for EVERY block of EVERY grid is the
        slow path's: the inference by bumping one axis recovers P on the grid, the maximal block,
        the stable inkey order and the re-ordered projections bind every site to its own block. *)
Theorem C21_fast_analytical_sound : forall L s (P : list nproj),
  analytical L = Some s ->
  shared_everywhere L -> affine_sites L P -> deps_are_sites L ->
  forall i b, in_grid (l_nb L) b ->
    eff_equiv (eff_fast L (fast_record L s i b)) (eff_slow (l_task L b)).
Proof. exact analytical_sound. Qed.

(* _seed_spec: TEMPLATED SEEDS — outside the lifted positions every block has block 0's canonical
   subgraph, at lifted position k every block carries the literal template k generates — and affine
   slots: the shared subgraph with its holes filled by the block's seeds is the block's own. *)
Theorem C21_fast_seed_sound : forall L sh projs tmpls (P : list nproj),
  seed_spec L = Some (ProjSpec sh projs tmpls) ->
  seeds_everywhere L (sh_holes sh) tmpls -> canon_keys_unique L ->
  affine_sites L P -> deps_are_sites L ->
  forall i b, in_grid (l_nb L) b ->
    eff_equiv (eff_fast L (fast_record L (ProjSpec sh projs tmpls) i b)) (eff_slow (l_task L b)).
Proof. exact seed_sound. Qed.

(* the two exact derivations read every block's real coordinates: only sharedness is trusted
   (`broadcast_everywhere`: the condition _validate_broadcast checks on the probes, at every block) *)
Theorem C21_fast_uniform_sound : forall L s,
  uniform L = Some s -> shared_everywhere L -> fuse_wf L -> broadcast_everywhere L ->
  forall i b, nth_error (all_blocks (l_nb L)) i = Some b ->
    eff_equiv (eff_fast L (fast_record L s i b)) (eff_slow (l_task L b)).
Proof. exact uniform_sound. Qed.

Theorem C21_fast_site_based_sound : forall L s,
  site_based L = Some s -> shared_everywhere L -> deps_are_sites L ->
  forall i b, nth_error (all_blocks (l_nb L)) i = Some b ->
    eff_equiv (eff_fast L (fast_record L s i b)) (eff_slow (l_task L b)).
Proof. exact site_based_sound. Qed.

(* ------------------------------------------------------------------------- *)
(** 6.3 What the code establishes of `shared_everywhere`: the three derivations that share a
        subgraph as it is have compared the canonical subgraph of the PROBE blocks with block 0's
        — `independence_test` — and nothing else. *)
Theorem C21_fast_paths_test_probes_only : forall L s,
  analytical L = Some s \/ uniform L = Some s \/ site_based L = Some s -> independence_test L = true.
Proof. exact fast_paths_test_probes_only. Qed.

(* ------------------------------------------------------------------------- *)
(** 6.4 (b) The probe test does not decide block independence (finding C21-A): on the grid of
        -da.ones((6,), chunks=((1,3,1,1),)) (the literal of a block is its size) the test passes, a
        fast spec is returned, block 1 is not a probe and its generated record is not the slow one. *)
Theorem C21_probe_test_incomplete_refuted :
  exists L s b i,
    independence_test L = true /\ fast_spec L = Some s /\
    nth_error (all_blocks (l_nb L)) i = Some b /\ ~ In b (probe_blocks (l_nb L)) /\
    ~ eff_equiv (eff_fast L (fast_record L s i b)) (eff_slow (l_task L b)).
Proof. exact probe_test_incomplete. Qed.

(* the same with a source (x + da.ones(...), _analytical_site_spec): every hypothesis of 6.2 holds
   except `shared_everywhere` *)
Theorem C21_probe_test_incomplete_analytical_refuted :
  exists L s b i,
    analytical L = Some s /\ affine_sites L [(3%positive, [PBid 0])] /\ deps_are_sites L /\
    nth_error (all_blocks (l_nb L)) i = Some b /\ ~ In b (probe_blocks (l_nb L)) /\
    ~ eff_equiv (eff_fast L (fast_record L s i b)) (eff_slow (l_task L b)).
Proof. exact probe_test_incomplete_analytical. Qed.

(* ------------------------------------------------------------------------- *)
(** 6.5 (c) When the probe test IS sufficient.  `covered n a k`: position k of axis a (n blocks) is
        the position some probe block has on that axis.  Let the canonical subgraph of block b be
        an injective function (`build`: a term with int holes) of int LEAVES, leaf (a, g) having the
        value g (b[a]) — it depends on ONE output axis.  If every position of the axis carries the
        value of some covered position, the test on the probes decides independence on the whole
        grid.  In particular (second theorem) when every leaf has one value on all INTERIOR
        positions of its axis, whatever its values at the first and at the last position: uniform
        chunks with a shorter last and / or a different first block. *)
Theorem C21_probe_test_complete :
  forall (L : layer) (build : list Z -> list node * label) (leaves : list (nat * (Z -> Z))),
  (forall v w, build v = build w -> v = w) ->
  (forall b, in_grid (l_nb L) b ->
     (t_nodes (l_task L b), t_out (l_task L b)) = build (map (fun ag : nat * (Z -> Z) => snd ag (nth (fst ag) b 0)) leaves)) ->
  (forall a g n, In (a, g) leaves -> nth_error (l_nb L) a = Some n ->
     forall k, 0 <= k < n -> exists k', covered n a k' /\ g k = g k') ->
  independence_test L = true ->
  forall b, in_grid (l_nb L) b ->
    t_nodes (l_task L b) = t_nodes (l_task L (zero_block (l_nb L))) /\
    t_out (l_task L b) = t_out (l_task L (zero_block (l_nb L))).
Proof. exact probe_test_complete. Qed.

Theorem C21_probe_test_complete_interior :
  forall (L : layer) (build : list Z -> list node * label) (leaves : list (nat * (Z -> Z))),
  (forall v w, build v = build w -> v = w) ->
  (forall b, in_grid (l_nb L) b ->
     (t_nodes (l_task L b), t_out (l_task L b)) = build (map (fun ag : nat * (Z -> Z) => snd ag (nth (fst ag) b 0)) leaves)) ->
  (forall a g n, In (a, g) leaves -> nth_error (l_nb L) a = Some n ->
     forall k k', 0 < k < n - 1 -> 0 < k' < n - 1 -> g k = g k') ->
  independence_test L = true ->
  forall b, in_grid (l_nb L) b ->
    t_nodes (l_task L b) = t_nodes (l_task L (zero_block (l_nb L))) /\
    t_out (l_task L b) = t_out (l_task L (zero_block (l_nb L))).
Proof. exact probe_test_complete_interior. Qed.

(* every covered position is a position of a probe block *)
Theorem C21_covered_probed : forall nb a n k,
  Forall (fun n => 1 <= n) nb -> nth_error nb a = Some n -> covered n a k ->
  0 <= k < n /\ exists p, In p (probe_blocks nb) /\ nth a p 0 = k.
Proof. exact covered_probed. Qed.

(** 6.6 ... and `covered` is exact: in one dimension, for EVERY position that is not covered there is a
        family (literal 3 there, 1 elsewhere) that passes every test of the fast path and whose
        generated record is wrong at that position.  (n = 4, k = 1 is finding C21-A.) *)
Theorem C21_probe_cover_exact_1d : forall n k, 0 <= k < n -> ~ covered n 0 k ->
  let L := spike_layer n k in
  independence_test L = true /\
  exists s, fast_spec L = Some s /\
    nth_error (all_blocks (l_nb L)) (Z.to_nat k) = Some [k] /\
    ~ eff_equiv (eff_fast L (fast_record L s (Z.to_nat k) [k])) (eff_slow (l_task L [k])).
Proof. exact probe_cover_exact_1d. Qed.

(** 6.7 (c) + (a): for such families an accepted fast path is right at every block. *)
Theorem C21_fast_analytical_sound_when_covered :
  forall (L : layer) (build : list Z -> list node * label) (leaves : list (nat * (Z -> Z))),
  (forall v w, build v = build w -> v = w) ->
  (forall b, in_grid (l_nb L) b ->
     (t_nodes (l_task L b), t_out (l_task L b)) = build (map (fun ag : nat * (Z -> Z) => snd ag (nth (fst ag) b 0)) leaves)) ->
  (forall a g n, In (a, g) leaves -> nth_error (l_nb L) a = Some n ->
     forall k, 0 <= k < n -> exists k', covered n a k' /\ g k = g k') ->
  (forall b, in_grid (l_nb L) b -> t_ok (l_task L b) = true) ->
  forall s P, analytical L = Some s -> affine_sites L P -> deps_are_sites L ->
  forall i b, in_grid (l_nb L) b -> eff_equiv (eff_fast L (fast_record L s i b)) (eff_slow (l_task L b)).
Proof. exact analytical_sound_covered. Qed.

Theorem C21_fast_uniform_sound_when_covered :
  forall (L : layer) (build : list Z -> list node * label) (leaves : list (nat * (Z -> Z))),
  (forall v w, build v = build w -> v = w) ->
  (forall b, in_grid (l_nb L) b ->
     (t_nodes (l_task L b), t_out (l_task L b)) = build (map (fun ag : nat * (Z -> Z) => snd ag (nth (fst ag) b 0)) leaves)) ->
  (forall a g n, In (a, g) leaves -> nth_error (l_nb L) a = Some n ->
     forall k, 0 <= k < n -> exists k', covered n a k' /\ g k = g k') ->
  (forall b, in_grid (l_nb L) b -> t_ok (l_task L b) = true) ->
  forall s, uniform L = Some s -> fuse_wf L -> broadcast_everywhere L ->
  forall i b, nth_error (all_blocks (l_nb L)) i = Some b ->
    eff_equiv (eff_fast L (fast_record L s i b)) (eff_slow (l_task L b)).
Proof. exact uniform_sound_covered. Qed.

Theorem C21_fast_site_based_sound_when_covered :
  forall (L : layer) (build : list Z -> list node * label) (leaves : list (nat * (Z -> Z))),
  (forall v w, build v = build w -> v = w) ->
  (forall b, in_grid (l_nb L) b ->
     (t_nodes (l_task L b), t_out (l_task L b)) = build (map (fun ag : nat * (Z -> Z) => snd ag (nth (fst ag) b 0)) leaves)) ->
  (forall a g n, In (a, g) leaves -> nth_error (l_nb L) a = Some n ->
     forall k, 0 <= k < n -> exists k', covered n a k' /\ g k = g k') ->
  (forall b, in_grid (l_nb L) b -> t_ok (l_task L b) = true) ->
  forall s, site_based L = Some s -> deps_are_sites L ->
  forall i b, nth_error (all_blocks (l_nb L)) i = Some b ->
    eff_equiv (eff_fast L (fast_record L s i b)) (eff_slow (l_task L b)).
Proof. exact site_based_sound_covered. Qed.

(* ------------------------------------------------------------------------- *)
(** Examples: the hypotheses are satisfiable on non-trivial families, and the statements compute. *)

(* x - y.T on a 2 x 3 grid: two sources, the second read through a transposed block map *)
Definition ex_xyT : layer :=
  mklayer [2; 3] [3%positive; 4%positive] [[2; 3]; [3; 2]] [Some [2; 2]; Some [1; 2; 1]]
    (fun b => let s := [(3%positive, [nth 0 b 0; nth 1 b 0]); (4%positive, [nth 1 b 0; nth 0 b 0])] in
              mktask true [mknode 1 10 [LRef (BIn 3); LRef (BNode 2)] nokw; mknode 2 11 [LRef (BIn 4)] nokw] (BNode 1)
                     s (Some s) s).
Definition ex_xyT_P : list nproj := [(3%positive, [PBid 0; PBid 1]); (4%positive, [PBid 1; PBid 0])].

Example C21_ex_analytical_hyps :
  analytical ex_xyT = Some (ProjSpec (mkshared [0; 0] [(3%positive, [0; 0]); (4%positive, [0; 0])] [])
                                     [(0%nat, [PBid 0; PBid 1]); (1%nat, [PBid 1; PBid 0])] []) /\
  shared_everywhere ex_xyT /\ affine_sites ex_xyT ex_xyT_P /\ deps_are_sites ex_xyT /\
  bad_blocks ex_xyT (ProjSpec (mkshared [0; 0] [(3%positive, [0; 0]); (4%positive, [0; 0])] [])
                              [(0%nat, [PBid 0; PBid 1]); (1%nat, [PBid 1; PBid 0])] []) = [].
Proof.
  split; [vm_compute; reflexivity|]. split; [intros b Hb; repeat split; reflexivity|].
  split; [intros b Hb; reflexivity|]. split; [|vm_compute; reflexivity].
  intros b s Hb Hs k. cbn in Hs. inversion Hs. reflexivity.
Qed.

(* map_blocks(f, x, block_id=...) on a 1-d grid of 4 blocks: the literal (b,) is lifted into a seed *)
Definition ex_bid : layer :=
  mklayer [4] [3%positive] [[4]] [Some [2; 2; 2; 2]]
    (fun b => let s := [(3%positive, [nth 0 b 0])] in
              mktask true [mknode 1 10 [LRef (BIn 3); LSeq KTuple [LInt (nth 0 b 0)]] nokw] (BNode 1) s (Some s) s).

Example C21_ex_seed_hyps :
  seed_spec ex_bid = Some (ProjSpec (mkshared [0] [(3%positive, [0])] [(1%positive, 1%nat)]) [(0%nat, [PBid 0])] [TSeq true [TBid 0]]) /\
  seeds_everywhere ex_bid [(1%positive, 1%nat)] [TSeq true [TBid 0]] /\ canon_keys_unique ex_bid /\
  affine_sites ex_bid [(3%positive, [PBid 0])] /\ deps_are_sites ex_bid /\
  analytical ex_bid = None /\ uniform ex_bid = None /\ site_based ex_bid = None.
Proof.
  split; [vm_compute; reflexivity|].
  split; [intros b Hb; cbn; repeat split; auto|].
  split; [intros b Hb; cbn; constructor; [intros [] | constructor]|].
  split; [intros b Hb; reflexivity|].
  split; [intros b s Hb Hs k; cbn in Hs; inversion Hs; reflexivity|].
  repeat split; vm_compute; reflexivity.
Qed.

(* the finding's family satisfies every hypothesis of 6.2 / of the exact derivation EXCEPT sharedness,
   and the interior-positions hypothesis of 6.5 fails for it exactly at block 1 (1 <> 3) *)
Example C21_ex_c21a :
  fast_spec_path c21a_layer = Some (PUniform, MatSpec (mkshared [0] [] []) [[]; []; []; []]) /\
  bad_blocks c21a_layer (MatSpec (mkshared [0] [] []) [[]; []; []; []]) = [[1]] /\
  fuse_wf c21a_layer /\ broadcast_everywhere c21a_layer /\
  probe_blocks [4] = [[0]; [3]; [3]; [2]; [0]] /\ ~ covered 4 0 1.
Proof.
  split; [vm_compute; reflexivity|]. split; [vm_compute; reflexivity|].
  split; [intros b Hb; exists []; cbn; repeat split; auto; intros s0 E; inversion E; reflexivity|].
  split; [intros src E V b Hb k; cbn in E; inversion E; subst; cbn; tauto|].
  split; [reflexivity|]. unfold covered. cbn. lia.
Qed.

(* uniform chunks with a different first and a shorter last block, (2,5,5,5,3): the leaf "size of the
   block" has one value on the interior, so 6.5 applies; here the test (rightly) fails: 2 <> 5 *)
Example C21_ex_interior :
  let L := mklayer [5] [] [] [Some [2; 5; 5; 5; 3]] (fun b => creation_task (nth (Z.to_nat (nth 0 b 0)) [2; 5; 5; 5; 3] 0)) in
  (forall k k', 0 < k < 5 - 1 -> 0 < k' < 5 - 1 -> nth (Z.to_nat k) [2; 5; 5; 5; 3] 0 = nth (Z.to_nat k') [2; 5; 5; 5; 3] 0) /\
  independence_test L = false /\ fast_spec L = None.
Proof.
  split; [|split; vm_compute; reflexivity].
  intros k k' Hk Hk'. assert (E : (k = 1 \/ k = 2 \/ k = 3) /\ (k' = 1 \/ k' = 2 \/ k' = 3)) by lia.
  destruct E as [[?|[?|?]] [?|[?|?]]]; subst; reflexivity.
Qed.

Print Assumptions C21_probe_blocks_spec.
Print Assumptions C21_probe_axis_cover.
Print Assumptions C21_probe_positions.
Print Assumptions C21_probes_in_grid.
Print Assumptions C21_fast_analytical_sound.
Print Assumptions C21_fast_seed_sound.
Print Assumptions C21_fast_uniform_sound.
Print Assumptions C21_fast_site_based_sound.
Print Assumptions C21_fast_paths_test_probes_only.
Print Assumptions C21_probe_test_incomplete_refuted.
Print Assumptions C21_probe_test_incomplete_analytical_refuted.
Print Assumptions C21_probe_test_complete.
Print Assumptions C21_probe_test_complete_interior.
Print Assumptions C21_covered_probed.
Print Assumptions C21_probe_cover_exact_1d.
Print Assumptions C21_fast_analytical_sound_when_covered.
Print Assumptions C21_fast_uniform_sound_when_covered.
Print Assumptions C21_fast_site_based_sound_when_covered.

(* ------------------------------------------------------------------------- *)
(** 6.8 Two further facts about the validation.
        (i) The well-formedness hypotheses of 6.2 (`fuse_wf`, `deps_are_sites`, `canon_keys_unique`)
        follow from a boolean that harness/c21.py evaluates inside Coq on EVERY real family for which
        a fast path is taken.
        (ii) The probes validate the reads of a block as a MULTISET (`sorted(...) == sorted(...)`): the
        binding of reference sites to source blocks is inferred from the bumps, never checked — a
        truly shared family whose two sites of one source are swapped at a PROBED block is accepted
        and gets a wrong record there.  (Model-level: dask_array's block maps are per-site functions
        of the block id, no expression produces this family; harness/c21.py replays it on the real
        FusedBlockwiseLayer with a stub expression.) *)
Theorem C21_family_wf_sound : forall L,
  family_wf_b L = true -> fuse_wf L /\ deps_are_sites L /\ canon_keys_unique L.
Proof. exact family_wf_sound. Qed.

Theorem C21_probe_validation_is_multiset_refuted :
  exists L s b i,
    analytical L = Some s /\ shared_everywhere L /\ deps_are_sites L /\
    nth_error (all_blocks (l_nb L)) i = Some b /\ In b (probe_blocks (l_nb L)) /\
    ~ eff_equiv (eff_fast L (fast_record L s i b)) (eff_slow (l_task L b)).
Proof. exact probe_validation_is_multiset. Qed.

Example C21_ex_family_wf : family_wf_b ex_xyT = true /\ family_wf_b ex_bid = true /\ family_wf_b c21a_src_layer = true.
Proof. repeat split; vm_compute; reflexivity. Qed.

Print Assumptions C21_family_wf_sound.
Print Assumptions C21_probe_validation_is_multiset_refuted.
