(* C21 — The Frisky records path computes the same results as the dask graph (placeholder for the flattening model). *)
From DA Require Import PyBase.
Open Scope Z_scope.
Example C21_placeholder : zsum [1;2;3] = 6. Proof. reflexivity. Qed.
Print Assumptions C21_placeholder.
