(* C21 — "The Frisky records path computes the same results as the dask graph":
   "For every array, the task records from `__frisky_graph__()` (and the plain records plus layer
   chunks from `__frisky_records_chunks__()`) either are declined with NotImplementedError or form
   a complete graph that defines every output key from `__frisky_output_keys__()` and computes
   the same block values as `__dask_graph__()`.  Several collections walked with a shared `seen`
   set together form a complete graph."

   Statements only; the model is theories/Records.v (a small compiler: dask `_task_spec` nodes ->
   flat Frisky records, `flatten` = GraphRecordsLayer.to_task_records / _records /
   _Flattener.resolve; `walk`, `collect`, `collect_shared`, `check_complete` = collect.py), the
   proofs are in theories/RecordsFacts.v.  harness/c21.py reifies every real layer (input graph and
   real output records) and checks `flatten_opt input = output` inside Coq on every run, so the
   theorems below speak about the translation the implementation performs.

   Only the generic translation is in scope (the native Rust layers are absent in the sandbox).
   Standing abstractions (see Records.v): a key is the string `str(_norm_key(key))`, numbered;
   a lifted key "<parent>-subN" is the pair `KSub parent N` and is ASSUMED not to be the string of a
   graph key; functions and literal leaves are opaque tags interpreted by `apply` / `vlit`;
   `kle` is the oracle for Python's order of the key strings (all theorems hold for every `kle`). *)
From Coq Require Import List Bool Arith PArith.
From DA Require Import Graph GraphFacts Records RecordsFacts.
Import ListNotations.

(* ------------------------------------------------------------------------- *)
(** 1. The declared deps of every emitted record are exactly the TaskRefs embedded in its
       args/kwargs: they are `sorted(set(refs))`, duplicate free, and the same set — so an
       executor that resolves every embedded ref never misses a dependency edge, and no edge is
       spurious.  (`data_ok`: DataNode values embed no TaskRef; see the refutation below.) *)
Theorem C21_flatten_deps_exact :
  forall kle g r, data_ok g = true -> In r (flatten kle g) ->
  r_deps r = sorted_deps kle (rec_refs r) /\
  NoDup (r_deps r) /\ (forall x, In x (r_deps r) <-> In x (rec_refs r)).
Proof. exact flatten_deps_exact. Qed.

(* the hypothesis is necessary: `DataNode(value)` is handed over verbatim, with no dep edge, so a
   TaskRef inside a DataNode value is embedded but not declared (replayed against the real
   `_records`: see the report / harness corpus) *)
Theorem C21_deps_exact_without_data_ok_refuted :
  exists kle g r, In r (flatten kle g) /\ exists x, In x (rec_refs r) /\ ~ In x (r_deps r).
Proof.
  exists (fun _ _ => true), [(1%positive, NData (TList [TRef (KG 2%positive)]))].
  eexists. split; [left; reflexivity|]. exists (KG 2%positive). split; [left; reflexivity | intros []].
Qed.

(* ------------------------------------------------------------------------- *)
(** 2. Record keys are pairwise distinct: the lifted "<parent>-subN" keys among themselves and
       from every graph key, given that the graph keys (strings) are distinct; every record key
       is a graph key or a sub-key (N >= 1) of a graph key. *)
Theorem C21_fresh_keys_unique :
  forall kle g, NoDup (map fst g) ->
  NoDup (map r_key (flatten kle g)) /\
  (forall r, In r (flatten kle g) ->
     (exists k, r_key r = KG k /\ In k (map fst g)) \/
     (exists p i, r_key r = KSub p i /\ In p (map fst g) /\ 1 <= i)).
Proof. exact flatten_keys_unique. Qed.

(* ------------------------------------------------------------------------- *)
(** 3. Compiler correctness.  For a translatable source graph with distinct keys that is closed
       and acyclic (certificate form: it has a topological order `os`), executing the flattened
       records in ANY topological order `ot` of their declared deps gives, for every source key,
       the value the source graph computes (inline nodes evaluated recursively), and that value
       exists (nothing is stuck).  V, the interpretation of functions / literals / containers are
       arbitrary; the only law used is `identity(v) = v`. *)
Theorem C21_flatten_sound :
  forall (V : Type) (apply : tag -> list V -> list (tag * V) -> V) (vlit : tag -> V)
         (vlist vtuple : list V -> V) (vdict : list (tag * V) -> V),
  (forall v, apply ident_fn [v] [] = v) ->
  forall kle g os ot,
  NoDup (map fst g) -> supported g = true -> data_ok g = true ->
  topological (src_graph g) os ->
  rtopological (rec_graph (flatten kle g)) ot ->
  forall k, In k (map fst g) ->
    rec_run V apply vlit vlist vtuple vdict (flatten kle g) ot (KG k)
    = src_run V apply vlit vlist vtuple vdict g os k /\
    exists v, src_run V apply vlit vlist vtuple vdict g os k = Some v.
Proof. exact flatten_sound. Qed.

(* The same against DASK's OWN reading of raw Python containers.  In `src_run` above a raw list /
   tuple / dict argument is looked into (a GraphNode inside is evaluated), which is how
   `_Flattener.resolve` and Frisky read it; dask itself hands a raw container over verbatim, a
   GraphNode or TaskRef inside stays an object (`vquote`: its value as data, arbitrary).  On
   `raw_ok` graphs — raw containers hold only literals and raw containers — both readings agree,
   so the records compute what dask computes.  harness/c21.py evaluates `raw_ok` inside Coq on every
   real layer and reports a layer that takes the generic path and violates it. *)
Theorem C21_flatten_sound_dask :
  forall (V : Type) (apply : tag -> list V -> list (tag * V) -> V) (vlit : tag -> V)
         (vlist vtuple : list V -> V) (vdict : list (tag * V) -> V) (vquote : arg -> V),
  (forall v, apply ident_fn [v] [] = v) ->
  forall kle g os ot,
  NoDup (map fst g) -> supported g = true -> data_ok g = true -> raw_ok g = true ->
  topological (src_graph g) os ->
  rtopological (rec_graph (flatten kle g)) ot ->
  forall k, In k (map fst g) ->
    rec_run V apply vlit vlist vtuple vdict (flatten kle g) ot (KG k)
    = src_run_dask V apply vlit vlist vtuple vdict vquote g os k /\
    exists v, src_run_dask V apply vlit vlist vtuple vdict vquote g os k = Some v.
Proof. exact flatten_sound_dask. Qed.

(* such an order of the records always exists: the lifted sub-tasks of a key, in the order
   `_Flattener` appended them, right before the key itself *)
Theorem C21_records_order_exists :
  forall kle g os, NoDup (map fst g) -> supported g = true -> topological (src_graph g) os ->
  rtopological (rec_graph (flatten kle g)) (flat_order kle g os).
Proof. exact flat_order_topological. Qed.

(* and all of them compute the same store (every key, including the lifted ones) *)
Theorem C21_records_confluent :
  forall (V : Type) (apply : tag -> list V -> list (tag * V) -> V) (vlit : tag -> V)
         (vlist vtuple : list V -> V) (vdict : list (tag * V) -> V) kle g o1 o2,
  NoDup (map fst g) -> data_ok g = true ->
  rtopological (rec_graph (flatten kle g)) o1 -> rtopological (rec_graph (flatten kle g)) o2 ->
  forall x, rec_run V apply vlit vlist vtuple vdict (flatten kle g) o1 x
          = rec_run V apply vlit vlist vtuple vdict (flatten kle g) o2 x.
Proof. exact rec_run_confluent. Qed.

(* ------------------------------------------------------------------------- *)
(** 4. Completeness (`_check_complete`).  For a translatable graph without self-aliases the
       dangling deps of the records are exactly the source references to undefined keys; hence
       the check passes iff the source graph is closed; and every source key is produced. *)
Theorem C21_complete :
  forall kle g, no_self_alias g -> supported g = true ->
  (check_complete (flatten kle g) = true <-> closed (src_graph g)) /\
  (forall x, In x (dangling (flatten kle g)) <->
             exists d, x = KG d /\ (exists k, edge (src_graph g) k d) /\ ~ defined (src_graph g) d) /\
  (forall k, defined (src_graph g) k -> In (KG k) (produced (flatten kle g))).
Proof.
  intros kle g Hs Hsup. split; [apply check_complete_closed; assumption|].
  split; [apply dangling_spec; assumption | intros k; apply flatten_defines; assumption].
Qed.

(* a self-alias emits no record (the scheduler is supposed to hold the data): a closed source
   graph with a referenced self-alias is therefore reported incomplete — the hypothesis of
   C21_complete is necessary, and by design such a graph is declined *)
Theorem C21_complete_self_alias_refuted :
  exists kle g, closed (src_graph g) /\ supported g = true /\ check_complete (flatten kle g) = false.
Proof.
  exists (fun _ _ => true), [(1%positive, NAlias 1%positive); (2%positive, NAlias 1%positive)].
  split; [apply closed_b_spec; reflexivity | split; reflexivity].
Qed.

(* ------------------------------------------------------------------------- *)
(** 5. The walk.  `_walk_records` never runs out of fuel in the model; one collection with a
       fresh `seen` emits every reachable layer exactly once and returns the translation of the
       combined graph iff every layer is translatable and the result is complete (otherwise it
       declines); several collections with ONE shared `seen` emit each layer reachable from some
       root exactly once, the union of their records is the translation of the combined source
       graph, equal as a set to what one walk over all roots yields, and it is complete exactly
       when the combined source graph is closed. *)
Theorem C21_walk_total : forall d roots seen, exists r, walk d roots seen = Some r.
Proof. exact walk_total. Qed.

Theorem C21_collect_single :
  forall kle d root,
  exists seen' em,
    walk d [root] [] = Some (seen', em) /\
    NoDup em /\ (forall nm, In nm em <-> reach d [root] nm) /\
    collect kle d root None =
    (if supported (combined d em) && check_complete (flatten kle (combined d em))
     then Some (seen', flatten kle (combined d em)) else None).
Proof. exact collect_single_spec. Qed.

Theorem C21_shared_seen :
  forall kle d roots seen' rs,
  collect_shared kle d roots [] = Some (seen', rs) ->
  exists em,
    NoDup em /\ (forall nm, In nm em <-> reach d roots nm) /\
    rs = flatten kle (combined d em) /\ supported (combined d em) = true /\
    (forall seen1 em1, walk d roots [] = Some (seen1, em1) ->
       forall r, In r rs <-> In r (flatten kle (combined d em1))) /\
    (no_self_alias (combined d em) ->
       (check_complete rs = true <-> closed (src_graph (combined d em)))).
Proof. exact collect_shared_spec. Qed.

(* the shared walk declines only when a reachable layer is not translatable *)
Theorem C21_shared_seen_total :
  forall kle d roots seen,
  (forall nm, reach d roots nm -> supported (graph_of d nm) = true) ->
  exists res, collect_shared kle d roots seen = Some res.
Proof. exact collect_shared_total. Qed.

(* ------------------------------------------------------------------------- *)
(** Examples: the hypotheses are satisfiable on a non-trivial graph, and the statements compute. *)
Open Scope positive_scope.

(* concatenate3([[getitem(a0, ..), a1]]) with a nested inline task, a kwarg, a raw dict holding an
   inline task, an alias, a DataNode and a container node *)
Definition ex_g : sgraph :=
  [ (1, NData (TLit 9));
    (2, NAlias 1);
    (3, NTask 5 [ASeq ContList [ASeq ContList [ATask 6 [ARef 2; ATask 7 [AAlias 1] [(9, ALit 4)]] []; ARef 2]];
                 ADict [(8, ATask 6 [AData (TTuple [TLit 3; TLit 4])] [])]]
              [(10, ASeq RawTuple [ALit 2; ARef 1])]);
    (4, NCont false [ARef 3; ATask 7 [ARef 3] []]) ].
Definition ex_kle (a b : rkey) : bool :=
  match a, b with
  | KG k, KG l => Pos.leb k l
  | KG _, KSub _ _ => true
  | KSub _ _, KG _ => false
  | KSub p n, KSub q m => if Pos.eqb p q then Nat.leb n m else Pos.leb p q
  end.
Definition ex_os : list key := [1; 2; 3; 4].

Example C21_ex_hyps :
  NoDup (map fst ex_g) /\ supported ex_g = true /\ data_ok ex_g = true /\ no_self_alias ex_g /\
  topological (src_graph ex_g) ex_os.
Proof.
  split; [apply nodup_b_NoDup; reflexivity|]. split; [reflexivity|]. split; [reflexivity|].
  split; [apply no_self_alias_b_spec; reflexivity | apply topo_check_topological; reflexivity].
Qed.

Example C21_ex_flatten :
  map r_key (flatten ex_kle ex_g) =
    [KG 1; KG 2; KG 3; KSub 3 2; KSub 3 1; KSub 3 3; KG 4; KSub 4 1] /\
  flat_order ex_kle ex_g ex_os = [KG 1; KG 2; KSub 3 2; KSub 3 1; KSub 3 3; KG 3; KSub 4 1; KG 4] /\
  map r_deps (flatten ex_kle ex_g) =
    [[]; [KG 1]; [KG 1; KG 2; KSub 3 1; KSub 3 3]; [KG 1]; [KG 2; KSub 3 2]; []; [KG 3; KSub 4 1]; [KG 3]] /\
  check_complete (flatten ex_kle ex_g) = true.
Proof. vm_compute. repeat split; reflexivity. Qed.

(* a concrete interpretation: values are trees that record exactly what was applied to what *)
Inductive exV := XLit (t : tag) | XList (l : list exV) | XTuple (l : list exV)
               | XDict (l : list (tag * exV)) | XApp (f : tag) (a : list exV) (k : list (tag * exV)).
Definition ex_apply (f : tag) (a : list exV) (k : list (tag * exV)) : exV :=
  match Pos.eqb f ident_fn, a, k with true, [v], [] => v | _, _, _ => XApp f a k end.
Lemma ex_apply_ident : forall v, ex_apply ident_fn [v] [] = v.
Proof. reflexivity. Qed.

(* records path (two different topological orders) = source graph, on every key, by computation *)
Example C21_ex_run :
  let run := rec_run exV ex_apply XLit XList XTuple XDict (flatten ex_kle ex_g) in
  let src := src_run exV ex_apply XLit XList XTuple XDict ex_g ex_os in
  forallb (fun k => match run (flat_order ex_kle ex_g ex_os) (KG k), src k with
                    | Some a, Some b => true | _, _ => false end) ex_os = true /\
  map (fun k => run (flat_order ex_kle ex_g ex_os) (KG k)) ex_os = map src ex_os /\
  map (fun k => run [KG 1; KSub 3 3; KG 2; KSub 3 2; KSub 3 1; KG 3; KSub 4 1; KG 4] (KG k)) ex_os = map src ex_os.
Proof. vm_compute. repeat split; reflexivity. Qed.

(* ... and by the theorem *)
Example C21_ex_sound :
  forall k, In k ex_os ->
    rec_run exV ex_apply XLit XList XTuple XDict (flatten ex_kle ex_g) (flat_order ex_kle ex_g ex_os) (KG k)
    = src_run exV ex_apply XLit XList XTuple XDict ex_g ex_os k.
Proof.
  destruct C21_ex_hyps as (H1 & H2 & H3 & _ & H5). intros k Hk.
  apply (C21_flatten_sound exV ex_apply XLit XList XTuple XDict ex_apply_ident ex_kle ex_g ex_os
           (flat_order ex_kle ex_g ex_os) H1 H2 H3 H5 (C21_records_order_exists ex_kle ex_g ex_os H1 H2 H5) k Hk).
Qed.

(* `raw_ok` is necessary: a Task inside a RAW dict (this is the shape of FusedBlockwise's
   `_execute_subgraph({key: Task(...)}, ...)`) is lifted and executed by the records path, whereas
   dask passes the Task object as data.  (The implementation knows: "The generic GraphRecordsLayer
   adapter mistranslates this", _frisky/fused_blockwise.py; FusedBlockwise has a native layer.) *)
Theorem C21_sound_without_raw_ok_refuted :
  exists (vquote : arg -> exV) g os ot k,
    NoDup (map fst g) /\ supported g = true /\ data_ok g = true /\
    topological (src_graph g) os /\ rtopological (rec_graph (flatten ex_kle g)) ot /\ In k (map fst g) /\
    rec_run exV ex_apply XLit XList XTuple XDict (flatten ex_kle g) ot (KG k)
    <> src_run_dask exV ex_apply XLit XList XTuple XDict vquote g os k.
Proof.
  exists (fun _ => XLit 99), [(1, NTask 5 [ADict [(8, ATask 6 [] [])]] [])], [1].
  exists (flat_order ex_kle [(1, NTask 5 [ADict [(8, ATask 6 [] [])]] [])] [1]), 1.
  assert (T : topological (src_graph [(1, NTask 5 [ADict [(8, ATask 6 [] [])]] [])]) [1])
    by (apply topo_check_topological; reflexivity).
  assert (N : NoDup (map fst [(1, NTask 5 [ADict [(8, ATask 6 [] [])]] [])]))
    by (apply nodup_b_NoDup; reflexivity).
  split; [exact N|]. split; [reflexivity|]. split; [reflexivity|]. split; [exact T|].
  split; [apply C21_records_order_exists; [exact N | reflexivity | exact T]|].
  split; [left; reflexivity|]. vm_compute. discriminate.
Qed.

(* a dangling source reference is reported, and only it *)
Example C21_ex_dangling :
  dangling (flatten ex_kle [(1, NTask 5 [ARef 7; ATask 6 [ARef 8; ARef 1] []] [])]) = [KG 7; KG 8].
Proof. reflexivity. Qed.

(* three expression nodes 1 -> {2, 3} -> 4 (a diamond) and a second root 5 -> 3: the shared walk
   emits 4 once; the union equals one walk over both roots as a set *)
Definition ex_dag : dag :=
  [ mklnode 1 [(11, NTask 5 [ARef 12; ARef 13] [])] [2; 3];
    mklnode 2 [(12, NTask 6 [ARef 14] [])] [4];
    mklnode 3 [(13, NTask 6 [ATask 7 [ARef 14] []] [])] [4];
    mklnode 4 [(14, NData (TLit 2))] [];
    mklnode 5 [(15, NTask 5 [ARef 13] [])] [3] ].

Example C21_ex_walk :
  walk ex_dag [1] [] = Some ([2; 4; 3; 1], [1; 3; 4; 2]) /\
  walk_shared ex_dag [1; 5] [] = Some ([5; 2; 4; 3; 1], [1; 3; 4; 2; 5]) /\
  walk ex_dag [1; 5] [] = Some ([2; 1; 4; 3; 5], [5; 3; 4; 1; 2]).
Proof. vm_compute. repeat split; reflexivity. Qed.

Example C21_ex_collect :
  (exists rs, collect ex_kle ex_dag 1 None = Some ([2; 4; 3; 1], rs) /\ length rs = 5%nat) /\
  (* alone, with a shared set, the second collection contributes only its own layer ... *)
  (exists s rs, collect_shared ex_kle ex_dag [1; 5] [] = Some (s, rs) /\ length rs = 6%nat /\ check_complete rs = true) /\
  (* ... whose records are not complete by themselves *)
  (exists s rs, collect ex_kle ex_dag 5 (Some [2; 4; 3; 1]) = Some (s, rs) /\ check_complete rs = false) /\
  (* a layer that dangles is declined *)
  collect ex_kle [mklnode 1 [(11, NTask 5 [ARef 12] [])] []] 1 None = None.
Proof.
  split; [eexists; split; [vm_compute; reflexivity | reflexivity]|].
  split; [do 2 eexists; split; [vm_compute; reflexivity | split; reflexivity]|].
  split; [do 2 eexists; split; [vm_compute; reflexivity | reflexivity] | reflexivity].
Qed.

Print Assumptions C21_flatten_deps_exact.
Print Assumptions C21_deps_exact_without_data_ok_refuted.
Print Assumptions C21_fresh_keys_unique.
Print Assumptions C21_flatten_sound.
Print Assumptions C21_flatten_sound_dask.
Print Assumptions C21_sound_without_raw_ok_refuted.
Print Assumptions C21_records_order_exists.
Print Assumptions C21_records_confluent.
Print Assumptions C21_complete.
Print Assumptions C21_complete_self_alias_refuted.
Print Assumptions C21_walk_total.
Print Assumptions C21_collect_single.
Print Assumptions C21_shared_seen.
Print Assumptions C21_shared_seen_total.
Print Assumptions C21_ex_sound.
