(* C10 — "Executing an array's task graph in any topological order, serially or with concurrent
   threads, yields the same results.  No task modifies the value of any task it depends on,
   and computing never modifies the NumPy arrays or array-likes the user passed in as sources."

   Statements only; proofs in theories/GraphFacts.v.  Two models (theories/Graph.v):
   * PURE tasks: the result of a task is a function of the values of its dependencies
     (`task`, `run`, and for thread pools `crun` over Start/Finish events);
   * a HEAP model in which results live in buffers, may be views / aliases of the results of
     dependencies or of the user's source buffers, and tasks may write buffers in place.
     `well_behaved` = every task writes only the buffer it allocated itself.
   The theorems hold for all graphs, all value types and all task functions.  The harness
   checks on real graphs that the hypotheses hold of dask's tasks (no task's execution changes
   the bytes of its inputs or of the sources) and that shuffled topological orders and the
   threaded scheduler agree. *)
From Coq Require Import List Bool Arith PArith NArith ZArith.
From DA Require Import Graph GraphFacts.
Import ListNotations.

(* ---- pure tasks ---- *)

(* any two topological orders compute the same value for every key *)
Theorem C10_confluence :
  forall (V : Type) (g : list (task V)) (o1 o2 : list key),
  NoDup (map t_key g) ->
  topological (dep_graph g) o1 -> topological (dep_graph g) o2 ->
  forall k, lookup (run g o1) k = lookup (run g o2) k.
Proof. exact run_confluent. Qed.

(* in a topological order no task is ever stuck on a missing dependency: every key of the
   graph gets a value, no other key does *)
Theorem C10_no_stuck :
  forall (V : Type) (g : list (task V)) (o : list key),
  NoDup (map t_key g) -> topological (dep_graph g) o ->
  forall k, defined (dep_graph g) k -> exists v, lookup (run g o) k = Some (Val v).
Proof. exact run_no_stuck. Qed.

Theorem C10_domain :
  forall (V : Type) (g : list (task V)) (o : list key),
  topological (dep_graph g) o ->
  forall k, ~ defined (dep_graph g) k -> lookup (run g o) k = None.
Proof. exact run_domain. Qed.

(* the common result is THE solution of the tasks' defining equations: the final store
   satisfies them, and on an acyclic graph they have only one solution *)
Theorem C10_run_satisfies :
  forall (V : Type) (g : list (task V)) (o : list key),
  NoDup (map t_key g) -> topological (dep_graph g) o -> satisfies g (run g o).
Proof. exact run_satisfies. Qed.

Theorem C10_unique_solution :
  forall (V : Type) (g : list (task V)) (o : list key) (s1 s2 : store V),
  topological (dep_graph g) o -> satisfies g s1 -> satisfies g s2 ->
  forall k, In k o -> s1 k = s2 k.
Proof. exact satisfies_unique. Qed.

(* concurrent threads: a task reads its dependencies when it Starts and publishes when it
   Finishes, other tasks' events interleave freely; every legal schedule publishes the values
   of the serial run in any topological order *)
Theorem C10_concurrent :
  forall (V : Type) (g : list (task V)) (sched : list event) (o : list key),
  NoDup (map t_key g) -> schedule_ok g sched -> topological (dep_graph g) o ->
  forall k, lookup (c_store (crun g sched)) k = lookup (run g o) k.
Proof. exact crun_confluent. Qed.

(* legal schedules exist whenever a topological order does (the serial one) *)
Theorem C10_serial_schedule_ok :
  forall (V : Type) (g : list (task V)) (o : list key),
  topological (dep_graph g) o -> schedule_ok g (serial o).
Proof. exact serial_schedule_ok. Qed.

(* ---- heap model ---- *)

(* step non-interference: one step of a well-behaved graph changes no buffer except the
   running task's own (so: not the sources, not the buffers of its dependencies) *)
Theorem C10_step_frame :
  forall (C : Type) (g : list (htask C)) (s : state C) (k : key) (b : buf),
  well_behaved g -> b <> Own k -> st_heap (hstep g s k) b = st_heap s b.
Proof. exact hstep_frame. Qed.

(* computing never modifies the user's source buffers — for ANY execution order *)
Theorem C10_sources_never_modified :
  forall (C : Type) (g : list (htask C)) (order : list key) (h0 : heap C) (i : nat),
  well_behaved g -> st_heap (hrun g order h0) (Src i) = h0 (Src i).
Proof. exact sources_never_modified. Qed.

(* no task modifies the value of a task computed before it (in particular of a dependency),
   even when that value is a view of / the same object as somebody else's buffer *)
Theorem C10_computed_values_never_change :
  forall (C : Type) (g : list (htask C)) (pre post : list key) (h0 : heap C) (k : key),
  well_behaved g -> NoDup (pre ++ post) -> In k pre ->
  hvalue (hrun g (pre ++ post) h0) k = hvalue (hrun g pre h0) k.
Proof. exact computed_values_never_change. Qed.

(* hence the pure-function abstraction is valid for the heap semantics ... *)
Theorem C10_heap_refines_pure :
  forall (C : Type) (g : list (htask C)) (order : list key) (h0 : heap C),
  well_behaved g -> NoDup order ->
  forall k, hvalue (hrun g order h0) k = lookup (run (abstract h0 g) order) k.
Proof. exact heap_refines_pure. Qed.

(* ... and the final contents of every task's result are the same for all topological orders *)
Theorem C10_heap_confluence :
  forall (C : Type) (g : list (htask C)) (o1 o2 : list key) (h0 : heap C),
  well_behaved g -> NoDup (map h_key g) ->
  topological (hdep_graph g) o1 -> topological (hdep_graph g) o2 ->
  forall k, hvalue (hrun g o1 h0) k = hvalue (hrun g o2 h0) k.
Proof. exact heap_confluent. Qed.

Theorem C10_heap_no_stuck :
  forall (C : Type) (g : list (htask C)) (o : list key) (h0 : heap C),
  well_behaved g -> NoDup (map h_key g) -> topological (hdep_graph g) o ->
  forall k, defined (hdep_graph g) k -> exists v, hvalue (hrun g o h0) k = Some (Val v).
Proof. exact heap_no_stuck. Qed.

Theorem C10_well_behaved_b_spec :
  forall (C : Type) (g : list (htask C)), well_behaved_b g = true <-> well_behaved g.
Proof. exact well_behaved_b_spec. Qed.

(* ---- Examples ---- *)
Open Scope positive_scope.

(* a 5-task diamond over Z:  1 = 3;  2 = x1 + 1;  3 = x1 * 2;  4 = x2 - x3;  5 = x4 * x4 *)
Definition nthZ (l : list Z) (i : nat) : Z := nth i l 0%Z.
Definition C10_diamond : list (task Z) :=
  [ {| t_key := 1; t_deps := [];     t_fun := fun _ => 3%Z |};
    {| t_key := 2; t_deps := [1];    t_fun := fun v => (nthZ v 0 + 1)%Z |};
    {| t_key := 3; t_deps := [1];    t_fun := fun v => (nthZ v 0 * 2)%Z |};
    {| t_key := 4; t_deps := [2; 3]; t_fun := fun v => (nthZ v 0 - nthZ v 1)%Z |};
    {| t_key := 5; t_deps := [4];    t_fun := fun v => (nthZ v 0 * nthZ v 0)%Z |} ].
Definition C10_o1 := [1; 2; 3; 4; 5].
Definition C10_o2 := [1; 3; 2; 4; 5].
Definition C10_probe := [1; 2; 3; 4; 5; 6].

(* the hypotheses of C10_confluence hold of the two orders ... *)
Example C10_ex_hyp_nodup : NoDup (map t_key C10_diamond).
Proof. apply nodup_b_NoDup. vm_compute. reflexivity. Qed.
Example C10_ex_hyp_o1 : topological (dep_graph C10_diamond) C10_o1.
Proof. apply topo_check_topological. vm_compute. reflexivity. Qed.
Example C10_ex_hyp_o2 : topological (dep_graph C10_diamond) C10_o2.
Proof. apply topo_check_topological. vm_compute. reflexivity. Qed.
(* ... and the two runs give the same store (key 6 is not in the graph) *)
Example C10_ex_same_store :
  map (run C10_diamond C10_o1) C10_probe = map (run C10_diamond C10_o2) C10_probe
  /\ map (run C10_diamond C10_o1) C10_probe
     = [Some (Val 3); Some (Val 4); Some (Val 6); Some (Val (-2)); Some (Val 4); None]%Z.
Proof. vm_compute. split; reflexivity. Qed.
(* a non-topological order gets stuck *)
Example C10_ex_bad_order_stuck : run C10_diamond [1; 2; 4; 3; 5] 4 = Some Stuck.
Proof. vm_compute. reflexivity. Qed.

(* an interleaved thread-pool schedule: 2 and 3 run concurrently, 3 finishes first *)
Definition C10_sched : list event :=
  [Start 1; Finish 1; Start 2; Start 3; Finish 3; Finish 2; Start 4; Finish 4; Start 5; Finish 5].
Example C10_ex_schedule_ok : schedule_ok C10_diamond C10_sched.
Proof.
  unfold schedule_ok, C10_sched, C10_diamond. cbn [sched_ok_from].
  repeat match goal with
  | |- _ /\ _ => split
  | |- ~ In _ _ => cbv; intuition discriminate
  | |- In _ _ => cbv; tauto
  | |- forall t, In t _ -> t_key t = _ -> incl _ _ =>
      let t := fresh "t" in let H := fresh "H" in let E := fresh "E" in
      intros t H E; cbn in H;
      repeat (destruct H as [H|H]; [subst t; cbn in E; try discriminate E|]); try contradiction;
      cbv; intuition discriminate
  end.
  intro k. cbv. intuition.
Qed.
Example C10_ex_concurrent_same_store :
  map (c_store (crun C10_diamond C10_sched)) C10_probe = map (run C10_diamond C10_o1) C10_probe.
Proof. vm_compute. reflexivity. Qed.

(* heap example: source buffer 0; 1 = view of the source; 2 = view of 1; 3 = fresh from 1;
   4 = fresh from 2,3 (scribbling on its own buffer first); 5 = alias of 4 *)
Definition hz (k : key) (deps : list key) (e : effect) (f : list Z -> Z) (v : Z -> Z) (w : list buf) : htask Z :=
  {| h_key := k; h_deps := deps; h_eff := e; h_fun := f; h_view := v; h_writes := w;
     h_wval := fun _ _ old => (old + 1000)%Z |}.
Definition C10_heap_diamond : list (htask Z) :=
  [ hz 1 []     (ViewOfSource 0) (fun _ => 0%Z) (fun c => (c * 10)%Z) [];
    hz 2 [1]    (ViewOf 0)       (fun _ => 0%Z) (fun c => (c + 1)%Z) [];
    hz 3 [1]    Fresh            (fun v => (nthZ v 0 * 2)%Z) (fun c => c) [];
    hz 4 [2; 3] Fresh            (fun v => (nthZ v 0 - nthZ v 1)%Z) (fun c => c) [Own 4];
    hz 5 [4]    (SameAs 0)       (fun _ => 0%Z) (fun c => c) [] ].
Definition C10_h0 : heap Z := fun b => match b with Src _ => 7%Z | Own _ => 0%Z end.

Example C10_ex_heap_well_behaved : well_behaved C10_heap_diamond.
Proof. apply well_behaved_b_spec. vm_compute. reflexivity. Qed.
Example C10_ex_heap_same :
  map (hvalue (hrun C10_heap_diamond C10_o1 C10_h0)) C10_probe
  = map (hvalue (hrun C10_heap_diamond C10_o2 C10_h0)) C10_probe
  /\ map (hvalue (hrun C10_heap_diamond C10_o1 C10_h0)) C10_probe
     = [Some (Val 70); Some (Val 71); Some (Val 140); Some (Val (-69)); Some (Val (-69)); None]%Z
  /\ st_heap (hrun C10_heap_diamond C10_o1 C10_h0) (Src 0) = 7%Z.
Proof. vm_compute. repeat split; reflexivity. Qed.

(* the hypothesis matters: if task 2 writes into the buffer of its dependency 1 in place, task 3
   sees a different value depending on whether it runs before or after 2 *)
Definition C10_heap_mutating : list (htask Z) :=
  [ hz 1 []  Fresh (fun _ => 5%Z) (fun c => c) [];
    hz 2 [1] Fresh (fun v => (nthZ v 0 + 1)%Z) (fun c => c) [Own 1];
    hz 3 [1] Fresh (fun v => (nthZ v 0 * 2)%Z) (fun c => c) [] ].
Example C10_ex_mutation_not_well_behaved : well_behaved_b C10_heap_mutating = false.
Proof. vm_compute. reflexivity. Qed.
Example C10_ex_mutation_breaks_confluence :
  hvalue (hrun C10_heap_mutating [1; 2; 3] C10_h0) 3 = Some (Val 2010%Z) /\
  hvalue (hrun C10_heap_mutating [1; 3; 2] C10_h0) 3 = Some (Val 10%Z).
Proof. vm_compute. split; reflexivity. Qed.
(* ... and a task that writes into a source buffer modifies the user's array *)
Definition C10_heap_clobber : list (htask Z) :=
  [ hz 1 [] (ViewOfSource 0) (fun _ => 0%Z) (fun c => c) [Src 0] ].
Example C10_ex_source_clobbered : st_heap (hrun C10_heap_clobber [1] C10_h0) (Src 0) = 1007%Z.
Proof. vm_compute. reflexivity. Qed.

Close Scope positive_scope.

Print Assumptions C10_confluence.
Print Assumptions C10_no_stuck.
Print Assumptions C10_domain.
Print Assumptions C10_run_satisfies.
Print Assumptions C10_unique_solution.
Print Assumptions C10_concurrent.
Print Assumptions C10_serial_schedule_ok.
Print Assumptions C10_step_frame.
Print Assumptions C10_sources_never_modified.
Print Assumptions C10_computed_values_never_change.
Print Assumptions C10_heap_refines_pure.
Print Assumptions C10_heap_confluence.
Print Assumptions C10_heap_no_stuck.
Print Assumptions C10_well_behaved_b_spec.
Print Assumptions C10_ex_schedule_ok.
