(* C10 — placeholder until the graph layer (Graph.v) lands. *)
From DA Require Import PyBase.
Open Scope Z_scope.
Example C10_placeholder : zsum [1;2;3] = 6. Proof. reflexivity. Qed.
Print Assumptions C10_placeholder.
