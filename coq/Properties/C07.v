(* C07 — Names are deterministic and survive serialization (placeholder for the naming model). *)
From DA Require Import PyBase.
Open Scope Z_scope.
Example C07_placeholder : zsum [1;2;3] = 6. Proof. reflexivity. Qed.
Print Assumptions C07_placeholder.
