(* C07 — Names are deterministic and survive serialization.
   Statements only; model in theories/Names.v, proofs in theories/NamesFacts.v. *)
From Coq Require Import ZArith List Bool.
From DA Require Import Names NamesFacts.
Import ListNotations.
Open Scope Z_scope.

(* `name_of` is a FUNCTION of the expression tree, the tokenizer H and the id() oracle `addr`; nothing else
   (no counters, no construction order, no registry state) enters.  Object identity only enters through
   operands that have no deterministic token ((type(v), id(v)) / lock ids): without such operands two
   builds of the same program — in this process or in one with entirely different addresses — get the
   same name and the same token. *)
Theorem C07_name_deterministic :
  forall (hash : Type) (H Hp : list (harg hash) -> hash) (pfx_getitem : Z) (addr addr' : Z -> Z) (e : expr),
    obj_free e ->
    name_of hash H Hp addr pfx_getitem e = name_of hash H Hp addr' pfx_getitem e /\
    token_of hash H Hp addr pfx_getitem e = token_of hash H Hp addr' pfx_getitem e.
Proof. exact name_deterministic. Qed.

(* the documented exception: an identity-tokenised operand leaks the address into the name *)
Theorem C07_identity_operand_leaks :
  forall (hash : Type) (H Hp : list (harg hash) -> hash) (pfx_getitem : Z) (addr addr' : Z -> Z),
    (forall a b, H a = H b -> a = b) -> addr 0 <> addr' 0 ->
    name_of hash H Hp addr pfx_getitem (Gen 0 0 (AObj 0 ANil)) <>
    name_of hash H Hp addr' pfx_getitem (Gen 0 0 (AObj 0 ANil)).
Proof. exact identity_operand_leaks. Qed.

(* reconstruct (reduce e): ArrayExpr.__reduce__ ships (type, operands, deterministic_token, cached
   properties); Expr._reconstruct rebuilds with _determ_token=token and restores the cache.  Whatever the
   RECEIVING process' tokenizer H' is, name and token survive (the name is carried, or recomputed from the
   carried token / the reconstructed child's name through the process-independent pickle hash Hp). *)
Theorem C07_reduce_roundtrip :
  forall (hash : Type) (H Hp : list (harg hash) -> hash) (addr : Z -> Z) (pfx_getitem : Z)
         (H' : list (harg hash) -> hash) (e : expr),
    rt_name hash H Hp addr pfx_getitem H' true e = name_of hash H Hp addr pfx_getitem e /\
    rt_token hash H Hp addr pfx_getitem e = token_of hash H Hp addr pfx_getitem e.
Proof. exact roundtrip_with_cache. Qed.

(* without the cached properties (_pickle_functools_cache = False) the name is recomputed: that is the same
   name when the receiving tokenizer agrees with the sender's and no Random node's generator has been drawn
   from since (recomputing `_info` re-draws from the generator in its pickled state; with the cache — the
   real configuration — nothing is recomputed) *)
Theorem C07_reduce_roundtrip_recomputed :
  forall (hash : Type) (H Hp : list (harg hash) -> hash) (addr : Z -> Z) (pfx_getitem : Z)
         (H' : list (harg hash) -> hash) (e : expr),
    (forall l, H' l = H l) -> rng_unmoved e ->
    rt_name hash H Hp addr pfx_getitem H' false e = name_of hash H Hp addr pfx_getitem e.
Proof. exact roundtrip_without_cache. Qed.

(* ---- examples ---- *)
Definition ex7_src : expr := Gen 1 10 (ALit 100 (ALit 101 ANil)).
Definition ex7_tree : expr :=
  Gen 3 12 (AChild (Reduction 2 11 (Rechunk (SrcRegion ex7_src 0 200 200) 300 0 0 0 0) 400 401 402 0 403 404 0 1 1 ANil 0)
              (AChild (Random 4 7 7 13 500 501 0 ANil) (ALit 1 ANil))).

Example C07_obj_free_example : obj_free ex7_tree /\ rng_unmoved ex7_tree.
Proof. cbn. tauto. Qed.

(* a receiving process whose tokenizer is DIFFERENT (tag 999) still sees the same names *)
Example C07_roundtrip_example :
  ser_name (rt_name (list Z) (Hx 100) (Hx 101) (fun o => o) 0 (Hx 999) true (TasksRechunk ex7_tree 1 2 3)) =
  xname (TasksRechunk ex7_tree 1 2 3) /\
  ser_name (rt_name (list Z) (Hx 100) (Hx 101) (fun o => o) 0 (Hx 100) false (TasksRechunk ex7_tree 1 2 3)) =
  xname (TasksRechunk ex7_tree 1 2 3) /\
  (* ... a Random node whose generator moved on (state 0 -> 2) would not survive RECOMPUTATION (it does survive
     in reality: _info is cached) *)
  zlist_eqb (ser_name (rt_name (list Z) (Hx 100) (Hx 101) (fun o => o) 0 (Hx 100) false (draw 0))) (xname (draw 0)) = false.
Proof. vm_compute. repeat split. Qed.

Print Assumptions C07_name_deterministic.
Print Assumptions C07_identity_operand_leaks.
Print Assumptions C07_reduce_roundtrip.
Print Assumptions C07_reduce_roundtrip_recomputed.
Print Assumptions C07_obj_free_example.
Print Assumptions C07_roundtrip_example.
