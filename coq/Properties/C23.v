(* C23 — A random array is one fixed realization (placeholder for the seed-derivation model). *)
From DA Require Import PyBase.
Open Scope Z_scope.
Example C23_placeholder : zsum [1;2;3] = 6. Proof. reflexivity. Qed.
Print Assumptions C23_placeholder.
