(* C23 — "A random array is one fixed realization."

   Statements only; model in theories/RngModel.v (the generator's SeedSequence as a state machine:
   spawn(n) hands out the children (entropy, c), ..., (entropy, c + n - 1) and advances the counter;
   a Random node derives one seed per block ONCE, when it is constructed, and caches them; block i
   of the realization is draw(seed_i, size_i) for numpy's injective oracle `draw`), proofs in
   theories/RngModelFacts.v.  The harness (harness/c23.py, model_family) reads the real per-block
   SeedSequences out of Random nodes for generated (seed, shapes, chunkings) histories of one
   generator and compares entropy / spawn keys / final n_children_spawned with `arrays_ok`. *)
From Coq Require Import List Bool ZArith.
From DA Require Import PyBase RngModel RngModelFacts.
Import ListNotations.
Open Scope Z_scope.

(* every derived program (any function of the realization's blocks: slices, rechunks, elemwise,
   reductions, fused or not) reads the blocks drawn from the seeds fixed at construction,
   whatever the generator does afterwards (further arrays `later`) and however often it is
   recomputed: `eval` is a function of the node alone; one block per chunk *)
Theorem C23_seeds_fixed :
  forall (B : Type) (draw : seed -> Z -> B) (R : Type) (prog : list B -> R) g sizes later,
  let '(n, g1) := mk_random g sizes in
  let '(_, g2) := mk_arrays g1 later in
  eval draw prog n =
    prog (map (fun p => draw (fst p) (snd p)) (combine (fst (spawn g (length sizes))) sizes)) /\
  length (realization draw n) = length sizes.
Proof. exact seeds_fixed. Qed.

(* same root seed, same sequence of (shape, chunks): the j-th array has the same seeds, in closed
   form: entropy = the root seed, spawn keys = the block indices shifted by the number of blocks of
   all earlier arrays; hence the same realization *)
Theorem C23_rebuild_same :
  forall root sizess j, (j < length sizess)%nat ->
  r_seeds (nth j (fst (mk_arrays (fresh_gen root) sizess)) {| r_sizes := []; r_seeds := [] |}) =
  map (fun i => (root, (fold_right (fun s a => length s + a) 0 (firstn j sizess) + i)%nat))
      (seq 0 (length (nth j sizess []))).
Proof. exact rebuild_same. Qed.

(* two successive arrays from one generator: each gets pairwise distinct seeds, and the two seed
   sets are disjoint *)
Theorem C23_generator_advances :
  forall g n1 n2,
  let '(s1, g1) := spawn g n1 in let '(s2, _) := spawn g1 n2 in
  NoDup s1 /\ NoDup s2 /\ forall x, In x s1 -> ~ In x s2.
Proof. exact generator_advances. Qed.

(* pickling carries the seeds: whatever state the generator snapshot inside the pickle is in *)
Theorem C23_reduce_roundtrip : forall g_now n, unpickle (reduce g_now n) = n.
Proof. exact reduce_roundtrip. Qed.

(* REFUTED: "re-constructing a Random node is harmless".  A node constructed again from the same
   generator once that generator has advanced past it (what Expr.lower_once does to a node whose
   operand was rewritten: type(out)(new_operands...); what unpickling without the cached _info
   would do) gets seeds NONE of which is one of the original ones: a different realization.
   Proved for every generator state and every block layout (stronger than an existential);
   the real code does this for random arrays with array-valued parameters (finding C23-A). *)
Theorem C23_reconstruct_respawns_refuted :
  forall g sizes,
  let '(n, g1) := mk_random g sizes in
  forall g_now, g_root g_now = g_root g -> (g_counter g1 <= g_counter g_now)%nat ->
  forall x, In x (r_seeds n) -> ~ In x (r_seeds (fst (reconstruct g_now n))).
Proof. exact reconstruct_respawns. Qed.

Theorem C23_reduce_without_cache_differs :
  exists g sizes, let '(n, g1) := mk_random g sizes in
  r_seeds (unpickle (reduce_without_cache g1 n)) <> r_seeds n.
Proof. exists (fresh_gen 42), [3; 3]. vm_compute. discriminate. Qed.

(* ---- Examples ---- *)
Example C23_ex_arrays :
  map r_seeds (fst (mk_arrays (fresh_gen 42) [[2; 2; 1]; [4]; [3; 3]])) =
  [ [sd 42 0; sd 42 1; sd 42 2]; [sd 42 3]; [sd 42 4; sd 42 5] ] /\
  arrays_ok 42 [[2; 2; 1]; [4]; [3; 3]]
            [ [sd 42 0; sd 42 1; sd 42 2]; [sd 42 3]; [sd 42 4; sd 42 5] ] 6 = true.
Proof. vm_compute. split; reflexivity. Qed.

Example C23_ex_reconstruct :
  let '(n, g1) := mk_random (fresh_gen 42) [3; 3] in
  r_seeds n = [sd 42 0; sd 42 1] /\ r_seeds (fst (reconstruct g1 n)) = [sd 42 2; sd 42 3].
Proof. vm_compute. split; reflexivity. Qed.

Print Assumptions C23_seeds_fixed.
Print Assumptions C23_rebuild_same.
Print Assumptions C23_generator_advances.
Print Assumptions C23_reduce_roundtrip.
Print Assumptions C23_reconstruct_respawns_refuted.
Print Assumptions C23_reduce_without_cache_differs.
