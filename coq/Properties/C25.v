(* C25 — store writes exactly the array into the requested target regions.
   Statements only: every theorem is closed by `exact <lemma proved in theories/StoreFacts.v>`.

   Model (theories/StoreModel.v), one axis at a time:
     block_slices cs            ArraySliceDep(chunks): block b covers [cum b, cum (b+1))
     store_index region bs      load_store_chunk's index: fuse_slice(region, bs), or bs itself when
                                region is None; None = fuse_slice raised NotImplementedError
     write_indices region cs    the write index of every block, in block order
     np_setitem / np_getitem    NumPy's out[index] = x / out[index] on a 1-d target (length-1
                                broadcasting and the ValueError on any other length mismatch included)
     store_chunk, store_blocks  one load_store_chunk task / a list of tasks run in the given order
     store_axis region cs src tgt   the whole store: the tasks of all blocks in block order
     load_chunk, load_stored    what return_stored=True reads back
   Specification side:
     sel s N                    the positions NumPy's x[s] selects on an axis of length N (PyBase.v)
     rsel region N              sel of the region (the whole axis for region = None)
     region_okb region          the region has no negative start/stop/step and a non-zero step
                                (C25_region_ok_iff); other regions are declined (the C25_store_declines theorems)
     region_fits region n N     the region designates at least n = len(source) cells of the target:
                                the documented precondition `target[region].shape == source.shape`
                                in the form the code needs.  store() itself never checks it; see
                                the C25_shape_mismatch theorems below.
   N-d stores are the product of their axes: C25_nd_index_per_axis (index tuples),
   C25_nd_cells_partition (the cells written by all blocks). *)
From DA Require Import PyBase Slicing FuseFacts StoreModel StoreFacts.
From Coq Require Import Permutation.
Open Scope Z_scope.

(* --- which regions are supported ------------------------------------------------- *)
Theorem C25_region_ok_iff :
  forall region,
  region_okb region = true <-> (forall r, region = Some r -> ~ has_negative r /\ step_of r <> 0).
Proof. exact region_okb_iff. Qed.

(* fuse_slice (hence store) declines exactly the regions with a negative field *)
Theorem C25_store_declines_only_negative :
  forall r cs n, valid_chunks cs n ->
  (write_indices (Some r) cs = None <-> has_negative r /\ cs <> []).
Proof. exact store_declines_iff. Qed.

Theorem C25_store_declines_not_implemented :
  forall (V : Type) r cs (src tgt : list V),
  valid_chunks cs (lenZ src) -> cs <> [] -> has_negative r ->
  store_axis (Some r) cs src tgt = SNotImpl.
Proof. intro V. exact (@store_axis_declines V). Qed.

(* --- the write indices of the blocks --------------------------------------------- *)
(* For every chunking, region and target length: every block gets a write index; the
   positions they select, concatenated in block order, are exactly the first n = len(source)
   positions the region designates (source element i lands at the i-th designated
   position); no position is written twice (pairwise disjoint blocks, no repeats inside a
   block); all are inside the target; and when the region is long enough each block's index
   selects exactly as many cells as the block has values. *)
Theorem C25_block_indices_partition :
  forall region cs n N,
  region_okb region = true -> 0 <= N -> valid_chunks cs n ->
  exists idxs,
    write_indices region cs = Some idxs /\ length idxs = length cs /\
    concat (map (fun i => sel i N) idxs) = firstnZ n (rsel region N) /\
    NoDup (concat (map (fun i => sel i N) idxs)) /\
    Forall (fun p => 0 <= p < N) (concat (map (fun i => sel i N) idxs)) /\
    (region_fits region n N = true -> map (fun i => lenZ (sel i N)) idxs = cs).
Proof. exact block_indices_partition. Qed.

(* --- the store ------------------------------------------------------------------- *)
(* the fold over the blocks is ONE NumPy assignment target[region][:n] = source *)
Theorem C25_store_is_one_assignment :
  forall (V : Type) region cs (src tgt : list V),
  region_okb region = true -> valid_chunks cs (lenZ src) ->
  region_fits region (lenZ src) (lenZ tgt) = true ->
  store_axis region cs src tgt =
  SOk (assign tgt (firstnZ (lenZ src) (rsel region (lenZ tgt))) src).
Proof. intro V. exact (@store_axis_closed_form V). Qed.

(* cell by cell: the i-th designated position holds source[i]; every other cell of the
   target is untouched (frame condition); the target keeps its length *)
Theorem C25_store_exact :
  forall (V : Type) (d : V) region cs (src tgt : list V),
  region_okb region = true -> valid_chunks cs (lenZ src) ->
  region_fits region (lenZ src) (lenZ tgt) = true ->
  exists tgt',
    store_axis region cs src tgt = SOk tgt' /\ length tgt' = length tgt /\
    (forall i, 0 <= i < lenZ src ->
       nth (Z.to_nat (nth (Z.to_nat i) (rsel region (lenZ tgt)) 0)) tgt' d = nth (Z.to_nat i) src d) /\
    (forall p, 0 <= p < lenZ tgt -> ~ In p (firstnZ (lenZ src) (rsel region (lenZ tgt))) ->
       nth (Z.to_nat p) tgt' d = nth (Z.to_nat p) tgt d).
Proof. intro V. exact (@store_axis_exact V). Qed.

(* the scheduler may run the block tasks in any order *)
Theorem C25_store_order_independent :
  forall (V : Type) region cs (src tgt : list V) tasks',
  region_okb region = true -> valid_chunks cs (lenZ src) ->
  region_fits region (lenZ src) (lenZ tgt) = true ->
  Permutation tasks' (store_tasks cs src) ->
  store_blocks region tasks' tgt = store_axis region cs src tgt.
Proof. intro V. exact (@store_blocks_order_independent V). Qed.

(* return_stored=True (compute=True): the blocks loaded from the target after the store
   are the source's blocks, so the returned array equals the source, chunk for chunk *)
Theorem C25_return_stored_reads_back :
  forall (V : Type) (d : V) region cs (src tgt tgt' : list V),
  region_okb region = true -> valid_chunks cs (lenZ src) ->
  region_fits region (lenZ src) (lenZ tgt) = true ->
  store_axis region cs src tgt = SOk tgt' ->
  load_stored d region cs tgt' = map SOk (split_chunks cs src).
Proof. intro V. exact (@load_stored_reads_back V). Qed.

(* return_stored=True, compute=False (load_stored): each task returns out[index] right
   after its own write — that is the block it wrote, whatever the target held before *)
Theorem C25_store_chunk_reads_back :
  forall (V : Type) (d : V) region a b (out x o : list V),
  region_okb region = true -> 0 <= a <= b ->
  region_fits region b (lenZ out) = true -> lenZ x = b - a ->
  store_chunk region out (blk a b) x = SOk o ->
  load_chunk d region o (blk a b) = SOk x.
Proof. intro V. exact (@store_chunk_reads_back V). Qed.

(* --- the region-length precondition ------------------------------------------------ *)
(* store() never compares target[region].shape with source.shape; it relies on the
   target's __setitem__.  With every block of size >= 2 a too-short region does raise: *)
Theorem C25_shape_mismatch_raises_if_blocks_ge2 :
  forall (V : Type) region cs (src tgt : list V),
  region_okb region = true -> valid_chunks cs (lenZ src) -> Forall (fun c => 2 <= c) cs ->
  region_fits region (lenZ src) (lenZ tgt) = false ->
  store_axis region cs src tgt = SValueErr.
Proof. intro V. exact (@store_axis_short_raises V). Qed.

(* FULL STATEMENT (false): forall region cs src tgt, region_okb region = true ->
     valid_chunks cs (lenZ src) -> region_fits region (lenZ src) (lenZ tgt) = false ->
     store_axis region cs src tgt = SValueErr.
   Refuted: with size-1 blocks past the end of the region NumPy broadcasts the one value
   onto an empty selection, the store "succeeds" and silently drops source values
   (finding C25-B; witness: da.store(da.from_array(np.arange(6), chunks=(3,1,1,1)),
   np.full(10, -1), regions=(slice(0, 4),)) returns normally and drops 4 and 5). *)
Theorem C25_shape_mismatch_raises_refuted :
  exists region cs (src tgt tgt' : list Z),
    region_okb region = true /\ valid_chunks cs (lenZ src) /\
    region_fits region (lenZ src) (lenZ tgt) = false /\
    store_axis region cs src tgt = SOk tgt' /\ ~ In 104 tgt' /\ In 104 src.
Proof. exact store_axis_short_silent. Qed.

(* --- N-d: the index tuple of a block is the tuple of its per-axis indices ---------- *)
Theorem C25_nd_index_per_axis :
  forall rs bss, length rs = length bss ->
  store_index_nd (Some (map ISlice rs)) (map ISlice bss) =
  option_map (map ISlice) (store_index_axes (map Some rs) bss).
Proof. exact store_index_nd_axes. Qed.

Theorem C25_nd_index_no_region :
  forall bss,
  store_index_nd None (map ISlice bss) =
  option_map (map ISlice) (store_index_axes (map (fun _ => None) bss) bss).
Proof. exact store_index_nd_none. Qed.

(* the cells written by ALL blocks of an N-d store (one region entry per axis): every
   block gets an index tuple, and the cells the blocks address — the product of each
   block's per-axis positions — are, up to the order of enumeration, exactly the product
   of the per-axis designated positions, each cell once (blocks pairwise disjoint) *)
Theorem C25_nd_cells_partition :
  forall regions chunks ns Ns,
  Forall2 valid_chunks chunks ns -> length regions = length chunks -> length Ns = length chunks ->
  Forall (fun r => region_okb r = true) regions -> Forall (fun N => 0 <= N) Ns ->
  exists ws,
    write_indices_nd regions chunks = Some ws /\
    Permutation (flat_map (fun idxs => cart (sels_of idxs Ns)) ws) (cart (designated regions ns Ns)) /\
    NoDup (cart (designated regions ns Ns)).
Proof. exact nd_cells_partition. Qed.

(* --- npy stack -------------------------------------------------------------------- *)
(* one axis: file i holds block i; the file lengths are the chunks; concatenating the
   files in order (what from_npy_stack's graph does) is the array *)
Theorem C25_npy_stack_roundtrip :
  forall (V : Type) cs (l : list V), valid_chunks cs (lenZ l) ->
  concat (split_chunks cs l) = l /\ map lenZ (split_chunks cs l) = cs /\
  length (split_chunks cs l) = length cs.
Proof. intro V. exact (@split_chunks_roundtrip V). Qed.

(* the layout recorded in `info`: the stacking axis keeps its chunks, every other axis
   becomes one chunk of the same total length *)
Theorem C25_npy_stack_chunks_spec :
  forall axis chunks,
  length (npy_stack_chunks axis chunks) = length chunks /\
  forall j, (j < length chunks)%nat ->
    nth j (npy_stack_chunks axis chunks) [] =
    if Z.of_nat j =? axis then nth j chunks [] else [zsum (nth j chunks [])].
Proof. exact npy_stack_chunks_spec. Qed.

Theorem C25_npy_stack_chunks_valid :
  forall axis chunks shape,
  Forall2 valid_chunks chunks shape -> Forall2 valid_chunks (npy_stack_chunks axis chunks) shape.
Proof. exact npy_stack_chunks_valid. Qed.

(* --- non-vacuity: concrete non-trivial inputs meeting the hypotheses ---------------- *)
Example C25_ex_stepped_region_zero_chunk :
  let region := Some (mkslice (Some 1) None (Some 3)) in      (* target[1::3] *)
  let cs := [2; 0; 3] in let src := [100; 101; 102; 103; 104] in let tgt := repeat (-1) 14 in
  region_okb region = true /\ valid_chunks cs (lenZ src) /\
  region_fits region (lenZ src) (lenZ tgt) = true /\
  write_indices region cs = Some [mkslice (Some 1) (Some 7) (Some 3); mkslice (Some 7) (Some 7) (Some 3);
                                  mkslice (Some 7) (Some 16) (Some 3)] /\
  rsel region (lenZ tgt) = [1; 4; 7; 10; 13] /\
  store_axis region cs src tgt = SOk [-1; 100; -1; -1; 101; -1; -1; 102; -1; -1; 103; -1; -1; 104] /\
  load_stored 0 region cs [-1; 100; -1; -1; 101; -1; -1; 102; -1; -1; 103; -1; -1; 104]
    = [SOk [100; 101]; SOk []; SOk [102; 103; 104]].
Proof.
  cbv zeta. split; [reflexivity|]. split; [split; [repeat constructor; lia|reflexivity]|].
  repeat split; vm_compute; reflexivity.
Qed.

Example C25_ex_long_region_offset :     (* region longer than the source: the first n cells *)
  let region := Some (mkslice (Some 2) (Some 9) None) in
  region_fits region 6 10 = true /\ slice_len (region_slice region) 10 = 7 /\
  store_axis region [3; 1; 1; 1] [100; 101; 102; 103; 104; 105] (repeat (-1) 10)
  = SOk [-1; -1; 100; 101; 102; 103; 104; 105; -1; -1] /\
  (* a different task order *)
  store_blocks region (rev (store_tasks [3; 1; 1; 1] [100; 101; 102; 103; 104; 105])) (repeat (-1) 10)
  = SOk [-1; -1; 100; 101; 102; 103; 104; 105; -1; -1] /\
  Permutation (rev (store_tasks [3; 1; 1; 1] [100; 101; 102; 103; 104; 105]))
              (store_tasks [3; 1; 1; 1] [100; 101; 102; 103; 104; 105]).
Proof.
  cbv zeta. repeat split; try (vm_compute; reflexivity). apply Permutation_sym, Permutation_rev.
Qed.

Example C25_ex_declined_and_mismatch :
  has_negative (mkslice (Some (-8)) None None) /\
  store_axis (Some (mkslice (Some (-8)) None None)) [3; 3] [1; 2; 3; 4; 5; 6] (repeat 0 10) = SNotImpl /\
  region_fits (Some (mkslice (Some 0) (Some 4) None)) 6 10 = false /\
  Forall (fun c => 2 <= c) [3; 3] /\
  store_axis (Some (mkslice (Some 0) (Some 4) None)) [3; 3] [1; 2; 3; 4; 5; 6] (repeat 0 10) = SValueErr.
Proof.
  split; [left; exists (-8); split; [reflexivity|lia]|].
  repeat split; try (vm_compute; reflexivity). repeat constructor; lia.
Qed.

Example C25_ex_nd_index :
  store_index_nd (Some [ISlice (mkslice (Some 1) (Some 4) None); ISlice (mkslice (Some 2) None (Some 2))])
                 [ISlice (mkslice (Some 2) (Some 3) None); ISlice (mkslice (Some 1) (Some 4) None)]
  = Some [ISlice (mkslice (Some 3) (Some 4) None); ISlice (mkslice (Some 4) (Some 10) (Some 2))] /\
  npy_stack_chunks 1 [[2; 3]; [1; 1; 4]; [7]] = [[5]; [1; 1; 4]; [7]].
Proof. split; vm_compute; reflexivity. Qed.

Example C25_ex_nd_cells :
  let regions := [Some (mkslice (Some 1) (Some 4) None); Some (mkslice (Some 0) None (Some 2))] in
  let chunks := [[2; 1]; [1; 2]] in
  Forall2 valid_chunks chunks [3; 3] /\
  write_indices_nd regions chunks =
    Some [[mkslice (Some 1) (Some 3) None; mkslice (Some 0) (Some 2) (Some 2)];
          [mkslice (Some 1) (Some 3) None; mkslice (Some 2) (Some 6) (Some 2)];
          [mkslice (Some 3) (Some 4) None; mkslice (Some 0) (Some 2) (Some 2)];
          [mkslice (Some 3) (Some 4) None; mkslice (Some 2) (Some 6) (Some 2)]] /\
  designated regions [3; 3] [5; 6] = [[1; 2; 3]; [0; 2; 4]] /\
  flat_map (fun idxs => cart (sels_of idxs [5; 6]))
           [[mkslice (Some 3) (Some 4) None; mkslice (Some 2) (Some 6) (Some 2)]] = [[3; 2]; [3; 4]].
Proof.
  cbv zeta. split; [repeat constructor; lia|]. repeat split; vm_compute; reflexivity.
Qed.

Print Assumptions C25_region_ok_iff.
Print Assumptions C25_store_declines_only_negative.
Print Assumptions C25_store_declines_not_implemented.
Print Assumptions C25_block_indices_partition.
Print Assumptions C25_store_is_one_assignment.
Print Assumptions C25_store_exact.
Print Assumptions C25_store_order_independent.
Print Assumptions C25_return_stored_reads_back.
Print Assumptions C25_store_chunk_reads_back.
Print Assumptions C25_shape_mismatch_raises_if_blocks_ge2.
Print Assumptions C25_shape_mismatch_raises_refuted.
Print Assumptions C25_nd_index_per_axis.
Print Assumptions C25_nd_index_no_region.
Print Assumptions C25_nd_cells_partition.
Print Assumptions C25_npy_stack_roundtrip.
Print Assumptions C25_npy_stack_chunks_spec.
Print Assumptions C25_npy_stack_chunks_valid.
