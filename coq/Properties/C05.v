(* C05 — "For every array x, x.compute(), dask.compute(x, ...) together with other collections,
   x.persist(), dask.persist(x), dask.optimize(x), x.optimize() and x.to_delayed() all yield
   the same values; the persisted and dask-optimized collections keep x's name, chunks and
   dtype.  Operations applied to a persisted or optimized collection compute the same as
   when applied to x."

   Statements only; model in theories/Protocol.v (transcriptions of FromGraph._find_layer_key /
   _inferred_layer_name / _layer, RootAlias._layer, Array.__dask_postpersist__ / from_graph, and
   the entry points over the task-graph model of Graph.v), proofs in theories/ProtocolFacts.v.
   The harness (harness/c05.py, model_family) compares `fg_layer` / `root_alias_layer` exactly
   with the real FromGraph._layer() / RootAlias._layer() on synthetic and real persisted layers. *)
From Coq Require Import List Bool ZArith PArith.
From DA Require Import PyBase Graph GraphFacts Protocol ProtocolFacts.
Import ListNotations.
Open Scope Z_scope.

(* ---- FromGraph: where the rebuilt collection finds its blocks ----
   For EVERY layer, expected-keys list, name and block grid: if _layer() does not raise, then
   every output key (self, b) of the grid is bound to the node the layer held for the SAME block
   id b, under the source name n chosen by the three rules evaluated on the original layer
   (expected key present -> own key present -> the unique name covering exactly the grid):
   data is rekeyed, tasks of another name are bridged by an alias to (n, b) which keeps its task. *)
Theorem C05_from_graph_keys :
  forall (layer : dict) (keys : list (name * list Z)) (self : name) (nb : list nat) (out : dict),
  fg_layer layer keys self nb = FOk out ->
  forall b, In b (zgrid nb) ->
  exists n v,
    source_name layer keys self nb b = Some (KB n b) /\
    d_get (KB n b) layer = Some v /\
    (if is_task v && negb (Pos.eqb n self)
     then d_get (KB self b) out = Some (AliasTo (KB n b)) /\ d_get (KB n b) out = Some v
     else d_get (KB self b) out = Some v).
Proof. exact from_graph_keys. Qed.

(* the third rule: the inferred name is THE unique name whose block keys (tuples of the right
   length) cover exactly the grid *)
Theorem C05_inferred_name_unique_cover :
  forall ndim layer grid n, grid <> [] ->
  (inferred_layer_name ndim layer grid = Some n <->
   (forall i, In i grid <-> In (KB n i) (map fst layer) /\ length i = ndim) /\
   (forall n', (forall i, In i grid <-> In (KB n' i) (map fst layer) /\ length i = ndim) -> n' = n)).
Proof. exact inferred_layer_name_spec. Qed.

(* _layer() raises only the two documented ValueErrors (never KeyError); "cannot find output
   block" exactly when some block has no source under the three rules *)
Theorem C05_from_graph_errors :
  forall layer keys self nb,
  match fg_layer layer keys self nb with
  | FOk _ => True
  | FErrNotFound => exists b, In b (zgrid nb) /\ source_name layer keys self nb b = None /\
                              keys_by_bid keys [] <> None
  | FErrDupKeys => keys_by_bid keys [] = None /\ zgrid nb <> []
  | FErrKeyError => False
  end.
Proof. exact from_graph_errors. Qed.

(* every key that is nobody's block of the grid passes through untouched *)
Theorem C05_from_graph_frame :
  forall layer keys self nb out,
  fg_layer layer keys self nb = FOk out ->
  forall k, (forall b n, In b (zgrid nb) -> k <> KB n b) -> d_get k out = d_get k layer.
Proof. exact from_graph_frame. Qed.

(* Array.persist: postpersist passes keys = [] and the pinned graph produced our own keys:
   the rebuilt layer is the persisted layer itself *)
Theorem C05_from_graph_passthrough :
  forall layer self nb,
  (forall b, In b (zgrid nb) -> d_mem (KB self b) layer = true) ->
  fg_layer layer [] self nb = FOk layer.
Proof. exact from_graph_passthrough. Qed.

(* ---- the rebuild keeps name, chunks and dtype ---- *)
Theorem C05_persist_preserves :
  forall (c : coll) (layer : dict),
  coll_of_node (rebuild c layer None) = c /\
  fg_keys (rebuild c layer None) = [] /\ fg_lay (rebuild c layer None) = layer.
Proof. exact rebuild_preserves. Qed.

Theorem C05_persist_rename :
  forall c layer r,
  let c' := coll_of_node (rebuild c layer (Some r)) in
  c_name c' = rename_get r (c_name c) /\ c_chunks c' = c_chunks c /\ c_dtype c' = c_dtype c.
Proof. exact rebuild_rename. Qed.

(* ---- the RootAlias pin: (raw name, b) -> (optimized name, b) for every b of the grid;
        its keys are exactly the advertised keys, its targets exactly the optimized root's
        keys, in the same order, both without repetition (a bijection) ---- *)
Theorem C05_pin_keys :
  forall raw opt nb,
  (forall b, In b (zgrid nb) ->
     d_get (KB raw b) (root_alias_layer raw opt nb) = Some (AliasTo (KB opt b))) /\
  map fst (root_alias_layer raw opt nb) = dask_keys raw nb /\
  map snd (root_alias_layer raw opt nb) = map AliasTo (dask_keys opt nb) /\
  NoDup (dask_keys raw nb) /\ NoDup (dask_keys opt nb).
Proof.
  intros raw opt nb. split; [intros b Hb; apply root_alias_get; exact Hb|].
  destruct (root_alias_keys raw opt nb) as [A B].
  split; [exact A|]. split; [exact B|]. split; apply dask_keys_NoDup.
Qed.

(* the advertised keys are the row-major grid: block id b is a key iff it is in bounds *)
Theorem C05_advertised_keys :
  forall nm nb b, In (KB nm b) (dask_keys nm nb) <-> Forall2 (fun i n => 0 <= i < Z.of_nat n) b nb.
Proof.
  intros nm nb b. rewrite <- zgrid_in. unfold dask_keys. rewrite in_map_iff. split.
  - intros [x [E H]]. inversion E; subst. exact H.
  - intro H. exists b. auto.
Qed.

(* ---- all entry points agree (PARTIAL) ----
   Full claim: x.compute(), dask.compute(x, others), x.persist(), dask.persist(x),
   dask.optimize(x), x.optimize(), x.to_delayed() yield the same values.
   Proved, in the task-graph model, for every optimized graph g (any value type, any task
   functions), every topological order each scheduler may choose, every set of other
   collections merged into the same graph: compute / dask.compute / persist-then-compute /
   to_delayed all return, at the advertised keys, exactly the values x.optimize() returns at the
   optimized root's keys.
   Missing: (1) that the optimized graph computes the array's denotation (optimizer soundness:
   C01-C03, C08); (2) dask.optimize, which runs dask's generic graph optimizer over the pinned
   graph outside this model (known finding F7). *)
Theorem C05_entrypoints_agree_partial :
  forall (V : Type) (dflt : V) (g : list (task V)) (o : list key) (raws outs : list key),
  NoDup (map t_key g) -> topological (dep_graph g) o ->
  (forall k, In k outs -> defined (dep_graph g) k) ->
  length raws = length outs -> NoDup raws ->
  NoDup (map t_key (pinned dflt g raws outs)) ->
  forall o1 o3 os other o2,
  topological (dep_graph (pinned dflt g raws outs)) o1 ->
  topological (dep_graph (pinned dflt g raws outs)) o3 ->
  length os = length raws -> Forall (topological (dep_graph (pinned dflt g raws outs))) os ->
  NoDup (map t_key (pinned dflt g raws outs ++ other)) ->
  topological (dep_graph (pinned dflt g raws outs ++ other)) o2 ->
  let reference := ep_optimize g outs o in
  ep_compute dflt g raws outs o1 = reference /\
  ep_dask_compute dflt g raws outs other o2 = reference /\
  ep_persist dflt g raws outs o3 = Some reference /\
  ep_to_delayed dflt g raws outs os = reference.
Proof.
  intros V dflt g o raws outs Hnd Ht Hout Hlen Hndr Hndp o1 o3 os other o2 H1 H3 Hlo Hos Hnd2 H2 reference.
  split; [apply ep_compute_agrees; assumption|].
  split; [apply ep_dask_compute_agrees; assumption|].
  split; [apply ep_persist_agrees; assumption | apply ep_to_delayed_agrees; assumption].
Qed.

(* the hypotheses about the pinned graph are satisfiable whenever the advertised keys are fresh:
   the optimized graph's order followed by the alias keys schedules it *)
Theorem C05_pinned_schedulable :
  forall (V : Type) (dflt : V) (g : list (task V)) (o raws outs : list key),
  NoDup (map t_key g) -> topological (dep_graph g) o ->
  (forall k, In k outs -> defined (dep_graph g) k) ->
  NoDup raws -> (forall r, In r raws -> ~ defined (dep_graph g) r) -> length raws = length outs ->
  NoDup (map t_key (pinned dflt g raws outs)) /\
  topological (dep_graph (pinned dflt g raws outs)) (o ++ raws).
Proof.
  intros. split; [apply pinned_nodup; assumption | apply pinned_topological; assumption].
Qed.

(* ---- Examples: the hypotheses are satisfiable on concrete non-trivial inputs ---- *)
Definition exL : dict :=
  [ (KB 5%positive [1;0], TaskV 3%positive); (KB 5%positive [0;0], Data 1%positive);
    (KO 9%positive, TaskV 7%positive); (KB 5%positive [0;1], Data 2%positive);
    (KB 5%positive [1;1], Data 4%positive); (KB 6%positive [0;0], Data 8%positive) ].

(* dask.persist on a raw expression: a renamed single-name layer, located by block id *)
Example C05_ex_inferred :
  fg_layer exL [] 2%positive [2;2]%nat =
  FOk [ (KB 5%positive [1;0], TaskV 3%positive); (KO 9%positive, TaskV 7%positive);
        (KB 6%positive [0;0], Data 8%positive);
        (KB 2%positive [0;0], Data 1%positive); (KB 2%positive [0;1], Data 2%positive);
        (KB 2%positive [1;0], AliasTo (KB 5%positive [1;0])); (KB 2%positive [1;1], Data 4%positive) ].
Proof. vm_compute. reflexivity. Qed.

(* two names cover the grid: ambiguous, the documented ValueError *)
Example C05_ex_ambiguous :
  fg_layer (exL ++ [(KB 6%positive [0;1], Data 1%positive); (KB 6%positive [1;0], Data 1%positive);
                    (KB 6%positive [1;1], Data 1%positive)]) [] 2%positive [2;2]%nat = FErrNotFound.
Proof. vm_compute. reflexivity. Qed.

(* ... unless `keys` names the expected ones *)
Example C05_ex_expected :
  exists out,
  fg_layer (exL ++ [(KB 6%positive [0;1], Data 1%positive); (KB 6%positive [1;0], Data 1%positive);
                    (KB 6%positive [1;1], Data 1%positive)])
           [(6%positive, [0;0]); (6%positive, [0;1]); (6%positive, [1;0]); (6%positive, [1;1])]
           2%positive [2;2]%nat = FOk out /\ d_get (KB 2%positive [0;0]) out = Some (Data 8%positive).
Proof. eexists. split; vm_compute; reflexivity. Qed.

Example C05_ex_dup_keys :
  fg_layer exL [(6%positive, [0;0]); (5%positive, [0;0])] 2%positive [2;2]%nat = FErrDupKeys.
Proof. vm_compute. reflexivity. Qed.

Example C05_ex_pin :
  root_alias_layer 1%positive 2%positive [2;1]%nat =
  [ (KB 1%positive [0;0], AliasTo (KB 2%positive [0;0])); (KB 1%positive [1;0], AliasTo (KB 2%positive [1;0])) ].
Proof. vm_compute. reflexivity. Qed.

(* an optimized graph  1 -> 2, 1 -> 3  with root keys 2, 3, advertised keys 10, 11 *)
Definition exG : list (task Z) :=
  [ {| t_key := 1%positive; t_deps := []; t_fun := fun _ => 7 |};
    {| t_key := 2%positive; t_deps := [1%positive]; t_fun := fun vs => hd 0 vs + 1 |};
    {| t_key := 3%positive; t_deps := [1%positive; 2%positive]; t_fun := fun vs => zsum vs |} ].

Example C05_ex_entrypoints :
  let raws := [10; 11]%positive in let outs := [2; 3]%positive in
  topo_check_b (dep_graph exG) [1; 2; 3]%positive = true /\
  topo_check_b (dep_graph (pinned 0 exG raws outs)) [1; 2; 10; 3; 11]%positive = true /\
  ep_optimize exG outs [1; 2; 3]%positive = [Some (Val 8); Some (Val 15)] /\
  ep_compute 0 exG raws outs [1; 2; 10; 3; 11]%positive = [Some (Val 8); Some (Val 15)] /\
  ep_persist 0 exG raws outs [1; 2; 3; 11; 10]%positive = Some [Some (Val 8); Some (Val 15)] /\
  ep_to_delayed 0 exG raws outs [[1; 2; 10; 3; 11]; [1; 2; 3; 10; 11]]%positive = [Some (Val 8); Some (Val 15)].
Proof. vm_compute. repeat split; reflexivity. Qed.

Print Assumptions C05_from_graph_keys.
Print Assumptions C05_inferred_name_unique_cover.
Print Assumptions C05_from_graph_errors.
Print Assumptions C05_from_graph_frame.
Print Assumptions C05_from_graph_passthrough.
Print Assumptions C05_persist_preserves.
Print Assumptions C05_persist_rename.
Print Assumptions C05_pin_keys.
Print Assumptions C05_advertised_keys.
Print Assumptions C05_entrypoints_agree_partial.
Print Assumptions C05_pinned_schedulable.
