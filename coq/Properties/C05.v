(* C05 — Every compute/persist/optimize entry point agrees (placeholder for the protocol model). *)
From DA Require Import PyBase.
Open Scope Z_scope.
Example C05_placeholder : zsum [1;2;3] = 6. Proof. reflexivity. Qed.
Print Assumptions C05_placeholder.
