(* C14 — Rechunking yields the requested chunks with unchanged values.
   Statements only; proofs in theories/RechunkGraphFacts.v (on top of C15's crosswalk theorems and
   C16's normalize_chunks theorems).  Model: theories/RechunkGraph.v.

   Oracles (float-derived choices of the Python code; every theorem holds for ALL their values):
     auto_out  the tuple returned by auto_chunks(..., previous_chunks=x.chunks)
     medians   np.median(chunks).astype(int) of _balance_chunksizes, one per axis

   An array is a list of cells (any cell type A); its old blocks are the consecutive segments of xs
   cut by `old`.  `run_rechunk_1d old new xs` EXECUTES the modelled task graph of
   _compute_rechunk (split tasks = getitem slices of old blocks, found by key; merge tasks =
   concatenate3 of their inputs in order, or an alias) and returns None where the Python would
   raise (IndexError filling rec_cat_arg, missing split key). *)
From DA Require Import PyBase PyBaseFacts Rechunk RechunkFacts NormChunks NormChunksFacts RechunkGraph RechunkGraphFacts.
Open Scope Z_scope.

(* ---------------------------------------------------------------------------------------------- *)
(* values *)

(* executing the graph yields new blocks whose concatenation is xs and block j has length new[j] *)
Theorem C14_rechunk_1d_values :
  forall (A : Type) (old new : list Z) (xs : list A),
    nonneg old -> nonneg new -> old <> [] -> zsum old = zsum new -> Z.of_nat (length xs) = zsum old ->
    exists blocks,
      run_rechunk_1d old new xs = Some blocks /\
      concat blocks = xs /\
      Forall2 (fun b c => Z.of_nat (length b) = c) blocks new.
Proof. exact @rechunk_1d_values. Qed.

(* block j is the segment [cum new j, cum new (j+1)) of xs (cum = sum of the first j chunks) *)
Theorem C14_rechunk_block_content :
  forall (A : Type) (old new : list Z) (xs : list A),
    nonneg old -> nonneg new -> old <> [] -> zsum old = zsum new ->
    exists blocks,
      run_rechunk_1d old new xs = Some blocks /\
      forall j c, nth_error new j = Some c ->
        nth_error blocks j = Some (sub (cum new j) (cum new (S j)) xs).
Proof. exact @rechunk_1d_block_content. Qed.

(* the graph construction never raises on valid layouts and emits one merge task per new block *)
Theorem C14_graph_total :
  forall old new, nonneg old -> nonneg new -> old <> [] -> zsum old = zsum new ->
  exists ms ss, compute_rechunk_1d old new = Some (ms, ss) /\ length ms = length new.
Proof. exact compute_rechunk_1d_total. Qed.

(* the pieces of every new block come from strictly increasing old blocks — for ANY two lists, valid
   or not — so `rec_cat_arg = np.empty(len(set(old indices)))` has exactly one slot per piece *)
Theorem C14_pieces_from_distinct_old_blocks :
  forall old new, cw_sorted (intersect_1d old new) = true.
Proof. exact intersect_1d_sorted. Qed.

(* a new block is an alias of old block i exactly when its only piece is the whole of block i, and
   then its value is that block *)
Theorem C14_single_source_alias :
  forall (A : Type) (old new : list Z) (xs : list A) ms ss j i,
    compute_rechunk_1d old new = Some (ms, ss) ->
    (nth_error (firstn (length new) (intersect_1d old new)) j = Some [(i, 0, nthZ old i)]
     <-> nth_error ms j = Some (MAlias (SrcOld i))) /\
    mtask_value old xs ss (MAlias (SrcOld i)) = Some (block_at old xs i).
Proof. exact @whole_block_alias. Qed.

(* TasksRechunk._layer chains one _compute_rechunk per step of the plan: the result is the blocks
   of the last step (C15_plan_valid says every step of plan_rechunk is a layout of the shape) *)
Theorem C14_plan_values :
  forall (A : Type) (steps : list (list Z)) (cur : list Z) (xs : list A),
    nonneg cur -> cur <> [] -> Z.of_nat (length xs) = zsum cur ->
    Forall (fun s => nonneg s /\ s <> [] /\ zsum s = zsum cur) steps ->
    run_plan_1d cur steps xs = Some (blocks_of (last steps cur) xs).
Proof. exact @run_plan_1d_blocks. Qed.

(* N-D, product version for rank 2 (a matrix is a list of rows; cells of any type B, so trailing
   axes that are not rechunked ride along): concatenate3 of the nested list
   [[getitem(old block (i0,i1), (slice0, slice1)) for piece1 in pieces1[j1]] for piece0 in pieces0[j0]]
   is block (j0, j1) of the new layout.
   MISSING for a full N-D theorem: (a) for rank >= 2 the link from the N-D structural model
   compute_rechunk_nd (split keys = old index + per-source counter, rec_cat_arg reshape) to assemble2
   is not proved (rank 1 is: C14_nd_model_rank1_is_1d_model); the structural model is compared with
   the implementation by the harness on 1-/2-/3-D graphs and the real graphs are executed; (b) ranks > 2
   (needs a nested-array datatype; the proof is the same induction over axes). *)
Theorem C14_rechunk_2d_block :
  forall (B : Type) old0 old1 new0 new1 (m : list (list B)) j0 j1 ps0 ps1,
    nonneg old0 -> nonneg new0 -> old0 <> [] -> zsum old0 = zsum new0 ->
    nonneg old1 -> nonneg new1 -> old1 <> [] -> zsum old1 = zsum new1 ->
    nth_error (intersect_1d old0 new0) j0 = Some ps0 ->
    nth_error (intersect_1d old1 new1) j1 = Some ps1 ->
    assemble2 old0 old1 m ps0 ps1 = block_at2 new0 new1 m (Z.of_nat j0) (Z.of_nat j1).
Proof. exact @rechunk_2d_block. Qed.

(* the N-D structural model (what the harness compares with _compute_rechunk on 1-/2-/3-D layouts)
   specialises at rank 1 to the 1-D model the value theorems are about *)
Theorem C14_nd_model_rank1_is_1d_model :
  forall o n, compute_rechunk_nd [o] [n] = graph1_as_nd (compute_rechunk_1d o n).
Proof. exact compute_rechunk_nd_rank1. Qed.

(* ---------------------------------------------------------------------------------------------- *)
(* chunks *)

(* Rechunk.chunks = normalize_chunks of the merged spec (then balance, then validation) *)
Theorem C14_chunks_as_normalized :
  forall auto_out medians old spec limit balance cs,
    rechunk_chunks auto_out medians old spec limit balance = Ok cs ->
    exists m cs0,
      merge_spec spec old = Ok m /\
      normalize_chunks_prev auto_out (map to_aspec (empty_fix m (map zsum old))) (map zsum old) = Ok cs0 /\
      (if balance then balance_all medians cs0 = Ok cs else cs = cs0) /\
      validate_rechunk (known old) (known cs) = true.
Proof. exact rechunk_chunks_inv. Qed.

(* ... which, without "auto" axes, is exactly C16's normalize_chunks (no oracle is consulted) *)
Theorem C14_chunks_noauto_is_C16_normalize :
  forall auto_out sizes specs shape,
    count_autos (subst_all specs shape) = 0 ->
    normalize_chunks_prev auto_out specs shape = normalize_chunks sizes specs shape.
Proof. exact normalize_chunks_prev_noauto. Qed.

(* the result is a valid layout of x's shape: one non-empty tuple of non-negative sizes per axis,
   summing to the old extents — for every spec, every oracle value, with and without balance *)
Theorem C14_chunks_valid_layout :
  forall auto_out medians old spec limit balance cs,
    Forall nonneg old ->
    rechunk_chunks auto_out medians old spec limit balance = Ok cs ->
    NormChunks.layout_ok cs (map zsum old) = true /\ length cs = length old /\ map zsum cs = map zsum old.
Proof. exact rechunk_chunks_layout. Qed.

(* KNOWN DEVIATION (finding F24): entries of a tuple spec beyond x.ndim are silently dropped by the
   zip() in Rechunk.chunks / ArrayExpr.rechunk, so x.rechunk((2, 3)) on a 1-D array of length 5 is
   x.rechunk((2,)) = ((2,2,1),) although normalize_chunks((2,3), (5,)) = ((2,3),), and
   x.rechunk((1,2,4)) on a 2-D array is accepted although normalize_chunks raises. *)
Theorem C14_tuple_entries_beyond_ndim_ignored :
  forall auto_out medians old l limit balance,
    rechunk_chunks auto_out medians old (STuple l) limit balance =
    rechunk_chunks auto_out medians old (STuple (firstn (length old) l)) limit balance.
Proof. exact tuple_entries_beyond_ndim_ignored. Qed.

(* _validate_rechunk, known sizes: accepted iff same rank and same extent along every axis *)
Theorem C14_validate_rechunk_accepts_iff_same_shape :
  forall old new,
    validate_rechunk (known old) (known new) = true <-> length old = length new /\ map zsum old = map zsum new.
Proof. exact validate_rechunk_known_iff. Qed.

(* unknown (nan) sizes: an axis with an unknown size is accepted iff its chunks are unchanged;
   an axis of known extent a iff the new chunks are known and sum to a *)
Theorem C14_validate_unknown_axis_unchanged :
  forall o n, sum_opt o = None -> (validate_axis_ok o n = true <-> n = o).
Proof. exact validate_axis_unknown. Qed.

Theorem C14_validate_known_axis_same_extent :
  forall o n a, sum_opt o = Some a -> (validate_axis_ok o n = true <-> sum_opt n = Some a).
Proof. exact validate_axis_known. Qed.

(* _balance_chunksizes preserves the axis length for EVERY value of the median oracle *)
Theorem C14_balance_preserves_sum :
  forall median chunks r,
    0 <= zsum chunks -> balance_chunksizes median chunks = Ok r -> zsum r = zsum chunks.
Proof. exact balance_preserves_sum. Qed.

(* ... and keeps a valid layout valid (non-empty, non-negative) *)
Theorem C14_balance_valid_layout :
  forall median chunks n r,
    axis_layout_ok chunks n = true -> balance_chunksizes median chunks = Ok r -> axis_layout_ok r n = true.
Proof. exact balance_layout. Qed.

(* ---------------------------------------------------------------------------------------------- *)
(* the hypotheses are satisfiable on non-trivial inputs *)
Example C14_ex_graph :
  compute_rechunk_1d [2;0;2;6] [4;0;3;3;0]
  = Some ([MConcat [SrcOld 0; SrcOld 2]; MAlias (SrcSplit 3 0); MAlias (SrcSplit 3 1);
           MAlias (SrcSplit 3 2); MAlias (SrcSplit 3 3)],
          [(3, 0, 0, 0); (3, 1, 0, 3); (3, 2, 3, 6); (3, 3, 6, 6)]).
Proof. vm_compute. reflexivity. Qed.

Example C14_ex_values :
  nonneg [2;0;2;6] /\ nonneg [4;0;3;3;0] /\ zsum [2;0;2;6] = zsum [4;0;3;3;0] /\
  run_rechunk_1d [2;0;2;6] [4;0;3;3;0] [10;11;12;13;14;15;16;17;18;19]
  = Some [[10;11;12;13]; []; [14;15;16]; [17;18;19]; []].
Proof. repeat split; try (repeat constructor; lia). Qed.

Example C14_ex_alias :
  compute_rechunk_1d [3;3;4] [3;7] = Some ([MAlias (SrcOld 0); MConcat [SrcOld 1; SrcOld 2]], []) /\
  nth_error (intersect_1d [3;3;4] [3;7]) 0 = Some [(0, 0, nthZ [3;3;4] 0)].
Proof. vm_compute. split; reflexivity. Qed.

Example C14_ex_plan :
  run_plan_1d [1;1;1;1;1;1] [[2;2;2]; [6]; [4;2]] [0;1;2;3;4;5] = Some [[0;1;2;3]; [4;5]].
Proof. vm_compute. reflexivity. Qed.

Example C14_ex_2d :
  nth_error (intersect_1d [2;1] [1;2]) 1 = Some [(0,1,2); (1,0,1)] /\
  nth_error (intersect_1d [1;3] [2;2]) 1 = Some [(1,1,3)] /\
  assemble2 [2;1] [1;3] [[1;2;3;4];[5;6;7;8];[9;10;11;12]] [(0,1,2); (1,0,1)] [(1,1,3)] = [[7;8];[11;12]] /\
  compute_rechunk_nd [[2;1];[1;3]] [[1;2];[2;2]]
  = Some ([NConcat [1%nat; 2%nat] [NSrcSplit [0;0] 0; NSrcSplit [0;1] 0];
           NAlias (NSrcSplit [0;1] 1);
           NConcat [2%nat; 2%nat] [NSrcSplit [0;0] 1; NSrcSplit [0;1] 2; NSrcOld [1;0]; NSrcSplit [1;1] 0];
           NConcat [2%nat; 1%nat] [NSrcSplit [0;1] 3; NSrcSplit [1;1] 1]],
          [([0;0], 0, [(0,1);(0,1)]); ([0;1], 0, [(0,1);(0,1)]); ([0;1], 1, [(0,1);(1,3)]);
           ([0;0], 1, [(1,2);(0,1)]); ([0;1], 2, [(1,2);(0,1)]); ([1;1], 0, [(0,1);(0,1)]);
           ([0;1], 3, [(1,2);(1,3)]); ([1;1], 1, [(0,1);(1,3)])]).
Proof. vm_compute. repeat split; reflexivity. Qed.

Example C14_ex_chunks :
  rechunk_chunks None [] [[2;2];[3;3]] (SDict [(-1, UInt 2)]) None false = Ok [[2;2];[2;2;2]] /\
  rechunk_chunks None [] [[2;2];[3;3]] (STuple [UNone; UInt 4]) None false = Ok [[2;2];[4;2]] /\
  rechunk_chunks None [4] [[10]] (SScalar (UInt 4)) None true = Ok [[5;5]] /\
  rechunk_chunks (Some [AInt 1; ATuple [6]]) [] [[2;2];[3;3]] (STuple [UBytes 64; UInt (-1)]) None false = Ok [[1;1;1;1];[6]] /\
  rechunk_chunks None [] [[2;2];[3;3]] (SDict [(2, UInt 2)]) None false = Err EValue /\
  rechunk_chunks None [] [[2;2];[3;3]] (STuple [UTuple [1;2]; UInt 3]) None false = Err EValue.
Proof. vm_compute. repeat split; reflexivity. Qed.

(* finding F24, concretely: the entry 3 is never looked at *)
Example C14_ex_long_tuple :
  rechunk_chunks None [] [[5]] (STuple [UInt 2; UInt 3]) None false = Ok [[2;2;1]] /\
  normalize_chunks [] [ATuple [2;3]] [5] = Ok [[2;3]].
Proof. vm_compute. split; reflexivity. Qed.

Example C14_ex_validate :
  validate_rechunk (known [[2;2];[3;3]]) (known [[4];[1;5]]) = true /\
  validate_rechunk (known [[2;2];[3;3]]) (known [[4];[1;4]]) = false /\
  validate_rechunk [[None;None];[Some 3;Some 3]] [[None;None];[Some 6]] = true /\
  validate_rechunk [[None;None];[Some 3;Some 3]] [[None];[Some 6]] = false.
Proof. vm_compute. repeat split; reflexivity. Qed.

Example C14_ex_balance :
  balance_chunksizes 4 [4;4;2] = Ok [5;5] /\ balance_chunksizes 3 [3;3;3;1] = Ok [4;4;2] /\
  balance_chunksizes 0 [4;4;2] = Err EZeroDiv /\ balance_chunksizes (-7) [4;4;2] = Ok [4;4;2].
Proof. vm_compute. repeat split; reflexivity. Qed.

Print Assumptions C14_rechunk_1d_values.
Print Assumptions C14_rechunk_block_content.
Print Assumptions C14_graph_total.
Print Assumptions C14_pieces_from_distinct_old_blocks.
Print Assumptions C14_single_source_alias.
Print Assumptions C14_plan_values.
Print Assumptions C14_rechunk_2d_block.
Print Assumptions C14_nd_model_rank1_is_1d_model.
Print Assumptions C14_chunks_as_normalized.
Print Assumptions C14_chunks_noauto_is_C16_normalize.
Print Assumptions C14_chunks_valid_layout.
Print Assumptions C14_tuple_entries_beyond_ndim_ignored.
Print Assumptions C14_validate_rechunk_accepts_iff_same_shape.
Print Assumptions C14_validate_unknown_axis_unchanged.
Print Assumptions C14_validate_known_axis_same_extent.
Print Assumptions C14_balance_preserves_sum.
Print Assumptions C14_balance_valid_layout.
