(* C11 — In-place operations only change the array they are applied to (placeholder for the mutation-history model). *)
From DA Require Import PyBase.
Open Scope Z_scope.
Example C11_placeholder : zsum [1;2;3] = 6. Proof. reflexivity. Qed.
Print Assumptions C11_placeholder.
