(* C11 — "In-place operations only change the array they are applied to."

   Statements only; model in theories/Mutation.v (collections = mutable cells holding an
   immutable expression + the caches of Array.__dict__; handles = user variables; transcriptions
   of Array._replace_expr, __setitem__, handle_out (ufunc out=), compute_chunk_sizes,
   _lowered_expr / _lowered_expr_optimize_graph / _cached_dask_keys, optimize, and of the
   identity-returning derivations), proofs in theories/MutationFacts.v.
   The harness (harness/c11.py, model_family) replays generated histories on real collections and
   compares object identity, the cache attributes present in __dict__ and the pattern of
   expression names after EVERY op with `trace_ok`, and dask's 1-D slice assignment with
   `setitem_den`, exactly. *)
From Coq Require Import List Bool ZArith PArith.
From DA Require Import PyBase Mutation MutationFacts.
Import ListNotations.
Open Scope Z_scope.

(* after ANY history every cache present on ANY object was derived from the object's CURRENT
   expression (under the optimize-graph flag recorded next to it): _replace_expr drops them all *)
Theorem C11_cache_coherent :
  forall (ops : list op) (src : positive) (c : nat) (x : coll),
  get_coll (run ops (init src)) c = Some x ->
  (forall e f, c_low x = Some (Mat e f) -> e = c_expr x /\ c_flag x = Some f) /\
  (forall e, c_keys x = Some e -> e = c_expr x).
Proof. exact cache_coherent. Qed.

(* one op replaces the expression of its target object and of no other object *)
Theorem C11_step_frame :
  forall st o c e,
  expr_of st c = Some e -> expr_target st o <> Some c -> expr_of (step st o) c = Some e.
Proof. exact step_frame. Qed.

(* a derivation that builds a new object captures the parent's CURRENT expression; for every later
   history in which no in-place op is applied to the derived object itself (through any handle),
   it still points to exactly that expression — whatever is done to the parent or anyone else.
   Expressions are immutable values, so for every denotation function `den` its value is
   den (EDer k (parent's expression at derivation time)). *)
Theorem C11_others_unchanged :
  forall (V : Type) (den : expr -> V) st h k c x ops,
  coll_of st h = Some c -> get_coll st c = Some x -> identity_returning k = false ->
  let d := length (colls st) in
  let st1 := step st (Derive h k) in
  coll_of st1 (length (handles st)) = Some d /\
  (expr_untouched d ops st1 ->
     expr_of (run ops st1) d = Some (EDer k (c_expr x)) /\
     option_map den (expr_of (run ops st1) d) = Some (den (EDer k (c_expr x)))).
Proof.
  intros V den st h k c x ops Hh Hc Hk d st1.
  destruct (others_unchanged st h k c x ops Hh Hc Hk) as [A B]. split; [exact A|].
  intro Hu. specialize (B Hu). fold d st1 in B. split; [exact B|]. rewrite B. reflexivity.
Qed.

(* the same for any object and any history *)
Theorem C11_history_frame :
  forall ops st c e,
  expr_of st c = Some e -> expr_untouched c ops st -> expr_of (run ops st) c = Some e.
Proof. exact run_frame. Qed.

(* x[:], x[...], asarray(x), x.astype(x.dtype) return x itself: the new handle IS x and follows it
   (DESIGN F9: a design decision of the library, stated here so that it is explicit) *)
Theorem C11_identity_derivations_alias :
  forall st h k c,
  coll_of st h = Some c -> identity_returning k = true ->
  let st1 := step st (Derive h k) in
  coll_of st1 (length (handles st)) = Some c /\ colls st1 = colls st.
Proof. exact identity_derivation_aliases. Qed.

(* NumPy 1-D assignment semantics for every basic slice key with non-zero step (negative steps
   and out-of-range endpoints included; v a scalar or a sequence): length kept, the i-th selected
   position (PyBase.sel) receives the i-th value, all other positions unchanged.  (NumPy raises
   unless value_fits v (length (sel k n)); the harness compares `setitem_den` with dask exactly.) *)
Theorem C11_setitem_1d_den :
  forall (x : list Z) (k : pslice) (v : value),
  step_of k <> 0 ->
  let n := Z.of_nat (length x) in
  let r := setitem_den x k v in
  length r = length x /\
  (forall i, (i < length (sel k n))%nat -> nth (Z.to_nat (nth i (sel k n) 0)) r 0 = value_at v i) /\
  (forall p, ~ In (Z.of_nat p) (sel k n) -> nth p r 0 = nth p x 0).
Proof. exact setitem_den_spec. Qed.

(* REFUTED: "the `_optimized` marker implies the caches optimize() installed are still there":
   _replace_expr pops the three caches but not `_optimized`, so after  y = x.optimize(); y[::2] = 10
   the marker is stale and y.optimize() returns y itself, un-optimized (values are unaffected:
   the caches are rebuilt from the new expression, C11_cache_coherent). *)
Theorem C11_optimized_flag_stale_refuted :
  exists ops c x, get_coll (run ops (init 1%positive)) c = Some x /\ ~ optimized_flag_ok x /\
    (* ... and optimize() then hands back that very object *)
    step (run ops (init 1%positive)) (Optimize 1 None) = new_alias (run ops (init 1%positive)) c.
Proof.
  exists [Optimize 0 None; SetItem 1 1%positive 1%positive], 1%nat.
  eexists. split; [vm_compute; reflexivity|]. split; [|vm_compute; reflexivity].
  unfold optimized_flag_ok. cbn. intro H. destruct (H eq_refl) as [l [f [E _]]]. discriminate.
Qed.

(* ---- Examples ---- *)
Definition ex_ops : list op :=
  [ Derive 0 DAdd1; Compute 0 true; Keys 0; Derive 0 DSliceAll; SetItem 2 1%positive 3%positive;
    Compute 1 false; UfuncOut 0 1; Optimize 1 (Some 9%positive) ].

(* handle 2 (= x[:]) is x; the SetItem through it replaced x's expression and dropped x's caches;
   y = x + 1 still points to EDer DAdd1 (ESrc 1) until out=y replaces it *)
Example C11_ex_trace :
  map (map (fun o => fst o)) (trace ex_ops (init 1%positive)) =
  [ [(0, (false, false, false, false)); (1, (false, false, false, false))];
    [(0, (true, true, false, false)); (1, (false, false, false, false))];
    [(0, (true, true, true, false)); (1, (false, false, false, false))];
    [(0, (true, true, true, false)); (1, (false, false, false, false)); (0, (true, true, true, false))];
    [(0, (false, false, false, false)); (1, (false, false, false, false)); (0, (false, false, false, false))];
    [(0, (false, false, false, false)); (1, (true, true, false, false)); (0, (false, false, false, false))];
    [(0, (false, false, false, false)); (1, (false, false, false, false)); (0, (false, false, false, false))];
    [(0, (false, false, false, false)); (1, (false, false, false, false)); (0, (false, false, false, false));
     (3, (true, true, false, true))] ]%nat.
Proof. vm_compute. reflexivity. Qed.

Example C11_ex_untouched :
  expr_untouched 1 [SetItem 0 1%positive 1%positive; SetMask 2 3 0; Compute 1 true]
                 (run [Derive 0 DNeg; Derive 0 DEllipsis] (init 1%positive)) /\
  expr_of (run [Derive 0 DNeg; Derive 0 DEllipsis; SetItem 0 1%positive 1%positive; SetMask 2 3 0; Compute 1 true]
               (init 1%positive)) 1 = Some (EDer DNeg (ESrc 1)).
Proof. split; [cbn; repeat split; discriminate | vm_compute; reflexivity]. Qed.

Example C11_ex_setitem :
  setitem_den [0; 1; 2; 3; 4; 5; 6] (mkslice (Some 5) (Some (-7)) (Some (-2))) (Seq [100; 101; 102]) =
    [0; 102; 2; 101; 4; 100; 6] /\
  setitem_den [0; 1; 2; 3; 4] (mkslice None None (Some 2)) (Scalar 9) = [9; 1; 9; 3; 9].
Proof. vm_compute. split; reflexivity. Qed.

Print Assumptions C11_cache_coherent.
Print Assumptions C11_step_frame.
Print Assumptions C11_others_unchanged.
Print Assumptions C11_history_frame.
Print Assumptions C11_identity_derivations_alias.
Print Assumptions C11_setitem_1d_den.
Print Assumptions C11_optimized_flag_stale_refuted.
