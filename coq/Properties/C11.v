(* C11 — "In-place operations only change the array they are applied to."

   Statements only; model in theories/Mutation.v (collections = mutable cells holding an
   immutable expression + the caches of Array.__dict__; handles = user variables; transcriptions
   of Array._replace_expr, __setitem__, handle_out (ufunc out=), compute_chunk_sizes,
   _lowered_expr / _lowered_expr_optimize_graph / _cached_dask_keys, optimize, and of the
   identity-returning derivations), proofs in theories/MutationFacts.v.
   The harness (harness/c11.py, model_family) replays generated histories on real collections and
   compares object identity, the cache attributes present in __dict__ and the pattern of
   expression names after EVERY op with `trace_ok`, and dask's 1-D slice assignment with
   `setitem_den`, exactly. *)
From Coq Require Import List Bool ZArith PArith.
From DA Require Import PyBase Slicing Mutation MutationFacts SetitemPlan SetitemPlanFacts.
Import ListNotations.
Open Scope Z_scope.

(* after ANY history every cache present on ANY object was derived from the object's CURRENT
   expression (under the optimize-graph flag recorded next to it): _replace_expr drops them all *)
Theorem C11_cache_coherent :
  forall (ops : list op) (src : positive) (c : nat) (x : coll),
  get_coll (run ops (init src)) c = Some x ->
  (forall e f, c_low x = Some (Mat e f) -> e = c_expr x /\ c_flag x = Some f) /\
  (forall e, c_keys x = Some e -> e = c_expr x).
Proof. exact cache_coherent. Qed.

(* one op replaces the expression of its target object and of no other object *)
Theorem C11_step_frame :
  forall st o c e,
  expr_of st c = Some e -> expr_target st o <> Some c -> expr_of (step st o) c = Some e.
Proof. exact step_frame. Qed.

(* a derivation that builds a new object captures the parent's CURRENT expression; for every later
   history in which no in-place op is applied to the derived object itself (through any handle),
   it still points to exactly that expression — whatever is done to the parent or anyone else.
   Expressions are immutable values, so for every denotation function `den` its value is
   den (EDer k (parent's expression at derivation time)). *)
Theorem C11_others_unchanged :
  forall (V : Type) (den : expr -> V) st h k c x ops,
  coll_of st h = Some c -> get_coll st c = Some x -> identity_returning k = false ->
  let d := length (colls st) in
  let st1 := step st (Derive h k) in
  coll_of st1 (length (handles st)) = Some d /\
  (expr_untouched d ops st1 ->
     expr_of (run ops st1) d = Some (EDer k (c_expr x)) /\
     option_map den (expr_of (run ops st1) d) = Some (den (EDer k (c_expr x)))).
Proof.
  intros V den st h k c x ops Hh Hc Hk d st1.
  destruct (others_unchanged st h k c x ops Hh Hc Hk) as [A B]. split; [exact A|].
  intro Hu. specialize (B Hu). fold d st1 in B. split; [exact B|]. rewrite B. reflexivity.
Qed.

(* the same for any object and any history *)
Theorem C11_history_frame :
  forall ops st c e,
  expr_of st c = Some e -> expr_untouched c ops st -> expr_of (run ops st) c = Some e.
Proof. exact run_frame. Qed.

(* x[:], x[...], asarray(x), x.astype(x.dtype) return x itself: the new handle IS x and follows it
   (DESIGN F9: a design decision of the library, stated here so that it is explicit) *)
Theorem C11_identity_derivations_alias :
  forall st h k c,
  coll_of st h = Some c -> identity_returning k = true ->
  let st1 := step st (Derive h k) in
  coll_of st1 (length (handles st)) = Some c /\ colls st1 = colls st.
Proof. exact identity_derivation_aliases. Qed.

(* NumPy 1-D assignment semantics for every basic slice key with non-zero step (negative steps
   and out-of-range endpoints included; v a scalar or a sequence): length kept, the i-th selected
   position (PyBase.sel) receives the i-th value, all other positions unchanged.  (NumPy raises
   unless value_fits v (length (sel k n)); the harness compares `setitem_den` with dask exactly.) *)
Theorem C11_setitem_1d_den :
  forall (x : list Z) (k : pslice) (v : value),
  step_of k <> 0 ->
  let n := Z.of_nat (length x) in
  let r := setitem_den x k v in
  length r = length x /\
  (forall i, (i < length (sel k n))%nat -> nth (Z.to_nat (nth i (sel k n) 0)) r 0 = value_at v i) /\
  (forall p, ~ In (Z.of_nat p) (sel k n) -> nth p r 0 = nth p x 0).
Proof. exact setitem_den_spec. Qed.

(* REFUTED: "the `_optimized` marker implies the caches optimize() installed are still there":
   _replace_expr pops the three caches but not `_optimized`, so after  y = x.optimize(); y[::2] = 10
   the marker is stale and y.optimize() returns y itself, un-optimized (values are unaffected:
   the caches are rebuilt from the new expression, C11_cache_coherent). *)
Theorem C11_optimized_flag_stale_refuted :
  exists ops c x, get_coll (run ops (init 1%positive)) c = Some x /\ ~ optimized_flag_ok x /\
    (* ... and optimize() then hands back that very object *)
    step (run ops (init 1%positive)) (Optimize 1 None) = new_alias (run ops (init 1%positive)) c.
Proof.
  exists [Optimize 0 None; SetItem 1 1%positive 1%positive], 1%nat.
  eexists. split; [vm_compute; reflexivity|]. split; [|vm_compute; reflexivity].
  unfold optimized_flag_ok. cbn. intro H. destruct (H eq_refl) as [l [f [E _]]]. discriminate.
Qed.

(* ---- Examples ---- *)
Definition ex_ops : list op :=
  [ Derive 0 DAdd1; Compute 0 true; Keys 0; Derive 0 DSliceAll; SetItem 2 1%positive 3%positive;
    Compute 1 false; UfuncOut 0 1; Optimize 1 (Some 9%positive) ].

(* handle 2 (= x[:]) is x; the SetItem through it replaced x's expression and dropped x's caches;
   y = x + 1 still points to EDer DAdd1 (ESrc 1) until out=y replaces it *)
Example C11_ex_trace :
  map (map (fun o => fst o)) (trace ex_ops (init 1%positive)) =
  [ [(0, (false, false, false, false)); (1, (false, false, false, false))];
    [(0, (true, true, false, false)); (1, (false, false, false, false))];
    [(0, (true, true, true, false)); (1, (false, false, false, false))];
    [(0, (true, true, true, false)); (1, (false, false, false, false)); (0, (true, true, true, false))];
    [(0, (false, false, false, false)); (1, (false, false, false, false)); (0, (false, false, false, false))];
    [(0, (false, false, false, false)); (1, (true, true, false, false)); (0, (false, false, false, false))];
    [(0, (false, false, false, false)); (1, (false, false, false, false)); (0, (false, false, false, false))];
    [(0, (false, false, false, false)); (1, (false, false, false, false)); (0, (false, false, false, false));
     (3, (true, true, false, true))] ]%nat.
Proof. vm_compute. reflexivity. Qed.

Example C11_ex_untouched :
  expr_untouched 1 [SetItem 0 1%positive 1%positive; SetMask 2 3 0; Compute 1 true]
                 (run [Derive 0 DNeg; Derive 0 DEllipsis] (init 1%positive)) /\
  expr_of (run [Derive 0 DNeg; Derive 0 DEllipsis; SetItem 0 1%positive 1%positive; SetMask 2 3 0; Compute 1 true]
               (init 1%positive)) 1 = Some (EDer DNeg (ESrc 1)).
Proof. split; [cbn; repeat split; discriminate | vm_compute; reflexivity]. Qed.

Example C11_ex_setitem :
  setitem_den [0; 1; 2; 3; 4; 5; 6] (mkslice (Some 5) (Some (-7)) (Some (-2))) (Seq [100; 101; 102]) =
    [0; 102; 2; 101; 4; 100; 6] /\
  setitem_den [0; 1; 2; 3; 4] (mkslice None None (Some 2)) (Scalar 9) = [9; 1; 9; 3; 9].
Proof. vm_compute. split; reflexivity. Qed.

Print Assumptions C11_cache_coherent.
Print Assumptions C11_step_frame.
Print Assumptions C11_others_unchanged.
Print Assumptions C11_history_frame.
Print Assumptions C11_identity_derivations_alias.
Print Assumptions C11_setitem_1d_den.
Print Assumptions C11_optimized_flag_stale_refuted.

(* ==================================================================================================
   THE PER-BLOCK PLAN of `x[index] = value`  (model: theories/SetitemPlan.v, a transcription of normalize_index,
   parse_assignment_indices, parse_and_validate_assignment and of the block loop of setitem_array_expr; proofs:
   theories/SetitemPlanFacts.v).  harness/c11.py (fam_setitem_plan) reads the plan back from the real SetItem layer (Alias /
   Task(setitem, block, value[value_indices], block_indices)) and compares it, and the output of
   parse_and_validate_assignment, EXACTLY with `parse` / `plan_obs` on every generated case.

   PER-AXIS THEOREMS, for every block [loc0, loc1) of every chunking and every parsed index entry. *)

(* a parsed slice (a, b, k) — k > 0, reversed slices are already recast by the parser.  Either the block is reported as not
   overlapping and then holds no addressed position, or the kernel receives the local slice (s, t, k) with
   0 <= s < t <= block size (IN BOUNDS of the block) that addresses exactly the addressed positions of the block, its
   sz = len(range(s, t, k)) positions being the positions number pre, pre+1, ..., pre+sz-1 of the whole slice
   (pre * k = loc0 + s - a), and value[pre : pre + sz] stays IN BOUNDS of the implied length. *)
Theorem C11_plan_axis_slice :
  forall a b k loc0 loc1, 0 < k -> 0 <= a -> 0 <= loc0 < loc1 ->
  match axis_block (PSl a b k) loc0 loc1 with
  | None => forall p, loc0 <= p < loc1 -> ~ in_sl a b k p
  | Some (bi, osz, opre) =>
      exists s t sz pre,
        bi = SSlice (mkslice (Some s) (Some t) (Some k)) /\ osz = Some sz /\ opre = Some pre /\
        0 <= s < t /\ t <= loc1 - loc0 /\ sz = range_len s t k /\ 0 < sz /\ 0 <= pre /\
        pre * k = loc0 + s - a /\
        pre + sz <= range_len a b k /\
        (forall q, 0 <= q < loc1 - loc0 -> (in_sl s t k q <-> in_sl a b k (loc0 + q)))
  end.
Proof. exact axis_block_slice_spec. Qed.

Theorem C11_plan_axis_int :
  forall i loc0 loc1,
  match axis_block (PInt i) loc0 loc1 with
  | None => forall p, loc0 <= p < loc1 -> p <> i
  | Some (bi, osz, opre) => bi = SInt (i - loc0) /\ osz = None /\ opre = None /\ 0 <= i - loc0 < loc1 - loc0
  end.
Proof. exact axis_block_int_spec. Qed.

(* a 1-D integer list l (posified).  The block index bl lists, in order, the entries of l that fall into the block (minus
   loc0, IN BOUNDS of the block), the value index w their positions in l (IN BOUNDS of the value); and LAST WRITE WINS
   consistently: for a repeated entry NumPy keeps the last write (last_idx), the kernel — NumPy again, inside the block —
   keeps the last write of bl, and that is the same value coordinate. *)
Theorem C11_plan_axis_list :
  forall l loc0 loc1,
  match axis_block (PLst l) loc0 loc1 with
  | None => forall p, loc0 <= p < loc1 -> ~ In p l
  | Some (bi, osz, opre) =>
      let bl := block_list l loc0 loc1 in
      let w := where_in 0 l loc0 loc1 in
      bi = SList bl /\ osz = None /\ opre = None /\ bl <> [] /\ length bl = length w /\
      Forall (fun q => 0 <= q < loc1 - loc0) bl /\ Forall (fun r => 0 <= r < lenZ l) w /\
      (forall k, (k < length bl)%nat -> loc0 + nth k bl 0 = nth (Z.to_nat (nth k w 0)) l 0) /\
      (forall p, loc0 <= p < loc1 ->
         last_idx p l 0 = match last_idx (p - loc0) bl 0 with Some k => Some (nth (Z.to_nat k) w 0) | None => None end)
  end.
Proof. exact axis_block_list_spec. Qed.

(* N-d FRAME (any rank, any chunking): a block reported untouched (Alias of the input block) contains no indexed position;
   every indexed position lies in a touched block; and the blocks of an axis are disjoint, so it lies in exactly one.
   Every accepted assignment is parsed into well-formed entries (wf_pidx1: positive step, non-negative start — also for the
   recast negative-step slices): C11_plan_parse_wf, so the frame theorems are stated from `parse` itself. *)
Theorem C11_plan_parse_wf :
  forall idx shape vshape pr,
  Forall (fun d => 0 <= d) shape -> parse idx shape vshape = Some pr -> Forall wf_pidx1 (p_idx pr).
Proof. exact parse_wf. Qed.

Theorem C11_plan_frame_untouched :
  forall idx shape vshape pr ls p,
  Forall (fun d => 0 <= d) shape -> parse idx shape vshape = Some pr ->
  Forall wf_loc ls -> Forall2 in_block ls p ->
  block_plan pr vshape ls = BUntouched -> ~ Forall2 addressed1 (p_idx pr) p.
Proof. exact plan_frame_untouched_parse. Qed.

Theorem C11_plan_frame_touched :
  forall idx shape vshape pr ls p,
  Forall (fun d => 0 <= d) shape -> parse idx shape vshape = Some pr ->
  Forall wf_loc ls -> Forall2 in_block ls p ->
  Forall2 addressed1 (p_idx pr) p -> block_plan pr vshape ls <> BUntouched.
Proof. exact plan_frame_touched_parse. Qed.

Theorem C11_plan_blocks_disjoint :
  forall cs, Forall (fun c => 0 < c) cs -> forall off l l' x,
  In l (locs_from off cs) -> In l' (locs_from off cs) -> in_block l x -> in_block l' x -> l = l'.
Proof. exact locs_disjoint. Qed.

(* FULL N-d DENOTATION STATEMENT (NOT proved in general; decided by `den_ok_b` inside Coq on every case the harness generates
   in its domain, and on the Examples below):

     forall chunks idx vshape pr x v p,
       Forall (Forall (fun c => 0 < c)) chunks -> parse idx (map zsum chunks) vshape = Some pr ->
       in_bounds p (map zsum chunks) ->
       plan_setitem x chunks pr vshape v p = Some (np_setitem x idx (map zsum chunks) vshape v p).

   What is proved of it: the three per-axis theorems above (local index and value sub-index of every block, bounds, last write
   wins) and, for any rank, the part of the statement that concerns the blocks passed through (C11_plan_denotation_partial).
   MISSING: (1) the lift of the per-axis theorems through fill_values / reverse_values (alignment of the value dimensions
   with the non-integer axes, trailing broadcasting) for the touched blocks; (2) the bridge from the raw index to the parsed
   one (pai_slice: `in_sl a b k p <-> In p (sel s n)`, reversed order for negative steps; its well-formedness IS proved). *)
Theorem C11_plan_denotation_partial :
  forall idx shape x chunks pr vshape v p ls,
  Forall (fun d => 0 <= d) shape -> parse idx shape vshape = Some pr ->
  Forall wf_loc ls -> Forall2 in_block ls p ->
  find_locs p chunks = Some ls -> block_plan pr vshape ls = BUntouched ->
  plan_setitem x chunks pr vshape v p = Some (x p) /\ ~ Forall2 addressed1 (p_idx pr) p.
Proof. exact plan_denotation_untouched. Qed.

(* FORMER COUNTEREXAMPLES.  Before the repairs ce7c1de / ed2da03 of /repo the faithful model REFUTED the denotation statement
   on these inputs (theorems C11_plan_int_before_list_refuted, ..._int_before_reversed_refuted,
   ..._wrong_axis_reversed_refuted, ..._missing_ellipsis_refuted of the previous version of this file: findings C11-S1, S3,
   S4).  On the model of the repaired code no block crashes and the graph computes NumPy's result at EVERY position: *)
Example C11_plan_int_before_list_now_numpy :            (* was: TypeError while building the graph *)
  plan_obs [[2; 2]; [2; 2]] [SInt 2; SList [0; 1]] [2] <> Some None /\
  den_ok_b [[2; 2]; [2; 2]] [SInt 2; SList [0; 1]] [2] = true /\
  den_ok_b [[1; 1]; [1; 3; 2]; [1; 1]] [SInt 0; SList [-5; -1; -5]; SSlice colon] [3; 2] = true.
Proof. vm_compute. repeat split; try reflexivity. discriminate. Qed.

Example C11_plan_int_before_reversed_now_numpy :        (* was: IndexError while building the graph *)
  plan_obs [[2; 2]; [2; 2]] [SInt 1; SSlice (mkslice None None (Some (-1)))] [4] <> Some None /\
  den_ok_b [[2; 2]; [2; 2]] [SInt 1; SSlice (mkslice None None (Some (-1)))] [4] = true.
Proof. vm_compute. split; [discriminate | reflexivity]. Qed.

Example C11_plan_reversed_later_axis_now_numpy :        (* was: the wrong value axis reversed, silently *)
  den_ok_b [[2]; [3]; [3]] [SInt 1; SSlice (mkslice None None (Some (-1))); SSlice colon] [3; 3] = true /\
  den_ok_b [[1; 1]; [2; 1]; [3]] [SInt (-1); SSlice colon; SSlice (mkslice (Some 2) None (Some (-2)))] [3; 2] = true.
Proof. vm_compute. split; reflexivity. Qed.

Example C11_plan_leading_ones_now_numpy :               (* was: Ellipsis not inserted: IndexError / shape mismatch *)
  plan_obs [[4]; [2; 3; 1; 1]] [SList [0; 0; 1; 2]; SInt (-7)] [1; 4] <> Some None /\
  den_ok_b [[4]; [2; 3; 1; 1]] [SList [0; 0; 1; 2]; SInt (-7)] [1; 4] = true /\
  den_ok_b [[1; 1]; [4]] [SSlice (mkslice (Some 0) (Some 2) None); SInt 0] [1; 2] = true.
Proof. vm_compute. repeat split; try reflexivity. discriminate. Qed.

(* ---- Examples: the hypotheses are satisfiable, and the FULL statement holds on concrete non-trivial inputs ---- *)
Example C11_plan_ex_plan :
  plan [[2; 4]] [SSlice (mkslice (Some 5) (Some 0) (Some (-2)))] [3] =
  Some [ BTouched [SSlice (mkslice (Some 1) (Some 2) (Some 2))] [SSlice (mkslice (Some 2) (Some 1) (Some (-1)))] false;
         BTouched [SSlice (mkslice (Some 1) (Some 4) (Some 2))] [SSlice (mkslice (Some 1) None (Some (-1)))] false ].
Proof. vm_compute. reflexivity. Qed.

Example C11_plan_ex_axis_slice :
  axis_block (PSl 1 6 2) 2 6 = Some (SSlice (mkslice (Some 1) (Some 4) (Some 2)), Some 2, Some 1) /\
  axis_block (PSl 1 2 2) 2 6 = None /\
  axis_block (PLst [5; 0; 3; 5]) 2 6 = Some (SList [3; 1; 3], None, None) /\ where_in 0 [5; 0; 3; 5] 2 6 = [0; 2; 3].
Proof. vm_compute. repeat split; reflexivity. Qed.

Example C11_plan_ex_frame :
  exists pr, parse [SSlice (mkslice (Some 4) None (Some 3)); SInt (-1)] [6; 3] [] = Some pr /\
    Forall wf_pidx1 (p_idx pr) /\
    block_plan pr [] [(0, 2); (2, 3)] = BUntouched /\ block_plan pr [] [(2, 6); (2, 3)] <> BUntouched /\
    Forall2 addressed1 (p_idx pr) [4; 2].
Proof.
  eexists. split; [vm_compute; reflexivity|]. cbn [p_idx].
  split; [repeat constructor; cbn; lia|]. split; [vm_compute; reflexivity|]. split; [vm_compute; discriminate|].
  repeat constructor; cbn; lia.
Qed.

(* the full denotation statement, decided at every position: reversed slice x repeated list x broadcasting, 2 x 2 blocks;
   a clipped negative-step slice with a (1, 1, 3) value; an integer after a slice with a (1,) value; a repeated list with a
   (1, 4) value *)
Example C11_plan_ex_denotation :
  den_ok_b [[2; 2]; [3; 3]] [SSlice (mkslice None None (Some (-1))); SList [5; 0; 2; 5]] [4; 4] = true /\
  den_ok_b [[2; 2]; [3; 3]] [SSlice (mkslice None None (Some (-1))); SList [5; 0; 2]] [3] = true /\
  den_ok_b [[2; 2]; [2; 2]] [SSlice (mkslice None None (Some (-2))); SSlice (mkslice (Some 1) None None)] [1; 1; 3] = true /\
  den_ok_b [[2; 4]; [1; 2]] [SSlice (mkslice (Some 1) None (Some 2)); SInt (-1)] [1] = true /\
  den_ok_b [[3; 3]] [SList [5; 0; 5; 2]] [1; 4] = true.
Proof. vm_compute. repeat split; reflexivity. Qed.

Print Assumptions C11_plan_axis_slice.
Print Assumptions C11_plan_axis_int.
Print Assumptions C11_plan_axis_list.
Print Assumptions C11_plan_parse_wf.
Print Assumptions C11_plan_frame_untouched.
Print Assumptions C11_plan_frame_touched.
Print Assumptions C11_plan_blocks_disjoint.
Print Assumptions C11_plan_denotation_partial.
