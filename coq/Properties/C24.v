(* C24 — Source reads return exactly the requested elements.
   Statements only: every theorem is closed by `exact <lemma proved in theories/>`.

   Model (theories/FromArrayModel.v): a FromArray is a list of axes
   (a_base [ghost], a_dim, a_region, a_chunks).  accept_axis / accept_slice =
   FromArray._accept_slice (region composition by _compose_slices, new chunks by
   _compute_sliced_chunks, int -> size-1 slice + extraction index 0); np_adjust = its
   NumPy branch (drop a full region / eager copy under the byte limit);
   axis_requests / layer_requests = the slices _layer hands to the getter
   (slices_from_chunks + region start offsets); accept_rechunk = _accept_rechunk
   (storage grid from _source_storage_chunks, region case with `splits_storage` and the
   `boundaries` list, plain case with `respects_storage` and reads rounded up to
   multiples of the storage chunk).

   Specification vocabulary:
   sel s n            positions NumPy's x[s] selects on an axis of length n (PyBase.v)
   np_index pos e     NumPy indexing of a vector of positions with one index element
                      (an integer i is read as the size-1 selection [pos[i]]; the axis is
                      then dropped by the extraction index 0 that accept_slice returns)
   chain_sel pos es   x[e1][e2]...[ek] on one axis
   axis_positions a   the positions (in the user's original data) a FromArray axis denotes
   request_positions  the positions a list of requests [lo, hi) reads, in request order
   read_ok a st rd    rd is a layout of the effective length whose interior boundaries, in
                      ABSOLUTE source coordinates (region start + offset), are multiples of st *)
From DA Require Import PyBase Slicing FuseFacts FromArrayModel FromArrayFacts.
Open Scope Z_scope.

(* ---------------------------------------------------------------------------------- *)
(* (a) region pushdown is exact                                                        *)

(* one index element pushed into one axis: the new region selects exactly what NumPy
   indexing of the old selection selects; the advertised chunks are a layout of it *)
Theorem C24_accept_slice_step :
  forall a e, axis_wf a -> idx_ok (a_eff a) e ->
  axis_wf (accept_axis a e) /\
  axis_positions (accept_axis a e) = np_index (axis_positions a) e /\
  a_eff (accept_axis a e) = slice_len (ri_of e) (a_eff a).
Proof. exact accept_axis_exact. Qed.

(* any chain of unit-step slices / in-range integers, starting from any well-formed axis *)
Theorem C24_region_chain_from :
  forall es a, axis_wf a -> chain_ok (a_eff a) es ->
  axis_wf (axis_chain a es) /\
  axis_positions (axis_chain a es) = chain_sel (axis_positions a) es /\
  a_dim (axis_chain a es) = a_dim a /\ a_base (axis_chain a es) = a_base a.
Proof. exact region_chain_exact. Qed.

(* ... and from a fresh from_array(x, chunks=cs): the final region selects exactly
   x[e1]...[ek] and the advertised chunks are a valid non-empty layout of its length *)
Theorem C24_region_chain :
  forall dim cs es, valid_chunks cs dim -> cs <> [] -> chain_ok dim es ->
  let a := axis_chain (fresh_axis dim cs) es in
  axis_wf a /\
  map (fun p => a_base a + p) (region_sel (a_dim a) (a_region a)) = chain_sel (zrange 0 dim 1) es /\
  valid_chunks (a_chunks a) (lenZ (chain_sel (zrange 0 dim 1) es)) /\ a_chunks a <> [].
Proof. exact region_chain_fresh. Qed.

(* an integer index keeps a size-1 axis holding exactly pos[i] (extraction index 0 drops it) *)
Theorem C24_int_axis :
  forall pos i, 0 <= i < lenZ pos -> np_index pos (IInt i) = [nth (Z.to_nat i) pos 0].
Proof. exact np_index_int. Qed.

(* all axes at once (N-D = product of the axes) *)
Theorem C24_accept_slice_nd :
  forall f index f' ext,
  let full := pad_index index (length f) in
  Forall axis_wf f ->
  Forall2 (fun a e => idx_ok (a_eff a) e) f full ->
  accept_slice f index = Some (f', ext) ->
  Forall2 (fun ae a' => axis_wf a' /\
                        axis_positions a' = np_index (axis_positions (fst ae)) (snd ae) /\
                        a_dim a' = a_dim (fst ae) /\ a_base a' = a_base (fst ae))
          (combine f full) f' /\
  ext = (if existsb is_int full then Some (map extract_of full) else None).
Proof. exact accept_slice_nd. Qed.

(* it declines exactly when some element is None or a slice with a non-unit step *)
Theorem C24_accept_slice_declines :
  forall f index, accept_slice f index = None <-> exists e, In e index /\ slice_pushable e = false.
Proof. exact accept_slice_declines. Qed.

(* NumPy sources: dropping a full region, or replacing the source by source[region].copy()
   under the byte limit, keeps the denoted positions and the chunks *)
Theorem C24_numpy_copy_exact :
  forall itemsize limit f, Forall axis_wf f ->
  Forall2 (fun a a' => axis_wf a' /\ axis_positions a' = axis_positions a /\ a_chunks a' = a_chunks a)
          f (np_adjust itemsize limit f).
Proof. exact np_adjust_exact. Qed.

(* ---------------------------------------------------------------------------------- *)
(* (b) the read requests of _layer                                                     *)

(* per axis: the requests are contiguous, in order, start at the region start, end at
   region start + effective length, and read exactly the region's positions *)
Theorem C24_reads_partition :
  forall a, axis_wf a ->
  request_positions (axis_requests a) = region_sel (a_dim a) (a_region a) /\
  contiguous_from (region_start (a_dim a) (a_region a)) (axis_requests a)
                  (region_start (a_dim a) (a_region a) + a_eff a).
Proof. exact reads_partition. Qed.

(* contiguous => pairwise disjoint and ordered *)
Theorem C24_reads_disjoint :
  forall rq lo hi, contiguous_from lo rq hi ->
  forall i j, (i < j < length rq)%nat -> snd (nth i rq (0, 0)) <= fst (nth j rq (0, 0)).
Proof. exact contiguous_disjoint. Qed.

(* every request stays within the source *)
Theorem C24_in_bounds :
  forall a, axis_wf a -> Forall (in_bounds (a_dim a)) (axis_requests a).
Proof. exact reads_in_bounds. Qed.

Theorem C24_in_bounds_nd :
  forall f, Forall axis_wf f ->
  Forall (fun req => Forall2 (fun p a => in_bounds (a_dim a) p) req f) (layer_requests f).
Proof. exact layer_requests_in_bounds. Qed.

(* N-D: a point is read iff it lies in the region box, and then by exactly one block *)
Theorem C24_reads_cover_nd :
  forall f p, Forall axis_wf f ->
  (Forall2 (fun x a => In x (region_sel (a_dim a) (a_region a))) p f <->
   exists req, In req (layer_requests f) /\ point_in req p).
Proof. exact layer_requests_cover. Qed.

Theorem C24_reads_unique_nd :
  forall f p r1 r2, Forall axis_wf f ->
  In r1 (layer_requests f) -> In r2 (layer_requests f) -> point_in r1 p -> point_in r2 p -> r1 = r2.
Proof. exact layer_requests_unique. Qed.

(* headline (one axis): slices/ints pushed into from_array(x, chunks=cs) are read back as
   exactly the elements NumPy's x[e1]...[ek] selects, in order, within bounds *)
Theorem C24_chain_reads_exact :
  forall dim cs es, valid_chunks cs dim -> cs <> [] -> chain_ok dim es ->
  let a := axis_chain (fresh_axis dim cs) es in
  request_positions (axis_requests a) = chain_sel (zrange 0 dim 1) es /\
  Forall (in_bounds dim) (axis_requests a).
Proof. exact chain_reads_exact. Qed.

(* ---------------------------------------------------------------------------------- *)
(* (c) storage-aligned rechunk pushdown                                                *)

(* regions built from normalised indices keep start <= stop ... *)
Theorem C24_regions_stay_ordered :
  forall es a, axis_wf a -> region_ordered (a_dim a) (a_region a) ->
  chain_ok (a_eff a) es -> chain_ordered (a_eff a) es ->
  region_ordered (a_dim (axis_chain a es)) (a_region (axis_chain a es)).
Proof. exact region_chain_ordered. Qed.

(* ... which is what normalize_slice output satisfies (cf. C13_normalize_slice_normalized) *)
Theorem C24_normalized_is_ordered :
  forall s n, 0 <= n -> unit_step s ->
  (forall a, s_start s = Some a -> 0 <= a <= n) -> (forall b, s_stop s = Some b -> 0 <= b <= n) ->
  (forall a b, s_start s = Some a -> s_stop s = Some b -> a <= b) -> ordered s n.
Proof. exact unit_nonneg_ordered. Qed.

(* whatever _accept_rechunk makes the source read at (pushed target chunks or the
   storage-aligned read_chunks below a Rechunk) is, on every axis, a non-empty valid layout
   of the effective length whose interior boundaries lie on the ABSOLUTE storage grid *)
Theorem C24_storage_read_chunks :
  forall f raw chunks st rd,
  Forall axis_wf f -> Forall (fun a => region_ordered (a_dim a) (a_region a)) f ->
  regions_uniform f -> Forall2 target_ok chunks f ->
  storage_grid raw (length f) = Some st ->
  accept_rechunk f raw chunks = PushAll rd \/ accept_rechunk f raw chunks = ReadThenRechunk rd ->
  Forall2 (fun r p => read_ok (fst p) (snd p) r) rd (combine f st).
Proof. exact accept_rechunk_read_ok. Qed.

(* per-axis versions of the three ways a read layout is chosen *)
Theorem C24_storage_region_axis :
  forall a r dc st rd,
  axis_wf a -> a_region a = Some r -> ordered r (a_dim a) -> 0 < st ->
  valid_chunks dc (a_eff a) -> dc <> [] ->
  region_read_axis dc st r (a_dim a) = Some rd -> read_ok a st rd.
Proof. exact region_read_axis_ok. Qed.

Theorem C24_storage_plain_axis :
  forall a dc st, axis_wf a -> a_region a = None -> 0 < st ->
  read_ok a st (uniform_chunks (a_eff a) (plain_read_size dc st)).
Proof. exact plain_axis_ok. Qed.

(* a push without a Rechunk above always reads at the requested chunks; without a usable
   grid (absent / wrong rank / non-positive entries) everything is pushed *)
Theorem C24_rechunk_pushall :
  forall f raw chunks c, accept_rechunk f raw chunks = PushAll c -> c = chunks.
Proof. exact accept_rechunk_pushall. Qed.

Theorem C24_rechunk_nogrid :
  forall f raw chunks, storage_grid raw (length f) = None -> accept_rechunk f raw chunks = PushAll chunks.
Proof. exact accept_rechunk_nogrid. Qed.

(* ---------------------------------------------------------------------------------- *)
(* what is FALSE without the preconditions the public API establishes                  *)

(* a region with start > stop (never produced from normalised indices, see
   C24_regions_stay_ordered) makes the region case of _accept_rechunk emit a negative chunk *)
Theorem C24_storage_read_chunks_unordered_refuted :
  exists a r dc st rd,
    axis_wf a /\ a_region a = Some r /\ 0 < st /\ valid_chunks dc (a_eff a) /\ dc <> [] /\
    region_read_axis dc st r (a_dim a) = Some rd /\ ~ read_ok a st rd.
Proof. exact region_read_unordered_refuted. Qed.

(* _accept_slice relies on normalize_index having made integers non-negative:
   slice(-1, 0) selects nothing while NumPy's x[-1] selects the last element *)
Theorem C24_negative_int_refuted :
  exists a e, axis_wf a /\ e = IInt (-1) /\
    axis_positions (accept_axis a e) = [] /\ nth 2 (axis_positions a) 0 = 2 /\ lenZ (axis_positions a) = 3.
Proof. exact accept_axis_negative_int_refuted. Qed.

(* ---------------------------------------------------------------------------------- *)
(* non-vacuity: concrete non-trivial inputs meeting the hypotheses                     *)

(* from_array(x[40], chunks=10)[3:33][-5:][1]  -> region 29:30, one chunk of 1 *)
Example C24_ex_chain :
  let es := [ISlice (mkslice (Some 3) (Some 33) None); ISlice (mkslice (Some (-5)) None None); IInt 1] in
  let a := axis_chain (fresh_axis 40 [10; 10; 10; 10]) es in
  valid_chunks [10; 10; 10; 10] 40 /\ chain_ok 40 es /\
  a_region a = Some (mkslice (Some 29) (Some 30) None) /\ a_chunks a = [1] /\
  chain_sel (zrange 0 40 1) es = [29] /\ axis_requests a = [(29, 30)].
Proof.
  cbv zeta. split; [split; [repeat constructor; lia | reflexivity]|].
  split; [cbn [chain_ok idx_ok]; repeat split; try (left; reflexivity); vm_compute; intuition congruence|].
  vm_compute. repeat split; reflexivity.
Qed.

(* the middle of the chain: 3:33 over chunks of 10 is read as 3:10, 10:20, 20:30, 30:33 *)
Example C24_ex_requests :
  let a := accept_axis (fresh_axis 40 [10; 10; 10; 10]) (ISlice (mkslice (Some 3) (Some 33) None)) in
  axis_wf_b a = true /\ a_chunks a = [7; 10; 10; 3] /\
  axis_requests a = [(3, 10); (10, 20); (20, 30); (30, 33)] /\
  request_positions (axis_requests a) = zrange 3 33 1.
Proof. vm_compute. repeat split; reflexivity. Qed.

(* rechunk to 5s over that region with storage chunks of 8: the source is read at
   3:8, 8:16, 16:24, 24:32, 32:33 and a Rechunk restores the 5s *)
Example C24_ex_storage_region :
  let f := [mkaxis 0 40 (Some (mkslice (Some 3) (Some 33) None)) [7; 10; 10; 3]] in
  Forall axis_wf f /\ regions_uniform f /\ Forall2 target_ok [[5; 5; 5; 5; 5; 5]] f /\
  storage_grid (Some [8]) (length f) = Some [8] /\
  accept_rechunk f (Some [8]) [[5; 5; 5; 5; 5; 5]] = ReadThenRechunk [[5; 8; 8; 8; 1]] /\
  read_ok_b (hd (fresh_axis 0 []) f) 8 [5; 8; 8; 8; 1] = true.
Proof.
  cbv zeta. split; [constructor; [apply axis_wf_b_sound; vm_compute; reflexivity | constructor]|].
  split; [constructor; [reflexivity | constructor]|].
  split; [constructor; [split; [split; [repeat constructor; lia | reflexivity] | discriminate] | constructor]|].
  vm_compute. repeat split; reflexivity.
Qed.

(* plain case: target 5s split the storage chunks of 8 -> read 8s, rechunk above;
   target 16s respect them -> pushed as they are *)
Example C24_ex_storage_plain :
  let f := [fresh_axis 40 [10; 10; 10; 10]] in
  accept_rechunk f (Some [8]) [[5; 5; 5; 5; 5; 5; 5; 5]] = ReadThenRechunk [[8; 8; 8; 8; 8]] /\
  accept_rechunk f (Some [8]) [[16; 16; 8]] = PushAll [[16; 16; 8]] /\
  accept_rechunk f (Some [8; 8]) [[5; 5; 5; 5; 5; 5; 5; 5]] = PushAll [[5; 5; 5; 5; 5; 5; 5; 5]].
Proof. vm_compute. repeat split; reflexivity. Qed.

(* NumPy branch: a 30-element int64 region is copied when the limit allows (base moves to 3) *)
Example C24_ex_numpy :
  let f := [mkaxis 0 40 (Some (mkslice (Some 3) (Some 33) None)) [7; 10; 10; 3]] in
  np_adjust 8 240 f = [mkaxis 3 30 None [7; 10; 10; 3]] /\ np_adjust 8 239 f = f /\
  axis_positions (hd (fresh_axis 0 []) (np_adjust 8 240 f)) = zrange 3 33 1.
Proof. vm_compute. repeat split; reflexivity. Qed.

Print Assumptions C24_accept_slice_step.
Print Assumptions C24_region_chain_from.
Print Assumptions C24_region_chain.
Print Assumptions C24_int_axis.
Print Assumptions C24_accept_slice_nd.
Print Assumptions C24_accept_slice_declines.
Print Assumptions C24_numpy_copy_exact.
Print Assumptions C24_reads_partition.
Print Assumptions C24_reads_disjoint.
Print Assumptions C24_in_bounds.
Print Assumptions C24_in_bounds_nd.
Print Assumptions C24_reads_cover_nd.
Print Assumptions C24_reads_unique_nd.
Print Assumptions C24_chain_reads_exact.
Print Assumptions C24_regions_stay_ordered.
Print Assumptions C24_normalized_is_ordered.
Print Assumptions C24_storage_read_chunks.
Print Assumptions C24_storage_region_axis.
Print Assumptions C24_storage_plain_axis.
Print Assumptions C24_rechunk_pushall.
Print Assumptions C24_rechunk_nogrid.
Print Assumptions C24_storage_read_chunks_unordered_refuted.
Print Assumptions C24_negative_int_refuted.
