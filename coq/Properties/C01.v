(* C01 — Array programs compute what NumPy computes.
   The reference semantics of the expression calculus (theories/NdArray.v) is NumPy's: an
   operation is an index remapping.  The theorems below say that the remappings are total on
   the result's index space (an in-bounds result index is always read from an in-bounds
   operand index: basic slicing, broadcasting, transposition), and that the public
   __getitem__ (normalize_index, the all-colon shortcut, SliceSlicesIntegers) denotes
   NumPy's basic slice  x[ix]. *)
From DA Require Import PyBase Slicing NdArray NdArrayFacts ExprRules ExprRulesFacts.
From DA Require Import FuseFacts ProgSem ProgSemFacts ProgSemLaws ProgSemReduce ProgSemBcast ProgSemDen.
Open Scope Z_scope.

(* x[ix]: element j along a sliced axis is read from position nth j (sel s n) of that axis,
   an integer i from position i (i + n if negative) — always inside the operand *)
Theorem C01_slice_reads_in_bounds :
  forall ix shp out, nonneg_shape shp -> idx_okb ix shp = true ->
  in_bounds out (slice_shape ix shp) -> in_bounds (slice_src ix shp out) shp.
Proof. exact slice_src_in_bounds. Qed.

(* broadcasting: an operand whose shape broadcasts into the result shape is read in bounds *)
Theorem C01_broadcast_reads_in_bounds :
  forall sa o out, bcast_intob sa o = true -> in_bounds out o -> in_bounds (bidx sa out) sa.
Proof. intros sa o out H. apply bidx_in_bounds. apply bcast_intob_spec. exact H. Qed.

(* transposition by a permutation of the axes *)
Theorem C01_transpose_reads_in_bounds :
  forall axes shp out, is_permb axes (length shp) = true ->
  in_bounds out (transpose_shape axes shp) -> in_bounds (transpose_src axes out) shp.
Proof. intros axes shp out H. apply (transpose_src_in_bounds axes (length shp) H). reflexivity. Qed.

(* Array.__getitem__ with integers and slices denotes the NumPy slice, whatever the values *)
Theorem C01_getitem_denotes_numpy_slice :
  forall (V : Type) leafv constv fop inj x ix y,
  wfb x = true -> length ix = endim x -> mk_getitem x ix = Some y ->
  aeq (den V leafv constv fop inj y) (aslice ix (den V leafv constv fop inj x)).
Proof. intros V leafv constv fop inj x ix y Hw Hl H. apply (mk_getitem_sound V leafv constv fop inj x ix y Hw Hl H). Qed.

(* the slice of a 1-d array, concretely: x[7:1:-2] of a length-9 axis reads positions 7, 5, 3 *)
Example C01_slice_ex :
  let a := mkarr [9] (fun idx => hd 0 idx * 10) in
  to_list (aslice [ISlice (mkslice (Some 7) (Some 1) (Some (-2)))] a) = [70; 50; 30] /\
  shape (aslice [ISlice (mkslice (Some 7) (Some 1) (Some (-2)))] a) = [3] /\
  (* broadcasting (3,1) with (4,) gives (3,4) *)
  bshape [3; 1] [4] = [3; 4] /\ bidx [3; 1] [2; 3] = [2; 0] /\ bidx [4] [2; 3] = [3].
Proof. vm_compute. repeat split; reflexivity. Qed.

Print Assumptions C01_slice_reads_in_bounds.
Print Assumptions C01_broadcast_reads_in_bounds.
Print Assumptions C01_transpose_reads_in_bounds.
Print Assumptions C01_getitem_denotes_numpy_slice.

(* ====================================================================== *)
(* The REFERENCE SEMANTICS of the program language (theories/ProgSem.v): [eval : prog -> option ndarr]
   computes the flat C-order value (shape, data) of a program over the public array API (integer
   subset), None where NumPy raises; [pshape] is the advertised-shape rule.  harness/c01.py
   (fam_semantics) checks on every run, by vm_compute, that  eval p = Some (NumPy's result)  for
   generated programs, that NumPy raises where eval is None, and that  pshape p  is the shape
   dask_array advertises before computing; dask_array's computed result is compared with NumPy's
   by the same harness.  The theorems below hold for ALL programs. *)

(* (a) every evaluated program is a well-formed array: one datum per index, no negative dimension *)
Theorem C01_eval_wellformed :
  forall p a, eval p = Some a ->
  Z.of_nat (length (ndata a)) = prodZ (nshape a) /\ Forall (fun n => 0 <= n) (nshape a).
Proof. exact eval_wf_flat. Qed.

(* (b) the advertised shape (computed from shapes alone) is the shape of the computed value ... *)
Theorem C01_advertised_shape_is_computed_shape :
  forall p a, eval p = Some a -> pshape p = Some (nshape a).
Proof. exact eval_some_pshape. Qed.

(* ... and the shape rule rejects a program exactly when evaluation fails (every error of this
   subset is a shape error) *)
Theorem C01_shape_rule_fails_iff_eval_fails :
  forall p, pshape p = None <-> eval p = None.
Proof. exact pshape_none_iff. Qed.

Theorem C01_shape_rule_total_on_valid :
  forall p s, pshape p = Some s -> exists a, eval p = Some a /\ nshape a = s.
Proof. exact pshape_some_eval. Qed.

(* every operation of the language reads its operands IN BOUNDS: on valid operands its result (on the
   result's index space) depends only on the operands' values on their own index spaces *)
Theorem C01_every_unary_operation_reads_in_bounds :
  forall o y y', nonneg_shape (shape y) -> un_ok o (shape y) = true -> aeq y y' -> aeq (un_arr o y) (un_arr o y').
Proof. exact un_congr_all. Qed.

Theorem C01_every_nary_operation_reads_in_bounds :
  forall o xs ys, Forall (fun x => nonneg_shape (shape x)) xs -> n_ok o (map shape xs) = true ->
  Forall2 aeq xs ys -> aeq (n_arr o xs) (n_arr o ys).
Proof. exact n_congr_all. Qed.

(* hence the flat evaluator (which materialises every intermediate array, and is what the harness runs
   against NumPy) is the row-major tabulation of the compositional index-function denotation [pden]
   of the NdArray.v calculus, for ALL programs *)
Theorem C01_eval_is_tabulated_denotation :
  forall p, eval p = option_map to_nd (pden p).
Proof. exact eval_is_tabulated_den. Qed.

(* (c) chunking independence: rechunk is the identity on values and shapes *)
Theorem C01_rechunk_is_identity :
  forall c p, eval (PRechunk c p) = eval p /\ pshape (PRechunk c p) = pshape p.
Proof. intros c p. split; [exact (eval_rechunk c p) | exact (pshape_rechunk c p)]. Qed.

(* --- the algebraic laws behind the optimizer's pushdowns; each says: whenever the program on the
   left is valid, the rewritten program is valid and computes the same array --- *)

(* one axis: ONE slice selects what slicing twice selects, for all non-zero steps (compose_sel is the
   specification-side composition; the library's _compose_slices is exact for unit steps only,
   FuseFacts.compose_slices_general_refuted) *)
Theorem C01_compose_sel_exact :
  forall o i n, 0 <= n -> step_of o <> 0 -> step_of i <> 0 ->
  sel (compose_sel o i n) n = pick (sel o n) (sel i (slice_len o n)) /\ step_of (compose_sel o i n) <> 0.
Proof. exact compose_sel_exact. Qed.

(* slice of slice composes (one slice per axis, any non-zero steps) *)
Theorem C01_slice_of_slice :
  forall sl1 sl2 p s r,
  pshape p = Some s -> length sl1 = length s -> length sl2 = length s ->
  sl_okb sl1 = true -> sl_okb sl2 = true ->
  eval (PSlice (map ISlice sl2) (PSlice (map ISlice sl1) p)) = Some r ->
  eval (PSlice (map ISlice (map3 compose_sel sl1 sl2 s)) p) = Some r.
Proof. exact eval_slice_slice. Qed.

(* the same with the library's own composition (Slicing.compose_slices = _compose_slices), unit steps *)
Theorem C01_slice_of_slice_library_compose :
  forall sl1 sl2 p s r,
  pshape p = Some s -> length sl1 = length s -> length sl2 = length s ->
  forallb unit_stepb sl1 = true -> forallb unit_stepb sl2 = true ->
  eval (PSlice (map ISlice sl2) (PSlice (map ISlice sl1) p)) = Some r ->
  eval (PSlice (map ISlice (map3 compose_slices sl1 sl2 s)) p) = Some r.
Proof. exact eval_slice_slice_unit. Qed.

(* slice distributes over an element-wise operation whose operands have one shape (any basic index:
   integers, slices with any step, None, fewer entries than axes) *)
Theorem C01_slice_over_elemwise :
  forall f ix ps s r,
  Forall (fun p => pshape p = Some s) ps ->
  eval (PSlice ix (PElem f ps)) = Some r ->
  eval (PElem f (map (fun p => PSlice ix p) ps)) = Some r.
Proof. exact eval_slice_elemwise. Qed.

(* ... and WITH broadcasting: each operand is indexed by the entries that fall on its own axes (right
   aligned), with a full slice where it is stretched; [oshape p] is p's advertised shape *)
Theorem C01_slice_over_elemwise_broadcasting :
  forall f sl ps o r,
  pshape (PElem f ps) = Some o -> length sl = length o ->
  eval (PSlice (map ISlice sl) (PElem f ps)) = Some r ->
  eval (PElem f (map (fun p => PSlice (map ISlice (bc_index sl (oshape p) o)) p) ps)) = Some r.
Proof. exact eval_slice_elemwise_bcast. Qed.

(* transpose of transpose composes *)
Theorem C01_transpose_of_transpose :
  forall p q x r, eval (PT q (PT p x)) = Some r -> eval (PT (pickn O p q) x) = Some r.
Proof. exact eval_transpose_transpose. Qed.

(* slice commutes with transpose: the index is permuted by the inverse permutation *)
Theorem C01_slice_over_transpose :
  forall axes sl p s r,
  pshape p = Some s -> length sl = length s ->
  eval (PSlice (map ISlice sl) (PT axes p)) = Some r ->
  eval (PT axes (PSlice (map ISlice (pickn colon sl (inv_axes axes))) p)) = Some r.
Proof. exact eval_slice_transpose. Qed.

(* flip = slice with step -1 (an equation: both sides fail together) *)
Theorem C01_flip_is_negative_step_slice :
  forall ax p, eval (PFlip ax p) = eval (PSlice (flip_index ax) p).
Proof. exact eval_flip_is_slice. Qed.

(* concatenate then slice the other axes = concatenate the slices *)
Theorem C01_slice_over_concat :
  forall ax sl ps s r,
  pshape (PConcat ax ps) = Some s -> length sl = length s -> nth ax sl colon = colon ->
  eval (PSlice (map ISlice sl) (PConcat ax ps)) = Some r ->
  eval (PConcat ax (map (fun p => PSlice (map ISlice sl) p) ps)) = Some r.
Proof. exact eval_slice_concat. Qed.

(* a reduction (sum, prod, min, max, any, all, count_nonzero, argmin, argmax) over one axis commutes
   with slicing the other axes, with and without keepdims *)
Theorem C01_slice_over_reduce :
  forall f ax kd sl p s r,
  pshape p = Some s -> length sl = length s -> nth ax sl colon = colon ->
  eval (PSlice (map ISlice (red_index ax kd sl)) (PReduce f (Some [ax]) kd p)) = Some r ->
  eval (PReduce f (Some [ax]) kd (PSlice (map ISlice sl) p)) = Some r.
Proof. exact eval_slice_reduce. Qed.

(* ---------------------------------------------------------------------- *)
(* the hypotheses are satisfiable, and the evaluator computes what NumPy computes, on concrete programs *)
Definition ex_x : prog := PSrc [3; 4] [0; 1; 2; 3; 10; 11; 12; 13; 20; 21; 22; 23].
Definition ex_y : prog := PSrc [3; 4] [5; -1; 7; 0; 2; 2; -3; 9; 1; 1; 1; 1].
Definition sl_ (a b k : option Z) : pslice := mkslice a b k.

Example C01_eval_ex :
  (* x[::-1, 1:4:2].T *)
  eval (PT [1; 0]%nat (PSlice [ISlice (sl_ None None (Some (-1))); ISlice (sl_ (Some 1) (Some 4) (Some 2))] ex_x))
    = Some (mknd [2; 3] [21; 11; 1; 23; 13; 3]) /\
  (* np.where(y > 0, x, y).sum(axis=0) *)
  eval (PReduce RSum (Some [0%nat]) false (PWhere (PElem EGt [ex_y; PConst 0]) ex_x ex_y))
    = Some (mknd [4] [30; 31; 21; 36]) /\
  (* x.argmax(), np.cumsum(y, axis=1)[2], x.reshape(2, -1)[1, :3], np.roll(np.arange(5), 2) *)
  eval (PReduce RArgmax None false ex_x) = Some (mknd [] [11]) /\
  eval (PSlice [IInt 2] (PCum CSum 1%nat ex_y)) = Some (mknd [4] [1; 2; 3; 4]) /\
  eval (PSlice [IInt 1; ISlice (sl_ None (Some 3) None)] (PReshape [2; -1] ex_x)) = Some (mknd [3] [12; 13; 20]) /\
  eval (PRoll 2 0%nat (PArange 5)) = Some (mknd [5] [3; 4; 0; 1; 2]) /\
  (* NumPy raises: shapes (3,4) and (3,) do not broadcast; axis 2 of a 2-d array; max of an empty axis *)
  eval (PElem EAdd [ex_x; PArange 3]) = None /\ pshape (PElem EAdd [ex_x; PArange 3]) = None /\
  eval (PFlip 2%nat ex_x) = None /\
  eval (PReduce RMax (Some [0%nat]) false (PSlice [ISlice (sl_ (Some 3) None None)] ex_x)) = None /\
  pshape (PStack 1%nat [ex_x; ex_y; ex_x]) = Some [3; 3; 4].
Proof. vm_compute. repeat split; reflexivity. Qed.

Example C01_laws_ex :
  let sl1 := [sl_ None None (Some (-1)); sl_ (Some 1) None (Some 2)] in
  let sl2 := [sl_ (Some 2) None (Some (-2)); sl_ None None (Some (-1))] in
  (* x[::-1, 1::2][2::-2, ::-1] = x[0:3:2, 3:0:-2] *)
  pshape ex_x = Some [3; 4] /\ sl_okb sl1 = true /\ sl_okb sl2 = true /\
  map3 compose_sel sl1 sl2 [3; 4] = [sl_ (Some 0) (Some 4) (Some 2); sl_ (Some 3) None (Some (-2))] /\
  eval (PSlice (map ISlice sl2) (PSlice (map ISlice sl1) ex_x)) = Some (mknd [2; 2] [3; 1; 23; 21]) /\
  eval (PSlice (map ISlice (map3 compose_sel sl1 sl2 [3; 4])) ex_x) = Some (mknd [2; 2] [3; 1; 23; 21]) /\
  (* unit steps with the library's composition: x[1:, :3][1:, 1:] = x[2:3, 1:3] *)
  eval (PSlice (map ISlice (map3 compose_slices [sl_ (Some 1) None None; sl_ None (Some 3) None]
                                             [sl_ (Some 1) None None; sl_ (Some 1) None None] [3; 4])) ex_x)
    = eval (PSlice (map ISlice [sl_ (Some 1) None None; sl_ (Some 1) None None])
             (PSlice (map ISlice [sl_ (Some 1) None None; sl_ None (Some 3) None]) ex_x)) /\
  (* (x + y)[1, ::2] = x[1, ::2] + y[1, ::2] *)
  eval (PSlice [IInt 1; ISlice (sl_ None None (Some 2))] (PElem EAdd [ex_x; ex_y])) = Some (mknd [2] [12; 9]) /\
  eval (PElem EAdd (map (fun p => PSlice [IInt 1; ISlice (sl_ None None (Some 2))] p) [ex_x; ex_y])) = Some (mknd [2] [12; 9]) /\
  (* x.T[1:3, ::-1] = x[::-1, 1:3].T *)
  eval (PSlice (map ISlice [sl_ (Some 1) (Some 3) None; sl_ None None (Some (-1))]) (PT [1; 0]%nat ex_x))
    = Some (mknd [2; 3] [21; 11; 1; 22; 12; 2]) /\
  eval (PT [1; 0]%nat (PSlice (map ISlice (pickn colon [sl_ (Some 1) (Some 3) None; sl_ None None (Some (-1))] (inv_axes [1; 0]%nat))) ex_x))
    = Some (mknd [2; 3] [21; 11; 1; 22; 12; 2]) /\
  (* np.flip(x, 1) = x[:, ::-1] *)
  eval (PFlip 1%nat ex_x) = Some (mknd [3; 4] [3; 2; 1; 0; 13; 12; 11; 10; 23; 22; 21; 20]) /\
  (* np.concatenate([x, y], 0)[:, 1::2] = np.concatenate([x[:, 1::2], y[:, 1::2]], 0) *)
  eval (PSlice (map ISlice [colon; sl_ (Some 1) None (Some 2)]) (PConcat 0%nat [ex_x; ex_y]))
    = eval (PConcat 0%nat (map (fun p => PSlice (map ISlice [colon; sl_ (Some 1) None (Some 2)]) p) [ex_x; ex_y])) /\
  eval (PSlice (map ISlice [colon; sl_ (Some 1) None (Some 2)]) (PConcat 0%nat [ex_x; ex_y]))
    = Some (mknd [6; 2] [1; 3; 11; 13; 21; 23; -1; 0; 2; 9; 1; 1]) /\
  (* x.max(axis=0)[::-2] = x[:, ::-2].max(axis=0);  x.argmin(axis=1, keepdims) likewise *)
  eval (PSlice (map ISlice (red_index 0 false [colon; sl_ None None (Some (-2))])) (PReduce RMax (Some [0%nat]) false ex_x))
    = Some (mknd [2] [23; 21]) /\
  eval (PReduce RMax (Some [0%nat]) false (PSlice (map ISlice [colon; sl_ None None (Some (-2))]) ex_x))
    = Some (mknd [2] [23; 21]) /\
  eval (PT [1; 0]%nat (PT [1; 0]%nat ex_x)) = eval (PT (pickn O [1; 0]%nat [1; 0]%nat) ex_x) /\
  (* broadcasting: np.where(x > col, x, row)[1:, ::-2] with col (3,1), row (4,) and the scalar-free index per operand *)
  (let col := PSrc [3; 1] [1; 12; 21] in let row := PSrc [4] [-1; -2; -3; -4] in
   let sl := [sl_ (Some 1) None None; sl_ None None (Some (-2))] in
   let e := PWhere (PElem EGt [ex_x; col]) ex_x row in
   pshape e = Some [3; 4] /\
   bc_index sl (oshape row) [3; 4] = [sl_ None None (Some (-2))] /\
   bc_index sl (oshape col) [3; 4] = [sl_ (Some 1) None None; colon] /\
   eval (PSlice (map ISlice sl) e) = Some (mknd [2; 2] [13; -2; 23; -2]) /\
   eval (PElem EWhere (map (fun p => PSlice (map ISlice (bc_index sl (oshape p) [3; 4])) p) [PElem EGt [ex_x; col]; ex_x; row]))
     = Some (mknd [2; 2] [13; -2; 23; -2])).
Proof. vm_compute. repeat split; reflexivity. Qed.

Print Assumptions C01_eval_wellformed.
Print Assumptions C01_advertised_shape_is_computed_shape.
Print Assumptions C01_shape_rule_fails_iff_eval_fails.
Print Assumptions C01_shape_rule_total_on_valid.
Print Assumptions C01_every_unary_operation_reads_in_bounds.
Print Assumptions C01_every_nary_operation_reads_in_bounds.
Print Assumptions C01_eval_is_tabulated_denotation.
Print Assumptions C01_rechunk_is_identity.
Print Assumptions C01_compose_sel_exact.
Print Assumptions C01_slice_of_slice.
Print Assumptions C01_slice_of_slice_library_compose.
Print Assumptions C01_slice_over_elemwise.
Print Assumptions C01_slice_over_elemwise_broadcasting.
Print Assumptions C01_transpose_of_transpose.
Print Assumptions C01_slice_over_transpose.
Print Assumptions C01_flip_is_negative_step_slice.
Print Assumptions C01_slice_over_concat.
Print Assumptions C01_slice_over_reduce.
