(* C01 — Array programs compute what NumPy computes.
   The reference semantics of the expression calculus (theories/NdArray.v) is NumPy's: an
   operation is an index remapping.  The theorems below say that the remappings are total on
   the result's index space (an in-bounds result index is always read from an in-bounds
   operand index: basic slicing, broadcasting, transposition), and that the public
   __getitem__ (normalize_index, the all-colon shortcut, SliceSlicesIntegers) denotes
   NumPy's basic slice  x[ix]. *)
From DA Require Import PyBase Slicing NdArray NdArrayFacts ExprRules ExprRulesFacts.
Open Scope Z_scope.

(* x[ix]: element j along a sliced axis is read from position nth j (sel s n) of that axis,
   an integer i from position i (i + n if negative) — always inside the operand *)
Theorem C01_slice_reads_in_bounds :
  forall ix shp out, nonneg_shape shp -> idx_okb ix shp = true ->
  in_bounds out (slice_shape ix shp) -> in_bounds (slice_src ix shp out) shp.
Proof. exact slice_src_in_bounds. Qed.

(* broadcasting: an operand whose shape broadcasts into the result shape is read in bounds *)
Theorem C01_broadcast_reads_in_bounds :
  forall sa o out, bcast_intob sa o = true -> in_bounds out o -> in_bounds (bidx sa out) sa.
Proof. intros sa o out H. apply bidx_in_bounds. apply bcast_intob_spec. exact H. Qed.

(* transposition by a permutation of the axes *)
Theorem C01_transpose_reads_in_bounds :
  forall axes shp out, is_permb axes (length shp) = true ->
  in_bounds out (transpose_shape axes shp) -> in_bounds (transpose_src axes out) shp.
Proof. intros axes shp out H. apply (transpose_src_in_bounds axes (length shp) H). reflexivity. Qed.

(* Array.__getitem__ with integers and slices denotes the NumPy slice, whatever the values *)
Theorem C01_getitem_denotes_numpy_slice :
  forall (V : Type) leafv constv fop inj x ix y,
  wfb x = true -> length ix = endim x -> mk_getitem x ix = Some y ->
  aeq (den V leafv constv fop inj y) (aslice ix (den V leafv constv fop inj x)).
Proof. intros V leafv constv fop inj x ix y Hw Hl H. apply (mk_getitem_sound V leafv constv fop inj x ix y Hw Hl H). Qed.

(* the slice of a 1-d array, concretely: x[7:1:-2] of a length-9 axis reads positions 7, 5, 3 *)
Example C01_slice_ex :
  let a := mkarr [9] (fun idx => hd 0 idx * 10) in
  to_list (aslice [ISlice (mkslice (Some 7) (Some 1) (Some (-2)))] a) = [70; 50; 30] /\
  shape (aslice [ISlice (mkslice (Some 7) (Some 1) (Some (-2)))] a) = [3] /\
  (* broadcasting (3,1) with (4,) gives (3,4) *)
  bshape [3; 1] [4] = [3; 4] /\ bidx [3; 1] [2; 3] = [2; 0] /\ bidx [4] [2; 3] = [3].
Proof. vm_compute. repeat split; reflexivity. Qed.

Print Assumptions C01_slice_reads_in_bounds.
Print Assumptions C01_broadcast_reads_in_bounds.
Print Assumptions C01_transpose_reads_in_bounds.
Print Assumptions C01_getitem_denotes_numpy_slice.
