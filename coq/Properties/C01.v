(* C01 — Array programs compute what NumPy computes.  (statements are added as the
   expression calculus grows; see DESIGN.md) *)
From DA Require Import PyBase.
Open Scope Z_scope.
Example C01_placeholder : zsum [1;2;3] = 6. Proof. reflexivity. Qed.
Print Assumptions C01_placeholder.
