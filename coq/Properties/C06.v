(* C06 — Equal names denote equal arrays (placeholder for the naming model). *)
From DA Require Import PyBase.
Open Scope Z_scope.
Example C06_placeholder : zsum [1;2;3] = 6. Proof. reflexivity. Qed.
Print Assumptions C06_placeholder.
