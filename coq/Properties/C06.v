(* C06 — Equal names denote equal arrays.
   Statements only; model in theories/Names.v, proofs in theories/NamesFacts.v.

   `name_of` / `token_of` build `_name` / `deterministic_token` exactly as the code does (stock tokenizer,
   the Blockwise / Elemwise / Reduction / PartialReduce / FromArray overrides, the hand-built names of
   Rechunk, FromArray regions and rechunks, Random, fused groups (= Gen), the RootAlias pin).  A child enters
   its parent through its TOKEN.  `content_of` is what a node means (class, children's meanings, the
   operands that determine shape / chunks / dtype / block values); the operands the real tokenizers omit
   (name=/token= prefixes, _meta_provided / meta / reduced_meta) are absent from it.
   Trusted base: H (md5 tokenize) and Hp (pickle hash) are injective; id() of live objects is injective;
   leaf operands are atoms standing for dask's normalize_token output. *)
From Coq Require Import ZArith List Bool.
From DA Require Import Names NamesFacts.
Import ListNotations.
Open Scope Z_scope.

(* Equal names => equal meaning, for ALL expressions.  (Until /repo commit "fix: tokenize a Random expression by
   its realization, not by the mutable generator" this needed the hypothesis `rng_fresh`: the stock token of a
   Random node hashed the mutable rng operand in its state at tokenisation time — finding C06-A, now fixed; the
   model follows the repaired Random.__dask_tokenize__ = H(type, _name) and the hypothesis is gone.) *)
Theorem C06_name_injective :
  forall (hash : Type) (H Hp : list (harg hash) -> hash) (addr : Z -> Z) (pfx_getitem : Z),
    (forall a b, H a = H b -> a = b) -> (forall a b, Hp a = Hp b -> a = b) ->
    (forall a b, addr a = addr b -> a = b) ->
    forall e1 e2,
      name_of hash H Hp addr pfx_getitem e1 = name_of hash H Hp addr pfx_getitem e2 ->
      same_content e1 e2.
Proof. exact name_injective. Qed.

(* the parents' view: equal deterministic tokens => equal meaning (this is what makes the induction go) *)
Theorem C06_token_injective :
  forall (hash : Type) (H Hp : list (harg hash) -> hash) (addr : Z -> Z) (pfx_getitem : Z),
    (forall a b, H a = H b -> a = b) -> (forall a b, Hp a = Hp b -> a = b) ->
    (forall a b, addr a = addr b -> a = b) ->
    forall e1 e2,
      token_of hash H Hp addr pfx_getitem e1 = token_of hash H Hp addr pfx_getitem e2 ->
      same_content e1 e2.
Proof. exact token_injective. Qed.

(* Regression statement for finding C06-A (FIXED).  It used to be C06_random_shared_rng_refuted /
   C06_name_injective_refuted:  rng = da.random.default_rng(0); r1 = rng.random(6, chunks=3);
   r2 = rng.random(6, chunks=3) gave (r1 + 1).name == (r2 + 1).name.  Now: two draws from ONE generator
   (draw d = Random node drawn in rng state d, whatever the state of the generator later; plus1 x = x + 1)
   have different names AND different parent-visible tokens, and so have their parents. *)
Theorem C06_random_shared_rng_distinct :
  forall (hash : Type) (H Hp : list (harg hash) -> hash) (addr : Z -> Z) (pfx_getitem : Z),
    (forall a b, H a = H b -> a = b) -> (forall a b, Hp a = Hp b -> a = b) ->
    (forall a b, addr a = addr b -> a = b) ->
    forall d1 d2, d1 <> d2 ->
    name_of hash H Hp addr pfx_getitem (draw d1) <> name_of hash H Hp addr pfx_getitem (draw d2) /\
    token_of hash H Hp addr pfx_getitem (draw d1) <> token_of hash H Hp addr pfx_getitem (draw d2) /\
    name_of hash H Hp addr pfx_getitem (plus1 (draw d1)) <> name_of hash H Hp addr pfx_getitem (plus1 (draw d2)) /\
    token_of hash H Hp addr pfx_getitem (plus1 (draw d1)) <> token_of hash H Hp addr pfx_getitem (plus1 (draw d2)).
Proof. exact random_shared_rng_distinct. Qed.

(* The operands the custom tokenizers OMIT are irrelevant to the meaning (and the prefix is still part of
   the name, so `name=` keeps two otherwise equal nodes apart as graph keys). *)
Theorem C06_blockwise_omitted_operands :
  forall (hash : Type) (H Hp : list (harg hash) -> hash) (addr : Z -> Z)
         (pfx_getitem p p' m m' f oi dt adj na al cc kw : Z) (ops : args),
    token_of hash H Hp addr pfx_getitem (Blockwise p f oi dt adj na al cc kw m ops) =
    token_of hash H Hp addr pfx_getitem (Blockwise p' f oi dt adj na al cc kw m' ops) /\
    content_of (Blockwise p f oi dt adj na al cc kw m ops) = content_of (Blockwise p' f oi dt adj na al cc kw m' ops) /\
    (name_of hash H Hp addr pfx_getitem (Blockwise p f oi dt adj na al cc kw m ops) =
     name_of hash H Hp addr pfx_getitem (Blockwise p' f oi dt adj na al cc kw m' ops) <-> p = p').
Proof. exact blockwise_omitted. Qed.

Theorem C06_reduction_omitted_operands :
  forall (hash : Type) (H Hp : list (harg hash) -> hash) (addr : Z -> Z) (pfx_getitem c p p' m m' : Z)
         (e : expr) (ch ag ax kd dt se cb cc os : Z) (w : args),
    token_of hash H Hp addr pfx_getitem (Reduction c p e ch ag ax kd dt se cb cc os w m) =
    token_of hash H Hp addr pfx_getitem (Reduction c p' e ch ag ax kd dt se cb cc os w m') /\
    content_of (Reduction c p e ch ag ax kd dt se cb cc os w m) =
    content_of (Reduction c p' e ch ag ax kd dt se cb cc os w m').
Proof. exact reduction_omitted. Qed.

Theorem C06_partial_reduce_omitted_operands :
  forall (hash : Type) (H Hp : list (harg hash) -> hash) (addr : Z -> Z) (pfx_getitem p p' m m' : Z)
         (e : expr) (f se kd dt : Z),
    token_of hash H Hp addr pfx_getitem (PartialReduce p e f se kd dt m) =
    token_of hash H Hp addr pfx_getitem (PartialReduce p' e f se kd dt m') /\
    content_of (PartialReduce p e f se kd dt m) = content_of (PartialReduce p' e f se kd dt m').
Proof. exact partial_omitted. Qed.

(* De-duplication by name never substitutes a different computation: after ANY history of
   Build (singleton registry) / Lower (_LOWER_CACHE) / Merge (graph merging across collections) / Drop
   (weak references dying), every entry of every store holds the meaning of any expression of that name ... *)
Theorem C06_cache_invariant :
  forall (hash : Type) (H Hp : list (harg hash) -> hash) (addr : Z -> Z) (pfx_getitem : Z),
    (forall a b, H a = H b -> a = b) -> (forall a b, Hp a = Hp b -> a = b) ->
    (forall a b, addr a = addr b -> a = b) ->
    forall (name_eqb : name hash -> name hash -> bool) (ops : list (cache_op hash)),
      state_ok hash H Hp addr pfx_getitem (run hash H Hp addr pfx_getitem name_eqb ops).
Proof. exact cache_invariant. Qed.

(* ... so whatever a hit hands back is the meaning of the expression that was asked for *)
Theorem C06_cache_dedup_sound :
  forall (hash : Type) (H Hp : list (harg hash) -> hash) (addr : Z -> Z) (pfx_getitem : Z),
    (forall a b, H a = H b -> a = b) -> (forall a b, Hp a = Hp b -> a = b) ->
    (forall a b, addr a = addr b -> a = b) ->
    forall name_eqb : name hash -> name hash -> bool,
    (forall a b, name_eqb a b = true <-> a = b) ->
    forall (ops : list (cache_op hash)) (e : expr) (c : content),
      (lookup hash name_eqb (name_of hash H Hp addr pfx_getitem e)
         (registry hash (run hash H Hp addr pfx_getitem name_eqb ops)) = Some c \/
       lookup hash name_eqb (name_of hash H Hp addr pfx_getitem e)
         (lowered hash (run hash H Hp addr pfx_getitem name_eqb ops)) = Some c \/
       lookup hash name_eqb (name_of hash H Hp addr pfx_getitem e)
         (graph hash (run hash H Hp addr pfx_getitem name_eqb ops)) = Some c) ->
      c = content_of e.
Proof. exact cache_dedup_sound. Qed.

(* pinned names (RootAlias) and exact names (FromArray regions / rechunks) never enter the registry or
   the lowering cache *)
Theorem C06_pins_never_cached :
  forall (hash : Type) (H Hp : list (harg hash) -> hash) (addr : Z -> Z) (pfx_getitem : Z)
         (name_eqb : name hash -> name hash -> bool) (st : state hash) (e : expr),
    opts_out e = true ->
    step hash H Hp addr pfx_getitem name_eqb st (Build hash e) = st /\
    step hash H Hp addr pfx_getitem name_eqb st (Lower hash e) = st.
Proof. exact opted_out_never_cached. Qed.

(* ---- the hypotheses are satisfiable, on non-trivial inputs ---- *)
Example C06_hash_hypotheses_satisfiable :
  (forall a b, FHm a = FHm b -> a = b) /\ (forall a b, FHp a = FHp b -> a = b) /\
  (forall a b : Z, (fun o => o) a = (fun o => o) b -> a = b) /\
  (forall a b, fname_eqb a b = true <-> a = b).
Proof. repeat split; try apply FHm_inj; try apply FHp_inj; try apply fname_eqb_spec; auto. Qed.

(* from_array(x)[1:5] pushed into the source, rechunked, summed (Reduction -> Blockwise + PartialReduce),
   plus a random array whose generator has moved on since the draw (state 7 -> 9) *)
Definition ex_src : expr := Gen 1 10 (ALit 100 (ALit 101 ANil)).
Definition ex_region : expr := SrcRegion ex_src 0 200 200.
Definition ex_sum : expr := Reduction 2 11 (Rechunk ex_region 300 0 0 0 0) 400 401 402 0 403 404 0 1 1 ANil 0.
Definition ex_tree : expr :=
  Gen 3 12 (AChild ex_sum (AChild (Random 4 7 9 13 500 501 0 ANil) (ALit 1 ANil))).

(* executable instance: equal sub-trees get equal names, the name= prefix separates, meta does not,
   two draws from one generator are told apart, also by their parents (C06-A fixed) *)
Example C06_exec_examples :
  zlist_eqb (xname ex_tree) (xname ex_tree) = true /\
  zlist_eqb (xname (Blockwise 1 2 3 4 5 6 7 8 9 0 ANil)) (xname (Blockwise 1 2 3 4 5 6 7 8 9 1 ANil)) = true /\
  zlist_eqb (xname (Blockwise 1 2 3 4 5 6 7 8 9 0 ANil)) (xname (Blockwise 2 2 3 4 5 6 7 8 9 0 ANil)) = false /\
  zlist_eqb (xtoken (Blockwise 1 2 3 4 5 6 7 8 9 0 ANil)) (xtoken (Blockwise 2 2 3 4 5 6 7 8 9 0 ANil)) = true /\
  zlist_eqb (xname (draw 0)) (xname (draw 1)) = false /\
  zlist_eqb (xname (plus1 (draw 0))) (xname (plus1 (draw 1))) = false /\
  zlist_eqb (xtoken (draw 0)) (xtoken (draw 1)) = false /\
  zlist_eqb (xname (Rechunk ex_src 1 0 0 0 0)) (xname (TasksRechunk ex_src 1 0 0)) = false /\
  names_pattern_ok [(ex_src, 1, 1); (ex_region, 2, 2); (ex_sum, 3, 3); (ex_sum, 3, 3); (RootAlias ex_sum ex_tree, 4, 5); (ex_tree, 4, 4)] = true.
Proof. vm_compute. repeat split. Qed.

Example C06_cache_example :
  let run' := run ftree FHm FHp (fun o => o) 0 fname_eqb in
  let st := run' [Build ftree ex_tree; Lower ftree ex_sum; Merge ftree (RootAlias ex_sum ex_tree); Build ftree ex_tree;
                  Drop ftree (name_of ftree FHm FHp (fun o => o) 0 ex_tree); Build ftree ex_region] in
  length (registry ftree st) = 0%nat /\ length (lowered ftree st) = 1%nat /\ length (graph ftree st) = 4%nat /\
  lookup ftree fname_eqb (name_of ftree FHm FHp (fun o => o) 0 ex_tree) (graph ftree st) = Some (content_of ex_tree).
Proof. vm_compute. repeat split. Qed.

Print Assumptions C06_name_injective.
Print Assumptions C06_token_injective.
Print Assumptions C06_random_shared_rng_distinct.
Print Assumptions C06_blockwise_omitted_operands.
Print Assumptions C06_reduction_omitted_operands.
Print Assumptions C06_partial_reduce_omitted_operands.
Print Assumptions C06_cache_invariant.
Print Assumptions C06_cache_dedup_sound.
Print Assumptions C06_pins_never_cached.
Print Assumptions C06_hash_hypotheses_satisfiable.
Print Assumptions C06_exec_examples.
Print Assumptions C06_cache_example.
