(* C08 — Optimization terminates and is idempotent.
   Rule-measure theorems for the modelled rewrite rules (theories/ExprRules.v): the linear
   interpretation [mu] ([Slice](x) = 3x, [Rechunk](x) = 2x + 1, [Transpose](x) = [ExpandDims](x) = [BroadcastTo](x) = x + 1,
   [Elemwise](x1..xn) = sum xi + n + 1, [Concatenate](xs) = [Stack](xs) = sum xs + 1, leaves (opaque nodes, reads, arange,
   ones/zeros/full) 1) is strictly decreased by every rule and is strictly
   monotone in every child, so any sequence of applications of these rules, at any positions of an
   expression, has length at most mu of the initial expression: simplification with these rules
   terminates, and at its fixpoint no rule applies (a second pass changes nothing). *)
From DA Require Import PyBase Slicing NdArray ExprRules ExprRulesFacts ExprRulesFacts2.
Open Scope Z_scope.

Theorem C08_rules_decrease_measure :
  forall before after,
  (rule_slice_identity before = Some after \/ rule_slice_slice before = Some after \/
   rule_slice_elemwise before = Some after \/ rule_slice_transpose before = Some after \/
   rule_slice_arange before = Some after \/ rule_slice_expand_dims before = Some after \/
   rule_transpose_transpose before = Some after \/ rule_transpose_identity before = Some after \/
   rule_rechunk_rechunk before = Some after \/ rule_rechunk_noop before = Some after \/
   rule_slice_concat before = Some after \/ rule_slice_stack before = Some after \/
   rule_slice_full before = Some after \/ rule_slice_broadcast_to before = Some after \/
   rule_rechunk_elemwise before = Some after \/ rule_rechunk_fromarray before = Some after \/
   rule_rechunk_expand_dims before = Some after \/ rule_rechunk_transpose before = Some after) ->
  (mu after < mu before)%nat.
Proof.
  intros before after H. destruct H as [H|[H|[H|[H|[H|[H|[H|[H|[H|[H|[H|[H|[H|[H|[H|[H|[H|H]]]]]]]]]]]]]]]]].
  - apply rule_slice_identity_mu. exact H.
  - apply rule_slice_slice_mu. exact H.
  - apply rule_slice_elemwise_mu. exact H.
  - apply rule_slice_transpose_mu. exact H.
  - apply rule_slice_arange_mu. exact H.
  - apply rule_slice_expand_dims_mu. exact H.
  - apply rule_transpose_transpose_mu. exact H.
  - apply rule_transpose_identity_mu. exact H.
  - apply rule_rechunk_rechunk_mu. exact H.
  - apply rule_rechunk_noop_mu. exact H.
  - apply rule_slice_concat_mu. exact H.
  - apply rule_slice_stack_mu. exact H.
  - apply rule_slice_full_mu. exact H.
  - apply rule_slice_broadcast_to_mu. exact H.
  - apply rule_rechunk_elemwise_mu. exact H.
  - apply rule_rechunk_fromarray_mu. exact H.
  - apply rule_rechunk_expand_dims_mu. exact H.
  - apply rule_rechunk_transpose_mu. exact H.
Qed.

(* The one modelled simplify rule that is NOT measure-decreasing: the pushdown of a rechunk through a concatenation may leave
   a residual Rechunk above the new Concatenate (target chunks straddling a seam); the implementation stops it with a
   semantic fixpoint test (every part already holds its share of the target: rechunk_through_concat declines), not a
   syntactic one. *)
Example C08_rechunk_concat_residual :
  let a := ESource (SBase 1 [7]) [[2; 5]] None true 8 0 in let b := ELeaf 2 [2] [[2]] in
  let before := ERechunk (EConcat a 0 [b]) 0 [[2; 3; 4]] 0 false false in
  let after := ERechunk (EConcat (ERechunk a 0 [[2; 3; 2]] 0 false false) 0 [b]) 0 [[2; 3; 4]] 0 false false in
  rechunk_through_concat before = Some after /\ mu before = 7%nat /\ mu after = 11%nat /\
  rechunk_through_concat after = None.
Proof. vm_compute. repeat split; reflexivity. Qed.

(* closure under contexts: a decrease in a child is a decrease of the parent *)
Theorem C08_measure_monotone_unary :
  forall e e', (mu e' < mu e)%nat ->
  (forall ix o, mu (ESlice e' ix o) < mu (ESlice e ix o))%nat /\
  (forall axes, mu (ETranspose e' axes) < mu (ETranspose e axes))%nat /\
  (forall s c p b pp, mu (ERechunk e' s c p b pp) < mu (ERechunk e s c p b pp))%nat /\
  (forall axes, mu (EExpandDims e' axes) < mu (EExpandDims e axes))%nat /\
  (forall shp c, mu (EBroadcastTo e' shp c) < mu (EBroadcastTo e shp c))%nat /\
  (forall c p, mu (ETasksRechunk e' c p) < mu (ETasksRechunk e c p))%nat.
Proof. exact mu_monotone_unary. Qed.

Theorem C08_measure_monotone_elemwise :
  forall op l1 e e' l2, (mu e' < mu e)%nat ->
  (mu (EElemwise op (l1 ++ e' :: l2)) < mu (EElemwise op (l1 ++ e :: l2)))%nat.
Proof. exact mu_monotone_elemwise. Qed.

Theorem C08_measure_monotone_concat_stack :
  forall e e', (mu e' < mu e)%nat ->
  (forall axis rest, mu (EConcat e' axis rest) < mu (EConcat e axis rest))%nat /\
  (forall a axis l1 l2, mu (EConcat a axis (l1 ++ e' :: l2)) < mu (EConcat a axis (l1 ++ e :: l2)))%nat /\
  (forall axis rest, mu (EStack e' axis rest) < mu (EStack e axis rest))%nat /\
  (forall a axis l1 l2, mu (EStack a axis (l1 ++ e' :: l2)) < mu (EStack a axis (l1 ++ e :: l2)))%nat.
Proof. exact mu_monotone_concat. Qed.

(* the measure is positive: at most (mu e - 1) rule applications from e *)
Theorem C08_measure_positive : forall e, (1 <= mu e)%nat.
Proof. exact mu_pos. Qed.

Example C08_measure_ex :
  let x := ELeaf 1 [4; 3] [[4]; [3]] in let y := ELeaf 2 [3] [[3]] in
  let before := ESlice (EElemwise 1 [x; y]) [ISlice (mkslice (Some 1) None None); IInt 0] true in
  exists after, rule_slice_elemwise before = Some after /\ mu before = 15%nat /\ mu after = 9%nat.
Proof. eexists. vm_compute. repeat split; reflexivity. Qed.

Example C08_measure_concat_ex :
  let x := ELeaf 1 [4; 3] [[4]; [3]] in let y := ELeaf 2 [5; 3] [[2; 3]; [3]] in let z := ELeaf 3 [2; 3] [[2]; [3]] in
  let before := ESlice (EConcat x 0 [y; z]) [ISlice (mkslice (Some 3) (Some 8) None); ISlice colon] true in
  exists after, rule_slice_concat before = Some after /\ mu before = 12%nat /\ mu after = 7%nat.
Proof. eexists. vm_compute. repeat split; reflexivity. Qed.

Print Assumptions C08_rules_decrease_measure.
Print Assumptions C08_measure_monotone_unary.
Print Assumptions C08_measure_monotone_elemwise.
Print Assumptions C08_measure_positive.
Print Assumptions C08_measure_monotone_concat_stack.
