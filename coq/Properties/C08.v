(* C08 — Optimization terminates and is idempotent.
   Rule-measure theorems for the modelled rewrite rules (theories/ExprRules.v): the linear
   interpretation [mu] ([Slice](x) = 3x, [Rechunk](x) = 2x + 1, [Transpose](x) = [ExpandDims](x) = [BroadcastTo](x) = x + 1,
   [Elemwise](x1..xn) = sum xi + n + 1, [Concatenate](xs) = [Stack](xs) = sum xs + 1, leaves (opaque nodes, reads, arange,
   ones/zeros/full) 1) is strictly decreased by every rule and is strictly
   monotone in every child, so any sequence of applications of these rules, at any positions of an
   expression, has length at most mu of the initial expression: simplification with these rules
   terminates, and at its fixpoint no rule applies (a second pass changes nothing).

   The second half of the file lifts these per-rule facts to the WHOLE REWRITE SYSTEM (theories/Rewrite.v): the one-step
   relation [rstep] (one of the 18 measure-decreasing rules [simp_rules] at any position of an expression), its
   termination ([mu] bounds the length of every rewrite sequence; well-foundedness), the decision procedure [applicable],
   and the executable strategy [simplify_model] (outermost-first sweeps in the library's hook order, repeated until nothing
   applies, as Expr.simplify does): it only takes steps of the relation, reaches a normal form with fuel [mu e] on EVERY
   expression, and is idempotent.  The system is not confluent (C08_confluence_refuted: a critical pair reachable through
   the public API; both normal forms denote the same array).  harness/c08.py (fam_normal_forms) ties the normal forms to
   the real optimizer: the reified result of the real expr.simplify() is checked in Coq to be a normal form. *)
From DA Require Import PyBase Slicing NdArray ExprRules ExprRulesFacts ExprRulesFacts2 Rewrite RewriteFacts.
Open Scope Z_scope.

Theorem C08_rules_decrease_measure :
  forall before after,
  (rule_slice_identity before = Some after \/ rule_slice_slice before = Some after \/
   rule_slice_elemwise before = Some after \/ rule_slice_transpose before = Some after \/
   rule_slice_arange before = Some after \/ rule_slice_expand_dims before = Some after \/
   rule_transpose_transpose before = Some after \/ rule_transpose_identity before = Some after \/
   rule_rechunk_rechunk before = Some after \/ rule_rechunk_noop before = Some after \/
   rule_slice_concat before = Some after \/ rule_slice_stack before = Some after \/
   rule_slice_full before = Some after \/ rule_slice_broadcast_to before = Some after \/
   rule_rechunk_elemwise before = Some after \/ rule_rechunk_fromarray before = Some after \/
   rule_rechunk_expand_dims before = Some after \/ rule_rechunk_transpose before = Some after) ->
  (mu after < mu before)%nat.
Proof.
  intros before after H. destruct H as [H|[H|[H|[H|[H|[H|[H|[H|[H|[H|[H|[H|[H|[H|[H|[H|[H|H]]]]]]]]]]]]]]]]].
  - apply rule_slice_identity_mu. exact H.
  - apply rule_slice_slice_mu. exact H.
  - apply rule_slice_elemwise_mu. exact H.
  - apply rule_slice_transpose_mu. exact H.
  - apply rule_slice_arange_mu. exact H.
  - apply rule_slice_expand_dims_mu. exact H.
  - apply rule_transpose_transpose_mu. exact H.
  - apply rule_transpose_identity_mu. exact H.
  - apply rule_rechunk_rechunk_mu. exact H.
  - apply rule_rechunk_noop_mu. exact H.
  - apply rule_slice_concat_mu. exact H.
  - apply rule_slice_stack_mu. exact H.
  - apply rule_slice_full_mu. exact H.
  - apply rule_slice_broadcast_to_mu. exact H.
  - apply rule_rechunk_elemwise_mu. exact H.
  - apply rule_rechunk_fromarray_mu. exact H.
  - apply rule_rechunk_expand_dims_mu. exact H.
  - apply rule_rechunk_transpose_mu. exact H.
Qed.

(* The one modelled simplify rule that is NOT measure-decreasing: the pushdown of a rechunk through a concatenation may leave
   a residual Rechunk above the new Concatenate (target chunks straddling a seam); the implementation stops it with a
   semantic fixpoint test (every part already holds its share of the target: rechunk_through_concat declines), not a
   syntactic one. *)
Example C08_rechunk_concat_residual :
  let a := ESource (SBase 1 [7]) [[2; 5]] None true 8 0 in let b := ELeaf 2 [2] [[2]] in
  let before := ERechunk (EConcat a 0 [b]) 0 [[2; 3; 4]] 0 false false in
  let after := ERechunk (EConcat (ERechunk a 0 [[2; 3; 2]] 0 false false) 0 [b]) 0 [[2; 3; 4]] 0 false false in
  rechunk_through_concat before = Some after /\ mu before = 7%nat /\ mu after = 11%nat /\
  rechunk_through_concat after = None.
Proof. vm_compute. repeat split; reflexivity. Qed.

(* closure under contexts: a decrease in a child is a decrease of the parent *)
Theorem C08_measure_monotone_unary :
  forall e e', (mu e' < mu e)%nat ->
  (forall ix o, mu (ESlice e' ix o) < mu (ESlice e ix o))%nat /\
  (forall axes, mu (ETranspose e' axes) < mu (ETranspose e axes))%nat /\
  (forall s c p b pp, mu (ERechunk e' s c p b pp) < mu (ERechunk e s c p b pp))%nat /\
  (forall axes, mu (EExpandDims e' axes) < mu (EExpandDims e axes))%nat /\
  (forall shp c, mu (EBroadcastTo e' shp c) < mu (EBroadcastTo e shp c))%nat /\
  (forall c p, mu (ETasksRechunk e' c p) < mu (ETasksRechunk e c p))%nat.
Proof. exact mu_monotone_unary. Qed.

Theorem C08_measure_monotone_elemwise :
  forall op l1 e e' l2, (mu e' < mu e)%nat ->
  (mu (EElemwise op (l1 ++ e' :: l2)) < mu (EElemwise op (l1 ++ e :: l2)))%nat.
Proof. exact mu_monotone_elemwise. Qed.

Theorem C08_measure_monotone_concat_stack :
  forall e e', (mu e' < mu e)%nat ->
  (forall axis rest, mu (EConcat e' axis rest) < mu (EConcat e axis rest))%nat /\
  (forall a axis l1 l2, mu (EConcat a axis (l1 ++ e' :: l2)) < mu (EConcat a axis (l1 ++ e :: l2)))%nat /\
  (forall axis rest, mu (EStack e' axis rest) < mu (EStack e axis rest))%nat /\
  (forall a axis l1 l2, mu (EStack a axis (l1 ++ e' :: l2)) < mu (EStack a axis (l1 ++ e :: l2)))%nat.
Proof. exact mu_monotone_concat. Qed.

(* the measure is positive: at most (mu e - 1) rule applications from e *)
Theorem C08_measure_positive : forall e, (1 <= mu e)%nat.
Proof. exact mu_pos. Qed.

Example C08_measure_ex :
  let x := ELeaf 1 [4; 3] [[4]; [3]] in let y := ELeaf 2 [3] [[3]] in
  let before := ESlice (EElemwise 1 [x; y]) [ISlice (mkslice (Some 1) None None); IInt 0] true in
  exists after, rule_slice_elemwise before = Some after /\ mu before = 15%nat /\ mu after = 9%nat.
Proof. eexists. vm_compute. repeat split; reflexivity. Qed.

Example C08_measure_concat_ex :
  let x := ELeaf 1 [4; 3] [[4]; [3]] in let y := ELeaf 2 [5; 3] [[2; 3]; [3]] in let z := ELeaf 3 [2; 3] [[2]; [3]] in
  let before := ESlice (EConcat x 0 [y; z]) [ISlice (mkslice (Some 3) (Some 8) None); ISlice colon] true in
  exists after, rule_slice_concat before = Some after /\ mu before = 12%nat /\ mu after = 7%nat.
Proof. eexists. vm_compute. repeat split; reflexivity. Qed.

(* ====================================================================== *)
(* the whole rewrite system *)

(* (a) one step, at any position, with any of the 18 rules, decreases the measure *)
Theorem C08_step_decreases_measure : forall e e', rstep e e' -> (mu e' < mu e)%nat.
Proof. exact rstep_mu. Qed.

(* (b) every rewrite sequence e -> x1 -> ... -> xn has n < mu e *)
Theorem C08_rewrite_sequences_bounded : forall e es, chain e es -> (length es <= mu e)%nat.
Proof. exact (fun e es => chain_length es e). Qed.

Theorem C08_rewrite_sequences_bounded_strict : forall e es, chain e es -> (S (length es) <= mu e)%nat.
Proof. exact (fun e es => chain_length_lt es e). Qed.

Theorem C08_rewriting_well_founded : well_founded (fun a b => rstep b a).
Proof. exact rstep_well_founded. Qed.

(* [applicable] decides whether some rule fires somewhere; its negation is being a normal form *)
Theorem C08_applicable_decides_reducibility : forall e, applicable e = true <-> exists e', rstep e e'.
Proof. exact applicable_iff. Qed.

Theorem C08_not_applicable_iff_normal : forall e, applicable e = false <-> (forall e', ~ rstep e e').
Proof. exact applicable_false_normal. Qed.

(* the enumeration of successors used by the confluence search only produces steps of the relation *)
Theorem C08_all_steps_sound : forall e e', In e' (all_steps e) -> rstep e e'.
Proof. exact all_steps_sound. Qed.

Theorem C08_all_steps_complete : forall e e', rstep e e' -> In e' (all_steps e).
Proof. exact all_steps_complete. Qed.

(* what the confluence search of the harness reports are normal forms reachable from e: two different members of
   [normal_forms e] refute confluence at e, and "the real result is a member" means the real optimizer's result is
   reachable from the raw expression by steps of the model relation and is a normal form of it *)
Theorem C08_normal_forms_sound : forall e a, In a (normal_forms e) -> rsteps e a /\ normal a.
Proof. exact normal_forms_sound. Qed.

(* the strategy only takes steps of the relation ... *)
Theorem C08_simplify_model_rewrites : forall e, rsteps e (simplify_model e).
Proof. exact simplify_model_rsteps. Qed.

(* (c) ... and the fuel [mu e] always suffices: its result is a normal form, for every expression *)
Theorem C08_simplify_model_normal_form : forall e, applicable (simplify_model e) = false.
Proof. exact simplify_model_normal. Qed.

Theorem C08_simplify_fuel_suffices :
  forall n e, (mu e <= n)%nat -> applicable (simplify_fuel n e) = false /\ simplify_fuel n e = simplify_model e.
Proof.
  exact (fun n e H => conj (simplify_fuel_normal n e H) (simplify_fuel_stable n (mu e) e H (le_n (mu e)))).
Qed.

(* a sweep over a reducible expression makes progress, a sweep over a normal form changes nothing
   (the fixpoint test of Expr.simplify: `new._name == expr._name`) *)
Theorem C08_sweep_progress : forall e, applicable e = true -> (mu (simplify_pass e) < mu e)%nat.
Proof. exact simplify_pass_mu_lt. Qed.

Theorem C08_sweep_fixpoint : forall e, applicable e = false -> simplify_pass e = e.
Proof. exact simplify_pass_normal. Qed.

(* (d) idempotence: optimizing twice gives the same expression as optimizing once *)
Theorem C08_simplify_model_idempotent : forall e, simplify_model (simplify_model e) = simplify_model e.
Proof. exact simplify_model_idempotent. Qed.

Theorem C08_simplify_model_fixes_normal_forms : forall e, applicable e = false -> simplify_model e = e.
Proof. exact simplify_model_of_normal. Qed.

(* (e) CONFLUENCE FAILS.  Full statement that would make the normal form independent of the rewriting order:
     forall e a b, rsteps e a -> rsteps e b -> normal a -> normal b -> a = b.
   It is false of the model, with a well-formed witness reachable through the public API (Rewrite.cp_raw):
     x = da.from_array(np.arange(60).reshape(12, 5), chunks=((4, 2, 5, 1), (3, 1, 1)));  y = (x * 2)[::2, 2:4:2];  z = y[:, ::2]
   fusing the two slices first gives  (x[::2, 2:4:4]) * 2,  pushing the inner slice through the multiplication first gives
   (x[::2, 2:4:2]) * 2.  Replayed against the implementation: z.expr.simplify() is the first, simplifying y and then
   slicing and simplifying again is the second; the names differ, the computed arrays are equal (both select column 2). *)
Theorem C08_confluence_refuted :
  exists e a b, wfb e = true /\ rsteps e a /\ rsteps e b /\ normal a /\ normal b /\ a <> b.
Proof. exact confluence_refuted. Qed.

(* non-vacuity *)
Example C08_chain_ex :
  let x := ELeaf 1 [4; 3] [[4]; [3]] in let y := ELeaf 2 [3] [[3]] in
  let e0 := ESlice (ETranspose (ETranspose (EElemwise 1 [x; y]) [1; 0]%nat) [1; 0]%nat)
              [ISlice (mkslice (Some 1) None None); IInt 0] true in
  exists e1 e2 e3, chain e0 [e1; e2; e3] /\ mu e0 = 21%nat /\ applicable e3 = false.
Proof. exact chain_example. Qed.

Example C08_simplify_model_ex :
  let x := ELeaf 1 [4; 3] [[4]; [3]] in let y := ELeaf 2 [3] [[3]] in
  let e0 := ESlice (ETranspose (ETranspose (EElemwise 1 [x; y]) [1; 0]%nat) [1; 0]%nat)
              [ISlice (mkslice (Some 1) None None); IInt 0] true in
  applicable e0 = true /\
  simplify_model e0 = EElemwise 1 [ESlice x [ISlice (mkslice (Some 1) None None); IInt 0] true; ESlice y [IInt 0] true] /\
  length (all_steps e0) = 2%nat /\ normal_forms e0 = [simplify_model e0].
Proof. vm_compute. repeat split; reflexivity. Qed.

Example C08_critical_pair_ex :
  wfb cp_raw = true /\ simplify_model cp_raw = cp_nf1 /\ normal_forms cp_raw = [cp_nf1; cp_nf2] /\
  expr_eqb cp_nf1 cp_nf2 = false /\ eshape cp_nf1 = [6; 1] /\ eshape cp_nf2 = [6; 1].
Proof. vm_compute. repeat split; reflexivity. Qed.

Print Assumptions C08_rules_decrease_measure.
Print Assumptions C08_measure_monotone_unary.
Print Assumptions C08_measure_monotone_elemwise.
Print Assumptions C08_measure_positive.
Print Assumptions C08_measure_monotone_concat_stack.
Print Assumptions C08_step_decreases_measure.
Print Assumptions C08_rewrite_sequences_bounded.
Print Assumptions C08_rewrite_sequences_bounded_strict.
Print Assumptions C08_rewriting_well_founded.
Print Assumptions C08_applicable_decides_reducibility.
Print Assumptions C08_not_applicable_iff_normal.
Print Assumptions C08_all_steps_sound.
Print Assumptions C08_all_steps_complete.
Print Assumptions C08_normal_forms_sound.
Print Assumptions C08_simplify_model_rewrites.
Print Assumptions C08_simplify_model_normal_form.
Print Assumptions C08_simplify_fuel_suffices.
Print Assumptions C08_sweep_progress.
Print Assumptions C08_sweep_fixpoint.
Print Assumptions C08_simplify_model_idempotent.
Print Assumptions C08_simplify_model_fixes_normal_forms.
Print Assumptions C08_confluence_refuted.
