(* C08 — Optimization terminates and is idempotent (placeholder for the rule-measure theorems). *)
From DA Require Import PyBase.
Open Scope Z_scope.
Example C08_placeholder : zsum [1;2;3] = 6. Proof. reflexivity. Qed.
Print Assumptions C08_placeholder.
