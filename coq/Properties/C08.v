(* C08 — Optimization terminates and is idempotent.
   Rule-measure theorems for the modelled rewrite rules (theories/ExprRules.v): the linear
   interpretation [mu] ([Slice](x) = 3x, [Transpose](x) = [Rechunk](x) = [ExpandDims](x) = x + 1,
   [Elemwise](xs) = sum xs + 1, leaves 1) is strictly decreased by every rule and is strictly
   monotone in every child, so any sequence of applications of these rules, at any positions of an
   expression, has length at most mu of the initial expression: simplification with these rules
   terminates, and at its fixpoint no rule applies (a second pass changes nothing). *)
From DA Require Import PyBase Slicing NdArray ExprRules ExprRulesFacts.
Open Scope Z_scope.

Theorem C08_rules_decrease_measure :
  forall before after,
  (rule_slice_identity before = Some after \/ rule_slice_slice before = Some after \/
   rule_slice_elemwise before = Some after \/ rule_slice_transpose before = Some after \/
   rule_slice_arange before = Some after \/ rule_slice_expand_dims before = Some after \/
   rule_transpose_transpose before = Some after \/ rule_transpose_identity before = Some after \/
   rule_rechunk_rechunk before = Some after \/ rule_rechunk_noop before = Some after) ->
  (mu after < mu before)%nat.
Proof.
  intros before after H. destruct H as [H|[H|[H|[H|[H|[H|[H|[H|[H|H]]]]]]]]].
  - apply rule_slice_identity_mu. exact H.
  - apply rule_slice_slice_mu. exact H.
  - apply rule_slice_elemwise_mu. exact H.
  - apply rule_slice_transpose_mu. exact H.
  - apply rule_slice_arange_mu. exact H.
  - apply rule_slice_expand_dims_mu. exact H.
  - apply rule_transpose_transpose_mu. exact H.
  - apply rule_transpose_identity_mu. exact H.
  - apply rule_rechunk_rechunk_mu. exact H.
  - apply rule_rechunk_noop_mu. exact H.
Qed.

(* closure under contexts: a decrease in a child is a decrease of the parent *)
Theorem C08_measure_monotone_unary :
  forall e e', (mu e' < mu e)%nat ->
  (forall ix o, mu (ESlice e' ix o) < mu (ESlice e ix o))%nat /\
  (forall axes, mu (ETranspose e' axes) < mu (ETranspose e axes))%nat /\
  (forall s c p b pp, mu (ERechunk e' s c p b pp) < mu (ERechunk e s c p b pp))%nat /\
  (forall axes, mu (EExpandDims e' axes) < mu (EExpandDims e axes))%nat /\
  (forall shp, mu (EBroadcastTo e' shp) < mu (EBroadcastTo e shp))%nat.
Proof. exact mu_monotone_unary. Qed.

Theorem C08_measure_monotone_elemwise :
  forall op l1 e e' l2, (mu e' < mu e)%nat ->
  (mu (EElemwise op (l1 ++ e' :: l2)) < mu (EElemwise op (l1 ++ e :: l2)))%nat.
Proof. exact mu_monotone_elemwise. Qed.

(* the measure is positive: at most (mu e - 1) rule applications from e *)
Theorem C08_measure_positive : forall e, (1 <= mu e)%nat.
Proof. exact mu_pos. Qed.

Example C08_measure_ex :
  let x := ELeaf 1 [4; 3] [[4]; [3]] in let y := ELeaf 2 [3] [[3]] in
  let before := ESlice (EElemwise 1 [x; y]) [ISlice (mkslice (Some 1) None None); IInt 0] true in
  exists after, rule_slice_elemwise before = Some after /\ mu before = 9%nat /\ mu after = 7%nat.
Proof. eexists. vm_compute. repeat split; reflexivity. Qed.

Print Assumptions C08_rules_decrease_measure.
Print Assumptions C08_measure_monotone_unary.
Print Assumptions C08_measure_monotone_elemwise.
Print Assumptions C08_measure_positive.
