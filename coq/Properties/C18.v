(* C18 — Reductions are independent of chunking and tree shape.
   Statements only; proofs in theories/TreeReduceFacts.v (partition_all, depth, 1-D tree),
   TreeReduceInst.v (the concrete chunk/combine/aggregate triples), TreeReduceND.v (N-D grids),
   TreeReduceSlice.v (_accept_slice_impl).  Model: theories/TreeReduce.v.
   The float-derived choices of the Python (int(split_every ** (1/len(axis))) and
   math.ceil(math.log(n, k))) are oracle arguments; every theorem holds for ALL fan-ins >= 2 and
   all oracle depths satisfying the checked precondition k^c >= n (logs_ok). *)
From DA Require Import PyBase TreeReduce TreeReduceFacts TreeReduceInst TreeReduceND TreeReduceSlice TreeReduceMoment.
From Coq Require Import Permutation.
Open Scope Z_scope.

(* ------------------------------------------------------------------ *)
(* one level: tlz.partition_all groups the block indices in order      *)

(* the groups concatenate back to the input (so they partition the block indices, in order),
   none is empty, none is longer than k, there are ceil(n/k) of them, and group j is the
   stretch [j*k, j*k + k) of the input *)
Theorem C18_partition_all_valid :
  forall (A : Type) (k : Z) (l : list A), 1 <= k ->
  concat (partition_all k l) = l /\
  Forall (fun g => g <> [] /\ Z.of_nat (length g) <= k) (partition_all k l) /\
  Z.of_nat (length (partition_all k l)) = cdiv (Z.of_nat (length l)) k /\
  (forall j, (j < length (partition_all k l))%nat ->
     nth j (partition_all k l) [] = firstn (Z.to_nat k) (skipn (j * Z.to_nat k) l)).
Proof. exact @partition_all_valid. Qed.

(* ------------------------------------------------------------------ *)
(* depth                                                               *)

(* iterating ceil-division d times from n reaches 1 as soon as k^d >= n *)
Theorem C18_iter_cdiv_reaches_one :
  forall (d : nat) (k n : Z), 1 <= k -> 1 <= n -> n <= k ^ Z.of_nat d -> iter_cdiv d k n = 1.
Proof. exact iter_cdiv_reaches_one. Qed.

(* the integer loop of the model computes exactly ceil(log_k n) *)
Theorem C18_ceil_log_exact :
  forall k n, 2 <= k ->
  0 <= ceil_log k n /\ n <= k ^ ceil_log k n /\ (forall d, 0 <= d < ceil_log k n -> k ^ d < n).
Proof. exact ceil_log_spec. Qed.

(* the depth chosen by _build_tree_reduce_expr, for ANY oracle values of ceil(log(n, k)) that
   satisfy k^c >= n: after `depth` levels every axis with fan-in >= 2 is down to one block *)
Theorem C18_depth_reaches_one :
  forall nb se logs d,
  tree_depth nb se logs = Some d -> logs_ok nb se logs = true ->
  1 <= d /\
  forall j n k, nth_error nb j = Some n -> 1 <= n -> dict_find se (Z.of_nat j) = Some k -> 2 <= k ->
    iter_cdiv (Z.to_nat d) k n = 1.
Proof. exact tree_depth_reaches_one. Qed.

(* the exact integer logarithm is an admissible oracle *)
Theorem C18_exact_depth_oracle_ok :
  forall nb se,
  Forall (fun n => 1 <= n) nb -> (forall a k, dict_find se a = Some k -> 1 <= k) ->
  logs_ok nb se (exact_logs nb se) = true.
Proof. exact exact_logs_ok. Qed.

(* ------------------------------------------------------------------ *)
(* the tree equals the flat fold                                       *)

(* 1-D, any monoid (associativity only: groups are consecutive and order is preserved):
   every level preserves the total ... *)
Theorem C18_tree_total_invariant :
  forall (S : Type) (op : S -> S -> S) (e : S) (k : Z) (d : nat) (l : list S),
  monoid_laws op e -> 1 <= k ->
  mfold op e (tree_iter (mfold op e) k d l) = mfold op e l.
Proof. exact @tree_iter_mfold. Qed.

(* ... and once k^d >= number of blocks a single block is left holding the flat fold *)
Theorem C18_tree_equals_flat_1d :
  forall (S : Type) (op : S -> S -> S) (e : S) (k : Z) (d : nat) (l : list S),
  monoid_laws op e -> 2 <= k -> l <> [] -> Z.of_nat (length l) <= k ^ Z.of_nat d ->
  tree_iter (mfold op e) k d l = [mfold op e l].
Proof. exact @tree_iter_flat. Qed.

(* 1-D, chunk / combine / aggregate: for a list-homomorphic triple the tree with ANY fan-in
   k >= 2 and any sufficient depth returns spec(concatenated data) *)
Theorem C18_tree_1d_hom :
  forall (B D S R : Type) (r : reduction B S R) (phi : B -> list D) (h : list D -> S) (spec : list D -> R),
  hom_reduction r phi h spec ->
  forall k depth (blocks : list B),
  2 <= k -> 1 <= depth -> blocks <> [] -> Z.of_nat (length blocks) <= k ^ depth ->
  tree_reduce_1d r k depth blocks = [spec (concat (map phi blocks))].
Proof. exact @tree_reduce_1d_hom. Qed.

(* N-D grids, per-axis fan-ins (the per-axis dict), all axes grouped at once in every level:
   the value at an output block is the aggregate of the chunk summaries of exactly the input
   blocks below it (a product of per-axis index sets) *)
Theorem C18_tree_nd_cover :
  forall (S : Type) (comb : list S -> S) (kn : list (Z * Z)) (R : Type) (agg : list S -> R)
         (depth : nat) (f : list Z -> S) (key : list Z),
  tree_laws comb agg -> (1 <= depth)%nat -> length key = length kn ->
  nd_tree_value comb agg (map fst kn) depth (map snd kn) f key
  = agg (map f (cprod (nd_cover kn depth key))).
Proof. exact @nd_tree_value_cover. Qed.

(* ... and with sufficient depth that is ONE flat aggregate over all blocks along the reduced axes
   (fan-in >= 2, k^depth >= number of blocks) at the kept coordinates (fan-in 1) *)
Theorem C18_tree_equals_flat_nd :
  forall (S R : Type) (comb : list S -> S) (agg : list S -> R) (kn : list (Z * Z)) (depth : nat)
         (f : list Z -> S) (key : list Z),
  tree_laws comb agg -> (1 <= depth)%nat -> Forall2 (axis_ok (Z.of_nat depth)) kn key ->
  nd_tree_value comb agg (map fst kn) depth (map snd kn) f key
  = agg (map f (cprod (flat_axes kn key))).
Proof. exact @nd_tree_equals_flat. Qed.

(* tree_laws = "order of the inputs is irrelevant and pre-combining changes nothing"; it holds
   for every COMMUTATIVE monoid (N-D grouping reorders blocks, so commutativity is needed) ... *)
Theorem C18_laws_commutative_monoid :
  forall (S R : Type) (op : S -> S -> S) (e : S) (out : S -> R),
  monoid_laws op e -> commutative op -> tree_laws (mfold op e) (fun l => out (mfold op e l)).
Proof. exact @tree_laws_monoid. Qed.

(* ... in particular for the real combine/aggregate of sum, prod, NaN-propagating sum, mean *)
Theorem C18_laws_sum : tree_laws (r_combine red_sum) (r_agg red_sum).
Proof. exact tree_laws_sum. Qed.
Theorem C18_laws_prod : tree_laws (r_combine red_prod) (r_agg red_prod).
Proof. exact tree_laws_prod. Qed.
Theorem C18_laws_fsum : tree_laws (r_combine red_fsum) (r_agg red_fsum).
Proof. exact tree_laws_fsum. Qed.
Theorem C18_laws_mean : tree_laws (r_combine red_mean) (r_agg red_mean).
Proof. exact tree_laws_mean. Qed.

(* ------------------------------------------------------------------ *)
(* each reduction computes the NumPy definition on the concatenated data *)

Theorem C18_sum : forall k depth blocks, tree_ok k depth blocks ->
  tree_reduce_1d red_sum k depth blocks = [zsum (concat blocks)].
Proof. exact (tree_reduce_1d_ok _ _ _ hom_sum). Qed.

Theorem C18_prod : forall k depth blocks, tree_ok k depth blocks ->
  tree_reduce_1d red_prod k depth blocks = [zprod (concat blocks)].
Proof. exact (tree_reduce_1d_ok _ _ _ hom_prod). Qed.

(* None = NumPy's ValueError on a zero-size array *)
Theorem C18_min : forall k depth blocks, tree_ok k depth blocks ->
  tree_reduce_1d red_min k depth blocks = [np_min (concat blocks)].
Proof. exact (tree_reduce_1d_ok _ _ _ hom_min). Qed.

Theorem C18_max : forall k depth blocks, tree_ok k depth blocks ->
  tree_reduce_1d red_max k depth blocks = [np_max (concat blocks)].
Proof. exact (tree_reduce_1d_ok _ _ _ hom_max). Qed.

Theorem C18_any : forall k depth blocks, tree_ok k depth blocks ->
  tree_reduce_1d red_any k depth blocks = [existsb nonzero (concat blocks)].
Proof. exact (tree_reduce_1d_ok _ _ _ hom_any). Qed.

Theorem C18_all : forall k depth blocks, tree_ok k depth blocks ->
  tree_reduce_1d red_all k depth blocks = [forallb nonzero (concat blocks)].
Proof. exact (tree_reduce_1d_ok _ _ _ hom_all). Qed.

Theorem C18_count_nonzero : forall k depth blocks, tree_ok k depth blocks ->
  tree_reduce_1d red_sum k depth (count_nonzero_blocks blocks)
  = [zsum (map (fun x => b2z (nonzero x)) (concat blocks))].
Proof. exact count_nonzero_tree_ok. Qed.

(* mean as the exact rational (sum, count) *)
Theorem C18_mean : forall k depth blocks, tree_ok k depth blocks ->
  tree_reduce_1d red_mean k depth blocks = [(zsum (concat blocks), Z.of_nat (length (concat blocks)))].
Proof. exact (tree_reduce_1d_ok _ _ _ hom_mean). Qed.

(* NaN placements: data of type option Z, None = NaN *)
Theorem C18_sum_nan : forall k depth blocks, tree_ok k depth blocks ->
  tree_reduce_1d red_fsum k depth blocks = [fsum (concat blocks)].
Proof. exact (tree_reduce_1d_ok _ _ _ hom_fsum). Qed.

Theorem C18_nansum : forall k depth blocks, tree_ok k depth blocks ->
  tree_reduce_1d red_nansum k depth blocks = [np_nansum (concat blocks)].
Proof. exact (tree_reduce_1d_ok _ _ _ hom_nansum). Qed.

Theorem C18_min_nan : forall k depth blocks, tree_ok k depth blocks ->
  tree_reduce_1d red_fmin k depth blocks = [fnp_min (concat blocks)].
Proof. exact (tree_reduce_1d_ok _ _ _ hom_fmin). Qed.

Theorem C18_max_nan : forall k depth blocks, tree_ok k depth blocks ->
  tree_reduce_1d red_fmax k depth blocks = [fnp_max (concat blocks)].
Proof. exact (tree_reduce_1d_ok _ _ _ hom_fmax). Qed.

Theorem C18_nanmin : forall k depth blocks, tree_ok k depth blocks ->
  tree_reduce_1d red_nanmin k depth blocks = [fnp_nanmin (concat blocks)].
Proof. exact (tree_reduce_1d_ok _ _ _ hom_nanmin). Qed.

Theorem C18_nanmax : forall k depth blocks, tree_ok k depth blocks ->
  tree_reduce_1d red_nanmax k depth blocks = [fnp_nanmax (concat blocks)].
Proof. exact (tree_reduce_1d_ok _ _ _ hom_nanmax). Qed.

Theorem C18_mean_nan : forall k depth blocks, tree_ok k depth blocks ->
  tree_reduce_1d red_fmean k depth blocks = [(fsum (concat blocks), Z.of_nat (length (concat blocks)))].
Proof. exact (tree_reduce_1d_ok _ _ _ hom_fmean). Qed.

Theorem C18_nanmean : forall k depth blocks, tree_ok k depth blocks ->
  tree_reduce_1d red_nanmean k depth blocks
  = [(np_nansum (concat blocks), Z.of_nat (length (drop_nan (concat blocks))))].
Proof. exact (tree_reduce_1d_ok _ _ _ hom_nanmean). Qed.

(* argmin / argmax along ONE axis: for every chunking of the data (zero-size blocks included in
   the model; the Python raises on those, finding C18-B) and every tree shape the result is the
   FIRST occurrence of the extreme value.  `better` is > for argmax, < for argmin. *)
Theorem C18_arg_axis_chunking_independent :
  forall better chunks data k depth,
  strict_weak better -> chunks <> [] -> Forall (fun c => 0 <= c) chunks -> zsum chunks = Z.of_nat (length data) ->
  2 <= k -> 1 <= depth -> Z.of_nat (length chunks) <= k ^ depth ->
  tree_reduce_1d (red_arg_axis better) k depth (combine (block_offsets chunks) (split_chunks chunks data))
  = [option_map snd (np_argbest better data)].
Proof. exact arg_axis_tree. Qed.

Theorem C18_argmax_argmin_orders : strict_weak Z.gtb /\ strict_weak Z.ltb.
Proof. exact (conj strict_weak_gtb strict_weak_ltb). Qed.

(* FULL STATEMENT THAT IS FALSE of the faithful model (and of /repo): "argmax/argmin with
   axis=None over an N-D array returns NumPy's flat index for every chunking and tree shape".
   _arg_combine takes the first best value in BLOCK-GRID order of the concatenated group, not
   the smallest flat index, so ties are broken differently (finding F10). *)
Theorem C18_argmax_ravel_refuted :
  exists shape data chunks ks depth,
    nd_arg_ravel Z.gtb shape data chunks ks depth = [([0; 0], Some 13)] /\
    option_map snd (np_argbest Z.gtb data) = Some 6.
Proof.
  exists [4; 4], (map (fun i => i mod 7 - 3) (zrange0 16)), [[2; 2]; [1; 1; 1; 1]], [2; 2], 2.
  vm_compute. split; reflexivity.
Qed.

(* the same data, two chunkings, no tree at all (one aggregate level): different answers *)
Theorem C18_argmax_ravel_chunking_refuted :
  exists shape data chunks1 chunks2 ks,
    nd_arg_ravel Z.gtb shape data chunks1 ks 1 <> nd_arg_ravel Z.gtb shape data chunks2 ks 1.
Proof.
  exists [2; 4], [0; 0; 1; 0; 1; 0; 0; 0], [[2]; [2; 2]], [[2]; [4]], [16; 16].
  vm_compute. intros H. discriminate H.
Qed.

(* a split_every dict entry of 1 (outside the documented "int >= 2"): the depth loop skips the
   axis, the aggregate layer has one output block per input block, keepdims=False gives them all
   the key () and the last one survives *)
Theorem C18_split_every_one_refuted :
  exists blocks, tree_depth [Z.of_nat (length blocks)] [(0, 1)] [] = Some 1 /\
    dict_last (tree_reduce_1d red_sum 1 1 blocks) = [37] /\ zsum (concat blocks) = 190.
Proof.
  exists (split_chunks [2;2;2;2;2;2;2;2;2;2] (zrange0 20)). vm_compute. repeat split; reflexivity.
Qed.

(* The depth of the tree is a function of the block count the child ADVERTISES when the reduction is built
   (tree_depth numblocks ...).  For arg reductions (_tree_reduce at construction) a later rewrite or another unify
   policy can give the child MORE blocks than that (findings F33d, F5b): the tree laid out for 2 blocks (depth 1,
   split_every 2) is then run on 3 blocks, its single aggregate level has two output blocks, keepdims=False gives
   both the key () and the last one survives — the first group of blocks is silently dropped.  The theorems above
   need `tree_ok k depth blocks` (k^depth >= number of blocks); this is what fails. *)
Theorem C18_tree_laid_out_for_advertised_block_count_refuted :
  exists (advertised actual : list (list Z)),
    tree_depth [Z.of_nat (length advertised)] [(0, 2)] (exact_logs [Z.of_nat (length advertised)] [(0, 2)]) = Some 1 /\
    concat advertised = concat actual /\
    dict_last (tree_reduce_1d red_sum 2 1 advertised) = [zsum (concat advertised)] /\
    dict_last (tree_reduce_1d red_sum 2 1 actual) <> [zsum (concat actual)].
Proof.
  exists [[7; 4]; [8; 5; 9; 10]], [[7]; [4]; [8; 5; 9; 10]].
  vm_compute. repeat split; try reflexivity. intros H. discriminate H.
Qed.

(* var / std / moment (model: theories/TreeReduceMoment.v, exact rationals, None = NaN).
   FULL STATEMENT, NOT PROVED for non-empty blocks (Chan's pairwise update over Q; only checked by
   the correspondence harness against the implementation and NumPy):
     forall ddof k depth blocks, tree_ok k depth blocks -> Forall (fun b => b <> []) blocks ->
       map (fq_eqb (np_var ddof (concat blocks))) (tree_reduce_1d (red_var ddof) k depth blocks) = [true].
   Without the non-emptiness hypothesis it is FALSE of the faithful model and of /repo: moment_combine
   divides totals by ns == 0 (0/0 = NaN; moment_agg has the np.where(ns == 0, 0, ...) guard,
   moment_combine does not), so a zero-size block below a combine level poisons the result,
   while the same chunking without a combine level is correct (finding C18-A). *)
Theorem C18_var_empty_block_refuted :
  exists blocks,
    tree_reduce_1d (red_var 0) 2 2 blocks = [None] /\
    map (fq_eqb (np_var 0 (concat blocks))) (tree_reduce_1d (red_var 0) 16 1 blocks) = [true] /\
    np_var 0 (concat blocks) <> None.
Proof.
  exists [[0; 1]; []; [2; 3]; [4; 5]]. vm_compute. repeat split; try reflexivity. discriminate.
Qed.

(* ------------------------------------------------------------------ *)
(* slices pushed through a reduction                                   *)

(* when _accept_slice_impl pushes (Some ...): the input index addresses every input axis, an
   index on a REDUCED axis is never forwarded (the input keeps [:] there), and the kept axes
   receive the output indices in order (integers as size-1 slices) *)
Theorem C18_slice_through_reduction :
  forall index shape reduced keepdims input_index final,
  accept_slice index shape reduced keepdims = Some (input_index, final) ->
  let ndim := length shape in
  let out_ndim := if keepdims then ndim else ckept reduced 0 ndim in
  (length index <= out_ndim)%nat ->
  let slice_index := map int_to_slice (full_index_of index out_ndim) in
  existsb idx_is_none index = false /\
  length input_index = ndim /\
  (forall ax, (ax < ndim)%nat -> zmem (Z.of_nat ax) reduced = true -> nth ax input_index icolon = icolon) /\
  kept_proj reduced input_index = (if keepdims then kept_proj reduced slice_index else slice_index) /\
  forallb idx_is_colon input_index = false.
Proof. exact accept_slice_mapping. Qed.

(* what is re-applied on the output: the original index on kept reduced axes (keepdims), [0] where
   an integer became a size-1 slice, [:] elsewhere *)
Theorem C18_slice_final_index :
  forall index shape reduced keepdims input_index final,
  accept_slice index shape reduced keepdims = Some (input_index, final) ->
  let ndim := length shape in
  let out_ndim := if keepdims then ndim else ckept reduced 0 ndim in
  let full := full_index_of index out_ndim in
  let final_index :=
    if keepdims then map (fun ai => if zmem (fst ai) reduced then snd ai
                                    else if idx_is_int (snd ai) then IInt 0 else icolon) (enumerate full)
    else map (fun i => if idx_is_int i then IInt 0 else icolon) full in
  final = if existsb (fun i => negb (idx_is_colon i)) final_index then Some final_index else None.
Proof. exact accept_slice_final. Qed.

(* pushed index followed by the re-applied index selects exactly what the original index selects
   on an axis of length n (integers already normalised to 0 <= i < n, as SliceSlicesIntegers does) *)
Theorem C18_slice_roundtrip :
  forall (i : idx) (n : Z), idx_in_range i n ->
  idx_sel_compose (int_to_slice i) (if idx_is_int i then IInt 0 else icolon) n = idx_sel i n.
Proof. exact int_slice_roundtrip. Qed.

(* ------------------------------------------------------------------ *)
(* the hypotheses are satisfiable on non-trivial inputs                *)

Example C18_ex_partition : partition_all 3 (zrange0 10) = [[0; 1; 2]; [3; 4; 5]; [6; 7; 8]; [9]].
Proof. vm_compute. reflexivity. Qed.

(* math.log(125, 5) = 3.0000000000000004: the oracle says 4, the exact value is 3; both are admissible *)
Example C18_ex_depth_oracle :
  tree_depth [125] [(0, 5)] [4] = Some 4 /\ logs_ok [125] [(0, 5)] [4] = true /\
  tree_depth [125] [(0, 5)] (exact_logs [125] [(0, 5)]) = Some 3.
Proof. vm_compute. repeat split; reflexivity. Qed.

Example C18_ex_tree_sum :
  tree_ok 2 4 (split_chunks [2;2;2;2;2;2;2;2;2;2] (zrange0 20)) /\
  tree_reduce_1d red_sum 2 4 (split_chunks [2;2;2;2;2;2;2;2;2;2] (zrange0 20)) = [190].
Proof. split; [unfold tree_ok; cbn; repeat split; try lia; discriminate | vm_compute; reflexivity]. Qed.

Example C18_ex_nd_axes :
  Forall2 (axis_ok 2) [(2, 4); (1, 3); (3, 7)] [0; 2; 0] /\
  flat_axes [(2, 4); (1, 3); (3, 7)] [0; 2; 0] = [[0; 1; 2; 3]; [2]; [0; 1; 2; 3; 4; 5; 6]].
Proof.
  split; [|vm_compute; reflexivity].
  repeat constructor; unfold axis_ok; cbn [fst snd]; lia.
Qed.

Example C18_ex_argmax_axis :
  tree_reduce_1d (red_arg_axis Z.gtb) 2 2 (combine (block_offsets [2; 0; 3; 1]) (split_chunks [2; 0; 3; 1] [3; 1; 3; 0; 2; 3]))
  = [Some 0].
Proof. vm_compute. reflexivity. Qed.

Example C18_ex_accept_slice :
  accept_slice [IInt 9] [6; 10] [0] false
  = Some ([icolon; ISlice (mkslice (Some 9) (Some 10) None)], Some [IInt 0]) /\
  accept_slice [ISlice (mkslice (Some 1) (Some 4) None); IInt 0] [6; 10] [1] true
  = Some ([ISlice (mkslice (Some 1) (Some 4) None); icolon], Some [icolon; IInt 0]) /\
  accept_slice [IInt 0] [6; 10] [0; 1] true = None.
Proof. vm_compute. repeat split; reflexivity. Qed.

Print Assumptions C18_partition_all_valid.
Print Assumptions C18_iter_cdiv_reaches_one.
Print Assumptions C18_ceil_log_exact.
Print Assumptions C18_depth_reaches_one.
Print Assumptions C18_exact_depth_oracle_ok.
Print Assumptions C18_tree_total_invariant.
Print Assumptions C18_tree_equals_flat_1d.
Print Assumptions C18_tree_1d_hom.
Print Assumptions C18_tree_nd_cover.
Print Assumptions C18_tree_equals_flat_nd.
Print Assumptions C18_laws_commutative_monoid.
Print Assumptions C18_laws_sum.
Print Assumptions C18_laws_prod.
Print Assumptions C18_laws_fsum.
Print Assumptions C18_laws_mean.
Print Assumptions C18_sum.
Print Assumptions C18_prod.
Print Assumptions C18_min.
Print Assumptions C18_max.
Print Assumptions C18_any.
Print Assumptions C18_all.
Print Assumptions C18_count_nonzero.
Print Assumptions C18_mean.
Print Assumptions C18_sum_nan.
Print Assumptions C18_nansum.
Print Assumptions C18_min_nan.
Print Assumptions C18_max_nan.
Print Assumptions C18_nanmin.
Print Assumptions C18_nanmax.
Print Assumptions C18_mean_nan.
Print Assumptions C18_nanmean.
Print Assumptions C18_arg_axis_chunking_independent.
Print Assumptions C18_argmax_argmin_orders.
Print Assumptions C18_argmax_ravel_refuted.
Print Assumptions C18_argmax_ravel_chunking_refuted.
Print Assumptions C18_split_every_one_refuted.
Print Assumptions C18_tree_laid_out_for_advertised_block_count_refuted.
Print Assumptions C18_var_empty_block_refuted.
Print Assumptions C18_slice_through_reduction.
Print Assumptions C18_slice_final_index.
Print Assumptions C18_slice_roundtrip.
