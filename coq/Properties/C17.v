(* C17 — Chunk unification aligns operands without changing values or inflating blocks.
   Statements only; proofs in theories/UnifyFacts.v.  One axis at a time:
   refines_b fine coarse = true  means rechunking coarse -> fine only SPLITS blocks. *)
From DA Require Import PyBase Unify UnifyFacts UnifyDecide UnifyDecideFacts.
Open Scope Z_scope.

(* 'refine' policy (common_blockdim): the unified layout only splits every operand ... *)
Theorem C17_refine_only_splits :
  forall ds n r, Forall pos_layout ds -> (forall d, In d ds -> zsum d = n) ->
  common_blockdim ds = UOk r ->
  forall d, In d ds -> refines_b r d = true.
Proof. exact common_blockdim_refines. Qed.

(* ... it is the FINEST common refinement (boundaries = union of the operands' boundaries) ... *)
Theorem C17_common_is_finest_refinement :
  forall ds n r, Forall pos_layout ds -> (forall d, In d ds -> zsum d = n) ->
  common_blockdim ds = UOk r ->
  pos_layout r /\ (ds <> [] -> zsum r = n) /\
  (forall z, In z (inner_bounds r) <-> exists d, In d ds /\ In z (inner_bounds d)).
Proof. exact common_blockdim_finest. Qed.

(* ... and therefore never grows any operand's block *)
Theorem C17_refine_no_growth :
  forall ds n r, Forall pos_layout ds -> (forall d, In d ds -> zsum d = n) ->
  common_blockdim ds = UOk r ->
  forall d, In d ds -> zmax_list r <= zmax_list d.
Proof. exact common_blockdim_no_growth. Qed.

(* with zero-size chunks the 'only splits' clause is refuted: (0,5) and (5,0) unify to (0,5) *)
Theorem C17_refine_zero_chunk_refuted :
  exists ds r d, Forall nonneg_layout ds /\ (forall x, In x ds -> zsum x = 5) /\
    common_blockdim ds = UOk r /\ In d ds /\ refines_b r d = false.
Proof.
  exists [[0;5];[5;0]], [0;5], [5;0].
  repeat split; try (vm_compute; reflexivity).
  - repeat constructor; lia.
  - intros x [<-|[<-|[]]]; reflexivity.
  - right; left; reflexivity.
Qed.

(* 'auto'/'coarse' (coarse_blockdim), for every tie-break oracle `pick`: the chosen layout is
   either the common refinement or an operand's own layout that every other operand refines *)
Theorem C17_coarse_is_operand_or_refinement :
  forall pick ds r, coarse_blockdim pick ds = UOk r ->
  common_blockdim ds = UOk r \/
  (In r ds /\ (1 < length r)%nat /\
   forall d, In d ds -> (1 < length d)%nat -> refines_b d r = true).
Proof. exact coarse_blockdim_spec_gen. Qed.

(* a refinement never has a larger block (zero-size chunks allowed) *)
Theorem C17_refinement_never_grows_blocks :
  forall fine coarse, nonneg_layout fine -> nonneg_layout coarse ->
  refines_b fine coarse = true -> zmax_list fine <= zmax_list coarse.
Proof. exact refines_b_zmax. Qed.

(* moved_fraction (the cost model of the policy choice; also C27) *)
Theorem C17_moved_fraction_range :
  forall src dst n m, nonneg_layout dst -> moved_fraction src dst = (n, m) ->
  0 <= n /\ n <= m /\ (0 < m \/ (n = 0 /\ m = 1)).
Proof. exact moved_fraction_range. Qed.

Example C17_ex_interleaved : common_blockdim [[5;2];[4;3];[7]] = UOk [4;1;2].
Proof. vm_compute. reflexivity. Qed.
Example C17_ex_nested : coarse_blockdim 0 [[12;12];[6;6;6;6];[24]] = UOk [12;12].
Proof. vm_compute. reflexivity. Qed.

(* ====================================================================================================== *)
(* THE DECISION LAYER of unify_chunks_expr (model: theories/UnifyDecide.v, proofs: theories/UnifyDecideFacts.v).
   unify_decide qcmp pick policy limit operands = Some chunkss  (None = the call raises), for known chunk sizes.
   Oracles, universally quantified in every theorem: qcmp = every comparison between float costs
   (nb * moved_fraction), pick = set-iteration tie-break of coarse_blockdim.  Model restrictions are listed at
   the top of UnifyDecide.v.  wf_operand dim o = what callers establish: len(ind) = ndim, no repeated label in
   one operand, non-empty strictly positive layouts adding up to the axis length, each axis has the length
   dim(label) of its index or is a broadcast axis of length 1, itemsize >= 0. *)

(* (T1) no invented layout: under every policy, limit and oracle, the layout decided for an index is the layout
   some operand has on that index, or the common refinement (common_blockdim) of the layouts the operands have
   on that index (label_dims: the distinct layouts, the broadcast sentinel (1,) removed when there are several) *)
Theorem C17_decide_no_invented_layout :
  forall qcmp pick pol limit ops R,
  unify_decide qcmp pick pol limit ops = Some R ->
  forall j c, In (j, c) R ->
  operand_layout ops j c \/ common_blockdim (label_dims ops j) = UOk c.
Proof. exact unify_decide_no_invented_layout. Qed.

(* ... hence every non-broadcast operand axis finds a decided layout for its index, of its own total length *)
Theorem C17_decide_total_length :
  forall qcmp pick pol limit ops dim R,
  Forall (wf_operand dim) ops ->
  unify_decide qcmp pick pol limit ops = Some R ->
  forall o a, In o ops -> In a (axes o) -> 1 < ax_size a ->
  exists c, lookup (ax_label a) R = Some c /\ zsum c = ax_size a.
Proof. exact unify_decide_total_length. Qed.

(* (T2) THE GROWTH BOUND, any policy, any non-zero limit, any oracle.  The measure the code bounds:
     target_bytes R o  = itemsize * prod over the axes n of o with shape[n] > 1 of max(R[ind[n]])
     current_bytes o   = itemsize * prod over the same axes of max(o.chunks[n])
   i.e. the byte size of the operand's LARGEST BLOCK after / before it is rechunked to the decided layouts (the
   blocks of an array are the full product grid of its per-axis chunks, so the largest block is exactly the
   product of the per-axis maxima; broadcast axes keep their single chunk of length 1).  This is exactly the
   quantity of the property text: no operand's block grows beyond max(limit, its own largest block). *)
Theorem C17_decide_growth_bound :
  forall qcmp pick pol l ops dim R,
  Forall (wf_operand dim) ops -> l <> 0 ->
  unify_decide qcmp pick pol (Some l) ops = Some R ->
  forall o, In o ops -> target_bytes R o <= Z.max l (current_bytes o).
Proof. exact unify_decide_growth_bound. Qed.

(* the hypothesis l <> 0 is forced by the code: `if limit and ...` treats the limit 0 as "no limit", so with
   array.unify-chunks-limit = 0 the bound max(0, own largest block) = own largest block of the property text
   FAILS: policy coarse, float64 operands chunked (2,2) and (1,1,1,1): the second one's blocks grow 8 -> 16 bytes.
   Replayed on the real code (finding C17-L0). *)
Theorem C17_decide_growth_bound_limit_zero_refuted :
  exists ops dim R o, Forall (wf_operand dim) ops /\
    unify_decide rat_cmp (fun _ => 0%nat) PCoarse (Some 0) ops = Some R /\ In o ops /\
    target_bytes R o > Z.max 0 (current_bytes o).
Proof. exact growth_bound_limit_zero_refuted. Qed.

(* (T3) under `refine` every decided layout IS common_blockdim of the index' layouts, so C17_refine_only_splits,
   C17_common_is_finest_refinement and C17_refine_no_growth above apply to it; and no block grows, limit or not *)
Theorem C17_decide_refine_is_common :
  forall qcmp pick limit ops dim R,
  Forall (wf_operand dim) ops ->
  unify_decide qcmp pick PRefine limit ops = Some R ->
  forall j c, In (j, c) R -> common_blockdim (label_dims ops j) = UOk c.
Proof. exact unify_decide_refine_is_common. Qed.

Theorem C17_decide_refine_no_growth :
  forall qcmp pick limit ops dim R,
  Forall (wf_operand dim) ops ->
  unify_decide qcmp pick PRefine limit ops = Some R ->
  forall o, In o ops -> target_bytes R o <= current_bytes o.
Proof. exact unify_decide_refine_no_growth. Qed.

(* (T4) the realignment choice does not commute with reversing every layout (for every tie-break p): float64
   operands (1,3) and (2,2) realign to (1,3); reversed, (3,1) and (2,2) realign to (2,2), not to rev (1,3) = (3,1).
   Cause: the last key of min(feasible) is the layout TUPLE, compared lexicographically.  Root cause of F33:
   da.maximum(a@(1,3), b@(2,2))[::-1] advertises chunks ((3,1),) and optimizes to ((2,2),). *)
Theorem C17_realign_choice_not_stable_under_reversal_refuted :
  forall p : nat,
  unify_decide rat_cmp (fun _ => p) PAuto None ex_rev_ops = Some [(0, [1; 3])] /\
  unify_decide rat_cmp (fun _ => p) PAuto None (map rev_operand ex_rev_ops) = Some [(0, [2; 2])] /\
  rev_map [(0, [1; 3])] <> [(0, [2; 2])].
Proof. exact realign_choice_not_stable_under_reversal. Qed.

(* the set-iteration tie-break of coarse_blockdim (oracle `pick`) is IRRELEVANT for strictly positive layouts:
   whichever minimal-length candidate min(non_trivial_dims, key=len) returns, the result is the same (two distinct
   minimal-length layouts can never both be refined by all others).  coarse_cands ds = the minimal-length
   non-trivial layouts; it is non-empty whenever the branch is reached (coarse_cands_nonempty). *)
Theorem C17_coarse_tie_break_irrelevant :
  forall p q ds, Forall pos_layout ds ->
  (p < length (coarse_cands ds))%nat -> (q < length (coarse_cands ds))%nat ->
  coarse_blockdim p ds = coarse_blockdim q ds.
Proof. exact coarse_blockdim_pick_irrelevant. Qed.

(* the hypotheses are satisfiable on non-trivial inputs; every branch of the decision is exercised *)
Definition C17_ex_dim (j : Z) : Z := if j =? 0 then 16 else 16.
(* a heavy 16x16 float64 panel with fine chunks and a light 16-vector holding the coarse layout of index 0 *)
Definition C17_ex_panel : list operand :=
  [mkop 1 [0; 1] [[2;2;2;2;2;2;2;2]; [4;4;4;4]] [16; 16] 2048 8; mkop 2 [0] [[8; 8]] [16] 128 8].
Example C17_ex_wf : forallb (wf_operand_b C17_ex_dim) C17_ex_panel = true.
Proof. vm_compute. reflexivity. Qed.
(* auto: merging the panel up to (8,8) would move 1536 bytes > 4 * 128 anchored bytes -> REFUSED, refined *)
Example C17_ex_refused :
  unify_decide rat_cmp (fun _ => 0%nat) PAuto None C17_ex_panel = Some [(1, [4;4;4;4]); (0, [2;2;2;2;2;2;2;2])].
Proof. vm_compute. reflexivity. Qed.
(* coarse: always merges ... *)
Example C17_ex_coarse :
  unify_decide rat_cmp (fun _ => 0%nat) PCoarse None C17_ex_panel = Some [(1, [4;4;4;4]); (0, [8; 8])].
Proof. vm_compute. reflexivity. Qed.
(* ... unless the merged block (8*4*8 = 256 bytes) exceeds the limit: the size guard falls back to the refinement *)
Example C17_ex_guard :
  unify_decide rat_cmp (fun _ => 0%nat) PCoarse (Some 100) C17_ex_panel = Some [(1, [4;4;4;4]); (0, [2;2;2;2;2;2;2;2])]
  /\ unify_decide rat_cmp (fun _ => 0%nat) PCoarse (Some 256) C17_ex_panel = Some [(1, [4;4;4;4]); (0, [8; 8])].
Proof. split; vm_compute; reflexivity. Qed.
(* realignment of interleaved layouts: x + roll(x, 1) realigns to x's uniform grid, not to the refinement *)
Example C17_ex_realign :
  unify_decide rat_cmp (fun _ => 0%nat) PAuto None
    [mkop 1 [0] [[4;4;4]] [12] 96 8; mkop 2 [0] [[1;4;4;3]] [12] 96 8] = Some [(0, [4;4;4])]
  /\ common_blockdim [[4;4;4]; [1;4;4;3]] = UOk [1;3;1;3;1;3].
Proof. split; vm_compute; reflexivity. Qed.
Example C17_ex_tie_break :
  length (coarse_cands [[1; 3]; [2; 2]; [4]]) = 2%nat /\
  coarse_blockdim 0 [[1; 3]; [2; 2]; [4]] = UOk [1; 1; 2] /\ coarse_blockdim 1 [[1; 3]; [2; 2]; [4]] = UOk [1; 1; 2].
Proof. repeat split; vm_compute; reflexivity. Qed.
Example C17_ex_growth_bound_applies :
  forall o, In o C17_ex_panel ->
  target_bytes [(1, [4;4;4;4]); (0, [8; 8])] o <= Z.max 256 (current_bytes o).
Proof.
  apply (C17_decide_growth_bound rat_cmp (fun _ => 0%nat) PCoarse 256 C17_ex_panel C17_ex_dim).
  - apply Forall_forall. intros o Ho. apply wf_operand_b_spec.
    pose proof C17_ex_wf as H. rewrite forallb_forall in H. apply H. exact Ho.
  - discriminate.
  - vm_compute. reflexivity.
Qed.

Print Assumptions C17_refine_only_splits.
Print Assumptions C17_common_is_finest_refinement.
Print Assumptions C17_refine_no_growth.
Print Assumptions C17_refine_zero_chunk_refuted.
Print Assumptions C17_coarse_is_operand_or_refinement.
Print Assumptions C17_refinement_never_grows_blocks.
Print Assumptions C17_moved_fraction_range.
Print Assumptions C17_decide_no_invented_layout.
Print Assumptions C17_decide_total_length.
Print Assumptions C17_decide_growth_bound.
Print Assumptions C17_decide_growth_bound_limit_zero_refuted.
Print Assumptions C17_decide_refine_is_common.
Print Assumptions C17_decide_refine_no_growth.
Print Assumptions C17_realign_choice_not_stable_under_reversal_refuted.
Print Assumptions C17_coarse_tie_break_irrelevant.
