(* C17 — Chunk unification aligns operands without changing values or inflating blocks. *)
From DA Require Import PyBase Unify.
Open Scope Z_scope.

Example C17_common_example : common_blockdim [[5;2];[4;3]] = UOk [4;1;2].
Proof. vm_compute. reflexivity. Qed.
Print Assumptions C17_common_example.
