(* C17 — Chunk unification aligns operands without changing values or inflating blocks.
   Statements only; proofs in theories/UnifyFacts.v.  One axis at a time:
   refines_b fine coarse = true  means rechunking coarse -> fine only SPLITS blocks. *)
From DA Require Import PyBase Unify UnifyFacts.
Open Scope Z_scope.

(* 'refine' policy (common_blockdim): the unified layout only splits every operand ... *)
Theorem C17_refine_only_splits :
  forall ds n r, Forall pos_layout ds -> (forall d, In d ds -> zsum d = n) ->
  common_blockdim ds = UOk r ->
  forall d, In d ds -> refines_b r d = true.
Proof. exact common_blockdim_refines. Qed.

(* ... it is the FINEST common refinement (boundaries = union of the operands' boundaries) ... *)
Theorem C17_common_is_finest_refinement :
  forall ds n r, Forall pos_layout ds -> (forall d, In d ds -> zsum d = n) ->
  common_blockdim ds = UOk r ->
  pos_layout r /\ (ds <> [] -> zsum r = n) /\
  (forall z, In z (inner_bounds r) <-> exists d, In d ds /\ In z (inner_bounds d)).
Proof. exact common_blockdim_finest. Qed.

(* ... and therefore never grows any operand's block *)
Theorem C17_refine_no_growth :
  forall ds n r, Forall pos_layout ds -> (forall d, In d ds -> zsum d = n) ->
  common_blockdim ds = UOk r ->
  forall d, In d ds -> zmax_list r <= zmax_list d.
Proof. exact common_blockdim_no_growth. Qed.

(* with zero-size chunks the 'only splits' clause is refuted: (0,5) and (5,0) unify to (0,5) *)
Theorem C17_refine_zero_chunk_refuted :
  exists ds r d, Forall nonneg_layout ds /\ (forall x, In x ds -> zsum x = 5) /\
    common_blockdim ds = UOk r /\ In d ds /\ refines_b r d = false.
Proof.
  exists [[0;5];[5;0]], [0;5], [5;0].
  repeat split; try (vm_compute; reflexivity).
  - repeat constructor; lia.
  - intros x [<-|[<-|[]]]; reflexivity.
  - right; left; reflexivity.
Qed.

(* 'auto'/'coarse' (coarse_blockdim), for every tie-break oracle `pick`: the chosen layout is
   either the common refinement or an operand's own layout that every other operand refines *)
Theorem C17_coarse_is_operand_or_refinement :
  forall pick ds r, coarse_blockdim pick ds = UOk r ->
  common_blockdim ds = UOk r \/
  (In r ds /\ (1 < length r)%nat /\
   forall d, In d ds -> (1 < length d)%nat -> refines_b d r = true).
Proof. exact coarse_blockdim_spec_gen. Qed.

(* a refinement never has a larger block (zero-size chunks allowed) *)
Theorem C17_refinement_never_grows_blocks :
  forall fine coarse, nonneg_layout fine -> nonneg_layout coarse ->
  refines_b fine coarse = true -> zmax_list fine <= zmax_list coarse.
Proof. exact refines_b_zmax. Qed.

(* moved_fraction (the cost model of the policy choice; also C27) *)
Theorem C17_moved_fraction_range :
  forall src dst n m, nonneg_layout dst -> moved_fraction src dst = (n, m) ->
  0 <= n /\ n <= m /\ (0 < m \/ (n = 0 /\ m = 1)).
Proof. exact moved_fraction_range. Qed.

Example C17_ex_interleaved : common_blockdim [[5;2];[4;3];[7]] = UOk [4;1;2].
Proof. vm_compute. reflexivity. Qed.
Example C17_ex_nested : coarse_blockdim 0 [[12;12];[6;6;6;6];[24]] = UOk [12;12].
Proof. vm_compute. reflexivity. Qed.

Print Assumptions C17_refine_only_splits.
Print Assumptions C17_common_is_finest_refinement.
Print Assumptions C17_refine_no_growth.
Print Assumptions C17_refine_zero_chunk_refuted.
Print Assumptions C17_coarse_is_operand_or_refinement.
Print Assumptions C17_refinement_never_grows_blocks.
Print Assumptions C17_moved_fraction_range.
