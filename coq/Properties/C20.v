(* C20 — map_blocks block_info/block_id match the layout the call was built against.
   Statements only; proofs in theories/BlockInfoFacts.v.  The model (theories/BlockInfo.v)
   transcribes the payload construction of dask_array/_map_blocks.py, Blockwise.chunks /
   _compute_block_id, ChunksFreeze.lower_once and _preserve_grid_contract; harness/c20.py
   compares it on every run with the dictionaries read out of the real ArrayValuesDep, with
   ChunksFreeze.lower_once outcomes and with the real gate.

   How the clauses of the property map to theorems:
   * "each invocation receives the chunk location, array location and chunk shape of the
     layout advertised when the call was made": C20_block_info_matches_layout (output
     entry, any call), C20_input_info_matches_layout (input entries), C20_array_location_tiles
     (per axis), C20_single_input_closed_form (the plain call, in closed form);
   * "the block it is given has exactly that shape": C20_block_given_is_block_described
     (the block index the Blockwise task passes = the chunk-location in block_info) together
     with C20_freeze_restores (the input the task reads has the frozen = advertised layout);
   * "whatever rewrites optimization applies above or below": C20_freeze_restores /
     C20_freeze_unknown_refuses (below: any settled layout), C20_gate (above: pushdowns
     through a node with a grid-sensitive dependent keep the chunks). *)
From DA Require Import PyBase Rechunk CrosswalkFacts BlockInfo BlockInfoFacts.
From DA Require UnknownChunks BlockInfoAgree.
Open Scope Z_scope.

(* ---------------- one axis ---------------- *)

(* the array-location intervals of an axis tile [0, n) in block order; each interval is as
   long as the advertised chunk; the lookup never raises inside the grid *)
Theorem C20_array_location_tiles : forall cs,
  Forall (fun c => 0 <= c) cs ->
  tiles_from 0 (map (array_location_t cs) (zseq (length cs))) (zsum cs) /\
  (forall j, 0 <= j < lenZ' cs ->
     array_location cs j = Some (array_location_t cs j) /\
     snd (array_location_t cs j) - fst (array_location_t cs j) = nthZ cs j).
Proof. exact array_location_axis. Qed.

(* ---------------- the payload of an arbitrary call ---------------- *)

(* For EVERY map_blocks call the model accepts (several inputs, broadcasting, drop_axis,
   new_axis, chunks=): the keys of the payload are the block grid of the ADVERTISED output
   chunks `oc`, each grid point exactly once and in order; block_info[None] of the entry at
   `bid` is the advertised layout at `bid` (shape, num-chunks, array-location, chunk-location,
   chunk-shape) and chunk-shape = the lengths of the array-location intervals. *)
Theorem C20_block_info_matches_layout : forall args drop new_axis chunks out_ind oc p,
  map_blocks_info args drop new_axis chunks = MOk (out_ind, oc, p) ->
  map (fun e => fst (fst e)) p = block_ids oc /\
  NoDup (block_ids oc) /\
  (forall loc, In loc (block_ids oc) <-> in_grid oc loc) /\
  (forall bid ins o, In (bid, ins, o) p ->
     in_grid oc bid /\ o = out_info_t oc bid /\
     snd o = map (fun ab => snd ab - fst ab) (map2 array_location_t oc bid)).
Proof. exact map_blocks_info_matches_layout. Qed.

Theorem C20_block_count : forall oc, Z.of_nat (length (block_ids oc)) = number_of_blocks oc.
Proof. exact block_ids_count. Qed.

(* every entry has exactly one info per ARRAY argument, keyed by the argument position *)
Theorem C20_input_entries : forall args dr out_ind oc p bid ins o,
  block_info_payload args dr out_ind oc = Some p -> In (bid, ins, o) p ->
  (forall i cs, nth_error args i = Some (Some cs) ->
     exists b, in_info cs dr out_ind bid = Some b /\ In (Z.of_nat i, b) ins) /\
  (forall i b, In (i, b) ins ->
     exists cs, 0 <= i /\ nth_error args (Z.to_nat i) = Some (Some cs) /\ in_info cs dr out_ind bid = Some b).
Proof. exact payload_input_entries. Qed.

(* without dropped axes the info of an input describes a block of the INPUT's own advertised
   layout: chunk-location inside its grid, array-location = that block's interval *)
Theorem C20_input_info_matches_layout : forall cs out_ind bid sh nc al cl,
  in_info cs false out_ind bid = Some (sh, nc, al, cl) ->
  sh = map zsum cs /\ nc = map lenZ' cs /\ in_grid cs cl /\ al = map2 array_location_t cs cl.
Proof. exact in_info_sound. Qed.

(* ... and it is the very block the Blockwise task hands to the function
   (_compute_block_id with the idx_to_block of the final Blockwise, whose new_axes is {}) *)
Theorem C20_block_given_is_block_described : forall cs out_ind bid sh nc al cl b,
  in_info cs false out_ind bid = Some (sh, nc, al, cl) ->
  dep_block_id cs out_ind [] bid = Some b ->
  b = cl.
Proof. exact block_given_is_block_described. Qed.

(* dropped axes (drop_axis): the blocks are concatenated along them, and the info says so:
   one chunk spanning the whole axis; kept axes are described as usual *)
Theorem C20_dropped_axis_info : forall cs out_ind bid sh nc al cl j c ind,
  in_info cs true out_ind bid = Some (sh, nc, al, cl) ->
  nth_error cs j = Some c -> nth_error (rev_range (length cs)) j = Some ind ->
  zmem ind out_ind = false ->
  nth_error nc j = Some 1 /\ nth_error cl j = Some 0 /\ nth_error al j = Some (0, zsum c).
Proof. exact in_info_dropped_axis. Qed.

Theorem C20_kept_axis_info : forall cs dr out_ind bid sh nc al cl j c ind,
  in_info cs dr out_ind bid = Some (sh, nc, al, cl) ->
  nth_error cs j = Some c -> nth_error (rev_range (length cs)) j = Some ind ->
  dr = false \/ zmem ind out_ind = true ->
  exists l, nth_error nc j = Some (lenZ' c) /\ nth_error cl j = Some l /\ 0 <= l < lenZ' c /\
            nth_error al j = Some (array_location_t c l).
Proof. exact in_info_kept_axis. Qed.

(* the plain call map_blocks(f, x), x advertising chunks cs, in closed form: the advertised
   output chunks are cs, and for every block of the grid block_info[0] and block_info[None]
   are the same description of the advertised layout *)
Theorem C20_single_input_closed_form : forall cs,
  map_blocks_info [Some cs] [] None None =
  MOk (rev_range (length cs), cs, map (single_entry cs) (block_ids cs)).
Proof. exact map_blocks_single_input. Qed.

(* block_id: ArrayBlockIdDep(out.chunks) hands every block its own index of the advertised grid *)
Theorem C20_block_id_payload : forall oc,
  map fst (block_id_payload oc) = block_ids oc /\ Forall (fun e => snd e = fst e) (block_id_payload oc).
Proof. exact block_id_payload_spec. Qed.

(* ---------------- ChunksFreeze ---------------- *)

(* _chunks_match is equality of layouts (nan = None) *)
Theorem C20_chunks_match_is_equality : forall a b, chunks_match a b = true <-> a = b.
Proof. exact chunks_match_eq. Qed.

(* After lowering, the chunks the consumer sees are the frozen ones, or lowering raised —
   never a different layout.  (Both layouts describe the same array: equal rank.) *)
Theorem C20_freeze_restores : forall frozen settled,
  length frozen = length settled ->
  match consumer_chunks settled (chunks_freeze_lower frozen settled) with
  | Some c => c = frozen
  | None => True
  end.
Proof. exact freeze_restores. Qed.

Theorem C20_freeze_vanishes_when_settled_matches : forall frozen, chunks_freeze_lower frozen frozen = FVanish.
Proof. exact freeze_vanish_same. Qed.

Theorem C20_freeze_rechunk_only_when_restorable : forall frozen settled t,
  length frozen = length settled ->
  chunks_freeze_lower frozen settled = FRechunk t ->
  t = frozen /\ existsb has_nan frozen = false /\ settled <> frozen /\ validate_rechunk_b settled frozen = true.
Proof. exact freeze_rechunk_inv. Qed.

Theorem C20_freeze_unknown_refuses : forall frozen settled,
  existsb has_nan frozen = true -> settled <> frozen ->
  chunks_freeze_lower frozen settled = FError FRuntimeError.
Proof. exact freeze_unknown_refuses. Qed.

(* The statement of C20_freeze_restores WITHOUT the equal-rank hypothesis is false of the
   faithful model: ArrayExpr.rechunk zips the requested chunks with the array's chunks
   (truncating), so ChunksFreeze(x, ((3,3,6),(1,))) over x with chunks ((3,3,6),) lowers to x
   itself.  Replayed against /repo (see harness corpus); unreachable from map_blocks, which
   freezes a.chunks of the very array it wraps. *)
Theorem C20_freeze_rank_mismatch_refuted :
  exists frozen settled, chunks_freeze_lower frozen settled = FVanish /\ settled <> frozen.
Proof. exact freeze_rank_mismatch_refuted. Qed.

(* the _chunks_match / _validate_rechunk used above are the very functions C28 models
   (theories/UnknownChunks.v) *)
Theorem C20_freeze_uses_C28_guards : forall old new,
  BlockInfo.chunks_match old new = UnknownChunks.chunks_match old new /\
  (length old = length new ->
   UnknownChunks.validate_rechunk old new =
   if validate_rechunk_b old new then UnknownChunks.Proceed tt else UnknownChunks.Refuse UnknownChunks.ValueError).
Proof. exact (fun old new => conj (BlockInfoAgree.chunks_match_agrees old new) (BlockInfoAgree.validate_rechunk_agrees old new)). Qed.

(* ---------------- the grid-preservation gate ---------------- *)

(* _preserve_grid_contract: when the pushed-into parent has a grid-sensitive dependent, a
   pushdown is accepted only if `self` is not a Blockwise and the result advertises exactly
   the parent's chunks; holds for both values of the nan-identity oracle *)
Theorem C20_gate : forall (R : Type) nan_same self_is_blockwise deps parent_chunks (r : R) rc res,
  has_grid_sensitive deps = true ->
  preserve_grid_contract nan_same self_is_blockwise deps parent_chunks (Some (r, rc)) = Some res ->
  self_is_blockwise = false /\ rc = parent_chunks /\ res = (r, rc).
Proof. exact (@gate_accepts_only_unchanged). Qed.

Theorem C20_gate_declined_stays_declined : forall (R : Type) nan_same sb deps pc,
  @preserve_grid_contract R nan_same sb deps pc None = None.
Proof. exact (@gate_none). Qed.

Theorem C20_gate_inactive_without_sensitive_dependent : forall (R : Type) nan_same sb deps pc (result : option (R * ochunks)),
  has_grid_sensitive deps = false -> preserve_grid_contract nan_same sb deps pc result = result.
Proof. exact (@gate_free). Qed.

(* the gate is not vacuous: an unchanged known layout passes *)
Theorem C20_gate_accepts_unchanged_known : forall (R : Type) nan_same deps (pc : ochunks) (r : R),
  existsb has_nan pc = false ->
  preserve_grid_contract nan_same false deps pc (Some (r, pc)) = Some (r, pc).
Proof. exact (@gate_known_chunks_accepts). Qed.

(* who is grid sensitive: the Blockwise built by map_blocks (align_arrays=False) and MapBlocksOutput *)
Theorem C20_grid_sensitive_nodes : forall k align_arrays,
  requires_grid k align_arrays = true <-> (k = KBlockwise /\ align_arrays = false) \/ k = KMapBlocksOutput.
Proof. exact requires_grid_iff. Qed.

(* ---------------- the hypotheses are satisfiable / concrete instances ---------------- *)

(* the docstring example of map_blocks: chunks ((1,3),(2,2,2)), block (1,2) *)
Example C20_ex_docstring :
  exists p, map_blocks_info [Some [[1;3];[2;2;2]]] [] None None = MOk ([1;0], [[1;3];[2;2;2]], p) /\
            nth_error p 5 = Some ([1;2], [(0, ([4;6], [2;3], [(1,4);(4,6)], [1;2]))],
                                  (([4;6], [2;3], [(1,4);(4,6)], [1;2]), [3;2])).
Proof. eexists. split; vm_compute; reflexivity. Qed.

(* drop_axis=1: the dropped axis is described as one chunk (0, 6); new_axis + chunks= *)
Example C20_ex_drop_axis :
  map_blocks_info [Some [[1;3];[2;2;2]]] [1] None None =
  MOk ([1], [[1;3]],
       [([0], [(0, ([4;6], [2;1], [(0,1);(0,6)], [0;0]))], (([4], [2], [(0,1)], [0]), [1]));
        ([1], [(0, ([4;6], [2;1], [(1,4);(0,6)], [1;0]))], (([4], [2], [(1,4)], [1]), [3]))]).
Proof. vm_compute. reflexivity. Qed.

Example C20_ex_new_axis_two_inputs :
  exists p, map_blocks_info [Some [[2;2];[3]]; None; Some [[3]]] [] (Some [0]) (Some [CInt 1; CTup [5;5]; CInt 3])
            = MOk ([2;1;0], [[1];[5;5];[3]], p) /\ length p = 2%nat /\
            nth_error p 1 = Some ([0;1;0], [(0, ([4;3], [2;1], [(2,4);(0,3)], [1;0])); (2, ([3], [1], [(0,3)], [0]))],
                                  (([1;10;3], [1;2;1], [(0,1);(5,10);(0,3)], [0;1;0]), [1;5;3])).
Proof. eexists. split; [|split]; vm_compute; reflexivity. Qed.

(* inconsistent block counts make the construction raise IndexError, as the code does *)
Example C20_ex_inconsistent_blocks :
  map_blocks_info [Some [[2;2]]; Some [[1;1;1]]] [] None None = MErr MBIndexError.
Proof. vm_compute. reflexivity. Qed.

Example C20_ex_freeze_rechunk :
  chunks_freeze_lower [[Some 6; Some 6]] [[Some 3; Some 3; Some 6]] = FRechunk [[Some 6; Some 6]].
Proof. vm_compute. reflexivity. Qed.

Example C20_ex_freeze_unknown :
  chunks_freeze_lower [[None; None]] [[Some 2; Some 2]] = FError FRuntimeError /\
  chunks_freeze_lower [[Some 2; Some 2]] [[None; None]] = FError FValueError /\
  chunks_freeze_lower [[None; Some 2]] [[None; Some 2]] = FVanish.
Proof. vm_compute. auto. Qed.

Example C20_ex_gate :
  preserve_grid_contract true false [(KBlockwise, false)] [[Some 2; Some 2]] (Some (tt, [[Some 4]])) = None /\
  preserve_grid_contract true false [(KBlockwise, false)] [[Some 2; Some 2]] (Some (tt, [[Some 2; Some 2]])) = Some (tt, [[Some 2; Some 2]]) /\
  preserve_grid_contract true true [(KBlockwise, false)] [[Some 2; Some 2]] (Some (tt, [[Some 2; Some 2]])) = None /\
  preserve_grid_contract true false [(KElemwiseLike, false)] [[Some 2; Some 2]] (Some (tt, [[Some 4]])) = Some (tt, [[Some 4]]).
Proof. vm_compute. auto. Qed.

Print Assumptions C20_array_location_tiles.
Print Assumptions C20_block_info_matches_layout.
Print Assumptions C20_block_count.
Print Assumptions C20_input_entries.
Print Assumptions C20_input_info_matches_layout.
Print Assumptions C20_block_given_is_block_described.
Print Assumptions C20_dropped_axis_info.
Print Assumptions C20_kept_axis_info.
Print Assumptions C20_single_input_closed_form.
Print Assumptions C20_block_id_payload.
Print Assumptions C20_chunks_match_is_equality.
Print Assumptions C20_freeze_restores.
Print Assumptions C20_freeze_vanishes_when_settled_matches.
Print Assumptions C20_freeze_rechunk_only_when_restorable.
Print Assumptions C20_freeze_unknown_refuses.
Print Assumptions C20_freeze_rank_mismatch_refuted.
Print Assumptions C20_freeze_uses_C28_guards.
Print Assumptions C20_gate.
Print Assumptions C20_gate_declined_stays_declined.
Print Assumptions C20_gate_inactive_without_sensitive_dependent.
Print Assumptions C20_gate_accepts_unchanged_known.
Print Assumptions C20_grid_sensitive_nodes.
Print Assumptions C20_ex_docstring.
Print Assumptions C20_ex_drop_axis.
Print Assumptions C20_ex_new_axis_two_inputs.
Print Assumptions C20_ex_inconsistent_blocks.
Print Assumptions C20_ex_freeze_rechunk.
Print Assumptions C20_ex_freeze_unknown.
Print Assumptions C20_ex_gate.
