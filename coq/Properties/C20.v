(* C20 — map_blocks block_info/block_id match the layout the call was built against (placeholder). *)
From DA Require Import PyBase.
Open Scope Z_scope.
Example C20_placeholder : zsum [1;2;3] = 6. Proof. reflexivity. Qed.
Print Assumptions C20_placeholder.
