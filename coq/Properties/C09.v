(* C09 — Results do not depend on materialization history or planner configuration.
   The configuration-dependent planners are proved value-neutral for every oracle /
   configuration value: every rechunk plan is a list of layouts of the same shape (C15)
   and every unified layout is a layout of the same axis (C17). *)
From DA Require Import PyBase Rechunk RechunkFacts Unify UnifyFacts.
Open Scope Z_scope.

Theorem C09_plan_is_layout_sequence_for_every_config :
  forall orders oracle old new itemsize threshold bsl degree_limit plan shape,
    layout_ok shape old = true -> layout_ok shape new = true ->
    plan_rechunk orders oracle old new itemsize threshold bsl degree_limit = Some plan ->
    plan_valid shape new plan = true.
Proof. exact plan_valid_thm. Qed.

Theorem C09_unified_layout_same_axis_for_every_policy :
  forall ds n r, Forall pos_layout ds -> (forall d, In d ds -> zsum d = n) ->
  common_blockdim ds = UOk r ->
  pos_layout r /\ (ds <> [] -> zsum r = n) /\
  (forall z, In z (inner_bounds r) <-> exists d, In d ds /\ In z (inner_bounds d)).
Proof. exact common_blockdim_finest. Qed.

Print Assumptions C09_plan_is_layout_sequence_for_every_config.
Print Assumptions C09_unified_layout_same_axis_for_every_policy.
