(* C09 — Results do not depend on materialization history or planner configuration.

   Two layers.
   (1) The configuration-dependent planners are value-neutral for every oracle / configuration
       value: every rechunk plan is a list of layouts of the same shape ending in the requested
       layout (C15) and every unified layout is a layout of the same axis (C17).
   (2) The history model (theories/History.v: the process-wide name-keyed weak `_LOWER_CACHE`,
       Expr.lower_once, the `_lower` loop, the per-collection `_lowered_expr` cache; the one-pass
       planner `lower1` takes the configuration explicitly): for EVERY planner that preserves the
       denotation (hypothesis `lower_sound`; `simp_sound` for simplify()), every history of
       Build / Materialize-under-a-configuration / Drop / garbage-collection steps keeps the
       invariant "each cache entry name -> form computes what the name's expression computes",
       hence values are history- and configuration-free.  The stronger claim "the lowered FORM is
       a function of the name" (the comment above _LOWER_CACHE) is refuted for planners that read
       the configuration (finding F5).
   The harness (harness/c09.py, model_family) replays the real event stream of generated
   histories (every lower_once call on the real cache, its result, evictions, cache contents
   after every step) through `history_ok`, and evaluates real cache entries numerically. *)
From Coq Require Import List Bool PArith.
From DA Require Import PyBase Rechunk RechunkFacts Unify UnifyFacts History HistoryFacts.
Import ListNotations.
Open Scope Z_scope.

Theorem C09_plan_is_layout_sequence_for_every_config :
  forall orders oracle old new itemsize threshold bsl degree_limit plan shape,
    layout_ok shape old = true -> layout_ok shape new = true ->
    plan_rechunk orders oracle old new itemsize threshold bsl degree_limit = Some plan ->
    plan_valid shape new plan = true.
Proof. exact plan_valid_thm. Qed.

Theorem C09_unified_layout_same_axis_for_every_policy :
  forall ds n r, Forall pos_layout ds -> (forall d, In d ds -> zsum d = n) ->
  common_blockdim ds = UOk r ->
  pos_layout r /\ (ds <> [] -> zsum r = n) /\
  (forall z, In z (inner_bounds r) <-> exists d, In d ds /\ In z (inner_bounds d)).
Proof. exact common_blockdim_finest. Qed.

(* `lower_sound` for the rechunk planner: under any two configurations the plans end in the same
   layout `new` and consist of layouts of the same shape: what is computed does not depend on the
   configuration, only how *)
Theorem C09_rechunk_planner_config_free :
  forall orders1 oracle1 threshold1 bsl1 dl1 orders2 oracle2 threshold2 bsl2 dl2 old new itemsize plan1 plan2 shape,
  layout_ok shape old = true -> layout_ok shape new = true ->
  plan_rechunk orders1 oracle1 old new itemsize threshold1 bsl1 dl1 = Some plan1 ->
  plan_rechunk orders2 oracle2 old new itemsize threshold2 bsl2 dl2 = Some plan2 ->
  last_opt plan1 = Some new /\ last_opt plan2 = Some new /\
  forallb (layout_ok shape) plan1 = true /\ forallb (layout_ok shape) plan2 = true.
Proof. exact rechunk_planner_config_free. Qed.

(* ---- the history model ---- *)

(* for every history: every entry of the shared cache, and every per-collection cache, holds a
   form that computes what the expression it is filed under computes *)
Theorem C09_cache_invariant :
  forall (lower1 : cfg -> name -> name) (simp : name -> name) (D : Type) (den : name -> D),
  (forall k n, den (lower1 k n) = den n) -> (forall n, den (simp n) = den n) ->
  forall ops : list op,
  let st := run lower1 simp ops init in
  (forall n l, In (n, l) (st_cache st) -> den l = den n) /\
  (forall x l, In x (st_colls st) -> c_low x = Some l -> den l = den (c_root x)).
Proof. intros lower1 simp D den Hl Hs ops. exact (cache_invariant lower1 simp D den Hl Hs ops). Qed.

(* two arbitrary histories (different orders of builds, computes, drops, collections, different
   cache contents, evictions), the same expression: the materialized forms compute the same *)
Theorem C09_values_history_free :
  forall (lower1 : cfg -> name -> name) (simp : name -> name) (D : Type) (den : name -> D),
  (forall k n, den (lower1 k n) = den n) -> (forall n, den (simp n) = den n) ->
  forall ops1 ops2 x1 x2 l1 l2,
  In x1 (st_colls (run lower1 simp ops1 init)) -> In x2 (st_colls (run lower1 simp ops2 init)) ->
  c_root x1 = c_root x2 -> c_low x1 = Some l1 -> c_low x2 = Some l2 -> den l1 = den l2.
Proof. exact values_history_free. Qed.

(* in particular after any common prefix, materializing expression p under configuration k1 or
   under k2 (optimizing or not, whatever requests the lowering rules issue) computes the same *)
Theorem C09_values_config_free :
  forall (lower1 : cfg -> name -> name) (simp : name -> name) (D : Type) (den : name -> D),
  (forall k n, den (lower1 k n) = den n) -> (forall n, den (simp n) = den n) ->
  forall pre p c k1 k2 o1 o2 items1 items2 x1 x2 l1 l2,
  In x1 (st_colls (run lower1 simp (pre ++ [Build p; Materialize c k1 o1 items1]) init)) ->
  In x2 (st_colls (run lower1 simp (pre ++ [Build p; Materialize c k2 o2 items2]) init)) ->
  c_root x1 = p -> c_root x2 = p -> c_low x1 = Some l1 -> c_low x2 = Some l2 -> den l1 = den l2.
Proof.
  intros lower1 simp D den Hl Hs pre p c k1 k2 o1 o2 items1 items2 x1 x2 l1 l2 H1 H2 R1 R2 E1 E2.
  apply (values_history_free lower1 simp D den Hl Hs _ _ x1 x2 l1 l2 H1 H2); congruence.
Qed.

(* REFUTED: "lowering is a context-free function of the name, so memoizing by name is safe":
   for a (denotation-preserving) planner that reads the configuration, the form a collection gets
   under configuration 2 depends on whether somebody materialized the same name under
   configuration 1 before — the cache serves the stale form (finding F5; values are unaffected,
   C09_values_history_free) *)
Theorem C09_lower_context_free_refuted :
  exists (lower1 : cfg -> name -> name) (den : name -> positive),
  (forall k n, den (lower1 k n) = den n) /\
  exists (n : name) (k1 k2 : cfg),
  let fresh := run lower1 (fun x => x) [Build n; Materialize 0 k2 false [Top; Top]] init in
  let after := run lower1 (fun x => x)
                 [Build n; Materialize 0 k1 false [Top; Top]; Build n; Materialize 1 k2 false [Top; Top]] init in
  option_map c_low (nth_error (st_colls fresh) 0) = Some (Some 20%positive) /\
  option_map c_low (nth_error (st_colls after) 1) = Some (Some 10%positive).
Proof.
  exists w_lower1, w_den. split; [exact w_lower_sound|].
  exists 5%positive, 1%positive, 2%positive. vm_compute. split; reflexivity.
Qed.

(* ---- Examples ---- *)
(* a planner table as the harness supplies it; names 1..4; 1 lowers to 2 under cfg 1, to 3 under cfg 2 *)
Definition ex_lt : table := [ (1, 1, 2); (1, 2, 2); (2, 1, 3); (2, 3, 3); (1, 4, 4) ]%positive.

Example C09_ex_history :
  let st := run (lower1_of ex_lt) (simp_of [])
              [ Build 1; Materialize 0 1 true [Req 4; Top; Top]; Build 1; Evict [4];
                Materialize 1 2 true [Top; Top]; Drop 0; Evict [1] ]%positive init in
  st_cache st = [(2, 2)]%positive /\
  map c_low (st_colls st) = [None; Some 2%positive].
Proof. vm_compute. split; reflexivity. Qed.

Example C09_ex_replay :
  history_ok ex_lt []
    [ (Build 1, [], None, []);
      (Materialize 0 1 true [Req 4; Top; Top; Gc [4]], [4; 2; 2], Some 2, [(1, 2); (2, 2)]) ]%positive = true.
Proof. vm_compute. reflexivity. Qed.

Print Assumptions C09_plan_is_layout_sequence_for_every_config.
Print Assumptions C09_unified_layout_same_axis_for_every_policy.
Print Assumptions C09_rechunk_planner_config_free.
Print Assumptions C09_cache_invariant.
Print Assumptions C09_values_history_free.
Print Assumptions C09_values_config_free.
Print Assumptions C09_lower_context_free_refuted.
