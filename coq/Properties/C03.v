(* C03 — Advertised shape, dtype and chunks are what the graph produces.
   Per-axis core: the chunks a basic slice advertises are exactly the lengths of the
   pieces its graph produces (C13), and every rechunk plan step is a layout of the shape (C15). *)
From DA Require Import PyBase Slicing Slice1dFacts Rechunk RechunkFacts.
Open Scope Z_scope.

Theorem C03_slice_chunks_are_piece_lengths :
  forall dim lengths idx, valid_chunks lengths dim -> normalized idx dim -> idx <> colon ->
  new_blockdim dim lengths idx =
  map (fun e => Z.of_nat (length (abs_positions lengths e))) (slice_1d_slice dim lengths idx).
Proof. exact new_blockdim_lengths. Qed.

Theorem C03_rechunk_blocks_have_new_sizes :
  forall old new, nonneg old -> nonneg new -> old <> [] -> zsum old = zsum new ->
  length (intersect_1d old new) = length new /\
  forall j pieces, nth_error (intersect_1d old new) j = Some pieces ->
    pieces <> [] /\ Forall (piece_in_bounds old) pieces /\
    concat (map (piece_positions old) pieces) = seqZ (cum new j) (cum new (S j)).
Proof. exact intersect_1d_spec. Qed.

Print Assumptions C03_slice_chunks_are_piece_lengths.
Print Assumptions C03_rechunk_blocks_have_new_sizes.
