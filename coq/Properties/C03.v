(* C03 — Advertised shape, dtype and chunks are what the graph produces.
   Per-axis core: the chunks a basic slice advertises are exactly the lengths of the
   pieces its graph produces (C13), and every rechunk plan step is a layout of the shape (C15).
   Expression level: every modelled rewrite keeps the advertised shape, and the rechunk
   rewrites keep the advertised chunks. *)
From DA Require Import PyBase Slicing Slice1dFacts Rechunk RechunkFacts NdArray NdArrayFacts ExprRules ExprRulesFacts.
Open Scope Z_scope.

Theorem C03_slice_chunks_are_piece_lengths :
  forall dim lengths idx, valid_chunks lengths dim -> normalized idx dim -> idx <> colon ->
  new_blockdim dim lengths idx =
  map (fun e => Z.of_nat (length (abs_positions lengths e))) (slice_1d_slice dim lengths idx).
Proof. exact new_blockdim_lengths. Qed.

Theorem C03_rechunk_blocks_have_new_sizes :
  forall old new, nonneg old -> nonneg new -> old <> [] -> zsum old = zsum new ->
  length (intersect_1d old new) = length new /\
  forall j pieces, nth_error (intersect_1d old new) j = Some pieces ->
    pieces <> [] /\ Forall (piece_in_bounds old) pieces /\
    concat (map (piece_positions old) pieces) = seqZ (cum new j) (cum new (S j)).
Proof. exact intersect_1d_spec. Qed.

(* the advertised shape of an expression is the shape of the array it denotes *)
Theorem C03_advertised_shape_is_denoted_shape :
  forall (V : Type) leafv constv fop inj e, shape (den V leafv constv fop inj e) = eshape e.
Proof. exact den_shape. Qed.

(* every modelled rewrite keeps the advertised shape *)
Theorem C03_rewrites_keep_advertised_shape :
  forall before after, wfb before = true ->
  (rule_slice_down before = Some after \/ rule_slice_elemwise before = Some after \/
   rule_slice_transpose before = Some after \/ rule_slice_arange before = Some after \/
   rule_transpose_transpose before = Some after \/ rule_transpose_identity before = Some after \/
   rule_rechunk_rechunk before = Some after \/ rule_rechunk_noop before = Some after) ->
  eshape after = eshape before.
Proof.
  intros before after Hw H.
  set (D := den unit (fun _ _ => tt) (fun _ => tt) (fun _ _ => tt) (fun _ => tt)).
  assert (aeq (D before) (D after)) as [Hs _].
  { destruct H as [H|[H|[H|[H|[H|[H|[H|H]]]]]]].
    - apply (rule_slice_down_sound _ _ _ _ _ _ _ H Hw).
    - apply (rule_slice_elemwise_sound _ _ _ _ _ _ _ H Hw).
    - apply (rule_slice_transpose_sound _ _ _ _ _ _ _ H Hw).
    - apply (rule_slice_arange_sound _ _ _ _ _ _ _ H Hw).
    - apply (rule_transpose_transpose_sound _ _ _ _ _ _ _ H Hw).
    - apply (rule_transpose_identity_sound _ _ _ _ _ _ _ H Hw).
    - apply (rule_rechunk_rechunk_sound _ _ _ _ _ _ _ H).
    - apply (rule_rechunk_noop_sound _ _ _ _ _ _ _ H). }
  unfold D in Hs. rewrite !den_shape in Hs. symmetry. exact Hs.
Qed.

(* the rechunk rewrites keep the advertised chunks (the model declines the one case where the
   implementation does not: an inner balance=True re-balances the outer target, finding C02-A) *)
Theorem C03_rechunk_rewrites_keep_advertised_chunks :
  forall before after,
  (rule_rechunk_rechunk before = Some after \/ rule_rechunk_noop before = Some after) ->
  echunks after = echunks before.
Proof.
  intros before after [H|H].
  - apply (rule_rechunk_rechunk_sound unit (fun _ _ => tt) (fun _ => tt) (fun _ _ => tt) (fun _ => tt) _ _ H).
  - apply (rule_rechunk_noop_sound unit (fun _ _ => tt) (fun _ => tt) (fun _ _ => tt) (fun _ => tt) _ _ H).
Qed.

Print Assumptions C03_slice_chunks_are_piece_lengths.
Print Assumptions C03_rechunk_blocks_have_new_sizes.
Print Assumptions C03_advertised_shape_is_denoted_shape.
Print Assumptions C03_rewrites_keep_advertised_shape.
Print Assumptions C03_rechunk_rewrites_keep_advertised_chunks.
