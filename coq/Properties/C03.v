(* C03 — Advertised shape, dtype and chunks are what the graph produces.
   Per-axis core: the chunks a basic slice advertises are exactly the lengths of the
   pieces its graph produces (C13), and every rechunk plan step is a layout of the shape (C15).
   Expression level: every modelled rewrite keeps the advertised shape, and the rechunk
   rewrites keep the advertised chunks.
   API level (ProgChunks.v): the ADVERTISED-CHUNKS RULE pchunks of the program language of ProgSem.v — what
   `.chunks` announces for the result of every operation as a function of the operands' chunks (leaf chunks and the
   unified layouts of differently chunked operands are oracle arguments) — always yields a layout of the advertised
   shape (= the computed shape); closed forms per operation.  harness/c03.py `fam_chunk_rule` compares pchunks with
   the chunks dask_array advertises at every node of generated programs. *)
From DA Require Import PyBase Slicing Slice1dFacts Rechunk RechunkFacts NdArray NdArrayFacts ExprRules ExprRulesFacts.
From DA Require Import ProgSem ProgChunks ProgChunksFacts.
Open Scope Z_scope.

Theorem C03_slice_chunks_are_piece_lengths :
  forall dim lengths idx, valid_chunks lengths dim -> normalized idx dim -> idx <> colon ->
  new_blockdim dim lengths idx =
  map (fun e => Z.of_nat (length (abs_positions lengths e))) (slice_1d_slice dim lengths idx).
Proof. exact new_blockdim_lengths. Qed.

Theorem C03_rechunk_blocks_have_new_sizes :
  forall old new, nonneg old -> nonneg new -> old <> [] -> zsum old = zsum new ->
  length (intersect_1d old new) = length new /\
  forall j pieces, nth_error (intersect_1d old new) j = Some pieces ->
    pieces <> [] /\ Forall (piece_in_bounds old) pieces /\
    concat (map (piece_positions old) pieces) = seqZ (cum new j) (cum new (S j)).
Proof. exact intersect_1d_spec. Qed.

(* the advertised shape of an expression is the shape of the array it denotes *)
Theorem C03_advertised_shape_is_denoted_shape :
  forall (V : Type) leafv constv fop inj e, shape (den V leafv constv fop inj e) = eshape e.
Proof. exact den_shape. Qed.

(* every modelled rewrite keeps the advertised shape *)
Theorem C03_rewrites_keep_advertised_shape :
  forall before after, wfb before = true ->
  (rule_slice_down before = Some after \/ rule_slice_elemwise before = Some after \/
   rule_slice_transpose before = Some after \/ rule_slice_arange before = Some after \/
   rule_transpose_transpose before = Some after \/ rule_transpose_identity before = Some after \/
   rule_rechunk_rechunk before = Some after \/ rule_rechunk_noop before = Some after) ->
  eshape after = eshape before.
Proof.
  intros before after Hw H.
  set (D := den unit (fun _ _ => tt) (fun _ => tt) (fun _ _ => tt) (fun _ => tt)).
  assert (aeq (D before) (D after)) as [Hs _].
  { destruct H as [H|[H|[H|[H|[H|[H|[H|H]]]]]]].
    - apply (rule_slice_down_sound _ _ _ _ _ _ _ H Hw).
    - apply (rule_slice_elemwise_sound _ _ _ _ _ _ _ H Hw).
    - apply (rule_slice_transpose_sound _ _ _ _ _ _ _ H Hw).
    - apply (rule_slice_arange_sound _ _ _ _ _ _ _ H Hw).
    - apply (rule_transpose_transpose_sound _ _ _ _ _ _ _ H Hw).
    - apply (rule_transpose_identity_sound _ _ _ _ _ _ _ H Hw).
    - apply (rule_rechunk_rechunk_sound _ _ _ _ _ _ _ H).
    - apply (rule_rechunk_noop_sound _ _ _ _ _ _ _ H). }
  unfold D in Hs. rewrite !den_shape in Hs. symmetry. exact Hs.
Qed.

(* the rechunk rewrites keep the advertised chunks (the model declines the one case where the
   implementation does not: an inner balance=True re-balances the outer target, finding C02-A) *)
Theorem C03_rechunk_rewrites_keep_advertised_chunks :
  forall before after,
  (rule_rechunk_rechunk before = Some after \/ rule_rechunk_noop before = Some after) ->
  echunks after = echunks before.
Proof.
  intros before after [H|H].
  - apply (rule_rechunk_rechunk_sound unit (fun _ _ => tt) (fun _ => tt) (fun _ _ => tt) (fun _ => tt) _ _ H).
  - apply (rule_rechunk_noop_sound unit (fun _ _ => tt) (fun _ => tt) (fun _ _ => tt) (fun _ => tt) _ _ H).
Qed.


(* ====================================================================== *)
(* the advertised-chunks rule of the API (ProgChunks.pchunks) *)

(* MAIN: for ALL programs and ALL oracles that return, at every node, a layout of that node's advertised shape:
   the advertised chunks are a layout of the advertised shape — per axis the block sizes sum to the axis length,
   no block size is negative, every axis has at least one block.  (pchunks is None on programs containing take,
   reshape, a non-explicit rechunk specification or repeat > 3, and where the implementation raises.) *)
Theorem C03_advertised_chunks_are_a_layout :
  forall p orc cs s,
  orc_wf orc p -> pchunks orc p = Some cs -> pshape p = Some s ->
  map zsum cs = s /\ Forall (fun c => Forall (fun x => 0 <= x) c /\ c <> []) cs.
Proof. exact pchunks_layout. Qed.

(* ... and of the shape of the COMPUTED value (ProgSem.eval, = NumPy's result by C01's correspondence) *)
Theorem C03_advertised_chunks_lay_out_computed_shape :
  forall p orc cs a,
  orc_wf orc p -> pchunks orc p = Some cs -> eval p = Some a ->
  map zsum cs = nshape a /\ Forall (fun c => Forall (fun x => 0 <= x) c /\ c <> []) cs.
Proof. exact pchunks_layout_eval. Qed.

(* the oracle hypothesis is decidable: the boolean check the harness evaluates on the chunks dask_array advertises *)
Theorem C03_oracle_check_sound :
  forall p orc, orc_wf_b orc p = true -> orc_wf orc p.
Proof. exact orc_wf_b_sound. Qed.

(* the local rules: every unary / n-ary operation maps layouts of the operand shapes to a layout of the result shape *)
Theorem C03_unary_rule_keeps_layouts :
  forall o ov cs s r,
  lay_ok cs s -> un_ok o s = true -> lay_ok ov (un_shape o s) ->
  un_chunks o ov cs = Some r -> lay_ok r (un_shape o s).
Proof. exact un_chunks_ok. Qed.

Theorem C03_nary_rule_keeps_layouts :
  forall o ov css ss r,
  Forall2 lay_ok css ss -> n_ok o ss = true -> lay_ok ov (n_shape o ss) ->
  n_chunks o ov css = Some r -> lay_ok r (n_shape o ss).
Proof. exact n_chunks_ok. Qed.

(* --- closed forms --- *)
(* slicing: along a sliced axis the advertised chunk sizes are the numbers of positions the blocks of the operand
   contribute (the plan of _slice_1d, in output order; C13), and those positions are exactly NumPy's x[sl] *)
Theorem C03_slice_rule_chunks_are_piece_lengths :
  forall sl ix db rest,
  (Forall (fun x => 0 <= x) db /\ db <> []) -> step_of sl <> 0 ->
  let d := zsum db in
  let idx := normalize_slice sl d in
  slice_chunks (ISlice sl :: ix) (db :: rest)
    = (if pslice_eqb idx colon then db
       else map (fun e => Z.of_nat (length (abs_positions db e))) (slice_1d_slice d db idx))
      :: slice_chunks ix rest
  /\ plan_positions db (slice_1d_slice d db idx) = sel sl d.
Proof. exact slice_chunks_axis_exact. Qed.

(* transpose: axis i of the result carries the chunks of axis axes[i]; the inverse permutation restores them *)
Theorem C03_transpose_rule :
  forall orc axes p cs,
  pchunks (sub orc 0) p = Some cs ->
  pchunks orc (PT axes p) = Some (map (fun j => nth j cs []) axes).
Proof. exact transpose_chunks_exact. Qed.

Theorem C03_transpose_rule_inverse :
  forall axes ov ov' cs r,
  is_permb axes (length cs) = true ->
  un_chunks (OT axes) ov cs = Some r -> un_chunks (OT (inv_axes axes)) ov' r = Some cs.
Proof. exact transpose_chunks_inverse. Qed.

(* concatenate of non-empty parts: along the axis, the parts' chunks one after the other, whatever the oracle *)
Theorem C03_concat_rule_appends_along_axis :
  forall ax ov p q rest r,
  (ax < length p)%nat -> Forall (fun c => lsize c <> 0) (p :: q :: rest) ->
  concat_chunks ax ov (p :: q :: rest) = Some r ->
  nth ax r [] = concat (map (fun c => nth ax c []) (p :: q :: rest)).
Proof. exact concat_chunks_axis_exact. Qed.

(* flip: the chunks along the axis are the piece lengths of the plan of x[::-1], whose positions are d-1, ..., 0 *)
Theorem C03_flip_rule :
  forall db rest,
  (Forall (fun x => 0 <= x) db /\ db <> []) -> let d := zsum db in
  slice_chunks (flip_index 0) (db :: rest) = new_blockdim d db rev_slice :: rest /\
  new_blockdim d db rev_slice = map (fun e => Z.of_nat (length (abs_positions db e))) (slice_1d_slice d db rev_slice) /\
  plan_positions db (slice_1d_slice d db rev_slice) = zrange (d - 1) (-1) (-1).
Proof. exact flip_chunks_exact. Qed.

(* "flip = the same chunks reversed" is FALSE of the faithful rule when a chunk has size 0 (the slice drops empty
   blocks): da.flip(da.from_array(np.arange(5), chunks=((0,3,0,2),)), 0).chunks == ((2, 3),)  — replayed, agrees *)
Theorem C03_flip_is_reversed_chunks_refuted :
  exists db, (Forall (fun x => 0 <= x) db /\ db <> []) /\
             slice_chunks (flip_index 0) [db] <> [rev db].
Proof. exact flip_is_reversed_chunks_refuted. Qed.

(* element-wise on one array operand (unary ufuncs, Python scalars) or on operands that agree: no oracle *)
Theorem C03_elementwise_rule_deterministic :
  forall ov cs,
  elem_chunks ov [cs] = cs /\ elem_chunks ov [cs; []] = cs /\ elem_chunks ov [[]; cs] = cs /\ elem_chunks ov [cs; cs] = cs.
Proof. exact elem_chunks_deterministic. Qed.

(* reductions: a reduced axis is one block of size 1 with keepdims and is dropped without *)
Theorem C03_reduce_rule :
  forall f axes kd ov cs,
  un_chunks (OReduce f axes kd) ov cs =
  Some (let l := red_axes axes (cshape cs) in if kd then red_kchunks 0 l cs else red_dchunks 0 l cs).
Proof. exact reduce_chunks_exact. Qed.

(* --- non-vacuity: concrete programs, oracle tables replayed against dask_array --- *)
(* concatenate([x[1::2], arange(3) + 1]) with x = from_array(arange(7), chunks=(3,4)), arange chunks (2,1) *)
Definition C03_ex_p1 : prog :=
  PConcat 0 [PSlice [ISlice (mkslice (Some 1) None (Some 2))] (PSrc [7] [0;1;2;3;4;5;6]); PElem EAdd [PArange 3; PConst 1]].
Definition C03_ex_tbl1 : list (list nat * layout) :=
  [ ([]%nat, [[1;2;2;1]]); ([0]%nat, [[1;2]]); ([0;0]%nat, [[3;4]]); ([1]%nat, [[2;1]]); ([1;0]%nat, [[2;1]]) ].
Example C03_ex_hypotheses_hold :
  orc_wf_b (orc_of C03_ex_tbl1) C03_ex_p1 = true /\
  pchunks (orc_of C03_ex_tbl1) C03_ex_p1 = Some [[1;2;2;1]] /\ pshape C03_ex_p1 = Some [6].
Proof. vm_compute. repeat split. Qed.

(* (a + b)[:, ::-1].T.sum(axis=0, keepdims=True) with a chunks ((2,),(1,2)), b = ones chunks ((1,1),(3,)):
   the element-wise node reads the oracle (dask_array unifies to ((1,1),(1,2))) *)
Definition C03_ex_p2 : prog :=
  PReduce RSum (Some [0%nat]) true (PT [1;0]%nat (PFlip 1 (PElem EAdd [PSrc [2;3] [1;2;3;4;5;6]; POnes [2;3]]))).
Definition C03_ex_tbl2 : list (list nat * layout) :=
  [ ([]%nat, [[1];[1;1]]); ([0]%nat, [[2;1];[1;1]]); ([0;0]%nat, [[1;1];[2;1]]); ([0;0;0]%nat, [[1;1];[1;2]]);
    ([0;0;0;0]%nat, [[2];[1;2]]); ([0;0;0;1]%nat, [[1;1];[3]]) ].
Example C03_ex_oracle_node :
  orc_wf_b (orc_of C03_ex_tbl2) C03_ex_p2 = true /\
  pchunks (orc_of C03_ex_tbl2) C03_ex_p2 = Some [[1];[1;1]] /\ pshape C03_ex_p2 = Some [1;2] /\
  nodes_ok C03_ex_tbl2 C03_ex_p2 [([]%nat, true); ([0]%nat, true); ([0;0]%nat, true); ([0;0;0]%nat, true)] = true.
Proof. vm_compute. repeat split. Qed.

(* the rules of roll / repeat / diff on concrete layouts *)
Example C03_ex_roll_repeat_diff :
  un_chunks (ORoll 2 0) [] [[3;4]] = Some [[2;3;2]] /\
  un_chunks (ORepeat 3 0) [] [[3;4;1]] = Some [[6;3;6;6;3]] /\
  un_chunks (ODiff 0) [[2;4]] [[3;4]] = Some [[2;4]] /\
  slice_chunks (flip_index 0) [[1;3;2]] = [[2;3;1]].
Proof. vm_compute. repeat split. Qed.

Print Assumptions C03_slice_chunks_are_piece_lengths.
Print Assumptions C03_rechunk_blocks_have_new_sizes.
Print Assumptions C03_advertised_shape_is_denoted_shape.
Print Assumptions C03_rewrites_keep_advertised_shape.
Print Assumptions C03_rechunk_rewrites_keep_advertised_chunks.
Print Assumptions C03_advertised_chunks_are_a_layout.
Print Assumptions C03_advertised_chunks_lay_out_computed_shape.
Print Assumptions C03_oracle_check_sound.
Print Assumptions C03_unary_rule_keeps_layouts.
Print Assumptions C03_nary_rule_keeps_layouts.
Print Assumptions C03_slice_rule_chunks_are_piece_lengths.
Print Assumptions C03_transpose_rule.
Print Assumptions C03_transpose_rule_inverse.
Print Assumptions C03_concat_rule_appends_along_axis.
Print Assumptions C03_flip_rule.
Print Assumptions C03_flip_is_reversed_chunks_refuted.
Print Assumptions C03_elementwise_rule_deterministic.
Print Assumptions C03_reduce_rule.
