(* C13 — Slice algebra helpers are exact.
   Statements only: every theorem is closed by `exact <lemma proved in theories/>`.
   sel s n = the positions NumPy's x[s] selects on an axis of length n (PyBase.v);
   pick l js = apply a second selection js to the list of positions l. *)
From DA Require Import PyBase Slicing NormalizeFacts FuseFacts Slice1dFacts.
Open Scope Z_scope.

(* --- slice normalization preserves the selected positions (all signs/steps) --- *)
Theorem C13_normalize_slice_sel :
  forall s n, 0 <= n -> step_of s <> 0 -> sel (normalize_slice s n) n = sel s n.
Proof. exact normalize_slice_sel. Qed.

Theorem C13_normalize_slice_normalized :
  forall s dim, 0 <= dim -> step_of s <> 0 -> normalized (normalize_slice s dim) dim.
Proof. exact normalize_slice_normalized. Qed.

(* --- fusing two indices selects what applying them one after the other selects --- *)
Theorem C13_fuse_slice_slice_exact :
  forall a b c n, 0 <= n -> step_of a <> 0 -> step_of b <> 0 ->
  fuse_slice_ss a b = Some c ->
  pick (sel a n) (sel b (slice_len a n)) = sel c n.
Proof. exact fuse_slice_ss_exact. Qed.

Theorem C13_fuse_slice_int_exact :
  forall a i p n, 0 <= n -> step_of a <> 0 -> fuse_slice_si a i = Some p ->
  0 <= i < slice_len a n -> nth (Z.to_nat i) (sel a n) 0 = p.
Proof. exact fuse_slice_si_exact. Qed.

(* fuse_slice declines (NotImplementedError) exactly on negative start/stop/step *)
Theorem C13_fuse_declines_only_negative :
  forall a b, fuse_slice_ss a b = None <-> has_negative a \/ has_negative b.
Proof. exact fuse_declines_iff. Qed.

(* index tuples: element-wise exactness (no None / integer entries in a) *)
Theorem C13_fuse_tuple_exact :
  forall a b c ns,
  length a = length b -> Forall is_slice a -> Forall (fun y => y <> INone) b ->
  length ns = length a -> Forall (fun n => 0 <= n) ns ->
  Forall (fun x => forall s, x = ISlice s -> step_of s <> 0) a ->
  Forall (fun y => forall t, y = ISlice t -> step_of t <> 0) b ->
  fuse_tuple a b = Some c ->
  length c = length a /\
  forall i, (i < length a)%nat ->
    elem_spec (nth i a INone) (nth i b INone) (nth i c INone) (nth i ns 0).
Proof. exact fuse_tuple_exact. Qed.

(* --- _compose_slices: exact for the unit steps its only caller passes ... --- *)
Theorem C13_compose_slices_unit_exact :
  forall outer inner n, 0 <= n ->
  (s_step outer = None \/ s_step outer = Some 1) ->
  (s_step inner = None \/ s_step inner = Some 1) ->
  sel (compose_slices outer inner n) n = pick (sel outer n) (sel inner (slice_len outer n)).
Proof. exact compose_slices_unit_exact. Qed.

(* ... and NOT exact for arbitrary steps (known finding F6; unreachable today) *)
Theorem C13_compose_slices_general_refuted :
  exists outer inner n, 0 <= n /\
    sel (compose_slices outer inner n) n <> pick (sel outer n) (sel inner (slice_len outer n)).
Proof. exact compose_slices_general_refuted. Qed.

(* --- the per-block slice plan partitions exactly the selected positions, in order,
       for every axis length, every chunking (zero-length chunks included) and every
       normalized slice of either sign --- *)
Theorem C13_slice1d_partition :
  forall dim lengths idx, valid_chunks lengths dim -> normalized idx dim ->
  plan_positions lengths (slice_1d_slice dim lengths idx) = sel idx dim.
Proof. exact slice_1d_partition. Qed.

(* every piece lies inside its block, no block is listed twice *)
Theorem C13_slice1d_pieces_in_block :
  forall dim lengths idx, valid_chunks lengths dim -> lengths <> [] -> normalized idx dim ->
  NoDup (map fst (slice_1d_slice dim lengths idx)) /\
  Forall (in_block lengths) (slice_1d_slice dim lengths idx).
Proof. exact slice_1d_pieces_in_block. Qed.

(* resulting chunk sizes = per-block piece lengths, in output order *)
Theorem C13_new_blockdim_lengths :
  forall dim lengths idx, valid_chunks lengths dim -> normalized idx dim -> idx <> colon ->
  new_blockdim dim lengths idx =
  map (fun e => Z.of_nat (length (abs_positions lengths e))) (slice_1d_slice dim lengths idx).
Proof. exact new_blockdim_lengths. Qed.

Theorem C13_new_blockdim_sum :
  forall dim lengths idx, valid_chunks lengths dim -> normalized idx dim ->
  zsum (new_blockdim dim lengths idx) = slice_len idx dim.
Proof. exact new_blockdim_sum. Qed.

(* --- non-vacuity: concrete non-trivial inputs meeting the hypotheses --- *)
Example C13_ex_negative_step_zero_chunk :
  valid_chunks [2; 0; 2; 3] 7 /\
  normalize_slice (mkslice (Some (-2)) (Some (-9)) (Some (-2))) 7 = mkslice (Some 5) None (Some (-2)) /\
  plan_positions [2; 0; 2; 3] (slice_1d_slice 7 [2; 0; 2; 3] (mkslice (Some 5) None (Some (-2)))) = [5; 3; 1].
Proof. repeat split; try (vm_compute; reflexivity). repeat constructor; lia. Qed.

Example C13_ex_F8_repaired :   (* x[-7::-1] on a length-5 axis selects nothing *)
  sel (normalize_slice (mkslice (Some (-7)) None (Some (-1))) 5) 5 = [] /\
  sel (mkslice (Some (-7)) None (Some (-1))) 5 = [].
Proof. split; vm_compute; reflexivity. Qed.

Print Assumptions C13_normalize_slice_sel.
Print Assumptions C13_normalize_slice_normalized.
Print Assumptions C13_fuse_slice_slice_exact.
Print Assumptions C13_fuse_slice_int_exact.
Print Assumptions C13_fuse_declines_only_negative.
Print Assumptions C13_fuse_tuple_exact.
Print Assumptions C13_compose_slices_unit_exact.
Print Assumptions C13_compose_slices_general_refuted.
Print Assumptions C13_slice1d_partition.
Print Assumptions C13_slice1d_pieces_in_block.
Print Assumptions C13_new_blockdim_lengths.
Print Assumptions C13_new_blockdim_sum.
