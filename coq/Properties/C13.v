(* C13 — Slice algebra helpers are exact.  Statements only; proofs in theories/. *)
From DA Require Import PyBase Slicing.
Open Scope Z_scope.

Example C13_placeholder_normalize_example :
  sel (normalize_slice (mkslice (Some (-3)) (Some 10) (Some 1)) 10) 10 = sel (mkslice (Some (-3)) (Some 10) (Some 1)) 10.
Proof. vm_compute. reflexivity. Qed.
Print Assumptions C13_placeholder_normalize_example.
