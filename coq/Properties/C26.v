(* C26 — xarray integration is strictly opt-in.
   The import graph is GENERATED from /repo's source on every run (translator/importgraph.py);
   the theorems below are therefore re-checked against what the code says now. *)
From Coq Require Import List NArith Arith Bool.
Import ListNotations.
From DA Require Import ImportModel.
From DA.Generated Require Import ImportGraph.


(* 1. No module of the package runs registration code when imported, whatever the import
      order: for EVERY module m, no module reachable from m through import-time imports
      calls a registration entry point at import time. *)
Theorem C26_no_import_time_registration :
  forall m, In m all_modules -> import_is_silent import_edges n_modules registering_at_import m = true.
Proof.
  apply forallb_forall. vm_compute. reflexivity.
Qed.

(* the reachable sets used above are closed under import edges (the fuel sufficed) *)
Theorem C26_closure_is_closed :
  forall m, In m all_modules -> closure_closed import_edges n_modules m = true.
Proof.
  apply forallb_forall. vm_compute. reflexivity.
Qed.

(* 2. Importing the package (or any module other than the implementation module itself and
      nothing else) does not even import the module that defines the chunk manager: it is
      reachable only from itself. *)
Theorem C26_manager_module_not_imported :
  forall m, In m all_modules -> m <> mod_xarray_impl ->
  mem mod_xarray_impl (reachable_from import_edges n_modules m) = false.
Proof.
  intros m Hin Hne.
  assert (H : forallb (fun m => N.eqb m mod_xarray_impl || negb (mem mod_xarray_impl (reachable_from import_edges n_modules m))) all_modules = true)
    by (vm_compute; reflexivity).
  rewrite forallb_forall in H. specialize (H m Hin).
  apply orb_true_iff in H. destruct H as [H | H].
  - apply N.eqb_eq in H. contradiction.
  - apply negb_true_iff in H. exact H.
Qed.

(* 3. xarray itself is imported at import time only by the implementation module *)
Theorem C26_only_impl_imports_xarray : imports_xarray_at_import = [mod_xarray_impl] \/ imports_xarray_at_import = [].
Proof. vm_compute. auto. Qed.

Print Assumptions C26_no_import_time_registration.
Print Assumptions C26_closure_is_closed.
Print Assumptions C26_manager_module_not_imported.
Print Assumptions C26_only_impl_imports_xarray.
