(* C28 — Unknown chunk sizes are resolved exactly or refused.
   Statements only; models in theories/UnknownChunks.v, proofs in theories/UnknownChunksFacts.v.

   A chunk size is [option Z] (None = np.nan).  [known_sound adv tr]: the advertised layout
   [adv] of one axis claims nothing false about the true block sizes [tr] (every advertised
   size is unknown or the true size of that block).  A guard returns [Refuse e] (the Python
   raises e) or [Proceed v].  The theorems say, guard by guard, that whenever the code
   proceeds on an axis whose sizes are unknown it leaves that axis block-for-block untouched
   (so what is advertised stays sound), and that compute_chunk_sizes / ChunksOverride
   advertise exactly the true sizes without touching the blocks.  The models are compared
   exactly with the implementation on every run of harness/c28.py (fam_unknown_model). *)
From DA Require Import PyBase Slicing Rechunk Unify UnknownChunks UnknownChunksFacts.
Open Scope Z_scope.

(* ---------------------------------------------------------------------------------- *)
(* _validate_rechunk accepts iff the ranks agree and, axis by axis, an axis with an unknown
   size (in old or new) is unchanged, and a fully known axis keeps its length *)
Theorem C28_validate_rechunk :
  forall old new,
    (validate_rechunk old new = Proceed tt <->
       Forall2 (fun od nd => if has_nan od || has_nan nd then od = nd else osum od = osum nd) old new) /\
    (validate_rechunk old new = Refuse AssertionError <-> length old <> length new).
Proof. exact validate_rechunk_full. Qed.

(* an accepted rechunk keeps the advertised layout sound: axes with unknown sizes are
   untouched (sound w.r.t. the SAME true sizes), fully known axes keep the true length *)
Theorem C28_known_sound_preserved_validate_rechunk :
  forall old new tr,
    validate_rechunk old new = Proceed tt -> known_soundN old tr ->
    Forall2 (fun nd t => known_sound nd t \/ exists n, nd = map Some n /\ zsum n = zsum t) new tr.
Proof. exact validate_rechunk_sound. Qed.

(* old_to_new: on an axis whose OLD chunks contain an unknown size the crosswalk is the
   identity (new block j = old block j, whole: slice(0, size_j or None)); on the other
   axes it is _intersect_1d of Rechunk.v *)
Theorem C28_old_to_new_unknown_axis :
  forall old new cw,
    old_to_new_u old new = Some cw ->
    length cw = length old /\
    forall k od nd, nth_error old k = Some od -> nth_error new k = Some nd ->
      (has_nan od = true ->
         nth_error cw k = Some (unknown_axis_crosswalk od) /\
         length (unknown_axis_crosswalk od) = length od /\
         forall j size, nth_error od j = Some size ->
           nth_error (unknown_axis_crosswalk od) j = Some [(Z.of_nat j, 0, size)]) /\
      (has_nan od = false ->
         exists o n, od = map Some o /\ nd = map Some n /\
                     nth_error cw k = Some (map (map lift_piece) (intersect_1d o n))).
Proof. exact old_to_new_u_full. Qed.

(* what _validate_rechunk accepts is inside the modelled domain of old_to_new *)
Theorem C28_validate_then_old_to_new_defined :
  forall old new, validate_rechunk old new = Proceed tt -> exists cw, old_to_new_u old new = Some cw.
Proof. exact validate_rechunk_old_to_new_defined. Qed.

(* plan_rechunk: with an unknown size anywhere in old (or an empty new axis) the only step
   is the requested layout — no intermediate layout is ever invented for unknown sizes;
   planning proper only sees fully known old chunks *)
Theorem C28_known_sound_preserved_plan_early_exit :
  forall old new,
    (plan_rechunk_early_exit old new = Some [new] <->
       (exists d, In d new /\ d = []) \/ (exists d, In d old /\ has_nan d = true)) /\
    (forall steps, plan_rechunk_early_exit old new = Some steps -> steps = [new]) /\
    (plan_rechunk_early_exit old new = None ->
       (exists o, old = map (map Some) o) /\ Forall (fun d => d <> []) new).
Proof. exact plan_rechunk_early_exit_full. Qed.

(* slicing: the guard proceeds iff every axis of unknown length is indexed by the literal
   full slice — which selects every position whatever the true length is, so that axis is
   untouched; anything else (ints, 0:, 1:3, ::1) on such an axis raises ValueError *)
Theorem C28_known_sound_preserved_slice_guard :
  forall chunks index,
    (slice_guard chunks index = Proceed tt <->
       forall k dim ind, nth_error chunks k = Some dim -> nth_error index k = Some ind ->
         has_nan dim = true -> ind = LSlice colon) /\
    (slice_guard chunks index = Refuse ValueError <->
       exists k dim ind, nth_error chunks k = Some dim /\ nth_error index k = Some ind /\
                         has_nan dim = true /\ ind <> LSlice colon) /\
    (forall n, 0 <= n -> sel colon n = zrange 0 n 1).
Proof. exact slice_guard_full. Qed.

(* elementwise alignment (common_blockdim, 'refine' policy / coarse_blockdim, 'auto' and
   'coarse'), for every iteration order of the set and every tie-break oracle.
   HYPOTHESIS: all operand layouts advertise the SAME true layout (their blocks align).
   Then a returned layout is one of the operands' and is sound for that true layout.
   Without the hypothesis the clause is refuted: C28_misaligned_unknown_refuted (F32). *)
Theorem C28_known_sound_preserved_common_blockdim :
  forall ds tr r,
    ds <> [] -> Forall (fun d => known_sound d tr) ds ->
    common_blockdim_u ds = Proceed r -> In r ds /\ known_sound r tr.
Proof. exact common_blockdim_u_sound. Qed.

Theorem C28_known_sound_preserved_coarse_blockdim :
  forall pick ds tr r,
    ds <> [] -> Forall (fun d => known_sound d tr) ds ->
    coarse_blockdim_u pick ds = Proceed r -> In r ds /\ known_sound r tr.
Proof. exact coarse_blockdim_u_sound. Qed.

(* with an unknown size in some operand the blockdim functions never invent a layout: they
   return one of the operands' layouts unchanged (coarse: an unknown one, all operands having
   the same number of blocks) or refuse *)
Theorem C28_blockdim_unknown_returns_operand_or_refuses :
  forall pick ds,
    (exists d, In d ds /\ has_nan d = true) ->
    (forall r, common_blockdim_u ds = Proceed r -> In r ds) /\
    ((2 <= length (odedup (filter ontrivial ds)))%nat -> common_blockdim_u ds = Refuse ValueError) /\
    (forall r, coarse_blockdim_u pick ds = Proceed r ->
       In r ds /\ has_nan r = true /\ forall d, In d ds -> length d = length r) /\
    (all_same_length ds = false -> coarse_blockdim_u pick ds = Refuse ValueError).
Proof. exact blockdim_unknown_full. Qed.

(* (after the repair of finding C28-F33) a multi-block layout with an unknown size is never unified with a different
   layout — in particular not with a known single chunk of length > 1, which would be paired whole with every block *)
Theorem C28_common_blockdim_refuses_unknown_next_to_other_layout :
  forall ds d x,
    In d ds -> ontrivial d = true -> has_nan d = true -> In x ds -> x <> d ->
    common_blockdim_u ds = Refuse ValueError.
Proof. exact common_blockdim_u_refuses_other. Qed.
Print Assumptions C28_common_blockdim_refuses_unknown_next_to_other_layout.

(* REFUTED without the alignment hypothesis (finding F32): two operands both advertising
   (nan, nan), each sound for its own true layout, same axis length, different block sizes
   ((2,1) vs (1,2)): as a set they are the single layout (nan, nan); both blockdim functions
   return it, both rechunks to it validate (no-ops) — the blocks are then combined pairwise
   and NumPy broadcasting inside the blocks yields a wrongly shaped result instead of an error:
     xv=np.array([5,6,0,7,0,0]); yv=np.array([9,0,0,9,9,0])
     x=da.from_array(xv,chunks=3); y=da.from_array(yv,chunks=3)
     (x[x>4]+y[y>4]).compute() -> [14 15 16 16]     (NumPy: [14 15 16]) *)
Theorem C28_misaligned_unknown_refuted :
  exists d1 d2 tr1 tr2 r,
    known_sound d1 tr1 /\ known_sound d2 tr2 /\ zsum tr1 = zsum tr2 /\ tr1 <> tr2 /\
    common_blockdim_u (odedup [d1; d2]) = Proceed r /\
    (forall pick, coarse_blockdim_u pick (odedup [d1; d2]) = Proceed r) /\
    validate_rechunk [d1] [r] = Proceed tt /\ validate_rechunk [d2] [r] = Proceed tt.
Proof. exact misaligned_unknown_refuted. Qed.

(* compute_chunk_sizes: if the executed blocks form a grid (the block at index loc has shape
   [tr_k[loc_k]]_k) and every axis has at least one block (forced by the proof: the Python
   reads the other axes at block 0 and raises IndexError on a zero-block axis), the computed
   chunks ARE the true sizes on every axis; ChunksOverride advertises exactly them, and its
   layer maps every block index of the grid to the same block index of the wrapped array
   (values untouched) and contains nothing else *)
Theorem C28_compute_chunk_sizes_exact :
  forall measure tr,
    Forall (fun t => t <> []) tr ->
    (forall loc, valid_loc tr loc -> measure loc = true_shape tr loc) ->
    let new_chunks := map (map Some) (compute_chunk_sizes_model measure (map (@lenZ Z) tr)) in
    compute_chunk_sizes_model measure (map (@lenZ Z) tr) = tr /\
    chunks_override_chunks new_chunks = map (map Some) tr /\
    known_soundN (chunks_override_chunks new_chunks) tr /\
    (forall p, In p (chunks_override_layer new_chunks) -> fst p = snd p) /\
    (forall idx, In (idx, idx) (chunks_override_layer new_chunks) <-> valid_loc tr idx).
Proof. exact compute_chunk_sizes_resolves. Qed.

(* ChunksOverride with still-unknown sizes: the layer is the identity on the block grid *)
Theorem C28_chunks_override_layer_identity :
  forall chunks,
    (forall p, In p (chunks_override_layer chunks) -> fst p = snd p) /\
    (forall idx, In (idx, idx) (chunks_override_layer chunks) <->
                 Forall2 (fun i d => 0 <= i < lenZ d) idx chunks).
Proof. exact chunks_override_layer_identity. Qed.

(* _chunks_match is structural equality with nan = nan; np.isnan(sum(d)) is any(isnan) *)
Theorem C28_chunks_match :
  forall a b, chunks_match a b = true <-> a = b.
Proof. exact chunks_match_eq. Qed.

Theorem C28_sum_is_nan_iff_has_nan :
  forall d, is_nan (osum d) = has_nan d.
Proof. exact is_nan_osum. Qed.

(* agreement: on fully known layouts the unknown-aware models coincide with the models of
   Rechunk.v / Unify.v (which carry the C15 / C17 theorems).  NoDup: real callers pass sets. *)
Theorem C28_agrees_old_to_new :
  forall old new, length old = length new ->
    old_to_new_u (map (map Some) old) (map (map Some) new) =
    Some (map (map (map lift_piece)) (old_to_new old new)).
Proof. exact old_to_new_u_known. Qed.

Theorem C28_agrees_common_blockdim :
  forall ds, NoDup ds -> Forall (fun d => d <> []) ds ->
    common_blockdim_u (map (map Some) ds) = of_ures (common_blockdim ds).
Proof. exact common_blockdim_u_known. Qed.

Theorem C28_agrees_coarse_blockdim :
  forall pick ds, NoDup ds -> Forall (fun d => d <> []) ds ->
    coarse_blockdim_u pick (map (map Some) ds) = of_ures (coarse_blockdim pick ds).
Proof. exact coarse_blockdim_u_known. Qed.

(* ---------------------------------------------------------------------------------- *)
(* non-vacuity *)
Example C28_ex_validate_accepts :
  validate_rechunk [[None; Some 3]; [Some 2; Some 2]] [[None; Some 3]; [Some 1; Some 3]] = Proceed tt.
Proof. vm_compute. reflexivity. Qed.
Example C28_ex_validate_refuses_moved_nan :
  validate_rechunk [[None; Some 3]] [[Some 3; None]] = Refuse ValueError.
Proof. vm_compute. reflexivity. Qed.
Example C28_ex_validate_refuses_resolving :
  validate_rechunk [[None; None]] [[Some 4]] = Refuse ValueError.
Proof. vm_compute. reflexivity. Qed.
Example C28_ex_validate_rank : validate_rechunk [[Some 1]] [[Some 1]; [Some 1]] = Refuse AssertionError.
Proof. vm_compute. reflexivity. Qed.
Example C28_ex_old_to_new :
  old_to_new_u [[None; Some 3]; [Some 2; Some 2]] [[None; Some 3]; [Some 1; Some 3]] =
  Some [[[(0, 0, None)]; [(1, 0, Some 3)]];
        [[(0, 0, Some 1)]; [(0, 1, Some 2); (1, 0, Some 2)]]].
Proof. vm_compute. reflexivity. Qed.
Example C28_ex_plan_early_exit :
  plan_rechunk_early_exit [[None; Some 3]; [Some 2; Some 2]] [[None; Some 3]; [Some 4]] =
  Some [[[None; Some 3]; [Some 4]]].
Proof. vm_compute. reflexivity. Qed.
Example C28_ex_plan_goes_on : plan_rechunk_early_exit [[Some 2; Some 2]] [[Some 4]] = None.
Proof. vm_compute. reflexivity. Qed.
Example C28_ex_slice_guard_full : slice_guard [[None; None]; [Some 2]] [LSlice colon; LInt 1] = Proceed tt.
Proof. vm_compute. reflexivity. Qed.
Example C28_ex_slice_guard_equivalent_full_slice_refused :
  slice_guard [[None; None]] [LSlice (mkslice (Some 0) None None)] = Refuse ValueError.
Proof. vm_compute. reflexivity. Qed.
Example C28_ex_slice_guard_int : slice_guard [[Some 2]; [None]] [LSlice colon; LInt 0] = Refuse ValueError.
Proof. vm_compute. reflexivity. Qed.
Example C28_ex_common_single_chunk_vs_unknown_refused :
  common_blockdim_u [[None; None]; [Some 2]] = Refuse ValueError /\ common_blockdim_u [[None; None]] = Proceed [None; None].
Proof. vm_compute. split; reflexivity. Qed.
Example C28_ex_common_refuses :
  common_blockdim_u [[None; None]; [Some 1; Some 1]] = Refuse ValueError.
Proof. vm_compute. reflexivity. Qed.
Example C28_ex_common_nan_head_keeps_first :
  common_blockdim_u [[Some 3]; [None]] = Proceed [Some 3] /\ common_blockdim_u [[None]; [Some 3]] = Proceed [None].
Proof. vm_compute. split; reflexivity. Qed.
Example C28_ex_coarse_first_unknown :
  coarse_blockdim_u 0 [[Some 1; Some 1]; [None; Some 1]; [None; None]] = Proceed [None; Some 1].
Proof. vm_compute. reflexivity. Qed.
Example C28_ex_coarse_refuses_lengths : coarse_blockdim_u 0 [[None; None]; [Some 2]] = Refuse ValueError.
Proof. vm_compute. reflexivity. Qed.
Example C28_ex_blockdim_empty_layout_stopiteration :
  common_blockdim_u [[]; [Some 3]] = Refuse StopIteration /\ coarse_blockdim_u 0 [[]; [Some 3]] = Refuse StopIteration.
Proof. vm_compute. split; reflexivity. Qed.
Example C28_ex_coarse_known_delegates :
  coarse_blockdim_u 0 [[Some 12; Some 12]; [Some 6; Some 6; Some 6; Some 6]; [Some 24]] = Proceed [Some 12; Some 12].
Proof. vm_compute. reflexivity. Qed.
Example C28_ex_common_known_delegates :
  common_blockdim_u [[Some 5; Some 2]; [Some 4; Some 3]; [Some 7]] = Proceed [Some 4; Some 1; Some 2].
Proof. vm_compute. reflexivity. Qed.
(* the soundness hypothesis is satisfiable with several, partly unknown, operands *)
Example C28_ex_sound_hypothesis :
  Forall (fun d => known_sound d [2; 0; 3]) [[None; Some 0; None]; [Some 2; None; None]; [Some 2; Some 0; Some 3]] /\
  coarse_blockdim_u 0 [[None; Some 0; None]; [Some 2; None; None]; [Some 2; Some 0; Some 3]] = Proceed [None; Some 0; None].
Proof.
  split; [|vm_compute; reflexivity].
  repeat constructor; apply known_sound_b_spec; vm_compute; reflexivity.
Qed.
(* compute_chunk_sizes on a 2 x 3 grid of blocks with true sizes (2,0) x (1,4,2) *)
Example C28_ex_compute_chunk_sizes :
  let tr := [[2; 0]; [1; 4; 2]] in
  compute_chunk_sizes_model (true_shape tr) [2; 3] = tr /\
  chunks_override_layer [[None; None]; [Some 1; Some 4; Some 2]] =
    [([0;0],[0;0]); ([0;1],[0;1]); ([0;2],[0;2]); ([1;0],[1;0]); ([1;1],[1;1]); ([1;2],[1;2])].
Proof. vm_compute. split; reflexivity. Qed.
(* ... and the hypothesis "every axis has a block" cannot be dropped: with a zero-block axis no
   block index is valid, any measure satisfies the grid hypothesis, yet the model reads block
   (j, 0) (the Python raises IndexError there) *)
Example C28_ex_compute_chunk_sizes_needs_blocks :
  (forall loc, valid_loc [[2; 5]; []] loc -> (fun _ => [9; 9]) loc = true_shape [[2; 5]; []] loc) /\
  compute_chunk_sizes_model (fun _ => [9; 9]) [2; 0] <> [[2; 5]; []].
Proof.
  split.
  - intros loc H. exfalso. inversion H as [|? ? ? ? _ H2]; subst.
    inversion H2 as [|? ? ? ? H3 _]; subst. unfold lenZ in H3. cbn in H3. lia.
  - vm_compute. intros H. discriminate H.
Qed.

Print Assumptions C28_validate_rechunk.
Print Assumptions C28_known_sound_preserved_validate_rechunk.
Print Assumptions C28_old_to_new_unknown_axis.
Print Assumptions C28_validate_then_old_to_new_defined.
Print Assumptions C28_known_sound_preserved_plan_early_exit.
Print Assumptions C28_known_sound_preserved_slice_guard.
Print Assumptions C28_known_sound_preserved_common_blockdim.
Print Assumptions C28_known_sound_preserved_coarse_blockdim.
Print Assumptions C28_blockdim_unknown_returns_operand_or_refuses.
Print Assumptions C28_misaligned_unknown_refuted.
Print Assumptions C28_compute_chunk_sizes_exact.
Print Assumptions C28_chunks_override_layer_identity.
Print Assumptions C28_chunks_match.
Print Assumptions C28_sum_is_nan_iff_has_nan.
Print Assumptions C28_agrees_old_to_new.
Print Assumptions C28_agrees_common_blockdim.
Print Assumptions C28_agrees_coarse_blockdim.
