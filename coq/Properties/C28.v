(* C28 — Unknown chunk sizes are resolved exactly or refused (placeholder). *)
From DA Require Import PyBase.
Open Scope Z_scope.
Example C28_placeholder : zsum [1;2;3] = 6. Proof. reflexivity. Qed.
Print Assumptions C28_placeholder.
