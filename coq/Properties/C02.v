(* C02 — Every optimization phase and every fired rewrite preserves values.

   The expression calculus: arrays are index functions (theories/NdArray.v), the optimizer's
   most frequently fired value-level rewrite rules are functions on a small expression syntax
   (theories/ExprRules.v, transcribed from the Python and compared with it, instance by
   instance, by harness/c02_rules.py), and each theorem below says: whenever the rule
   function maps [before] to [after], the two denote the same array (same shape, same value
   at every in-bounds index) — for all shapes, indices, chunkings, operand values and
   element-wise functions (V, leafv, constv, fop, inj are universally quantified).
   [wfb] is what construction through the public API guarantees (indices in bounds with
   non-zero steps, axes a permutation, operands broadcast-compatible, non-negative shapes, the pieces
   of a concatenation / stack agreeing off the joined axis).
   Choices of the implementation that depend on byte-cost heuristics or configuration are ORACLE
   arguments the theorems quantify over: the unified chunk layout of Elemwise._lower ([target]) and the
   tasks/p2p method choice of Rechunk._lower ([choose_p2p]); the byte limit of the eager NumPy copy
   ([limit]) likewise. *)
From DA Require Import PyBase Slicing FuseFacts NdArray ExprRules ExprRulesFacts ExprRulesFacts2.
Open Scope Z_scope.

(* the Slice(Slice(x)) -> Slice(x) rule, one axis: the fused index selects what applying the
   two indices one after the other selects, on every axis length *)
Theorem C02_slice_slice_rule :
  forall a b c n, 0 <= n -> step_of a <> 0 -> step_of b <> 0 ->
  fuse_slice_ss a b = Some c ->
  pick (sel a n) (sel b (slice_len a n)) = sel c n.
Proof. exact fuse_slice_ss_exact. Qed.

Section Rules.
  Variable V : Type.
  Variable leafv : Z -> list Z -> V.
  Variable constv : Z -> V.
  Variable fop : Z -> list V -> V.
  Variable inj : Z -> V.
  Notation den := (den V leafv constv fop inj).

  (* R2  SliceSlicesIntegers._simplify_down: Slice(x, all colon) -> x *)
  Theorem C02_rule_slice_identity_sound :
    forall before after, rule_slice_identity before = Some after -> wfb before = true ->
    aeq (den before) (den after).
  Proof. exact (rule_slice_identity_sound V leafv constv fop inj). Qed.

  (* R1  SliceSlicesIntegers._simplify_down: Slice(Slice(x, a), b) -> Slice(x, normalize(fuse_slice(a, b))),
     N axes, integers allowed in both a and b *)
  Theorem C02_rule_slice_slice_sound :
    forall before after, rule_slice_slice before = Some after -> wfb before = true ->
    aeq (den before) (den after).
  Proof. exact (rule_slice_slice_sound V leafv constv fop inj). Qed.

  (* the whole hook: identity first, then fusion *)
  Theorem C02_rule_slice_down_sound :
    forall before after, rule_slice_down before = Some after -> wfb before = true ->
    aeq (den before) (den after).
  Proof. exact (rule_slice_down_sound V leafv constv fop inj). Qed.

  (* R3  Elemwise._accept_slice: Slice(Elemwise(op, args), ix) -> Elemwise(op, arg_i[ix_i] ...),
     n-ary, NumPy broadcasting, every operand re-sliced through the public __getitem__ *)
  Theorem C02_rule_slice_elemwise_sound :
    forall before after, rule_slice_elemwise before = Some after -> wfb before = true ->
    aeq (den before) (den after).
  Proof. exact (rule_slice_elemwise_sound V leafv constv fop inj). Qed.

  (* R4  Transpose._accept_slice: Slice(Transpose(x, axes), ix) -> Transpose(x[ix permuted], axes'), where integer
     indices drop axes and axes' renumbers the remaining ones (no transposition node when axes' is the identity
     or at most one axis remains) *)
  Theorem C02_rule_slice_transpose_sound :
    forall before after, rule_slice_transpose before = Some after -> wfb before = true ->
    aeq (den before) (den after).
  Proof. exact (rule_slice_transpose_sound V leafv constv fop inj). Qed.

  (* R8  Arange._accept_slice: Slice(Arange(start, step, count), [s]) -> Arange(start + a*step, step*k, len) *)
  Theorem C02_rule_slice_arange_sound :
    forall before after, rule_slice_arange before = Some after -> wfb before = true ->
    aeq (den before) (den after).
  Proof. exact (rule_slice_arange_sound V leafv constv fop inj). Qed.

  (* R7  ExpandDims._accept_slice: Slice(ExpandDims(x, axes), ix) -> ExpandDims(x[ix without the expanded axes], axes'):
     integers on expanded axes remove them, non-empty slices keep them, every integer shifts the later expanded axes.
     A negative-step slice that sits on an expanded axis does not start below the axis (xnormb: its start is not
     clipped to the -1 sentinel by slice.indices(1)), which every slice produced by normalize_slice satisfies; without
     this hypothesis the rule function is not sound, see
     C02_rule_slice_expand_dims_unnormalized_refuted. *)
  Theorem C02_rule_slice_expand_dims_sound :
    forall before after, rule_slice_expand_dims before = Some after -> wfb before = true ->
    (forall x axes ix o, before = ESlice (EExpandDims x axes) ix o -> xnormb axes 0 ix = true) ->
    aeq (den before) (den after).
  Proof. exact (rule_slice_expand_dims_sound V leafv constv fop inj). Qed.

  (* R9  FromArray._accept_slice: Slice(FromArray(src, region), ix) -> FromArray(src', region') [ [0, :, ..] ]:
     the slice becomes the region of the read (composed with an existing region by _compose_slices), a small NumPy
     source is sliced eagerly (src' = src[region], any byte limit), integers are read as size-1 regions and
     extracted by a trailing [0].  The integers of a slice node are non-negative (normalize_index posifies them);
     without that hypothesis the rule function is not sound, see C02_rule_slice_fromarray_negative_int_refuted. *)
  Theorem C02_rule_slice_fromarray_sound :
    forall limit before after, rule_slice_fromarray limit before = Some after -> wfb before = true ->
    (forall y ix o, before = ESlice y ix o -> ints_nonnegb ix = true) ->
    aeq (den before) (den after).
  Proof. exact (rule_slice_fromarray_sound V leafv constv fop inj). Qed.

  (* Rechunk(FromArray(ndarray, c1), c2) -> FromArray(ndarray, c2) *)
  Theorem C02_rule_rechunk_fromarray_sound :
    forall before after, rule_rechunk_fromarray before = Some after ->
    aeq (den before) (den after) /\ echunks after = echunks before.
  Proof. exact (rule_rechunk_fromarray_sound V leafv constv fop inj). Qed.

  (* Rechunk(Elemwise(op, args), c) -> Elemwise(op, arg.rechunk(c_arg) ..) *)
  Theorem C02_rule_rechunk_elemwise_sound :
    forall before after, rule_rechunk_elemwise before = Some after -> aeq (den before) (den after).
  Proof. exact (rule_rechunk_elemwise_sound V leafv constv fop inj). Qed.

  (* the whole Transpose._simplify_down hook, including Transpose(Elemwise(args)) -> Elemwise(Transpose(arg) ..) *)
  Theorem C02_rule_transpose_down_sound :
    forall before after, rule_transpose_down before = Some after -> wfb before = true ->
    aeq (den before) (den after).
  Proof. exact (rule_transpose_down_sound V leafv constv fop inj). Qed.

  (* R5  Transpose._simplify_down: Transpose(Transpose(x, p), q) -> Transpose(x, p∘q); identity removal *)
  Theorem C02_rule_transpose_transpose_sound :
    forall before after, rule_transpose_transpose before = Some after -> wfb before = true ->
    aeq (den before) (den after).
  Proof. exact (rule_transpose_transpose_sound V leafv constv fop inj). Qed.

  Theorem C02_rule_transpose_identity_sound :
    forall before after, rule_transpose_identity before = Some after -> wfb before = true ->
    aeq (den before) (den after).
  Proof. exact (rule_transpose_identity_sound V leafv constv fop inj). Qed.

  (* R6  Rechunk(Rechunk(x, c1), c2) -> Rechunk(x, c2);  Rechunk(x, x.chunks) -> x:
     same array, and the advertised chunks are those of [before] *)
  Theorem C02_rule_rechunk_rechunk_sound :
    forall before after, rule_rechunk_rechunk before = Some after ->
    aeq (den before) (den after) /\ echunks after = echunks before.
  Proof. exact (rule_rechunk_rechunk_sound V leafv constv fop inj). Qed.

  Theorem C02_rule_rechunk_noop_sound :
    forall before after, rule_rechunk_noop before = Some after ->
    aeq (den before) (den after) /\ echunks after = echunks before.
  Proof. exact (rule_rechunk_noop_sound V leafv constv fop inj). Qed.

  (* the public __getitem__ (normalize_index + all-colon shortcut + SliceSlicesIntegers),
     which the pushdown rules use to slice operands, denotes NumPy's basic slice *)
  Theorem C02_getitem_denotes_slice :
    forall x ix y, wfb x = true -> length ix = endim x -> mk_getitem x ix = Some y ->
    aeq (den y) (aslice ix (den x)) /\ idx_okb ix (eshape x) = true.
  Proof. exact (mk_getitem_sound V leafv constv fop inj). Qed.

  (* R10  Concatenate._accept_slice: Slice(Concatenate(arrays, axis), ix), slices only, unit step on the concatenation
     axis -> the pieces the slice overlaps, each sliced (public __getitem__) with its local range on [axis] and the
     unchanged slices on the other axes; pieces the slice misses are dropped; a single remaining piece is returned
     without a Concatenate node *)
  Theorem C02_rule_slice_concat_sound :
    forall before after, rule_slice_concat before = Some after -> wfb before = true ->
    aeq (den before) (den after).
  Proof. exact (rule_slice_concat_sound V leafv constv fop inj). Qed.

  (* R11  Stack._accept_slice: Slice(Stack(arrays, axis), ix), slices only, unit step on the stacked axis ->
     Stack(arrays[start:stop] each sliced with the other axes' slices, axis) *)
  Theorem C02_rule_slice_stack_sound :
    forall before after, rule_slice_stack before = Some after -> wfb before = true ->
    aeq (den before) (den after).
  Proof. exact (rule_slice_stack_sound V leafv constv fop inj). Qed.

  (* R12  BroadcastTrick._accept_slice: any basic slice (integers, steps of either sign) of ones / zeros / full is the same
     constant with the slice node's shape and chunks *)
  Theorem C02_rule_slice_full_sound :
    forall before after, rule_slice_full before = Some after ->
    aeq (den before) (den after) /\ eshape after = eshape before /\ echunks after = echunks before.
  Proof. exact (rule_slice_full_sound V leafv constv fop inj). Qed.

  (* R13  Elemwise._lower (chunk unification, unify_chunks_expr): whatever unified layout [target] the policy chooses,
     the rebuilt node denotes the same array; every operand is either untouched or rechunked to the layout the
     unification assigns to it *)
  Theorem C02_rule_elemwise_lower_sound :
    forall target before after, rule_elemwise_lower target before = Some after ->
    aeq (den before) (den after) /\ eshape after = eshape before.
  Proof. exact (rule_elemwise_lower_sound V leafv constv fop inj). Qed.

  (* Rechunk._pushdown_through_concatenate (fired from Concatenate._simplify_up(Rechunk) and from Rechunk._lower):
     Rechunk(Concatenate(parts), target) -> [Rechunk(] Concatenate(part_i.rechunk(target restricted to part i)) [, target)]:
     off-axis changes go to every part, a change on the concatenation axis is redistributed over the parts (split at the
     part boundaries) when a NumPy read absorbs its share; same values, same shape, same advertised chunks *)
  Theorem C02_rule_rechunk_concat_sound :
    forall before after, rechunk_through_concat before = Some after ->
    aeq (den before) (den after) /\ eshape after = eshape before /\ echunks after = echunks before.
  Proof. exact (rechunk_through_concat_sound V leafv constv fop inj). Qed.

  (* R16  Rechunk._pushdown_through_expand_dims / _pushdown_through_transpose.  (The transposition rule is modelled for
     a raw chunk operand that is the resolved tuple; with balance=True the real rule re-derives the rechunk from the raw
     operand and the advertised chunks change: finding C02-B, reproduced by the harness.) *)
  Theorem C02_rule_rechunk_expand_dims_sound :
    forall before after, rule_rechunk_expand_dims before = Some after ->
    aeq (den before) (den after) /\ eshape after = eshape before.
  Proof. exact (rule_rechunk_expand_dims_sound V leafv constv fop inj). Qed.

  Theorem C02_rule_rechunk_transpose_sound :
    forall before after, rule_rechunk_transpose before = Some after ->
    aeq (den before) (den after) /\ eshape after = eshape before.
  Proof. exact (rule_rechunk_transpose_sound V leafv constv fop inj). Qed.

  (* R14  Rechunk._lower: no-op removal / re-cut NumPy read / pushdown through a concatenation / composition with a
     contiguous slice (aligned-Slice(TasksRechunk(x, expanded))) / TasksRechunk — for either answer of the method
     oracle; the advertised shape is kept, and so are the advertised chunks when the result is not the slice composition *)
  Theorem C02_rule_rechunk_lower_sound :
    forall choose_p2p before after, rule_rechunk_lower choose_p2p before = Some after -> wfb before = true ->
    aeq (den before) (den after) /\ eshape after = eshape before /\
    (is_slice after = false -> echunks after = echunks before).
  Proof. exact (rule_rechunk_lower_sound V leafv constv fop inj). Qed.

  (* R15  BroadcastTo._accept_slice: Slice(BroadcastTo(x, shape), ix), unit-step slices only ->
     BroadcastTo(x[ix on x's real axes, slice(None) on its size-1 axes], sliced shape) *)
  Theorem C02_rule_slice_broadcast_to_sound :
    forall before after, rule_slice_broadcast_to before = Some after -> wfb before = true ->
    aeq (den before) (den after) /\ eshape after = eshape before.
  Proof. exact (rule_slice_broadcast_to_sound V leafv constv fop inj). Qed.
End Rules.

Theorem C02_rule_elemwise_lower_operands :
  forall target op args after, rule_elemwise_lower target (EElemwise op args) = Some after ->
  exists args', after = EElemwise op args' /\
    Forall2 (fun a a' => a' = a \/ a' = ERechunk a 0 (unify_arg_chunks (eshape a) target) 0 false false) args args'.
Proof. exact rule_elemwise_lower_args. Qed.

(* ... and after it every array operand (whose chunks have no empty axis) advertises the layout the unification assigns to it:
   chunkss[j] on its axes of size > 1 or 0, (size,) on its size-1 axes *)
Theorem C02_rule_elemwise_lower_aligned :
  forall target op args after, rule_elemwise_lower target (EElemwise op args) = Some after ->
  exists args', after = EElemwise op args' /\
    Forall2 (fun a a' => is_const a = true \/
               forall ca, echunks a = Some ca -> forallb (fun d => negb (Nat.eqb (length d) 0)) ca = true ->
                          echunks a' = Some (unify_arg_chunks (eshape a) target)) args args'.
Proof. exact rule_elemwise_lower_aligned. Qed.

(* ---------------------------------------------------------------------- *)
(* Non-vacuity: each rule fires on a concrete well-formed instance, and the two sides
   evaluate to the same values (V := Z; a leaf's value at an index encodes the leaf and the index). *)
Definition ex_leafv (id : Z) (idx : list Z) : Z := fold_left (fun acc i => acc * 10 + i) idx id.
Definition ex_fop (op : Z) (vs : list Z) : Z := fold_left (fun acc v => acc * 1000 + v) vs op.
Definition ex_den := den Z ex_leafv (fun id => 7 * id) ex_fop (fun z => z).

Example C02_rule_slice_slice_ex :
  let x := ELeaf 1 [10; 4] [[5; 5]; [4]] in
  let before := ESlice (ESlice x [ISlice (mkslice (Some 2) None (Some 3)); IInt (-1)] true)
                       [ISlice (mkslice (Some 1) (Some 3) None)] true in
  let after := ESlice x [ISlice (mkslice (Some 5) None (Some 3)); IInt (-1)] true in
  wfb before = true /\ rule_slice_slice before = Some after /\ eshape before = [2] /\
  to_list (ex_den before) = [153; 183] /\ to_list (ex_den after) = [153; 183].
Proof. vm_compute. repeat split; reflexivity. Qed.

Example C02_rule_slice_identity_ex :
  let x := ELeaf 1 [2; 3] [[2]; [3]] in
  let before := ESlice x [ISlice colon; ISlice colon] true in
  wfb before = true /\ rule_slice_down before = Some x /\ to_list (ex_den before) = to_list (ex_den x).
Proof. vm_compute. repeat split; reflexivity. Qed.

Example C02_rule_slice_elemwise_ex :
  (* where(c, x, y)[1::2, 2] with y broadcast from shape (1, 3), c from (3,), and a scalar *)
  let x := ELeaf 1 [4; 3] [[2; 2]; [3]] in
  let y := ELeaf 2 [1; 3] [[1]; [3]] in
  let c := ELeaf 3 [3] [[3]] in
  let before := ESlice (EElemwise 9 [c; x; y; EConst 5]) [ISlice (mkslice (Some 1) None (Some 2)); IInt 2] true in
  let after := EElemwise 9 [ESlice c [IInt 2] true;
                            ESlice x [ISlice (mkslice (Some 1) None (Some 2)); IInt 2] true;
                            ESlice y [ISlice colon; IInt 2] true;
                            EConst 5] in
  wfb before = true /\ rule_slice_elemwise before = Some after /\ eshape before = [2] /\
  to_list (ex_den before) = to_list (ex_den after) /\ length (to_list (ex_den after)) = 2%nat.
Proof. vm_compute. repeat split; reflexivity. Qed.

Example C02_rule_transpose_ex :
  let x := ELeaf 1 [2; 3; 4] [[2]; [3]; [4]] in
  let before := ETranspose (ETranspose x [2; 0; 1]%nat) [1; 2; 0]%nat in
  let after := ETranspose x [0; 1; 2]%nat in
  wfb before = true /\ rule_transpose_transpose before = Some after /\
  rule_transpose_identity after = Some x /\ to_list (ex_den before) = to_list (ex_den x).
Proof. vm_compute. repeat split; reflexivity. Qed.

Example C02_rule_slice_transpose_ex :
  (* x.transpose(2, 0, 1)[::-1, 1, 1:] : the integer drops input axis 0, the remaining axes (2, 1) renumber to (1, 0) *)
  let x := ELeaf 1 [2; 3; 4] [[2]; [3]; [2; 2]] in
  let before := ESlice (ETranspose x [2; 0; 1]%nat)
                       [ISlice (mkslice None None (Some (-1))); IInt 1; ISlice (mkslice (Some 1) None None)] true in
  let after := ETranspose (ESlice x [IInt 1; ISlice (mkslice (Some 1) None None); ISlice (mkslice None None (Some (-1)))] true)
                          [1; 0]%nat in
  wfb before = true /\ rule_slice_transpose before = Some after /\ eshape before = [4; 2] /\
  to_list (ex_den before) = to_list (ex_den after) /\ length (to_list (ex_den after)) = 8%nat.
Proof. vm_compute. repeat split; reflexivity. Qed.

Example C02_rule_slice_arange_ex :
  let before := ESlice (EArange 3 2 10 [4; 6]) [ISlice (mkslice (Some 8) (Some 1) (Some (-3)))] true in
  wfb before = true /\ rule_slice_arange before = Some (EArange 19 (-6) 3 [2; 1]) /\
  to_list (ex_den before) = [19; 13; 7] /\ to_list (ex_den (EArange 19 (-6) 3 [2; 1])) = [19; 13; 7].
Proof. vm_compute. repeat split; reflexivity. Qed.

(* a negative integer in the slice node (which the public API never builds: normalize_index posifies) is read as the
   empty region i:i+1 = -1:0; the rule function then denotes x[0] instead of x[-1] *)
Theorem C02_rule_slice_fromarray_negative_int_refuted :
  exists limit before after,
    rule_slice_fromarray limit before = Some after /\ wfb before = true /\
    ~ aeq (ex_den before) (ex_den after).
Proof.
  exists 1000, (ESlice (ESource (SBase 1 [3]) [[2; 1]] None true 8 0) [IInt (-1)] true).
  eexists. split; [vm_compute; reflexivity|]. split; [reflexivity|].
  intros [_ Hg]. specialize (Hg [] I). vm_compute in Hg. discriminate.
Qed.

(* expand_dims(x, 0)[-5:0:-1] : on the size-1 axis the slice is empty (start clips to the -1 sentinel), but the
   acceptance test  stop > start  of  indices(1) = (-1, 0, -1)  passes and the axis is kept with size 1.
   Only an un-normalised slice does this: normalize_slice turns it into 0:0:-1, which the rule declines. *)
Theorem C02_rule_slice_expand_dims_unnormalized_refuted :
  exists before after,
    rule_slice_expand_dims before = Some after /\ wfb before = true /\
    eshape before = [0; 2] /\ eshape after = [1; 2] /\ ~ aeq (ex_den before) (ex_den after).
Proof.
  exists (ESlice (EExpandDims (ELeaf 1 [2] [[2]]) [0%nat])
                 [ISlice (mkslice (Some (-5)) (Some 0) (Some (-1))); ISlice colon] true).
  eexists. split; [vm_compute; reflexivity|]. split; [reflexivity|]. split; [reflexivity|]. split; [reflexivity|].
  intros [Hs _]. vm_compute in Hs. discriminate.
Qed.

Example C02_rule_slice_expand_dims_ex :
  (* x[:, None, :, None][1:, 0, ::2, :] : the integer removes the first expanded axis, the second one moves to 2 *)
  let x := ELeaf 1 [3; 4] [[3]; [4]] in
  let before := ESlice (EExpandDims x [1; 3]%nat)
                       [ISlice (mkslice (Some 1) None None); IInt 0; ISlice (mkslice None None (Some 2)); ISlice colon] true in
  let after := EExpandDims (ESlice x [ISlice (mkslice (Some 1) None None); ISlice (mkslice None None (Some 2))] true) [2%nat] in
  wfb before = true /\ xnormb [1; 3]%nat 0 [ISlice (mkslice (Some 1) None None); IInt 0; ISlice (mkslice None None (Some 2)); ISlice colon] = true /\
  rule_slice_expand_dims before = Some after /\ eshape before = [2; 2; 1] /\
  to_list (ex_den before) = to_list (ex_den after) /\ to_list (ex_den after) = [110; 112; 120; 122].
Proof. vm_compute. repeat split; reflexivity. Qed.

Example C02_rule_slice_fromarray_ex :
  (* from_array(a, chunks=((2,2,2),(3,)))[1:5][1:, 2] : regions compose, the integer is read as 2:3 and extracted *)
  let x := ESource (SBase 1 [6; 3]) [[1; 2; 1]; [3]] (Some [mkslice (Some 1) (Some 5) None; colon]) true 8 0 in
  let before := ESlice x [ISlice (mkslice (Some 1) None None); IInt 2] true in
  let after := ESlice (ESource (SBase 1 [6; 3]) [[2; 1]; [1]]
                               (Some [mkslice (Some 2) (Some 5) None; mkslice (Some 2) (Some 3) None]) true 8 0)
                      [ISlice colon; IInt 0] false in
  wfb before = true /\ ints_nonnegb [ISlice (mkslice (Some 1) None None); IInt 2] = true /\
  rule_slice_fromarray (-1) before = Some after /\ eshape before = [3] /\
  to_list (ex_den before) = [122; 132; 142] /\ to_list (ex_den after) = [122; 132; 142] /\
  (* with the eager-copy branch (limit 64 MiB) the source itself is replaced *)
  rule_slice_fromarray 67108864 before =
    Some (ESlice (ESource (SSliced (SBase 1 [6; 3]) [mkslice (Some 2) (Some 5) None; mkslice (Some 2) (Some 3) None])
                          [[2; 1]; [1]] None true 8 0) [ISlice colon; IInt 0] false).
Proof. vm_compute. repeat split; reflexivity. Qed.

Example C02_rule_rechunk_elemwise_ex :
  let x := ELeaf 1 [4; 6] [[4]; [2; 4]] in let y := ELeaf 2 [1; 6] [[1]; [3; 3]] in
  rule_rechunk_elemwise (ERechunk (EElemwise 3 [x; y; EConst 1]) 0 [[2; 2]; [3; 3]] 0 false false)
  = Some (EElemwise 3 [ERechunk x 0 [[2; 2]; [3; 3]] 0 false false; y; EConst 1]).
Proof. vm_compute. reflexivity. Qed.

Example C02_rule_rechunk_ex :
  let x := ELeaf 1 [6] [[2; 4]] in
  rule_rechunk_rechunk (ERechunk (ERechunk x 1 [[3; 3]] 0 false false) 2 [[6]] 0 false false)
    = Some (ERechunk x 2 [[6]] 0 false false) /\
  rule_rechunk_noop (ERechunk x 3 [[2; 4]] 0 false false) = Some x /\
  rule_rechunk_noop (ERechunk x 3 [[4; 2]] 0 false false) = None.
Proof. vm_compute. repeat split; reflexivity. Qed.

Example C02_rule_slice_concat_ex :
  (* concatenate([x(4,3), y(5,3), z(2,3)])[3:8, ::2] : one row of x, four of y, z is dropped *)
  let x := ELeaf 1 [4; 3] [[4]; [3]] in let y := ELeaf 2 [5; 3] [[2; 3]; [3]] in let z := ELeaf 3 [2; 3] [[2]; [3]] in
  let every2 := ISlice (mkslice None None (Some 2)) in
  let before := ESlice (EConcat x 0 [y; z]) [ISlice (mkslice (Some 3) (Some 8) None); every2] true in
  let after := EConcat (ESlice x [ISlice (mkslice (Some 3) None None); every2] true) 0
                       [ESlice y [ISlice (mkslice None (Some 4) None); every2] true] in
  wfb before = true /\ rule_slice_concat before = Some after /\ eshape before = [5; 2] /\
  to_list (ex_den before) = [130; 132; 200; 202; 210; 212; 220; 222; 230; 232] /\
  to_list (ex_den after) = to_list (ex_den before) /\
  (* a slice inside one piece: no Concatenate node *)
  rule_slice_concat (ESlice (EConcat x 0 [y; z]) [ISlice (mkslice (Some 5) (Some 8) None); ISlice colon] true)
    = Some (ESlice y [ISlice (mkslice (Some 1) (Some 4) None); ISlice colon] true).
Proof. vm_compute. repeat split; reflexivity. Qed.

Example C02_rule_slice_stack_ex :
  (* stack([u, v, w], axis=1)[:, 1:, ::-1] *)
  let u := ELeaf 1 [2; 3] [[2]; [3]] in let v := ELeaf 2 [2; 3] [[2]; [3]] in let w := ELeaf 3 [2; 3] [[2]; [3]] in
  let rev := ISlice (mkslice None None (Some (-1))) in
  let before := ESlice (EStack u 1 [v; w]) [ISlice colon; ISlice (mkslice (Some 1) None None); rev] true in
  let after := EStack (ESlice v [ISlice colon; rev] true) 1 [ESlice w [ISlice colon; rev] true] in
  wfb before = true /\ rule_slice_stack before = Some after /\ eshape before = [2; 2; 3] /\
  to_list (ex_den before) = [202; 201; 200; 302; 301; 300; 212; 211; 210; 312; 311; 310] /\
  to_list (ex_den after) = to_list (ex_den before).
Proof. vm_compute. repeat split; reflexivity. Qed.

Example C02_rule_slice_full_ex :
  let before := ESlice (EFull 4 [6; 4] [[2; 4]; [4]]) [ISlice (mkslice (Some 1) (Some 5) None); IInt 2] true in
  rule_slice_full before = Some (EFull 4 [4] [[1; 3]]) /\ to_list (ex_den before) = [28; 28; 28; 28].
Proof. vm_compute. repeat split; reflexivity. Qed.

Example C02_rule_slice_broadcast_to_ex :
  (* broadcast_to(x(1,4), (2,3,4))[1:, :2, 1:3] : the new axis and the stretched axis only shrink the target shape *)
  let x := ELeaf 1 [1; 4] [[1]; [2; 2]] in
  let before := ESlice (EBroadcastTo x [2; 3; 4] [[2]; [1; 2]; [2; 2]])
                       [ISlice (mkslice (Some 1) None None); ISlice (mkslice None (Some 2) None); ISlice (mkslice (Some 1) (Some 3) None)] true in
  let after := EBroadcastTo (ESlice x [ISlice colon; ISlice (mkslice (Some 1) (Some 3) None)] true) [1; 2; 2] [[1]; [1; 1]; [1; 1]] in
  wfb before = true /\ rule_slice_broadcast_to before = Some after /\
  to_list (ex_den before) = [101; 102; 101; 102] /\ to_list (ex_den after) = [101; 102; 101; 102].
Proof. vm_compute. repeat split; reflexivity. Qed.

Example C02_rule_elemwise_lower_ex :
  let p := ELeaf 1 [4; 6] [[4]; [2; 4]] in let q := ELeaf 2 [1; 6] [[1]; [3; 3]] in
  let before := EElemwise 3 [p; q; EConst 1] in
  (* refinement chosen: both operands move; q keeps (1,) on its size-1 axis *)
  rule_elemwise_lower [[2; 2]; [2; 1; 3]] before
    = Some (EElemwise 3 [ERechunk p 0 [[2; 2]; [2; 1; 3]] 0 false false; ERechunk q 0 [[1]; [2; 1; 3]] 0 false false; EConst 1]) /\
  (* p's layout chosen: only q moves *)
  rule_elemwise_lower [[4]; [2; 4]] before = Some (EElemwise 3 [p; ERechunk q 0 [[1]; [2; 4]] 0 false false; EConst 1]) /\
  (* nothing to do: the rule declines *)
  rule_elemwise_lower [[4]; [2; 4]] (EElemwise 3 [p; EConst 1]) = None.
Proof. vm_compute. repeat split; reflexivity. Qed.

Example C02_rule_rechunk_concat_ex :
  (* concatenate([read(7) chunked (2,5), b(2)]).rechunk((2,3,4)): the read absorbs (2,3,2); the chunk 4 straddles the seam,
     so a residual rechunk stays above *)
  let a := ESource (SBase 1 [7]) [[2; 5]] None true 8 0 in let b := ELeaf 2 [2] [[2]] in
  let before := ERechunk (EConcat a 0 [b]) 0 [[2; 3; 4]] 0 false false in
  let after := ERechunk (EConcat (ERechunk a 0 [[2; 3; 2]] 0 false false) 0 [b]) 0 [[2; 3; 4]] 0 false false in
  rechunk_through_concat before = Some after /\ echunks after = Some [[2; 3; 4]] /\
  (* no read to absorb the redistribution: declined *)
  rechunk_through_concat (ERechunk (EConcat (ELeaf 3 [7] [[2; 5]]) 0 [b]) 0 [[2; 3; 4]] 0 false false) = None /\
  (* off-axis: every part is rechunked, no residual *)
  (let p := ELeaf 4 [3; 4] [[3]; [4]] in let q := ELeaf 5 [3; 4] [[3]; [4]] in
   rechunk_through_concat (ERechunk (EConcat p 0 [q]) 0 [[3; 3]; [1; 3]] 0 false false)
   = Some (EConcat (ERechunk p 0 [[3]; [1; 3]] 0 false false) 0 [ERechunk q 0 [[3]; [1; 3]] 0 false false])).
Proof. vm_compute. repeat split; reflexivity. Qed.

Example C02_rule_rechunk_view_ex :
  let x := ELeaf 1 [4; 6] [[4]; [6]] in
  rule_rechunk_transpose (ERechunk (ETranspose x [1; 0]%nat) 0 [[3; 3]; [2; 2]] 0 false false)
    = Some (ETranspose (ERechunk x 0 [[2; 2]; [3; 3]] 0 false false) [1; 0]%nat) /\
  rule_rechunk_transpose (ERechunk (ETranspose x [1; 0]%nat) 0 [[6]; [4]] 0 false false) = Some (ETranspose x [1; 0]%nat) /\
  rule_rechunk_expand_dims (ERechunk (EExpandDims x [0; 2]%nat) 0 [[1]; [2; 2]; [1]; [6]] 0 true false)
    = Some (EExpandDims (ERechunk x 0 [[2; 2]; [6]] 0 false false) [0; 2]%nat).
Proof. vm_compute. repeat split; reflexivity. Qed.

Example C02_rule_rechunk_lower_ex :
  let x := ELeaf 1 [10] [[4; 6]] in
  let off_grid := ERechunk (ESlice x [ISlice (mkslice (Some 3) (Some 9) None)] true) 0 [[3; 3]] 0 false false in
  let composed := ESlice (ETasksRechunk x [[3; 3; 3; 1]] 0) [ISlice (mkslice (Some 3) (Some 9) None)] true in
  wfb off_grid = true /\ rule_rechunk_lower false off_grid = Some composed /\ echunks composed = Some [[3; 3]] /\
  to_list (ex_den off_grid) = to_list (ex_den composed) /\ length (to_list (ex_den composed)) = 6%nat /\
  (* a slice on x's block grid is not composed *)
  rule_rechunk_lower false (ERechunk (ESlice x [ISlice (mkslice (Some 4) (Some 10) None)] true) 0 [[3; 3]] 0 false false)
    = Some (ETasksRechunk (ESlice x [ISlice (mkslice (Some 4) (Some 10) None)] true) [[3; 3]] 0) /\
  rule_rechunk_lower false (ERechunk x 0 [[5; 5]] 0 false false) = Some (ETasksRechunk x [[5; 5]] 0) /\
  rule_rechunk_lower false (ERechunk x 0 [[4; 6]] 0 false false) = Some x /\
  rule_rechunk_lower true (ERechunk x 0 [[5; 5]] 0 false false) = None.
Proof. vm_compute. repeat split; reflexivity. Qed.

Print Assumptions C02_slice_slice_rule.
Print Assumptions C02_rule_slice_identity_sound.
Print Assumptions C02_rule_slice_slice_sound.
Print Assumptions C02_rule_slice_down_sound.
Print Assumptions C02_rule_slice_elemwise_sound.
Print Assumptions C02_rule_slice_transpose_sound.
Print Assumptions C02_rule_slice_arange_sound.
Print Assumptions C02_rule_slice_expand_dims_sound.
Print Assumptions C02_rule_slice_expand_dims_unnormalized_refuted.
Print Assumptions C02_rule_slice_fromarray_sound.
Print Assumptions C02_rule_rechunk_fromarray_sound.
Print Assumptions C02_rule_rechunk_elemwise_sound.
Print Assumptions C02_rule_slice_fromarray_negative_int_refuted.
Print Assumptions C02_rule_transpose_down_sound.
Print Assumptions C02_rule_transpose_transpose_sound.
Print Assumptions C02_rule_transpose_identity_sound.
Print Assumptions C02_rule_rechunk_rechunk_sound.
Print Assumptions C02_rule_rechunk_noop_sound.
Print Assumptions C02_getitem_denotes_slice.
Print Assumptions C02_rule_slice_concat_sound.
Print Assumptions C02_rule_slice_stack_sound.
Print Assumptions C02_rule_slice_full_sound.
Print Assumptions C02_rule_elemwise_lower_sound.
Print Assumptions C02_rule_elemwise_lower_operands.
Print Assumptions C02_rule_elemwise_lower_aligned.
Print Assumptions C02_rule_rechunk_lower_sound.
Print Assumptions C02_rule_slice_broadcast_to_sound.
Print Assumptions C02_rule_rechunk_concat_sound.
Print Assumptions C02_rule_rechunk_expand_dims_sound.
Print Assumptions C02_rule_rechunk_transpose_sound.
