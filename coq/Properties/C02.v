(* C02 — Every optimization phase and every fired rewrite preserves values.
   Slice-over-slice fusion (the Slice._simplify_down rule) is the C13 theorem;
   further rule theorems are added with the expression calculus. *)
From DA Require Import PyBase Slicing FuseFacts.
Open Scope Z_scope.

(* the Slice(Slice(x)) -> Slice(x) rule: the fused index selects what applying the two
   indices one after the other selects, on every axis length *)
Theorem C02_slice_slice_rule :
  forall a b c n, 0 <= n -> step_of a <> 0 -> step_of b <> 0 ->
  fuse_slice_ss a b = Some c ->
  pick (sel a n) (sel b (slice_len a n)) = sel c n.
Proof. exact fuse_slice_ss_exact. Qed.
Print Assumptions C02_slice_slice_rule.
